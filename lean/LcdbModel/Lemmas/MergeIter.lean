/-
  The merging iterator (`Model/MergeIter.lean`, merger.c) over children that are cursors over
  strictly sorted runs with pairwise distinct internal keys IS a cursor over the sorted union
  `mergedRun c runs` (core Lean only).
-/
import LcdbModel.Lemmas.IterSimDefs
import LcdbModel.Lemmas.Lsm
namespace Lcdb.Merge
open Lcdb Lcdb.Lsm Lcdb.CmpBasic

/-! ### `entryCmp` versus `entryLt` -/

theorem entryLt_eq_cmp (c : Cmp) (a b : Entry) : entryLt c a b = (entryCmp c a b == .lt) := by
  unfold entryLt entryCmp ikLt ikCmp3
  cases h : c.compare a.ukey b.ukey <;> simp
  by_cases h1 : b.packed < a.packed
  · simp [h1]
  · by_cases h2 : a.packed < b.packed <;> simp [h1, h2]

theorem entryLt_swap_eq_cmp (c : Cmp) (a b : Entry) : entryLt c b a = (entryCmp c a b == .gt) := by
  unfold entryLt entryCmp ikLt ikCmp3
  rw [compare_swap c a.ukey b.ukey]
  cases h : c.compare a.ukey b.ukey <;> simp
  by_cases h1 : b.packed < a.packed
  · simp [h1]; omega
  · by_cases h2 : a.packed < b.packed <;> simp [h1, h2]

theorem entryCmp_eq_iff (c : Cmp) (a b : Entry) :
    entryCmp c a b = .eq ↔ entryLt c a b = false ∧ entryLt c b a = false := by
  rw [entryLt_eq_cmp, entryLt_swap_eq_cmp]
  cases entryCmp c a b <;> simp

theorem entryCmp_self (c : Cmp) (a : Entry) : entryCmp c a a = .eq := by
  rw [entryCmp_eq_iff]; simp [entryLt_irrefl]

theorem entryCmp_ne_symm (c : Cmp) {a b : Entry} (h : entryCmp c a b ≠ .eq) : entryCmp c b a ≠ .eq := by
  intro h'
  rw [entryCmp_eq_iff] at h'
  exact h ((entryCmp_eq_iff c a b).mpr ⟨h'.2, h'.1⟩)

/-- `a ≤ b`, `b < d` gives `a < d` -/
theorem entryLt_of_not_lt_of_lt (c : Cmp) {a b d : Entry} (h1 : entryLt c b a = false)
    (h2 : entryLt c b d = true) : entryLt c a d = true := ikLt_of_not_lt_of_lt c h1 h2

/-- `a < b`, `b ≤ d` gives `a < d` -/
theorem entryLt_of_lt_of_not_lt (c : Cmp) {a b d : Entry} (h1 : entryLt c a b = true)
    (h2 : entryLt c d b = false) : entryLt c a d = true := ikLt_of_lt_of_not_lt c h1 h2

/-! ### `mkRun`: insertion sort -/

theorem runInsert_perm (c : Cmp) (e : Entry) (r : Run) : (runInsert c e r).Perm (e :: r) := by
  induction r with
  | nil => exact List.Perm.refl _
  | cons x xs ih =>
    simp only [runInsert]
    split
    · exact List.Perm.refl _
    · exact ((List.Perm.cons x ih).trans (List.Perm.swap e x xs))

theorem foldl_runInsert_perm (c : Cmp) (es : List Entry) (acc : Run) :
    (es.foldl (fun r e => runInsert c e r) acc).Perm (es ++ acc) := by
  induction es generalizing acc with
  | nil => exact List.Perm.refl _
  | cons e es ih =>
    simp only [List.foldl_cons]
    refine (ih _).trans ?_
    refine (List.Perm.append_left es (runInsert_perm c e acc)).trans ?_
    simp

theorem mkRun_perm' (c : Cmp) (es : List Entry) : (mkRun c es).Perm es := by
  simpa [mkRun] using foldl_runInsert_perm c es []

theorem runInsert_sorted (c : Cmp) (e : Entry) (r : Run) (hs : RunSorted c r)
    (hd : ∀ x ∈ r, entryCmp c e x ≠ .eq) : RunSorted c (runInsert c e r) := by
  induction r with
  | nil => simp [runInsert, RunSorted]
  | cons x xs ih =>
    unfold RunSorted at hs
    rw [List.pairwise_cons] at hs
    simp only [runInsert]
    split
    · rename_i hlt
      unfold RunSorted
      rw [List.pairwise_cons]
      refine ⟨?_, List.pairwise_cons.mpr hs⟩
      intro y hy
      rcases List.mem_cons.mp hy with rfl | hy
      · exact hlt
      · exact entryLt_trans c hlt (hs.1 y hy)
    · rename_i hlt
      have hxe : entryLt c x e = true := by
        have hne := hd x (List.mem_cons_self)
        rw [Ne, entryCmp_eq_iff] at hne
        cases h : entryLt c x e with
        | true => rfl
        | false => exact absurd ⟨by simpa using hlt, h⟩ hne
      have ih' := ih hs.2 (fun y hy => hd y (List.mem_cons_of_mem _ hy))
      unfold RunSorted
      rw [List.pairwise_cons]
      refine ⟨?_, ih'⟩
      intro y hy
      rcases List.mem_cons.mp ((runInsert_perm c e xs).mem_iff.mp hy) with rfl | hy
      · exact hxe
      · exact hs.1 y hy

theorem foldl_runInsert_sorted (c : Cmp) (es : List Entry) (acc : Run) (hs : RunSorted c acc)
    (hp : es.Pairwise (fun a b => entryCmp c a b ≠ .eq))
    (hx : ∀ a ∈ acc, ∀ e ∈ es, entryCmp c e a ≠ .eq) :
    RunSorted c (es.foldl (fun r e => runInsert c e r) acc) := by
  induction es generalizing acc with
  | nil => exact hs
  | cons e es ih =>
    simp only [List.foldl_cons]
    rw [List.pairwise_cons] at hp
    apply ih
    · exact runInsert_sorted c e acc hs (fun x hx' => hx x hx' e List.mem_cons_self)
    · exact hp.2
    · intro a ha e' he'
      rcases List.mem_cons.mp ((runInsert_perm c e acc).mem_iff.mp ha) with rfl | ha
      · exact entryCmp_ne_symm c (hp.1 e' he')
      · exact hx a ha e' (List.mem_cons_of_mem _ he')

theorem mergedRun_perm (c : Cmp) (runs : List Run) : (mergedRun c runs).Perm runs.flatten :=
  mkRun_perm' c _

theorem mergedRun_length (c : Cmp) (runs : List Run) :
    (mergedRun c runs).length = (runs.map List.length).sum := by
  rw [(mergedRun_perm c runs).length_eq, List.length_flatten]

theorem mergedRun_sorted (c : Cmp) (runs : List Run) (hd : DistinctKeys c runs) :
    RunSorted c (mergedRun c runs) := by
  unfold mergedRun mkRun
  apply foldl_runInsert_sorted c _ [] (by simp [RunSorted]) hd
  intro a ha; cases ha

/-! ### strictly sorted lists -/

theorem sorted_lt_iff {c : Cmp} {r : Run} (hs : RunSorted c r) {i j : Nat} (hi : i < r.length)
    (hj : j < r.length) : entryLt c r[i] r[j] = true ↔ i < j := by
  have hp := List.pairwise_iff_getElem.mp hs
  constructor
  · intro h
    rcases Nat.lt_trichotomy i j with hij | hij | hij
    · exact hij
    · subst hij; rw [entryLt_irrefl] at h; cases h
    · have := hp j i hj hi hij
      rw [entryLt_asymm c this] at h; cases h
  · exact hp i j hi hj

theorem sorted_not_lt_iff {c : Cmp} {r : Run} (hs : RunSorted c r) {i j : Nat} (hi : i < r.length)
    (hj : j < r.length) : entryLt c r[i] r[j] = false ↔ j ≤ i := by
  rw [← Bool.not_eq_true, sorted_lt_iff hs hi hj]; omega

/-! ### cut positions -/

/-- number of leading entries of `r` satisfying `P` (for a down-closed `P`: the size of the cut) -/
def cutIdx (P : Entry → Bool) (r : Run) : Nat := r.findIdx (fun e => !P e)

/-- index `n` as a cursor position in a run of length `len` -/
def toPos (n len : Nat) : Option Nat := if n < len then some n else none

/-- the position before index `n` -/
def predPos : Nat → Option Nat
  | 0 => none
  | n + 1 => some n

theorem cutIdx_le {P : Entry → Bool} {r : Run} : cutIdx P r ≤ r.length := List.findIdx_le_length

theorem cutIdx_before {P : Entry → Bool} {r : Run} {j : Nat} (h : j < cutIdx P r) :
    P (r[j]'(Nat.lt_of_lt_of_le h cutIdx_le)) = true := by
  have := List.not_of_lt_findIdx h
  simpa using this

theorem cutIdx_at {P : Entry → Bool} {r : Run} (h : cutIdx P r < r.length) :
    P r[cutIdx P r] = false := by
  have := List.findIdx_getElem (p := fun e => !P e) (xs := r) (w := h)
  simp only [Bool.not_eq_eq_eq_not, Bool.not_true] at this
  exact this

theorem cutIdx_eq {P : Entry → Bool} {r : Run} {n : Nat} (hn : n ≤ r.length)
    (h1 : ∀ j (hj : j < n), P (r[j]'(Nat.lt_of_lt_of_le hj hn)) = true)
    (h2 : ∀ h : n < r.length, P r[n] = false) : cutIdx P r = n := by
  rcases Nat.lt_trichotomy (cutIdx P r) n with h | h | h
  · have := cutIdx_at (Nat.lt_of_lt_of_le h hn)
    rw [h1 _ h] at this; cases this
  · exact h
  · have hlt : n < r.length := Nat.lt_of_lt_of_le h cutIdx_le
    have := cutIdx_before h
    rw [h2 hlt] at this; cases this

theorem cutIdx_congr {P Q : Entry → Bool} {r : Run} (h : ∀ e ∈ r, P e = Q e) :
    cutIdx P r = cutIdx Q r := by
  unfold cutIdx
  induction r with
  | nil => rfl
  | cons x xs ih =>
    rw [List.findIdx_cons, List.findIdx_cons, h x List.mem_cons_self,
      ih (fun e he => h e (List.mem_cons_of_mem _ he))]

theorem cutIdx_eq_length {P : Entry → Bool} {r : Run} (h : ∀ e ∈ r, P e = true) :
    cutIdx P r = r.length := by
  apply cutIdx_eq (Nat.le_refl _)
  · intro j hj; exact h _ (List.getElem_mem _)
  · intro h'; omega

theorem runSeekIdx_eq (c : Cmp) (r : Run) (k : Bytes) (pk : Nat) :
    runSeekIdx c r k pk = toPos (cutIdx (fun e => ikLt c e.ukey e.packed k pk) r) r.length := by
  unfold runSeekIdx cutIdx toPos
  rw [List.findIdx?_eq_guard_findIdx_lt]
  simp [Option.guard]

theorem runSeekIdx_entry (c : Cmp) (r : Run) (E : Entry) :
    runSeekIdx c r E.ukey E.packed = toPos (cutIdx (fun e => entryLt c e E) r) r.length :=
  runSeekIdx_eq c r E.ukey E.packed

theorem cutIdx_below_self {c : Cmp} {r : Run} (hs : RunSorted c r) {n : Nat} (hn : n < r.length) :
    cutIdx (fun e => entryLt c e r[n]) r = n :=
  cutIdx_eq (Nat.le_of_lt hn) (fun _ hj => (sorted_lt_iff hs _ _).mpr hj)
    (fun _ => entryLt_irrefl _ _)

theorem cutIdx_upto_self {c : Cmp} {r : Run} (hs : RunSorted c r) {n : Nat} (hn : n < r.length) :
    cutIdx (fun e => !entryLt c r[n] e) r = n + 1 := by
  apply cutIdx_eq hn
  · intro j hj
    have : entryLt c r[n] (r[j]'(by omega)) = false := (sorted_not_lt_iff hs _ _).mpr (by omega)
    simp [this]
  · intro h
    have : entryLt c r[n] r[n + 1] = true := (sorted_lt_iff hs _ _).mpr (by omega)
    simp [this]

/-- in a sorted run the entries before a target form the cut at `cutIdx` -/
theorem sorted_cut_ikLt {c : Cmp} {r : Run} (hs : RunSorted c r) (k : Bytes) (pk : Nat) (j : Nat)
    (hj : j < r.length) :
    ikLt c r[j].ukey r[j].packed k pk = true ↔ j < cutIdx (fun e => ikLt c e.ukey e.packed k pk) r := by
  constructor
  · intro h
    apply Nat.lt_of_not_le
    intro hle
    have hlt : cutIdx (fun e => ikLt c e.ukey e.packed k pk) r < r.length := by omega
    have hat := cutIdx_at hlt
    rcases Nat.lt_or_eq_of_le hle with h' | h'
    · have h1 : entryLt c r[cutIdx (fun e => ikLt c e.ukey e.packed k pk) r] r[j] = true :=
        (sorted_lt_iff hs _ _).mpr h'
      have := ikLt_trans c h1 h
      rw [this] at hat; cases hat
    · simp only [h'] at hat
      rw [h] at hat; cases hat
  · intro h
    exact cutIdx_before (P := fun e => ikLt c e.ukey e.packed k pk) h

/-! ### the merged run -/

theorem mem_mergedRun {c : Cmp} {runs : List Run} {e : Entry} :
    e ∈ mergedRun c runs ↔ ∃ r ∈ runs, e ∈ r := by
  rw [(mergedRun_perm c runs).mem_iff, List.mem_flatten]

theorem distinct_cross {c : Cmp} {runs : List Run} (hd : DistinctKeys c runs) {i j : Nat}
    {r r' : Run} (hi : runs[i]? = some r) (hj : runs[j]? = some r') (hne : i ≠ j) {a b : Entry}
    (ha : a ∈ r) (hb : b ∈ r') : entryCmp c a b ≠ .eq := by
  have hp := List.pairwise_iff_getElem.mp (List.pairwise_flatten.mp hd).2
  obtain ⟨hi', rfl⟩ := List.getElem?_eq_some_iff.mp hi
  obtain ⟨hj', rfl⟩ := List.getElem?_eq_some_iff.mp hj
  rcases Nat.lt_or_gt_of_ne hne with h | h
  · exact hp i j hi' hj' h a ha b hb
  · exact entryCmp_ne_symm c (hp j i hj' hi' h b hb a ha)

theorem not_mem_other {c : Cmp} {runs : List Run} (hd : DistinctKeys c runs) {i j : Nat}
    {r r' : Run} (hi : runs[i]? = some r) (hj : runs[j]? = some r') (hne : i ≠ j) {a : Entry}
    (ha : a ∈ r) : a ∉ r' :=
  fun hb => distinct_cross hd hi hj hne ha hb (entryCmp_self c a)

/-! ### `pickGo`, `findSmallest`, `findLargest` -/

theorem pickGo_none {better : Entry → Entry → Bool} {l : List (Nat × MChild)}
    {acc : Option (Nat × Entry)} (h : pickGo better l acc = none) :
    acc = none ∧ ∀ p ∈ l, p.2.entry = none := by
  induction l generalizing acc with
  | nil => exact ⟨h, fun _ hp => by cases hp⟩
  | cons p rest ih =>
    obtain ⟨i, ch⟩ := p
    simp only [pickGo] at h
    have ih' := ih h
    cases he : ch.entry with
    | none =>
      simp only [he] at ih'
      refine ⟨ih'.1, ?_⟩
      intro p hp
      rcases List.mem_cons.mp hp with rfl | hp
      · exact he
      · exact ih'.2 p hp
    | some e =>
      simp only [he] at ih'
      cases acc with
      | none => simp at ih'
      | some jm =>
        obtain ⟨j, m⟩ := jm
        have := ih'.1
        simp only at this
        split at this <;> cases this

theorem pickGo_some {better : Entry → Entry → Bool} {l : List (Nat × MChild)}
    {acc : Option (Nat × Entry)} {i : Nat} {e : Entry} (h : pickGo better l acc = some (i, e)) :
    acc = some (i, e) ∨ ∃ ch, (i, ch) ∈ l ∧ ch.entry = some e := by
  induction l generalizing acc with
  | nil => exact .inl h
  | cons p rest ih =>
    obtain ⟨i0, ch⟩ := p
    simp only [pickGo] at h
    rcases ih h with h' | ⟨ch', hm, he'⟩
    · cases he : ch.entry with
      | none => simp only [he] at h'; exact .inl h'
      | some e0 =>
        simp only [he] at h'
        cases acc with
        | none =>
          simp only [Option.some.injEq, Prod.mk.injEq] at h'
          obtain ⟨rfl, rfl⟩ := h'
          exact .inr ⟨ch, List.mem_cons_self, he⟩
        | some jm =>
          obtain ⟨j, m⟩ := jm
          simp only at h'
          split at h'
          · simp only [Option.some.injEq, Prod.mk.injEq] at h'
            obtain ⟨rfl, rfl⟩ := h'
            exact .inr ⟨ch, List.mem_cons_self, he⟩
          · exact .inl h'
    · exact .inr ⟨ch', List.mem_cons_of_mem _ hm, he'⟩

theorem pickGo_best {better : Entry → Entry → Bool} (irrefl : ∀ a, better a a = false)
    (trans : ∀ a b d, better a b = true → better b d = true → better a d = true)
    (negtrans : ∀ a b d, better a b = true → better d b = false → better a d = true)
    {l : List (Nat × MChild)} {acc : Option (Nat × Entry)} {i : Nat} {e : Entry}
    (h : pickGo better l acc = some (i, e)) :
    (∀ j m, acc = some (j, m) → better m e = false) ∧
      ∀ p ∈ l, ∀ e', p.2.entry = some e' → better e' e = false := by
  induction l generalizing acc with
  | nil =>
    simp only [pickGo] at h
    subst h
    refine ⟨?_, fun _ hp => by cases hp⟩
    intro j m hjm
    simp only [Option.some.injEq, Prod.mk.injEq] at hjm
    rw [hjm.2]; exact irrefl _
  | cons p rest ih =>
    obtain ⟨i0, ch⟩ := p
    simp only [pickGo] at h
    have ih' := ih h
    cases he : ch.entry with
    | none =>
      simp only [he] at ih'
      refine ⟨ih'.1, ?_⟩
      intro p hp e' hpe
      rcases List.mem_cons.mp hp with rfl | hp
      · simp only [he] at hpe; cases hpe
      · exact ih'.2 p hp e' hpe
    | some e0 =>
      simp only [he] at ih'
      cases acc with
      | none =>
        simp only at ih'
        refine ⟨fun j m hjm => (by cases hjm), ?_⟩
        intro p hp e' hpe
        rcases List.mem_cons.mp hp with rfl | hp
        · simp only [he, Option.some.injEq] at hpe
          subst hpe
          exact ih'.1 _ _ rfl
        · exact ih'.2 p hp e' hpe
      | some jm =>
        obtain ⟨j, m⟩ := jm
        simp only at ih'
        by_cases hb : better e0 m = true
        · simp only [hb, if_true] at ih'
          have h0 : better e0 e = false := ih'.1 _ _ rfl
          refine ⟨?_, ?_⟩
          · intro j' m' hjm
            simp only [Option.some.injEq, Prod.mk.injEq] at hjm
            obtain ⟨_, rfl⟩ := hjm
            cases hme : better m e with
            | false => rfl
            | true => rw [trans _ _ _ hb hme] at h0; cases h0
          · intro p hp e' hpe
            rcases List.mem_cons.mp hp with rfl | hp
            · simp only [he, Option.some.injEq] at hpe
              subst hpe; exact h0
            · exact ih'.2 p hp e' hpe
        · simp only [hb] at ih'
          have hm : better m e = false := ih'.1 _ _ rfl
          refine ⟨?_, ?_⟩
          · intro j' m' hjm
            simp only [Option.some.injEq, Prod.mk.injEq] at hjm
            obtain ⟨_, rfl⟩ := hjm
            exact hm
          · intro p hp e' hpe
            rcases List.mem_cons.mp hp with rfl | hp
            · simp only [he, Option.some.injEq] at hpe
              subst hpe
              cases h0 : better e0 e with
              | false => rfl
              | true => exact absurd (negtrans _ _ _ h0 hm) hb
            · exact ih'.2 p hp e' hpe

theorem mem_indexed {chs : List MChild} {i : Nat} {ch : MChild} :
    (i, ch) ∈ indexed chs ↔ chs[i]? = some ch := by
  unfold indexed
  constructor
  · intro h
    obtain ⟨n, hn⟩ := List.getElem?_of_mem h
    rw [List.getElem?_zip_eq_some] at hn
    obtain ⟨h1, h2⟩ := hn
    simp only at h1 h2
    rw [List.getElem?_range] at h1
    · cases h1; exact h2
    · by_cases hlt : n < chs.length
      · exact hlt
      · rw [List.getElem?_eq_none (by simpa using hlt)] at h2; cases h2
  · intro h
    have hlt : i < chs.length := (List.getElem?_eq_some_iff.mp h).1
    apply List.mem_of_getElem? (i := i)
    rw [List.getElem?_zip_eq_some]
    exact ⟨by simp [List.getElem?_range hlt], h⟩

theorem mem_of_getElem? {chs : List MChild} {i : Nat} {ch : MChild} (h : chs[i]? = some ch) :
    ch ∈ chs := List.mem_of_getElem? h

theorem findSmallest_none {c : Cmp} {chs : List MChild} (h : findSmallest c chs = none) :
    ∀ ch ∈ chs, ch.entry = none := by
  unfold findSmallest at h
  rw [Option.map_eq_none_iff] at h
  intro ch hch
  obtain ⟨i, hi⟩ := List.getElem?_of_mem hch
  exact (pickGo_none h).2 (i, ch) (mem_indexed.mpr hi)

theorem findSmallest_some {c : Cmp} {chs : List MChild} {i : Nat} (h : findSmallest c chs = some i) :
    ∃ ch e, chs[i]? = some ch ∧ ch.entry = some e ∧
      ∀ ch' ∈ chs, ∀ e', ch'.entry = some e' → entryLt c e' e = false := by
  unfold findSmallest at h
  rw [Option.map_eq_some_iff] at h
  obtain ⟨⟨i', e⟩, h, rfl⟩ := h
  rcases pickGo_some h with h' | ⟨ch, hm, he⟩
  · cases h'
  · refine ⟨ch, e, mem_indexed.mp hm, he, ?_⟩
    intro ch' hch' e' he'
    obtain ⟨j, hj⟩ := List.getElem?_of_mem hch'
    have := (pickGo_best (better := fun e m => entryCmp c e m == .lt)
      (fun a => by rw [← entryLt_eq_cmp]; exact entryLt_irrefl c a)
      (fun a b d => by simp only [← entryLt_eq_cmp]; exact entryLt_trans c)
      (fun a b d => by simp only [← entryLt_eq_cmp]; exact entryLt_of_lt_of_not_lt c)
      h).2 (j, ch') (mem_indexed.mpr hj) e' he'
    rw [← entryLt_eq_cmp] at this
    exact this

theorem findLargest_none {c : Cmp} {chs : List MChild} (h : findLargest c chs = none) :
    ∀ ch ∈ chs, ch.entry = none := by
  unfold findLargest at h
  rw [Option.map_eq_none_iff] at h
  intro ch hch
  obtain ⟨i, hi⟩ := List.getElem?_of_mem hch
  exact (pickGo_none h).2 (i, ch) (List.mem_reverse.mpr (mem_indexed.mpr hi))

theorem findLargest_some {c : Cmp} {chs : List MChild} {i : Nat} (h : findLargest c chs = some i) :
    ∃ ch e, chs[i]? = some ch ∧ ch.entry = some e ∧
      ∀ ch' ∈ chs, ∀ e', ch'.entry = some e' → entryLt c e e' = false := by
  unfold findLargest at h
  rw [Option.map_eq_some_iff] at h
  obtain ⟨⟨i', e⟩, h, rfl⟩ := h
  rcases pickGo_some h with h' | ⟨ch, hm, he⟩
  · cases h'
  · refine ⟨ch, e, mem_indexed.mp (List.mem_reverse.mp hm), he, ?_⟩
    intro ch' hch' e' he'
    obtain ⟨j, hj⟩ := List.getElem?_of_mem hch'
    have := (pickGo_best (better := fun e m => entryCmp c e m == .gt)
      (fun a => by rw [← entryLt_swap_eq_cmp]; exact entryLt_irrefl c a)
      (fun a b d => by
        simp only [← entryLt_swap_eq_cmp]; exact fun h1 h2 => entryLt_trans c h2 h1)
      (fun a b d => by
        simp only [← entryLt_swap_eq_cmp]; exact fun h1 h2 => entryLt_of_not_lt_of_lt c h2 h1)
      h).2 (j, ch') (List.mem_reverse.mpr (mem_indexed.mpr hj)) e' he'
    rw [← entryLt_swap_eq_cmp] at this
    exact this

/-! ### the simulation relation -/

/-- relation between a merging-iterator state and a position in `mergedRun c runs`.
    Invalid cursor: `current = none` (only first/last/seek apply, they re-position every child).
    Cursor on `E = U[g]`: `current` is a child whose entry is `E`; when the direction is forward
    every child is at the first index whose entry is not before `E`; when it is reverse every
    child is at the last index whose entry is not after `E`. -/
def MergeRel (c : Cmp) (runs : List Run) (mi : MergeIter) (p : Option Nat) : Prop :=
  mi.children.map (·.run) = runs ∧ (∀ ch ∈ mi.children, ch.st = .ok) ∧
  match p with
  | none => mi.current = none
  | some g => ∃ E i0 ch0, (mergedRun c runs)[g]? = some E ∧ mi.current = some i0 ∧
      mi.children[i0]? = some ch0 ∧ ch0.entry = some E ∧
      match mi.dir with
      | .forward => ∀ ch ∈ mi.children,
          ch.pos = toPos (cutIdx (fun e => entryLt c e E) ch.run) ch.run.length
      | .reverse => ∀ ch ∈ mi.children,
          ch.pos = predPos (cutIdx (fun e => !entryLt c E e) ch.run)

theorem mergeRel_create (c : Cmp) (runs : List Run) :
    MergeRel c runs (mergeCreate (runs.map fun r => { run := r, st := .ok, pos := none })) none := by
  refine ⟨?_, ?_, rfl⟩
  · simp [mergeCreate, List.map_map, Function.comp_def]
  · intro ch hch
    simp only [mergeCreate, List.mem_map] at hch
    obtain ⟨r, _, rfl⟩ := hch
    rfl

section ctx
variable {c : Cmp} {runs : List Run}

theorem child_run_idx {chs : List MChild} (hruns : chs.map (·.run) = runs) {i : Nat} {ch : MChild}
    (h : chs[i]? = some ch) : runs[i]? = some ch.run := by
  rw [← hruns, List.getElem?_map, h]; rfl

theorem child_run_mem {chs : List MChild} (hruns : chs.map (·.run) = runs) {ch : MChild}
    (h : ch ∈ chs) : ch.run ∈ runs := by
  rw [← hruns]; exact List.mem_map_of_mem h

theorem child_sub {chs : List MChild} (hruns : chs.map (·.run) = runs) {ch : MChild}
    (h : ch ∈ chs) {e : Entry} (he : e ∈ ch.run) : e ∈ mergedRun c runs :=
  mem_mergedRun.mpr ⟨_, child_run_mem hruns h, he⟩

theorem child_has {chs : List MChild} (hruns : chs.map (·.run) = runs) {E : Entry}
    (hE : E ∈ mergedRun c runs) : ∃ (i0 : Nat) (ch0 : MChild), chs[i0]? = some ch0 ∧ E ∈ ch0.run := by
  obtain ⟨r, hr, hEr⟩ := mem_mergedRun.mp hE
  rw [← hruns, List.mem_map] at hr
  obtain ⟨ch0, hch0, rfl⟩ := hr
  obtain ⟨i0, hi0⟩ := List.getElem?_of_mem hch0
  exact ⟨i0, ch0, hi0, hEr⟩

/-- `P` restricted to the merged run is the cut at `g`, which is below `U[g]` -/
theorem cut_eq_below (hd : DistinctKeys c runs) {P : Entry → Bool} {g : Nat}
    (hP : ∀ j (h : j < (mergedRun c runs).length), P (mergedRun c runs)[j] = true ↔ j < g)
    (hg : g < (mergedRun c runs).length) :
    ∀ e ∈ mergedRun c runs, P e = entryLt c e (mergedRun c runs)[g] := by
  intro e he
  obtain ⟨j, hj, rfl⟩ := List.mem_iff_getElem.mp he
  rw [Bool.eq_iff_iff, hP j hj, sorted_lt_iff (mergedRun_sorted c runs hd) hj hg]

/-- `P` restricted to the merged run is the cut at `g + 1`, which is up to `U[g]` -/
theorem cut_eq_upto (hd : DistinctKeys c runs) {P : Entry → Bool} {g : Nat}
    (hP : ∀ j (h : j < (mergedRun c runs).length), P (mergedRun c runs)[j] = true ↔ j < g + 1)
    (hg : g < (mergedRun c runs).length) :
    ∀ e ∈ mergedRun c runs, P e = !entryLt c (mergedRun c runs)[g] e := by
  intro e he
  obtain ⟨j, hj, rfl⟩ := List.mem_iff_getElem.mp he
  rw [Bool.eq_iff_iff, hP j hj, Bool.not_eq_true', sorted_not_lt_iff (mergedRun_sorted c runs hd) hg hj]
  omega

theorem entry_below_self {r : Run} (hs : RunSorted c r) {E : Entry} (hE : E ∈ r) :
    runEntry r (toPos (cutIdx (fun e => entryLt c e E) r) r.length) = some E := by
  obtain ⟨n, hn, rfl⟩ := List.mem_iff_getElem.mp hE
  rw [cutIdx_below_self hs hn]
  simp [toPos, hn, runEntry]

theorem entry_upto_self {r : Run} (hs : RunSorted c r) {E : Entry} (hE : E ∈ r) :
    runEntry r (predPos (cutIdx (fun e => !entryLt c E e) r)) = some E := by
  obtain ⟨n, hn, rfl⟩ := List.mem_iff_getElem.mp hE
  rw [cutIdx_upto_self hs hn]
  simp [predPos, hn, runEntry]

theorem entry_toPos_cut {P : Entry → Bool} {r : Run} {e : Entry}
    (h : runEntry r (toPos (cutIdx P r) r.length) = some e) : P e = false ∧ e ∈ r := by
  unfold toPos at h
  split at h
  · rename_i hlt
    simp only [runEntry, Option.bind_some] at h
    rw [List.getElem?_eq_getElem hlt] at h
    cases h
    exact ⟨cutIdx_at hlt, List.getElem_mem _⟩
  · simp [runEntry] at h

theorem entry_predPos_cut {P : Entry → Bool} {r : Run} {e : Entry}
    (h : runEntry r (predPos (cutIdx P r)) = some e) : P e = true ∧ e ∈ r := by
  cases hn : cutIdx P r with
  | zero => rw [hn] at h; simp [predPos, runEntry] at h
  | succ n =>
    rw [hn] at h
    have hlt : n < cutIdx P r := by omega
    have hlt' : n < r.length := Nat.lt_of_lt_of_le hlt cutIdx_le
    simp only [predPos, runEntry, Option.bind_some] at h
    rw [List.getElem?_eq_getElem hlt'] at h
    cases h
    exact ⟨cutIdx_before hlt, List.getElem_mem _⟩

/-- children positioned at the first entry outside a cut `P` of the merged run: `findSmallest`
    selects the child holding the least entry outside the cut -/
theorem fwd_establish (hs : ∀ r ∈ runs, RunSorted c r) (hd : DistinctKeys c runs)
    (P : Entry → Bool) (g : Nat)
    (hP : ∀ j (h : j < (mergedRun c runs).length), P (mergedRun c runs)[j] = true ↔ j < g)
    (chs : List MChild) (hruns : chs.map (·.run) = runs) (hst : ∀ ch ∈ chs, ch.st = .ok)
    (hpos : ∀ ch ∈ chs, ch.pos = toPos (cutIdx P ch.run) ch.run.length) :
    MergeRel c runs { children := chs, current := findSmallest c chs, dir := .forward }
      (toPos g (mergedRun c runs).length) := by
  have hU := mergedRun_sorted c runs hd
  refine ⟨hruns, hst, ?_⟩
  by_cases hg : g < (mergedRun c runs).length
  · have htp : toPos g (mergedRun c runs).length = some g := by simp [toPos, hg]
    rw [htp]
    have hEU : (mergedRun c runs)[g] ∈ mergedRun c runs := List.getElem_mem _
    have hc : ∀ ch ∈ chs, cutIdx P ch.run =
        cutIdx (fun e => entryLt c e (mergedRun c runs)[g]) ch.run := fun ch hch =>
      cutIdx_congr (fun e he => cut_eq_below hd hP hg e (child_sub hruns hch he))
    obtain ⟨i0, ch0, hi0, hE0⟩ := child_has hruns hEU
    have hch0 := mem_of_getElem? hi0
    have h0 : ch0.entry = some (mergedRun c runs)[g] := by
      unfold MChild.entry
      rw [hpos ch0 hch0, hc ch0 hch0]
      exact entry_below_self (hs _ (child_run_mem hruns hch0)) hE0
    cases hf : findSmallest c chs with
    | none => rw [findSmallest_none hf ch0 hch0] at h0; cases h0
    | some i1 =>
      obtain ⟨ch1, e1, hi1, he1, hmin⟩ := findSmallest_some hf
      have hch1 := mem_of_getElem? hi1
      have hle := hmin ch0 hch0 _ h0
      have he1' := he1
      unfold MChild.entry at he1'
      rw [hpos ch1 hch1] at he1'
      obtain ⟨hP1, hmem1⟩ := entry_toPos_cut he1'
      obtain ⟨m, hm, rfl⟩ := List.mem_iff_getElem.mp (child_sub (c := c) hruns hch1 hmem1)
      have h1 : ¬ m < g := by rw [← hP m hm, hP1]; simp
      have h2 : m ≤ g := (sorted_not_lt_iff hU hg hm).mp hle
      have hmg : m = g := by omega
      subst hmg
      refine ⟨_, i1, ch1, List.getElem?_eq_getElem hm, rfl, hi1, he1, ?_⟩
      intro ch hch
      show ch.pos = _
      rw [hpos ch hch, hc ch hch]
  · have htp : toPos g (mergedRun c runs).length = none := by simp [toPos, hg]
    rw [htp]
    show findSmallest c chs = none
    cases hf : findSmallest c chs with
    | none => rfl
    | some i1 =>
      obtain ⟨ch1, e1, hi1, he1, _⟩ := findSmallest_some hf
      have hch1 := mem_of_getElem? hi1
      unfold MChild.entry at he1
      rw [hpos ch1 hch1] at he1
      obtain ⟨hP1, hmem1⟩ := entry_toPos_cut he1
      obtain ⟨m, hm, rfl⟩ := List.mem_iff_getElem.mp (child_sub (c := c) hruns hch1 hmem1)
      have : m < g := by omega
      rw [(hP m hm).mpr this] at hP1; cases hP1

/-- children positioned at the last entry inside a cut `P` of the merged run: `findLargest`
    selects the child holding the greatest entry inside the cut -/
theorem rev_establish (hs : ∀ r ∈ runs, RunSorted c r) (hd : DistinctKeys c runs)
    (P : Entry → Bool) (g : Nat) (hgle : g ≤ (mergedRun c runs).length)
    (hP : ∀ j (h : j < (mergedRun c runs).length), P (mergedRun c runs)[j] = true ↔ j < g)
    (chs : List MChild) (hruns : chs.map (·.run) = runs) (hst : ∀ ch ∈ chs, ch.st = .ok)
    (hpos : ∀ ch ∈ chs, ch.pos = predPos (cutIdx P ch.run)) :
    MergeRel c runs { children := chs, current := findLargest c chs, dir := .reverse }
      (predPos g) := by
  have hU := mergedRun_sorted c runs hd
  refine ⟨hruns, hst, ?_⟩
  cases g with
  | succ g =>
    have hg : g < (mergedRun c runs).length := by omega
    show ∃ E i0 ch0, _
    have hEU : (mergedRun c runs)[g] ∈ mergedRun c runs := List.getElem_mem _
    have hc : ∀ ch ∈ chs, cutIdx P ch.run =
        cutIdx (fun e => !entryLt c (mergedRun c runs)[g] e) ch.run := fun ch hch =>
      cutIdx_congr (fun e he => cut_eq_upto hd hP hg e (child_sub hruns hch he))
    obtain ⟨i0, ch0, hi0, hE0⟩ := child_has hruns hEU
    have hch0 := mem_of_getElem? hi0
    have h0 : ch0.entry = some (mergedRun c runs)[g] := by
      unfold MChild.entry
      rw [hpos ch0 hch0, hc ch0 hch0]
      exact entry_upto_self (hs _ (child_run_mem hruns hch0)) hE0
    cases hf : findLargest c chs with
    | none => rw [findLargest_none hf ch0 hch0] at h0; cases h0
    | some i1 =>
      obtain ⟨ch1, e1, hi1, he1, hmax⟩ := findLargest_some hf
      have hch1 := mem_of_getElem? hi1
      have hle := hmax ch0 hch0 _ h0
      have he1' := he1
      unfold MChild.entry at he1'
      rw [hpos ch1 hch1] at he1'
      obtain ⟨hP1, hmem1⟩ := entry_predPos_cut he1'
      obtain ⟨m, hm, rfl⟩ := List.mem_iff_getElem.mp (child_sub (c := c) hruns hch1 hmem1)
      have h1 : m < g + 1 := (hP m hm).mp hP1
      have h2 : g ≤ m := (sorted_not_lt_iff hU hm hg).mp hle
      have hmg : m = g := by omega
      subst hmg
      refine ⟨_, i1, ch1, List.getElem?_eq_getElem hm, rfl, hi1, he1, ?_⟩
      intro ch hch
      show ch.pos = _
      rw [hpos ch hch, hc ch hch]
  | zero =>
    show findLargest c chs = none
    cases hf : findLargest c chs with
    | none => rfl
    | some i1 =>
      obtain ⟨ch1, e1, hi1, he1, _⟩ := findLargest_some hf
      have hch1 := mem_of_getElem? hi1
      unfold MChild.entry at he1
      rw [hpos ch1 hch1] at he1
      obtain ⟨hP1, hmem1⟩ := entry_predPos_cut he1
      obtain ⟨m, hm, rfl⟩ := List.mem_iff_getElem.mp (child_sub (c := c) hruns hch1 hmem1)
      have := (hP m hm).mp hP1
      omega

theorem runFirst_eq (r : Run) : runFirst r = toPos 0 r.length := by
  cases r <;> simp [runFirst, toPos]

theorem runLast_eq (r : Run) : runLast r = predPos r.length := by
  cases r <;> simp [runLast, predPos]

theorem runEntry_some {r : Run} {p : Option Nat} {E : Entry} (h : runEntry r p = some E) :
    ∃ n, ∃ hn : n < r.length, p = some n ∧ r[n] = E := by
  cases p with
  | none => simp [runEntry] at h
  | some n =>
    simp only [runEntry, Option.bind_some] at h
    obtain ⟨hn, hE⟩ := List.getElem?_eq_some_iff.mp h
    exact ⟨n, hn, rfl, hE⟩

/-- for members of the merged run other than `E`, "before `E`" is "not after `E`" -/
theorem below_eq_upto (hd : DistinctKeys c runs) {e E : Entry} (he : e ∈ mergedRun c runs)
    (hE : E ∈ mergedRun c runs) (hne : e ≠ E) : entryLt c e E = !entryLt c E e := by
  have hU := mergedRun_sorted c runs hd
  obtain ⟨a, ha, rfl⟩ := List.mem_iff_getElem.mp he
  obtain ⟨b, hb, rfl⟩ := List.mem_iff_getElem.mp hE
  have hab : a ≠ b := fun h => hne (by subst h; rfl)
  rw [Bool.eq_iff_iff, Bool.not_eq_true', sorted_lt_iff hU ha hb, sorted_not_lt_iff hU hb ha]
  omega

/-- a child other than the one holding `E` does not contain `E`: both cuts at `E` agree on it -/
theorem cut_other (hd : DistinctKeys c runs) {chs : List MChild} (hruns : chs.map (·.run) = runs)
    {i0 i : Nat} {ch0 ch : MChild} (h0 : chs[i0]? = some ch0) (hi : chs[i]? = some ch)
    (hne : i ≠ i0) {E : Entry} (hE : E ∈ ch0.run) :
    cutIdx (fun e => entryLt c e E) ch.run = cutIdx (fun e => !entryLt c E e) ch.run := by
  apply cutIdx_congr
  intro e he
  apply below_eq_upto hd (child_sub hruns (mem_of_getElem? hi) he)
    (child_sub hruns (mem_of_getElem? h0) hE)
  rintro rfl
  exact not_mem_other hd (child_run_idx hruns h0) (child_run_idx hruns hi) (Ne.symm hne) hE he

theorem set_run_eq {chs : List MChild} (hruns : chs.map (·.run) = runs) {i0 : Nat} {ch0 ch0' : MChild}
    (h0 : chs[i0]? = some ch0) (hr : ch0'.run = ch0.run) : (chs.set i0 ch0').map (·.run) = runs := by
  rw [← hruns]
  apply List.ext_getElem?
  intro j
  rw [List.getElem?_map, List.getElem?_map, List.getElem?_set]
  split
  · rename_i hij
    subst hij
    obtain ⟨hlt, hget⟩ := List.getElem?_eq_some_iff.mp h0
    simp [hlt, hr, hget]
  · rfl

theorem getElem?_set_cases {chs : List MChild} {i0 j : Nat} {ch0' ch : MChild}
    (h : (chs.set i0 ch0')[j]? = some ch) : (j = i0 ∧ ch = ch0') ∨ (j ≠ i0 ∧ chs[j]? = some ch) := by
  rw [List.getElem?_set] at h
  split at h
  · rename_i hij
    split at h
    · cases h; exact .inl ⟨hij.symm, rfl⟩
    · cases h
  · rename_i hij
    exact .inr ⟨fun h' => hij h'.symm, h⟩

/-- the common tail of `next`: the non-current children are at the first entry not before `E`,
    the current child steps forward, `findSmallest` picks the successor -/
theorem next_core (hs : ∀ r ∈ runs, RunSorted c r) (hd : DistinctKeys c runs) {g : Nat} {E : Entry}
    (hE : (mergedRun c runs)[g]? = some E) (chs1 : List MChild) (hruns : chs1.map (·.run) = runs)
    (hst : ∀ ch ∈ chs1, ch.st = .ok) {i0 : Nat} {ch0 : MChild} (h0 : chs1[i0]? = some ch0)
    (he0 : ch0.entry = some E)
    (hoth : ∀ i ch, chs1[i]? = some ch → i ≠ i0 →
      ch.pos = toPos (cutIdx (fun e => entryLt c e E) ch.run) ch.run.length) :
    ∃ chs2, MergeIter.stepChild MChild.next i0 chs1 = some chs2 ∧
      MergeRel c runs { children := chs2, current := findSmallest c chs2, dir := .forward }
        (toPos (g + 1) (mergedRun c runs).length) := by
  have hU := mergedRun_sorted c runs hd
  obtain ⟨hg, hgE⟩ := List.getElem?_eq_some_iff.mp hE
  obtain ⟨n, hn, hpos0, hnE⟩ := runEntry_some he0
  have hch0 := mem_of_getElem? h0
  have hs0 := hs _ (child_run_mem hruns hch0)
  have hE0 : E ∈ ch0.run := hnE ▸ List.getElem_mem _
  refine ⟨chs1.set i0 { ch0 with pos := toPos (n + 1) ch0.run.length }, ?_, ?_⟩
  · simp only [MergeIter.stepChild, h0, MChild.next, hpos0, runNext, hn, if_true, Option.map_some,
      toPos]
  · apply fwd_establish hs hd (fun e => !entryLt c E e) (g + 1)
    · intro j hj
      subst hgE
      rw [Bool.not_eq_true', sorted_not_lt_iff hU hg hj]
      omega
    · exact set_run_eq hruns h0 rfl
    · intro ch hch
      rcases List.mem_or_eq_of_mem_set hch with h | rfl
      · exact hst ch h
      · exact hst ch0 hch0
    · intro ch hch
      obtain ⟨j, hj⟩ := List.getElem?_of_mem hch
      rcases getElem?_set_cases hj with ⟨_, rfl⟩ | ⟨hne, hj'⟩
      · show toPos (n + 1) ch0.run.length = toPos (cutIdx (fun e => !entryLt c E e) ch0.run) ch0.run.length
        subst hnE
        rw [cutIdx_upto_self hs0 hn]
      · rw [hoth j ch hj' hne, cut_other hd hruns h0 hj' hne hE0]

/-- the common tail of `prev` -/
theorem prev_core (hs : ∀ r ∈ runs, RunSorted c r) (hd : DistinctKeys c runs) {g : Nat} {E : Entry}
    (hE : (mergedRun c runs)[g]? = some E) (chs1 : List MChild) (hruns : chs1.map (·.run) = runs)
    (hst : ∀ ch ∈ chs1, ch.st = .ok) {i0 : Nat} {ch0 : MChild} (h0 : chs1[i0]? = some ch0)
    (he0 : ch0.entry = some E)
    (hoth : ∀ i ch, chs1[i]? = some ch → i ≠ i0 →
      ch.pos = predPos (cutIdx (fun e => entryLt c e E) ch.run)) :
    ∃ chs2, MergeIter.stepChild MChild.prev i0 chs1 = some chs2 ∧
      MergeRel c runs { children := chs2, current := findLargest c chs2, dir := .reverse }
        (predPos g) := by
  have hU := mergedRun_sorted c runs hd
  obtain ⟨hg, hgE⟩ := List.getElem?_eq_some_iff.mp hE
  obtain ⟨n, hn, hpos0, hnE⟩ := runEntry_some he0
  have hch0 := mem_of_getElem? h0
  have hs0 := hs _ (child_run_mem hruns hch0)
  refine ⟨chs1.set i0 { ch0 with pos := predPos n }, ?_, ?_⟩
  · simp only [MergeIter.stepChild, h0, MChild.prev, hpos0, runPrev, hn, if_true, Option.map_some]
    cases n <;> rfl
  · apply rev_establish hs hd (fun e => entryLt c e E) g (Nat.le_of_lt hg)
    · intro j hj
      subst hgE
      exact sorted_lt_iff hU hj hg
    · exact set_run_eq hruns h0 rfl
    · intro ch hch
      rcases List.mem_or_eq_of_mem_set hch with h | rfl
      · exact hst ch h
      · exact hst ch0 hch0
    · intro ch hch
      obtain ⟨j, hj⟩ := List.getElem?_of_mem hch
      rcases getElem?_set_cases hj with ⟨_, rfl⟩ | ⟨hne, hj'⟩
      · show predPos n = predPos (cutIdx (fun e => entryLt c e E) ch0.run)
        subst hnE
        rw [cutIdx_below_self hs0 hn]
      · exact hoth j ch hj' hne

/-! ### re-positioning the non-current children -/

theorem mapOthers_eq (f : MChild → Option MChild) (g : MChild → MChild) (cur : Nat)
    (l : List (Nat × MChild)) (h : ∀ p ∈ l, p.1 ≠ cur → f p.2 = some (g p.2)) :
    MergeIter.mapOthers f cur l = some (l.map fun p => if p.1 = cur then p.2 else g p.2) := by
  induction l with
  | nil => rfl
  | cons p rest ih =>
    obtain ⟨i, ch⟩ := p
    have ih' := ih (fun p hp => h p (List.mem_cons_of_mem _ hp))
    simp only [MergeIter.mapOthers, ih', List.map_cons]
    by_cases hi : i = cur
    · simp [hi]
    · have := h (i, ch) List.mem_cons_self hi
      simp only at this
      simp [hi, this]

theorem getElem?_indexed (chs : List MChild) (i : Nat) :
    (indexed chs)[i]? = chs[i]?.map (fun ch => (i, ch)) := by
  cases h : chs[i]? with
  | none =>
    rw [Option.map_none, List.getElem?_eq_none_iff] at *
    simp only [indexed, List.length_zip, List.length_range]
    omega
  | some ch =>
    rw [Option.map_some]
    have hlt : i < chs.length := (List.getElem?_eq_some_iff.mp h).1
    unfold indexed
    rw [List.getElem?_zip_eq_some]
    exact ⟨by simp [List.getElem?_range hlt], h⟩

/-- the children with `g` applied to every child except the one at `i0` -/
def othersMap (g : MChild → MChild) (i0 : Nat) (chs : List MChild) : List MChild :=
  (indexed chs).map fun p => if p.1 = i0 then p.2 else g p.2

theorem getElem?_othersMap (g : MChild → MChild) (i0 : Nat) (chs : List MChild) (i : Nat) :
    (othersMap g i0 chs)[i]? = chs[i]?.map (fun ch => if i = i0 then ch else g ch) := by
  unfold othersMap
  rw [List.getElem?_map, getElem?_indexed]
  cases chs[i]? <;> rfl

theorem othersMap_run {g : MChild → MChild} (hg : ∀ ch, (g ch).run = ch.run) (i0 : Nat)
    (chs : List MChild) : (othersMap g i0 chs).map (·.run) = chs.map (·.run) := by
  apply List.ext_getElem?
  intro i
  rw [List.getElem?_map, List.getElem?_map, getElem?_othersMap]
  cases chs[i]? with
  | none => rfl
  | some ch =>
    simp only [Option.map_some]
    split <;> simp [hg]

theorem othersMap_st {g : MChild → MChild} (hg : ∀ ch, (g ch).st = ch.st) (i0 : Nat)
    {chs : List MChild} (hst : ∀ ch ∈ chs, ch.st = .ok) : ∀ ch ∈ othersMap g i0 chs, ch.st = .ok := by
  intro ch' hch'
  obtain ⟨i, hi⟩ := List.getElem?_of_mem hch'
  rw [getElem?_othersMap] at hi
  cases hc : chs[i]? with
  | none => rw [hc] at hi; cases hi
  | some ch =>
    rw [hc] at hi
    simp only [Option.map_some, Option.some.injEq] at hi
    subst hi
    split
    · exact hst ch (mem_of_getElem? hc)
    · rw [hg]; exact hst ch (mem_of_getElem? hc)

theorem othersMap_cur (g : MChild → MChild) (i0 : Nat) (chs : List MChild) :
    (othersMap g i0 chs)[i0]? = chs[i0]? := by
  rw [getElem?_othersMap]
  cases chs[i0]? <;> simp

theorem othersMap_other {g : MChild → MChild} {i0 : Nat} {chs : List MChild} {i : Nat} {ch' : MChild}
    (h : (othersMap g i0 chs)[i]? = some ch') (hne : i ≠ i0) :
    ∃ ch, chs[i]? = some ch ∧ ch' = g ch := by
  rw [getElem?_othersMap] at h
  cases hc : chs[i]? with
  | none => rw [hc] at h; cases h
  | some ch =>
    rw [hc] at h
    simp only [Option.map_some, Option.some.injEq, if_neg hne] at h
    exact ⟨ch, rfl, h.symm⟩

/-- `reposFwd` on a child that does not hold the key is the plain seek (the `== .eq` branch
    cannot fire under distinctness) -/
theorem reposFwd_eq {E : Entry} {ch : MChild}
    (hne : ∀ e ∈ ch.run, entryCmp c E e ≠ .eq) :
    MergeIter.reposFwd c E ch = some (ch.seek c E.ukey E.packed) := by
  unfold MergeIter.reposFwd
  simp only
  split
  · rename_i e he
    have hmem : e ∈ ch.run := by
      unfold MChild.entry at he
      obtain ⟨n, hn, _, hnE⟩ := runEntry_some he
      exact hnE ▸ List.getElem_mem (l := (MChild.seek c E.ukey E.packed ch).run) hn
    have := hne e hmem
    simp [this]
  · rfl

/-- `reposRev` puts a child on its last entry before the key -/
theorem reposRev_eq (E : Entry) (ch : MChild) :
    MergeIter.reposRev c E ch =
      some { ch with pos := predPos (cutIdx (fun e => entryLt c e E) ch.run) } := by
  unfold MergeIter.reposRev
  simp only [MChild.seek, runSeekIdx_entry, MChild.valid, MChild.entry]
  by_cases hlt : cutIdx (fun e => entryLt c e E) ch.run < ch.run.length
  · have hv : (runEntry ch.run (toPos (cutIdx (fun e => entryLt c e E) ch.run) ch.run.length)).isSome
        = true := by
      simp [toPos, hlt, runEntry]
    rw [if_pos hv]
    simp only [MChild.prev, toPos, hlt, if_true, runPrev, Option.map_some]
    cases cutIdx (fun e => entryLt c e E) ch.run <;> rfl
  · have hv : (runEntry ch.run (toPos (cutIdx (fun e => entryLt c e E) ch.run) ch.run.length)).isSome
        = false := by
      simp [toPos, hlt, runEntry]
    rw [hv]
    have heq : cutIdx (fun e => entryLt c e E) ch.run = ch.run.length :=
      Nat.le_antisymm cutIdx_le (Nat.le_of_not_lt hlt)
    simp [MChild.last, runLast_eq, heq]

/-! ### the operations -/

theorem rel_first (hs : ∀ r ∈ runs, RunSorted c r) (hd : DistinctKeys c runs) {mi : MergeIter}
    {p : Option Nat} (h : MergeRel c runs mi p) :
    MergeRel c runs (mi.first c) (runFirst (mergedRun c runs)) := by
  obtain ⟨hruns, hst, _⟩ := h
  rw [runFirst_eq]
  apply fwd_establish hs hd (fun _ => false) 0 (by simp)
  · rw [List.map_map, ← hruns]; rfl
  · intro ch hch
    obtain ⟨ch0, hch0, rfl⟩ := List.mem_map.mp hch
    exact hst ch0 hch0
  · intro ch hch
    obtain ⟨ch0, _, rfl⟩ := List.mem_map.mp hch
    show runFirst ch0.run = toPos (cutIdx (fun _ => false) ch0.run) ch0.run.length
    rw [runFirst_eq, cutIdx_eq (n := 0) (Nat.zero_le _) (fun j hj => absurd hj (Nat.not_lt_zero _))
      (fun _ => rfl)]

theorem rel_last (hs : ∀ r ∈ runs, RunSorted c r) (hd : DistinctKeys c runs) {mi : MergeIter}
    {p : Option Nat} (h : MergeRel c runs mi p) :
    MergeRel c runs (mi.last c) (runLast (mergedRun c runs)) := by
  obtain ⟨hruns, hst, _⟩ := h
  rw [runLast_eq]
  apply rev_establish hs hd (fun _ => true) _ (Nat.le_refl _) (by simp)
  · rw [List.map_map, ← hruns]; rfl
  · intro ch hch
    obtain ⟨ch0, hch0, rfl⟩ := List.mem_map.mp hch
    exact hst ch0 hch0
  · intro ch hch
    obtain ⟨ch0, _, rfl⟩ := List.mem_map.mp hch
    show runLast ch0.run = predPos (cutIdx (fun _ => true) ch0.run)
    rw [runLast_eq, cutIdx_eq_length (fun _ _ => rfl)]

theorem rel_seek (hs : ∀ r ∈ runs, RunSorted c r) (hd : DistinctKeys c runs) (k : Bytes) (pk : Nat)
    {mi : MergeIter} {p : Option Nat} (h : MergeRel c runs mi p) :
    MergeRel c runs (mi.seek c k pk) (runSeekIdx c (mergedRun c runs) k pk) := by
  obtain ⟨hruns, hst, _⟩ := h
  rw [runSeekIdx_eq]
  apply fwd_establish hs hd (fun e => ikLt c e.ukey e.packed k pk) _
    (sorted_cut_ikLt (mergedRun_sorted c runs hd) k pk)
  · rw [List.map_map, ← hruns]; rfl
  · intro ch hch
    obtain ⟨ch0, hch0, rfl⟩ := List.mem_map.mp hch
    exact hst ch0 hch0
  · intro ch hch
    obtain ⟨ch0, _, rfl⟩ := List.mem_map.mp hch
    exact runSeekIdx_eq c ch0.run k pk

theorem rel_next (hs : ∀ r ∈ runs, RunSorted c r) (hd : DistinctKeys c runs) {mi : MergeIter}
    {p : Option Nat} (h : MergeRel c runs mi p) (hv : mi.valid = true) :
    ∃ mi' p', MergeIter.next c mi = some mi' ∧ runNext (mergedRun c runs) p = some p' ∧
      MergeRel c runs mi' p' := by
  obtain ⟨chs, cur, dir⟩ := mi
  obtain ⟨hruns, hst, hp⟩ := h
  cases p with
  | none =>
    simp only at hp
    subst hp
    simp [MergeIter.valid] at hv
  | some g =>
    obtain ⟨E, i0, ch0, hE, hcur, h0, he0, hdir⟩ := hp
    simp only at hruns hst hcur h0 hdir
    subst hcur
    have hentry : MergeIter.entry ⟨chs, some i0, dir⟩ = some E := by
      simp [MergeIter.entry, MergeIter.cur, h0, he0]
    have hg : g < (mergedRun c runs).length := (List.getElem?_eq_some_iff.mp hE).1
    have hnext : runNext (mergedRun c runs) (some g) = some (toPos (g + 1) (mergedRun c runs).length) := by
      simp [runNext, hg, toPos]
    cases dir with
    | forward =>
      obtain ⟨chs2, hstep, hrel⟩ := next_core hs hd hE chs hruns hst h0 he0
        (fun i ch hi _ => hdir ch (mem_of_getElem? hi))
      refine ⟨_, _, ?_, hnext, hrel⟩
      simp [MergeIter.next, hentry, hstep]
    | reverse =>
      obtain ⟨n, hn, _, hnE⟩ := runEntry_some he0
      have hE0 : E ∈ ch0.run := hnE ▸ List.getElem_mem _
      have hmo : MergeIter.mapOthers (MergeIter.reposFwd c E) i0 (indexed chs) =
          some (othersMap (MChild.seek c E.ukey E.packed) i0 chs) := by
        apply mapOthers_eq
        intro p hp hne
        obtain ⟨i, ch⟩ := p
        have hi := mem_indexed.mp hp
        apply reposFwd_eq
        intro e he
        exact distinct_cross hd (child_run_idx hruns h0) (child_run_idx hruns hi)
          (Ne.symm hne) hE0 he
      obtain ⟨chs2, hstep, hrel⟩ := next_core hs hd hE
        (othersMap (MChild.seek c E.ukey E.packed) i0 chs)
        ((othersMap_run (g := MChild.seek c E.ukey E.packed) (fun _ => rfl) i0 chs).trans hruns)
        (othersMap_st (g := MChild.seek c E.ukey E.packed) (fun _ => rfl) i0 hst)
        ((othersMap_cur _ i0 chs).trans h0) he0
        (by
          intro i ch' hi hne
          obtain ⟨ch, _, rfl⟩ := othersMap_other hi hne
          exact runSeekIdx_entry c ch.run E)
      refine ⟨_, _, ?_, hnext, hrel⟩
      simp [MergeIter.next, hentry, hmo, hstep]

theorem rel_prev (hs : ∀ r ∈ runs, RunSorted c r) (hd : DistinctKeys c runs) {mi : MergeIter}
    {p : Option Nat} (h : MergeRel c runs mi p) (hv : mi.valid = true) :
    ∃ mi' p', MergeIter.prev c mi = some mi' ∧ runPrev (mergedRun c runs) p = some p' ∧
      MergeRel c runs mi' p' := by
  obtain ⟨chs, cur, dir⟩ := mi
  obtain ⟨hruns, hst, hp⟩ := h
  cases p with
  | none =>
    simp only at hp
    subst hp
    simp [MergeIter.valid] at hv
  | some g =>
    obtain ⟨E, i0, ch0, hE, hcur, h0, he0, hdir⟩ := hp
    simp only at hruns hst hcur h0 hdir
    subst hcur
    have hentry : MergeIter.entry ⟨chs, some i0, dir⟩ = some E := by
      simp [MergeIter.entry, MergeIter.cur, h0, he0]
    have hg : g < (mergedRun c runs).length := (List.getElem?_eq_some_iff.mp hE).1
    have hprev : runPrev (mergedRun c runs) (some g) = some (predPos g) := by
      simp only [runPrev, hg, if_true]
      cases g <;> rfl
    obtain ⟨n, hn, _, hnE⟩ := runEntry_some he0
    have hE0 : E ∈ ch0.run := hnE ▸ List.getElem_mem _
    cases dir with
    | reverse =>
      obtain ⟨chs2, hstep, hrel⟩ := prev_core hs hd hE chs hruns hst h0 he0
        (fun i ch hi hne => by
          rw [hdir ch (mem_of_getElem? hi), cut_other hd hruns h0 hi hne hE0])
      refine ⟨_, _, ?_, hprev, hrel⟩
      simp [MergeIter.prev, hentry, hstep]
    | forward =>
      have hmo : MergeIter.mapOthers (MergeIter.reposRev c E) i0 (indexed chs) =
          some (othersMap
            (fun ch => { ch with pos := predPos (cutIdx (fun e => entryLt c e E) ch.run) }) i0 chs) := by
        exact mapOthers_eq _
          (fun ch => { ch with pos := predPos (cutIdx (fun e => entryLt c e E) ch.run) }) _ _
          (fun p _ _ => reposRev_eq E p.2)
      obtain ⟨chs2, hstep, hrel⟩ := prev_core hs hd hE
        (othersMap (fun ch => { ch with pos := predPos (cutIdx (fun e => entryLt c e E) ch.run) }) i0 chs)
        ((othersMap_run (g := fun ch => { ch with pos := predPos (cutIdx (fun e => entryLt c e E) ch.run) })
          (fun _ => rfl) i0 chs).trans hruns)
        (othersMap_st (g := fun ch => { ch with pos := predPos (cutIdx (fun e => entryLt c e E) ch.run) })
          (fun _ => rfl) i0 hst)
        ((othersMap_cur _ i0 chs).trans h0) he0
        (by
          intro i ch' hi hne
          obtain ⟨ch, _, rfl⟩ := othersMap_other hi hne
          rfl)
      refine ⟨_, _, ?_, hprev, hrel⟩
      simp [MergeIter.prev, hentry, hmo, hstep]

end ctx

set_option linter.unusedVariables false in
/-- consequences of the relation (`hs`, `hd` are not needed: the relation carries everything) -/
theorem mergeRel_observe {c : Cmp} {runs : List Run} (hs : ∀ r ∈ runs, RunSorted c r)
    (hd : DistinctKeys c runs) {mi : MergeIter} {p : Option Nat} (h : MergeRel c runs mi p) :
    mi.valid = (runEntry (mergedRun c runs) p).isSome ∧ mi.entry = runEntry (mergedRun c runs) p ∧
      mi.status = .ok := by
  obtain ⟨_, hst, hp⟩ := h
  have hstatus : mi.status = .ok := by
    unfold MergeIter.status
    have : mi.children.find? (fun ch => ch.st != .ok) = none := by
      rw [List.find?_eq_none]
      intro ch hch
      simp [hst ch hch]
    rw [this]
  cases p with
  | none =>
    simp only at hp
    simp [MergeIter.valid, MergeIter.entry, MergeIter.cur, hp, runEntry, hstatus]
  | some g =>
    obtain ⟨E, i0, ch0, hE, hcur, h0, he0, _⟩ := hp
    simp [MergeIter.valid, MergeIter.entry, MergeIter.cur, hcur, h0, he0, runEntry, hE, hstatus]

/-- MAIN: simulation, including the re-positioning of the non-current children on a direction change -/
theorem merge_sim (c : Cmp) (runs : List Run) (hs : ∀ r ∈ runs, RunSorted c r)
    (hd : DistinctKeys c runs) :
    InternalIter.Sim (mergeIterI c) (runIter c (mergedRun c runs)) (MergeRel c runs) where
  valid _ _ h := (mergeRel_observe hs hd h).1
  entry _ _ h := (mergeRel_observe hs hd h).2.1
  status _ _ h := (mergeRel_observe hs hd h).2.2
  first _ _ h := ⟨_, _, rfl, rfl, rel_first hs hd h⟩
  last _ _ h := ⟨_, _, rfl, rfl, rel_last hs hd h⟩
  seek k pk _ _ h := ⟨_, _, rfl, rfl, rel_seek hs hd k pk h⟩
  next _ _ h hv := rel_next hs hd h hv
  prev _ _ h hv := rel_prev hs hd h hv

end Lcdb.Merge
