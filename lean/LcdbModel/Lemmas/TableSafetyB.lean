/-
  Table safety, part B: `readBlock` / `tableOpen` never fault; invariant, totality and status
  stickiness of the two-level iterator, parametric in the comparator `c`, the block reader `rd`
  and the skip-loop fuel.
-/
import LcdbModel.Lemmas.TableDefs
import LcdbModel.Lemmas.TableSafetyA
import LcdbModel.Props.FilterProps
namespace Lcdb

/-! ### ldb_read_block -/

theorem sliceC_some (data : Bytes) (s n : Nat) (h : s + n ≤ data.length) :
    sliceC data s n = some ((data.drop s).take n) := by
  simp only [sliceC, if_pos h]

theorem readBlockBody_total (raw : Bytes) (n : Nat) (h : raw.length = n + 5) :
    readBlockBody raw n ≠ .error .fault := by
  unfold readBlockBody
  have h1 : n < raw.length := by omega
  have h2 : raw[n]? = some raw[n] := List.getElem?_eq_getElem h1
  have hs := sliceC_some raw 0 n (by omega)
  simp only [h2, hs]
  split
  · intro hh; cases hh
  · split
    · split
      · intro hh; cases hh
      · split <;> (intro hh; cases hh)
    · intro hh; cases hh

theorem blockCrcOk_total (raw : Bytes) (n : Nat) (h : raw.length = n + 5) :
    ∃ b, blockCrcOk raw n = some b := by
  unfold blockCrcOk
  rw [sliceC_some raw (n + 1) 4 (by omega), sliceC_some raw 0 (n + 1) (by omega)]
  exact ⟨_, rfl⟩

/-- ldb_read_block never touches a byte outside what `pread` delivered -/
theorem readBlock_total' (file : Bytes) (off size : Nat) (verify : Bool) :
    readBlock file off size verify ≠ .error .fault := by
  unfold readBlock
  split
  · intro hh; cases hh
  · dsimp only
    split
    · intro hh; cases hh
    · rename_i hlen
      have hl : (pread file off (size + blockTrailerSize)).length = size + 5 := by
        simpa [blockTrailerSize] using hlen
      split
      · obtain ⟨b, hb⟩ := blockCrcOk_total _ size hl
        rw [hb]
        cases b
        · intro hh; cases hh
        · exact readBlockBody_total _ _ hl
      · exact readBlockBody_total _ _ hl

/-! ### ldb_table_open -/

theorem findFilterHandle_no_fault (o : TableOpts) (file : Bytes) (paranoid : Bool) (ft : Footer) :
    findFilterHandle o file paranoid ft ≠ .error .fault := by
  unfold findFilterHandle
  split
  · intro hh; cases hh
  · split
    · rename_i hrb; exact absurd hrb (readBlock_total' _ _ _ _)
    · intro hh; cases hh
    · rename_i contents _
      obtain ⟨t', h1, _⟩ := TIter.seek_ok bytewiseBlockCmp filterKeyName (blockIterCreate contents)
        (blockIterCreate_inv _ contents)
      rw [h1]
      dsimp only
      split <;> (intro hh; cases hh)

theorem readFilter_no_fault (file : Bytes) (paranoid : Bool) (hv : Bytes) :
    readFilter file paranoid hv ≠ .error .fault := by
  unfold readFilter
  split
  · intro hh; cases hh
  · split
    · intro hh; cases hh
    · rename_i hrb; exact absurd hrb (readBlock_total' _ _ _ _)
    · intro hh; cases hh

theorem readMeta_no_fault (o : TableOpts) (file : Bytes) (paranoid : Bool) (ft : Footer) :
    readMeta o file paranoid ft ≠ .error .fault := by
  unfold readMeta
  split
  · rename_i e he
    intro hh
    simp only [Except.error.injEq] at hh
    subst hh
    exact findFilterHandle_no_fault o file paranoid ft he
  · intro hh; cases hh
  · exact readFilter_no_fault _ _ _

/-- **C18, open**: on arbitrary file bytes `ldb_table_open` never faults -/
theorem tableOpen_no_fault (o : TableOpts) (file : Bytes) (paranoid : Bool) :
    tableOpen o file paranoid ≠ .error .fault := by
  unfold tableOpen
  split
  · intro hh; cases hh
  · split
    · intro hh; cases hh
    · split
      · rename_i e he
        intro hh
        simp only [Except.error.injEq] at hh
        subst hh
        exact readBlock_total' _ _ _ _ he
      · split
        · rename_i e he
          intro hh
          simp only [Except.error.injEq] at hh
          subst hh
          exact readMeta_no_fault _ _ _ _ he
        · intro hh; cases hh

/-- the fields of an opened table -/
theorem tableOpen_fields (o : TableOpts) (file : Bytes) (paranoid : Bool) (t : Table)
    (h : tableOpen o file paranoid = .ok t) : t.opts = o ∧ t.file = file := by
  unfold tableOpen at h
  split at h
  · cases h
  · split at h
    · cases h
    · split at h
      · cases h
      · split at h
        · cases h
        · simp only [Except.ok.injEq] at h
          subst h
          exact ⟨rfl, rfl⟩

end Lcdb
