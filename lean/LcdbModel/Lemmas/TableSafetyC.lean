/-
  Table safety, part C: the two-level iterator, parametric in the comparator `c`, the block
  reader `rd` and the skip-loop fuel: invariant, status stickiness (`Flagged`), totality.
-/
import LcdbModel.Lemmas.TableSafetyB
namespace Lcdb

/-! ### invariants -/

def DataIter.Inv (c : BlockCmp) : DataIter → Prop
  | .failed _ => True
  | .opened it => it.Inv c

def TwoIter.Inv (c : BlockCmp) (it : TwoIter) : Prop :=
  it.index.Inv c ∧ ∀ d, it.data = some d → d.Inv c

/-- the iterator reports an error -/
def TwoIter.Flagged (it : TwoIter) : Prop := it.getStatus ≠ .ok

/-- every iterator the reader hands out satisfies the block-iterator invariant -/
def RdInv (c : BlockCmp) (rd : Bytes → Option DataIter) : Prop := ∀ h d, rd h = some d → d.Inv c

/-- the reader never faults -/
def RdTotal (rd : Bytes → Option DataIter) : Prop := ∀ h, rd h ≠ none

theorem TStatus.ofB_ne_ok_iff (s : BStatus) : TStatus.ofB s ≠ .ok ↔ s = .corrupt := by
  cases s <;> simp [TStatus.ofB]

theorem TwoIter.flagged_iff (it : TwoIter) : it.Flagged ↔
    (it.index.status = .corrupt ∨ (∃ d, it.data = some d ∧ d.status ≠ .ok) ∨ it.status ≠ .ok) := by
  unfold TwoIter.Flagged TwoIter.getStatus
  cases hs : it.index.status with
  | corrupt => simp [TStatus.ofB]
  | ok =>
    cases hd : it.data with
    | none => simp [TStatus.ofB]
    | some d =>
      by_cases hds : d.status = .ok
      · simp [TStatus.ofB, hds]
      · simp [TStatus.ofB, hds]

/-- what one step of the two-level iterator keeps: the invariant, the data area of the index
    iterator, `Mono` of the index iterator, and a reported error -/
def TwoIter.Good (c : BlockCmp) (it it' : TwoIter) : Prop :=
  it'.Inv c ∧ it'.index.restarts = it.index.restarts ∧ (it.index.Mono → it'.index.Mono) ∧
    (it.Flagged → it'.Flagged)

theorem TwoIter.Good.refl {c : BlockCmp} {it : TwoIter} (h : it.Inv c) : TwoIter.Good c it it :=
  ⟨h, rfl, id, id⟩

theorem TwoIter.Good.trans {c : BlockCmp} {a b d : TwoIter} (h1 : TwoIter.Good c a b)
    (h2 : TwoIter.Good c b d) : TwoIter.Good c a d :=
  ⟨h2.1, h2.2.1.trans h1.2.1, fun h => h2.2.2.1 (h1.2.2.1 h), fun h => h2.2.2.2 (h1.2.2.2 h)⟩

/-! ### replacing the index iterator -/

theorem TwoIter.setIndex_flagged (it : TwoIter) (ix : TIter)
    (hs : it.index.status = .corrupt → ix.status = .corrupt) (h : it.Flagged) :
    TwoIter.Flagged { it with index := ix } := by
  rw [TwoIter.flagged_iff] at h ⊢
  rcases h with h | h | h
  · exact Or.inl (hs h)
  · exact Or.inr (Or.inl h)
  · exact Or.inr (Or.inr h)

theorem TwoIter.setIndex_flagged_of_status (it : TwoIter) (ix : TIter) (hs : ix.status = .corrupt) :
    TwoIter.Flagged { it with index := ix } := by
  rw [TwoIter.flagged_iff]; exact Or.inl hs

theorem TwoIter.setIndex_inv {c : BlockCmp} (it : TwoIter) (ix : TIter) (h : it.Inv c)
    (hi : ix.Inv c) : TwoIter.Inv c { it with index := ix } := ⟨hi, h.2⟩

theorem TwoIter.setIndex_good {c : BlockCmp} (it : TwoIter) (ix : TIter) (h : it.Inv c)
    (hs : TIter.Step c it.index ix) : TwoIter.Good c it { it with index := ix } :=
  ⟨TwoIter.setIndex_inv it ix h hs.1.1, hs.2.1, hs.2.2, TwoIter.setIndex_flagged it ix hs.1.2⟩

/-! ### ldb_twoiter_saverr / ldb_twoiter_set_data_iter -/

theorem TwoIter.saveErr_index (it : TwoIter) (s : TStatus) : (it.saveErr s).index = it.index := by
  unfold TwoIter.saveErr; split <;> rfl

theorem TwoIter.saveErr_status (it : TwoIter) (s : TStatus) :
    (it.saveErr s).status ≠ .ok ↔ (it.status ≠ .ok ∨ s ≠ .ok) := by
  unfold TwoIter.saveErr
  split
  · rename_i h; simp [h.1, h.2]
  · rename_i h
    by_cases h1 : it.status = .ok
    · simp only [h1, true_and, Decidable.not_not] at h
      simp [h1, h]
    · simp [h1]

theorem TwoIter.setDataIter_index (it : TwoIter) (d : Option DataIter) :
    (it.setDataIter d).index = it.index := by
  unfold TwoIter.setDataIter
  cases it.data with
  | none => rfl
  | some old => exact TwoIter.saveErr_index it old.status

theorem TwoIter.setDataIter_data (it : TwoIter) (d : Option DataIter) :
    (it.setDataIter d).data = d := rfl

theorem TwoIter.setDataIter_status (it : TwoIter) (d : Option DataIter) :
    (it.setDataIter d).status ≠ .ok ↔
      (it.status ≠ .ok ∨ ∃ old, it.data = some old ∧ old.status ≠ .ok) := by
  unfold TwoIter.setDataIter
  cases hd : it.data with
  | none => simp
  | some old =>
    show (it.saveErr old.status).status ≠ .ok ↔ _
    rw [TwoIter.saveErr_status]
    simp

/-- an error is never lost when the data iterator is replaced -/
theorem TwoIter.setDataIter_flagged (it : TwoIter) (d : Option DataIter) (h : it.Flagged) :
    (it.setDataIter d).Flagged := by
  rw [TwoIter.flagged_iff] at h ⊢
  rw [TwoIter.setDataIter_index, TwoIter.setDataIter_status]
  rcases h with h | h | h
  · exact Or.inl h
  · exact Or.inr (Or.inr (Or.inr h))
  · exact Or.inr (Or.inr (Or.inl h))

/-- installing a failed data iterator flags the two-level iterator -/
theorem TwoIter.setDataIter_failed_flagged (it : TwoIter) (s : TStatus) (hs : s ≠ .ok) :
    (it.setDataIter (some (.failed s))).Flagged := by
  rw [TwoIter.flagged_iff]
  exact Or.inr (Or.inl ⟨.failed s, rfl, hs⟩)

theorem TwoIter.setDataIter_inv {c : BlockCmp} (it : TwoIter) (d : Option DataIter)
    (h : it.Inv c) (hd : ∀ d', d = some d' → d'.Inv c) : (it.setDataIter d).Inv c := by
  refine ⟨?_, ?_⟩
  · rw [TwoIter.setDataIter_index]; exact h.1
  · intro d' hd'; exact hd d' hd'

theorem TwoIter.setDataIter_good {c : BlockCmp} (it : TwoIter) (d : Option DataIter)
    (h : it.Inv c) (hd : ∀ d', d = some d' → d'.Inv c) : TwoIter.Good c it (it.setDataIter d) :=
  ⟨TwoIter.setDataIter_inv it d h hd, by rw [TwoIter.setDataIter_index],
   by rw [TwoIter.setDataIter_index]; exact id, TwoIter.setDataIter_flagged it d⟩

theorem TwoIter.setHandle_good {c : BlockCmp} (it : TwoIter) (hv : Bytes) (h : it.Inv c) :
    TwoIter.Good c it { it with handle := hv } := by
  refine ⟨⟨h.1, h.2⟩, rfl, id, ?_⟩
  intro hf
  rw [TwoIter.flagged_iff] at hf ⊢
  exact hf

/-! ### ldb_twoiter_init_data_block -/

theorem TwoIter.initDataBlock_good {c : BlockCmp} {rd : Bytes → Option DataIter} (hrd : RdInv c rd)
    (it it' : TwoIter) (h : it.Inv c) (he : TwoIter.initDataBlock rd it = some it') :
    TwoIter.Good c it it' ∧ it'.index = it.index ∧ (it.index.valid = false → it'.data = none) := by
  unfold TwoIter.initDataBlock at he
  split at he
  · cases he
    exact ⟨TwoIter.setDataIter_good it none h (fun d' hd' => by cases hd'),
      TwoIter.setDataIter_index it none, fun _ => rfl⟩
  · rename_i hv
    have hv' : ¬ it.index.valid = false := by
      intro hh; rw [hh] at hv; exact hv rfl
    dsimp only at he
    split at he
    · cases he
      exact ⟨TwoIter.Good.refl h, rfl, fun hh => absurd hh hv'⟩
    · split at he
      · cases he
      · rename_i d hd
        cases he
        have g1 := TwoIter.setHandle_good (c := c) it it.index.value h
        have g2 := TwoIter.setDataIter_good (c := c) { it with handle := it.index.value } (some d) g1.1
          (fun d' hd' => by cases hd'; exact hrd _ _ hd)
        exact ⟨g1.trans g2, TwoIter.setDataIter_index _ _, fun hh => absurd hh hv'⟩

theorem TwoIter.initDataBlock_total {rd : Bytes → Option DataIter} (hrd : RdTotal rd) (it : TwoIter) :
    ∃ it', TwoIter.initDataBlock rd it = some it' := by
  unfold TwoIter.initDataBlock
  split
  · exact ⟨_, rfl⟩
  · dsimp only
    split
    · exact ⟨_, rfl⟩
    · split
      · rename_i hn; exact absurd hn (hrd _)
      · exact ⟨_, rfl⟩

theorem TwoIter.initDataBlock_inv {c : BlockCmp} {rd : Bytes → Option DataIter} (hrd : RdInv c rd)
    (it it' : TwoIter) (h : it.Inv c) (he : TwoIter.initDataBlock rd it = some it') : it'.Inv c :=
  (TwoIter.initDataBlock_good hrd it it' h he).1.1

theorem TwoIter.initDataBlock_flagged {c : BlockCmp} {rd : Bytes → Option DataIter} (hrd : RdInv c rd)
    (it it' : TwoIter) (h : it.Inv c) (hf : it.Flagged)
    (he : TwoIter.initDataBlock rd it = some it') : it'.Flagged :=
  (TwoIter.initDataBlock_good hrd it it' h he).1.2.2.2 hf

/-! ### operations on the data iterator -/

/-- `f` is a block-iterator operation that the data iterator of `it` can take: it does not
    fault, keeps the invariant and a corrupt status -/
def TwoIter.DataFn (c : BlockCmp) (it : TwoIter) (f : TIter → Option TIter) : Prop :=
  ∀ ti, it.data = some (.opened ti) → ti.Inv c → ∃ ti', f ti = some ti' ∧ TIter.Good c ti ti'

theorem TwoIter.dataFn_first (c : BlockCmp) (it : TwoIter) : it.DataFn c (TIter.first c) :=
  fun ti _ hi => TIter.first_ok c ti hi

theorem TwoIter.dataFn_last (c : BlockCmp) (it : TwoIter) : it.DataFn c (TIter.last c) :=
  fun ti _ hi => TIter.last_ok c ti hi

theorem TwoIter.dataFn_seek (c : BlockCmp) (it : TwoIter) (t : Bytes) : it.DataFn c (TIter.seek c t) :=
  fun ti _ hi => by
    obtain ⟨t', h1, h2, _⟩ := TIter.seek_ok c t ti hi
    exact ⟨t', h1, h2⟩

theorem TwoIter.valid_opened (it : TwoIter) (ti : TIter) (hd : it.data = some (.opened ti))
    (hv : it.valid = true) : ti.valid = true := by
  simpa [TwoIter.valid, TwoIter.dataValid, hd, DataIter.valid] using hv

theorem TwoIter.dataFn_next (c : BlockCmp) (it : TwoIter) (hv : it.valid = true) :
    it.DataFn c (TIter.next c) :=
  fun ti hd hi => TIter.next_ok c ti hi (it.valid_opened ti hd hv)

theorem TwoIter.dataFn_prev (c : BlockCmp) (it : TwoIter) (hv : it.valid = true) :
    it.DataFn c (TIter.prev c) :=
  fun ti hd hi => TIter.prev_ok c ti hi (it.valid_opened ti hd hv)

theorem TwoIter.onData_total {c : BlockCmp} (it : TwoIter) (f : TIter → Option TIter)
    (hf : it.DataFn c f) (h : it.Inv c) : ∃ it', it.onData f = some it' := by
  unfold TwoIter.onData
  cases hd : it.data with
  | none => exact ⟨it, rfl⟩
  | some d =>
    cases d with
    | failed s => exact ⟨_, rfl⟩
    | opened ti =>
      obtain ⟨ti', h1, _⟩ := hf ti hd (h.2 _ hd)
      exact ⟨{ it with data := some (.opened ti') },
        by simp only [DataIter.lift, h1, Option.map_some]⟩

theorem TwoIter.onData_good {c : BlockCmp} (it it' : TwoIter) (f : TIter → Option TIter)
    (hf : it.DataFn c f) (h : it.Inv c) (he : it.onData f = some it') :
    TwoIter.Good c it it' ∧ it'.index = it.index ∧ (it.data = none → it'.data = none) := by
  unfold TwoIter.onData at he
  cases hd : it.data with
  | none =>
    rw [hd] at he
    cases he
    exact ⟨TwoIter.Good.refl h, rfl, fun _ => hd⟩
  | some d =>
    rw [hd] at he
    cases d with
    | failed s =>
      simp only [DataIter.lift, Option.map_some, Option.some.injEq] at he
      subst he
      refine ⟨⟨⟨h.1, ?_⟩, rfl, id, ?_⟩, rfl, fun hh => by cases hh⟩
      · intro d' hd'; cases hd'; trivial
      · intro hfl
        rw [TwoIter.flagged_iff] at hfl ⊢
        rw [hd] at hfl
        exact hfl
    | opened ti =>
      obtain ⟨ti', h1, h2⟩ := hf ti hd (h.2 _ hd)
      simp only [DataIter.lift, h1, Option.map_some, Option.some.injEq] at he
      subst he
      refine ⟨⟨⟨h.1, ?_⟩, rfl, id, ?_⟩, rfl, fun hh => by cases hh⟩
      · intro d' hd'; cases hd'; exact h2.1
      · intro hfl
        rw [TwoIter.flagged_iff] at hfl ⊢
        rcases hfl with hfl | ⟨d0, hd0, hs0⟩ | hfl
        · exact Or.inl hfl
        · rw [hd] at hd0
          cases hd0
          refine Or.inr (Or.inl ⟨.opened ti', rfl, ?_⟩)
          have : ti.status = .corrupt := (TStatus.ofB_ne_ok_iff _).1 hs0
          exact (TStatus.ofB_ne_ok_iff _).2 (h2.2 this)
        · exact Or.inr (Or.inr hfl)

theorem TwoIter.onData_inv {c : BlockCmp} (it it' : TwoIter) (f : TIter → Option TIter)
    (hf : it.DataFn c f) (h : it.Inv c) (he : it.onData f = some it') : it'.Inv c :=
  (TwoIter.onData_good it it' f hf h he).1.1

theorem TwoIter.onData_flagged {c : BlockCmp} (it it' : TwoIter) (f : TIter → Option TIter)
    (hf : it.DataFn c f) (h : it.Inv c) (hfl : it.Flagged) (he : it.onData f = some it') :
    it'.Flagged :=
  (TwoIter.onData_good it it' f hf h he).1.2.2.2 hfl

/-! ### the skip loops -/

theorem TwoIter.skipForward_good {c : BlockCmp} {rd : Bytes → Option DataIter} (hrd : RdInv c rd) :
    ∀ fuel (it it' : TwoIter), it.Inv c → TwoIter.skipForward c rd fuel it = some it' →
      TwoIter.Good c it it' := by
  intro fuel
  induction fuel with
  | zero => intro it it' _ he; cases he
  | succ fuel ih =>
    intro it it' h he
    unfold TwoIter.skipForward at he
    split at he
    · split at he
      · cases he
        exact TwoIter.setDataIter_good it none h (fun d' hd' => by cases hd')
      · rename_i hv
        have hv' : it.index.valid = true := by
          cases hh : it.index.valid with
          | true => rfl
          | false => rw [hh] at hv; exact absurd rfl hv
        obtain ⟨ix, hn, hstep, _⟩ := TIter.next_step c it.index h.1 hv'
        rw [hn] at he
        dsimp only at he
        have g0 := TwoIter.setIndex_good it ix h hstep
        split at he
        · cases he
        · rename_i it1 h1
          obtain ⟨g1, _, _⟩ := TwoIter.initDataBlock_good hrd _ it1 g0.1 h1
          split at he
          · cases he
          · rename_i it2 h2
            obtain ⟨g2, _, _⟩ := TwoIter.onData_good it1 it2 _ (TwoIter.dataFn_first c it1) g1.1 h2
            exact (g0.trans (g1.trans g2)).trans (ih it2 it' g2.1 he)
    · cases he
      exact TwoIter.Good.refl h

theorem TwoIter.skipBackward_good {c : BlockCmp} {rd : Bytes → Option DataIter} (hrd : RdInv c rd) :
    ∀ fuel (it it' : TwoIter), it.Inv c → TwoIter.skipBackward c rd fuel it = some it' →
      TwoIter.Good c it it' := by
  intro fuel
  induction fuel with
  | zero => intro it it' _ he; cases he
  | succ fuel ih =>
    intro it it' h he
    unfold TwoIter.skipBackward at he
    split at he
    · split at he
      · cases he
        exact TwoIter.setDataIter_good it none h (fun d' hd' => by cases hd')
      · rename_i hv
        have hv' : it.index.valid = true := by
          cases hh : it.index.valid with
          | true => rfl
          | false => rw [hh] at hv; exact absurd rfl hv
        obtain ⟨ix, hn, hstep, _⟩ := TIter.prev_step c it.index h.1 hv'
        rw [hn] at he
        dsimp only at he
        have g0 := TwoIter.setIndex_good it ix h hstep
        split at he
        · cases he
        · rename_i it1 h1
          obtain ⟨g1, _, _⟩ := TwoIter.initDataBlock_good hrd _ it1 g0.1 h1
          split at he
          · cases he
          · rename_i it2 h2
            obtain ⟨g2, _, _⟩ := TwoIter.onData_good it1 it2 _ (TwoIter.dataFn_last c it1) g1.1 h2
            exact (g0.trans (g1.trans g2)).trans (ih it2 it' g2.1 he)
    · cases he
      exact TwoIter.Good.refl h

theorem TwoIter.skipForward_inv {c : BlockCmp} {rd : Bytes → Option DataIter} (hrd : RdInv c rd)
    (fuel : Nat) (it it' : TwoIter) (h : it.Inv c)
    (he : TwoIter.skipForward c rd fuel it = some it') : it'.Inv c :=
  (TwoIter.skipForward_good hrd fuel it it' h he).1

theorem TwoIter.skipBackward_inv {c : BlockCmp} {rd : Bytes → Option DataIter} (hrd : RdInv c rd)
    (fuel : Nat) (it it' : TwoIter) (h : it.Inv c)
    (he : TwoIter.skipBackward c rd fuel it = some it') : it'.Inv c :=
  (TwoIter.skipBackward_good hrd fuel it it' h he).1

theorem TwoIter.skipForward_flagged {c : BlockCmp} {rd : Bytes → Option DataIter} (hrd : RdInv c rd)
    (fuel : Nat) (it it' : TwoIter) (h : it.Inv c) (hf : it.Flagged)
    (he : TwoIter.skipForward c rd fuel it = some it') : it'.Flagged :=
  (TwoIter.skipForward_good hrd fuel it it' h he).2.2.2 hf

theorem TwoIter.skipBackward_flagged {c : BlockCmp} {rd : Bytes → Option DataIter} (hrd : RdInv c rd)
    (fuel : Nat) (it it' : TwoIter) (h : it.Inv c) (hf : it.Flagged)
    (he : TwoIter.skipBackward c rd fuel it = some it') : it'.Flagged :=
  (TwoIter.skipBackward_good hrd fuel it it' h he).2.2.2 hf

/-- iterations `skipForward` can still need: the index iterator moves strictly forward -/
def TIter.remF (t : TIter) : Nat := if t.valid then t.restarts - t.pos + 1 else 0

/-- iterations `skipBackward` can still need: the index iterator moves strictly backward -/
def TIter.remB (t : TIter) : Nat := if t.valid then t.pos + 1 else 0

theorem TIter.remF_le (t : TIter) : t.remF ≤ t.restarts + 1 := by
  unfold TIter.remF; split <;> omega

theorem TIter.remB_le (t : TIter) : t.remB ≤ t.restarts + 1 := by
  unfold TIter.remB
  split
  · rename_i hv; have := t.pos_lt_restarts hv; omega
  · omega

theorem TwoIter.skipForward_total {c : BlockCmp} {rd : Bytes → Option DataIter} (hrd : RdInv c rd)
    (hrt : RdTotal rd) :
    ∀ fuel (it : TwoIter), it.Inv c → it.index.Mono → it.index.remF + 1 ≤ fuel →
      ∃ it', TwoIter.skipForward c rd fuel it = some it' := by
  intro fuel
  induction fuel with
  | zero => intro it _ _ hf; omega
  | succ fuel ih =>
    intro it h hm hf
    unfold TwoIter.skipForward
    split
    · split
      · exact ⟨_, rfl⟩
      · rename_i hv
        have hv' : it.index.valid = true := by
          cases hh : it.index.valid with
          | true => rfl
          | false => rw [hh] at hv; exact absurd rfl hv
        obtain ⟨ix, hn, hstep, hpos⟩ := TIter.next_step c it.index h.1 hv'
        rw [hn]
        dsimp only
        have g0 := TwoIter.setIndex_good it ix h hstep
        obtain ⟨it1, h1⟩ := TwoIter.initDataBlock_total hrt { it with index := ix }
        obtain ⟨g1, hi1, _⟩ := TwoIter.initDataBlock_good hrd _ it1 g0.1 h1
        obtain ⟨it2, h2⟩ := TwoIter.onData_total it1 _ (TwoIter.dataFn_first c it1) g1.1
        obtain ⟨g2, hi2, _⟩ := TwoIter.onData_good it1 it2 _ (TwoIter.dataFn_first c it1) g1.1 h2
        rw [h1]
        dsimp only
        rw [h2]
        dsimp only
        have hix : it2.index = ix := by rw [hi2, hi1]
        refine ih it2 g2.1 (by rw [hix]; exact hstep.2.2 hm) ?_
        rw [hix]
        have hr := hstep.2.1
        have hlt := it.index.pos_lt_restarts hv'
        unfold TIter.remF at hf ⊢
        rw [if_pos hv'] at hf
        split
        · rename_i hvx
          have := hpos hm hvx
          have := ix.pos_lt_restarts hvx
          omega
        · omega
    · exact ⟨_, rfl⟩

theorem TwoIter.skipBackward_total {c : BlockCmp} {rd : Bytes → Option DataIter} (hrd : RdInv c rd)
    (hrt : RdTotal rd) :
    ∀ fuel (it : TwoIter), it.Inv c → it.index.remB + 1 ≤ fuel →
      ∃ it', TwoIter.skipBackward c rd fuel it = some it' := by
  intro fuel
  induction fuel with
  | zero => intro it _ hf; omega
  | succ fuel ih =>
    intro it h hf
    unfold TwoIter.skipBackward
    split
    · split
      · exact ⟨_, rfl⟩
      · rename_i hv
        have hv' : it.index.valid = true := by
          cases hh : it.index.valid with
          | true => rfl
          | false => rw [hh] at hv; exact absurd rfl hv
        obtain ⟨ix, hn, hstep, hpos⟩ := TIter.prev_step c it.index h.1 hv'
        rw [hn]
        dsimp only
        have g0 := TwoIter.setIndex_good it ix h hstep
        obtain ⟨it1, h1⟩ := TwoIter.initDataBlock_total hrt { it with index := ix }
        obtain ⟨g1, hi1, _⟩ := TwoIter.initDataBlock_good hrd _ it1 g0.1 h1
        obtain ⟨it2, h2⟩ := TwoIter.onData_total it1 _ (TwoIter.dataFn_last c it1) g1.1
        obtain ⟨g2, hi2, _⟩ := TwoIter.onData_good it1 it2 _ (TwoIter.dataFn_last c it1) g1.1 h2
        rw [h1]
        dsimp only
        rw [h2]
        dsimp only
        have hix : it2.index = ix := by rw [hi2, hi1]
        refine ih it2 g2.1 ?_
        rw [hix]
        unfold TIter.remB at hf ⊢
        rw [if_pos hv'] at hf
        split
        · rename_i hvx
          have := hpos hvx
          omega
        · omega
    · exact ⟨_, rfl⟩

/-- an invalid index iterator with no data iterator: the loop ends invalid -/
theorem TwoIter.skipForward_dead (c : BlockCmp) (rd : Bytes → Option DataIter) (fuel : Nat)
    (it it' : TwoIter) (hv : it.index.valid = false) (hd : it.data = none)
    (he : TwoIter.skipForward c rd fuel it = some it') : it'.valid = false := by
  cases fuel with
  | zero => cases he
  | succ fuel =>
    unfold TwoIter.skipForward at he
    simp only [hd, hv, Option.isNone_none, Bool.true_or, Bool.not_false, if_true,
      Option.some.injEq] at he
    subst he
    rfl

end Lcdb
