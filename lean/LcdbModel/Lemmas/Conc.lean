/-
  The combined invariant of the concurrency model and its preservation along every step.
-/
import LcdbModel.Lemmas.ConcL

namespace Lcdb.Conc

/-! ### the sync invariant (a non-sync leader leads no sync follower) -/

def SameStatic (a b : Writer) : Prop := a.tid = b.tid ∧ a.batch = b.batch ∧ a.sync = b.sync

theorem SameStatic.refl (a : Writer) : SameStatic a a := ⟨rfl, rfl, rfl⟩
theorem SameStatic.trans {a b c : Writer} (h1 : SameStatic a b) (h2 : SameStatic b c) : SameStatic a c :=
  ⟨h1.1.trans h2.1, h1.2.1.trans h2.2.1, h1.2.2.trans h2.2.2⟩

theorem wake_static (x : Writer) : SameStatic (wake x) x := ⟨by simp, by simp, by simp⟩
theorem bwake_static (x : Writer) : SameStatic (bwake x) x := ⟨by simp, by simp, by simp⟩
theorem wakeHead_static (q : List Tid) (x : Writer) : SameStatic (wakeHead q x) x := by
  unfold wakeHead; split
  · exact wake_static x
  · exact SameStatic.refl x
theorem markF_static (ok : Bool) (x : Writer) : SameStatic (markF ok x) x := ⟨rfl, rfl, rfl⟩

theorem putW_static {st : St} (hN : (st.writers.map (·.tid)).Nodup) {w : Writer} (w' : Writer) (hw : w ∈ st.writers)
    (hs : SameStatic w' w) : ∀ x ∈ st.writers, SameStatic (putW w.tid w' x) x := by
  intro x hx; unfold putW; split
  · rename_i h; rw [writer_unique hN hx hw h]; exact hs
  · exact SameStatic.refl x

theorem commitW_static {st : St} (hN : (st.writers.map (·.tid)).Nodup) {w : Writer} (hw : w ∈ st.writers) (sf : Bool) :
    ∀ x ∈ st.writers, SameStatic (commitW st w sf x) x := by
  intro x hx
  unfold commitW
  refine (wakeHead_static _ _).trans ?_
  have hin : SameStatic (if x.tid ∈ List.drop 1 st.inflight then markF (!sf) (if sf = true then bwake x else x)
      else if sf = true then bwake x else x) x := by
    have hb : SameStatic (if sf = true then bwake x else x) x := by
      split
      · exact bwake_static x
      · exact SameStatic.refl x
    split
    · exact (markF_static _ _).trans hb
    · exact hb
  generalize (if x.tid ∈ List.drop 1 st.inflight then markF (!sf) (if sf = true then bwake x else x)
      else if sf = true then bwake x else x) = y at hin
  unfold putW; split
  · rename_i h
    have := writer_unique hN hx hw (hin.1.symm.trans h)
    rw [this]; exact ⟨rfl, rfl, rfl⟩
  · exact hin

/-- the (tid, sync) table -/
def syncTable (st : St) : List (Tid × Bool) := st.writers.map fun x => (x.tid, x.sync)

theorem syncTable_map {st st' : St} {g : Writer → Writer} (hw : st'.writers = st.writers.map g)
    (hg : ∀ x ∈ st.writers, SameStatic (g x) x) : syncTable st' = syncTable st := by
  unfold syncTable; rw [hw, List.map_map]; apply List.map_congr_left
  intro x hx; simp [(hg x hx).1, (hg x hx).2.2]

/-- a non-sync leader leads no sync follower -/
def InvS (st : St) : Prop :=
  ∀ h, st.inflight.head? = some h → (h, false) ∈ syncTable st → ∀ m ∈ st.inflight, (m, true) ∉ syncTable st

theorem InvS.of_same {st st' : St} (H : InvS st) (hi : st'.inflight = st.inflight) (ht : syncTable st' = syncTable st) :
    InvS st' := by
  unfold InvS; rw [hi, ht]; exact H

theorem InvS.of_nil {st' : St} (hi : st'.inflight = []) : InvS st' := by
  intro h hh; rw [hi] at hh; cases hh

theorem fail_InvS {st : St} {w : Writer} (H : InvS st) (hN : (st.writers.map (·.tid)).Nodup) (hw : w ∈ st.writers) :
    InvS (failAct st w) := by
  rw [failAct_eq hN]
  refine H.of_same rfl (syncTable_map (g := wakeHead (st.queue.drop 1) ∘ putW w.tid { w with pc := .returned false })
    rfl ?_)
  intro x hx
  exact (wakeHead_static _ _).trans (putW_static (w := w) hN { w with pc := .returned false } hw ⟨rfl, rfl, rfl⟩ x hx)

theorem headOutcome_InvS {st st' : St} {w : Writer} {c : RoomChoice} (H : InvS st)
    (hN : (st.writers.map (·.tid)).Nodup) (hw : w ∈ st.writers) (hhead : st.queue.head? = some w.tid)
    (hnb : w.pc ≠ .asleepBg) (h : HeadOutcome st w c st') : InvS st' := by
  cases h with
  | fail _ => exact fail_InvS H hN hw
  | switchFail _ _ =>
    have H1 : InvS (switchFailSt st) :=
      H.of_same (by simp) (syncTable_map (g := bwake) (by simp) (fun x _ => bwake_static x))
    exact fail_InvS H1 (by rw [switchFailSt_writers]; exact nodup_tids_map bwake_tid hN) (mem_switchFailSt hw hnb)
  | delay _ _ =>
    rw [setW_eq]
    exact H.of_same rfl (syncTable_map rfl
      (putW_static (w := w) hN { w with pc := .delayed, usedDelay := true } hw ⟨rfl, rfl, rfl⟩))
  | wait _ _ _ =>
    rw [setW_eq]
    exact H.of_same rfl (syncTable_map rfl (putW_static (w := w) hN { w with pc := .asleepBg } hw ⟨rfl, rfl, rfl⟩))
  | begin sw g _ _ hg _ hsync =>
    rw [beginSt_eq]
    have hT : syncTable (mapW (beginG st sw g) (putW w.tid { w with pc := .io })) = syncTable st :=
      syncTable_map (by simp) (putW_static (w := w) hN { w with pc := .io } hw ⟨rfl, rfl, rfl⟩)
    intro h hh hns m hm
    rw [hT] at hns ⊢
    simp only [mapW_inflight, beginG_inflight] at hh hm
    obtain ⟨q, hq⟩ := head?_eq_cons hhead
    have hhw : h = w.tid := by
      rw [hq] at hh
      cases g with
      | zero => omega
      | succ n => simp at hh; exact hh.symm
    subst hhw
    have hws : w.sync = false := by
      simp only [syncTable, List.mem_map, Prod.mk.injEq] at hns
      obtain ⟨x, hx, hxt, hxs⟩ := hns
      rw [← writer_unique hN hx hw hxt]; exact hxs
    obtain ⟨x, hgx, hx⟩ := hsync hws m hm
    obtain ⟨hxm, hxt⟩ := getW_some hgx
    intro hmt
    simp only [syncTable, List.mem_map, Prod.mk.injEq] at hmt
    obtain ⟨y, hy, hyt, hys⟩ := hmt
    have hyx : y = x := writer_unique hN hy hxm (hyt.trans hxt.symm)
    rw [hyx] at hys
    have := hx hys
    rw [writer_unique hN hxm hw this, hws] at hys
    cases hys

theorem step_InvS {st st' : St} {l : Label} (HQ : InvQ st) (H : InvS st) (h : step st l = some st') : InvS st' := by
  have hN := HQ.wnodup
  cases l with
  | wEnter t c =>
    obtain ⟨w, hg, hpc, _, h⟩ := step_wEnter h
    obtain ⟨hw, rfl⟩ := getW_some hg
    have HE : InvS (enq st w.tid) := H.of_same rfl rfl
    rcases h with ⟨hh, ho⟩ | ⟨hh, _, rfl⟩
    · exact headOutcome_InvS HE hN hw (by simpa [enq] using hh) (by simp [hpc]) ho
    · rw [setW_eq]
      exact HE.of_same rfl (syncTable_map rfl (putW_static (w := w) hN { w with pc := .asleepW } hw ⟨rfl, rfl, rfl⟩))
  | wWake t c =>
    obtain ⟨w, hg, hpc, h⟩ := step_wWake h
    obtain ⟨hw, rfl⟩ := getW_some hg
    rcases h with ⟨hd, _, rfl⟩ | ⟨hd, hh, ho⟩ | ⟨hd, hh, _, rfl⟩
    · rw [setW_eq]
      exact H.of_same rfl (syncTable_map rfl
        (putW_static (w := w) hN { w with pc := .returned w.status } hw ⟨rfl, rfl, rfl⟩))
    · exact headOutcome_InvS H hN hw hh (by rcases hpc with hpc | hpc | hpc <;> simp [hpc]) ho
    · rw [setW_eq]
      exact H.of_same rfl (syncTable_map rfl (putW_static (w := w) hN { w with pc := .asleepW } hw ⟨rfl, rfl, rfl⟩))
  | wCommit t sf =>
    obtain ⟨w, hg, hpc, _, rfl⟩ := step_wCommit h
    rw [commitAct_eq hN]
    apply InvS.of_nil
    unfold commitG; cases sf <;> rfl
  | rCapture t =>
    obtain ⟨r, _, _, _, rfl⟩ := step_rCapture h
    exact H.of_same rfl rfl
  | rRead t =>
    obtain ⟨r, s, _, _, rfl⟩ := step_rRead h
    exact H.of_same rfl rfl
  | rRelease t seek =>
    obtain ⟨r, s, _, _, rfl⟩ := step_rRelease h
    cases seek
    · exact H.of_same rfl rfl
    · exact H.of_same (by simp [setR]) (by simp [setR, syncTable])
  | bgStart =>
    obtain ⟨_, rfl⟩ := step_bgStart h
    exact H.of_same rfl rfl
  | bgMid fd bc er =>
    obtain ⟨_, _, _, _, rfl⟩ := step_bgMid h
    by_cases hb : (bc || er) = true
    · simp only [hb, if_true]; rw [broadcastBg_eq]
      exact H.of_same rfl (syncTable_map (g := bwake) rfl (fun x _ => bwake_static x))
    · simp only [hb]; exact H.of_same rfl rfl
  | bgFinish sn =>
    obtain ⟨_, rfl⟩ := step_bgFinish h
    rw [broadcastBg_eq]
    exact H.of_same (by simp) (syncTable_map (g := bwake) (by simp) (fun x _ => bwake_static x))
  | close =>
    obtain ⟨_, _, _, rfl⟩ := step_close h
    exact H.of_same rfl rfl
  | closeWake =>
    obtain ⟨_, rfl⟩ := step_closeWake h
    exact H.of_same rfl rfl

/-! ### the combined invariant -/

structure Inv (st : St) : Prop where
  q : InvQ st
  b : InvB st
  l : InvL st
  s : InvS st

theorem step_Inv {st st' : St} {l : Label} (H : Inv st) (h : step st l = some st') : Inv st' :=
  ⟨step_InvQ H.q h, step_InvB H.q H.b h, step_InvL H.q H.l h, step_InvS H.q H.s h⟩

theorem init_Inv {ws : List Writer} {rs : List Reader} (hwf : WF ws rs) : Inv (initSt ws rs) := by
  obtain ⟨h1, h2, h3, h4⟩ := hwf
  refine ⟨⟨(List.nodup_append.1 h1).1, by simp [initSt], by simp [initSt], by simp [initSt], ?_⟩,
    ⟨by simp [initSt], by simp [initSt], by simp [initSt], by simp [initSt], ?_, ?_⟩,
    ⟨h1, h2, rfl, rfl, by simp [initSt], ?_, by simp [initSt], by simp [initSt], by simp [initSt], ?_, ?_, ?_⟩, ?_⟩
  · intro w hw _
    have := h3 w hw
    simp [WQ, initSt, this.1, this.2]
  · intro w hw
    have := h3 w hw
    simp [WB, initSt, this.1]
  · intro r hr _; exact Or.inl (h4 r hr)
  · exact ⟨[], by simp [initSt, writerInvs, invocations], by simp [initSt], by simp⟩
  · intro w hw
    have := h3 w hw
    simp [WC, initSt, wCommitted, this.1, this.2]
  · intro w hw _
    have := h3 w hw
    simp [WLog, initSt, this.1, entriesOf]
  · intro r hr
    have := h4 r hr
    simp [RL, initSt, this, entriesOf]
  · intro h hh; simp [initSt] at hh

theorem reachable_Inv {ws : List Writer} {rs : List Reader} (hwf : WF ws rs) {st : St} (h : Reachable ws rs st) :
    Inv st := by
  induction h with
  | init => exact init_Inv hwf
  | step l _ hs ih => exact step_Inv ih hs

end Lcdb.Conc
