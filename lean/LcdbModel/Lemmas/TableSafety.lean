/-
  Table safety (C18 for whole tables): on ARBITRARY file bytes `tableOpen`, every sequence of
  table-iterator operations, the forward scan and `tableGet` never reach a fault; the error status
  of the table iterator is sticky.

  Parts: TableSafetyA (monotonicity of the block iterator), TableSafetyB (`readBlock_total'`,
  `tableOpen_no_fault`), TableSafetyC (primitives and skip loops of the two-level iterator),
  TableSafetyD (`twoIter_apply_good/inv/total`, `twoIter_status_sticky`), this file (the table).
-/
import LcdbModel.Lemmas.TableSafetyD
namespace Lcdb

/-! ### ldb_table_blockreader -/

theorem blockReader_rdInv (c : BlockCmp) (t : Table) (verify : Bool) :
    RdInv c (blockReader t verify) := by
  intro hv d hd
  unfold blockReader at hd
  split at hd
  · cases hd; trivial
  · split at hd
    · cases hd
    · cases hd; trivial
    · cases hd; exact blockIterCreate_inv c _

theorem blockReader_total (t : Table) (verify : Bool) : RdTotal (blockReader t verify) := by
  intro hv
  unfold blockReader
  split
  · intro hh; cases hh
  · split
    · rename_i hrb; exact absurd hrb (readBlock_total' _ _ _ _)
    · intro hh; cases hh
    · intro hh; cases hh

/-- `blockReader` always returns an iterator satisfying the invariant -/
theorem blockReader_ok (c : BlockCmp) (t : Table) (verify : Bool) (hv : Bytes) :
    ∃ d, blockReader t verify hv = some d ∧ d.Inv c := by
  cases hd : blockReader t verify hv with
  | none => exact absurd hd (blockReader_total t verify hv)
  | some d => exact ⟨d, rfl, blockReader_rdInv c t verify hv d hd⟩

/-! ### the table iterator -/

theorem tableIterCreate_inv (c : BlockCmp) (t : Table) : (tableIterCreate t).Inv c :=
  ⟨blockIterCreate_inv c t.index, fun d hd => by cases hd⟩

theorem tableIterCreate_enough (t : Table) : (tableIterCreate t).Enough (skipFuel t) := by
  obtain ⟨h1, h2, _⟩ := blockIterCreate_mono t.index
  refine ⟨h1, ?_⟩
  show (blockIterCreate t.index).restarts + 2 ≤ t.index.length + 2
  omega

/-- every state reachable by table-iterator operations: no fault, invariant, fuel bound -/
theorem tableIter_run_ok (t : Table) (verify : Bool) (ops : List BlockOp) :
    ∃ it, (tableIterOps t verify).run ops (tableIterCreate t) = some it ∧ it.Inv t.cmpB ∧
      it.Enough (skipFuel t) := by
  obtain ⟨it, h1, g, e⟩ := twoIter_run_total (blockReader_rdInv t.cmpB t verify)
    (blockReader_total t verify) (skipFuel t) ops (tableIterCreate t)
    (tableIterCreate_inv t.cmpB t) (tableIterCreate_enough t)
  exact ⟨it, h1, g.1, e⟩

/-- for ANY table structure (arbitrary index bytes, arbitrary file) -/
theorem tableIter_no_fault' (t : Table) (verify : Bool) (ops : List BlockOp) :
    (tableIterOps t verify).run ops (tableIterCreate t) ≠ none := by
  obtain ⟨it, h1, _⟩ := tableIter_run_ok t verify ops
  rw [h1]; intro hh; cases hh

/-- **C18, iterator**: no sequence of table-iterator operations faults, on arbitrary file bytes -/
theorem tableIter_no_fault (o : TableOpts) (file : Bytes) (paranoid verify : Bool) (t : Table)
    (_ht : tableOpen o file paranoid = .ok t) (ops : List BlockOp) :
    (tableIterOps t verify).run ops (tableIterCreate t) ≠ none :=
  tableIter_no_fault' t verify ops

theorem scanGo_no_fault (t : Table) (verify : Bool) :
    ∀ (n : Nat) (it : TwoIter) (acc : List (Bytes × Bytes)), it.Inv t.cmpB →
      it.Enough (skipFuel t) → scanGo t verify n it acc ≠ none := by
  intro n
  induction n with
  | zero => intro it acc _ _ hh; cases hh
  | succ n ih =>
    intro it acc h hf
    unfold scanGo
    split
    · rename_i hv
      have nf : TwoIter.NF t.cmpB (blockReader t verify) (skipFuel t) it
          ((tableIterOps t verify).next it) := TwoIter.next_nf (skipFuel t) it h hv
      obtain ⟨it', h1⟩ := nf.total (blockReader_rdInv t.cmpB t verify) (blockReader_total t verify) hf
      have g := nf.good (blockReader_rdInv t.cmpB t verify) h1
      rw [h1]
      exact ih it' _ g.1 (g.enough hf)
    · intro hh; cases hh

theorem tableIterAll_no_fault' (t : Table) (verify : Bool) (n : Nat) :
    tableIterAll t verify n ≠ none := by
  unfold tableIterAll
  have nf : TwoIter.NF t.cmpB (blockReader t verify) (skipFuel t) (tableIterCreate t)
      ((tableIterOps t verify).first (tableIterCreate t)) :=
    TwoIter.first_nf (blockReader_rdInv t.cmpB t verify) (blockReader_total t verify) (skipFuel t)
      (tableIterCreate t) (tableIterCreate_inv t.cmpB t)
  obtain ⟨it', h1⟩ := nf.total (blockReader_rdInv t.cmpB t verify) (blockReader_total t verify)
    (tableIterCreate_enough t)
  have g := nf.good (blockReader_rdInv t.cmpB t verify) h1
  rw [h1]
  exact scanGo_no_fault t verify n it' [] g.1 (g.enough (tableIterCreate_enough t))

/-- **C18, scan** -/
theorem tableIterAll_no_fault (o : TableOpts) (file : Bytes) (paranoid verify : Bool) (t : Table)
    (_ht : tableOpen o file paranoid = .ok t) (n : Nat) : tableIterAll t verify n ≠ none :=
  tableIterAll_no_fault' t verify n

/-! ### stickiness for the table iterator -/

/-- the error status of the table iterator is sticky under every operation -/
theorem tableIter_status_sticky (t : Table) (verify : Bool) (op : BlockOp) (it it' : TwoIter)
    (h : it.Inv t.cmpB) (he : (tableIterOps t verify).apply op it = some it')
    (hs : it.getStatus ≠ .ok) : it'.getStatus ≠ .ok :=
  twoIter_status_sticky (blockReader_rdInv t.cmpB t verify) (blockReader_total t verify) (skipFuel t)
    op it it' h he hs

theorem tableIter_status_sticky_run (t : Table) (verify : Bool) (ops : List BlockOp)
    (it it' : TwoIter) (h : it.Inv t.cmpB) (he : (tableIterOps t verify).run ops it = some it')
    (hs : it.getStatus ≠ .ok) : it'.getStatus ≠ .ok :=
  twoIter_status_sticky_run (blockReader_rdInv t.cmpB t verify) (blockReader_total t verify)
    (skipFuel t) ops it it' h he hs

/-! ### ldb_table_internal_get -/

theorem filterRejects_total (t : Table) (iv ikey : Bytes) : filterRejects t iv ikey ≠ none := by
  unfold filterRejects
  split
  · rename_i fc p _ hp
    split
    · intro hh; cases hh
    · rename_i h _ _
      have hsafe : p.Safe := by
        unfold TableOpts.policy at hp
        cases hb : t.opts.filterBits with
        | none => rw [hb] at hp; cases hp
        | some b =>
          rw [hb] at hp
          simp only [Option.map_some, Option.some.injEq] at hp
          subst hp
          exact ifpPolicy_safe _ (bloomPolicy_safe b)
      rw [filterMatch_total p hsafe fc h.offset ikey]
      intro hh; cases hh
  · intro hh; cases hh

theorem tableGet_no_fault' (t : Table) (ikey : Bytes) (verify : Bool) :
    tableGet t ikey verify ≠ none := by
  unfold tableGet
  obtain ⟨ix, h1, _⟩ := TIter.seek_ok t.cmpB ikey (blockIterCreate t.index)
    (blockIterCreate_inv _ _)
  rw [h1]
  dsimp only
  split
  · split
    · rename_i hfr; exact absurd hfr (filterRejects_total _ _ _)
    · intro hh; cases hh
    · obtain ⟨d, hd, hinv⟩ := blockReader_ok t.cmpB t verify ix.value
      rw [hd]
      dsimp only
      have hl : ∃ d', d.lift (TIter.seek t.cmpB ikey) = some d' := by
        cases d with
        | failed s => exact ⟨_, rfl⟩
        | opened ti =>
          obtain ⟨ti', h2, _⟩ := TIter.seek_ok t.cmpB ikey ti hinv
          exact ⟨.opened ti', by simp only [DataIter.lift, h2, Option.map_some]⟩
      obtain ⟨d', hd'⟩ := hl
      rw [hd']
      intro hh; cases hh
  · intro hh; cases hh

/-- **C18, get** -/
theorem tableGet_no_fault (o : TableOpts) (file : Bytes) (paranoid verify : Bool) (t : Table)
    (_ht : tableOpen o file paranoid = .ok t) (ikey : Bytes) : tableGet t ikey verify ≠ none :=
  tableGet_no_fault' t ikey verify

/-! ### the bundle -/

/-- **table_no_fault (C18 for whole tables)**: for ARBITRARY file bytes, opening the table does not
    fault, and if it opens then no sequence of iterator operations (arbitrary seek targets), no
    forward scan and no point lookup (arbitrary key bytes) faults -/
theorem table_no_fault (o : TableOpts) (file : Bytes) (paranoid : Bool) :
    tableOpen o file paranoid ≠ .error .fault ∧
    ∀ t, tableOpen o file paranoid = .ok t → ∀ verify : Bool,
      (∀ ops : List BlockOp, (tableIterOps t verify).run ops (tableIterCreate t) ≠ none) ∧
      (∀ n : Nat, tableIterAll t verify n ≠ none) ∧
      (∀ ikey : Bytes, tableGet t ikey verify ≠ none) :=
  ⟨tableOpen_no_fault o file paranoid, fun t _ verify =>
    ⟨tableIter_no_fault' t verify, tableIterAll_no_fault' t verify,
     fun ikey => tableGet_no_fault' t ikey verify⟩⟩

/-- the whole-file decoder never reports a model fault -/
theorem decodeTableFile_no_fault (o : TableOpts) (bytes : Bytes) :
    decodeTableFile o bytes ≠ .error "open: model fault" ∧
    decodeTableFile o bytes ≠ .error "scan: model fault" := by
  unfold decodeTableFile
  constructor
  · split
    · intro hh; simp at hh
    · intro hh; simp at hh
    · rename_i hf; exact absurd hf (tableOpen_no_fault _ _ _)
    · rename_i t _
      split
      · rename_i hs; exact absurd hs (tableIterAll_no_fault' t true _)
      · split
        · intro hh; simp at hh
        · split <;> (intro hh; simp at hh)
  · split
    · intro hh; simp at hh
    · intro hh; simp at hh
    · rename_i hf; exact absurd hf (tableOpen_no_fault _ _ _)
    · rename_i t _
      split
      · rename_i hs; exact absurd hs (tableIterAll_no_fault' t true _)
      · split
        · intro hh; simp at hh
        · split <;> (intro hh; simp at hh)

end Lcdb
