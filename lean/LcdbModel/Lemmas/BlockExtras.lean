/-
  Extras for the block slice:
  1. an easily checkable size bound for built blocks (`blockBuild_length_le`, `blockBuild_small`);
  2. the 15-byte header window handed to `decodeEntryWin` is unobservable (`decodeEntryWin_take`);
  3. the comparator structure instantiated by the driver satisfies `OrdLaws`.
-/
import LcdbModel.Lemmas.BlockBuild
import LcdbModel.Lemmas.BlockSafety
import LcdbModel.Props.CodingProps
import LcdbModel.Lemmas.OrdInstances
namespace Lcdb

/-! ### 1. size bound for built blocks -/

/-- 15 bytes of header per entry at most, 4 bytes per restart point at most one per entry, plus
    the first restart point and the count -/
def blockSizeBound (es : List (Bytes × Bytes)) : Nat :=
  (es.map (fun e => e.1.length + e.2.length + 19)).sum + 8

theorem encEntry_length_le (sh : Nat) (k v : Bytes) (hsh : sh ≤ k.length)
    (hk : k.length < 2 ^ 32) (hv : v.length < 2 ^ 32) :
    (encEntry sh k v).length ≤ k.length + v.length + 15 := by
  have h1 := varintEnc_length_le32 sh (by omega)
  have h2 := varintEnc_length_le32 (k.length - sh) (by omega)
  have h3 := varintEnc_length_le32 v.length hv
  rw [encEntry_length]
  simp only [encHdr, List.length_append]
  omega

theorem encAll_length_le (iv : Nat) (es : List (Bytes × Bytes))
    (hk : ∀ e ∈ es, e.1.length < 2 ^ 32 ∧ e.2.length < 2 ^ 32) :
    ∀ (cnt : Nat) (pk : Bytes),
      (encAll iv cnt pk es).length ≤ (es.map (fun e => e.1.length + e.2.length + 15)).sum := by
  induction es with
  | nil => intro cnt pk; simp [encAll]
  | cons e es ih =>
    intro cnt pk
    have he := hk e (List.mem_cons_self)
    have ih' := ih (fun e' h' => hk e' (List.mem_cons_of_mem _ h')) (nextCnt iv cnt) e.1
    have h1 := encEntry_length_le (shOf iv cnt pk e.1) e.1 e.2 (shOf_le_key iv cnt pk e.1)
      he.1 he.2
    simp only [encAll, List.length_append, List.map_cons, List.sum_cons]
    omega

theorem restartsGo_length_le (iv : Nat) (es : List (Bytes × Bytes)) :
    ∀ (cnt off : Nat) (pk : Bytes), (restartsGo iv cnt off pk es).length ≤ es.length := by
  induction es with
  | nil => intro cnt off pk; simp [restartsGo]
  | cons e es ih =>
    intro cnt off pk
    have ih' := ih (nextCnt iv cnt) (off + (encEntry (shOf iv cnt pk e.1) e.1 e.2).length) e.1
    simp only [restartsGo, List.length_append, List.length_cons]
    by_cases hc : cnt < iv
    · simp only [hc, if_true, List.length_nil]; omega
    · simp only [hc, if_false, List.length_cons, List.length_nil]; omega

theorem sum_map_add_const (es : List (Bytes × Bytes)) (c : Nat) :
    (es.map (fun e => e.1.length + e.2.length + (c + 4))).sum
      = (es.map (fun e => e.1.length + e.2.length + c)).sum + 4 * es.length := by
  induction es with
  | nil => rfl
  | cons e es ih =>
    simp only [List.map_cons, List.sum_cons, List.length_cons, ih]
    omega

theorem blockBuild_length_le (iv : Nat) (es : List (Bytes × Bytes))
    (hk : ∀ e ∈ es, e.1.length < 2 ^ 32 ∧ e.2.length < 2 ^ 32) :
    (blockBuild iv es).length ≤ blockSizeBound es := by
  have h1 := encAll_length_le iv es hk 0 []
  have h2 := restartsGo_length_le iv es 0 0 []
  have h3 := sum_map_add_const es 15
  rw [blockBuild_eq iv es hk]
  unfold blockSizeBound
  simp only [List.length_append, flatten_fixed_length, fixedEnc_length, List.length_cons]
  simp only [Nat.reduceAdd] at h3
  omega

theorem blockBuild_small (iv : Nat) (es : List (Bytes × Bytes))
    (hk : ∀ e ∈ es, e.1.length < 2 ^ 32 ∧ e.2.length < 2 ^ 32)
    (h : blockSizeBound es < 2 ^ 32) :
    (blockBuild iv es).length < 2 ^ 32 :=
  Nat.lt_of_le_of_lt (blockBuild_length_le iv es hk) h

/-- both side conditions are discharged by `decide` on concrete inputs -/
example : (blockBuild 2 [([1], [2]), ([1, 2], [3, 4]), ([2], [])]).length < 2 ^ 32 :=
  blockBuild_small 2 _ (by decide) (by decide)

/-! ### 2. the 15-byte header window is unobservable -/

/-- reading a varint from a truncated input (truncated no shorter than the fuel) gives the same
    value and the correspondingly truncated remainder; `none` iff `none` -/
theorem varintGo_take (w : Nat) : ∀ (fuel shift acc : Nat) (bs : Bytes) (n : Nat), fuel ≤ n →
    varintGo w fuel shift acc (bs.take n) =
      (varintGo w fuel shift acc bs).map
        (fun r => (r.1, r.2.take (n - (bs.length - r.2.length)))) := by
  intro fuel
  induction fuel with
  | zero => intro shift acc bs n _; simp [varintGo]
  | succ fuel ih =>
    intro shift acc bs n hn
    cases bs with
    | nil => simp [varintGo]
    | cons b rest =>
      cases n with
      | zero => omega
      | succ m =>
        simp only [List.take_succ_cons, varintGo]
        by_cases hb : b.toNat ≥ 128
        · simp only [hb, if_true]
          rw [ih _ _ rest m (by omega)]
          cases hr : varintGo w fuel (shift + 7) (acc + b.toNat % 128 * 2 ^ shift) rest with
          | none => rfl
          | some p =>
            obtain ⟨v, r⟩ := p
            obtain ⟨_, k, _, _, hk⟩ := varintGo_consumes w _ _ _ _ _ _ hr
            have hl : r.length ≤ rest.length := by rw [hk, List.length_drop]; omega
            simp only [Option.map_some, List.length_cons]
            have : m + 1 - (rest.length + 1 - r.length) = m - (rest.length - r.length) := by omega
            rw [this]
        · simp only [hb, if_false, Option.map_some, List.length_cons]
          have : m + 1 - (rest.length + 1 - rest.length) = m := by omega
          rw [this]

theorem varint32Read_take (bs : Bytes) (n : Nat) (hn : 5 ≤ n) :
    varint32Read (bs.take n) =
      (varint32Read bs).map (fun r => (r.1, r.2.take (n - (bs.length - r.2.length)))) :=
  varintGo_take 32 5 0 0 bs n hn

/-- a successful varint32 read consumes between one and five bytes -/
theorem varint32Read_used (bs : Bytes) (v : Nat) (r : Bytes) (h : varint32Read bs = some (v, r)) :
    r.length < bs.length ∧ bs.length - r.length ≤ 5 := by
  have h1 := varint32Read_rest_lt bs v r h
  obtain ⟨_, k, _, hk5, hk⟩ := varint32Read_consumes bs v r h
  refine ⟨h1, ?_⟩
  rw [hk, List.length_drop]; omega

/-- the slow path only ever looks at the first 15 bytes of the window -/
theorem decodeSlow_take (win : Bytes) (n xn : Nat) (hn : 15 ≤ n) :
    decodeSlow (win.take n) xn = decodeSlow win xn := by
  unfold decodeSlow
  rw [varint32Read_take win n (by omega)]
  cases h1 : varint32Read win with
  | none => rfl
  | some p1 =>
    obtain ⟨s, r1⟩ := p1
    obtain ⟨u1, c1⟩ := varint32Read_used win s r1 h1
    simp only [Option.map_some]
    rw [varint32Read_take r1 _ (by omega)]
    cases h2 : varint32Read r1 with
    | none => rfl
    | some p2 =>
      obtain ⟨ns, r2⟩ := p2
      obtain ⟨u2, c2⟩ := varint32Read_used r1 ns r2 h2
      simp only [Option.map_some]
      rw [varint32Read_take r2 _ (by omega)]
      cases h3 : varint32Read r2 with
      | none => rfl
      | some p3 =>
        obtain ⟨vl, r3⟩ := p3
        obtain ⟨u3, c3⟩ := varint32Read_used r2 vl r3 h3
        simp only [Option.map_some, List.length_take]
        have : min n win.length
            - min (n - (win.length - r1.length) - (r1.length - r2.length) - (r2.length - r3.length))
                r3.length
            = win.length - r3.length := by omega
        rw [this]

/-- the same for the whole of decode_entry's window decoder (fast path included: the first three
    bytes are the same) -/
theorem decodeEntryWin_take' (win : Bytes) (n xn : Nat) (hn : 15 ≤ n) :
    decodeEntryWin (win.take n) xn = decodeEntryWin win xn := by
  by_cases h3 : 3 ≤ win.length
  · rw [decodeEntryWin_eq_slow _ _ (by rw [List.length_take]; omega),
      decodeEntryWin_eq_slow _ _ h3, decodeSlow_take win n xn hn]
  · rw [List.take_of_length_le (by omega)]

/-- `decodeEntry` hands `decodeEntryWin` only the first `min xn 15` bytes of the window; this is
    equivalent to handing it the whole window -/
theorem decodeEntryWin_take (win : Bytes) :
    decodeEntryWin (win.take (min win.length 15)) win.length = decodeEntryWin win win.length := by
  by_cases h : win.length ≤ 15
  · rw [List.take_of_length_le (by omega)]
  · rw [decodeEntryWin_take' win _ _ (by omega)]

/-- `decodeEntry` restated without the 15-byte truncation: the decoder sees the whole window
    `data[p .. limit)` -/
theorem decodeEntry_eq_whole (data : Bytes) (p limit : Nat) :
    decodeEntry data p limit =
      if limit < p then .bad
      else if limit - p < 3 then .bad
      else if data.length < limit then .fault
      else
        match decodeEntryWin ((data.drop p).take (limit - p)) (limit - p) with
        | none => .bad
        | some (s, ns, vl, hdr) => .ok s ns vl (p + hdr) := by
  unfold decodeEntry
  by_cases h1 : limit < p
  · simp only [h1, if_true]
  · by_cases h2 : limit - p < 3
    · simp only [h1, h2, if_true, if_false]
    · by_cases h3 : data.length < limit
      · simp only [h1, h2, h3, if_true, if_false]
      · simp only [h1, h2, h3, if_false]
        have hl : ((data.drop p).take (limit - p)).length = limit - p := by
          rw [List.length_take, List.length_drop]; omega
        have ht := decodeEntryWin_take ((data.drop p).take (limit - p))
        rw [hl, List.take_take] at ht
        have hm : min (min (limit - p) 15) (limit - p) = min (limit - p) 15 := by omega
        rw [hm] at ht
        rw [ht]
        cases decodeEntryWin ((data.drop p).take (limit - p)) (limit - p) with
        | none => rfl
        | some q => obtain ⟨s, ns, vl, hdr⟩ := q; rfl

/-! ### 3. comparators used by the driver -/

theorem ordLaws_mkBlockCmp (c : Cmp) (internal : Bool) : OrdLaws (mkBlockCmp c internal).cmp := by
  cases internal
  · exact ordLaws_cmp c
  · exact ordLaws_ikeyCmp c

theorem mkBlockCmp_internal (c : Cmp) (internal : Bool) :
    (mkBlockCmp c internal).internal = internal := by
  cases internal <;> rfl

end Lcdb
