/-
  Lemmas about `pread`, `readBlock` (ldb_read_block) and `writeBlock`:
  totality, checksum facts, congruence, and the write/read round trip.
-/
import LcdbModel.Lemmas.TableDefs
import LcdbModel.Props.CrcProps
import LcdbModel.Props.SnappyProps
import LcdbModel.Props.CodingProps
namespace Lcdb

/-! ### pread -/

theorem pread_length (f : Bytes) (off n : Nat) : (pread f off n).length = min n (f.length - off) := by
  simp only [pread, List.length_take, List.length_drop]

theorem pread_length_le (f : Bytes) (off n : Nat) : (pread f off n).length ≤ n := by
  rw [pread_length]; omega

theorem pread_length_le_file (f : Bytes) (off n : Nat) : (pread f off n).length ≤ f.length - off := by
  rw [pread_length]; omega

theorem pread_length_eq_iff (f : Bytes) (off n : Nat) (hn : 0 < n) :
    (pread f off n).length = n ↔ off + n ≤ f.length := by
  rw [pread_length]; omega

theorem pread_length_eq_of_le (f : Bytes) (off n : Nat) (h : off + n ≤ f.length) :
    (pread f off n).length = n := by
  rw [pread_length]; omega

theorem pread_append_mid (pre mid suf : Bytes) : pread (pre ++ mid ++ suf) pre.length mid.length = mid := by
  simp only [pread, List.append_assoc, List.drop_left', List.take_left']

/-- reading inside a region that was read: a sub-`pread` of a `pread` -/
theorem pread_pread (f : Bytes) (off n a m : Nat) (h : a + m ≤ n) :
    pread (pread f off n) a m = pread f (off + a) m := by
  simp only [pread, List.drop_take, List.take_take, List.drop_drop]
  congr 1
  omega

theorem pread_zero_take (f : Bytes) (off n m : Nat) (h : m ≤ n) :
    (pread f off n).take m = pread f off m := by
  simp only [pread, List.take_take]
  congr 1
  omega

theorem pread_drop_take (f : Bytes) (off n a m : Nat) (h : a + m ≤ n) :
    ((pread f off n).drop a).take m = pread f (off + a) m := by
  have := pread_pread f off n a m h
  simpa only [pread] using this

/-- `pread` only depends on the part of the file it covers -/
theorem pread_congr_sub (f f' : Bytes) (off n a m : Nat) (h : pread f' off n = pread f off n)
    (ham : a + m ≤ n) : pread f' (off + a) m = pread f (off + a) m := by
  rw [← pread_pread f' off n a m ham, ← pread_pread f off n a m ham, h]

/-! ### the pieces of `readBlock` on a buffer of the right length -/

theorem sliceC_of_le (raw : Bytes) (a m : Nat) (h : a + m ≤ raw.length) :
    sliceC raw a m = some ((raw.drop a).take m) := by
  simp only [sliceC, h, if_true]

theorem blockCrcOk_of_length (raw : Bytes) (n : Nat) (h : raw.length = n + 5) :
    blockCrcOk raw n =
      some (crcUnmask (BitVec.ofNat 32 (fixedDec ((raw.drop (n + 1)).take 4))) == crcExtendTab 0 (raw.take (n + 1))) := by
  unfold blockCrcOk
  rw [sliceC_of_le raw (n + 1) 4 (by omega), sliceC_of_le raw 0 (n + 1) (by omega)]
  simp only [List.drop_zero]

theorem blockCrcOk_ne_none (raw : Bytes) (n : Nat) (h : raw.length = n + 5) : blockCrcOk raw n ≠ none := by
  rw [blockCrcOk_of_length raw n h]; exact Option.some_ne_none _

theorem readBlockBody_ne_fault (raw : Bytes) (n : Nat) (h : n < raw.length) :
    readBlockBody raw n ≠ .error .fault := by
  unfold readBlockBody
  have h1 : raw[n]? = some raw[n] := List.getElem?_eq_getElem h
  rw [h1, sliceC_of_le raw 0 n (by omega)]
  simp only
  split
  · intro hh; cases hh
  · split
    · split
      · intro hh; cases hh
      · split
        · intro hh; cases hh
        · intro hh; cases hh
    · intro hh; cases hh

/-! ### unfolding `readBlock` -/

theorem readBlock_of_big (f : Bytes) (off size : Nat) (v : Bool) (hs : size > 2 ^ 64 - 1 - 5) :
    readBlock f off size v = .error .corruption := by
  unfold readBlock
  rw [if_pos (show size > 2 ^ 64 - 1 - blockTrailerSize from hs)]

theorem readBlock_of_short (f : Bytes) (off size : Nat) (v : Bool) (hs : size ≤ 2 ^ 64 - 1 - 5)
    (hl : (pread f off (size + 5)).length ≠ size + 5) :
    readBlock f off size v = .error .io := by
  unfold readBlock
  rw [if_neg (show ¬ size > 2 ^ 64 - 1 - blockTrailerSize from by simp only [blockTrailerSize]; omega)]
  exact if_pos hl

theorem readBlock_eq_of_length (f : Bytes) (off size : Nat) (v : Bool)
    (hs : size ≤ 2 ^ 64 - 1 - 5) (hl : (pread f off (size + 5)).length = size + 5) :
    readBlock f off size v =
      if v then
        match blockCrcOk (pread f off (size + 5)) size with
        | none => .error .fault
        | some false => .error .corruption
        | some true => readBlockBody (pread f off (size + 5)) size
      else readBlockBody (pread f off (size + 5)) size := by
  unfold readBlock
  rw [if_neg (show ¬ size > 2 ^ 64 - 1 - blockTrailerSize from by simp only [blockTrailerSize]; omega)]
  exact if_neg (show ¬ (pread f off (size + 5)).length ≠ size + 5 from fun h => h hl)

/-- if `readBlock` does not fail early, the size is sane and the whole region is in the file -/
theorem readBlock_ok_bounds (f : Bytes) (off size : Nat) (v : Bool) (c : Bytes)
    (h : readBlock f off size v = .ok c) :
    size ≤ 2 ^ 64 - 1 - 5 ∧ (pread f off (size + 5)).length = size + 5 := by
  by_cases hs : size > 2 ^ 64 - 1 - 5
  · rw [readBlock_of_big f off size v hs] at h; cases h
  · have hs' : size ≤ 2 ^ 64 - 1 - 5 := by omega
    by_cases hl : (pread f off (size + 5)).length = size + 5
    · exact ⟨hs', hl⟩
    · rw [readBlock_of_short f off size v hs' hl] at h; cases h

/-! ### 1. totality -/

theorem readBlock_total (file : Bytes) (off size : Nat) (verify : Bool) :
    readBlock file off size verify ≠ .error .fault := by
  by_cases hs : size > 2 ^ 64 - 1 - 5
  · rw [readBlock_of_big file off size verify hs]; intro hh; cases hh
  · have hs' : size ≤ 2 ^ 64 - 1 - 5 := by omega
    by_cases hl : (pread file off (size + 5)).length = size + 5
    · rw [readBlock_eq_of_length file off size verify hs' hl]
      have hbody := readBlockBody_ne_fault (pread file off (size + 5)) size (by omega)
      have hcrc := blockCrcOk_ne_none (pread file off (size + 5)) size hl
      cases verify with
      | false => simpa only [Bool.false_eq_true, if_false] using hbody
      | true =>
        simp only [if_true]
        split
        · rename_i heq; exact absurd heq hcrc
        · intro hh; cases hh
        · exact hbody
    · rw [readBlock_of_short file off size verify hs' hl]; intro hh; cases hh

/-! ### 2./3. checksum facts -/

theorem readBlock_ok_true (f : Bytes) (off size : Nat) (c : Bytes) (h : readBlock f off size true = .ok c) :
    size ≤ 2 ^ 64 - 1 - 5 ∧ (pread f off (size + 5)).length = size + 5 ∧
    blockCrcOk (pread f off (size + 5)) size = some true ∧
    readBlockBody (pread f off (size + 5)) size = .ok c := by
  obtain ⟨hs, hl⟩ := readBlock_ok_bounds f off size true c h
  rw [readBlock_eq_of_length f off size true hs hl] at h
  simp only [if_true] at h
  refine ⟨hs, hl, ?_⟩
  split at h
  · cases h
  · cases h
  · rename_i heq; exact ⟨heq, h⟩

theorem readBlock_ok_crc (f : Bytes) (off size : Nat) (c : Bytes) (h : readBlock f off size true = .ok c) :
    off + size + blockTrailerSize ≤ f.length ∧
    crcUnmask (BitVec.ofNat 32 (fixedDec (pread f (off + size + 1) 4))) = crc32c (pread f off (size + 1)) := by
  obtain ⟨hs, hl, hcrc, _⟩ := readBlock_ok_true f off size c h
  refine ⟨?_, ?_⟩
  · have := (pread_length_eq_iff f off (size + 5) (by omega)).mp hl
    simp only [blockTrailerSize]; omega
  · rw [blockCrcOk_of_length _ _ hl] at hcrc
    rw [pread_drop_take f off (size + 5) (size + 1) 4 (by omega),
      pread_zero_take f off (size + 5) (size + 1) (by omega), crcExtendTab_eq] at hcrc
    have := Option.some.inj hcrc
    rw [beq_iff_eq] at this
    rw [← Nat.add_assoc] at this
    exact this

theorem readBlock_verify_irrel (f : Bytes) (off size : Nat) (c : Bytes) :
    readBlock f off size true = .ok c → readBlock f off size false = .ok c := by
  intro h
  obtain ⟨hs, hl, _, hb⟩ := readBlock_ok_true f off size c h
  rw [readBlock_eq_of_length f off size false hs hl]
  simpa only [Bool.false_eq_true, if_false] using hb

/-! ### 4. congruence -/

theorem readBlock_congr (f f' : Bytes) (off size : Nat) (v : Bool)
    (h : pread f' off (size + blockTrailerSize) = pread f off (size + blockTrailerSize)) :
    readBlock f' off size v = readBlock f off size v := by
  unfold readBlock
  simp only [h]

/-! ### 5. a failing checksum is never accepted -/

theorem readBlock_crc_bad_sharp (f : Bytes) (off size : Nat)
    (h : blockCrcOk (pread f off (size + blockTrailerSize)) size = some false)
    (hl : (pread f off (size + 5)).length = size + 5) (hs : size ≤ 2 ^ 64 - 1 - 5) :
    readBlock f off size true = .error .corruption := by
  simp only [blockTrailerSize] at h
  rw [readBlock_eq_of_length f off size true hs hl]
  simp only [if_true, h]

theorem readBlock_crc_bad (f : Bytes) (off size : Nat)
    (h : blockCrcOk (pread f off (size + blockTrailerSize)) size = some false) :
    readBlock f off size true = .error .corruption ∨ readBlock f off size true = .error .io := by
  unfold readBlock
  simp only [h, if_true]
  split
  · exact Or.inl rfl
  · split
    · exact Or.inr rfl
    · exact Or.inl rfl

theorem readBlock_crc_bad_not_ok (f : Bytes) (off size : Nat)
    (h : blockCrcOk (pread f off (size + blockTrailerSize)) size = some false) :
    ∀ c, readBlock f off size true ≠ .ok c := by
  intro c hc
  rcases readBlock_crc_bad f off size h with h' | h' <;> rw [h'] at hc <;> cases hc

/-! ### 6./7. what the builder writes is read back -/

theorem blockTrailer_length (c : Bytes) (ty : UInt8) : (blockTrailer c ty).length = 5 := by
  simp only [blockTrailer, List.length_cons, fixedEnc_length]

theorem rawBlockBytes_length (c : Bytes) (ty : UInt8) : (rawBlockBytes c ty).length = c.length + 5 := by
  simp only [rawBlockBytes, List.length_append, blockTrailer_length]

theorem blockCrcOk_rawBlockBytes (c : Bytes) (ty : UInt8) :
    blockCrcOk (rawBlockBytes c ty) c.length = some true := by
  rw [blockCrcOk_of_length _ _ (rawBlockBytes_length c ty)]
  have h1 : ((rawBlockBytes c ty).drop (c.length + 1)).take 4
      = fixedEnc 4 (crcMask (crcExtendTab (crcExtendTab 0 c) [ty])).toNat := by
    have : rawBlockBytes c ty = (c ++ [ty]) ++ fixedEnc 4 (crcMask (crcExtendTab (crcExtendTab 0 c) [ty])).toNat := by
      simp only [rawBlockBytes, blockTrailer, List.append_assoc, List.singleton_append]
    rw [this]
    have hl : c.length + 1 = (c ++ [ty]).length := by simp only [List.length_append, List.length_singleton]
    rw [List.drop_left' hl.symm]
    have h4 : 4 = (fixedEnc 4 (crcMask (crcExtendTab (crcExtendTab 0 c) [ty])).toNat).length := by
      rw [fixedEnc_length]
    conv => lhs; arg 1; rw [h4]
    exact List.take_length
  have h2 : (rawBlockBytes c ty).take (c.length + 1) = c ++ [ty] := by
    have : rawBlockBytes c ty = (c ++ [ty]) ++ fixedEnc 4 (crcMask (crcExtendTab (crcExtendTab 0 c) [ty])).toNat := by
      simp only [rawBlockBytes, blockTrailer, List.append_assoc, List.singleton_append]
    rw [this]
    have hl : c.length + 1 = (c ++ [ty]).length := by simp only [List.length_append, List.length_singleton]
    rw [List.take_left' hl.symm]
  rw [h1, h2, fixedDec_fixedEnc]
  have hlt : (crcMask (crcExtendTab (crcExtendTab 0 c) [ty])).toNat < 256 ^ 4 :=
    (crcMask (crcExtendTab (crcExtendTab 0 c) [ty])).isLt
  rw [Nat.mod_eq_of_lt hlt, BitVec.ofNat_toNat, BitVec.setWidth_eq, mask_unmask]
  simp only [crcExtendTab_eq, crcExtend_append, beq_self_eq_true]

theorem rawBlockBytes_type (c : Bytes) (ty : UInt8) : (rawBlockBytes c ty)[c.length]? = some ty := by
  simp only [rawBlockBytes, blockTrailer, List.getElem?_append_right (Nat.le_refl _), Nat.sub_self,
    List.getElem?_cons_zero]

theorem rawBlockBytes_contents (c : Bytes) (ty : UInt8) : sliceC (rawBlockBytes c ty) 0 c.length = some c := by
  rw [sliceC_of_le _ _ _ (by rw [rawBlockBytes_length]; omega)]
  simp only [rawBlockBytes, List.drop_zero, List.take_left']

/-- reading back a stored block reduces to `readBlockBody` on exactly the stored bytes -/
theorem readBlock_rawBlockBytes (pre suf c : Bytes) (ty : UInt8) (v : Bool) (hc : c.length < 2 ^ 32) :
    readBlock (pre ++ rawBlockBytes c ty ++ suf) pre.length c.length v
      = readBlockBody (rawBlockBytes c ty) c.length := by
  have hp : pread (pre ++ rawBlockBytes c ty ++ suf) pre.length (c.length + 5) = rawBlockBytes c ty := by
    rw [← rawBlockBytes_length c ty]; exact pread_append_mid _ _ _
  rw [readBlock_eq_of_length _ _ _ v (by omega) (by rw [hp, rawBlockBytes_length]), hp,
    blockCrcOk_rawBlockBytes]
  cases v <;> rfl

theorem readBlockBody_raw (c : Bytes) : readBlockBody (rawBlockBytes c 0) c.length = .ok c := by
  unfold readBlockBody
  rw [rawBlockBytes_type, rawBlockBytes_contents]
  rfl

theorem readBlockBody_snappy (c out : Bytes) (n : Nat) (hsz : Snappy.decodeSize c = some n)
    (hdec : Snappy.decode c = some out) : readBlockBody (rawBlockBytes c 1) c.length = .ok out := by
  unfold readBlockBody
  rw [rawBlockBytes_type, rawBlockBytes_contents]
  simp only [hsz, hdec]
  rfl

theorem readBlock_raw_written (pre suf c : Bytes) (v : Bool) (hc : c.length < 2 ^ 32) :
    readBlock (pre ++ rawBlockBytes c 0 ++ suf) pre.length c.length v = .ok c := by
  rw [readBlock_rawBlockBytes pre suf c 0 v hc, readBlockBody_raw]

/-- a Snappy-compressed block (type byte 1) is read back decompressed -/
theorem readBlock_snappy_written (pre suf raw : Bytes) (v : Bool) (hraw : raw.length ≤ Snappy.maxLength)
    (hc : (Snappy.encode raw).length < 2 ^ 32) :
    readBlock (pre ++ rawBlockBytes (Snappy.encode raw) 1 ++ suf) pre.length (Snappy.encode raw).length v
      = .ok raw := by
  rw [readBlock_rawBlockBytes pre suf _ 1 v hc,
    readBlockBody_snappy _ raw raw.length (Snappy.decodeSize_encode raw hraw) (Snappy.snappy_roundtrip raw hraw)]

theorem compressBlock_cases (o : TableOpts) (raw : Bytes) :
    compressBlock o raw = (raw, 0) ∨
    (compressBlock o raw = (Snappy.encode raw, 1) ∧ (Snappy.encode raw).length < raw.length) := by
  unfold compressBlock
  by_cases hcomp : o.compression = true
  · rw [if_pos hcomp]
    by_cases hlt : (Snappy.encode raw).length < raw.length - raw.length / 8
    · right; exact ⟨if_pos hlt, by omega⟩
    · left; exact if_neg hlt
  · left; exact if_neg hcomp

theorem writeBlock_offset (o : TableOpts) (off : Nat) (raw : Bytes) : (writeBlock o off raw).2.offset = off := rfl

theorem writeBlock_size (o : TableOpts) (off : Nat) (raw : Bytes) :
    (writeBlock o off raw).2.size = (compressBlock o raw).1.length := rfl

theorem writeBlock_bytes (o : TableOpts) (off : Nat) (raw : Bytes) :
    (writeBlock o off raw).1 = rawBlockBytes (compressBlock o raw).1 (compressBlock o raw).2 := rfl

theorem writeBlock_length (o : TableOpts) (off : Nat) (raw : Bytes) :
    (writeBlock o off raw).1.length = (writeBlock o off raw).2.size + blockTrailerSize := by
  rw [writeBlock_bytes, writeBlock_size, rawBlockBytes_length]; rfl

theorem writeBlock_size_le (o : TableOpts) (off : Nat) (raw : Bytes) :
    (writeBlock o off raw).2.size ≤ raw.length := by
  rw [writeBlock_size]
  rcases compressBlock_cases o raw with h | ⟨h, hlt⟩
  · rw [h]; exact Nat.le_refl _
  · rw [h]; exact Nat.le_of_lt hlt

theorem readBlock_written (o : TableOpts) (pre suf raw : Bytes) (v : Bool) (hraw : raw.length ≤ Snappy.maxLength) :
    readBlock (pre ++ (writeBlock o pre.length raw).1 ++ suf) (writeBlock o pre.length raw).2.offset
      (writeBlock o pre.length raw).2.size v = .ok raw := by
  rw [writeBlock_offset, writeBlock_size, writeBlock_bytes]
  have hmax : Snappy.maxLength < 2 ^ 32 := by decide
  rcases compressBlock_cases o raw with h | ⟨h, hlt⟩
  · rw [h]; exact readBlock_raw_written pre suf raw v (by omega)
  · rw [h]; exact readBlock_snappy_written pre suf raw v hraw (by omega)

/-- the file offset right after a written block -/
theorem writeBlock_end (o : TableOpts) (off : Nat) (raw : Bytes) :
    off + (writeBlock o off raw).1.length = (writeBlock o off raw).2.offset + (writeBlock o off raw).2.size + blockTrailerSize := by
  rw [writeBlock_length, writeBlock_offset]; omega

end Lcdb
