/-
  Table cursor proofs, part A: generic facts
  * partitions (`List (List α)`): offsets, indexing and `findIdx?` over the flattening
  * order facts derived from `OrdLaws`
  * positions reached by the skip loops of the two-level iterator (`fwdPos`, `bwdPos`)
-/
import LcdbModel.Lemmas.TableBlockCursor
import LcdbModel.Lemmas.Cursor
import LcdbModel.Lemmas.OrdInstances
import LcdbModel.Lemmas.BlockExtras
namespace Lcdb

/-! ### partitions -/

/-- offset of part `i` inside the flattening (total length for `i` beyond the end) -/
def partOff {α : Type} : List (List α) → Nat → Nat
  | [], _ => 0
  | _ :: _, 0 => 0
  | l :: ls, i + 1 => l.length + partOff ls i

theorem partOff_zero {α : Type} (ls : List (List α)) : partOff ls 0 = 0 := by
  cases ls <;> rfl

theorem partOff_succ {α : Type} {ls : List (List α)} {i : Nat} {l : List α}
    (h : ls[i]? = some l) : partOff ls (i + 1) = partOff ls i + l.length := by
  induction ls generalizing i with
  | nil => simp at h
  | cons a as ih =>
    cases i with
    | zero =>
      simp only [List.getElem?_cons_zero, Option.some.injEq] at h
      subst h
      simp [partOff, partOff_zero]
    | succ i =>
      simp only [List.getElem?_cons_succ] at h
      simp only [partOff, ih h]
      omega

theorem partOff_ge_length {α : Type} (ls : List (List α)) (i : Nat) (h : ls.length ≤ i) :
    partOff ls i = ls.flatten.length := by
  induction ls generalizing i with
  | nil => simp [partOff]
  | cons a as ih =>
    cases i with
    | zero => simp at h
    | succ i =>
      simp only [List.length_cons, Nat.add_le_add_iff_right] at h
      simp [partOff, ih i h]

theorem flatten_getElem?_part {α : Type} {ls : List (List α)} {i j : Nat} {l : List α}
    (h : ls[i]? = some l) (hj : j < l.length) : ls.flatten[partOff ls i + j]? = l[j]? := by
  induction ls generalizing i with
  | nil => simp at h
  | cons a as ih =>
    cases i with
    | zero =>
      simp only [List.getElem?_cons_zero, Option.some.injEq] at h
      subst h
      simp only [partOff, List.flatten_cons, Nat.zero_add]
      rw [List.getElem?_append_left hj]
    | succ i =>
      simp only [List.getElem?_cons_succ] at h
      simp only [partOff, List.flatten_cons]
      rw [List.getElem?_append_right (by omega)]
      have : a.length + partOff as i + j - a.length = partOff as i + j := by omega
      rw [this]
      exact ih h

theorem partOff_add_lt {α : Type} {ls : List (List α)} {i j : Nat} {l : List α}
    (h : ls[i]? = some l) (hj : j < l.length) : partOff ls i + j < ls.flatten.length := by
  have h1 := flatten_getElem?_part h hj
  rw [List.getElem?_eq_getElem hj] at h1
  exact (List.getElem?_eq_some_iff.mp h1).1

theorem partOff_succ_le {α : Type} {ls : List (List α)} {i : Nat} {l : List α}
    (h : ls[i]? = some l) : partOff ls (i + 1) ≤ ls.flatten.length := by
  induction ls generalizing i with
  | nil => simp at h
  | cons a as ih =>
    cases i with
    | zero =>
      simp only [partOff, partOff_zero, List.flatten_cons, List.length_append]
      omega
    | succ i =>
      simp only [List.getElem?_cons_succ] at h
      have := ih h
      simp only [partOff, List.flatten_cons, List.length_append] at this ⊢
      omega

theorem partOff_last {α : Type} {ls : List (List α)} {i : Nat} (h : i + 1 = ls.length) :
    partOff ls (i + 1) = ls.flatten.length :=
  partOff_ge_length ls (i + 1) (by omega)

/-- all parts before `i` fail `p`, part `i` has its first hit at `j` -/
theorem findIdx?_flatten_some {α : Type} (p : α → Bool) {ls : List (List α)} {i j : Nat}
    {l : List α} (h : ls[i]? = some l)
    (hbefore : ∀ i' l', i' < i → ls[i']? = some l' → ∀ x ∈ l', p x = false)
    (hj : l.findIdx? p = some j) : ls.flatten.findIdx? p = some (partOff ls i + j) := by
  induction ls generalizing i with
  | nil => simp at h
  | cons a as ih =>
    cases i with
    | zero =>
      simp only [List.getElem?_cons_zero, Option.some.injEq] at h
      subst h
      simp [partOff, List.findIdx?_append, hj]
    | succ i =>
      simp only [List.getElem?_cons_succ] at h
      have ha : a.findIdx? p = none :=
        List.findIdx?_eq_none_iff.mpr (hbefore 0 a (by omega) rfl)
      have := ih h (fun i' l' hi' hl' => hbefore (i' + 1) l' (by omega) (by simpa using hl'))
      simp only [partOff, List.flatten_cons, List.findIdx?_append, ha, this, Option.none_or,
        Option.map_some, Option.some.injEq]
      omega

/-- all parts up to `i` fail `p`, part `i + 1` starts with a hit -/
theorem findIdx?_flatten_next {α : Type} (p : α → Bool) {ls : List (List α)} {i : Nat}
    {l : List α} (h : ls[i + 1]? = some l)
    (hbefore : ∀ i' l', i' ≤ i → ls[i']? = some l' → ∀ x ∈ l', p x = false)
    (hhead : ∀ x, l.head? = some x → p x = true) (hne : l ≠ []) :
    ls.flatten.findIdx? p = some (partOff ls (i + 1)) := by
  have hj : l.findIdx? p = some 0 := by
    cases l with
    | nil => exact absurd rfl hne
    | cons x xs => simp [List.findIdx?_cons, hhead x rfl]
  have := findIdx?_flatten_some p h
    (fun i' l' hi' hl' => hbefore i' l' (by omega) hl') hj
  simpa using this

theorem findIdx?_flatten_none {α : Type} (p : α → Bool) {ls : List (List α)}
    (hall : ∀ l ∈ ls, ∀ x ∈ l, p x = false) : ls.flatten.findIdx? p = none := by
  apply List.findIdx?_eq_none_iff.mpr
  intro x hx
  obtain ⟨l, hl, hxl⟩ := List.mem_flatten.mp hx
  exact hall l hl x hxl

theorem flatten_length_pos {α : Type} {ls : List (List α)} (hne : ∀ l ∈ ls, l ≠ [])
    (h : ls ≠ []) : 0 < ls.flatten.length := by
  cases ls with
  | nil => exact absurd rfl h
  | cons a as =>
    have := hne a (List.mem_cons_self)
    have : 0 < a.length := List.length_pos_iff.mpr this
    simp only [List.flatten_cons, List.length_append]
    omega

/-! ### positions reached by the skip loops -/

/-- the cursor's `prev` -/
def predPos : Nat → Option Nat
  | 0 => none
  | j + 1 => some j

/-- where `skip_forward` ends when the data iterator of part `i` stands at `q` -/
def fwdPos {α : Type} (ls : List (List α)) (i : Nat) : Option Nat → Option Nat
  | some j => some (partOff ls i + j)
  | none => if i + 1 < ls.length then some (partOff ls (i + 1)) else none

/-- where `skip_backward` ends when the data iterator of part `i` stands at `q` -/
def bwdPos {α : Type} (ls : List (List α)) (i : Nat) : Option Nat → Option Nat
  | some j => some (partOff ls i + j)
  | none =>
    match i with
    | 0 => none
    | i' + 1 => some (partOff ls (i' + 1) - 1)

theorem fwdPos_next {α : Type} {ls : List (List α)} {i j : Nat} {l : List α}
    (hne : ∀ l ∈ ls, l ≠ []) (h : ls[i]? = some l) (hj : j < l.length) :
    fwdPos ls i (if j + 1 < l.length then some (j + 1) else none)
      = if partOff ls i + j + 1 < ls.flatten.length then some (partOff ls i + j + 1) else none := by
  have hi : i < ls.length := (List.getElem?_eq_some_iff.mp h).1
  by_cases hj1 : j + 1 < l.length
  · have := partOff_add_lt h hj1
    simp only [hj1, if_true, fwdPos]
    rw [if_pos (by omega)]
    congr 1
  · simp only [hj1, if_false, fwdPos]
    have hs := partOff_succ h
    have hjl : j + 1 = l.length := by omega
    by_cases hi1 : i + 1 < ls.length
    · simp only [hi1, if_true]
      obtain ⟨l', hl'⟩ : ∃ l', ls[i + 1]? = some l' := ⟨ls[i + 1], List.getElem?_eq_getElem hi1⟩
      have hpos : 0 < l'.length :=
        List.length_pos_iff.mpr (hne l' (List.mem_of_getElem? hl'))
      have := partOff_add_lt hl' hpos
      rw [if_pos (by omega)]
      congr 1
      omega
    · simp only [hi1, if_false]
      have := partOff_last (ls := ls) (i := i) (by omega)
      rw [if_neg (by omega)]

theorem bwdPos_prev {α : Type} {ls : List (List α)} {i j : Nat} {l : List α}
    (hne : ∀ l ∈ ls, l ≠ []) (h : ls[i]? = some l) (hj : j < l.length) :
    bwdPos ls i (predPos j) = predPos (partOff ls i + j) := by
  cases j with
  | succ j' =>
    simp only [bwdPos, predPos]
    rfl
  | zero =>
    cases i with
    | zero => simp [bwdPos, partOff_zero, predPos]
    | succ i' =>
      have hi : i' < ls.length := by
        have := (List.getElem?_eq_some_iff.mp h).1; omega
      obtain ⟨l', hl'⟩ : ∃ l', ls[i']? = some l' := ⟨ls[i'], List.getElem?_eq_getElem hi⟩
      have hpos : 0 < l'.length :=
        List.length_pos_iff.mpr (hne l' (List.mem_of_getElem? hl'))
      have hs := partOff_succ hl'
      simp only [bwdPos, Nat.add_zero, predPos]
      generalize partOff ls (i' + 1) = g at hs ⊢
      cases g with
      | zero => omega
      | succ g' => simp

theorem fwdPos_first {α : Type} {ls : List (List α)} {l : List α}
    (h : ls[0]? = some l) (hl : l ≠ []) :
    fwdPos ls 0 (if l.isEmpty then none else some 0) = if ls.flatten.isEmpty then none else some 0 := by
  have h1 : l.isEmpty = false := by cases l <;> simp_all
  have hpos : 0 < l.length := List.length_pos_iff.mpr hl
  have := partOff_add_lt h hpos
  have h2 : ls.flatten.isEmpty = false := by
    cases hf : ls.flatten with
    | nil => rw [hf] at this; simp at this
    | cons _ _ => rfl
  simp [h1, h2, fwdPos, partOff_zero]

theorem bwdPos_last {α : Type} {ls : List (List α)} {i : Nat} {l : List α}
    (h : ls[i]? = some l) (hi : i + 1 = ls.length) (hl : l ≠ []) :
    bwdPos ls i (if l.isEmpty then none else some (l.length - 1))
      = if ls.flatten.isEmpty then none else some (ls.flatten.length - 1) := by
  have h1 : l.isEmpty = false := by cases l <;> simp_all
  have hpos : 0 < l.length := List.length_pos_iff.mpr hl
  have h3 := partOff_add_lt h hpos
  have h2 : ls.flatten.isEmpty = false := by
    cases hf : ls.flatten with
    | nil => rw [hf] at h3; simp at h3
    | cons _ _ => rfl
  have h4 := partOff_succ h
  have h5 := partOff_last hi
  simp only [h1, h2, bwdPos, Bool.false_eq_true, if_false, Option.some.injEq]
  omega

/-! ### order facts -/

namespace OrdLaws
variable {cmp : Bytes → Bytes → Ordering}

theorem lt_of_lt_of_le (h : OrdLaws cmp) {a b c : Bytes} (hab : cmp a b = .lt)
    (hbc : cmp b c ≠ .gt) : cmp a c = .lt := by
  cases hc : cmp b c with
  | lt => exact h.lt_trans a b c hab hc
  | eq => exact h.lt_of_lt_of_eq hab hc
  | gt => exact absurd hc hbc

theorem lt_of_le_of_lt (h : OrdLaws cmp) {a b c : Bytes} (hab : cmp a b ≠ .gt)
    (hbc : cmp b c = .lt) : cmp a c = .lt := by
  cases hc : cmp a b with
  | lt => exact h.lt_trans a b c hc hbc
  | eq => exact h.lt_of_eq_of_lt hc hbc
  | gt => exact absurd hc hab

theorem le_of_lt (_h : OrdLaws cmp) {a b : Bytes} (hab : cmp a b = .lt) : cmp a b ≠ .gt := by
  rw [hab]; decide

theorem not_lt_of_le (h : OrdLaws cmp) {a b : Bytes} (hab : cmp a b ≠ .gt) : cmp b a ≠ .lt := by
  intro hc; exact hab ((h.gt_iff a b).mpr hc)

theorem le_of_not_lt (h : OrdLaws cmp) {a b : Bytes} (hab : cmp a b ≠ .lt) : cmp b a ≠ .gt := by
  intro hc; exact hab ((h.gt_iff b a).mp hc)

end OrdLaws

end Lcdb
