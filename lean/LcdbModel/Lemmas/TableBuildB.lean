/-
  Reading back what the table builder wrote: `tableLayout (tableAssemble o bss)` and `Layout.Good`,
  for ANY partition `bss` of the entries into non-empty data blocks.
-/
import LcdbModel.Lemmas.TableBuildA
import LcdbModel.Lemmas.TableRead
import LcdbModel.Lemmas.TableSep
import LcdbModel.Props.BlockProps
import LcdbModel.Props.FilterProps
namespace Lcdb

/-! ### data blocks -/

theorem dataW_offset (o : TableOpts) (off : Nat) (b : List (Bytes × Bytes)) : (dataW o off b).2.offset = off := rfl

theorem dataW_length (o : TableOpts) (off : Nat) (b : List (Bytes × Bytes)) :
    (dataW o off b).1.length = (dataW o off b).2.size + blockTrailerSize := writeBlock_length _ _ _

theorem layGo_map_fst (o : TableOpts) (bss : List (List (Bytes × Bytes))) :
    ∀ off, (layGo o off bss).map (·.1) = bss := by
  induction bss with
  | nil => intro off; rfl
  | cons b rest ih => intro off; simp only [layGo, List.map_cons, ih]

theorem fblGo_eq (o : TableOpts) (bss : List (List (Bytes × Bytes))) :
    ∀ off, fblGo o off bss = (layGo o off bss).map fun bh => (bh.2.offset, bh.1.map (·.1)) := by
  induction bss with
  | nil => intro off; rfl
  | cons b rest ih => intro off; simp only [fblGo, layGo, List.map_cons, ih, dataW_offset]

theorem layGo_bounds (o : TableOpts) (bss : List (List (Bytes × Bytes))) :
    ∀ off, ∀ bh ∈ layGo o off bss,
      off ≤ bh.2.offset ∧ bh.2.offset + bh.2.size + blockTrailerSize ≤ off + (dataBytes o off bss).length := by
  induction bss with
  | nil => intro off bh hbh; simp [layGo] at hbh
  | cons b rest ih =>
    intro off bh hbh
    simp only [layGo, List.mem_cons] at hbh
    simp only [dataBytes, List.length_append]
    rcases hbh with rfl | hbh
    · simp only [dataW_offset, dataW_length]; omega
    · have := ih _ bh hbh
      omega

theorem data_readable (o : TableOpts) (v : Bool) (bss : List (List (Bytes × Bytes)))
    (hraw : ∀ b ∈ bss, (blockBuild o.restartInterval b).length ≤ Snappy.maxLength) :
    ∀ (pre suf : Bytes), ∀ bh ∈ layGo o pre.length bss,
      readBlock (pre ++ dataBytes o pre.length bss ++ suf) bh.2.offset bh.2.size v
        = .ok (blockBuild o.restartInterval bh.1) := by
  induction bss with
  | nil => intro pre suf bh hbh; simp [layGo] at hbh
  | cons b rest ih =>
    intro pre suf bh hbh
    simp only [layGo, List.mem_cons] at hbh
    simp only [dataBytes]
    rcases hbh with rfl | hbh
    · have := readBlock_written o pre (dataBytes o (pre.length + (dataW o pre.length b).1.length) rest ++ suf)
        (blockBuild o.restartInterval b) v (hraw b List.mem_cons_self)
      simp only [dataW, List.append_assoc] at this ⊢
      exact this
    · have := ih (fun b' hb' => hraw b' (List.mem_cons_of_mem _ hb')) (pre ++ (dataW o pre.length b).1) suf bh
        (by rw [List.length_append]; exact hbh)
      simp only [List.length_append, List.append_assoc] at this ⊢
      exact this

/-! ### filter block, metaindex block, index block, footer -/

theorem afterFilter_eq (off : Nat) (fc : Option Bytes) : afterFilter off fc = off + (filterBytes fc).length := by
  cases fc with
  | none => rfl
  | some c => simp only [afterFilter, filterBytes, rawBlockBytes_length, blockTrailerSize, Nat.add_assoc]

theorem tailBytes_length (o : TableOpts) (off : Nat) (fc : Option Bytes) (ixraw : Bytes) :
    (tailBytes o off fc ixraw).length = (filterBytes fc).length + (metaW o off fc).1.length +
      (indexW o off fc ixraw).1.length + (footerEncode (tailFooter o off fc ixraw)).length := by
  simp only [tailBytes, List.length_append]; omega

theorem tail_meta_read (o : TableOpts) (DB : Bytes) (fc : Option Bytes) (ixraw : Bytes) (v : Bool)
    (h : (blockBuild o.restartInterval (metaEntries DB.length fc)).length ≤ Snappy.maxLength) :
    readBlock (DB ++ tailBytes o DB.length fc ixraw) (metaW o DB.length fc).2.offset
      (metaW o DB.length fc).2.size v = .ok (blockBuild o.restartInterval (metaEntries DB.length fc)) := by
  have := readBlock_written o (DB ++ filterBytes fc)
    ((indexW o DB.length fc ixraw).1 ++ footerEncode (tailFooter o DB.length fc ixraw)) _ v h
  rw [List.length_append, ← afterFilter_eq] at this
  unfold metaW tailBytes
  simp only [List.append_assoc] at this ⊢
  exact this

theorem tail_index_read (o : TableOpts) (DB : Bytes) (fc : Option Bytes) (ixraw : Bytes) (v : Bool)
    (h : ixraw.length ≤ Snappy.maxLength) :
    readBlock (DB ++ tailBytes o DB.length fc ixraw) (indexW o DB.length fc ixraw).2.offset
      (indexW o DB.length fc ixraw).2.size v = .ok ixraw := by
  have := readBlock_written o (DB ++ filterBytes fc ++ (metaW o DB.length fc).1)
    (footerEncode (tailFooter o DB.length fc ixraw)) ixraw v h
  rw [List.length_append, List.length_append, ← afterFilter_eq] at this
  unfold indexW tailBytes
  simp only [List.append_assoc] at this ⊢
  exact this

theorem tail_filter_read (o : TableOpts) (DB c ixraw : Bytes) (v : Bool) (hc : c.length < 2 ^ 32) :
    readBlock (DB ++ tailBytes o DB.length (some c) ixraw) DB.length c.length v = .ok c := by
  have := readBlock_raw_written DB ((metaW o DB.length (some c)).1 ++ ((indexW o DB.length (some c) ixraw).1 ++
    footerEncode (tailFooter o DB.length (some c) ixraw))) c v hc
  unfold tailBytes
  simp only [filterBytes, List.append_assoc] at this ⊢
  exact this

theorem tail_footer_inRange (o : TableOpts) (DB : Bytes) (fc : Option Bytes) (ixraw : Bytes)
    (h : (DB ++ tailBytes o DB.length fc ixraw).length < 2 ^ 64) :
    (tailFooter o DB.length fc ixraw).InRange := by
  rw [List.length_append, tailBytes_length] at h
  have h1 : (metaW o DB.length fc).1.length = (metaW o DB.length fc).2.size + blockTrailerSize :=
    writeBlock_length _ _ _
  have h2 : (indexW o DB.length fc ixraw).1.length = (indexW o DB.length fc ixraw).2.size + blockTrailerSize :=
    writeBlock_length _ _ _
  have h3 : (metaW o DB.length fc).2.offset = afterFilter DB.length fc := rfl
  have h4 : (indexW o DB.length fc ixraw).2.offset = afterFilter DB.length fc + (metaW o DB.length fc).1.length :=
    rfl
  have h5 := afterFilter_eq DB.length fc
  unfold Footer.InRange tailFooter
  simp only []
  refine ⟨?_, ?_, ?_, ?_⟩ <;> omega

theorem tail_footer_read (o : TableOpts) (DB : Bytes) (fc : Option Bytes) (ixraw : Bytes)
    (h : (DB ++ tailBytes o DB.length fc ixraw).length < 2 ^ 64) :
    ¬ (DB ++ tailBytes o DB.length fc ixraw).length < footerSize ∧
    footerDecode (pread (DB ++ tailBytes o DB.length fc ixraw)
      ((DB ++ tailBytes o DB.length fc ixraw).length - footerSize) footerSize)
      = some (tailFooter o DB.length fc ixraw) := by
  have hin := tail_footer_inRange o DB fc ixraw h
  have hfl := footer_length _ hin
  have hfs : footerSize = 48 := rfl
  have hsplit : DB ++ tailBytes o DB.length fc ixraw
      = (DB ++ filterBytes fc ++ (metaW o DB.length fc).1 ++ (indexW o DB.length fc ixraw).1)
        ++ footerEncode (tailFooter o DB.length fc ixraw) ++ [] := by
    simp only [tailBytes, List.append_assoc, List.append_nil]
  have hlen : (DB ++ tailBytes o DB.length fc ixraw).length
      = (DB ++ filterBytes fc ++ (metaW o DB.length fc).1 ++ (indexW o DB.length fc ixraw).1).length + 48 := by
    rw [hsplit]; simp only [List.length_append, hfl, List.length_nil]
  refine ⟨by rw [hlen, hfs]; omega, ?_⟩
  rw [hlen, hfs, Nat.add_sub_cancel, hsplit, ← hfl, pread_append_mid]
  exact footerDecode_roundtrip _ hin

/-! ### the data blocks named by the index -/

def mkInfo (o : TableOpts) (sep : Bytes) (bh : List (Bytes × Bytes) × BlockHandle) : BlkInfo :=
  { sep := sep, hv := handleEncode bh.2, handle := bh.2,
    contents := blockBuild o.restartInterval bh.1, entries := bh.1 }

/-- what the reader finds for the index entries `ixGo` -/
def infoGo (o : TableOpts) : Option (List (Bytes × Bytes) × BlockHandle) →
    List (List (Bytes × Bytes) × BlockHandle) → List BlkInfo
  | none, [] => []
  | some p, [] => [mkInfo o (ikeySuccessor o.cmp (lastKeyOf p.1)) p]
  | none, bh :: rest => infoGo o (some bh) rest
  | some p, bh :: rest =>
    mkInfo o (ikeySeparator o.cmp (lastKeyOf p.1) (firstKeyOf bh.1)) p :: infoGo o (some bh) rest

theorem ixGo_eq_infoGo (o : TableOpts) (bl : List (List (Bytes × Bytes) × BlockHandle)) :
    ∀ prev : Option (List (Bytes × Bytes) × BlockHandle),
      ixGo o.cmp (prev.map fun p => (lastKeyOf p.1, p.2)) bl
        = (infoGo o prev bl).map fun b => (b.sep, b.hv) := by
  induction bl with
  | nil => intro prev; cases prev <;> rfl
  | cons bh rest ih =>
    intro prev
    obtain ⟨b, h⟩ := bh
    cases prev with
    | none => simp only [Option.map_none, ixGo, infoGo]; exact ih (some (b, h))
    | some p =>
      simp only [Option.map_some, ixGo, infoGo, List.map_cons, mkInfo]
      rw [← ih (some (b, h))]; rfl

theorem infoGo_some_head (o : TableOpts) (p : List (Bytes × Bytes) × BlockHandle)
    (bl : List (List (Bytes × Bytes) × BlockHandle)) :
    ∃ sep xs, infoGo o (some p) bl = mkInfo o sep p :: xs := by
  cases bl with
  | nil => exact ⟨_, [], rfl⟩
  | cons bh rest => exact ⟨_, _, rfl⟩

/-- every block found is one of the written blocks, with a separator/successor of its last key -/
theorem mem_infoGo (o : TableOpts) (bl : List (List (Bytes × Bytes) × BlockHandle)) :
    ∀ prev, ∀ x ∈ infoGo o prev bl, ∃ sep bh, x = mkInfo o sep bh ∧ bh ∈ prev.toList ++ bl ∧
      (sep = ikeySuccessor o.cmp (lastKeyOf bh.1) ∨ ∃ y, sep = ikeySeparator o.cmp (lastKeyOf bh.1) y) := by
  induction bl with
  | nil =>
    intro prev x hx
    cases prev with
    | none => simp [infoGo] at hx
    | some p =>
      simp only [infoGo, List.mem_singleton] at hx
      exact ⟨_, p, hx, by simp, Or.inl rfl⟩
  | cons bh rest ih =>
    intro prev x hx
    cases prev with
    | none =>
      obtain ⟨sep, bh', h1, h2, h3⟩ := ih (some bh) x hx
      exact ⟨sep, bh', h1, by simpa using h2, h3⟩
    | some p =>
      simp only [infoGo, List.mem_cons] at hx
      rcases hx with rfl | hx
      · exact ⟨_, p, rfl, by simp, Or.inr ⟨_, rfl⟩⟩
      · obtain ⟨sep, bh', h1, h2, h3⟩ := ih (some bh) x hx
        refine ⟨sep, bh', h1, ?_, h3⟩
        simp only [Option.toList_some, List.singleton_append, List.mem_cons] at h2 ⊢
        exact Or.inr h2

theorem infoGo_entries (o : TableOpts) (bl : List (List (Bytes × Bytes) × BlockHandle)) :
    ∀ prev, (infoGo o prev bl).flatMap (·.entries) = (prev.toList ++ bl).flatMap (·.1) := by
  induction bl with
  | nil => intro prev; cases prev <;> simp [infoGo, mkInfo]
  | cons bh rest ih =>
    intro prev
    cases prev with
    | none => simp only [infoGo, ih]; simp
    | some p => simp only [infoGo, List.flatMap_cons, ih, mkInfo]; simp

theorem blkInfos_of_forall (file : Bytes) (infos : List BlkInfo)
    (h : ∀ b ∈ infos, blkInfo file (b.sep, b.hv) = some b) :
    blkInfos file (infos.map fun b => (b.sep, b.hv)) = some infos := by
  induction infos with
  | nil => rfl
  | cons b rest ih =>
    simp only [List.map_cons, blkInfos, h b List.mem_cons_self,
      ih (fun b' hb' => h b' (List.mem_cons_of_mem _ hb'))]

theorem blkInfo_mk (o : TableOpts) (file sep : Bytes) (bh : List (Bytes × Bytes) × BlockHandle)
    (hoff : bh.2.offset < 2 ^ 64) (hsz : bh.2.size < 2 ^ 64)
    (hread : readBlock file bh.2.offset bh.2.size true = .ok (blockBuild o.restartInterval bh.1))
    (hparse : blockParse (blockBuild o.restartInterval bh.1) = some bh.1) :
    blkInfo file (sep, handleEncode bh.2) = some (mkInfo o sep bh) := by
  have hr := handle_roundtrip bh.2 [] hoff hsz
  rw [List.append_nil] at hr
  simp only [blkInfo, hr, hread, hparse, mkInfo]

/-! ### keys -/

theorem lastKeyOf_mem (b : List (Bytes × Bytes)) (h : b ≠ []) : ∃ e ∈ b, lastKeyOf b = e.1 := by
  refine ⟨b.getLast h, List.getLast_mem h, ?_⟩
  simp [lastKeyOf, List.getLast?_eq_some_getLast h]

theorem firstKeyOf_mem (b : List (Bytes × Bytes)) (h : b ≠ []) : ∃ e ∈ b, firstKeyOf b = e.1 := by
  cases b with
  | nil => exact absurd rfl h
  | cons x xs => exact ⟨x, List.mem_cons_self, rfl⟩

theorem ikeySeparator_length_le (c : Cmp) (x y : Bytes) : (ikeySeparator c x y).length ≤ x.length := by
  rcases ikeySeparator_cases c x y with h | ⟨_, hlen, _, h⟩
  · rw [h]; exact Nat.le_refl _
  · rw [h, ikeyEnc_length]; rw [ikeyUser_length] at hlen; omega

theorem ikeySuccessor_length_le (c : Cmp) (x : Bytes) : (ikeySuccessor c x).length ≤ x.length := by
  rcases ikeySuccessor_cases c x with h | ⟨_, hlen, _, h⟩
  · rw [h]; exact Nat.le_refl _
  · rw [h, ikeyEnc_length]; rw [ikeyUser_length] at hlen; omega

theorem sepsOk_infoGo (o : TableOpts) (bl : List (List (Bytes × Bytes) × BlockHandle)) :
    ∀ prev : Option (List (Bytes × Bytes) × BlockHandle),
      (∀ bh ∈ prev.toList ++ bl, bh.1 ≠ [] ∧ ∀ e ∈ bh.1, 8 ≤ e.1.length ∧ e.1.length < 2 ^ 32) →
      SortedKeys (ikeyCmp o.cmp) (((prev.toList ++ bl).flatMap (·.1)).map (·.1)) →
      sepsOk o.cmp (infoGo o prev bl) := by
  induction bl with
  | nil =>
    intro prev hk hs
    cases prev with
    | none => exact trivial
    | some p =>
      obtain ⟨hne, hke⟩ := hk p (by simp)
      obtain ⟨e, he, hl⟩ := lastKeyOf_mem p.1 hne
      show sepOk o.cmp (lastKeyOf p.1) (ikeySuccessor o.cmp (lastKeyOf p.1)) none
      rw [hl]
      exact ikeySuccessor_sepOk o.cmp e.1 (hke e he).1 (hke e he).2
  | cons bh rest ih =>
    intro prev hk hs
    cases prev with
    | none =>
      exact ih (some bh) (by simpa using hk) (by simpa using hs)
    | some p =>
      have ih' := ih (some bh) (fun x hx => hk x (by
          simp only [Option.toList_some, List.singleton_append, List.mem_cons] at hx ⊢
          exact Or.inr hx)) (by
          simp only [Option.toList_some, List.singleton_append, List.flatMap_cons, List.map_append] at hs ⊢
          exact (List.pairwise_append.mp hs).2.1)
      obtain ⟨sep', xs, hx⟩ := infoGo_some_head o bh rest
      show sepsOk o.cmp (mkInfo o _ p :: infoGo o (some bh) rest)
      rw [hx] at ih' ⊢
      refine ⟨?_, ih'⟩
      obtain ⟨hne, hke⟩ := hk p (by simp)
      obtain ⟨hne', hke'⟩ := hk bh (by simp)
      obtain ⟨e, he, hl⟩ := lastKeyOf_mem p.1 hne
      obtain ⟨e', he', hf⟩ := firstKeyOf_mem bh.1 hne'
      show sepOk o.cmp (lastKeyOf p.1) (ikeySeparator o.cmp (lastKeyOf p.1) (firstKeyOf bh.1))
        (some (firstKeyOf bh.1))
      rw [hl, hf]
      refine ikeySeparator_sepOk o.cmp e.1 e'.1 (hke e he).1 (hke' e' he').1 (hke e he).2 ?_
      simp only [Option.toList_some, List.singleton_append, List.flatMap_cons, List.map_append] at hs
      have h1 := (List.pairwise_append.mp hs).2.2 e.1 (List.mem_map_of_mem he) e'.1
        (List.mem_append_left _ (List.mem_map_of_mem he'))
      exact h1

/-! ### canonical blocks: restart intervals above the number of entries all give the same bytes -/

theorem blockGenAdd_interval_irrel (iv iv' : Nat) (g : BlockGen) (k v : Bytes)
    (h : g.counter < iv) (h' : g.counter < iv') :
    blockGenAdd iv g k v = blockGenAdd iv' g k v ∧ (blockGenAdd iv g k v).counter = g.counter + 1 := by
  simp only [blockGenAdd, h, h', decide_true, if_true, and_self]

theorem blockGenAddAll_interval_irrel (iv iv' : Nat) (es : List (Bytes × Bytes)) :
    ∀ g : BlockGen, g.counter + es.length ≤ iv → g.counter + es.length ≤ iv' →
      blockGenAddAll iv g es = blockGenAddAll iv' g es := by
  induction es with
  | nil => intro g _ _; rfl
  | cons e es ih =>
    intro g h h'
    simp only [List.length_cons] at h h'
    obtain ⟨h1, h2⟩ := blockGenAdd_interval_irrel iv iv' g e.1 e.2 (by omega) (by omega)
    rw [blockGenAddAll_cons, blockGenAddAll_cons, ← h1]
    exact ih _ (by rw [h2]; omega) (by rw [h2]; omega)

theorem canonBlock_build (iv : Nat) (es : List (Bytes × Bytes)) (h : 1 ≤ iv) :
    CanonBlock (blockBuild iv es) es := by
  by_cases hle : iv ≤ es.length + 1
  · exact ⟨iv - 1, by omega, by rw [Nat.sub_add_cancel h]⟩
  · refine ⟨es.length, by omega, ?_⟩
    unfold blockBuild
    rw [blockGenAddAll_interval_irrel iv (es.length + 1) es blockGenInit]
    · show 0 + es.length ≤ iv; omega
    · show 0 + es.length ≤ es.length + 1; omega

/-! ### sizes -/

theorem mem_le_sum_map {α : Type} (f : α → Nat) (l : List α) (x : α) (h : x ∈ l) : f x ≤ (l.map f).sum := by
  induction l with
  | nil => simp at h
  | cons a l ih =>
    simp only [List.map_cons, List.sum_cons]
    rcases List.mem_cons.mp h with rfl | h
    · omega
    · have := ih h; omega

theorem sum_map_mono {α : Type} (f g : α → Nat) (l : List α) (h : ∀ x ∈ l, f x ≤ g x) :
    (l.map f).sum ≤ (l.map g).sum := by
  induction l with
  | nil => simp
  | cons a l ih =>
    simp only [List.map_cons, List.sum_cons]
    have := h a List.mem_cons_self
    have := ih (fun x hx => h x (List.mem_cons_of_mem _ hx))
    omega

theorem sum_map_flatten {α : Type} (f : α → Nat) (ll : List (List α)) :
    (ll.flatten.map f).sum = (ll.map fun l => (l.map f).sum).sum := by
  induction ll with
  | nil => rfl
  | cons l ll ih => simp only [List.flatten_cons, List.map_append, List.sum_append, ih, List.map_cons, List.sum_cons]

/-- weight of an entry in `tableRawBound` -/
def wt64 (e : Bytes × Bytes) : Nat := e.1.length + e.2.length + 64

theorem tableRawBound_eq (es : List (Bytes × Bytes)) : tableRawBound es = (es.map wt64).sum + 128 := rfl

theorem blockSizeBound_le_raw (bss : List (List (Bytes × Bytes))) (b : List (Bytes × Bytes)) (hb : b ∈ bss) :
    blockSizeBound b ≤ tableRawBound bss.flatten := by
  have h1 : (b.map fun e => e.1.length + e.2.length + 19).sum ≤ (b.map wt64).sum :=
    sum_map_mono _ _ b (fun e _ => by simp only [wt64]; omega)
  have h2 := mem_le_sum_map (fun l : List (Bytes × Bytes) => (l.map wt64).sum) bss b hb
  rw [tableRawBound_eq, sum_map_flatten]
  unfold blockSizeBound
  omega

theorem lastKeyOf_le_sum (b : List (Bytes × Bytes)) (h : b ≠ []) : (lastKeyOf b).length + 64 ≤ (b.map wt64).sum := by
  obtain ⟨e, he, hl⟩ := lastKeyOf_mem b h
  have := mem_le_sum_map wt64 b e he
  rw [hl]; simp only [wt64] at this ⊢; omega

/-- size bound of the index block -/
theorem index_bound (infos : List BlkInfo)
    (h : ∀ b ∈ infos, b.sep.length ≤ (lastKeyOf b.entries).length ∧ b.hv.length ≤ 20 ∧ b.entries ≠ []) :
    blockSizeBound (infos.map fun b => (b.sep, b.hv)) ≤ ((infos.flatMap (·.entries)).map wt64).sum + 8 := by
  induction infos with
  | nil => simp [blockSizeBound]
  | cons x xs ih =>
    have ih' := ih (fun b hb => h b (List.mem_cons_of_mem _ hb))
    obtain ⟨h1, h2, h3⟩ := h x List.mem_cons_self
    have h4 := lastKeyOf_le_sum x.entries h3
    unfold blockSizeBound at ih' ⊢
    simp only [List.map_cons, List.sum_cons, List.flatMap_cons, List.map_append, List.sum_append] at ih' ⊢
    omega

theorem filterKeyName_length : filterKeyName.length = 34 := by decide +kernel

theorem meta_bound (off : Nat) (fc : Option Bytes) (hoff : off < 2 ^ 64) (hc : ∀ c, fc = some c → c.length < 2 ^ 64) :
    (∀ e ∈ metaEntries off fc, e.1.length < 2 ^ 32 ∧ e.2.length < 2 ^ 32) ∧
    blockSizeBound (metaEntries off fc) ≤ 128 := by
  cases fc with
  | none => simp [metaEntries, blockSizeBound]
  | some c =>
    have hl := handleEncode_length_le { offset := off, size := c.length } hoff (hc c rfl)
    have hk := filterKeyName_length
    simp only [handleMaxLen] at hl
    simp only [metaEntries, blockSizeBound, List.mem_singleton, forall_eq, List.map_cons, List.map_nil,
      List.sum_cons, List.sum_nil, hk]
    omega

end Lcdb
