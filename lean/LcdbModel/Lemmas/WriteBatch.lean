/-
  Helper lemmas for LcdbModel.Model.WriteBatch (core Lean only).
-/
import LcdbModel.Model.WriteBatch
import LcdbModel.Props.CodingProps
namespace Lcdb

/-- key / value lengths fit the varint32 length prefix -/
def OpWF : BOp → Prop
  | .put k v => k.length < 2 ^ 32 ∧ v.length < 2 ^ 32
  | .del k => k.length < 2 ^ 32

def OpsWF (ops : List BOp) : Prop := ∀ op ∈ ops, OpWF op

theorem OpsWF.tail {op : BOp} {ops : List BOp} (h : OpsWF (op :: ops)) : OpsWF ops :=
  fun o ho => h o (List.mem_cons_of_mem _ ho)

theorem OpsWF.head {op : BOp} {ops : List BOp} (h : OpsWF (op :: ops)) : OpWF op :=
  h op List.mem_cons_self

theorem OpsWF.append {a b : List BOp} (ha : OpsWF a) (hb : OpsWF b) : OpsWF (a ++ b) := by
  intro o ho
  rcases List.mem_append.mp ho with h | h
  · exact ha o h
  · exact hb o h

/-! ### encoder shape -/

theorem encodeOps_nil : encodeOps [] = [] := rfl

theorem encodeOps_cons (op : BOp) (ops : List BOp) :
    encodeOps (op :: ops) = encodeOp op ++ encodeOps ops := by
  simp [encodeOps]

theorem encodeOps_append (a b : List BOp) : encodeOps (a ++ b) = encodeOps a ++ encodeOps b := by
  simp [encodeOps]

theorem sliceEnc_length_pos (s : Bytes) : 1 ≤ (sliceEnc s).length := by
  have := varintEnc_length_pos s.length
  simp only [sliceEnc, List.length_append]; omega

theorem encodeOp_length_ge (op : BOp) : 2 ≤ (encodeOp op).length := by
  cases op with
  | put k v =>
    have := sliceEnc_length_pos k
    simp only [encodeOp, List.length_cons, List.length_append]; omega
  | del k =>
    have := sliceEnc_length_pos k
    simp only [encodeOp, List.length_cons]; omega

theorem encodeOps_length_ge (ops : List BOp) : 2 * ops.length ≤ (encodeOps ops).length := by
  induction ops with
  | nil => simp [encodeOps]
  | cons op ops ih =>
    have := encodeOp_length_ge op
    rw [encodeOps_cons, List.length_append, List.length_cons]; omega

/-! ### the record loop on encoded records -/

theorem iterateGo_encodeOp (op : BOp) (h : OpWF op) (fuel : Nat) (rest : Bytes)
    (acc : List BOp) (found : Nat) :
    iterateGo (fuel + 1) (encodeOp op ++ rest) acc found
      = iterateGo fuel rest (acc ++ [op]) (found + 1) := by
  cases op with
  | put k v =>
    obtain ⟨hk, hv⟩ := h
    have ht : ((UInt8.ofNat typeValue).toNat == typeValue) = true := by decide
    simp only [encodeOp, List.cons_append, List.append_assoc, iterateGo, ht, if_true]
    rw [sliceRead_sliceEnc k _ hk]
    simp only []
    rw [sliceRead_sliceEnc v _ hv]
  | del k =>
    have ht : ((UInt8.ofNat typeDeletion).toNat == typeValue) = false := by decide
    have ht' : ((UInt8.ofNat typeDeletion).toNat == typeDeletion) = true := by decide
    simp only [encodeOp, List.cons_append, iterateGo, ht, ht', if_true]
    rw [sliceRead_sliceEnc k _ h]
    simp

theorem iterateGo_encodeOps (ops : List BOp) (hwf : OpsWF ops) :
    ∀ (fuel : Nat) (rest : Bytes) (acc : List BOp) (found : Nat),
      iterateGo (fuel + ops.length) (encodeOps ops ++ rest) acc found
        = iterateGo fuel rest (acc ++ ops) (found + ops.length) := by
  induction ops with
  | nil => intro fuel rest acc found; simp [encodeOps]
  | cons op ops ih =>
    intro fuel rest acc found
    rw [encodeOps_cons, List.append_assoc, List.length_cons, ← Nat.add_assoc,
      iterateGo_encodeOp op hwf.head, ih hwf.tail]
    simp [Nat.add_assoc, Nat.add_comm 1]

/-- whole-list form with exactly enough fuel left over for the final empty-input check -/
theorem iterateGo_encodeOps_nil (ops : List BOp) (hwf : OpsWF ops) (fuel : Nat)
    (hf : ops.length < fuel) (acc : List BOp) (found : Nat) :
    iterateGo fuel (encodeOps ops) acc found = (acc ++ ops, found + ops.length, true) := by
  obtain ⟨k, rfl⟩ : ∃ k, fuel = (k + 1) + ops.length := ⟨fuel - ops.length - 1, by omega⟩
  have := iterateGo_encodeOps ops hwf (k + 1) [] acc found
  rw [List.append_nil] at this
  rw [this, iterateGo]

/-! ### header accessors on an encoded batch -/

theorem encodeBatch_length (seq : Nat) (ops : List BOp) :
    (encodeBatch seq ops).length = 12 + (encodeOps ops).length := by
  simp only [encodeBatch, List.length_append, fixedEnc_length]

theorem encodeBatch_take8 (seq : Nat) (ops : List BOp) :
    (encodeBatch seq ops).take 8 = fixedEnc 8 seq := by
  rw [encodeBatch, List.append_assoc]
  exact List.take_left' (fixedEnc_length 8 seq)

theorem encodeBatch_drop8 (seq : Nat) (ops : List BOp) :
    (encodeBatch seq ops).drop 8 = fixedEnc 4 ops.length ++ encodeOps ops := by
  rw [encodeBatch, List.append_assoc]
  exact List.drop_left' (fixedEnc_length 8 seq)

theorem encodeBatch_drop12 (seq : Nat) (ops : List BOp) :
    (encodeBatch seq ops).drop 12 = encodeOps ops := by
  rw [encodeBatch]
  exact List.drop_left' (by simp [fixedEnc_length])

theorem batchSeq_encodeBatch (seq : Nat) (ops : List BOp) :
    batchSeq (encodeBatch seq ops) = seq % 2 ^ 64 := by
  rw [batchSeq, encodeBatch_take8, fixedDec_fixedEnc]

theorem batchCount_encodeBatch (seq : Nat) (ops : List BOp) :
    batchCount (encodeBatch seq ops) = ops.length % 2 ^ 32 := by
  rw [batchCount, encodeBatch_drop8, List.take_left' (fixedEnc_length 4 _), fixedDec_fixedEnc]

/-- a prefix that keeps the 12 header bytes keeps the header fields -/
theorem batchCount_take (rep : Bytes) (n : Nat) (h : 12 ≤ n) :
    batchCount (rep.take n) = batchCount rep := by
  unfold batchCount
  rw [List.drop_take, List.take_take, Nat.min_eq_left (by omega)]

theorem batchSeq_take (rep : Bytes) (n : Nat) (h : 8 ≤ n) :
    batchSeq (rep.take n) = batchSeq rep := by
  unfold batchSeq
  rw [List.take_take, Nat.min_eq_left h]

/-- `batchIterate` without the destructuring `let` -/
theorem batchIterate_eq (rep : Bytes) (h : 12 ≤ rep.length) :
    batchIterate rep =
      { applied := (iterateGo (rep.length + 1) (rep.drop 12) [] 0).1,
        ok := (iterateGo (rep.length + 1) (rep.drop 12) [] 0).2.2
              && ((iterateGo (rep.length + 1) (rep.drop 12) [] 0).2.1 == batchCount rep) } := by
  unfold batchIterate
  have h' : ¬ rep.length < batchHeaderSize := by simp only [batchHeaderSize]; omega
  rw [if_neg h']
  show (match iterateGo (rep.length + 1) (rep.drop 12) [] 0 with
    | (ops, found, ok) => if !ok then ({ applied := ops, ok := false } : IterResult)
      else { applied := ops, ok := found == batchCount rep }) = _
  generalize iterateGo (rep.length + 1) (rep.drop 12) [] 0 = r
  obtain ⟨ops, found, ok⟩ := r
  cases ok <;> simp

/-! ### truncated input -/

/-- a strict prefix of a varint encoding consists of continuation bytes only: the reader runs dry -/
theorem varintGo_take_none (w : Nat) (n : Nat) :
    ∀ (m fuel shift acc : Nat), m < (varintEnc n).length →
      varintGo w fuel shift acc ((varintEnc n).take m) = none := by
  induction n using Nat.strongRecOn with
  | _ n ih =>
    intro m fuel shift acc hm
    cases fuel with
    | zero => simp [varintGo]
    | succ fuel =>
      by_cases h : n < 128
      · rw [varintEnc_lt n h] at hm ⊢
        have : m = 0 := by simpa using hm
        subst this; simp [varintGo]
      · rw [varintEnc_ge n h] at hm ⊢
        cases m with
        | zero => simp [varintGo]
        | succ m =>
          have h1 : (UInt8.ofNat (n % 128 + 128)).toNat = n % 128 + 128 := by
            rw [UInt8.toNat_ofNat']; omega
          have h2 : n % 128 + 128 ≥ 128 := by omega
          simp only [List.take_succ_cons, varintGo, h1, h2, if_true]
          exact ih (n / 128) (by omega) m fuel _ _ (by simpa using hm)

theorem sliceRead_take_none (s : Bytes) (hs : s.length < 2 ^ 32) (m : Nat)
    (hm : m < (sliceEnc s).length) : sliceRead ((sliceEnc s).take m) = none := by
  unfold sliceEnc at hm ⊢
  unfold sliceRead
  by_cases h : m < (varintEnc s.length).length
  · rw [List.take_append_of_le_length (by omega)]
    unfold varint32Read; rw [varintGo_take_none 32 _ m 5 0 0 h]
  · have hm' : m = (varintEnc s.length).length + (m - (varintEnc s.length).length) := by omega
    rw [List.length_append] at hm
    rw [hm', List.take_length_add_append]
    have := varint32_roundtrip s.length (s.take (m - (varintEnc s.length).length)) hs
    rw [this]
    have hl : (s.take (m - (varintEnc s.length).length)).length < s.length := by
      rw [List.length_take]; omega
    simp only []
    rw [if_pos hl]

/-- a non-empty strict prefix of one record: the tag is counted, then a slice read fails -/
theorem iterateGo_take_encodeOp (op : BOp) (h : OpWF op) (m : Nat) (hm0 : 0 < m)
    (hm : m < (encodeOp op).length) (fuel : Nat) (acc : List BOp) (found : Nat) :
    iterateGo (fuel + 1) ((encodeOp op).take m) acc found = (acc, found + 1, false) := by
  obtain ⟨m, rfl⟩ : ∃ k, m = k + 1 := ⟨m - 1, by omega⟩
  cases op with
  | put k v =>
    obtain ⟨hk, hv⟩ := h
    have ht : ((UInt8.ofNat typeValue).toNat == typeValue) = true := by decide
    simp only [encodeOp, List.length_cons, List.length_append] at hm
    simp only [encodeOp, List.take_succ_cons, iterateGo, ht, if_true]
    by_cases hc : m < (sliceEnc k).length
    · rw [List.take_append_of_le_length (by omega), sliceRead_take_none k hk m hc]
    · have hm' : m = (sliceEnc k).length + (m - (sliceEnc k).length) := by omega
      rw [hm', List.take_length_add_append, sliceRead_sliceEnc k _ hk]
      simp only []
      rw [sliceRead_take_none v hv _ (by omega)]
  | del k =>
    have ht : ((UInt8.ofNat typeDeletion).toNat == typeValue) = false := by decide
    have ht' : ((UInt8.ofNat typeDeletion).toNat == typeDeletion) = true := by decide
    simp only [encodeOp, List.length_cons] at hm
    simp only [encodeOp, List.take_succ_cons, iterateGo, ht, ht', if_true]
    rw [sliceRead_take_none k h m (by omega)]
    simp

/-- the record loop on a strict prefix of the records: it applies a prefix of the operations and
    either fails or stops having seen fewer tags than there are records -/
theorem iterateGo_take_encodeOps (ops : List BOp) (hwf : OpsWF ops) :
    ∀ (m fuel : Nat) (acc : List BOp) (found : Nat), m < (encodeOps ops).length →
      ∃ ops', (iterateGo fuel ((encodeOps ops).take m) acc found).1 = acc ++ ops' ∧ ops' <+: ops ∧
        ((iterateGo fuel ((encodeOps ops).take m) acc found).2.2 = false ∨
         (iterateGo fuel ((encodeOps ops).take m) acc found).2.1 < found + ops.length) := by
  induction ops with
  | nil => intro m fuel acc found hm; simp [encodeOps] at hm
  | cons op ops ih =>
    intro m fuel acc found hm
    cases fuel with
    | zero => exact ⟨[], by simp [iterateGo], List.nil_prefix, Or.inl (by simp [iterateGo])⟩
    | succ fuel =>
      rw [encodeOps_cons] at hm ⊢
      by_cases hc : m < (encodeOp op).length
      · rw [List.take_append_of_le_length (by omega)]
        by_cases hm0 : m = 0
        · subst hm0
          refine ⟨[], by simp [iterateGo], List.nil_prefix, Or.inr ?_⟩
          simp [iterateGo]
        · rw [iterateGo_take_encodeOp op hwf.head m (by omega) hc]
          exact ⟨[], by simp, List.nil_prefix, Or.inl rfl⟩
      · have hm' : m = (encodeOp op).length + (m - (encodeOp op).length) := by omega
        rw [List.length_append] at hm
        rw [hm', List.take_length_add_append, iterateGo_encodeOp op hwf.head]
        obtain ⟨ops', h1, h2, h3⟩ :=
          ih hwf.tail (m - (encodeOp op).length) fuel (acc ++ [op]) (found + 1) (by omega)
        refine ⟨op :: ops', by rw [h1]; simp, ?_, ?_⟩
        · exact List.cons_prefix_cons.mpr ⟨rfl, h2⟩
        · rcases h3 with h3 | h3
          · exact Or.inl h3
          · exact Or.inr (by rw [List.length_cons]; omega)

/-! ### tags seen vs. handler calls -/

theorem iterateGo_count : ∀ (fuel : Nat) (bs : Bytes) (acc : List BOp) (found : Nat),
    (iterateGo fuel bs acc found).2.2 = true →
      (iterateGo fuel bs acc found).1.length + found
        = acc.length + (iterateGo fuel bs acc found).2.1 := by
  intro fuel
  induction fuel with
  | zero => intro bs acc found h; simp [iterateGo] at h
  | succ fuel ih =>
    intro bs acc found h
    cases bs with
    | nil => simp [iterateGo]
    | cons tag rest =>
      revert h
      simp only [iterateGo]
      split
      · split
        · simp
        · split
          · simp
          · intro h
            have := ih _ _ _ h
            simp only [List.length_append, List.length_cons, List.length_nil] at this
            omega
      · split
        · split
          · simp
          · intro h
            have := ih _ _ _ h
            simp only [List.length_append, List.length_cons, List.length_nil] at this
            omega
        · simp

end Lcdb
