/-
  Invariant of one shard of the LRU cache (Model/LruCache.lean) and its preservation by every
  operation; frame facts used by Props/LruCacheProps.lean.
-/
import LcdbModel.Model.LruCache
namespace Lcdb.LruCache

/-- what an entry contributes to `usage` -/
def wt (e : CEntry) : Nat := if e.inCache then e.charge else 0

/-- sum of the charges of the in-cache entries -/
def sumCharge : List CEntry → Nat
  | [] => 0
  | e :: es => wt e + sumCharge es

theorem sumCharge_append (a b : List CEntry) : sumCharge (a ++ b) = sumCharge a + sumCharge b := by
  induction a with
  | nil => simp [sumCharge]
  | cons e es ih => simp [sumCharge, ih]; omega

theorem sumCharge_set (l : List CEntry) (i : Nat) (e e' : CEntry) (h : l[i]? = some e) :
    sumCharge (l.set i e') + wt e = sumCharge l + wt e' := by
  induction l generalizing i with
  | nil => simp at h
  | cons a as ih =>
    cases i with
    | zero => simp at h; subst h; simp [sumCharge]; omega
    | succ i => simp at h; have := ih i h; simp [sumCharge]; omega

theorem wt_le_sumCharge (l : List CEntry) (i : Nat) (e : CEntry) (h : l[i]? = some e) : wt e ≤ sumCharge l := by
  induction l generalizing i with
  | nil => simp at h
  | cons a as ih =>
    cases i with
    | zero => simp at h; subst h; simp [sumCharge]
    | succ i => simp at h; have := ih i h; simp [sumCharge]; omega

/-- The shard invariant.  `x` is the entry (if any) that has been taken out of the handle table but not
    yet `finish`ed (the only moment the table and `in_cache` disagree inside an operation). -/
structure InvX (s : Shard) (x : Option Nat) : Prop where
  /-- refs = client handles + (1 if in cache) -/
  refs : ∀ id e, s.entries[id]? = some e → e.refs = s.held.count id + (if e.inCache then 1 else 0)
  /-- on `lru` iff in cache and referenced by the cache only -/
  lruIff : ∀ id, id ∈ s.lru ↔ ∃ e, s.entries[id]? = some e ∧ e.inCache = true ∧ e.refs = 1
  /-- on `in_use` iff in cache and referenced by a client -/
  useIff : ∀ id, id ∈ s.inUse ↔ ∃ e, s.entries[id]? = some e ∧ e.inCache = true ∧ 2 ≤ e.refs
  /-- deleter called iff freed -/
  delIff : ∀ id, id ∈ s.deleted ↔ ∃ e, s.entries[id]? = some e ∧ e.refs = 0
  heldB : ∀ id, id ∈ s.held → id < s.entries.length
  /-- an in-cache entry is what the table has under its key -/
  tab : ∀ id e, s.entries[id]? = some e → x ≠ some id → e.inCache = true → s.table e.key = some id
  /-- the table points to in-cache entries with that key only -/
  tabIn : ∀ k id, s.table k = some id → ∃ e, s.entries[id]? = some e ∧ e.inCache = true ∧ e.key = k
  usage : s.usage = sumCharge s.entries
  ndLru : s.lru.Nodup
  ndUse : s.inUse.Nodup
  ndDel : s.deleted.Nodup

abbrev Inv (s : Shard) : Prop := InvX s none

theorem inv_empty (cap : Nat) : Inv (Shard.empty cap) := by
  constructor <;> simp [Shard.empty, sumCharge]

/-- frame of an operation that never touches the table: what the other theorems need -/
structure Frame (s s' : Shard) : Prop where
  cap : s'.capacity = s.capacity
  len : s'.entries.length = s.entries.length
  kv : ∀ (id : Nat) (e : CEntry), s.entries[id]? = some e → ∃ e' : CEntry, s'.entries[id]? = some e' ∧ e'.key = e.key ∧ e'.val = e.val ∧ e'.charge = e.charge

theorem Frame.refl (s : Shard) : Frame s s := ⟨rfl, rfl, fun _ e h => ⟨e, h, rfl, rfl, rfl⟩⟩

theorem Frame.trans {a b c : Shard} (h1 : Frame a b) (h2 : Frame b c) : Frame a c := by
  refine ⟨h2.cap.trans h1.cap, h2.len.trans h1.len, ?_⟩
  intro id e h
  obtain ⟨e', h', k1, v1, c1⟩ := h1.kv id e h
  obtain ⟨e'', h'', k2, v2, c2⟩ := h2.kv id e' h'
  exact ⟨e'', h'', k2.trans k1, v2.trans v1, c2.trans c1⟩


/-- what `finish` leaves besides the invariant -/
structure FinishSpec (s s' : Shard) (x : Nat) : Prop where
  frame : Frame s s'
  table : s'.table = s.table
  held : s'.held = s.held
  lru : s'.lru = s.lru.filter (· != x)
  inUse : s'.inUse = s.inUse.filter (· != x)
  deleted : s'.deleted = s.deleted ++ (if s.held.count x = 0 then [x] else [])
  usage : ∀ e : CEntry, s.entries[x]? = some e → s'.usage + e.charge = s.usage
  gone : ∃ e' : CEntry, s'.entries[x]? = some e' ∧ e'.inCache = false
  others : ∀ id : Nat, id ≠ x → s'.entries[id]? = s.entries[id]?

/-- closed form of `finish` under the invariant -/
def finished (s : Shard) (x : Nat) (e : CEntry) : Shard :=
  { s with lru := s.lru.filter (· != x), inUse := s.inUse.filter (· != x),
           entries := s.entries.set x { e with inCache := false, refs := s.held.count x },
           usage := s.usage - e.charge,
           deleted := s.deleted ++ (if s.held.count x = 0 then [x] else []) }

theorem lt_of_getElem? {l : List CEntry} {i : Nat} {e : CEntry} (h : l[i]? = some e) : i < l.length := by
  rcases Nat.lt_or_ge i l.length with h' | h'
  · exact h'
  · rw [List.getElem?_eq_none h'] at h; cases h

theorem finish_eq (s : Shard) (x : Nat) (e : CEntry) (hx : s.entries[x]? = some e) (hc : e.inCache = true)
    (hrefs : e.refs = s.held.count x + 1) : finish s (some x) = some (finished s x e) := by
  have hlt := lt_of_getElem? hx
  have hset : ∀ a : CEntry, (s.entries.set x a)[x]? = some a := fun a => by simp [hlt]
  by_cases h0 : s.held.count x = 0
  · simp only [finish, hx, hc, unlink, unref, hset, finished, h0, hrefs]
    simp
  · have h1 : e.refs ≠ 0 := by omega
    have h2 : e.refs - 1 ≠ 0 := by omega
    have h3 : e.refs - 1 = s.held.count x := by omega
    simp only [finish, hx, hc, unlink, unref, hset, finished, h0, h1, h2]
    simp [h3]

theorem finish_inv (s : Shard) (x : Nat) (e : CEntry) (hi : InvX s (some x)) (hx : s.entries[x]? = some e)
    (hc : e.inCache = true) (hnt : ∀ k, s.table k ≠ some x) :
    finish s (some x) = some (finished s x e) ∧ Inv (finished s x e) ∧ FinishSpec s (finished s x e) x := by
  have hrefs := hi.refs x e hx
  have hlt := lt_of_getElem? hx
  have hw : wt e ≤ sumCharge s.entries := wt_le_sumCharge _ _ _ hx
  have hwe : wt e = e.charge := by simp [wt, hc]
  simp only [hc, if_true] at hrefs
  refine ⟨finish_eq s x e hx hc hrefs, ?_, ?_⟩
  · have hsum := sumCharge_set s.entries x e { e with inCache := false, refs := s.held.count x } hx
    constructor <;> dsimp only [finished]
    · intro id e1 h1
      simp only [List.getElem?_set] at h1
      split at h1
      · simp [hlt] at h1; subst h1; rename_i h; subst h; simp
      · exact hi.refs id e1 h1
    · intro id
      simp only [List.mem_filter, List.getElem?_set, hi.lruIff id]
      grind
    · intro id
      simp only [List.mem_filter, List.getElem?_set, hi.useIff id]
      grind
    · intro id
      simp only [List.mem_append, List.getElem?_set, hi.delIff id]
      have := hi.refs id
      grind
    · simpa using hi.heldB
    · intro id e1 h1 _ hc1
      simp only [List.getElem?_set] at h1
      split at h1
      · simp [hlt] at h1; subst h1; simp at hc1
      · rename_i hne; exact hi.tab id e1 h1 (by simpa using fun h => hne h) hc1
    · intro k id hk
      obtain ⟨e1, h1, h2, h3⟩ := hi.tabIn k id hk
      have : id ≠ x := fun h => hnt k (h ▸ hk)
      refine ⟨e1, ?_, h2, h3⟩
      simp only [List.getElem?_set]; grind
    · have := hi.usage
      simp [wt, hc] at hsum; simp [hwe] at hw; omega
    · exact hi.ndLru.filter _
    · exact hi.ndUse.filter _
    · have hnd := hi.ndDel
      split
      · have : x ∉ s.deleted := by
          intro h; obtain ⟨e1, h1, h2⟩ := (hi.delIff x).1 h; rw [hx] at h1; cases h1; omega
        rw [List.nodup_append]; refine ⟨hnd, by simp, ?_⟩
        intro a ha b hb; simp at hb; subst hb; intro h; subst h; exact this ha
      · simpa using hnd
  · refine ⟨⟨rfl, by simp [finished], ?_⟩, rfl, rfl, rfl, rfl, rfl, ?_, ?_, ?_⟩
    · intro id e1 h1
      simp only [finished, List.getElem?_set]
      by_cases h : x = id
      · subst h; rw [hx] at h1; cases h1; simp [hlt]
      · simp [h, h1]
    · intro e1 h1; rw [hx] at h1; cases h1
      have := hi.usage; simp [hwe] at hw; show s.usage - e.charge + e.charge = s.usage; omega
    · exact ⟨{ e with inCache := false, refs := s.held.count x }, by simp [finished, hlt], rfl⟩
    · intro id hne; simp [finished, List.getElem?_set, Ne.symm hne]

end Lcdb.LruCache
