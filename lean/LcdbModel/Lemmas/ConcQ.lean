/-
  The queue invariant of the concurrency model (C09 items 1 and 2).
-/
import LcdbModel.Lemmas.ConcStep

namespace Lcdb.Conc

/-- where a writer stands relative to the queue, by program counter -/
def WQ (st : St) (w : Writer) : Prop :=
  match w.pc with
  | .idle => w.done = false ∧ w.tid ∉ st.queue
  | .asleepW => w.done = false ∧ w.tid ∈ st.queue ∧ st.queue.head? ≠ some w.tid
  | .wokenW => (w.done = true ∧ w.tid ∉ st.queue) ∨ (w.done = false ∧ st.queue.head? = some w.tid ∧ st.inflight = [])
  | .asleepBg => w.done = false ∧ st.queue.head? = some w.tid ∧ st.inflight = []
  | .wokenBg => w.done = false ∧ st.queue.head? = some w.tid ∧ st.inflight = []
  | .delayed => w.done = false ∧ st.queue.head? = some w.tid ∧ st.inflight = []
  | .io => w.done = false ∧ st.queue.head? = some w.tid ∧ st.inflight.head? = some w.tid
  | .returned ok => w.tid ∉ st.queue ∧ (w.done = true → ok = w.status)

/-- the queue invariant, possibly except for the record of thread `ex` (which is in the middle of a critical section) -/
structure InvQX (ex : Option Tid) (st : St) : Prop where
  wnodup : (st.writers.map (·.tid)).Nodup
  qnodup : st.queue.Nodup
  qmem : ∀ t ∈ st.queue, ∃ w ∈ st.writers, w.tid = t
  pfx : st.inflight <+: st.queue
  wq : ∀ w ∈ st.writers, some w.tid ≠ ex → WQ st w

abbrev InvQ (st : St) : Prop := InvQX none st

theorem InvQ.wq' {st : St} (H : InvQ st) {w : Writer} (hw : w ∈ st.writers) : WQ st w := H.wq w hw (by simp)

theorem InvQ.toX {st : St} (H : InvQ st) (t : Tid) : InvQX (some t) st :=
  ⟨H.wnodup, H.qnodup, H.qmem, H.pfx, fun _ hw _ => H.wq' hw⟩

theorem WQ_congr {st st' : St} (hq : st'.queue = st.queue) (hi : st'.inflight = st.inflight) (w : Writer) :
    WQ st' w = WQ st w := by
  unfold WQ; rw [hq, hi]

theorem WQ_of_congr {st st' : St} {w : Writer} (hq : st'.queue = st.queue) (hi : st'.inflight = st.inflight)
    (h : WQ st w) : WQ st' w := by rw [WQ_congr hq hi]; exact h

/-- a writer that is not the head does not care about `inflight` -/
theorem WQ_nothead {st st' : St} {x : Writer} (hq : st'.queue = st.queue) (hh : st.queue.head? ≠ some x.tid)
    (h : WQ st x) : WQ st' x := by
  unfold WQ at h ⊢
  rw [hq]
  cases hpc : x.pc <;> simp only [hpc] at h ⊢ <;> first | exact h | (exact absurd h.2.1 hh) | skip
  · rcases h with h | h
    · exact Or.inl h
    · exact absurd h.2.1 hh

/-- in a state satisfying the queue invariant, whoever is the head (and not the excepted thread) with a non-empty
    inflight is in `io` -/
theorem InvQX.io_of_inflight {ex : Option Tid} {st : St} (H : InvQX ex st) {w : Writer} (hw : w ∈ st.writers)
    (hex : some w.tid ≠ ex) (h : st.inflight.head? = some w.tid) : w.pc = .io := by
  have hhead : st.queue.head? = some w.tid := by
    obtain ⟨r, hr⟩ := H.pfx
    cases hi : st.inflight with
    | nil => simp [hi] at h
    | cons a l => rw [hi] at h hr; simp at h; subst h; rw [← hr]; simp
  have hmem : w.tid ∈ st.queue := List.mem_of_mem_head? hhead
  have hne : st.inflight ≠ [] := by intro h0; simp [h0] at h
  have := H.wq w hw hex
  unfold WQ at this
  cases hpc : w.pc <;> simp only [hpc] at this <;> first | rfl | (exact absurd hmem this.2) | (exact absurd hhead this.2.2) | (exact absurd this.2.2 hne) | skip
  · rcases this with h1 | h1
    · exact absurd hmem h1.2
    · exact absurd h1.2.2 hne
  · exact absurd hmem this.1

/-! ### the shape of a writer update -/

/-- a map that preserves tids preserves the "static" parts of the invariant -/
theorem InvQX.of_map {ex ex' : Option Tid} {st G : St} {g : Writer → Writer} (H : InvQX ex st)
    (hg : ∀ x, (g x).tid = x.tid) (hw : G.writers = st.writers)
    (hqn : G.queue.Nodup) (hqm : ∀ t ∈ G.queue, ∃ w ∈ st.writers, w.tid = t)
    (hp : G.inflight <+: G.queue)
    (hwq : ∀ x ∈ st.writers, some x.tid ≠ ex' → WQ (mapW G g) (g x)) : InvQX ex' (mapW G g) := by
  refine ⟨?_, hqn, ?_, hp, ?_⟩
  · simp only [mapW_writers, hw]; exact nodup_tids_map hg H.wnodup
  · intro t ht
    obtain ⟨w, hw', rfl⟩ := hqm t ht
    exact ⟨g w, by simp only [mapW_writers, hw]; exact List.mem_map_of_mem hw', hg w⟩
  · intro x' hx' hne
    simp only [mapW_writers, hw, List.mem_map] at hx'
    obtain ⟨x, hx, rfl⟩ := hx'
    exact hwq x hx (by rw [← hg x]; exact hne)

theorem wake_of_ne {x : Writer} (h : x.pc ≠ .asleepW) : wake x = x := by simp [wake, h]
theorem bwake_of_ne {x : Writer} (h : x.pc ≠ .asleepBg) : bwake x = x := by simp [bwake, h]

theorem head?_eq_cons {α} {l : List α} {a : α} (h : l.head? = some a) : ∃ q, l = a :: q := by
  cases l with
  | nil => simp at h
  | cons b q => simp at h; exact ⟨q, by rw [h]⟩

/-- a queued writer that is not the head sleeps on its own cv -/
theorem InvQX.follower {ex : Option Tid} {st : St} (H : InvQX ex st) {x : Writer} (hx : x ∈ st.writers)
    (hex : some x.tid ≠ ex) (hm : x.tid ∈ st.queue) (hh : st.queue.head? ≠ some x.tid) :
    x.pc = .asleepW ∧ x.done = false := by
  have := H.wq x hx hex
  unfold WQ at this
  cases hpc : x.pc <;> simp only [hpc] at this <;> grind

/-- a queued writer is in flight and not done -/
theorem InvQX.queued {ex : Option Tid} {st : St} (H : InvQX ex st) {x : Writer} (hx : x ∈ st.writers)
    (hex : some x.tid ≠ ex) (hm : x.tid ∈ st.queue) :
    x.done = false ∧ x.pc ≠ .idle ∧ ∀ ok, x.pc ≠ .returned ok := by
  have := H.wq x hx hex
  unfold WQ at this
  cases hpc : x.pc <;> simp only [hpc] at this <;> grind

theorem InvQX.map_bwake {ex : Option Tid} {st G : St} (H : InvQX ex st) (hw : G.writers = st.writers)
    (hq : G.queue = st.queue) (hi : G.inflight = st.inflight) : InvQX ex (mapW G bwake) := by
  refine H.of_map bwake_tid hw (by rw [hq]; exact H.qnodup) (by rw [hq]; exact H.qmem) (by rw [hq, hi]; exact H.pfx) ?_
  intro x hx hne
  have hx' := H.wq x hx hne
  rw [WQ_congr (st := st) (by simpa using hq) (by simpa using hi)]
  unfold WQ at hx' ⊢
  simp only [bwake_tid, bwake_done, bwake_pc]
  cases hpc : x.pc <;> simp [hpc] at hx' ⊢ <;> exact hx'

theorem InvQ.map_bwake {st G : St} (H : InvQ st) (hw : G.writers = st.writers) (hq : G.queue = st.queue)
    (hi : G.inflight = st.inflight) : InvQ (mapW G bwake) := InvQX.map_bwake H hw hq hi

theorem InvQX.switchFailSt {ex : Option Tid} {st : St} (H : InvQX ex st) : InvQX ex (switchFailSt st) := by
  rw [switchFailSt_eq]; exact InvQX.map_bwake H rfl rfl rfl

/-! ### the head writer's critical section -/

theorem InvQX.fail {st : St} {w : Writer} (H : InvQX (some w.tid) st)
    (hhead : st.queue.head? = some w.tid) (hd : w.done = false) (hi : st.inflight = []) :
    InvQ (failAct st w) := by
  obtain ⟨q, hq⟩ := head?_eq_cons hhead
  have hqn := H.qnodup
  rw [hq] at hqn
  rw [failAct_eq H.wnodup]
  refine H.of_map ?_ rfl ?_ ?_ ?_ ?_
  · intro x; simp only [Function.comp, wakeHead]; split <;> simp [putW_tid]
  · simp [failG, hq]; exact (List.nodup_cons.1 hqn).2
  · intro t ht; apply H.qmem; simp [failG, hq] at ht; simp [hq, ht]
  · simp [failG, hi]
  · intro x hx _
    by_cases hxt : x.tid = w.tid
    · have : w.tid ∉ q := (List.nodup_cons.1 hqn).1
      simp [Function.comp, putW, hxt, wakeHead, wake, WQ, failG, hq, hd, this]
    · have hx' := H.wq x hx (by simpa using hxt)
      simp only [Function.comp, putW, hxt, if_false, wakeHead, failG, hq, List.drop_succ_cons, List.drop_zero]
      unfold WQ at hx' ⊢
      simp only [hq, hi, mapW_queue, mapW_inflight, List.mem_cons, hxt, false_or, List.head?_cons, Option.some.injEq] at hx' ⊢
      cases hpc : x.pc <;> simp [hpc, wake] at hx' ⊢ <;> grind

theorem InvQX.setHead {st : St} {w w' : Writer} (H : InvQX (some w.tid) st) (_hw : w ∈ st.writers)
    (hhead : st.queue.head? = some w.tid) (hi : st.inflight = [])
    (ht : w'.tid = w.tid) (hd' : w'.done = false) (hpc : w'.pc = .delayed ∨ w'.pc = .asleepBg) :
    InvQ (setW st w') := by
  rw [setW_eq]
  refine H.of_map (putW_tid rfl) rfl H.qnodup H.qmem H.pfx ?_
  intro x hx _
  by_cases hxt : x.tid = w.tid
  · simp only [putW, ht, hxt, if_true]
    rcases hpc with hpc | hpc <;> simp [WQ, hpc, hd', ht, hhead, hi]
  · simp only [putW, ht, hxt, if_false]
    exact WQ_of_congr rfl rfl (H.wq x hx (by simpa using hxt))

/-- the globals when a group begins -/
def beginG (st : St) (sw : Bool) (g : Nat) : St :=
  { (if sw then maybeSchedule { st with imm := true } else st) with inflight := st.queue.take g }

theorem beginSt_eq (st : St) (w : Writer) (sw : Bool) (g : Nat) :
    beginSt st w sw g = mapW (beginG st sw g) (putW w.tid { w with pc := .io }) := by
  unfold beginSt beginG; rw [setW_eq]

@[simp] theorem beginG_writers (st : St) (sw g) : (beginG st sw g).writers = st.writers := by
  unfold beginG; cases sw <;> simp
@[simp] theorem beginG_readers (st : St) (sw g) : (beginG st sw g).readers = st.readers := by
  unfold beginG; cases sw <;> simp
@[simp] theorem beginG_queue (st : St) (sw g) : (beginG st sw g).queue = st.queue := by
  unfold beginG; cases sw <;> simp
@[simp] theorem beginG_inflight (st : St) (sw g) : (beginG st sw g).inflight = st.queue.take g := by
  unfold beginG; cases sw <;> simp
@[simp] theorem beginG_lastSeq (st : St) (sw g) : (beginG st sw g).lastSeq = st.lastSeq := by
  unfold beginG; cases sw <;> simp
@[simp] theorem beginG_committed (st : St) (sw g) : (beginG st sw g).committed = st.committed := by
  unfold beginG; cases sw <;> simp
@[simp] theorem beginG_log (st : St) (sw g) : (beginG st sw g).log = st.log := by
  unfold beginG; cases sw <;> simp
@[simp] theorem beginG_groups (st : St) (sw g) : (beginG st sw g).groups = st.groups := by
  unfold beginG; cases sw <;> simp
@[simp] theorem beginG_bgError (st : St) (sw g) : (beginG st sw g).bgError = st.bgError := by
  unfold beginG; cases sw <;> simp
@[simp] theorem beginG_shuttingDown (st : St) (sw g) : (beginG st sw g).shuttingDown = st.shuttingDown := by
  unfold beginG; cases sw <;> simp
@[simp] theorem beginG_closer (st : St) (sw g) : (beginG st sw g).closer = st.closer := by
  unfold beginG; cases sw <;> simp
@[simp] theorem beginG_needsCompaction (st : St) (sw g) : (beginG st sw g).needsCompaction = st.needsCompaction := by
  unfold beginG; cases sw <;> simp

theorem InvQX.begin {st : St} {w : Writer} (H : InvQX (some w.tid) st) (_hw : w ∈ st.writers)
    (hhead : st.queue.head? = some w.tid) (hd : w.done = false) (sw : Bool) {g : Nat} (hg : 0 < g) :
    InvQ (beginSt st w sw g) := by
  rw [beginSt_eq]
  obtain ⟨q, hq⟩ := head?_eq_cons hhead
  refine H.of_map (putW_tid rfl) (by simp) (by simpa using H.qnodup) (by simpa using H.qmem)
    (by simpa using List.take_prefix _ _) ?_
  intro x hx _
  by_cases hxt : x.tid = w.tid
  · simp only [putW, hxt, if_true]
    have : (List.take g st.queue).head? = some w.tid := by
      rw [hq]; cases g with
      | zero => omega
      | succ n => simp
    simp [WQ, hd, hhead, this]
  · simp only [putW, hxt, if_false]
    apply WQ_nothead (st := st) (by simp)
    · rw [hhead]; intro h; exact hxt (Option.some.inj h).symm
    · exact H.wq x hx (by simpa using hxt)

theorem InvQX.headOutcome {st st' : St} {w : Writer} {c : RoomChoice} (H : InvQX (some w.tid) st)
    (hw : w ∈ st.writers) (hhead : st.queue.head? = some w.tid) (hd : w.done = false) (hi : st.inflight = [])
    (h : HeadOutcome st w c st') : InvQ st' := by
  cases h with
  | fail _ => exact H.fail hhead hd hi
  | switchFail _ _ =>
    exact (InvQX.switchFailSt H).fail (by simpa using hhead) hd (by simpa using hi)
  | delay _ _ => exact H.setHead hw hhead hi rfl hd (Or.inl rfl)
  | wait _ _ _ => exact H.setHead hw hhead hi rfl hd (Or.inr rfl)
  | begin sw g _ _ hg _ _ => exact H.begin hw hhead hd sw hg

/-! ### entering the queue -/

theorem InvQ.idle_facts {st : St} (H : InvQ st) {w : Writer} (hw : w ∈ st.writers) (hpc : w.pc = .idle) :
    w.done = false ∧ w.tid ∉ st.queue := by
  have := H.wq' hw; simpa [WQ, hpc] using this

theorem InvQ.enq_follower {st : St} {w : Writer} (H : InvQ st) (hw : w ∈ st.writers) (hpc : w.pc = .idle)
    (hh : (st.queue ++ [w.tid]).head? ≠ some w.tid) :
    InvQ (setW (enq st w.tid) { w with pc := .asleepW }) := by
  obtain ⟨hd, hnm⟩ := H.idle_facts hw hpc
  have hne : st.queue ≠ [] := by intro h0; simp [h0] at hh
  have hhead : (st.queue ++ [w.tid]).head? = st.queue.head? := by
    cases hq : st.queue with
    | nil => exact absurd hq hne
    | cons a l => simp
  rw [setW_eq]
  refine H.of_map (putW_tid rfl) rfl ?_ ?_ ?_ ?_
  · simp only [enq]; rw [List.nodup_append]
    refine ⟨H.qnodup, by simp, ?_⟩
    intro a ha b hb; simp at hb; subst hb; intro h; subst h; exact hnm ha
  · intro t ht; simp only [enq, List.mem_append, List.mem_singleton] at ht
    rcases ht with ht | rfl
    · exact H.qmem t ht
    · exact ⟨w, hw, rfl⟩
  · simp only [enq]; exact H.pfx.trans (List.prefix_append _ _)
  · intro x hx _
    by_cases hxt : x.tid = w.tid
    · simp only [putW, hxt, if_true]
      simp only [WQ, mapW_queue, enq, hhead]
      refine ⟨hd, by simp, ?_⟩
      intro h; exact hnm (List.mem_of_mem_head? h)
    · simp only [putW, hxt, if_false]
      have hx' := H.wq' hx
      unfold WQ at hx' ⊢
      simp only [mapW_queue, mapW_inflight, enq, hhead, List.mem_append, List.mem_singleton, hxt, or_false]
      exact hx'

theorem InvQ.enq_head {st : St} {w : Writer} (H : InvQ st) (hw : w ∈ st.writers) (hpc : w.pc = .idle)
    (hh : (st.queue ++ [w.tid]).head? = some w.tid) :
    st.queue = [] ∧ st.inflight = [] ∧ InvQX (some w.tid) (enq st w.tid) := by
  obtain ⟨_, hnm⟩ := H.idle_facts hw hpc
  have hq : st.queue = [] := by
    cases hq : st.queue with
    | nil => rfl
    | cons a l => rw [hq] at hh hnm; simp at hh; subst hh; simp at hnm
  have hi : st.inflight = [] := by
    have := H.pfx; rw [hq] at this; simpa using this
  refine ⟨hq, hi, ?_⟩
  refine ⟨H.wnodup, ?_, ?_, ?_, ?_⟩
  · simp [enq, hq]
  · intro t ht; simp [enq, hq] at ht; subst ht; exact ⟨w, hw, rfl⟩
  · simp [enq, hi]
  · intro x hx hne
    have hxt : x.tid ≠ w.tid := by simpa using hne
    have hx' := H.wq' hx
    unfold WQ at hx' ⊢
    simp only [hq, hi, enq, List.nil_append, List.mem_singleton, hxt, List.head?_cons, List.head?_nil,
      List.not_mem_nil, Option.some.injEq] at hx' ⊢
    cases hpc : x.pc <;> simp [hpc] at hx' ⊢ <;> grind

/-! ### waking up -/

theorem InvQ.wake_done {st : St} {w : Writer} (H : InvQ st) (hw : w ∈ st.writers) (hd : w.done = true)
    (e : Tid × Bool × Nat) :
    InvQ (setW { st with log := st.log ++ [e] } { w with pc := .returned w.status }) := by
  rw [setW_eq]
  have hw' := H.wq' hw
  refine H.of_map (putW_tid rfl) rfl H.qnodup H.qmem H.pfx ?_
  intro x hx _
  by_cases hxt : x.tid = w.tid
  · simp only [putW, hxt, if_true]
    unfold WQ at hw' ⊢
    cases hpc : w.pc <;> simp [hpc, hd] at hw' ⊢ <;> simp [hw']
  · simp only [putW, hxt, if_false]
    exact WQ_of_congr rfl rfl (H.wq' hx)

/-- a woken writer is done or the head: the "go back to sleep" branch of the wait loop is never taken -/
theorem InvQ.woken_head {st : St} {w : Writer} (H : InvQ st) (hw : w ∈ st.writers)
    (hpc : w.pc = .wokenW ∨ w.pc = .wokenBg ∨ w.pc = .delayed) (hd : w.done = false) :
    st.queue.head? = some w.tid ∧ st.inflight = [] := by
  have hw' := H.wq' hw
  unfold WQ at hw'
  rcases hpc with hpc | hpc | hpc <;> simp [hpc, hd] at hw' <;> exact hw'

/-! ### commit -/

theorem InvQ.io_facts {st : St} {w : Writer} (H : InvQ st) (hw : w ∈ st.writers) (hpc : w.pc = .io) :
    w.done = false ∧ ∃ fs rest, st.inflight = w.tid :: fs ∧ st.queue = w.tid :: (fs ++ rest) := by
  have hw' := H.wq' hw
  simp only [WQ, hpc] at hw'
  refine ⟨hw'.1, ?_⟩
  obtain ⟨fs, hfs⟩ := head?_eq_cons hw'.2.2
  obtain ⟨rest, hr⟩ := H.pfx
  exact ⟨fs, rest, hfs, by rw [← hr, hfs]; simp⟩

theorem commitW_inner_tid (l : List Tid) (sf : Bool) (x : Writer) :
    (if x.tid ∈ l then markF (!sf) (if sf = true then bwake x else x) else (if sf = true then bwake x else x)).tid = x.tid := by
  split <;> split <;> simp [markF]

theorem wakeHead_tid (q : List Tid) (y : Writer) : (wakeHead q y).tid = y.tid := by
  unfold wakeHead; split <;> simp

theorem commitW_tid (st : St) (w : Writer) (sf : Bool) (x : Writer) : (commitW st w sf x).tid = x.tid := by
  unfold commitW
  have h1 : ∀ y : Writer, (putW w.tid { w with pc := .returned (!sf) } y).tid = y.tid := by
    intro y; unfold putW; split <;> simp_all
  rw [wakeHead_tid, h1]; exact commitW_inner_tid _ _ _

theorem InvQ.commit {st : St} {w : Writer} (H : InvQ st) (hw : w ∈ st.writers) (hpc : w.pc = .io) (sf : Bool) :
    InvQ (commitAct st w sf) := by
  obtain ⟨hd, fs, rest, hi, hq⟩ := H.io_facts hw hpc
  have hqn := H.qnodup
  rw [hq] at hqn
  have hqn' := hqn
  simp only [List.nodup_cons, List.mem_append, not_or, List.nodup_append] at hqn
  obtain ⟨⟨hwfs, hwrest⟩, hfsn, hrestn, hdisj⟩ := hqn
  have hdrop : List.drop (w.tid :: fs).length (w.tid :: (fs ++ rest)) = rest := by simp
  rw [commitAct_eq H.wnodup]
  have hGq : (commitG st w.tid sf).queue = rest := by
    unfold commitG; cases sf <;> simp [hi, hq]
  have hGi : (commitG st w.tid sf).inflight = [] := by
    unfold commitG; cases sf <;> simp
  have hGw : (commitG st w.tid sf).writers = st.writers := by
    unfold commitG; cases sf <;> simp
  refine H.of_map ?_ hGw ?_ ?_ ?_ ?_
  · exact commitW_tid st w sf
  · rw [hGq]; exact hrestn
  · intro t ht; rw [hGq] at ht; apply H.qmem; simp [hq, ht]
  · rw [hGi]; exact List.nil_prefix
  · intro x hx _
    have hx' := H.wq' hx
    simp only [commitW]
    generalize hy : (if x.tid ∈ st.inflight.drop 1 then markF (!sf) (if sf = true then bwake x else x)
      else (if sf = true then bwake x else x)) = y
    have hyt : y.tid = x.tid := by rw [← hy]; exact commitW_inner_tid _ _ _
    by_cases hxt : x.tid = w.tid
    · have := writer_unique H.wnodup hx hw hxt; subst this
      simp only [putW, hyt, if_true, wakeHead, hi, hq, hdrop]
      have h1 : rest.head? ≠ some x.tid := fun h => hwrest (List.mem_of_mem_head? h)
      simp [h1, WQ, hGq, hwrest, hd]
    · have hb : (if sf = true then bwake x else x) = x := by
        cases sf with
        | false => rfl
        | true =>
          simp only [if_true]; apply bwake_of_ne; intro hpcx
          simp only [WQ, hpcx, hq, List.head?_cons, Option.some.injEq] at hx'
          exact hxt hx'.2.1.symm
      simp only [putW, hyt, hxt, if_false]
      subst hy
      simp only [hb, hi, hq, hdrop, List.drop_succ_cons, List.drop_zero]
      by_cases hxf : x.tid ∈ fs
      · have hf := H.follower hx (by simp) (by simp [hq, hxf])
          (by rw [hq]; simp; exact fun h => hxt h.symm)
        have h1 : rest.head? ≠ some x.tid := fun h => hdisj _ hxf _ (List.mem_of_mem_head? h) rfl
        have h2 : x.tid ∉ rest := fun h => hdisj _ hxf _ h rfl
        simp [hxf, wakeHead, h1, markF, hf.1, WQ, hGq, h2]
      · simp only [hxf, if_false]
        unfold WQ at hx' ⊢
        simp only [hq, hi, hGq, hGi, mapW_queue, mapW_inflight, List.mem_cons, List.mem_append, hxt, hxf, false_or,
          List.head?_cons, Option.some.injEq] at hx' ⊢
        simp only [wakeHead]
        have hm : rest.head? = some x.tid → x.tid ∈ rest := List.mem_of_mem_head?
        cases hpc : x.pc <;> simp [hpc, wake] at hx' ⊢ <;> grind

/-! ### steps that leave the queue and the writers' queue-relevant fields alone -/

theorem InvQ.of_globals {st st' : St} (H : InvQ st) (hw : st'.writers = st.writers) (hq : st'.queue = st.queue)
    (hi : st'.inflight = st.inflight) : InvQ st' := by
  refine ⟨by rw [hw]; exact H.wnodup, by rw [hq]; exact H.qnodup, ?_, by rw [hq, hi]; exact H.pfx, ?_⟩
  · intro t ht; rw [hq] at ht; rw [hw]; exact H.qmem t ht
  · intro w hw' _; rw [hw] at hw'; rw [WQ_congr hq hi]; exact H.wq' hw'

theorem InvQ.broadcast {st : St} (H : InvQ st) : InvQ (broadcastBg st) := by
  rw [broadcastBg_eq]
  exact (H.map_bwake (G := st) rfl rfl rfl).of_globals rfl rfl rfl

theorem InvQ.maybeSchedule {st : St} (H : InvQ st) : InvQ (maybeSchedule st) :=
  H.of_globals (by simp) (by simp) (by simp)

theorem step_InvQ {st st' : St} {l : Label} (H : InvQ st) (h : step st l = some st') : InvQ st' := by
  cases l with
  | wEnter t c =>
    obtain ⟨w, hg, hpc, _, h⟩ := step_wEnter h
    obtain ⟨hw, rfl⟩ := getW_some hg
    rcases h with ⟨hh, ho⟩ | ⟨hh, _, rfl⟩
    · obtain ⟨hq, hi, HX⟩ := H.enq_head hw hpc hh
      exact HX.headOutcome hw (by simpa [enq] using hh) (H.idle_facts hw hpc).1 (by simpa [enq] using hi) ho
    · exact H.enq_follower hw hpc hh
  | wWake t c =>
    obtain ⟨w, hg, hpc, h⟩ := step_wWake h
    obtain ⟨hw, rfl⟩ := getW_some hg
    rcases h with ⟨hd, _, rfl⟩ | ⟨hd, hh, ho⟩ | ⟨hd, hh, _, rfl⟩
    · exact H.wake_done hw hd _
    · exact (H.toX _).headOutcome hw hh hd (H.woken_head hw hpc hd).2 ho
    · exact absurd (H.woken_head hw hpc hd).1 hh
  | wCommit t sf =>
    obtain ⟨w, hg, hpc, _, rfl⟩ := step_wCommit h
    exact H.commit (getW_some hg).1 hpc sf
  | rCapture t =>
    obtain ⟨r, _, _, _, rfl⟩ := step_rCapture h
    exact H.of_globals rfl rfl rfl
  | rRead t =>
    obtain ⟨r, s, _, _, rfl⟩ := step_rRead h
    exact H.of_globals rfl rfl rfl
  | rRelease t seek =>
    obtain ⟨r, s, _, _, rfl⟩ := step_rRelease h
    cases seek
    · exact H.of_globals rfl rfl rfl
    · exact H.of_globals (by simp [setR]) (by simp [setR]) (by simp [setR])
  | bgStart =>
    obtain ⟨_, rfl⟩ := step_bgStart h
    exact H.of_globals rfl rfl rfl
  | bgMid fd bc er =>
    obtain ⟨_, _, _, _, rfl⟩ := step_bgMid h
    have H1 : InvQ { st with imm := if fd then false else st.imm, bgError := if er then true else st.bgError } :=
      H.of_globals rfl rfl rfl
    by_cases hb : (bc || er) = true
    · simp only [hb, if_true]; exact H1.broadcast
    · simp only [hb]; exact H1
  | bgFinish sn =>
    obtain ⟨_, rfl⟩ := step_bgFinish h
    exact (InvQ.maybeSchedule (st := { st with bgScheduled := false, bg := .parked, needsCompaction := sn })
      (H.of_globals rfl rfl rfl)).broadcast
  | close =>
    obtain ⟨_, _, _, rfl⟩ := step_close h
    exact H.of_globals rfl rfl rfl
  | closeWake =>
    obtain ⟨_, rfl⟩ := step_closeWake h
    exact H.of_globals rfl rfl rfl

end Lcdb.Conc
