/-
  Table safety, part A: monotonicity of the block iterator on ARBITRARY bytes.

  `BlockIter.Mono it`: a valid iterator's entry ends strictly after it starts
  (`current < next_entry_offset`).  Every state produced by an iterator operation has it, `next`
  moves `current` strictly forward, `prev` strictly backward.  These facts bound the skip loops of
  the two-level iterator (part B).
-/
import LcdbModel.Lemmas.BlockSafety
namespace Lcdb

/-- a valid iterator stands on an entry that ends after its start -/
def BlockIter.Mono (it : BlockIter) : Prop :=
  it.valid = true → ∃ e, it.nextEntryOffset = some e ∧ it.current < e

theorem BlockIter.mono_of_invalid {it : BlockIter} (h : it.valid = false) : it.Mono := by
  intro hv; rw [h] at hv; cases hv

theorem BlockIter.corruption_valid (it : BlockIter) : it.corruption.valid = false := by
  simp [BlockIter.valid, BlockIter.corruption]

theorem BlockIter.markInvalid_valid (it : BlockIter) : it.markInvalid.valid = false := by
  simp [BlockIter.valid, BlockIter.markInvalid]

/-! ### parse_next_key (no precondition) -/

theorem BlockIter.parseNextKey_mono (c : BlockCmp) (it : BlockIter) (b : Bool) (it' : BlockIter)
    (h : it.parseNextKey c = some (b, it')) :
    it'.Mono ∧ (b = false → it'.valid = false) ∧
      (b = true → it.nextEntryOffset = some it'.current) := by
  unfold BlockIter.parseNextKey at h
  split at h
  · cases h
  · rename_i cur hneo
    split at h
    · simp only [Option.some.injEq, Prod.mk.injEq] at h
      obtain ⟨rfl, rfl⟩ := h
      exact ⟨BlockIter.mono_of_invalid (BlockIter.markInvalid_valid it),
        fun _ => BlockIter.markInvalid_valid it, fun hh => by cases hh⟩
    · rename_i hcur
      have hcorr : ∀ b it', some (false, it.corruption) = some (b, it') →
          it'.Mono ∧ (b = false → it'.valid = false) ∧
          (b = true → it.nextEntryOffset = some it'.current) := by
        intro b it' h
        simp only [Option.some.injEq, Prod.mk.injEq] at h
        obtain ⟨rfl, rfl⟩ := h
        exact ⟨BlockIter.mono_of_invalid (BlockIter.corruption_valid it),
          fun _ => BlockIter.corruption_valid it, fun hh => by cases hh⟩
      split at h
      · cases h
      · exact hcorr _ _ h
      · rename_i shared nonShared valueLen kp hd
        obtain ⟨hkp, hend⟩ := decodeEntry_ok _ _ _ _ _ _ _ hd
        split at h
        · exact hcorr _ _ h
        · split at h
          · exact hcorr _ _ h
          · dsimp only at h
            split at h
            · cases h
            · rename_i ri hri
              simp only [Option.some.injEq, Prod.mk.injEq] at h
              obtain ⟨rfl, rfl⟩ := h
              refine ⟨?_, (fun hh => by cases hh), fun _ => hneo⟩
              intro _
              refine ⟨kp + nonShared + valueLen, rfl, ?_⟩
              show cur < kp + nonShared + valueLen
              omega

/-! ### the loops -/

theorem BlockIter.skipUntil_mono (c : BlockCmp) (bound : Nat) :
    ∀ fuel (it it' : BlockIter), BlockIter.skipUntil c bound fuel it = some it' →
      it'.Mono ∧ (∀ e, it.nextEntryOffset = some e → e < bound → it'.valid = true →
        it'.current < bound) := by
  intro fuel
  induction fuel with
  | zero => intro it it' h; cases h
  | succ fuel ih =>
    intro it it' h
    unfold BlockIter.skipUntil at h
    split at h
    · cases h
    · rename_i it1 hp
      cases h
      obtain ⟨m, hf, _⟩ := BlockIter.parseNextKey_mono c it false it' hp
      refine ⟨m, ?_⟩
      intro e _ _ hv
      rw [hf rfl] at hv; cases hv
    · rename_i it1 hp
      obtain ⟨m, _, ht⟩ := BlockIter.parseNextKey_mono c it true it1 hp
      have hcur := ht rfl
      split at h
      · cases h
      · rename_i neo hneo
        split at h
        · rename_i hlt
          obtain ⟨m', hb⟩ := ih it1 it' h
          exact ⟨m', fun e _ _ hv => hb neo hneo hlt hv⟩
        · cases h
          refine ⟨m, ?_⟩
          intro e he hlt _
          rw [he] at hcur
          simp only [Option.some.injEq] at hcur
          omega

theorem BlockIter.seekLinear_mono (c : BlockCmp) (target : Bytes) :
    ∀ fuel (it it' : BlockIter), BlockIter.seekLinear c target fuel it = some it' → it'.Mono := by
  intro fuel
  induction fuel with
  | zero => intro it it' h; cases h
  | succ fuel ih =>
    intro it it' h
    unfold BlockIter.seekLinear at h
    split at h
    · cases h
    · rename_i it1 hp
      cases h
      exact (BlockIter.parseNextKey_mono c it false it' hp).1
    · rename_i it1 hp
      have m := (BlockIter.parseNextKey_mono c it true it1 hp).1
      split at h
      · cases h
      · exact ih it1 it' h
      · cases h; exact m

theorem BlockIter.prevScan_lt (it : BlockIter) (orig : Nat) :
    ∀ fuel ri r, it.prevScan orig fuel ri = some (some r) →
      ∃ off, it.getRestartPoint r = some off ∧ off < orig := by
  intro fuel
  induction fuel with
  | zero => intro ri r h; cases h
  | succ fuel ih =>
    intro ri r h
    unfold BlockIter.prevScan at h
    split at h
    · cases h
    · rename_i off ho
      split at h
      · split at h
        · cases h
        · exact ih _ _ h
      · rename_i hlt
        simp only [Option.some.injEq] at h
        subst h
        exact ⟨off, ho, by omega⟩

theorem BlockIter.seekToRestartPoint_neo (it it1 : BlockIter) (idx : Nat)
    (h : it.seekToRestartPoint idx = some it1) :
    ∃ off, it.getRestartPoint idx = some off ∧ it1.nextEntryOffset = some off := by
  unfold BlockIter.seekToRestartPoint at h
  split at h
  · cases h
  · rename_i off ho
    cases h
    exact ⟨off, ho, rfl⟩

/-! ### the operations -/

theorem BlockIter.first_mono (c : BlockCmp) (it it' : BlockIter) (h : it.first c = some it') :
    it'.Mono := by
  unfold BlockIter.first at h
  split at h
  · cases h
  · rename_i it1 _
    cases hp : it1.parseNextKey c with
    | none => rw [hp] at h; cases h
    | some r =>
      obtain ⟨b, it2⟩ := r
      rw [hp] at h
      simp only [Option.map_some, Option.some.injEq] at h
      subst h
      exact (BlockIter.parseNextKey_mono c it1 b it2 hp).1

theorem BlockIter.next_mono (c : BlockCmp) (it it' : BlockIter) (h : it.next c = some it') :
    it'.Mono ∧ (it.Mono → it.valid = true → it'.valid = true → it.current < it'.current) := by
  unfold BlockIter.next at h
  cases hp : it.parseNextKey c with
  | none => rw [hp] at h; cases h
  | some r =>
    obtain ⟨b, it2⟩ := r
    rw [hp] at h
    simp only [Option.map_some, Option.some.injEq] at h
    subst h
    obtain ⟨m, hf, ht⟩ := BlockIter.parseNextKey_mono c it b it2 hp
    refine ⟨m, ?_⟩
    intro hm hv hv'
    cases b with
    | false => rw [hf rfl] at hv'; cases hv'
    | true =>
      obtain ⟨e, he, hlt⟩ := hm hv
      have := ht rfl
      rw [he] at this
      simp only [Option.some.injEq] at this
      omega

theorem BlockIter.last_mono (c : BlockCmp) (it it' : BlockIter) (h : it.last c = some it') :
    it'.Mono := by
  unfold BlockIter.last at h
  split at h
  · cases h
  · exact (BlockIter.skipUntil_mono c _ _ _ _ h).1

theorem BlockIter.prev_mono (c : BlockCmp) (it it' : BlockIter) (h : it.prev c = some it') :
    it'.Mono ∧ (it'.valid = true → it'.current < it.current) := by
  unfold BlockIter.prev at h
  dsimp only at h
  split at h
  · cases h
  · cases h
    exact ⟨BlockIter.mono_of_invalid (BlockIter.markInvalid_valid it),
      fun hv => by rw [BlockIter.markInvalid_valid] at hv; cases hv⟩
  · rename_i ri hps
    obtain ⟨off, ho, hlt⟩ := BlockIter.prevScan_lt it it.current _ _ _ hps
    split at h
    · cases h
    · rename_i it1 h1
      obtain ⟨off', ho', hneo⟩ := BlockIter.seekToRestartPoint_neo it it1 ri h1
      rw [ho] at ho'
      simp only [Option.some.injEq] at ho'
      subst ho'
      obtain ⟨m, hb⟩ := BlockIter.skipUntil_mono c _ _ _ _ h
      exact ⟨m, fun hv => hb off hneo hlt hv⟩

theorem BlockIter.seek_mono (c : BlockCmp) (t : Bytes) (it it' : BlockIter)
    (h : it.seek c t = some it') (hm : it.Mono) : it'.Mono := by
  unfold BlockIter.seek at h
  split at h
  · cases h
    exact BlockIter.mono_of_invalid (BlockIter.corruption_valid it)
  · dsimp only at h
    split at h
    · cases h
    · cases h; exact hm
    · split at h
      · cases h
      · cases h
        exact BlockIter.mono_of_invalid (BlockIter.corruption_valid it)
      · split at h
        · cases h
        · exact BlockIter.seekLinear_mono c t _ _ _ h

/-! ### the same facts for `TIter` -/

def TIter.Mono : TIter → Prop
  | .empty _ => True
  | .block it => it.Mono

/-- `restarts` of the underlying block iterator (the size of the data area) -/
def TIter.restarts : TIter → Nat
  | .empty _ => 0
  | .block it => it.restarts

/-- `current` of the underlying block iterator -/
def TIter.pos : TIter → Nat
  | .empty _ => 0
  | .block it => it.current

theorem TIter.pos_lt_restarts (t : TIter) (hv : t.valid = true) : t.pos < t.restarts := by
  cases t with
  | empty s => cases hv
  | block it => simpa [TIter.valid, BlockIter.valid, TIter.pos, TIter.restarts] using hv

/-- one step of a block iterator as the two-level iterator needs it: invariant, sticky corrupt
    status, same data area, `Mono` kept -/
def TIter.Step (c : BlockCmp) (t t' : TIter) : Prop :=
  TIter.Good c t t' ∧ t'.restarts = t.restarts ∧ (t.Mono → t'.Mono)

theorem TIter.Step.refl {c : BlockCmp} {t : TIter} (h : t.Inv c) : TIter.Step c t t :=
  ⟨TIter.Good.refl h, rfl, id⟩

theorem TIter.Step.trans {c : BlockCmp} {a b d : TIter} (h1 : TIter.Step c a b)
    (h2 : TIter.Step c b d) : TIter.Step c a d :=
  ⟨h1.1.trans h2.1, h2.2.1.trans h1.2.1, fun h => h2.2.2 (h1.2.2 h)⟩

theorem TIter.lift_step (c : BlockCmp) (f : BlockIter → Option BlockIter) (t : TIter)
    (hf : ∀ it, t = .block it → ∃ it', f it = some it' ∧ it.Same it' ∧ it'.Inv c)
    (hm : ∀ it it', t = .block it → f it = some it' → it.Mono → it'.Mono) :
    ∃ t', TIter.lift f t = some t' ∧ TIter.Step c t t' := by
  cases t with
  | empty s => exact ⟨.empty s, rfl, ⟨trivial, id⟩, rfl, id⟩
  | block it =>
    obtain ⟨it', h1, h2, h3⟩ := hf it rfl
    refine ⟨.block it', ?_, ⟨h3, h2.2.2.2⟩, h2.2.1, hm it it' rfl h1⟩
    simp only [TIter.lift, h1, Option.map_some]

theorem TIter.first_step (c : BlockCmp) (t : TIter) (h : t.Inv c) :
    ∃ t', TIter.first c t = some t' ∧ TIter.Step c t t' :=
  TIter.lift_step c (BlockIter.first c) t
    (fun it hit => by subst hit; exact BlockIter.first_ok c it h)
    (fun it it' _ hf _ => BlockIter.first_mono c it it' hf)

theorem TIter.last_step (c : BlockCmp) (t : TIter) (h : t.Inv c) :
    ∃ t', TIter.last c t = some t' ∧ TIter.Step c t t' :=
  TIter.lift_step c (BlockIter.last c) t
    (fun it hit => by subst hit; exact BlockIter.last_ok c it h)
    (fun it it' _ hf _ => BlockIter.last_mono c it it' hf)

theorem TIter.seek_step (c : BlockCmp) (tg : Bytes) (t : TIter) (h : t.Inv c) :
    ∃ t', TIter.seek c tg t = some t' ∧ TIter.Step c t t' ∧
      (t'.valid = true → c.internal = true → 8 ≤ tg.length) := by
  obtain ⟨t', h1, h2⟩ := TIter.lift_step c (BlockIter.seek c tg) t
    (fun it hit => by
      subst hit
      obtain ⟨it', g1, g2, g3, _⟩ := BlockIter.seek_ok c tg it h
      exact ⟨it', g1, g2, g3⟩)
    (fun it it' _ hf hm => BlockIter.seek_mono c tg it it' hf hm)
  obtain ⟨t'', g1, _, g3⟩ := TIter.seek_ok c tg t h
  have : t'' = t' := by
    have e : TIter.seek c tg t = TIter.lift (BlockIter.seek c tg) t := rfl
    rw [e, h1] at g1
    exact (Option.some.inj g1).symm
  subst this
  exact ⟨t'', h1, h2, g3⟩

theorem TIter.next_step (c : BlockCmp) (t : TIter) (h : t.Inv c) (hv : t.valid = true) :
    ∃ t', TIter.next c t = some t' ∧ TIter.Step c t t' ∧
      (t.Mono → t'.valid = true → t.pos < t'.pos) := by
  obtain ⟨t', h1, h2⟩ := TIter.lift_step c (BlockIter.next c) t
    (fun it hit => by subst hit; exact BlockIter.next_ok c it h hv)
    (fun it it' _ hf _ => (BlockIter.next_mono c it it' hf).1)
  refine ⟨t', h1, h2, ?_⟩
  cases t with
  | empty s => cases hv
  | block it =>
    cases hn : it.next c with
    | none => simp [TIter.lift, hn] at h1
    | some it' =>
      simp only [TIter.lift, hn, Option.map_some, Option.some.injEq] at h1
      subst h1
      intro hm hv'
      exact (BlockIter.next_mono c it it' hn).2 hm hv hv'

theorem TIter.prev_step (c : BlockCmp) (t : TIter) (h : t.Inv c) (hv : t.valid = true) :
    ∃ t', TIter.prev c t = some t' ∧ TIter.Step c t t' ∧
      (t'.valid = true → t'.pos < t.pos) := by
  obtain ⟨t', h1, h2⟩ := TIter.lift_step c (BlockIter.prev c) t
    (fun it hit => by subst hit; exact BlockIter.prev_ok c it h hv)
    (fun it it' _ hf _ => (BlockIter.prev_mono c it it' hf).1)
  refine ⟨t', h1, h2, ?_⟩
  cases t with
  | empty s => cases hv
  | block it =>
    cases hn : it.prev c with
    | none => simp [TIter.lift, hn] at h1
    | some it' =>
      simp only [TIter.lift, hn, Option.map_some, Option.some.injEq] at h1
      subst h1
      intro hv'
      exact (BlockIter.prev_mono c it it' hn).2 hv'

/-- `next` moves a (monotone) block iterator strictly forward -/
theorem TIter.next_current_lt (c : BlockCmp) (ti ti' : TIter) (h : ti.Inv c) (hm : ti.Mono)
    (hv : ti.valid = true) (hn : ti.next c = some ti') : ti'.valid = true → ti.pos < ti'.pos := by
  obtain ⟨t', h1, _, h3⟩ := TIter.next_step c ti h hv
  rw [hn] at h1
  cases h1
  exact h3 hm

/-- `prev` moves a block iterator strictly backward -/
theorem TIter.prev_current_lt (c : BlockCmp) (ti ti' : TIter) (h : ti.Inv c)
    (hv : ti.valid = true) (hn : ti.prev c = some ti') : ti'.valid = true → ti'.pos < ti.pos := by
  obtain ⟨t', h1, _, h3⟩ := TIter.prev_step c ti h hv
  rw [hn] at h1
  cases h1
  exact h3

/-- `Mono` is an invariant of every block-iterator operation -/
theorem blockIter_apply_mono (c : BlockCmp) (op : BlockOp) (it it' : TIter) (h : it.Inv c)
    (hm : it.Mono) (ha : (blockIterOps c).apply op it = some it') : it'.Mono := by
  have hseek : ∀ t s1, TIter.seek c t it = some s1 → s1.Inv c ∧ s1.Mono := by
    intro t s1 hs
    obtain ⟨t', h1, h2, _⟩ := TIter.seek_step c t it h
    rw [hs] at h1; cases h1
    exact ⟨h2.1.1, h2.2.2 hm⟩
  have hfirst : ∀ s s', s.Inv c → TIter.first c s = some s' → s'.Mono := by
    intro s s' hs he
    obtain ⟨t', h1, h2⟩ := TIter.first_step c s hs
    cases s with
    | empty st => cases he; trivial
    | block bi =>
      cases hb : bi.first c with
      | none => simp [TIter.first, TIter.lift, hb] at he
      | some bi' =>
        simp only [TIter.first, TIter.lift, hb, Option.map_some, Option.some.injEq] at he
        subst he
        exact BlockIter.first_mono c bi bi' hb
  have hlast : ∀ s s', TIter.last c s = some s' → s'.Mono := by
    intro s s' he
    cases s with
    | empty st => cases he; trivial
    | block bi =>
      cases hb : bi.last c with
      | none => simp [TIter.last, TIter.lift, hb] at he
      | some bi' =>
        simp only [TIter.last, TIter.lift, hb, Option.map_some, Option.some.injEq] at he
        subst he
        exact BlockIter.last_mono c bi bi' hb
  have hnext : ∀ s s', TIter.next c s = some s' → s'.Mono := by
    intro s s' he
    cases s with
    | empty st => cases he; trivial
    | block bi =>
      cases hb : bi.next c with
      | none => simp [TIter.next, TIter.lift, hb] at he
      | some bi' =>
        simp only [TIter.next, TIter.lift, hb, Option.map_some, Option.some.injEq] at he
        subst he
        exact (BlockIter.next_mono c bi bi' hb).1
  have hprev : ∀ s s', TIter.prev c s = some s' → s'.Mono := by
    intro s s' he
    cases s with
    | empty st => cases he; trivial
    | block bi =>
      cases hb : bi.prev c with
      | none => simp [TIter.prev, TIter.lift, hb] at he
      | some bi' =>
        simp only [TIter.prev, TIter.lift, hb, Option.map_some, Option.some.injEq] at he
        subst he
        exact (BlockIter.prev_mono c bi bi' hb).1
  cases op with
  | first => exact hfirst it it' h ha
  | last => exact hlast it it' ha
  | next =>
    dsimp only [IterOps.apply, blockIterOps] at ha
    split at ha
    · exact hnext it it' ha
    · cases ha; exact hm
  | prev =>
    dsimp only [IterOps.apply, blockIterOps] at ha
    split at ha
    · exact hprev it it' ha
    · cases ha; exact hm
  | seek t => exact (hseek t it' ha).2
  | seekGE t => exact (hseek t it' ha).2
  | seekGT t =>
    dsimp only [IterOps.apply, IterOps.seekGT, blockIterOps] at ha
    split at ha
    · cases ha
    · rename_i s1 hs
      split at ha
      · split at ha
        · cases ha
        · exact hnext s1 it' ha
        · cases ha; exact (hseek t _ hs).2
      · cases ha; exact (hseek t _ hs).2
  | seekLE t =>
    dsimp only [IterOps.apply, IterOps.seekLE, blockIterOps] at ha
    split at ha
    · cases ha
    · rename_i s1 hs
      split at ha
      · split at ha
        · cases ha
        · exact hprev s1 it' ha
        · cases ha; exact (hseek t _ hs).2
      · exact hlast s1 it' ha
  | seekLT t =>
    dsimp only [IterOps.apply, IterOps.seekLT, blockIterOps] at ha
    split at ha
    · cases ha
    · rename_i s1 hs
      split at ha
      · exact hprev s1 it' ha
      · exact hlast s1 it' ha

/-- the freshly created iterator: invalid (hence `Mono`), data area inside the block -/
theorem blockIterCreate_mono (data : Bytes) :
    (blockIterCreate data).Mono ∧ (blockIterCreate data).restarts ≤ data.length ∧
      (blockIterCreate data).valid = false := by
  unfold blockIterCreate
  split
  · exact ⟨trivial, Nat.zero_le _, rfl⟩
  · rename_i ro hro
    dsimp only
    split
    · exact ⟨trivial, Nat.zero_le _, rfl⟩
    · refine ⟨?_, ?_, ?_⟩
      · intro hv; simp [BlockIter.valid] at hv
      rotate_left
      · simp [TIter.valid, BlockIter.valid]
      unfold blockInit at hro
      split at hro
      · cases hro
      · dsimp only at hro
        split at hro
        · cases hro
        · simp only [Option.some.injEq] at hro
          show ro ≤ data.length
          omega

end Lcdb
