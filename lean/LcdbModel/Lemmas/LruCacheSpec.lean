/-
  The reference "forgetful map" of the LRU cache and the coherence invariant between a shard and it.
-/
import LcdbModel.Lemmas.LruCacheRun
namespace Lcdb.LruCache

/-- (key, value, charge) of an entry: fixed at insertion -/
def kvc (e : CEntry) : Bytes × Nat × Nat := (e.key, e.val, e.charge)

/-- the inserts of an op sequence, in order: the n-th one creates entry id n -/
def insertsOf (ops : List Op) : List (Bytes × Nat × Nat) :=
  ops.filterMap fun | .insert k v c => some (k, v, c) | _ => none

/-- reference map: number of inserts so far; per key the id of the most recent insert not followed by an erase -/
structure Spec where
  n : Nat
  m : Bytes → Option Nat

def Spec.init : Spec := ⟨0, fun _ => none⟩

def specStep (sp : Spec) : Op → Spec
  | .insert k _ _ => { n := sp.n + 1, m := fun k' => if k' = k then some sp.n else sp.m k' }
  | .erase k => { sp with m := fun k' => if k' = k then none else sp.m k' }
  | _ => sp

def specOf (ops : List Op) : Spec := ops.foldl specStep Spec.init

/-- the id of the latest insert of `k` that no `erase k` followed -/
def latest (ops : List Op) (k : Bytes) : Option Nat := (specOf ops).m k

theorem specOf_snoc (pre : List Op) (op : Op) : specOf (pre ++ [op]) = specStep (specOf pre) op := by
  simp [specOf, List.foldl_append]

theorem insertsOf_snoc (pre : List Op) (op : Op) : insertsOf (pre ++ [op]) = insertsOf pre ++ insertsOf [op] := by
  simp [insertsOf, List.filterMap_append]

theorem frame_kvc {s s' : Shard} (h : Frame s s') : s'.entries.map kvc = s.entries.map kvc := by
  apply List.ext_getElem?
  intro i
  simp only [List.getElem?_map]
  cases hi : s.entries[i]? with
  | some e => obtain ⟨e', h', k, v, c⟩ := h.kv i e hi; simp [h', kvc, k, v, c]
  | none =>
    have : s.entries.length ≤ i := by
      rcases Nat.lt_or_ge i s.entries.length with h1 | h1
      · simp [h1] at hi
      · exact h1
    rw [List.getElem?_eq_none (by rw [h.len]; exact this)]

theorem insert_kvc {s s' : Shard} {k : Bytes} {v c : Nat} (h : InsertSpec s s' k v c) :
    s'.entries.map kvc = s.entries.map kvc ++ [(k, v, c)] := by
  apply List.ext_getElem?
  intro i
  simp only [List.getElem?_map, getElem?_snoc, List.length_map]
  by_cases h1 : i < s.entries.length
  · have hi : s.entries[i]? = some s.entries[i] := by simp [h1]
    obtain ⟨e', h', k', v', c'⟩ := h.kvOld i _ hi
    simp [h1, h', kvc, k', v', c']
  · by_cases h2 : i = s.entries.length
    · subst h2
      obtain ⟨e', h', k', v', c'⟩ := h.kvNew
      simp [h', kvc, k', v', c']
    · simp only [h1, h2, if_false]
      rw [List.getElem?_eq_none (by rw [h.len]; omega)]; rfl

/-- coherence between a shard and the reference map -/
structure Coh (s : Shard) (sp : Spec) : Prop where
  len : s.entries.length = sp.n
  /-- the cache is a partial, forgetful image of the reference map -/
  tab : ∀ k, s.table k = none ∨ s.table k = sp.m k
  /-- capacity 0 caches nothing -/
  capZero : s.capacity = 0 → ∀ k, s.table k = none

theorem coh_step (s s' : Shard) (op : Op) (o : Out) (sp : Spec) (h : StepSpec s op s' o) (hc : Coh s sp) :
    Coh s' (specStep sp op) := by
  cases op with
  | insert k v c =>
    obtain ⟨_, is⟩ := h
    refine ⟨by rw [is.len, hc.len]; rfl, ?_, ?_⟩
    · intro k'
      simp only [specStep]
      rcases is.table k' with h1 | h1
      · rw [h1]
        by_cases hcap : 0 < s.capacity
        · by_cases hk : k' = k
          · right; simp [hcap, hk, hc.len]
          · simp only [hcap, hk, and_false, if_false]; exact hc.tab k'
        · left; simp only [hcap, false_and, if_false]; exact hc.capZero (by omega) k'
      · left; exact h1
    · intro h0 k'
      rw [is.cap] at h0
      rcases is.table k' with h1 | h1
      · rw [h1]; simp [h0]; exact hc.capZero h0 k'
      · exact h1
  | lookup k =>
    obtain ⟨_, ls⟩ := h
    exact ⟨by rw [ls.frame.len]; exact hc.len, by rw [ls.table]; exact hc.tab,
      by rw [ls.table, ls.frame.cap]; exact hc.capZero⟩
  | release id =>
    obtain ⟨_, rs⟩ := h
    exact ⟨by rw [rs.frame.len]; exact hc.len, by rw [rs.table]; exact hc.tab,
      by rw [rs.table, rs.frame.cap]; exact hc.capZero⟩
  | erase k =>
    obtain ⟨_, es⟩ := h
    refine ⟨by rw [es.frame.len]; exact hc.len, ?_, ?_⟩
    · intro k'; rw [es.table]; simp only [tableSet, specStep]
      split
      · left; rfl
      · exact hc.tab k'
    · intro h0 k'; rw [es.table]; simp only [tableSet]
      split
      · rfl
      · exact hc.capZero (by rw [← es.frame.cap]; exact h0) k'
  | prune =>
    obtain ⟨_, ls, _⟩ := h
    refine ⟨by rw [ls.frame.len]; exact hc.len, ?_, ?_⟩
    · intro k'
      rcases ls.table k' with h1 | h1
      · rw [h1]; exact hc.tab k'
      · left; exact h1
    · intro h0 k'
      rcases ls.table k' with h1 | h1
      · rw [h1]; exact hc.capZero (by rw [← ls.frame.cap]; exact h0) k'
      · exact h1
  | total =>
    obtain ⟨_, rfl⟩ := h
    exact hc

theorem kvc_step (s s' : Shard) (op : Op) (o : Out) (h : StepSpec s op s' o) :
    s'.entries.map kvc = s.entries.map kvc ++ insertsOf [op] := by
  cases op with
  | insert k v c => obtain ⟨_, is⟩ := h; simpa [insertsOf] using insert_kvc is
  | lookup k => obtain ⟨_, ls⟩ := h; simpa [insertsOf] using frame_kvc ls.frame
  | release id => obtain ⟨_, rs⟩ := h; simpa [insertsOf] using frame_kvc rs.frame
  | erase k => obtain ⟨_, es⟩ := h; simpa [insertsOf] using frame_kvc es.frame
  | prune => obtain ⟨_, ls, _⟩ := h; simpa [insertsOf] using frame_kvc ls.frame
  | total => obtain ⟨_, rfl⟩ := h; simp [insertsOf]

/-- characterisation of the reference map from an arbitrary starting point -/
theorem spec_fold_char (ops : List Op) (sp : Spec) (k : Bytes) (id : Nat)
    (h : (ops.foldl specStep sp).m k = some id) :
    (sp.m k = some id ∧ ∀ op ∈ ops, op ≠ .erase k ∧ ∀ v c, op ≠ .insert k v c) ∨
    ∃ pre post v c, ops = pre ++ .insert k v c :: post ∧ id = sp.n + (insertsOf pre).length ∧
      ∀ op ∈ post, op ≠ .erase k ∧ ∀ v c, op ≠ .insert k v c := by
  induction ops generalizing sp with
  | nil => left; exact ⟨h, by simp⟩
  | cons op rest ih =>
    simp only [List.foldl_cons] at h
    rcases ih (specStep sp op) h with ⟨h1, h2⟩ | ⟨pre, post, v, c, he, hid, hp⟩
    · cases op with
      | insert k' v' c' =>
        simp only [specStep] at h1
        by_cases hk : k = k'
        · subst hk; simp at h1
          right; exact ⟨[], rest, v', c', rfl, by simp [insertsOf, h1], h2⟩
        · simp [hk] at h1
          left; refine ⟨h1, ?_⟩
          intro op hop; simp at hop
          rcases hop with rfl | hop
          · exact ⟨by simp, by intro v c h; cases h; exact hk rfl⟩
          · exact h2 op hop
      | erase k' =>
        simp only [specStep] at h1
        by_cases hk : k = k'
        · subst hk; simp at h1
        · simp [hk] at h1
          left; refine ⟨h1, ?_⟩
          intro op hop; simp at hop
          rcases hop with rfl | hop
          · exact ⟨by intro h; cases h; exact hk rfl, by simp⟩
          · exact h2 op hop
      | lookup k' =>
        left; refine ⟨h1, ?_⟩
        intro op hop; simp at hop
        rcases hop with rfl | hop
        · simp
        · exact h2 op hop
      | release id' =>
        left; refine ⟨h1, ?_⟩
        intro op hop; simp at hop
        rcases hop with rfl | hop
        · simp
        · exact h2 op hop
      | prune =>
        left; refine ⟨h1, ?_⟩
        intro op hop; simp at hop
        rcases hop with rfl | hop
        · simp
        · exact h2 op hop
      | total =>
        left; refine ⟨h1, ?_⟩
        intro op hop; simp at hop
        rcases hop with rfl | hop
        · simp
        · exact h2 op hop
    · right
      refine ⟨op :: pre, post, v, c, by simp [he], ?_, hp⟩
      rw [hid]
      cases op <;> simp [specStep, insertsOf] <;> omega

end Lcdb.LruCache
