/-
  `lru_shard_insert` preserves the shard invariant; its frame (`InsertSpec`).
-/
import LcdbModel.Lemmas.LruCacheOps
namespace Lcdb.LruCache

/-- capacity 0: the entry is allocated for the returned handle only -/
def allocOnly (s : Shard) (key : Bytes) (val charge : Nat) : Shard :=
  { s with held := s.held ++ [s.entries.length],
           entries := s.entries ++ [{ key := key, val := val, charge := charge, refs := 1, inCache := false }] }

/-- capacity > 0: allocated, appended to `in_use`, charged, put into the table (before `finish` of the old entry) -/
def linked (s : Shard) (key : Bytes) (val charge : Nat) : Shard :=
  { s with held := s.held ++ [s.entries.length],
           entries := s.entries ++ [{ key := key, val := val, charge := charge, refs := 2, inCache := true }],
           inUse := s.inUse ++ [s.entries.length], usage := s.usage + charge,
           table := tableSet s.table key (some s.entries.length) }

theorem count_fresh (s : Shard) (hi : Inv s) : s.held.count s.entries.length = 0 := by
  rw [List.count_eq_zero]; intro h; exact Nat.lt_irrefl _ (hi.heldB _ h)

theorem allocOnly_inv (s : Shard) (key : Bytes) (val charge : Nat) (hi : Inv s) : Inv (allocOnly s key val charge) := by
  have hc := count_fresh s hi
  constructor <;> dsimp only [allocOnly]
  · intro j e1 h1
    simp only [getElem?_snoc] at h1
    simp only [List.count_append, List.count_singleton]
    split at h1
    · have := hi.refs j e1 h1; rename_i h; have : ¬ (s.entries.length = j) := by omega
      simp [this]; omega
    · split at h1
      · cases h1; rename_i h; subst h; simp [hc]
      · cases h1
  · intro j; simp only [getElem?_snoc, hi.lruIff j]; grind
  · intro j; simp only [getElem?_snoc, hi.useIff j]; grind
  · intro j; simp only [getElem?_snoc, hi.delIff j]; grind
  · intro j hj; simp only [List.mem_append, List.mem_singleton, List.length_append, List.length_singleton] at hj ⊢
    rcases hj with h | h
    · have := hi.heldB j h; omega
    · omega
  · intro j e1 h1 _ hc1
    simp only [getElem?_snoc] at h1
    split at h1
    · exact hi.tab j e1 h1 (by simp) hc1
    · split at h1
      · cases h1; simp at hc1
      · cases h1
  · intro k j hk
    obtain ⟨e1, h1, h2, h3⟩ := hi.tabIn k j hk
    exact ⟨e1, by rw [getElem?_snoc, if_pos (lt_of_getElem? h1)]; exact h1, h2, h3⟩
  · rw [sumCharge_append]; simp [sumCharge, wt]; exact hi.usage
  · exact hi.ndLru
  · exact hi.ndUse
  · exact hi.ndDel

theorem linked_inv (s : Shard) (key : Bytes) (val charge : Nat) (hi : Inv s) :
    InvX (linked s key val charge) (s.table key) ∧
    ∀ x, s.table key = some x → ∀ k, (linked s key val charge).table k ≠ some x := by
  have hc := count_fresh s hi
  have hnu : s.entries.length ∉ s.inUse := by
    intro h; obtain ⟨e, hx, _⟩ := (hi.useIff _).1 h; exact Nat.lt_irrefl _ (lt_of_getElem? hx)
  refine ⟨?_, ?_⟩
  · constructor <;> dsimp only [linked]
    · intro j e1 h1
      simp only [getElem?_snoc] at h1
      simp only [List.count_append, List.count_singleton]
      split at h1
      · have := hi.refs j e1 h1; rename_i h; have : ¬ (s.entries.length = j) := by omega
        simp [this]; omega
      · split at h1
        · cases h1; rename_i h; subst h; simp [hc]
        · cases h1
    · intro j; simp only [getElem?_snoc, hi.lruIff j]; grind
    · intro j
      simp only [List.mem_append, List.mem_singleton, getElem?_snoc, hi.useIff j]
      by_cases h1 : j < s.entries.length
      · have : j ≠ s.entries.length := by omega
        simp [h1, this]
      · by_cases h2 : j = s.entries.length
        · subst h2; simp
        · simp [h1, h2]
    · intro j; simp only [getElem?_snoc, hi.delIff j]; grind
    · intro j hj; simp only [List.mem_append, List.mem_singleton, List.length_append, List.length_singleton] at hj ⊢
      rcases hj with h | h
      · have := hi.heldB j h; omega
      · omega
    · intro j e1 h1 hne hc1
      simp only [getElem?_snoc] at h1
      simp only [tableSet]
      split at h1
      · have := hi.tab j e1 h1 (by simp) hc1
        split
        · rename_i h; rw [h] at this; exact absurd this hne
        · exact this
      · split at h1
        · cases h1; rename_i h; simp [h]
        · cases h1
    · intro k j hk
      simp only [tableSet] at hk
      split at hk
      · cases hk; rename_i h; exact ⟨{ key := key, val := val, charge := charge, refs := 2, inCache := true }, by simp [getElem?_snoc], rfl, h.symm⟩
      · obtain ⟨e1, h1, h2, h3⟩ := hi.tabIn k j hk
        exact ⟨e1, by rw [getElem?_snoc, if_pos (lt_of_getElem? h1)]; exact h1, h2, h3⟩
    · rw [sumCharge_append]; simp [sumCharge, wt]; have := hi.usage; omega
    · exact hi.ndLru
    · rw [List.nodup_append]; refine ⟨hi.ndUse, by simp, ?_⟩
      intro a ha b hb; simp at hb; subst hb; intro h; subst h; exact hnu ha
    · exact hi.ndDel
  · intro x hx k hk
    simp only [linked, tableSet] at hk
    obtain ⟨e, hxe, _, hkey⟩ := hi.tabIn key x hx
    split at hk
    · cases hk; exact Nat.lt_irrefl _ (lt_of_getElem? hxe)
    · rename_i hne
      obtain ⟨e', hxe', _, hkey'⟩ := hi.tabIn k x hk
      rw [hxe] at hxe'; cases hxe'; exact hne (hkey'.symm.trans hkey)


/-- `lru` after the old entry of the key (if any) has been `finish`ed, before the eviction loop -/
def insMid (s : Shard) (key : Bytes) : List Nat :=
  if 0 < s.capacity then (match s.table key with | some x => s.lru.filter (· != x) | none => s.lru) else s.lru

/-- deleter call caused by replacing the old entry of the key (only if no client holds it) -/
def insOld (s : Shard) (key : Bytes) : List Nat :=
  if 0 < s.capacity then (match s.table key with
    | some x => if s.held.count x = 0 then [x] else [] | none => []) else []

structure InsertSpec (s s' : Shard) (key : Bytes) (val charge : Nat) : Prop where
  cap : s'.capacity = s.capacity
  len : s'.entries.length = s.entries.length + 1
  kvOld : ∀ (j : Nat) (e : CEntry), s.entries[j]? = some e →
    ∃ e' : CEntry, s'.entries[j]? = some e' ∧ e'.key = e.key ∧ e'.val = e.val ∧ e'.charge = e.charge
  kvNew : ∃ e' : CEntry, s'.entries[s.entries.length]? = some e' ∧ e'.key = key ∧ e'.val = val ∧ e'.charge = charge
  held : s'.held = s.held ++ [s.entries.length]
  table : ∀ k, s'.table k = (if 0 < s.capacity ∧ k = key then some s.entries.length else s.table k) ∨ s'.table k = none
  /-- the eviction loop ran to its exit condition -/
  respected : s'.usage ≤ s'.capacity ∨ s'.lru = []
  /-- the evicted entries are a prefix (oldest first) of the LRU list, deleted in that order -/
  order : ∃ n, n ≤ (insMid s key).length ∧ s'.lru = (insMid s key).drop n ∧
    s'.deleted = s.deleted ++ insOld s key ++ (insMid s key).take n

/-- intermediate state: the new entry is in, `lru`/`deleted` as described -/
structure MidSpec (s s1 : Shard) (key : Bytes) (val charge : Nat) : Prop where
  cap : s1.capacity = s.capacity
  len : s1.entries.length = s.entries.length + 1
  kvOld : ∀ (j : Nat) (e : CEntry), s.entries[j]? = some e →
    ∃ e' : CEntry, s1.entries[j]? = some e' ∧ e'.key = e.key ∧ e'.val = e.val ∧ e'.charge = e.charge
  kvNew : ∃ e' : CEntry, s1.entries[s.entries.length]? = some e' ∧ e'.key = key ∧ e'.val = val ∧ e'.charge = charge
  held : s1.held = s.held ++ [s.entries.length]
  table : s1.table = fun k => if 0 < s.capacity ∧ k = key then some s.entries.length else s.table k
  lru : s1.lru = insMid s key
  deleted : s1.deleted = s.deleted ++ insOld s key

theorem insert_mid (s : Shard) (key : Bytes) (val charge : Nat) (hi : Inv s) :
    ∃ s1, insert s key val charge = ((evictLoop s1.lru.length s1).map fun s2 => (s2, s.entries.length)) ∧
      Inv s1 ∧ MidSpec s s1 key val charge := by
  by_cases hcap : 0 < s.capacity
  · have hcap' : s.capacity > 0 := hcap
    obtain ⟨hlx, hnt⟩ := linked_inv s key val charge hi
    cases hk : s.table key with
    | none =>
      rw [hk] at hlx
      refine ⟨linked s key val charge, ?_, hlx, ?_⟩
      · simp [insert, hcap', hk, finish, linked]
      · refine ⟨rfl, by simp [linked], ?_, ?_, rfl, ?_, by simp [linked, insMid, hcap, hk], by simp [linked, insOld, hcap, hk]⟩
        · intro j e h; exact ⟨e, by simp only [linked]; rw [getElem?_snoc, if_pos (lt_of_getElem? h)]; exact h, rfl, rfl, rfl⟩
        · exact ⟨{ key := key, val := val, charge := charge, refs := 2, inCache := true }, by simp [linked, getElem?_snoc], rfl, rfl, rfl⟩
        · funext k; simp only [linked, tableSet, hcap, true_and]
    | some x =>
      rw [hk] at hlx
      obtain ⟨e, hx, hc, hkey⟩ := hi.tabIn key x hk
      have hx' : (linked s key val charge).entries[x]? = some e := by
        simp only [linked]; rw [getElem?_snoc, if_pos (lt_of_getElem? hx)]; exact hx
      obtain ⟨he, hinv, sp⟩ := finish_inv (linked s key val charge) x e hlx hx' hc (hnt x hk)
      have hxne : x ≠ s.entries.length := Nat.ne_of_lt (lt_of_getElem? hx)
      have hcnt : (linked s key val charge).held.count x = s.held.count x := by
        simp [linked, List.count_append, List.count_singleton, Ne.symm hxne]
      refine ⟨finished (linked s key val charge) x e, ?_, hinv, ?_⟩
      · have : insert s key val charge =
            (finish (linked s key val charge) (some x)).bind fun s1 => (evictLoop s1.lru.length s1).map fun s2 => (s2, s.entries.length) := by
          simp [insert, hcap', hk, linked]
        rw [this, he]; rfl
      · refine ⟨sp.frame.cap, by rw [sp.frame.len]; simp [linked], ?_, ?_, sp.held, ?_, ?_, ?_⟩
        · intro j e1 h1
          have : (linked s key val charge).entries[j]? = some e1 := by
            simp only [linked]; rw [getElem?_snoc, if_pos (lt_of_getElem? h1)]; exact h1
          exact sp.frame.kv j e1 this
        · have : (linked s key val charge).entries[s.entries.length]? =
              some { key := key, val := val, charge := charge, refs := 2, inCache := true } := by
            simp [linked, getElem?_snoc]
          exact sp.frame.kv _ _ this
        · rw [sp.table]; funext k; simp only [linked, tableSet, hcap, true_and]
        · rw [sp.lru]; simp [linked, insMid, hcap, hk]
        · rw [sp.deleted, hcnt]; simp [linked, insOld, hcap, hk]
  · have hcap0 : ¬ (s.capacity > 0) := hcap
    refine ⟨allocOnly s key val charge, ?_, allocOnly_inv s key val charge hi, ?_⟩
    · simp [insert, hcap0, allocOnly]
    · refine ⟨rfl, by simp [allocOnly], ?_, ?_, rfl, ?_, by simp [allocOnly, insMid, hcap], by simp [allocOnly, insOld, hcap]⟩
      · intro j e h; exact ⟨e, by simp only [allocOnly]; rw [getElem?_snoc, if_pos (lt_of_getElem? h)]; exact h, rfl, rfl, rfl⟩
      · exact ⟨{ key := key, val := val, charge := charge, refs := 1, inCache := false }, by simp [allocOnly, getElem?_snoc], rfl, rfl, rfl⟩
      · funext k; simp [allocOnly, hcap]

theorem insert_inv (s : Shard) (key : Bytes) (val charge : Nat) (hi : Inv s) :
    ∃ s', insert s key val charge = some (s', s.entries.length) ∧ Inv s' ∧ InsertSpec s s' key val charge := by
  obtain ⟨s1, heq, hi1, ms⟩ := insert_mid s key val charge hi
  obtain ⟨s2, he2, hi2, ls, hresp⟩ := evictLoop_inv s1.lru.length s1 hi1 (Nat.le_refl _)
  refine ⟨s2, by rw [heq, he2]; rfl, hi2, ?_⟩
  obtain ⟨n, hn, hl, hd⟩ := ls.pre
  refine ⟨ls.frame.cap.trans ms.cap, ls.frame.len.trans ms.len, ?_, ?_, ls.held.trans ms.held, ?_, hresp,
    ⟨n, by rw [← ms.lru]; exact hn, by rw [hl, ms.lru], by rw [hd, ms.deleted, ms.lru]⟩⟩
  · intro j e h
    obtain ⟨e1, h1, k1, v1, c1⟩ := ms.kvOld j e h
    obtain ⟨e2, h2, k2, v2, c2⟩ := ls.frame.kv j e1 h1
    exact ⟨e2, h2, k2.trans k1, v2.trans v1, c2.trans c1⟩
  · obtain ⟨e1, h1, k1, v1, c1⟩ := ms.kvNew
    obtain ⟨e2, h2, k2, v2, c2⟩ := ls.frame.kv _ e1 h1
    exact ⟨e2, h2, k2.trans k1, v2.trans v1, c2.trans c1⟩
  · intro k
    rcases ls.table k with h | h
    · left; rw [h, ms.table]
    · right; exact h

end Lcdb.LruCache
