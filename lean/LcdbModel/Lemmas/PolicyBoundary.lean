/-
  get_range / find_largest_key / find_smallest_boundary_file / add_boundary_inputs
  (version_set.c:1784-1936): extremal keys, the boundary-file search, termination of the
  `while (search)` loop with the stated fuel, and the closure it establishes.
-/
import LcdbModel.Lemmas.PolicyDefs
namespace Lcdb.Policy
open Lcdb.CmpBasic Lcdb.Lsm

/-! ### the internal-key order on pairs -/

theorem ikl_irrefl (c : Cmp) (a : IKey) : ikl c a a = false := ikLt_irrefl c _ _

theorem ikl_trans {c : Cmp} {a b d : IKey} (h1 : ikl c a b = true) (h2 : ikl c b d = true) : ikl c a d = true :=
  ikLt_trans c h1 h2

theorem ikl_asymm {c : Cmp} {a b : IKey} (h : ikl c a b = true) : ikl c b a = false := ikLt_asymm c h

/-- `a ≤ b`, `b < d` -/
theorem ikl_of_le_of_lt {c : Cmp} {a b d : IKey} (h1 : ikl c b a = false) (h2 : ikl c b d = true) : ikl c a d = true :=
  ikLt_of_not_lt_of_lt c h1 h2

/-- `a < b`, `b ≤ d` -/
theorem ikl_of_lt_of_le {c : Cmp} {a b d : IKey} (h1 : ikl c a b = true) (h2 : ikl c d b = false) : ikl c a d = true :=
  ikLt_of_lt_of_not_lt c h1 h2

/-- `a ≤ b`, `b ≤ d` give `a ≤ d` (`x ≤ y` is written `ikl c y x = false`) -/
theorem ikle_trans {c : Cmp} {a b d : IKey} (h1 : ikl c b a = false) (h2 : ikl c d b = false) : ikl c d a = false := by
  cases h : ikl c d a with
  | false => rfl
  | true => have := ikl_of_lt_of_le h h1; rw [h2] at this; cases this

theorem ikl_trichotomy (c : Cmp) (a b : IKey) : ikl c a b = true ∨ a = b ∨ ikl c b a = true := by
  rcases ikLt_trichotomy c a.1 a.2 b.1 b.2 with h | ⟨h1, h2⟩ | h
  · exact .inl h
  · exact .inr (.inl (Prod.ext h1 h2))
  · exact .inr (.inr h)

theorem ikle_antisymm {c : Cmp} {a b : IKey} (h1 : ikl c a b = false) (h2 : ikl c b a = false) : a = b := by
  rcases ikl_trichotomy c a b with h | h | h
  · rw [h1] at h; cases h
  · exact h
  · rw [h2] at h; cases h

/-! ### maxFold / minFold -/

theorem maxFold_cons (c : Cmp) (init : IKey) (g : FileMeta) (fs : List FileMeta) :
    maxFold c init (g :: fs) = maxFold c (if ikl c init (largest g) then largest g else init) fs := rfl

theorem minFold_cons (c : Cmp) (init : IKey) (g : FileMeta) (fs : List FileMeta) :
    minFold c init (g :: fs) = minFold c (if ikl c (smallest g) init then smallest g else init) fs := rfl

theorem maxFold_ge_init (c : Cmp) (fs : List FileMeta) (init : IKey) : ikl c (maxFold c init fs) init = false := by
  induction fs generalizing init with
  | nil => exact ikl_irrefl c init
  | cons g fs ih =>
    rw [maxFold_cons]
    split
    · rename_i h
      exact ikle_trans (ikl_asymm h) (ih _)
    · exact ih _

theorem maxFold_ge_mem (c : Cmp) (fs : List FileMeta) (init : IKey) :
    ∀ g ∈ fs, ikl c (maxFold c init fs) (largest g) = false := by
  induction fs generalizing init with
  | nil => intro g hg; cases hg
  | cons x fs ih =>
    intro g hg
    rw [maxFold_cons]
    rcases List.mem_cons.mp hg with rfl | hg
    · refine ikle_trans ?_ (maxFold_ge_init c fs _)
      split
      · exact ikl_irrefl c _
      · rename_i h; simpa using h
    · exact ih _ g hg

theorem maxFold_mem (c : Cmp) (fs : List FileMeta) (init : IKey) :
    maxFold c init fs = init ∨ ∃ g ∈ fs, maxFold c init fs = largest g := by
  induction fs generalizing init with
  | nil => exact .inl rfl
  | cons x fs ih =>
    rw [maxFold_cons]
    rcases ih (if ikl c init (largest x) then largest x else init) with h | ⟨g, hg, h⟩
    · split at h
      · rename_i hc; rw [if_pos hc]; exact .inr ⟨x, List.mem_cons_self, h⟩
      · rename_i hc; rw [if_neg hc]; exact .inl h
    · exact .inr ⟨g, List.mem_cons_of_mem _ hg, h⟩

theorem minFold_le_init (c : Cmp) (fs : List FileMeta) (init : IKey) : ikl c init (minFold c init fs) = false := by
  induction fs generalizing init with
  | nil => exact ikl_irrefl c init
  | cons g fs ih =>
    rw [minFold_cons]
    split
    · rename_i h
      exact ikle_trans (ih _) (ikl_asymm h)
    · exact ih _

theorem minFold_le_mem (c : Cmp) (fs : List FileMeta) (init : IKey) :
    ∀ g ∈ fs, ikl c (smallest g) (minFold c init fs) = false := by
  induction fs generalizing init with
  | nil => intro g hg; cases hg
  | cons x fs ih =>
    intro g hg
    rw [minFold_cons]
    rcases List.mem_cons.mp hg with rfl | hg
    · refine ikle_trans (minFold_le_init c fs _) ?_
      split
      · exact ikl_irrefl c _
      · rename_i h; simpa using h
    · exact ih _ g hg

theorem minFold_mem (c : Cmp) (fs : List FileMeta) (init : IKey) :
    minFold c init fs = init ∨ ∃ g ∈ fs, minFold c init fs = smallest g := by
  induction fs generalizing init with
  | nil => exact .inl rfl
  | cons x fs ih =>
    rw [minFold_cons]
    rcases ih (if ikl c (smallest x) init then smallest x else init) with h | ⟨g, hg, h⟩
    · split at h
      · rename_i hc; rw [if_pos hc]; exact .inr ⟨x, List.mem_cons_self, h⟩
      · rename_i hc; rw [if_neg hc]; exact .inl h
    · exact .inr ⟨g, List.mem_cons_of_mem _ hg, h⟩

/-! ### get_range / find_largest_key -/

/-- `l` is the greatest `largest` key of `fs` -/
def IsMaxLargest (c : Cmp) (fs : List FileMeta) (l : IKey) : Prop :=
  (∃ f ∈ fs, largest f = l) ∧ ∀ f ∈ fs, ikl c l (largest f) = false

/-- `s` is the least `smallest` key of `fs` -/
def IsMinSmallest (c : Cmp) (fs : List FileMeta) (s : IKey) : Prop :=
  (∃ f ∈ fs, smallest f = s) ∧ ∀ f ∈ fs, ikl c (smallest f) s = false

theorem IsMaxLargest.unique {c : Cmp} {fs : List FileMeta} {l l' : IKey} (h : IsMaxLargest c fs l)
    (h' : IsMaxLargest c fs l') : l = l' := by
  obtain ⟨⟨f, hf, rfl⟩, hu⟩ := h
  obtain ⟨⟨f', hf', rfl⟩, hu'⟩ := h'
  exact ikle_antisymm (hu f' hf') (hu' f hf)

theorem findLargestKey_isMax {c : Cmp} {fs : List FileMeta} {l : IKey} (h : findLargestKey c fs = some l) :
    IsMaxLargest c fs l := by
  cases fs with
  | nil => cases h
  | cons f fs =>
    simp only [findLargestKey, Option.some.injEq] at h
    subst h
    refine ⟨?_, ?_⟩
    · rcases maxFold_mem c fs (largest f) with h | ⟨g, hg, h⟩
      · exact ⟨f, List.mem_cons_self, h.symm⟩
      · exact ⟨g, List.mem_cons_of_mem _ hg, h.symm⟩
    · intro g hg
      rcases List.mem_cons.mp hg with rfl | hg
      · exact maxFold_ge_init c fs _
      · exact maxFold_ge_mem c fs _ g hg

theorem findLargestKey_eq_none {c : Cmp} {fs : List FileMeta} : findLargestKey c fs = none ↔ fs = [] := by
  cases fs <;> simp [findLargestKey]

theorem findLargestKey_of_isMax {c : Cmp} {fs : List FileMeta} {l : IKey} (h : IsMaxLargest c fs l) :
    findLargestKey c fs = some l := by
  cases hk : findLargestKey c fs with
  | none =>
    rw [findLargestKey_eq_none] at hk
    obtain ⟨⟨f, hf, _⟩, _⟩ := h
    rw [hk] at hf; cases hf
  | some l' => rw [(findLargestKey_isMax hk).unique h]

theorem getRange_eq_none {c : Cmp} {fs : List FileMeta} : getRange c fs = none ↔ fs = [] := by
  cases fs <;> simp [getRange]

theorem getRange_spec {c : Cmp} {fs : List FileMeta} {r : IKey × IKey} (h : getRange c fs = some r) :
    IsMinSmallest c fs r.1 ∧ IsMaxLargest c fs r.2 := by
  cases fs with
  | nil => cases h
  | cons f fs =>
    simp only [getRange, Option.some.injEq] at h
    subst h
    refine ⟨⟨?_, ?_⟩, findLargestKey_isMax (fs := f :: fs) rfl⟩
    · rcases minFold_mem c fs (smallest f) with h | ⟨g, hg, h⟩
      · exact ⟨f, List.mem_cons_self, h.symm⟩
      · exact ⟨g, List.mem_cons_of_mem _ hg, h.symm⟩
    · intro g hg
      rcases List.mem_cons.mp hg with rfl | hg
      · exact minFold_le_init c fs _
      · exact minFold_le_mem c fs _ g hg

theorem getRange_largest_eq {c : Cmp} {fs : List FileMeta} {r : IKey × IKey} (h : getRange c fs = some r) :
    findLargestKey c fs = some r.2 := findLargestKey_of_isMax (getRange_spec h).2

/-! ### find_smallest_boundary_file -/

/-- `f` is a boundary candidate for the key `l`: `f.smallest > l` with the same user key -/
def isCand (c : Cmp) (l : IKey) (f : FileMeta) : Bool :=
  ikl c l (smallest f) && (c.compare f.sk l.1 == .eq)

theorem boundaryStep_eq (c : Cmp) (l : IKey) (res : Option FileMeta) (f : FileMeta) :
    boundaryStep c l res f =
      if isCand c l f then
        (match res with
         | none => some f
         | some r => if ikl c (smallest f) (smallest r) then some f else some r)
      else res := by
  unfold boundaryStep isCand
  cases h1 : ikl c l (smallest f) <;> cases h2 : (c.compare f.sk l.1 == .eq) <;> simp <;> (cases res <;> rfl)

theorem fsbf_foldl_none (c : Cmp) (l : IKey) (files : List FileMeta) (res : Option FileMeta) :
    List.foldl (boundaryStep c l) res files = none ↔ res = none ∧ ∀ f ∈ files, isCand c l f = false := by
  induction files generalizing res with
  | nil => simp
  | cons f fs ih =>
    rw [List.foldl_cons, ih, boundaryStep_eq]
    cases hc : isCand c l f with
    | false => simp [hc]
    | true =>
      cases res with
      | none => simp [hc]
      | some r => simp only [if_true]; split <;> simp [hc]

theorem fsbf_foldl_some (c : Cmp) (l : IKey) (files : List FileMeta) (res : Option FileMeta) (r : FileMeta)
    (h : List.foldl (boundaryStep c l) res files = some r) :
    (res = some r ∨ (r ∈ files ∧ isCand c l r = true)) ∧
    (∀ f ∈ files, isCand c l f = true → ikl c (smallest f) (smallest r) = false) ∧
    (∀ r0, res = some r0 → ikl c (smallest r0) (smallest r) = false) := by
  induction files generalizing res with
  | nil =>
    simp only [List.foldl_nil] at h
    subst h
    exact ⟨.inl rfl, fun f hf => (by cases hf), fun r0 h0 => (by cases h0; exact ikl_irrefl c _)⟩
  | cons f fs ih =>
    rw [List.foldl_cons] at h
    obtain ⟨h1, h2, h3⟩ := ih _ h
    rw [boundaryStep_eq] at h1 h3
    cases hc : isCand c l f with
    | false =>
      rw [hc] at h1 h3
      simp only [Bool.false_eq_true, if_false] at h1 h3
      refine ⟨?_, ?_, h3⟩
      · rcases h1 with h1 | ⟨h1, h1'⟩
        · exact .inl h1
        · exact .inr ⟨List.mem_cons_of_mem _ h1, h1'⟩
      · intro g hg hgc
        rcases List.mem_cons.mp hg with rfl | hg
        · rw [hc] at hgc; cases hgc
        · exact h2 g hg hgc
    | true =>
      rw [hc] at h1 h3
      simp only [if_true] at h1 h3
      cases res with
      | none =>
        simp only [Option.some.injEq] at h1 h3
        refine ⟨.inr ?_, ?_, fun r0 h0 => by cases h0⟩
        · rcases h1 with h1 | ⟨h1, h1'⟩
          · subst h1; exact ⟨List.mem_cons_self, hc⟩
          · exact ⟨List.mem_cons_of_mem _ h1, h1'⟩
        · intro g hg hgc
          rcases List.mem_cons.mp hg with rfl | hg
          · exact h3 g rfl
          · exact h2 g hg hgc
      | some r1 =>
        simp only at h1 h3
        by_cases hlt : ikl c (smallest f) (smallest r1) = true
        · rw [if_pos hlt] at h1 h3
          simp only [Option.some.injEq] at h1 h3
          have hrf : ikl c (smallest f) (smallest r) = false := h3 f rfl
          refine ⟨.inr ?_, ?_, ?_⟩
          · rcases h1 with h1 | ⟨h1, h1'⟩
            · subst h1; exact ⟨List.mem_cons_self, hc⟩
            · exact ⟨List.mem_cons_of_mem _ h1, h1'⟩
          · intro g hg hgc
            rcases List.mem_cons.mp hg with rfl | hg
            · exact hrf
            · exact h2 g hg hgc
          · intro r0 h0
            cases h0
            exact ikl_asymm (ikl_of_le_of_lt hrf hlt)
        · rw [if_neg hlt] at h1 h3
          simp only [Option.some.injEq] at h1 h3
          have hlt' : ikl c (smallest f) (smallest r1) = false := by simpa using hlt
          have hr1 : ikl c (smallest r1) (smallest r) = false := h3 r1 rfl
          refine ⟨?_, ?_, ?_⟩
          · rcases h1 with h1 | ⟨h1, h1'⟩
            · subst h1; exact .inl rfl
            · exact .inr ⟨List.mem_cons_of_mem _ h1, h1'⟩
          · intro g hg hgc
            rcases List.mem_cons.mp hg with rfl | hg
            · exact ikle_trans hr1 hlt'
            · exact h2 g hg hgc
          · intro r0 h0
            cases h0
            exact hr1

/-- no boundary file: no file of the level starts after `l` on `l`'s user key -/
theorem findSmallestBoundaryFile_none {c : Cmp} {files : List FileMeta} {l : IKey} :
    findSmallestBoundaryFile c files l = none ↔ ∀ f ∈ files, isCand c l f = false := by
  unfold findSmallestBoundaryFile
  rw [fsbf_foldl_none]; simp

/-- the boundary file found is a candidate of the level and the least one (by smallest key) -/
theorem findSmallestBoundaryFile_some {c : Cmp} {files : List FileMeta} {l : IKey} {r : FileMeta}
    (h : findSmallestBoundaryFile c files l = some r) :
    r ∈ files ∧ isCand c l r = true ∧ ∀ f ∈ files, isCand c l f = true → ikl c (smallest f) (smallest r) = false := by
  obtain ⟨h1, h2, _⟩ := fsbf_foldl_some c l files none r h
  rcases h1 with h1 | ⟨h1, h1'⟩
  · cases h1
  · exact ⟨h1, h1', h2⟩

/-! ### add_boundary_inputs -/

theorem countP_lt_of_imp_mem {α} (p q : α → Bool) (l : List α) (himp : ∀ x ∈ l, q x = true → p x = true)
    (x : α) (hx : x ∈ l) (hpx : p x = true) (hqx : q x = false) : l.countP q < l.countP p := by
  induction l with
  | nil => cases hx
  | cons y ys ih =>
    have hmono : ys.countP q ≤ ys.countP p :=
      List.countP_mono_left (fun z hz hq => himp z (List.mem_cons_of_mem _ hz) hq)
    simp only [List.countP_cons]
    rcases List.mem_cons.mp hx with rfl | hx
    · simp only [hpx, hqx, if_true, Bool.false_eq_true, if_false]; omega
    · have := ih (fun z hz => himp z (List.mem_cons_of_mem _ hz)) hx
      have hy := himp y List.mem_cons_self
      cases hqy : q y with
      | false => simp only [Bool.false_eq_true, if_false]; split <;> omega
      | true => simp only [hy hqy, if_true]; omega

/-- candidate under `BoundsOk`: its largest key is strictly after `l` -/
theorem cand_largest_gt {c : Cmp} {lf : List FileMeta} (hb : BoundsOk c lf) {l : IKey} {f : FileMeta}
    (hf : f ∈ lf) (hc : isCand c l f = true) : ikl c l (largest f) = true := by
  simp only [isCand, Bool.and_eq_true] at hc
  exact ikl_of_lt_of_le hc.1 (hb f hf)

/-- what the `while (search)` loop returns: the inputs followed by files of the level, and the final
    search key `l'` (the greatest largest key seen) has no boundary file left -/
theorem addBoundaryLoop_spec (c : Cmp) (lf : List FileMeta) (hb : BoundsOk c lf) (fuel : Nat) (l : IKey)
    (acc r : List FileMeta) (h : addBoundaryLoop c lf fuel l acc = some r) :
    ∃ added l', r = acc ++ added ∧ (∀ f ∈ added, f ∈ lf) ∧ findSmallestBoundaryFile c lf l' = none ∧
      ikl c l' l = false ∧ (∀ f ∈ added, ikl c l' (largest f) = false) ∧ (l' = l ∨ ∃ f ∈ added, largest f = l') := by
  induction fuel generalizing l acc with
  | zero => cases h
  | succ n ih =>
    simp only [addBoundaryLoop] at h
    cases hk : findSmallestBoundaryFile c lf l with
    | none =>
      rw [hk] at h
      simp only [Option.some.injEq] at h
      exact ⟨[], l, by simp [h], by simp, hk, ikl_irrefl c l, by simp, .inl rfl⟩
    | some f =>
      rw [hk] at h
      simp only at h
      obtain ⟨hfm, hfc, _⟩ := findSmallestBoundaryFile_some hk
      obtain ⟨added, l', hr, hmem, hnone, hge, hall, hl'⟩ := ih _ _ h
      have hlt : ikl c l (largest f) = true := cand_largest_gt hb hfm hfc
      refine ⟨f :: added, l', by simp [hr], ?_, hnone, ?_, ?_, ?_⟩
      · intro g hg
        rcases List.mem_cons.mp hg with rfl | hg
        · exact hfm
        · exact hmem g hg
      · exact ikle_trans (ikl_asymm hlt) hge
      · intro g hg
        rcases List.mem_cons.mp hg with rfl | hg
        · exact hge
        · exact hall g hg
      · rcases hl' with rfl | ⟨g, hg, hgl⟩
        · exact .inr ⟨f, List.mem_cons_self, rfl⟩
        · exact .inr ⟨g, List.mem_cons_of_mem _ hg, hgl⟩

/-- termination: the number of level files whose largest key is after the search key strictly decreases -/
theorem addBoundaryLoop_total (c : Cmp) (lf : List FileMeta) (hb : BoundsOk c lf) (fuel : Nat) (l : IKey)
    (acc : List FileMeta) (hf : lf.countP (fun g => ikl c l (largest g)) < fuel) :
    ∃ r, addBoundaryLoop c lf fuel l acc = some r := by
  induction fuel generalizing l acc with
  | zero => omega
  | succ n ih =>
    simp only [addBoundaryLoop]
    cases hk : findSmallestBoundaryFile c lf l with
    | none => exact ⟨acc, rfl⟩
    | some f =>
      simp only
      obtain ⟨hfm, hfc, _⟩ := findSmallestBoundaryFile_some hk
      have hlt : ikl c l (largest f) = true := cand_largest_gt hb hfm hfc
      apply ih
      have := countP_lt_of_imp_mem (fun g => ikl c l (largest g)) (fun g => ikl c (largest f) (largest g)) lf
        (fun g _ hg => ikl_trans hlt hg) f hfm hlt (ikl_irrefl c _)
      omega

theorem addBoundaryInputs_total (c : Cmp) (lf inputs : List FileMeta) (hb : BoundsOk c lf) :
    ∃ r, addBoundaryInputs c lf inputs = some r := by
  unfold addBoundaryInputs
  cases hk : findLargestKey c inputs with
  | none => exact ⟨inputs, rfl⟩
  | some l =>
    simp only
    apply addBoundaryLoop_total c lf hb
    have := List.countP_le_length (p := fun g => ikl c l (largest g)) (l := lf)
    omega

/-- add_boundary_inputs: the result is the inputs followed by files of the level, and for the greatest
    largest key `l'` of the result no file of the level starts after `l'` on the same user key -/
theorem addBoundaryInputs_closed (c : Cmp) (lf inputs r : List FileMeta) (hb : BoundsOk c lf)
    (h : addBoundaryInputs c lf inputs = some r) :
    ∃ added, r = inputs ++ added ∧ (∀ f ∈ added, f ∈ lf) ∧
      (inputs = [] → added = []) ∧
      ∀ l', findLargestKey c r = some l' → ∀ g ∈ lf, isCand c l' g = false := by
  unfold addBoundaryInputs at h
  cases hk : findLargestKey c inputs with
  | none =>
    rw [hk] at h
    simp only [Option.some.injEq] at h
    subst h
    refine ⟨[], by simp, by simp, fun _ => rfl, ?_⟩
    intro l' hl'
    rw [hk] at hl'; cases hl'
  | some l =>
    rw [hk] at h
    simp only at h
    obtain ⟨added, l', hr, hmem, hnone, hge, hall, hl'⟩ := addBoundaryLoop_spec c lf hb _ l inputs r h
    refine ⟨added, hr, hmem, fun he => ?_, ?_⟩
    · rw [he] at hk; cases hk
    · intro l'' hl''
      have hmax := findLargestKey_isMax hk
      have hmax' : IsMaxLargest c r l' := by
        subst hr
        refine ⟨?_, ?_⟩
        · rcases hl' with rfl | ⟨f, hf, hfl⟩
          · obtain ⟨f, hf, hfl⟩ := hmax.1
            exact ⟨f, List.mem_append_left _ hf, hfl⟩
          · exact ⟨f, List.mem_append_right _ hf, hfl⟩
        · intro f hf
          rcases List.mem_append.mp hf with hf | hf
          · exact ikle_trans (hmax.2 f hf) hge
          · exact hall f hf
      have : l'' = l' := (findLargestKey_isMax hl'').unique hmax'
      subst this
      exact findSmallestBoundaryFile_none.mp hnone

end Lcdb.Policy
