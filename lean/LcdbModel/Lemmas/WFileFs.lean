/-
  The meaning of a list of system calls on a directory (`Fs`), and the shape of the traces of `writeFile` /
  `setCurrentFile` needed for `setCurrentFile_atomic`.
-/
import LcdbModel.Lemmas.WFile
namespace Lcdb.WFile
open Lcdb.Disk (FName)

/-- the event cannot change the file stored under name `g` as long as `g` is not the file open for writing -/
def Sys.avoids (g : FName) : Sys → Bool
  | .openW f none => f != g
  | .rename a b none => a != g && b != g
  | .unlink a none => a != g
  | _ => true

theorem Fs.run_append (fs : Fs) (a b : List Sys) : Fs.run fs (a ++ b) = Fs.run (Fs.run fs a) b := by
  simp [Fs.run, List.foldl_append]

theorem Fs.run_cons (fs : Fs) (e : Sys) (t : List Sys) : Fs.run fs (e :: t) = Fs.run (fs.step e) t := rfl

theorem Fs.step_avoids (fs : Fs) (g : FName) (e : Sys) (he : e.avoids g = true) (hc : fs.cur ≠ some g) :
    (fs.step e).files g = fs.files g ∧ (fs.step e).synced g = fs.synced g ∧ (fs.step e).cur ≠ some g := by
  cases e with
  | openW f r =>
    cases r with
    | none =>
      have hfg : g ≠ f := by
        intro h; subst h; simp [Sys.avoids] at he
      simp [Fs.step, hfg]
      intro h; exact hfg h.symm
    | some x => exact ⟨rfl, rfl, hc⟩
  | openDir r => exact ⟨rfl, rfl, hc⟩
  | write q d =>
    cases hcur : fs.cur with
    | none => simp [Fs.step, hcur]
    | some f =>
      have hfg : g ≠ f := by intro h; subst h; exact hc hcur
      simp [Fs.step, hcur, hfg]
      intro h; exact hfg h.symm
  | writeErr q x => exact ⟨rfl, rfl, hc⟩
  | fsync dir r =>
    cases dir with
    | true => exact ⟨rfl, rfl, hc⟩
    | false =>
      cases r with
      | some x => exact ⟨rfl, rfl, hc⟩
      | none =>
        cases hcur : fs.cur with
        | none => simp [Fs.step, hcur]
        | some f =>
          have hfg : g ≠ f := by intro h; subst h; exact hc hcur
          simp [Fs.step, hcur, hfg]
          intro h; exact hfg h.symm
  | close dir r =>
    cases dir with
    | true => exact ⟨rfl, rfl, hc⟩
    | false => simp [Fs.step]
  | rename a b r =>
    cases r with
    | some x => exact ⟨rfl, rfl, hc⟩
    | none =>
      simp [Sys.avoids] at he
      have h1 : g ≠ a := fun h => he.1 h.symm
      have h2 : g ≠ b := fun h => he.2 h.symm
      cases hb : fs.files a with
      | none => simp [Fs.step, hb]; exact hc
      | some body => simp [Fs.step, hb, h1, h2]; exact hc
  | unlink a r =>
    cases r with
    | some x => exact ⟨rfl, rfl, hc⟩
    | none =>
      simp [Sys.avoids] at he
      have h1 : g ≠ a := fun h => he h.symm
      simp [Fs.step, h1]; exact hc

theorem Fs.run_avoids (g : FName) : ∀ (t : List Sys) (fs : Fs), (∀ e ∈ t, e.avoids g = true) → fs.cur ≠ some g →
    (Fs.run fs t).files g = fs.files g ∧ (Fs.run fs t).synced g = fs.synced g ∧ (Fs.run fs t).cur ≠ some g := by
  intro t
  induction t with
  | nil => intro fs _ hc; exact ⟨rfl, rfl, hc⟩
  | cons e t ih =>
    intro fs h hc
    have s := Fs.step_avoids fs g e (h e (List.mem_cons_self ..)) hc
    have r := ih (fs.step e) (fun x hx => h x (List.mem_cons_of_mem _ hx)) s.2.2
    rw [Fs.run_cons]
    exact ⟨r.1.trans s.1, r.2.1.trans s.2.1, r.2.2⟩

/-- events that happen "inside" the file open for writing: they keep it open and only append to it -/
def Sys.isBody : Sys → Bool
  | .write _ _ => true
  | .writeErr _ _ => true
  | .fsync _ _ => true
  | .openDir _ => true
  | .close true _ => true
  | _ => false

theorem Fs.run_body (f : FName) : ∀ (t : List Sys) (fs : Fs) (c : Bytes), (∀ e ∈ t, e.isBody = true) →
    fs.cur = some f → fs.files f = some c →
    (Fs.run fs t).cur = some f ∧ (Fs.run fs t).files f = some (c ++ transferred t) := by
  intro t
  induction t with
  | nil => intro fs c _ h1 h2; simp [Fs.run, transferred, h1, h2]
  | cons e t ih =>
    intro fs c h h1 h2
    have he := h e (List.mem_cons_self ..)
    have ht : ∀ x ∈ t, x.isBody = true := fun x hx => h x (List.mem_cons_of_mem _ hx)
    rw [Fs.run_cons]
    cases e with
    | write q d =>
      have := ih (fs.step (.write q d)) (c ++ d) ht (by simp [Fs.step, h1]) (by simp [Fs.step, h1, h2])
      simpa [transferred] using this
    | writeErr q x => exact ih _ c ht h1 h2
    | openDir r => exact ih _ c ht h1 h2
    | fsync dir r =>
      cases dir with
      | true => exact ih _ c ht h1 h2
      | false =>
        cases r with
        | some x => exact ih _ c ht h1 h2
        | none => exact ih _ c ht (by simp [Fs.step, h1]) (by simp [Fs.step, h1, h2])
    | close dir r =>
      cases dir with
      | true => exact ih _ c ht h1 h2
      | false => simp [Sys.isBody] at he
    | openW g r => simp [Sys.isBody] at he
    | rename a b r => simp [Sys.isBody] at he
    | unlink a r => simp [Sys.isBody] at he

theorem isBody_of_isWrite {e : Sys} (h : e.isWrite = true) : e.isBody = true := by
  cases e <;> simp_all [Sys.isWrite, Sys.isBody]

theorem isBody_of_isDirEv {e : Sys} (h : e.isDirEv = true) : e.isBody = true := by
  cases e with
  | fsync d r => rfl
  | close d r => cases d <;> simp_all [Sys.isDirEv, Sys.isBody]
  | _ => simp_all [Sys.isDirEv, Sys.isBody]

/-- running the events of a successful `ldb_open` of `f` for writing -/
theorem Fs.run_open_ok (f : FName) (fs : Fs) (pre : List Sys) (hpre : ∀ e ∈ pre, ∃ x, e = Sys.openW f (some x)) :
    Fs.run fs (pre ++ [Sys.openW f none]) = fs.step (Sys.openW f none) := by
  induction pre generalizing fs with
  | nil => rfl
  | cons e t ih =>
    obtain ⟨x, hx⟩ := hpre e (List.mem_cons_self ..)
    subst hx
    simp only [List.cons_append, Fs.run_cons]
    exact ih (fs.step _) (fun y hy => hpre y (List.mem_cons_of_mem _ hy))


theorem append0_isWrite (cap : Nat) (f : WF) (data : Bytes) (orc : Oracle) :
    ∀ e ∈ (append0 cap f data orc).ev, e.isWrite = true := by
  intro e he
  unfold append0 at he
  simp only at he
  split at he
  · simp at he
  · split at he
    · exact osWrite_isWrite _ _ e he
    · split at he
      · exact osWrite_isWrite _ _ e he
      · simp only [List.mem_append] at he
        rcases he with he | he
        · exact osWrite_isWrite _ _ e he
        · exact osWrite_isWrite _ _ e he

theorem sync0_isBody (f : WF) (orc : Oracle) : ∀ e ∈ (sync0 f orc).ev, e.isBody = true := by
  obtain ⟨D, W, S, h1, h2, h3, h4, _, _⟩ := sync0_shape f orc
  intro e he
  rw [h1] at he
  simp only [List.mem_append] at he
  rcases he with (he | he) | he
  · subst h2
    split at he
    · exact isBody_of_isDirEv (syncDir_isDirEv orc e he)
    · simp at he
  · exact isBody_of_isWrite (h3 e he)
  · obtain ⟨r, hr⟩ := h4 e he; subst hr; rfl

theorem flush_nil (f : WF) (orc : Oracle) (h : f.buf = []) : (flush f orc).ev = [] ∧ (flush f orc).rc = .ok := by
  have := osWrite_nil orc.w
  simp [flush, wfWrite, h, this.1, this.2.1]

theorem avoids_of_isBody {e : Sys} (g : FName) (h : e.isBody = true) : e.avoids g = true := by
  cases e <;> simp_all [Sys.isBody, Sys.avoids]

theorem close_mem (f : WF) (orc : Oracle) : ∀ e ∈ (close f orc).ev, e.isWrite = true ∨ ∃ r, e = Sys.close false r := by
  intro e he
  simp only [close, List.mem_append, List.mem_singleton] at he
  rcases he with he | he
  · exact Or.inl (osWrite_isWrite _ _ e he)
  · exact Or.inr ⟨_, he⟩

theorem writeBody_avoids (cap : Nat) (name g : FName) (hne : name ≠ g) (data : Bytes) (sync : Bool) (orc : Oracle) :
    ∀ e ∈ (writeBody cap name data sync orc).ev, e.avoids g = true := by
  unfold writeBody
  simp only
  generalize hA : append0 cap { buf := [], manifest := isManifest name, fdOpen := true } data orc = A
  have hAev : ∀ e ∈ A.ev, e.avoids g = true := by
    subst hA; intro e he; exact avoids_of_isBody g (isBody_of_isWrite (append0_isWrite _ _ _ _ e he))
  have hs : ∀ e ∈ (if A.rc = .ok ∧ sync = true then sync0 A.f A.orc else (⟨[], A.rc, A.orc, A.f⟩ : Res)).ev, e.avoids g = true := by
    intro e he
    split at he
    · exact avoids_of_isBody g (sync0_isBody _ _ e he)
    · simp at he
  generalize (if A.rc = .ok ∧ sync = true then sync0 A.f A.orc else (⟨[], A.rc, A.orc, A.f⟩ : Res)) = S at hs ⊢
  have hc : ∀ e ∈ (if S.rc = .ok then close S.f S.orc else (⟨[], S.rc, S.orc, S.f⟩ : Res)).ev, e.avoids g = true := by
    intro e he
    split at he
    · rcases close_mem _ _ e he with h | ⟨r, h⟩
      · exact avoids_of_isBody g (isBody_of_isWrite h)
      · subst h; rfl
    · simp at he
  generalize (if S.rc = .ok then close S.f S.orc else (⟨[], S.rc, S.orc, S.f⟩ : Res)) = C at hc ⊢
  intro e he
  simp only [List.mem_append] at he
  rcases he with (((he | he) | he) | he) | he
  · exact hAev e he
  · exact hs e he
  · exact hc e he
  · unfold destroy at he
    split at he
    · simp at he; subst he; rfl
    · simp at he
  · split at he
    · simp [unlinkFile] at he; subst he
      cases (popAns _).1 <;> simp [Sys.avoids, hne]
    · simp at he

theorem writeBody_ok (cap : Nat) (name : FName) (data : Bytes) (orc : Oracle)
    (hok : (writeBody cap name data true orc).rc = .ok) :
    ∃ B, (writeBody cap name data true orc).ev = B ++ [Sys.fsync false none, Sys.close false none] ∧
      (∀ e ∈ B, e.isBody = true) ∧ transferred B = data := by
  unfold writeBody at hok ⊢
  simp only at hok ⊢
  generalize hf0 : ({ buf := [], manifest := isManifest name, fdOpen := true } : WF) = f0 at hok ⊢
  have hf0b : f0.buf = [] := by subst hf0; rfl
  have Fa := append0_facts cap f0 (by simp [hf0b]) data orc
  by_cases h1 : (append0 cap f0 data orc).rc = .ok
  · simp only [h1, and_self, ↓reduceIte] at hok ⊢
    by_cases h2 : (sync0 (append0 cap f0 data orc).f (append0 cap f0 data orc).orc).rc = .ok
    · simp only [h2, ↓reduceIte] at hok ⊢
      obtain ⟨D, W, S, e1, e2, e3, e4, _, e6⟩ := sync0_shape (append0 cap f0 data orc).f (append0 cap f0 data orc).orc
      obtain ⟨_, hW, hbuf, pre, hS⟩ := e6 h2
      obtain ⟨hfl, hcl⟩ := close_ok _ _ hok
      have hfe := (flush_nil _ (append0 cap f0 data orc).orc hbuf)
      have hfe2 := (flush_nil (sync0 (append0 cap f0 data orc).f (append0 cap f0 data orc).orc).f
        (sync0 (append0 cap f0 data orc).f (append0 cap f0 data orc).orc).orc hbuf).1
      simp only [hok, ne_eq, not_true_eq_false, ↓reduceIte, List.append_nil]
      have hd : (destroy (close (sync0 (append0 cap f0 data orc).f (append0 cap f0 data orc).orc).f
          (sync0 (append0 cap f0 data orc).f (append0 cap f0 data orc).orc).orc).f
          (close (sync0 (append0 cap f0 data orc).f (append0 cap f0 data orc).orc).f
          (sync0 (append0 cap f0 data orc).f (append0 cap f0 data orc).orc).orc).orc).1 = [] := by
        simp [destroy, close]
      rw [hd, hcl, hfe2, e1, hS]
      refine ⟨(append0 cap f0 data orc).ev ++ D ++ W ++ pre, by simp, ?_, ?_⟩
      · intro e he
        have hmem : e ∈ (sync0 (append0 cap f0 data orc).f (append0 cap f0 data orc).orc).ev ∨ e ∈ (append0 cap f0 data orc).ev := by
          rw [e1, hS]
          simp only [List.mem_append] at he ⊢
          rcases he with ((he | he) | he) | he
          · exact Or.inr he
          · exact Or.inl (Or.inl (Or.inl he))
          · exact Or.inl (Or.inl (Or.inr he))
          · exact Or.inl (Or.inr (Or.inl he))
        rcases hmem with h | h
        · exact sync0_isBody _ _ e h
        · exact isBody_of_isWrite (append0_isWrite _ _ _ _ e h)
      · have hD : transferred D = [] := by
          subst e2
          split
          · exact syncDir_transferred _
          · rfl
        have hpre : transferred pre = [] := by
          apply transferred_of_not_write
          intro e he
          obtain ⟨r, hr⟩ := e4 e (by rw [hS]; simp [he])
          subst hr; rfl
        have := Fa.ok h1
        rw [hf0b] at this
        simp only [transferred_append, hD, hpre, hW, List.append_nil, List.nil_append] at this ⊢
        exact this
    · simp only [h2, ↓reduceIte] at hok
  · simp only [h1, false_and, ↓reduceIte] at hok



theorem prefix_append_cases {α : Type} (p a b : List α) (h : p <+: a ++ b) : p <+: a ∨ ∃ b', b' <+: b ∧ p = a ++ b' := by
  induction a generalizing p with
  | nil => right; exact ⟨p, by simpa using h, rfl⟩
  | cons x a ih =>
    cases p with
    | nil => left; exact List.nil_prefix
    | cons y p =>
      have h' : y = x ∧ p <+: a ++ b := by simpa [List.cons_prefix_cons] using h
      obtain ⟨rfl, h2⟩ := h'
      rcases ih p h2 with h3 | ⟨b', h3, h4⟩
      · left; exact List.cons_prefix_cons.mpr ⟨rfl, h3⟩
      · right; exact ⟨b', h3, by rw [h4]; rfl⟩

theorem writeFile_fail (cap : Nat) (name : FName) (data : Bytes) (sync : Bool) (orc : Oracle) (e : Errno)
    (h : (osOpen (Sys.openW name) orc.o).r = some e) :
    writeFile cap name data sync orc = ⟨(osOpen (Sys.openW name) orc.o).ev, .err e, { orc with o := (osOpen (Sys.openW name) orc.o).rest }⟩ := by
  simp only [writeFile, h]

theorem writeFile_opened (cap : Nat) (name : FName) (data : Bytes) (sync : Bool) (orc : Oracle)
    (h : (osOpen (Sys.openW name) orc.o).r = none) :
    writeFile cap name data sync orc =
      ⟨(osOpen (Sys.openW name) orc.o).ev ++ (writeBody cap name data sync { orc with o := (osOpen (Sys.openW name) orc.o).rest }).ev,
       (writeBody cap name data sync { orc with o := (osOpen (Sys.openW name) orc.o).rest }).rc,
       (writeBody cap name data sync { orc with o := (osOpen (Sys.openW name) orc.o).rest }).orc⟩ := by
  simp only [writeFile, h]

theorem writeFile_avoids (cap : Nat) (name g : FName) (hne : name ≠ g) (data : Bytes) (sync : Bool) (orc : Oracle) :
    ∀ e ∈ (writeFile cap name data sync orc).ev, e.avoids g = true := by
  have hopen : ∀ e ∈ (osOpen (Sys.openW name) orc.o).ev, e.avoids g = true := by
    intro e he
    obtain ⟨r, hr⟩ := osOpen_mem _ _ e he
    subst hr
    cases r <;> simp [Sys.avoids, hne]
  intro e he
  cases h : (osOpen (Sys.openW name) orc.o).r with
  | some x => rw [writeFile_fail _ _ _ _ _ x h] at he; exact hopen e he
  | none =>
    rw [writeFile_opened _ _ _ _ _ h] at he
    simp only [List.mem_append] at he
    rcases he with he | he
    · exact hopen e he
    · exact writeBody_avoids cap name g hne data sync _ e he

/-- what a successful `ldb_write_file(.., should_sync = 1)` leaves behind: the file holds exactly the data, its
    whole contents were covered by an fsync issued after the last write, and the descriptor is closed -/
theorem writeFile_ok_fs (cap : Nat) (name : FName) (data : Bytes) (orc : Oracle)
    (hok : (writeFile cap name data true orc).rc = .ok) (fs : Fs) :
    (Fs.run fs (writeFile cap name data true orc).ev).files name = some data ∧
    (Fs.run fs (writeFile cap name data true orc).ev).synced name = true ∧
    (Fs.run fs (writeFile cap name data true orc).ev).cur = none := by
  cases h : (osOpen (Sys.openW name) orc.o).r with
  | some x => rw [writeFile_fail _ _ _ _ _ x h] at hok; simp at hok
  | none =>
    rw [writeFile_opened _ _ _ _ _ h] at hok ⊢
    simp only at hok ⊢
    obtain ⟨pre, hp, hpre⟩ := osOpen_ok _ _ h
    obtain ⟨B, hB, hBody, hT⟩ := writeBody_ok cap name data _ hok
    rw [hp, hB, Fs.run_append, Fs.run_open_ok name fs pre hpre, Fs.run_append]
    have h1 := Fs.run_body name B (fs.step (Sys.openW name none)) [] hBody (by simp [Fs.step]) (by simp [Fs.step])
    rw [hT] at h1
    simp only [List.nil_append] at h1
    generalize Fs.run (fs.step (Sys.openW name none)) B = fsB at h1 ⊢
    obtain ⟨c1, c2⟩ := h1
    simp only [Fs.run, List.foldl_cons, List.foldl_nil, Fs.step, c1]
    simp [c2]



theorem setCurrentFile_wfail (cap n : Nat) (orc : Oracle) (h : (writeFile cap (.tmp n) (ptrBytes n) true orc).rc ≠ .ok) :
    setCurrentFile cap n orc =
      ⟨(writeFile cap (.tmp n) (ptrBytes n) true orc).ev ++ (unlinkFile (.tmp n) (writeFile cap (.tmp n) (ptrBytes n) true orc).orc).1,
       (writeFile cap (.tmp n) (ptrBytes n) true orc).rc,
       (unlinkFile (.tmp n) (writeFile cap (.tmp n) (ptrBytes n) true orc).orc).2⟩ := by
  simp only [setCurrentFile, h, ↓reduceIte]

theorem setCurrentFile_rfail (cap n : Nat) (orc : Oracle) (h : (writeFile cap (.tmp n) (ptrBytes n) true orc).rc = .ok)
    (e : Errno) (hr : (popAns (writeFile cap (.tmp n) (ptrBytes n) true orc).orc.r).1 = some e) :
    (setCurrentFile cap n orc).ev = (writeFile cap (.tmp n) (ptrBytes n) true orc).ev ++ [.rename (.tmp n) .current (some e)] ++
        (unlinkFile (.tmp n) { (writeFile cap (.tmp n) (ptrBytes n) true orc).orc with r := (popAns (writeFile cap (.tmp n) (ptrBytes n) true orc).orc.r).2 }).1 ∧
    (setCurrentFile cap n orc).rc = .err e := by
  simp only [setCurrentFile, h, ↓reduceIte, hr]
  constructor <;> first | trivial | rfl

theorem setCurrentFile_ok (cap n : Nat) (orc : Oracle) (h : (writeFile cap (.tmp n) (ptrBytes n) true orc).rc = .ok)
    (hr : (popAns (writeFile cap (.tmp n) (ptrBytes n) true orc).orc.r).1 = none) :
    (setCurrentFile cap n orc).ev = (writeFile cap (.tmp n) (ptrBytes n) true orc).ev ++ [.rename (.tmp n) .current none] ++
        (syncDir { (writeFile cap (.tmp n) (ptrBytes n) true orc).orc with r := (popAns (writeFile cap (.tmp n) (ptrBytes n) true orc).orc.r).2 }).ev ∧
    (setCurrentFile cap n orc).rc = .ok := by
  simp only [setCurrentFile, h, ↓reduceIte, hr]
  constructor <;> first | trivial | rfl

theorem unlinkFile_ev (a : FName) (orc : Oracle) : ∃ x, (unlinkFile a orc).1 = [Sys.unlink a x] := ⟨_, rfl⟩


/-- the atomic replacement of CURRENT; see `Lcdb.WFile.setCurrentFile_atomic` in Props/WFileProps.lean -/
theorem setCurrentFile_atomic_core (cap n : Nat) (orc : Oracle) (fs0 : Fs) (h0 : fs0.cur = none) :
    (∀ p, p <+: (setCurrentFile cap n orc).ev →
      ((Fs.run fs0 p).files .current = fs0.files .current ∧ (Fs.run fs0 p).synced .current = fs0.synced .current) ∨
      ((Fs.run fs0 p).files .current = some (ptrBytes n) ∧ (Fs.run fs0 p).synced .current = true)) ∧
    ((setCurrentFile cap n orc).rc = .ok →
      (Fs.run fs0 (setCurrentFile cap n orc).ev).files .current = some (ptrBytes n) ∧
      (Fs.run fs0 (setCurrentFile cap n orc).ev).synced .current = true ∧
      (Fs.run fs0 (setCurrentFile cap n orc).ev).files (.tmp n) = none ∧
      Sys.rename (.tmp n) .current none ∈ (setCurrentFile cap n orc).ev) ∧
    ((setCurrentFile cap n orc).rc ≠ .ok →
      (Fs.run fs0 (setCurrentFile cap n orc).ev).files .current = fs0.files .current ∧
      (∃ pre x, (setCurrentFile cap n orc).ev = pre ++ [Sys.unlink (.tmp n) x]) ∧
      Sys.rename (.tmp n) .current none ∉ (setCurrentFile cap n orc).ev) := by
  have hne : FName.tmp n ≠ FName.current := by intro h; cases h
  have hcur0 : fs0.cur ≠ some FName.current := by rw [h0]; intro h; cases h
  have hwav := writeFile_avoids cap (.tmp n) .current hne (ptrBytes n) true orc
  -- a trace all of whose events avoid CURRENT leaves it alone, in every prefix
  have hall : ∀ t : List Sys, (∀ e ∈ t, e.avoids .current = true) → ∀ p, p <+: t →
      (Fs.run fs0 p).files .current = fs0.files .current ∧ (Fs.run fs0 p).synced .current = fs0.synced .current := by
    intro t ht p hp
    have := Fs.run_avoids .current p fs0 (fun e he => ht e (hp.subset he)) hcur0
    exact ⟨this.1, this.2.1⟩
  have hnoren : ∀ t : List Sys, (∀ e ∈ t, e.avoids .current = true) → Sys.rename (.tmp n) .current none ∉ t := by
    intro t ht hmem
    have := ht _ hmem
    simp [Sys.avoids] at this
  by_cases hw : (writeFile cap (.tmp n) (ptrBytes n) true orc).rc = .ok
  · cases hr : (popAns (writeFile cap (.tmp n) (ptrBytes n) true orc).orc.r).1 with
    | some e =>
      obtain ⟨hev, hrc⟩ := setCurrentFile_rfail cap n orc hw e hr
      obtain ⟨x, hx⟩ := unlinkFile_ev (.tmp n) { (writeFile cap (.tmp n) (ptrBytes n) true orc).orc with r := (popAns (writeFile cap (.tmp n) (ptrBytes n) true orc).orc.r).2 }
      rw [hx] at hev
      have hav : ∀ e' ∈ (setCurrentFile cap n orc).ev, e'.avoids .current = true := by
        intro e' he'
        rw [hev] at he'
        simp only [List.mem_append, List.mem_singleton] at he'
        rcases he' with (he' | he') | he'
        · exact hwav e' he'
        · subst he'; rfl
        · subst he'; cases x <;> simp [Sys.avoids]
      refine ⟨fun p hp => Or.inl (hall _ hav p hp), ?_, ?_⟩
      · intro h; rw [hrc] at h; cases h
      · intro _
        exact ⟨(hall _ hav _ (List.prefix_refl _)).1, ⟨_, x, hev⟩, hnoren _ hav⟩
    | none =>
      obtain ⟨hev, hrc⟩ := setCurrentFile_ok cap n orc hw hr
      obtain ⟨f1, f2, f3⟩ := writeFile_ok_fs cap (.tmp n) (ptrBytes n) orc hw fs0
      generalize hD : (syncDir { (writeFile cap (.tmp n) (ptrBytes n) true orc).orc with r := (popAns (writeFile cap (.tmp n) (ptrBytes n) true orc).orc.r).2 }).ev = D at hev
      have hDdir : ∀ e ∈ D, e.isDirEv = true := by subst hD; exact syncDir_isDirEv _
      -- the state right after the rename
      have hstep : ∀ d', (∀ e ∈ d', e.isDirEv = true) →
          (Fs.run fs0 ((writeFile cap (.tmp n) (ptrBytes n) true orc).ev ++ [Sys.rename (.tmp n) .current none] ++ d')).files .current = some (ptrBytes n) ∧
          (Fs.run fs0 ((writeFile cap (.tmp n) (ptrBytes n) true orc).ev ++ [Sys.rename (.tmp n) .current none] ++ d')).synced .current = true ∧
          (Fs.run fs0 ((writeFile cap (.tmp n) (ptrBytes n) true orc).ev ++ [Sys.rename (.tmp n) .current none] ++ d')).files (.tmp n) = none := by
        intro d' hd'
        rw [Fs.run_append, Fs.run_append]
        generalize Fs.run fs0 (writeFile cap (.tmp n) (ptrBytes n) true orc).ev = fsw at f1 f2 f3
        have hs : (Fs.run fsw [Sys.rename (.tmp n) .current none]).files .current = some (ptrBytes n) ∧
            (Fs.run fsw [Sys.rename (.tmp n) .current none]).synced .current = true ∧
            (Fs.run fsw [Sys.rename (.tmp n) .current none]).files (.tmp n) = none ∧
            (Fs.run fsw [Sys.rename (.tmp n) .current none]).cur = none := by
          simp [Fs.run, Fs.step, f1, f2, f3]
        generalize Fs.run fsw [Sys.rename (.tmp n) .current none] = fsr at hs
        have hc1 : fsr.cur ≠ some FName.current := by rw [hs.2.2.2]; intro h; cases h
        have hc2 : fsr.cur ≠ some (FName.tmp n) := by rw [hs.2.2.2]; intro h; cases h
        have a1 := Fs.run_avoids .current d' fsr (fun e he => avoids_of_isBody _ (isBody_of_isDirEv (hd' e he))) hc1
        have a2 := Fs.run_avoids (.tmp n) d' fsr (fun e he => avoids_of_isBody _ (isBody_of_isDirEv (hd' e he))) hc2
        exact ⟨a1.1.trans hs.1, a1.2.1.trans hs.2.1, a2.1.trans hs.2.2.1⟩
      refine ⟨?_, ?_, ?_⟩
      · intro p hp
        rw [hev, List.append_assoc] at hp
        rcases prefix_append_cases _ _ _ hp with h1 | ⟨b', hb', hpb⟩
        · exact Or.inl (hall _ hwav p h1)
        · rcases prefix_append_cases _ _ _ hb' with h2 | ⟨d', hd', hbd⟩
          · cases b' with
            | nil =>
              subst hpb
              simp only [List.append_nil]
              exact Or.inl (hall _ hwav _ (List.prefix_refl _))
            | cons y b'' =>
              have : y = Sys.rename (.tmp n) .current none ∧ b'' = [] := by
                have := List.cons_prefix_cons.mp h2
                exact ⟨this.1, List.prefix_nil.mp this.2⟩
              obtain ⟨rfl, rfl⟩ := this
              subst hpb
              have := hstep [] (by simp)
              simp only [List.append_nil] at this
              exact Or.inr ⟨this.1, this.2.1⟩
          · subst hbd; subst hpb
            have := hstep d' (fun e he => hDdir e (hd'.subset he))
            rw [← List.append_assoc]
            exact Or.inr ⟨this.1, this.2.1⟩
      · intro _
        rw [hev]
        have := hstep D hDdir
        exact ⟨this.1, this.2.1, this.2.2, by simp⟩
      · intro h; rw [hrc] at h; exact absurd rfl h
  · rw [setCurrentFile_wfail cap n orc hw]
    obtain ⟨x, hx⟩ := unlinkFile_ev (.tmp n) (writeFile cap (.tmp n) (ptrBytes n) true orc).orc
    simp only [hx]
    have hav : ∀ e' ∈ (writeFile cap (.tmp n) (ptrBytes n) true orc).ev ++ [Sys.unlink (.tmp n) x], e'.avoids .current = true := by
      intro e' he'
      simp only [List.mem_append, List.mem_singleton] at he'
      rcases he' with he' | he'
      · exact hwav e' he'
      · subst he'; cases x <;> simp [Sys.avoids]
    refine ⟨fun p hp => Or.inl (hall _ hav p hp), fun h => absurd h hw, fun _ => ?_⟩
    exact ⟨(hall _ hav _ (List.prefix_refl _)).1, ⟨_, x, rfl⟩, hnoren _ hav⟩


end Lcdb.WFile
