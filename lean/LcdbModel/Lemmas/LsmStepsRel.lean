/-
  Level access lemmas and a relational (mergeSort-free) form of `Inv.recency` / `Inv.numsDistinct`.
-/
import LcdbModel.Lemmas.LsmSteps
namespace Lcdb

/-! ### level access -/

theorem level_eq_nil_of_le {st : DbState} {l : Nat} (h : st.levels.length ≤ l) : st.level l = [] := by
  simp [DbState.level, List.getD_eq_getElem?_getD, List.getElem?_eq_none h]

theorem level_eq_getElem {st : DbState} {l : Nat} (h : l < st.levels.length) :
    st.level l = st.levels[l] := by
  simp [DbState.level, List.getD_eq_getElem?_getD, List.getElem?_eq_getElem h]

theorem lt_length_of_mem_level {st : DbState} {l : Nat} {f : FileMeta} (h : f ∈ st.level l) :
    l < st.levels.length := by
  apply Classical.byContradiction
  intro hn
  rw [level_eq_nil_of_le (by omega)] at h
  cases h

theorem level_setLevel (st : DbState) (l : Nat) (fs : List FileMeta) (i : Nat) :
    (setLevel st l fs).level i = if i = l ∧ l < st.levels.length then fs else st.level i := by
  simp only [DbState.level, setLevel, List.getD_eq_getElem?_getD, List.getElem?_set]
  by_cases h : l = i
  · subst h
    by_cases h2 : l < st.levels.length
    · simp [h2]
    · simp [h2]
  · have : ¬ i = l := fun h' => h h'.symm
    simp [h, this]

theorem levels_length_setLevel (st : DbState) (l : Nat) (fs : List FileMeta) :
    (setLevel st l fs).levels.length = st.levels.length := by
  simp [setLevel]

theorem mem_allFiles {st : DbState} {f : FileMeta} : f ∈ allFiles st ↔ ∃ l, f ∈ st.level l := by
  unfold allFiles
  rw [List.mem_flatten]
  constructor
  · rintro ⟨L, hL, hf⟩
    obtain ⟨i, hi, rfl⟩ := List.mem_iff_getElem.mp hL
    exact ⟨i, by rw [level_eq_getElem hi]; exact hf⟩
  · rintro ⟨l, hf⟩
    have hl := lt_length_of_mem_level hf
    rw [level_eq_getElem hl] at hf
    exact ⟨_, List.getElem_mem hl, hf⟩

theorem mem_allEntries {st : DbState} {e : Entry} :
    e ∈ allEntries st ↔ e ∈ st.mem ∨ (∃ r ∈ st.imm, e ∈ r) ∨ ∃ f ∈ allFiles st, e ∈ f.run := by
  unfold allEntries
  simp only [List.mem_append, List.mem_flatMap, or_assoc]
  cases st.imm <;> simp

theorem getD_drop_one {α : Type _} (L : List (List α)) (i : Nat) :
    (L.drop 1).getD i [] = L.getD (i + 1) [] := by
  simp [List.getD_eq_getElem?_getD]

theorem pairwise_getD_iff {α : Type _} {Q : List α → List α → Prop} (_hl : ∀ B, Q [] B)
    (hr : ∀ A, Q A []) (L : List (List α)) :
    L.Pairwise Q ↔ ∀ i j, i < j → Q (L.getD i []) (L.getD j []) := by
  rw [List.pairwise_iff_getElem]
  constructor
  · intro h i j hij
    by_cases hj : j < L.length
    · have hi : i < L.length := by omega
      simpa [List.getD_eq_getElem?_getD, List.getElem?_eq_getElem, hi, hj] using h i j hi hj hij
    · have : L.getD j [] = [] := by
        simp [List.getD_eq_getElem?_getD, List.getElem?_eq_none (Nat.le_of_not_lt hj)]
      rw [this]; exact hr _
  · intro h i j hi hj hij
    simpa [List.getD_eq_getElem?_getD, List.getElem?_eq_getElem, hi, hj] using h i j hij

theorem mem_drop_one {α : Type _} {L : List (List α)} {A : List α} :
    A ∈ L.drop 1 ↔ ∃ j, 1 ≤ j ∧ j < L.length ∧ L.getD j [] = A := by
  constructor
  · intro h
    obtain ⟨i, hi, rfl⟩ := List.mem_iff_getElem.mp h
    simp at hi
    refine ⟨i + 1, by omega, by omega, ?_⟩
    have : i + 1 < L.length := by omega
    simp [List.getD_eq_getElem?_getD, this]
  · rintro ⟨j, hj1, hj2, rfl⟩
    have : L.getD j [] = (L.drop 1)[j - 1]'(by simp; omega) := by
      simp [List.getD_eq_getElem?_getD, hj2]
      congr 1; omega
    rw [this]
    exact List.getElem_mem _

/-! ### relational form of recency and of file-number distinctness -/

structure Rec (c : Cmp) (st : DbState) : Prop where
  memImm : ∀ r ∈ st.imm, NewerThan c st.mem r
  memFiles : ∀ f ∈ allFiles st, NewerThan c st.mem f.run
  immFiles : ∀ r ∈ st.imm, ∀ f ∈ allFiles st, NewerThan c r f.run
  l0 : ∀ a ∈ st.level 0, ∀ b ∈ st.level 0, a.num > b.num → NewerThan c a.run b.run
  levels : ∀ i j, i < j → ∀ a ∈ st.level i, ∀ b ∈ st.level j, NewerThan c a.run b.run

structure NumsRel (st : DbState) : Prop where
  within : ∀ l, (st.level l).Pairwise (fun f g => f.num ≠ g.num)
  across : ∀ i j, i < j → ∀ a ∈ st.level i, ∀ b ∈ st.level j, a.num ≠ b.num

theorem numsRel_iff (st : DbState) :
    (allFiles st).Pairwise (fun f g => f.num ≠ g.num) ↔ NumsRel st := by
  unfold allFiles
  have hg := pairwise_getD_iff (Q := fun (l₁ l₂ : List FileMeta) => ∀ x ∈ l₁, ∀ y ∈ l₂, x.num ≠ y.num)
      (by intro B x hx; cases hx) (by intro A x _ y hy; cases hy) st.levels
  rw [List.pairwise_flatten, hg]
  constructor
  · rintro ⟨h1, h2⟩
    refine ⟨?_, h2⟩
    intro l
    by_cases hl : l < st.levels.length
    · rw [level_eq_getElem hl]; exact h1 _ (List.getElem_mem hl)
    · rw [level_eq_nil_of_le (by omega)]; exact List.Pairwise.nil
  · rintro ⟨h1, h2⟩
    refine ⟨?_, h2⟩
    intro L hL
    obtain ⟨i, hi, rfl⟩ := List.mem_iff_getElem.mp hL
    rw [← level_eq_getElem hi]; exact h1 i

/-- the level-0 part of `sourceRuns` -/
theorem mem_l0Sorted {st : DbState} {f : FileMeta} :
    f ∈ (st.level 0).mergeSort (fun a b => decide (a.num ≥ b.num)) ↔ f ∈ st.level 0 :=
  (List.mergeSort_perm _ _).mem_iff

theorem l0_pairwise_iff (c : Cmp) (st : DbState)
    (hd : (st.level 0).Pairwise (fun f g => f.num ≠ g.num)) :
    (((st.level 0).mergeSort (fun a b => decide (a.num ≥ b.num))).map (·.run)).Pairwise (NewerThan c) ↔
      ∀ a ∈ st.level 0, ∀ b ∈ st.level 0, a.num > b.num → NewerThan c a.run b.run := by
  rw [List.pairwise_map]
  have hsorted : ((st.level 0).mergeSort (fun a b => decide (a.num ≥ b.num))).Pairwise
      (fun a b => a.num > b.num) := by
    have h1 := List.pairwise_mergeSort (le := fun (a b : FileMeta) => decide (a.num ≥ b.num))
      (by intro a b d; simp; omega) (by intro a b; simp; omega) (st.level 0)
    have h2 : ((st.level 0).mergeSort (fun a b => decide (a.num ≥ b.num))).Pairwise
        (fun f g => f.num ≠ g.num) :=
      (List.Perm.pairwise_iff (R := fun (f g : FileMeta) => f.num ≠ g.num)
        (fun h => Ne.symm h) (List.mergeSort_perm (st.level 0) (fun a b => decide (a.num ≥ b.num)))).mpr hd
    refine (h1.and h2).imp ?_
    intro a b ⟨h, h'⟩
    simp at h; omega
  constructor
  · intro h a ha b hb hab
    rcases pairwise_rel_or_of_mem (hsorted.and h) (mem_l0Sorted.mpr ha) (mem_l0Sorted.mpr hb) with
      rfl | h' | h'
    · omega
    · exact h'.2
    · omega
  · intro h
    exact hsorted.imp_of_mem (fun ha hb hab => h _ (mem_l0Sorted.mp ha) _ (mem_l0Sorted.mp hb) hab)

theorem deep_forall_iff (_c : Cmp) (st : DbState) (P : Run → Prop)
    (hP : ∀ B : List FileMeta, P (B.flatMap (·.run)) ↔ ∀ b ∈ B, P b.run) :
    (∀ r ∈ (st.levels.drop 1).map (fun files => files.flatMap (·.run)), P r) ↔
      ∀ j, 1 ≤ j → ∀ f ∈ st.level j, P f.run := by
  constructor
  · intro h j hj f hf
    have hl := lt_length_of_mem_level hf
    have : st.level j ∈ st.levels.drop 1 := mem_drop_one.mpr ⟨j, hj, hl, rfl⟩
    exact (hP _).mp (h _ (List.mem_map.mpr ⟨_, this, rfl⟩)) f hf
  · intro h r hr
    obtain ⟨A, hA, rfl⟩ := List.mem_map.mp hr
    obtain ⟨j, hj1, _, rfl⟩ := mem_drop_one.mp hA
    exact (hP _).mpr (h j hj1)

theorem deep_pairwise_iff (c : Cmp) (st : DbState) :
    ((st.levels.drop 1).map (fun files => files.flatMap (·.run))).Pairwise (NewerThan c) ↔
      ∀ i j, 1 ≤ i → i < j → ∀ a ∈ st.level i, ∀ b ∈ st.level j, NewerThan c a.run b.run := by
  have hg := pairwise_getD_iff
      (Q := fun (A B : List FileMeta) => NewerThan c (A.flatMap (·.run)) (B.flatMap (·.run)))
      (by intro B; exact newerThan_nil_left c _) (by intro A; exact newerThan_nil_right c _)
      (st.levels.drop 1)
  rw [List.pairwise_map, hg]
  simp only [getD_drop_one]
  constructor
  · intro h i j hi hij a ha b hb
    have e1 : i - 1 + 1 = i := by omega
    have e2 : j - 1 + 1 = j := by omega
    have := h (i - 1) (j - 1) (by omega)
    rw [e1, e2] at this
    exact newerThan_flatMap_right.mp (newerThan_flatMap_left.mp this a ha) b hb
  · intro h i j hij
    apply newerThan_flatMap_left.mpr
    intro a ha
    apply newerThan_flatMap_right.mpr
    intro b hb
    exact h (i + 1) (j + 1) (by omega) (by omega) a ha b hb

theorem recency_iff (c : Cmp) (st : DbState)
    (hd : (st.level 0).Pairwise (fun f g => f.num ≠ g.num)) :
    (sourceRuns st).Pairwise (NewerThan c) ↔ Rec c st := by
  unfold sourceRuns
  have hDr := fun (a : Run) => deep_forall_iff c st (fun r => NewerThan c a r)
    (fun B => newerThan_flatMap_right)
  rw [List.pairwise_append, List.pairwise_append, List.pairwise_append, l0_pairwise_iff c st hd,
    deep_pairwise_iff]
  constructor
  · rintro ⟨⟨⟨_, _, hmi⟩, hl0, hA0⟩, hdeep, hAD⟩
    have hmem0 : ∀ f ∈ st.level 0, NewerThan c st.mem f.run := by
      intro f hf
      exact hA0 st.mem (by simp) f.run
        (List.mem_map.mpr ⟨f, mem_l0Sorted.mpr hf, rfl⟩)
    have himm0 : ∀ r ∈ st.imm, ∀ f ∈ st.level 0, NewerThan c r f.run := by
      intro r hr f hf
      exact hA0 r (by simp [Option.mem_def.mp hr]) f.run
        (List.mem_map.mpr ⟨f, mem_l0Sorted.mpr hf, rfl⟩)
    have hmemD : ∀ j, 1 ≤ j → ∀ f ∈ st.level j, NewerThan c st.mem f.run :=
      (hDr st.mem).mp (fun r hr => hAD st.mem (by simp) r hr)
    have himmD : ∀ r ∈ st.imm, ∀ j, 1 ≤ j → ∀ f ∈ st.level j, NewerThan c r f.run := by
      intro r hr
      exact (hDr r).mp (fun r' hr' => hAD r (by simp [Option.mem_def.mp hr]) r' hr')
    have h0D : ∀ a ∈ st.level 0, ∀ j, 1 ≤ j → ∀ f ∈ st.level j, NewerThan c a.run f.run := by
      intro a ha
      exact (hDr a.run).mp (fun r' hr' => hAD a.run (by
        simp only [List.mem_append]
        exact .inr (List.mem_map.mpr ⟨a, mem_l0Sorted.mpr ha, rfl⟩)) r' hr')
    refine ⟨?_, ?_, ?_, hl0, ?_⟩
    · intro r hr
      exact hmi st.mem (by simp) r (by simp [Option.mem_def.mp hr])
    · intro f hf
      obtain ⟨l, hl⟩ := mem_allFiles.mp hf
      by_cases h0 : l = 0
      · subst h0; exact hmem0 f hl
      · exact hmemD l (by omega) f hl
    · intro r hr f hf
      obtain ⟨l, hl⟩ := mem_allFiles.mp hf
      by_cases h0 : l = 0
      · subst h0; exact himm0 r hr f hl
      · exact himmD r hr l (by omega) f hl
    · intro i j hij a ha b hb
      by_cases h0 : i = 0
      · subst h0; exact h0D a ha j (by omega) b hb
      · exact hdeep i j (by omega) hij a ha b hb
  · intro h
    refine ⟨⟨⟨by simp, by cases st.imm <;> simp, ?_⟩, h.l0, ?_⟩, ?_, ?_⟩
    · intro a ha b hb
      simp at ha; subst ha
      exact h.memImm b (by simpa using hb)
    · intro a ha r hr
      obtain ⟨f, hf, rfl⟩ := List.mem_map.mp hr
      have hf' := mem_allFiles.mpr ⟨0, mem_l0Sorted.mp hf⟩
      simp at ha
      rcases ha with rfl | ha
      · exact h.memFiles f hf'
      · exact h.immFiles a (Option.mem_def.mpr ha) f hf'
    · intro i j hi hij a ha b hb
      exact h.levels i j hij a ha b hb
    · intro a ha
      apply (hDr a).mpr
      intro j hj f hf
      have hf' := mem_allFiles.mpr ⟨j, hf⟩
      simp only [List.mem_append, List.mem_singleton, Option.mem_toList, List.mem_map] at ha
      rcases ha with (rfl | ha) | ⟨g, hg, rfl⟩
      · exact h.memFiles f hf'
      · exact h.immFiles a (Option.mem_def.mpr ha) f hf'
      · exact h.levels 0 j (by omega) g (mem_l0Sorted.mp hg) f hf

/-! ### `insertSorted`, `addFiles`, `removeNums`, `pickNums` -/

theorem mem_insertSorted {c : Cmp} {f g : FileMeta} {l : List FileMeta} :
    g ∈ insertSorted c f l ↔ g = f ∨ g ∈ l := by
  induction l with
  | nil => simp [insertSorted]
  | cons x xs ih =>
    unfold insertSorted
    split
    · simp
    · simp [ih]; constructor
      · rintro (h | h | h) <;> simp [h]
      · rintro (h | h | h) <;> simp [h]

theorem insertSorted_perm (c : Cmp) (f : FileMeta) (l : List FileMeta) :
    (insertSorted c f l).Perm (f :: l) := by
  induction l with
  | nil => simp [insertSorted]
  | cons x xs ih =>
    unfold insertSorted
    split
    · exact List.Perm.refl _
    · exact (List.Perm.cons x ih).trans (List.Perm.swap f x xs)

theorem addFiles_perm (c : Cmp) (lv : Nat) (l new : List FileMeta) :
    (addFiles c lv l new).Perm (l ++ new) := by
  unfold addFiles
  induction new generalizing l with
  | nil => simp
  | cons n ns ih =>
    simp only [List.foldl_cons]
    refine (ih _).trans ?_
    refine ((insertSorted_perm c n l).append_right ns).trans ?_
    simpa using (List.perm_middle (a := n) (l₁ := l) (l₂ := ns)).symm

theorem mem_addFiles {c : Cmp} {lv : Nat} {l new : List FileMeta} {g : FileMeta} :
    g ∈ addFiles c lv l new ↔ g ∈ l ∨ g ∈ new := by
  rw [(addFiles_perm c lv l new).mem_iff, List.mem_append]

theorem addFiles_singleton (c : Cmp) (lv : Nat) (l : List FileMeta) (f : FileMeta) :
    addFiles c lv l [f] = insertSorted c f l := rfl

theorem mem_removeNums {l : List FileMeta} {nums : List Nat} {g : FileMeta} :
    g ∈ removeNums l nums ↔ g ∈ l ∧ g.num ∉ nums := by
  simp [removeNums]

theorem mem_pickNums {l : List FileMeta} {nums : List Nat} {g : FileMeta} :
    g ∈ pickNums l nums ↔ g ∈ l ∧ g.num ∈ nums := by
  simp [pickNums]

theorem not_overlap_cases {c : Cmp} {f g : FileMeta} (h : userRangesOverlap c f g = false) :
    c.compare f.lk g.sk = .lt ∨ c.compare g.lk f.sk = .lt := by
  simp [userRangesOverlap] at h
  by_cases h1 : c.compare f.lk g.sk = .lt
  · exact .inl h1
  · exact .inr (h h1)

/-- inserting a file whose user-key range meets no file of a sorted level keeps the level sorted -/
theorem insertSorted_levelSorted {c : Cmp} {f : FileMeta} {l : List FileMeta}
    (hs : LevelSorted c l) (hf : FileOk c f) (hl : ∀ g ∈ l, FileOk c g)
    (hno : ∀ g ∈ l, userRangesOverlap c f g = false) : LevelSorted c (insertSorted c f l) := by
  induction l with
  | nil => simp [insertSorted, LevelSorted]
  | cons g gs ih =>
    unfold LevelSorted at hs
    rw [List.pairwise_cons] at hs
    unfold insertSorted
    split
    · rename_i hlt
      unfold LevelSorted
      rw [List.pairwise_cons, List.pairwise_cons]
      refine ⟨?_, hs⟩
      intro h hh
      rcases not_overlap_cases (hno h hh) with h1 | h1
      · exact ikLt_of_ult _ _ h1
      · exfalso
        have hgh : c.compare g.sk h.sk ≠ .gt := by
          rcases List.mem_cons.mp hh with rfl | hh'
          · rw [cmp_refl]; simp
          · exact cmp_le_trans c (hl g (by simp)).sk_le_lk (ikLt_ule (hs.1 h hh'))
        have h2 : c.compare h.sk f.sk = .lt := cmp_le_lt_trans c (hl h hh).sk_le_lk h1
        have h3 : c.compare h.sk g.sk = .lt := cmp_lt_le_trans c h2 (ikLt_ule hlt)
        exact cmp_lt_le_absurd c h3 hgh
    · rename_i hnlt
      unfold LevelSorted
      rw [List.pairwise_cons]
      refine ⟨?_, ih hs.2 (fun g' hg' => hl g' (List.mem_cons_of_mem _ hg'))
        (fun g' hg' => hno g' (List.mem_cons_of_mem _ hg'))⟩
      intro h hh
      rcases mem_insertSorted.mp hh with rfl | hh'
      · rcases not_overlap_cases (hno g (by simp)) with h1 | h1
        · exfalso
          exact hnlt (ikLt_of_ult _ _ (cmp_le_lt_trans c hf.sk_le_lk h1))
        · exact ikLt_of_ult _ _ h1
      · exact hs.1 h hh'

/-! ### `Inv` in relational form -/

theorem Inv.numsRel {c : Cmp} {st : DbState} (h : Inv c st) : NumsRel st :=
  (numsRel_iff st).mp h.numsDistinct

theorem Inv.toRec {c : Cmp} {st : DbState} (h : Inv c st) : Rec c st :=
  (recency_iff c st (h.numsRel.within 0)).mp h.recency

theorem Inv.ofRel {c : Cmp} {st : DbState}
    (nlevels : st.levels.length = 7)
    (memSorted : RunSorted c st.mem)
    (immSorted : ∀ r ∈ st.imm, RunSorted c r)
    (filesOk : ∀ f ∈ allFiles st, FileOk c f)
    (levelsSorted : ∀ l, 1 ≤ l → LevelSorted c (st.level l))
    (rec : Rec c st)
    (seqBound : ∀ e ∈ allEntries st, e.seq ≤ st.lastSeq)
    (kinds : ∀ e ∈ allEntries st, e.kind ≤ 1)
    (nums : NumsRel st)
    (numsBound : ∀ f ∈ allFiles st, f.num < st.nextFile)
    (snapsBound : ∀ s ∈ st.snaps, s ≤ st.lastSeq) : Inv c st where
  nlevels := nlevels
  memSorted := memSorted
  immSorted := immSorted
  filesOk := filesOk
  levelsSorted := levelsSorted
  recency := (recency_iff c st (nums.within 0)).mpr rec
  seqBound := seqBound
  kinds := kinds
  numsDistinct := (numsRel_iff st).mpr nums
  numsBound := numsBound
  snapsBound := snapsBound

/-- entries of files -/
theorem Inv.seq_le_of_file {c : Cmp} {st : DbState} (h : Inv c st) {f : FileMeta}
    (hf : f ∈ allFiles st) {e : Entry} (he : e ∈ f.run) : e.seq ≤ st.lastSeq :=
  h.seqBound e (mem_allEntries.mpr (.inr (.inr ⟨f, hf, he⟩)))

/-- every file's entries are contained in one of the sources -/
theorem sourceRuns_cover (st : DbState) {g : FileMeta} (hg : g ∈ allFiles st) :
    ∃ r ∈ sourceRuns st, ∀ y ∈ g.run, y ∈ r := by
  obtain ⟨i, hi⟩ := mem_allFiles.mp hg
  unfold sourceRuns
  by_cases h0 : i = 0
  · subst h0
    refine ⟨g.run, ?_, fun y hy => hy⟩
    simp only [List.mem_append]
    exact .inl (.inr (List.mem_map.mpr ⟨g, mem_l0Sorted.mpr hi, rfl⟩))
  · refine ⟨(st.level i).flatMap (·.run), ?_, fun y hy => List.mem_flatMap.mpr ⟨g, hi, hy⟩⟩
    simp only [List.mem_append]
    refine .inr (List.mem_map.mpr ⟨st.level i, ?_, rfl⟩)
    exact mem_drop_one.mpr ⟨i, by omega, lt_length_of_mem_level hi, rfl⟩

theorem NumsRel.level_unique {st : DbState} (h : NumsRel st) {g : FileMeta} {i j : Nat}
    (hi : g ∈ st.level i) (hj : g ∈ st.level j) : i = j := by
  rcases Nat.lt_trichotomy i j with hlt | heq | hgt
  · exact absurd rfl (h.across i j hlt g hi g hj)
  · exact heq
  · exact absurd rfl (h.across j i hgt g hj g hi)

theorem foldl_max_ge (outs : List FileMeta) (n : Nat) :
    n ≤ outs.foldl (fun m f => max m (f.num + 1)) n := by
  induction outs generalizing n with
  | nil => exact Nat.le_refl _
  | cons f fs ih =>
    simp only [List.foldl_cons]
    exact Nat.le_trans (Nat.le_max_left _ _) (ih _)

theorem foldl_max_gt (outs : List FileMeta) (n : Nat) :
    ∀ f ∈ outs, f.num < outs.foldl (fun m f => max m (f.num + 1)) n := by
  induction outs generalizing n with
  | nil => intro f hf; cases hf
  | cons g gs ih =>
    intro f hf
    simp only [List.foldl_cons]
    rcases List.mem_cons.mp hf with rfl | hf'
    · have := foldl_max_ge gs (max n (f.num + 1))
      omega
    · exact ih _ f hf'

/-! ### a `decide`-friendly form of `Inv` (no `mergeSort`, bounded quantifiers) -/

def InvRel (c : Cmp) (st : DbState) : Prop :=
  st.levels.length = 7 ∧ RunSorted c st.mem ∧ (∀ r ∈ st.imm, RunSorted c r) ∧
  (∀ f ∈ allFiles st, FileOk c f) ∧
  (∀ l ∈ List.range 7, 1 ≤ l → LevelSorted c (st.level l)) ∧
  (∀ r ∈ st.imm, NewerThan c st.mem r) ∧
  (∀ f ∈ allFiles st, NewerThan c st.mem f.run) ∧
  (∀ r ∈ st.imm, ∀ f ∈ allFiles st, NewerThan c r f.run) ∧
  (∀ a ∈ st.level 0, ∀ b ∈ st.level 0, a.num > b.num → NewerThan c a.run b.run) ∧
  (∀ i ∈ List.range 7, ∀ j ∈ List.range 7, i < j →
    ∀ a ∈ st.level i, ∀ b ∈ st.level j, NewerThan c a.run b.run) ∧
  (∀ e ∈ allEntries st, e.seq ≤ st.lastSeq) ∧ (∀ e ∈ allEntries st, e.kind ≤ 1) ∧
  (allFiles st).Pairwise (fun f g => f.num ≠ g.num) ∧
  (∀ f ∈ allFiles st, f.num < st.nextFile) ∧ (∀ s ∈ st.snaps, s ≤ st.lastSeq)

instance (c : Cmp) (st : DbState) : Decidable (InvRel c st) := by
  unfold InvRel; infer_instance

theorem inv_of_invRel {c : Cmp} {st : DbState} (h : InvRel c st) : Inv c st := by
  obtain ⟨h1, h2, h3, h4, h5, h6, h7, h8, h9, h10, h11, h12, h13, h14, h15⟩ := h
  have hnil : ∀ l, 7 ≤ l → st.level l = [] := fun l hl => level_eq_nil_of_le (by omega)
  apply Inv.ofRel h1 h2 h3 h4 _ _ h11 h12 ((numsRel_iff st).mp h13) h14 h15
  · intro l hl
    by_cases h7 : l < 7
    · exact h5 l (List.mem_range.mpr h7) hl
    · rw [hnil l (by omega)]; exact List.Pairwise.nil
  · refine ⟨h6, h7, h8, h9, ?_⟩
    intro i j hij a ha b hb
    have hj : j < 7 := by
      have := lt_length_of_mem_level hb; omega
    exact h10 i (List.mem_range.mpr (by omega)) j (List.mem_range.mpr hj) hij a ha b hb

theorem invRel_of_inv {c : Cmp} {st : DbState} (h : Inv c st) : InvRel c st :=
  have hR := h.toRec
  ⟨h.nlevels, h.memSorted, h.immSorted, h.filesOk, fun l _ hl => h.levelsSorted l hl, hR.memImm,
    hR.memFiles, hR.immFiles, hR.l0, fun i _ j _ hij => hR.levels i j hij, h.seqBound, h.kinds,
    h.numsDistinct, h.numsBound, h.snapsBound⟩

/-- the `sourceRuns` clause of the recovery contract, from relational facts (for concrete examples:
    `sourceRuns` uses `mergeSort`, which `decide` cannot unfold) -/
theorem newerThan_sourceRuns_of_files {c : Cmp} {st : DbState} {a : Run}
    (hm : NewerThan c a st.mem) (hi : ∀ r ∈ st.imm, NewerThan c a r)
    (hf : ∀ g ∈ allFiles st, NewerThan c a g.run) : ∀ r ∈ sourceRuns st, NewerThan c a r := by
  intro r hr
  unfold sourceRuns at hr
  simp only [List.mem_append, List.mem_singleton, Option.mem_toList, List.mem_map] at hr
  rcases hr with ((rfl | hr) | ⟨g, hg, rfl⟩) | ⟨A, hA, rfl⟩
  · exact hm
  · exact hi r (Option.mem_def.mpr hr)
  · exact hf g (mem_allFiles.mpr ⟨0, mem_l0Sorted.mp hg⟩)
  · obtain ⟨j, _, _, rfl⟩ := mem_drop_one.mp hA
    exact newerThan_flatMap_right.mpr (fun b hb => hf b (mem_allFiles.mpr ⟨j, hb⟩))

end Lcdb
