/-
  Helper lemmas about the LSM model (LcdbModel.Model.Lsm) used by Props/C14 (the invariant is
  preserved by every step) and Props/C06 (views are preserved):

  * order facts for `ikLt` / `entryLt`, key ranges of `FileOk` files;
  * `runInsert` / `applyOps` (membership, sortedness), `opsEntries`;
  * level access (`level`, `setLevel`, `allFiles`), `insertSorted` / `addFiles`, `removeNums` / `pickNums`;
  * a relational form of `Inv.recency` and `Inv.numsDistinct` that does not mention `mergeSort`
    (`Rec`, `NumsRel`), the alternative constructor `Inv.ofRel`, and a `decide`-friendly `InvRel`;
  * `runSteps`, `StepsOk`, `emptyState`.
-/
import LcdbModel.Model.Lsm
import LcdbModel.Props.KeyProps
namespace Lcdb

/-! ### comparator shorthands -/

theorem cmp_eq_iff (c : Cmp) (a b : Bytes) : c.compare a b = .eq ↔ a = b :=
  (KeyProps.cmp_lawful c).eq_iff a b

theorem cmp_refl (c : Cmp) (a : Bytes) : c.compare a a = .eq := (KeyProps.cmp_lawful c).refl a

theorem cmp_swap (c : Cmp) (a b : Bytes) : c.compare b a = (c.compare a b).swap :=
  (KeyProps.cmp_lawful c).swap a b

theorem cmp_gt_iff (c : Cmp) (a b : Bytes) : c.compare a b = .gt ↔ c.compare b a = .lt := by
  rw [cmp_swap c b a]; cases c.compare b a <;> simp

theorem cmp_lt_irrefl (c : Cmp) (a : Bytes) : c.compare a a ≠ .lt := by
  rw [cmp_refl]; simp

theorem cmp_le_lt_trans (c : Cmp) {a b d : Bytes} :
    c.compare a b ≠ .gt → c.compare b d = .lt → c.compare a d = .lt :=
  (KeyProps.cmp_lawful c).le_lt_trans a b d

theorem cmp_lt_le_trans (c : Cmp) {a b d : Bytes} :
    c.compare a b = .lt → c.compare b d ≠ .gt → c.compare a d = .lt :=
  (KeyProps.cmp_lawful c).lt_le_trans a b d

theorem cmp_le_trans (c : Cmp) {a b d : Bytes} :
    c.compare a b ≠ .gt → c.compare b d ≠ .gt → c.compare a d ≠ .gt :=
  (KeyProps.cmp_lawful c).le_trans a b d

theorem cmp_lt_trans (c : Cmp) {a b d : Bytes} :
    c.compare a b = .lt → c.compare b d = .lt → c.compare a d = .lt :=
  (KeyProps.cmp_lawful c).lt_trans a b d

/-- `a < b` and `b ≤ a` are contradictory -/
theorem cmp_lt_le_absurd (c : Cmp) {a b : Bytes} (h1 : c.compare a b = .lt)
    (h2 : c.compare b a ≠ .gt) : False := by
  have := cmp_lt_le_trans c h1 h2
  exact cmp_lt_irrefl c a this

/-! ### internal-key order -/

theorem ikLt_ule {c : Cmp} {a : Bytes} {ap : Nat} {b : Bytes} {bp : Nat}
    (h : ikLt c a ap b bp = true) : c.compare a b ≠ .gt := by
  unfold ikLt at h
  split at h <;> simp_all

theorem ikLt_of_ult {c : Cmp} {a : Bytes} (ap : Nat) {b : Bytes} (bp : Nat)
    (h : c.compare a b = .lt) : ikLt c a ap b bp = true := by
  unfold ikLt; rw [h]

theorem ikLt_eq_true_iff {c : Cmp} {a : Bytes} {ap : Nat} {b : Bytes} {bp : Nat} :
    ikLt c a ap b bp = true ↔ c.compare a b = .lt ∨ (a = b ∧ bp < ap) := by
  unfold ikLt
  split
  · simp_all
  · simp_all
    intro h; subst h; simp_all [cmp_refl]
  · rename_i h
    have := (cmp_eq_iff c a b).mp h
    simp_all

theorem ikLt_trans {c : Cmp} {a : Bytes} {ap : Nat} {b : Bytes} {bp : Nat} {d : Bytes} {dp : Nat}
    (h1 : ikLt c a ap b bp = true) (h2 : ikLt c b bp d dp = true) : ikLt c a ap d dp = true := by
  rw [ikLt_eq_true_iff] at *
  rcases h1 with h1 | ⟨rfl, h1⟩ <;> rcases h2 with h2 | ⟨rfl, h2⟩
  · exact .inl (cmp_lt_trans c h1 h2)
  · exact .inl h1
  · exact .inl h2
  · exact .inr ⟨rfl, by omega⟩

theorem ikLt_asymm {c : Cmp} {a : Bytes} {ap : Nat} {b : Bytes} {bp : Nat}
    (h1 : ikLt c a ap b bp = true) (h2 : ikLt c b bp a ap = true) : False := by
  rw [ikLt_eq_true_iff] at *
  rcases h1 with h1 | ⟨rfl, h1⟩ <;> rcases h2 with h2 | ⟨h, h2⟩
  · exact cmp_lt_irrefl c _ (cmp_lt_trans c h1 h2)
  · subst h; exact cmp_lt_irrefl c _ h1
  · exact cmp_lt_irrefl c _ h2
  · omega

theorem ikLt_total {c : Cmp} {a : Bytes} {ap : Nat} {b : Bytes} {bp : Nat}
    (h1 : ikLt c a ap b bp = false) (h2 : ikLt c b bp a ap = false) : a = b ∧ ap = bp := by
  unfold ikLt at h1 h2
  rw [cmp_swap c a b] at h2
  cases h : c.compare a b <;> simp_all
  exact ⟨(cmp_eq_iff c a b).mp h, by omega⟩

theorem entryLt_trans {c : Cmp} {x y z : Entry} (h1 : entryLt c x y = true)
    (h2 : entryLt c y z = true) : entryLt c x z = true := ikLt_trans h1 h2

/-- a strictly newer entry (larger sequence number) is never tied with an older one -/
theorem entryLt_of_not_of_seq_gt {c : Cmp} {e x : Entry} (hseq : x.seq < e.seq) (hk : x.kind ≤ 1)
    (h : entryLt c e x = false) : entryLt c x e = true := by
  unfold entryLt at *
  by_cases h2 : ikLt c x.ukey x.packed e.ukey e.packed = true
  · exact h2
  · have := ikLt_total h (by simpa using h2)
    unfold Entry.packed at this
    omega

/-! ### `Pairwise` helpers -/

theorem pairwise_rel_or_of_mem {α : Type _} {R : α → α → Prop} {l : List α} (h : l.Pairwise R)
    {a b : α} (ha : a ∈ l) (hb : b ∈ l) : a = b ∨ R a b ∨ R b a := by
  induction l with
  | nil => cases ha
  | cons x xs ih =>
    rw [List.pairwise_cons] at h
    rcases List.mem_cons.mp ha with rfl | ha' <;> rcases List.mem_cons.mp hb with rfl | hb'
    · exact .inl rfl
    · exact .inr (.inl (h.1 _ hb'))
    · exact .inr (.inr (h.1 _ ha'))
    · exact ih h.2 ha' hb'

theorem pairwise_getLast {α : Type _} {R : α → α → Prop} {l : List α} (h : l.Pairwise R)
    {z : α} (hz : l.getLast? = some z) : ∀ x ∈ l, x = z ∨ R x z := by
  induction l with
  | nil => simp at hz
  | cons y ys ih =>
    rw [List.pairwise_cons] at h
    cases ys with
    | nil =>
      simp at hz; subst hz
      intro x hx; simp at hx; exact .inl hx
    | cons w ws =>
      have hz' : (w :: ws).getLast? = some z := by simpa [List.getLast?_cons_cons] using hz
      intro x hx
      rcases List.mem_cons.mp hx with rfl | hx'
      · have hzmem : z ∈ w :: ws := List.mem_of_getLast? hz'
        exact .inr (h.1 _ hzmem)
      · exact ih h.2 hz' x hx'

/-- the user keys of a well-formed file lie inside `[sk, lk]` -/
theorem FileOk.key_range {c : Cmp} {f : FileMeta} (h : FileOk c f) :
    ∀ x ∈ f.run, c.compare f.sk x.ukey ≠ .gt ∧ c.compare x.ukey f.lk ≠ .gt := by
  obtain ⟨hs, hne, hh, hl⟩ := h
  intro x hx
  constructor
  · cases hr : f.run with
    | nil => exact absurd hr hne
    | cons y ys =>
      rw [hr] at hs hh hx
      have := (hh y (by simp)).1
      rw [← this]
      rcases List.mem_cons.mp hx with rfl | hx'
      · rw [cmp_refl]; simp
      · exact ikLt_ule ((List.pairwise_cons.mp hs).1 _ hx')
  · cases hr : f.run.getLast? with
    | none => simp at hr; exact absurd hr hne
    | some z =>
      have := (hl z (by simp [hr])).1
      rw [← this]
      rcases pairwise_getLast hs hr x hx with rfl | hlt
      · rw [cmp_refl]; simp
      · exact ikLt_ule hlt

theorem FileOk.sk_le_lk {c : Cmp} {f : FileMeta} (h : FileOk c f) : c.compare f.sk f.lk ≠ .gt := by
  obtain ⟨x, hx⟩ := List.exists_mem_of_ne_nil _ h.2.1
  have := h.key_range x hx
  exact cmp_le_trans c this.1 this.2

/-- files with non-overlapping user-key ranges share no user key -/
theorem no_shared_key_of_not_overlap {c : Cmp} {f g : FileMeta} (hf : FileOk c f) (hg : FileOk c g)
    (h : userRangesOverlap c f g = false) : ∀ x ∈ f.run, ∀ y ∈ g.run, c.compare x.ukey y.ukey ≠ .eq := by
  intro x hx y hy heq
  have hxy := (cmp_eq_iff c _ _).mp heq
  have hxr := hf.key_range x hx
  have hyr := hg.key_range y hy
  rw [hxy] at hxr
  simp [userRangesOverlap] at h
  by_cases h1 : c.compare f.lk g.sk = .lt
  · exact cmp_lt_le_absurd c h1 (cmp_le_trans c hyr.1 hxr.2)
  · exact cmp_lt_le_absurd c (h h1) (cmp_le_trans c hxr.1 hyr.2)

/-! ### `NewerThan` -/

theorem NewerThan.mono {c : Cmp} {a b a' b' : Run} (h : NewerThan c a b)
    (ha : ∀ x ∈ a', x ∈ a) (hb : ∀ y ∈ b', y ∈ b) : NewerThan c a' b' :=
  fun x hx y hy he => h x (ha x hx) y (hb y hy) he

theorem newerThan_nil_left (c : Cmp) (b : Run) : NewerThan c [] b := fun _ hx => by cases hx

theorem newerThan_nil_right (c : Cmp) (a : Run) : NewerThan c a [] := fun _ _ _ hy => by cases hy

theorem newerThan_flatMap_right {c : Cmp} {a : Run} {B : List FileMeta} :
    NewerThan c a (B.flatMap (·.run)) ↔ ∀ b ∈ B, NewerThan c a b.run := by
  constructor
  · intro h b hb x hx y hy he
    exact h x hx y (List.mem_flatMap.mpr ⟨b, hb, hy⟩) he
  · intro h x hx y hy he
    obtain ⟨b, hb, hy'⟩ := List.mem_flatMap.mp hy
    exact h b hb x hx y hy' he

theorem newerThan_flatMap_left {c : Cmp} {A : List FileMeta} {b : Run} :
    NewerThan c (A.flatMap (·.run)) b ↔ ∀ a ∈ A, NewerThan c a.run b := by
  constructor
  · intro h a ha x hx y hy he
    exact h x (List.mem_flatMap.mpr ⟨a, ha, hx⟩) y hy he
  · intro h x hx y hy he
    obtain ⟨a, ha, hx'⟩ := List.mem_flatMap.mp hx
    exact h a ha x hx' y hy he

/-! ### `runInsert`, `applyOps` -/

theorem mem_runInsert {c : Cmp} {e y : Entry} {r : Run} : y ∈ runInsert c e r ↔ y = e ∨ y ∈ r := by
  induction r with
  | nil => simp [runInsert]
  | cons x xs ih =>
    unfold runInsert
    split
    · simp
    · simp [ih]; constructor
      · rintro (h | h | h) <;> simp [h]
      · rintro (h | h | h) <;> simp [h]

theorem filter_runInsert_of_false {c : Cmp} (p : Entry → Bool) {e : Entry} (r : Run)
    (h : p e = false) : (runInsert c e r).filter p = r.filter p := by
  induction r with
  | nil => simp [runInsert, h]
  | cons x xs ih =>
    unfold runInsert
    split
    · simp [List.filter_cons, h]
    · simp [List.filter_cons, ih]

theorem runInsert_sorted {c : Cmp} {e : Entry} {r : Run} (hs : RunSorted c r)
    (h : ∀ x ∈ r, entryLt c e x = false → entryLt c x e = true) : RunSorted c (runInsert c e r) := by
  induction r with
  | nil => simp [runInsert, RunSorted]
  | cons x xs ih =>
    unfold RunSorted at hs
    rw [List.pairwise_cons] at hs
    unfold runInsert
    split
    · rename_i hlt
      unfold RunSorted
      rw [List.pairwise_cons, List.pairwise_cons]
      refine ⟨?_, hs⟩
      intro y hy
      rcases List.mem_cons.mp hy with rfl | hy'
      · exact hlt
      · exact entryLt_trans hlt (hs.1 y hy')
    · rename_i hnlt
      unfold RunSorted
      rw [List.pairwise_cons]
      refine ⟨?_, ih hs.2 (fun y hy => h y (List.mem_cons_of_mem _ hy))⟩
      intro y hy
      rcases mem_runInsert.mp hy with rfl | hy'
      · exact h x (by simp) (by simpa using hnlt)
      · exact hs.1 y hy'

/-- the entries a batch adds: consecutive sequence numbers starting at `seq` -/
def opsEntries (seq : Nat) : List WOp → List Entry
  | [] => []
  | o :: os => { ukey := o.ukey, seq := seq, kind := o.kind, val := o.val } :: opsEntries (seq + 1) os

theorem mem_opsEntries {n : Nat} {ops : List WOp} {e : Entry} (h : e ∈ opsEntries n ops) :
    n ≤ e.seq ∧ e.seq < n + ops.length ∧ ∃ o ∈ ops, e.kind = o.kind := by
  induction ops generalizing n with
  | nil => cases h
  | cons o os ih =>
    rcases List.mem_cons.mp h with rfl | h'
    · simp
    · have := ih h'
      refine ⟨by omega, by simp; omega, ?_⟩
      obtain ⟨o', ho', hk⟩ := this.2.2
      exact ⟨o', List.mem_cons_of_mem _ ho', hk⟩

theorem mem_applyOps {c : Cmp} {mem : Run} {n : Nat} {ops : List WOp} {y : Entry} :
    y ∈ applyOps c mem n ops ↔ y ∈ mem ∨ y ∈ opsEntries n ops := by
  induction ops generalizing mem n with
  | nil => simp [applyOps, opsEntries]
  | cons o os ih =>
    simp only [applyOps, opsEntries, ih, mem_runInsert, List.mem_cons]
    constructor
    · rintro ((h | h) | h) <;> simp [h]
    · rintro (h | h | h) <;> simp [h]

theorem filter_applyOps_of_false {c : Cmp} (p : Entry → Bool) (mem : Run) (n : Nat) (ops : List WOp)
    (h : ∀ e ∈ opsEntries n ops, p e = false) : (applyOps c mem n ops).filter p = mem.filter p := by
  induction ops generalizing mem n with
  | nil => simp [applyOps]
  | cons o os ih =>
    simp only [applyOps]
    rw [ih _ _ (fun e he => h e (List.mem_cons_of_mem _ he))]
    exact filter_runInsert_of_false p mem (h _ (by simp [opsEntries]))

theorem applyOps_sorted {c : Cmp} {mem : Run} {n : Nat} {ops : List WOp} (hs : RunSorted c mem)
    (hm : ∀ x ∈ mem, x.seq < n ∧ x.kind ≤ 1) (ho : ∀ o ∈ ops, o.kind ≤ 1) :
    RunSorted c (applyOps c mem n ops) := by
  induction ops generalizing mem n with
  | nil => exact hs
  | cons o os ih =>
    simp only [applyOps]
    apply ih
    · apply runInsert_sorted hs
      intro x hx hnlt
      exact entryLt_of_not_of_seq_gt (hm x hx).1 (hm x hx).2 hnlt
    · intro x hx
      rcases mem_runInsert.mp hx with rfl | hx'
      · exact ⟨by simp, ho o (by simp)⟩
      · exact ⟨by have := (hm x hx').1; omega, (hm x hx').2⟩
    · exact fun o' ho' => ho o' (List.mem_cons_of_mem _ ho')

/-! ### runs of steps -/

/-- the freshly created database: seven empty levels, nothing in memory -/
def emptyState : DbState :=
  { mem := [], imm := none, levels := List.replicate 7 [], lastSeq := 0, snaps := [], nextFile := 0 }

def runSteps (c : Cmp) (st : DbState) : List Step → DbState
  | [] => st
  | s :: ss => runSteps c (applyStep c st s) ss

/-- every step satisfies its contract in the state in which it is applied -/
def StepsOk (c : Cmp) (st : DbState) : List Step → Prop
  | [] => True
  | s :: ss => stepOk c st s ∧ StepsOk c (applyStep c st s) ss

instance decStepsOk (c : Cmp) : (st : DbState) → (steps : List Step) → Decidable (StepsOk c st steps)
  | _, [] => isTrue trivial
  | st, s :: ss =>
    have := decStepsOk c (applyStep c st s) ss
    inferInstanceAs (Decidable (stepOk c st s ∧ StepsOk c (applyStep c st s) ss))

end Lcdb
