/-
  Pure (state-free) counterparts of the loops of db_iter.c over a sorted run, and what they compute:

  * `fscan`  — the do-while loop of `find_next_user_entry` as a function of the position: finds the
               least *live index* at or after the start (`fscan_spec`);
  * `bscan`  — the do-while loop of `find_prev_user_entry`: finds the greatest live index below the
               start (`bscan_spec`);
  * `pscan`  — the `for (;;)` loop of `ldb_dbiter_prev` (`pscan_spec`).

  An index `j` of the run is a *head* when `r[j]` is visible at sequence `s` and no earlier entry
  with the same user key is; it is *live* when it is a head and a value.  Live indices correspond
  one to one, in order, to the entries of `visibleMap c r s` (Lemmas/DbIterImpl.lean).
-/
import LcdbModel.Lemmas.IterSimDefs
import LcdbModel.Lemmas.Lsm
namespace Lcdb.DbIt
open Lcdb Lcdb.Lsm Lcdb.CmpBasic

/-! ### index view of a run -/

def uk (r : Run) (j : Nat) : Bytes := match r[j]? with | some e => e.ukey | none => []
def vl (r : Run) (j : Nat) : String := match r[j]? with | some e => e.val | none => ""
def knd (r : Run) (j : Nat) : Nat := match r[j]? with | some e => e.kind | none => 0
def vis (s : Nat) (r : Run) (j : Nat) : Bool := match r[j]? with | some e => decide (e.seq ≤ s) | none => false

theorem uk_of {r : Run} {j : Nat} {e : Entry} (h : r[j]? = some e) : uk r j = e.ukey := by simp [uk, h]
theorem vl_of {r : Run} {j : Nat} {e : Entry} (h : r[j]? = some e) : vl r j = e.val := by simp [vl, h]
theorem knd_of {r : Run} {j : Nat} {e : Entry} (h : r[j]? = some e) : knd r j = e.kind := by simp [knd, h]
theorem vis_of {s : Nat} {r : Run} {j : Nat} {e : Entry} (h : r[j]? = some e) :
    vis s r j = decide (e.seq ≤ s) := by simp [vis, h]

theorem vis_lt {s : Nat} {r : Run} {j : Nat} (h : vis s r j = true) : j < r.length := by
  unfold vis at h
  cases hj : r[j]? with
  | none => simp [hj] at h
  | some e => exact (List.getElem?_eq_some_iff.mp hj).1

theorem get_of_lt {r : Run} {j : Nat} (h : j < r.length) : ∃ e, r[j]? = some e ∧ e ∈ r :=
  ⟨r[j], List.getElem?_eq_getElem h, List.getElem_mem h⟩

/-- visible, and no earlier entry of the same user key is visible -/
def Head (s : Nat) (r : Run) (j : Nat) : Prop :=
  vis s r j = true ∧ ∀ i, i < j → uk r i = uk r j → vis s r i = false

/-- a head that is a value: the entry the user iterator shows for its user key -/
def Live (s : Nat) (r : Run) (j : Nat) : Prop := Head s r j ∧ knd r j = 1

theorem Live.lt {s : Nat} {r : Run} {j : Nat} (h : Live s r j) : j < r.length := vis_lt h.1.1

/-! ### consequences of sortedness -/

theorem sorted_idx {c : Cmp} {r : Run} (hs : RunSorted c r) {i j : Nat} {a b : Entry} (hij : i < j)
    (ha : r[i]? = some a) (hb : r[j]? = some b) : entryLt c a b = true := by
  obtain ⟨hi, rfl⟩ := List.getElem?_eq_some_iff.mp ha
  obtain ⟨hj, rfl⟩ := List.getElem?_eq_some_iff.mp hb
  exact List.pairwise_iff_getElem.mp hs i j hi hj hij

/-- user keys are non-decreasing along the run -/
theorem uk_le {c : Cmp} {r : Run} (hs : RunSorted c r) {i j : Nat} (hij : i ≤ j) (hj : j < r.length) :
    c.compare (uk r i) (uk r j) ≠ .gt := by
  rcases Nat.lt_or_eq_of_le hij with hlt | rfl
  · obtain ⟨a, ha, _⟩ := get_of_lt (Nat.lt_trans hlt hj)
    obtain ⟨b, hb, _⟩ := get_of_lt hj
    have h := sorted_idx hs hlt ha hb
    rw [uk_of ha, uk_of hb]
    unfold entryLt at h
    rcases (ikLt_iff c _ _ _ _).mp h with h1 | ⟨h1, _⟩
    · rw [h1]; decide
    · rw [h1, compare_refl]; decide
  · rw [compare_refl]; decide

theorem cmp_antisymm (c : Cmp) {a b : Bytes} (h1 : c.compare a b ≠ .gt) (h2 : c.compare b a ≠ .gt) : a = b := by
  cases h : c.compare a b with
  | eq => exact (compare_eq_iff c a b).mp h
  | gt => exact absurd h h1
  | lt => exact absurd ((compare_lt_iff c a b).mp h) h2

theorem cmp_le_trans (c : Cmp) {a b d : Bytes} (h1 : c.compare a b ≠ .gt) (h2 : c.compare b d ≠ .gt) :
    c.compare a d ≠ .gt := by
  cases hab : c.compare a b with
  | gt => exact absurd hab h1
  | eq => rw [(compare_eq_iff c a b).mp hab]; exact h2
  | lt =>
    cases hbd : c.compare b d with
    | gt => exact absurd hbd h2
    | eq => rw [← (compare_eq_iff c b d).mp hbd, hab]; decide
    | lt => rw [compare_lt_trans c hab hbd]; decide

/-- entries with the same user key are contiguous -/
theorem uk_contig {c : Cmp} {r : Run} (hs : RunSorted c r) {i j k : Nat} (hij : i ≤ j) (hjk : j ≤ k)
    (hk : k < r.length) (h : uk r i = uk r k) : uk r j = uk r i := by
  have h1 := uk_le hs hij (Nat.lt_of_le_of_lt hjk hk)
  have h2 := uk_le hs hjk hk
  rw [← h] at h2
  exact (cmp_antisymm c h1 h2).symm

/-- within one user key, visibility is monotone: once an entry is visible all older ones are -/
theorem vis_mono {c : Cmp} {s : Nat} {r : Run} (hs : RunSorted c r) (hk : ∀ e ∈ r, e.kind ≤ 1)
    {i j : Nat} (hij : i < j) (hj : j < r.length) (hu : uk r i = uk r j) (hv : vis s r i = true) :
    vis s r j = true := by
  obtain ⟨a, ha, hma⟩ := get_of_lt (Nat.lt_trans hij hj)
  obtain ⟨b, hb, hmb⟩ := get_of_lt hj
  have h := sorted_idx hs hij ha hb
  rw [uk_of ha, uk_of hb] at hu
  rw [vis_of ha] at hv
  rw [vis_of hb]
  unfold entryLt at h
  have hp : a.packed > b.packed := by
    rcases (ikLt_iff c _ _ _ _).mp h with h1 | ⟨_, h1⟩
    · rw [hu, compare_refl] at h1; cases h1
    · exact h1
  have hka := hk a hma
  have hkb := hk b hmb
  simp only [Entry.packed] at hp
  simp only [decide_eq_true_eq] at hv ⊢
  omega

/-- a later entry of the same key as a visible one is not a head -/
theorem not_head_of_vis {s : Nat} {r : Run} {i j : Nat} (hij : i < j) (hu : uk r i = uk r j)
    (hv : vis s r i = true) : ¬ Head s r j := by
  intro h
  rw [h.2 i hij hu] at hv
  cases hv

/-! ### the forward scan (find_next_user_entry) -/

/-- the loop of find_next_user_entry from position `p`: `some q` = stops (valid) at `q`,
    `none` = runs off the end -/
def fscan (c : Cmp) (s : Nat) (r : Run) : Nat → Bool → Bytes → Nat → Option Nat
  | 0, _, _, _ => none
  | fuel + 1, skipping, skip, p =>
    match r[p]? with
    | none => none
    | some e =>
      if decide (e.seq ≤ s) then
        if e.kind == 0 then fscan c s r fuel true e.ukey (p + 1)
        else if skipping && c.compare e.ukey skip != .gt then fscan c s r fuel skipping skip (p + 1)
        else some p
      else fscan c s r fuel skipping skip (p + 1)

/-- what is known when the loop is at position `p` with (`skipping`, `skip`) -/
structure FwdInv (c : Cmp) (s : Nat) (r : Run) (p : Nat) (skipping : Bool) (skip : Bytes) : Prop where
  /-- an earlier visible entry with the key of a later one exists only for the skipped key -/
  shadow : ∀ i j, i < p → p ≤ j → j < r.length → uk r i = uk r j → vis s r i = true →
    skipping = true ∧ uk r j = skip
  low : skipping = true → ∀ j, p ≤ j → j < r.length → c.compare skip (uk r j) ≠ .gt
  dead : skipping = true → ∀ j, p ≤ j → j < r.length → uk r j = skip → ¬ Head s r j

theorem fscan_spec {c : Cmp} {s : Nat} {r : Run} (hs : RunSorted c r) (hk : ∀ e ∈ r, e.kind ≤ 1) :
    ∀ (fuel : Nat) (skipping : Bool) (skip : Bytes) (p : Nat), r.length < fuel + p →
      FwdInv c s r p skipping skip →
      match fscan c s r fuel skipping skip p with
      | some q => p ≤ q ∧ Live s r q ∧ ∀ j, p ≤ j → j < q → ¬ Live s r j
      | none => ∀ j, p ≤ j → ¬ Live s r j := by
  intro fuel
  induction fuel with
  | zero =>
    intro skipping skip p hf _
    simp only [fscan]
    intro j hj hl
    have := hl.lt
    omega
  | succ fuel ih =>
    intro skipping skip p hf hinv
    unfold fscan
    cases hp : r[p]? with
    | none =>
      simp only
      intro j hj hl
      have := hl.lt
      have : r.length ≤ p := by
        rcases Nat.lt_or_ge p r.length with h | h
        · obtain ⟨e, he, _⟩ := get_of_lt h; rw [he] at hp; cases hp
        · exact h
      omega
    | some e =>
      have hpl : p < r.length := (List.getElem?_eq_some_iff.mp hp).1
      have hek : e.kind ≤ 1 := hk e (List.mem_of_getElem? hp)
      simp only
      -- a common continuation: position p is not live and the invariant holds at p+1
      have cont : ∀ (sk' : Bool) (skip' : Bytes), ¬ Live s r p → FwdInv c s r (p + 1) sk' skip' →
          match fscan c s r fuel sk' skip' (p + 1) with
          | some q => p ≤ q ∧ Live s r q ∧ ∀ j, p ≤ j → j < q → ¬ Live s r j
          | none => ∀ j, p ≤ j → ¬ Live s r j := by
        intro sk' skip' hnl hinv'
        have := ih sk' skip' (p + 1) (by omega) hinv'
        cases hr : fscan c s r fuel sk' skip' (p + 1) with
        | none =>
          rw [hr] at this
          simp only at this ⊢
          intro j hj
          rcases Nat.lt_or_eq_of_le hj with h | rfl
          · exact this j h
          · exact hnl
        | some q =>
          rw [hr] at this
          simp only at this ⊢
          obtain ⟨h1, h2, h3⟩ := this
          refine ⟨by omega, h2, fun j hj hjq => ?_⟩
          rcases Nat.lt_or_eq_of_le hj with h | rfl
          · exact h3 j h hjq
          · exact hnl
      by_cases hv : e.seq ≤ s
      · have hvp : vis s r p = true := by rw [vis_of hp]; simpa using hv
        simp only [hv, decide_true, if_true]
        by_cases hk0 : e.kind = 0
        · -- visible deletion: skip := its user key
          simp only [hk0, beq_self_eq_true, if_true]
          apply cont
          · intro hl
            have := hl.2
            rw [knd_of hp] at this
            omega
          · refine ⟨?_, ?_, ?_⟩
            · intro i j hi hj hjl hu hvi
              refine ⟨rfl, ?_⟩
              rcases Nat.lt_or_eq_of_le (Nat.le_of_lt_succ hi) with hip | rfl
              · obtain ⟨hsk, hjs⟩ := hinv.shadow i j hip (by omega) hjl hu hvi
                have h1 := hinv.low hsk p (Nat.le_refl p) hpl
                have h2 := uk_le hs (show p ≤ j by omega) hjl
                rw [hjs] at h2
                rw [← uk_of hp, hjs]
                exact cmp_antisymm c h1 h2
              · rw [← uk_of hp]; exact hu.symm
            · intro _ j hj hjl
              rw [← uk_of hp]
              exact uk_le hs (by omega) hjl
            · intro _ j hj hjl hu
              rw [← uk_of hp] at hu
              exact not_head_of_vis (show p < j by omega) hu.symm hvp
        · have hk1 : e.kind = 1 := by omega
          have hne : (e.kind == 0) = false := by simp [hk0]
          simp only [hne, Bool.false_eq_true, if_false]
          by_cases hh : (skipping && c.compare e.ukey skip != .gt) = true
          · -- hidden value
            simp only [hh, if_true]
            simp only [Bool.and_eq_true, bne_iff_ne, ne_eq] at hh
            obtain ⟨hsk, hle⟩ := hh
            have hup : uk r p = skip := by
              rw [uk_of hp]
              have h1 := hinv.low hsk p (Nat.le_refl p) hpl
              rw [uk_of hp] at h1
              exact cmp_antisymm c hle h1
            apply cont
            · intro hl
              exact hinv.dead hsk p (Nat.le_refl p) hpl hup hl.1
            · refine ⟨?_, ?_, ?_⟩
              · intro i j hi hj hjl hu hvi
                rcases Nat.lt_or_eq_of_le (Nat.le_of_lt_succ hi) with hip | rfl
                · exact hinv.shadow i j hip (by omega) hjl hu hvi
                · exact ⟨hsk, by rw [← hu]; exact hup⟩
              · intro h j hj hjl
                exact hinv.low h j (by omega) hjl
              · intro h j hj hjl hu
                exact hinv.dead h j (by omega) hjl hu
          · -- accepted
            have hh' : (skipping && c.compare e.ukey skip != .gt) = false := by
              cases h : (skipping && c.compare e.ukey skip != .gt) with
              | true => exact absurd h hh
              | false => rfl
            simp only [hh', Bool.false_eq_true, if_false]
            refine ⟨Nat.le_refl p, ⟨⟨hvp, fun i hi hu => ?_⟩, by rw [knd_of hp]; exact hk1⟩, fun j hj hjp => by omega⟩
            cases hvi : vis s r i with
            | false => rfl
            | true =>
              obtain ⟨hsk, hjs⟩ := hinv.shadow i p hi (Nat.le_refl p) hpl hu hvi
              rw [uk_of hp] at hjs
              rw [hsk, hjs, compare_refl] at hh'
              simp at hh'
      · -- invisible entry
        have hvp : vis s r p = false := by rw [vis_of hp]; simpa using hv
        simp only [hv, decide_false, Bool.false_eq_true, if_false]
        apply cont
        · intro hl
          rw [hl.1.1] at hvp
          cases hvp
        · refine ⟨?_, ?_, ?_⟩
          · intro i j hi hj hjl hu hvi
            rcases Nat.lt_or_eq_of_le (Nat.le_of_lt_succ hi) with hip | rfl
            · exact hinv.shadow i j hip (by omega) hjl hu hvi
            · rw [hvp] at hvi; cases hvi
          · intro h j hj hjl
            exact hinv.low h j (by omega) hjl
          · intro h j hj hjl hu
            exact hinv.dead h j (by omega) hjl hu

/-- invisible entries are stepped over without any change of the loop state -/
theorem fscan_skip_invisible {c : Cmp} {s : Nat} {r : Run} (skipping : Bool) (skip : Bytes) :
    ∀ (d fuel p : Nat), (∀ j, p ≤ j → j < p + d → vis s r j = false) → p + d ≤ r.length →
      fscan c s r (fuel + d) skipping skip p = fscan c s r fuel skipping skip (p + d) := by
  intro d
  induction d with
  | zero => intro fuel p _ _; rfl
  | succ d ih =>
    intro fuel p hinv hle
    obtain ⟨e, he, _⟩ := get_of_lt (show p < r.length by omega)
    have hv : vis s r p = false := hinv p (Nat.le_refl p) (by omega)
    rw [vis_of he] at hv
    have hv' : ¬ e.seq ≤ s := by simpa using hv
    rw [show fuel + (d + 1) = (fuel + d) + 1 by omega]
    conv => lhs; unfold fscan
    simp only [he, hv', decide_false, Bool.false_eq_true, if_false]
    rw [ih fuel (p + 1) (fun j hj hjl => hinv j (by omega) (by omega)) (by omega)]
    rw [show p + 1 + d = p + (d + 1) by omega]

/-- a visible value with the skipped key is stepped over -/
theorem fscan_hidden {c : Cmp} {s : Nat} {r : Run} {fuel p : Nat} {skip : Bytes} {e : Entry}
    (he : r[p]? = some e) (hv : e.seq ≤ s) (hk : e.kind = 1) (hu : e.ukey = skip) :
    fscan c s r (fuel + 1) true skip p = fscan c s r fuel true skip (p + 1) := by
  conv => lhs; unfold fscan
  simp [he, hv, hk, hu, compare_refl]

/-! ### the backward scan (find_prev_user_entry) -/

structure BRes where
  pos : Option Nat
  vt : Nat
  sk : Bytes
  sv : String

/-- the loop of find_prev_user_entry; `k` = number of entries not yet processed (the internal iterator
    is at index `k - 1`, `k = 0`: it ran off the front / was invalid) -/
def bscan (c : Cmp) (s : Nat) (r : Run) : Nat → Nat → Nat → Bytes → String → BRes
  | _, 0, vt, sk, sv => ⟨none, vt, sk, sv⟩
  | 0, p + 1, vt, sk, sv => ⟨some p, vt, sk, sv⟩
  | fuel + 1, p + 1, vt, sk, sv =>
    match r[p]? with
    | none => ⟨none, vt, sk, sv⟩
    | some e =>
      if decide (e.seq ≤ s) then
        if vt != 0 && c.compare e.ukey sk == .lt then ⟨some p, vt, sk, sv⟩
        else if e.kind == 0 then bscan c s r fuel p 0 [] ""
        else bscan c s r fuel p e.kind e.ukey e.val
      else bscan c s r fuel p vt sk sv

/-- loop invariant: entries `[k, hi)` have been processed -/
def BInv (s : Nat) (r : Run) (hi k vt : Nat) (sk : Bytes) (sv : String) : Prop :=
  (vt = 0 ∧ ∀ j, k ≤ j → j < hi → ¬ Live s r j) ∨
  (vt = 1 ∧ ∃ v, k ≤ v ∧ v < hi ∧ vis s r v = true ∧ knd r v = 1 ∧ sk = uk r v ∧ sv = vl r v ∧
    (∀ i, k ≤ i → i < v → vis s r i = false) ∧ (∀ j, v < j → j < hi → ¬ Live s r j))

/-- result: the greatest live index below `hi` (saved key / value are its), the iterator parked
    before it with only invisible entries in between; or no live index below `hi` -/
def BPost (s : Nat) (r : Run) (hi : Nat) (res : BRes) : Prop :=
  (res.vt = 0 ∧ ∀ j, j < hi → ¬ Live s r j) ∨
  (res.vt = 1 ∧ ∃ q, q < hi ∧ Live s r q ∧ (∀ j, q < j → j < hi → ¬ Live s r j) ∧
    res.sk = uk r q ∧ res.sv = vl r q ∧
    match res.pos with
    | some p => p < q ∧ ∀ j, p < j → j < q → vis s r j = false
    | none => ∀ j, j < q → vis s r j = false)

theorem bscan_spec {c : Cmp} {s : Nat} {r : Run} (hs : RunSorted c r) (hk : ∀ e ∈ r, e.kind ≤ 1)
    (hi : Nat) (hhi : hi ≤ r.length) :
    ∀ (fuel k vt : Nat) (sk : Bytes) (sv : String), k ≤ fuel → k ≤ hi → BInv s r hi k vt sk sv →
      BPost s r hi (bscan c s r fuel k vt sk sv) := by
  intro fuel
  induction fuel with
  | zero =>
    intro k vt sk sv hkf _ hinv
    have : k = 0 := by omega
    subst this
    simp only [bscan]
    rcases hinv with ⟨h0, hn⟩ | ⟨h1, v, _, hv1, hv2, hv3, hv4, hv5, hv6, hv7⟩
    · exact Or.inl ⟨h0, fun j hj => hn j (Nat.zero_le j) hj⟩
    · exact Or.inr ⟨h1, v, hv1, ⟨⟨hv2, fun i hi' _ => hv6 i (Nat.zero_le i) hi'⟩, hv3⟩, hv7, hv4, hv5,
        fun j hj => hv6 j (Nat.zero_le j) hj⟩
  | succ fuel ih =>
    intro k vt sk sv hkf hkhi hinv
    cases k with
    | zero =>
      simp only [bscan]
      rcases hinv with ⟨h0, hn⟩ | ⟨h1, v, _, hv1, hv2, hv3, hv4, hv5, hv6, hv7⟩
      · exact Or.inl ⟨h0, fun j hj => hn j (Nat.zero_le j) hj⟩
      · exact Or.inr ⟨h1, v, hv1, ⟨⟨hv2, fun i hi' _ => hv6 i (Nat.zero_le i) hi'⟩, hv3⟩, hv7, hv4, hv5,
          fun j hj => hv6 j (Nat.zero_le j) hj⟩
    | succ p =>
      have hpl : p < r.length := by omega
      obtain ⟨e, hp, hmem⟩ := get_of_lt hpl
      have hek : e.kind ≤ 1 := hk e hmem
      simp only [bscan, hp]
      by_cases hv : e.seq ≤ s
      · have hvp : vis s r p = true := by rw [vis_of hp]; simpa using hv
        simp only [hv, decide_true, if_true]
        by_cases hb : (vt != 0 && c.compare e.ukey sk == .lt) = true
        · -- break
          simp only [hb, if_true]
          simp only [Bool.and_eq_true, bne_iff_ne, ne_eq, beq_iff_eq] at hb
          obtain ⟨hvt, hlt⟩ := hb
          rcases hinv with ⟨h0, _⟩ | ⟨h1, v, hv0, hv1, hv2, hv3, hv4, hv5, hv6, hv7⟩
          · exact absurd h0 hvt
          · refine Or.inr ⟨h1, v, hv1, ⟨⟨hv2, fun i hiv hu => ?_⟩, hv3⟩, hv7, hv4, hv5, by omega, fun j hj hjv => hv6 j (by omega) hjv⟩
            rcases Nat.lt_or_ge i (p + 1) with hip | hip
            · exfalso
              have h1' := uk_le hs (show i ≤ p by omega) hpl
              rw [hu, uk_of hp, ← hv4] at h1'
              exact h1' ((compare_lt_iff c _ _).mp hlt)
            · exact hv6 i hip hiv
        · have hb' : (vt != 0 && c.compare e.ukey sk == .lt) = false := by
            cases h : (vt != 0 && c.compare e.ukey sk == .lt) with
            | true => exact absurd h hb
            | false => rfl
          simp only [hb', Bool.false_eq_true, if_false]
          -- nothing processed so far is live once `p` (visible) is taken into account
          have hdead : ∀ j, p < j → j < hi → ¬ Live s r j := by
            rcases hinv with ⟨_, hn⟩ | ⟨h1, v, hv0, hv1, hv2, hv3, hv4, hv5, hv6, hv7⟩
            · intro j hj hjh; exact hn j (by omega) hjh
            · have hpv : uk r p = uk r v := by
                have h1' := uk_le hs (show p ≤ v by omega) (show v < r.length by omega)
                have hb'' : c.compare (uk r p) (uk r v) ≠ .lt := by
                  intro h
                  rw [uk_of hp, ← hv4] at h
                  rw [h1, h] at hb'
                  simp at hb'
                cases hc : c.compare (uk r p) (uk r v) with
                | lt => exact absurd hc hb''
                | gt => exact absurd hc h1'
                | eq => exact (compare_eq_iff c _ _).mp hc
              intro j hj hjh hl
              rcases Nat.lt_trichotomy j v with hjv | rfl | hjv
              · have := hl.1.1; rw [hv6 j (by omega) hjv] at this; cases this
              · exact not_head_of_vis (show p < j by omega) hpv hvp hl.1
              · exact hv7 j hjv hjh hl
          by_cases hk0 : e.kind = 0
          · simp only [hk0, beq_self_eq_true, if_true]
            apply ih p 0 [] "" (by omega) (by omega)
            refine Or.inl ⟨rfl, fun j hj hjh hl => ?_⟩
            rcases Nat.lt_or_eq_of_le hj with h | rfl
            · exact hdead j h hjh hl
            · have := hl.2; rw [knd_of hp] at this; omega
          · have hk1 : e.kind = 1 := by omega
            have hne : (e.kind == 0) = false := by simp [hk0]
            simp only [hne, Bool.false_eq_true, if_false]
            apply ih p e.kind e.ukey e.val (by omega) (by omega)
            exact Or.inr ⟨hk1, p, Nat.le_refl p, by omega, hvp, by rw [knd_of hp]; exact hk1, (uk_of hp).symm,
              (vl_of hp).symm, fun i h1 h2 => by omega, hdead⟩
      · have hvp : vis s r p = false := by rw [vis_of hp]; simpa using hv
        simp only [hv, decide_false, Bool.false_eq_true, if_false]
        apply ih p vt sk sv (by omega) (by omega)
        rcases hinv with ⟨h0, hn⟩ | ⟨h1, v, hv0, hv1, hv2, hv3, hv4, hv5, hv6, hv7⟩
        · refine Or.inl ⟨h0, fun j hj hjh hl => ?_⟩
          rcases Nat.lt_or_eq_of_le hj with h | rfl
          · exact hn j (by omega) hjh hl
          · rw [hl.1.1] at hvp; cases hvp
        · refine Or.inr ⟨h1, v, by omega, hv1, hv2, hv3, hv4, hv5, fun i hi1 hi2 => ?_, hv7⟩
          rcases Nat.lt_or_eq_of_le hi1 with h | rfl
          · exact hv6 i (by omega) hi2
          · exact hvp

/-! ### the re-scan of ldb_dbiter_prev -/

/-- the `for (;;)` loop of ldb_dbiter_prev with the internal iterator at index `k`: step back until
    the user key is below `K`; `none` = ran off the front -/
def pscan (c : Cmp) (r : Run) (K : Bytes) : Nat → Nat → Option Nat
  | _, 0 => none
  | 0, _ + 1 => none
  | fuel + 1, p + 1 =>
    match r[p]? with
    | none => none
    | some e => if c.compare e.ukey K == .lt then some p else pscan c r K fuel p

theorem pscan_spec {c : Cmp} {r : Run} (hs : RunSorted c r) (K : Bytes) (q : Nat) (hq : q < r.length)
    (hK : uk r q = K) :
    ∀ (fuel k : Nat), k ≤ fuel → k ≤ q → (∀ j, k ≤ j → j ≤ q → uk r j = K) →
      match pscan c r K fuel k with
      | some h => h < k ∧ c.compare (uk r h) K = .lt ∧ ∀ j, h < j → j ≤ q → uk r j = K
      | none => ∀ j, j ≤ q → uk r j = K := by
  intro fuel
  induction fuel with
  | zero =>
    intro k hkf _ hinv
    have : k = 0 := by omega
    subst this
    simp only [pscan]
    exact fun j hj => hinv j (Nat.zero_le j) hj
  | succ fuel ih =>
    intro k hkf hkq hinv
    cases k with
    | zero => simp only [pscan]; exact fun j hj => hinv j (Nat.zero_le j) hj
    | succ p =>
      obtain ⟨e, hp, _⟩ := get_of_lt (show p < r.length by omega)
      simp only [pscan, hp]
      by_cases hlt : c.compare e.ukey K = .lt
      · simp only [hlt, beq_self_eq_true, if_true]
        exact ⟨by omega, by rw [uk_of hp]; exact hlt, fun j hj hjq => hinv j (by omega) hjq⟩
      · have hne : (c.compare e.ukey K == .lt) = false := by simpa using hlt
        simp only [hne, Bool.false_eq_true, if_false]
        have hinv' : ∀ j, p ≤ j → j ≤ q → uk r j = K := by
          intro j hj hjq
          rcases Nat.lt_or_eq_of_le hj with h | rfl
          · exact hinv j (by omega) hjq
          · have h1 := uk_le hs (show p ≤ q by omega) hq
            rw [hK, uk_of hp] at h1
            rw [uk_of hp]
            cases hc : c.compare e.ukey K with
            | lt => exact absurd hc hlt
            | gt => exact absurd hc h1
            | eq => exact (compare_eq_iff c _ _).mp hc
        have := ih p (by omega) (by omega) hinv'
        cases hr : pscan c r K fuel p with
        | none => rw [hr] at this; exact this
        | some h =>
          rw [hr] at this
          exact ⟨by have := this.1; omega, this.2⟩

end Lcdb.DbIt
