/-
  Packaging of the block-iterator theorems for the table proofs: over a canonical block
  (`CanonBlock data es`) with sorted keys the iterator returned by `blockIterCreate data` is a
  cursor over `es`.  `BlockAt data es ti p` = "`ti` iterates over `data`, stands at cursor
  position `p` of `es`, and has not flagged corruption".
-/
import LcdbModel.Lemmas.TableDefs
import LcdbModel.Lemmas.BlockIter
import LcdbModel.Lemmas.BlockBuild
import LcdbModel.Lemmas.BlockExtras
import LcdbModel.Lemmas.OrdInstances
import LcdbModel.Lemmas.Cursor
namespace Lcdb

/-- hypotheses under which the iterator over `data` is a cursor over `es` -/
structure BlockCtx (c : BlockCmp) (data : Bytes) (es : List (Bytes × Bytes)) : Prop where
  canon : CanonBlock data es
  sizes : ∀ e ∈ es, e.1.length < 2 ^ 32 ∧ e.2.length < 2 ^ 32
  total : data.length < 2 ^ 32
  laws : OrdLaws c.cmp
  sorted : SortedKeys c.cmp (es.map (·.1))
  ikeys : c.internal = true → ∀ e ∈ es, 8 ≤ e.1.length

/-- `ti` iterates over the canonical block `data` of `es`, stands at cursor position `p`, and
    has not flagged corruption -/
def BlockAt (data : Bytes) (es : List (Bytes × Bytes)) (ti : TIter) (p : Option Nat) : Prop :=
  ∃ ri, data = blockBuild (ri + 1) es ∧
    TRel data (encAll (ri + 1) 0 [] es).length ((restartsGo (ri + 1) 0 0 [] es).length + 1)
      (layout (ri + 1) 0 0 [] es) ti p

theorem entriesOf_keys' (data : Bytes) (L : List Ent) :
    (entriesOf data L).map (·.1) = L.map (·.key) := by
  simp [entriesOf, List.map_map, Function.comp_def]

section
variable {c : BlockCmp} {data : Bytes} {es : List (Bytes × Bytes)}

theorem BlockCtx.wf (h : BlockCtx c data es) (ri : Nat) (hd : data = blockBuild (ri + 1) es) :
    WfBlock data (encAll (ri + 1) 0 [] es).length ((restartsGo (ri + 1) 0 0 [] es).length + 1)
        (layout (ri + 1) 0 0 [] es) ∧
      entriesOf data (layout (ri + 1) 0 0 [] es) = es := by
  subst hd
  exact blockBuild_wf' (ri + 1) es (by omega) h.sizes h.total

theorem BlockCtx.simL (h : BlockCtx c data es) (ri : Nat) (hd : data = blockBuild (ri + 1) es) :
    IterOps.Sim (blockIterOps c) (cursorOps c.cmp (es.map (·.1)))
      (TRel data (encAll (ri + 1) 0 [] es).length ((restartsGo (ri + 1) 0 0 [] es).length + 1)
        (layout (ri + 1) 0 0 [] es))
      (fun x => c.internal = true → 8 ≤ x.length) := by
  obtain ⟨hw, hes⟩ := h.wf ri hd
  have hkeys : es.map (·.1) = (layout (ri + 1) 0 0 [] es).map (·.key) := by
    rw [← entriesOf_keys' data, hes]
  have hsorted : SortedEnts c.cmp (layout (ri + 1) 0 0 [] es) := by
    have := h.sorted
    rw [hkeys] at this
    exact List.pairwise_map.mp this
  have hint : c.internal = true → ∀ e ∈ layout (ri + 1) 0 0 [] es, 8 ≤ e.key.length := by
    intro hc e he
    have hmem : (e.key, e.value data) ∈ entriesOf data (layout (ri + 1) 0 0 [] es) :=
      List.mem_map.mpr ⟨e, he, rfl⟩
    rw [hes] at hmem
    exact h.ikeys hc _ hmem
  rw [hkeys]
  exact hw.sim c h.laws hsorted hint

/-- the fresh iterator -/
theorem BlockCtx.create (h : BlockCtx c data es) : BlockAt data es (blockIterCreate data) none := by
  obtain ⟨ri, _, hd⟩ := h.canon
  exact ⟨ri, hd, (h.wf ri hd).1.create⟩

/-- the iterator over a canonical sorted block simulates the cursor over its entries -/
theorem BlockCtx.sim (h : BlockCtx c data es) :
    IterOps.Sim (blockIterOps c) (cursorOps c.cmp (es.map (·.1))) (BlockAt data es)
      (fun x => c.internal = true → 8 ≤ x.length) := by
  refine ⟨?_, ?_, ?_, ?_, ?_, ?_, ?_, ?_⟩
  · intro s t ⟨ri, hd, hr⟩; exact (h.simL ri hd).valid s t hr
  · intro s t ⟨ri, hd, hr⟩; exact (h.simL ri hd).key s t hr
  · intro s t x ⟨ri, hd, hr⟩; exact (h.simL ri hd).compare s t x hr
  · intro s t ⟨ri, hd, hr⟩
    obtain ⟨s', t', h1, h2, h3⟩ := (h.simL ri hd).first s t hr
    exact ⟨s', t', h1, h2, ri, hd, h3⟩
  · intro s t ⟨ri, hd, hr⟩
    obtain ⟨s', t', h1, h2, h3⟩ := (h.simL ri hd).last s t hr
    exact ⟨s', t', h1, h2, ri, hd, h3⟩
  · intro s t ⟨ri, hd, hr⟩ hv
    obtain ⟨s', t', h1, h2, h3⟩ := (h.simL ri hd).next s t hr hv
    exact ⟨s', t', h1, h2, ri, hd, h3⟩
  · intro s t ⟨ri, hd, hr⟩ hv
    obtain ⟨s', t', h1, h2, h3⟩ := (h.simL ri hd).prev s t hr hv
    exact ⟨s', t', h1, h2, ri, hd, h3⟩
  · intro s t x ⟨ri, hd, hr⟩ hx
    obtain ⟨s', t', h1, h2, h3⟩ := (h.simL ri hd).seek s t x hr hx
    exact ⟨s', t', h1, h2, ri, hd, h3⟩

/-- what can be observed of an iterator at a known position -/
theorem BlockAt.obs (h : BlockCtx c data es) {ti : TIter} {p : Option Nat} (hr : BlockAt data es ti p) :
    ti.status = .ok ∧ ti.valid = p.isSome ∧
      ∀ i, p = some i → ∃ hi : i < es.length, ti.key = es[i].1 ∧ ti.value = es[i].2 := by
  obtain ⟨ri, hd, hr⟩ := hr
  obtain ⟨hw, hes⟩ := h.wf ri hd
  have hv := (h.simL ri hd).valid ti p hr
  obtain ⟨bi, hit, hpos, hst⟩ := hr
  refine ⟨by rw [hit]; exact hst, ?_, ?_⟩
  · simpa [blockIterOps, cursorOps] using hv
  · intro i hp
    subst hp
    obtain ⟨hb, e, hi, he⟩ := hpos
    have hil : i < (layout (ri + 1) 0 0 [] es).length := (List.getElem?_eq_some_iff.mp hi).1
    have hlen : (entriesOf data (layout (ri + 1) 0 0 [] es)).length
        = (layout (ri + 1) 0 0 [] es).length := by simp [entriesOf]
    have hlen' : es.length = (layout (ri + 1) 0 0 [] es).length := by rw [← hlen, hes]
    have hesi : es[i]? = some (e.key, e.value data) := by
      have : (entriesOf data (layout (ri + 1) 0 0 [] es))[i]? = some (e.key, e.value data) := by
        simp [entriesOf, hi]
      rw [hes] at this; exact this
    obtain ⟨hi', hget⟩ := List.getElem?_eq_some_iff.mp hesi
    refine ⟨hi', ?_, ?_⟩
    · rw [hget, hit]; exact he.2.1
    · rw [hget, hit]; exact OnEntry.valueBytes hb he

end
end Lcdb
