/-
  A rank (potential) on the states of the concurrency model that strictly decreases along every step that continues
  an operation in flight, except for the two kinds of worker steps that can repeat without bound: `bgStart` (the
  worker starts another round: `bgFinish` may reschedule it for as long as the data say a compaction is needed) and
  `bgMid false _ false` (a critical section of the worker that neither installs a flush nor records an error); those
  increase the rank by at most a constant.
-/
import LcdbModel.Lemmas.Conc

namespace Lcdb.Conc

/-- the worker steps that can repeat without bound -/
def isSpin : Label → Bool
  | .bgStart => true
  | .bgMid false _ false => true
  | _ => false

def wbase (U : Nat) : WPc → Nat
  | .idle => 0
  | .returned _ => 0
  | .asleepW => 3 * U + 1
  | .wokenW => 3 * U
  | .asleepBg => 2 * U
  | .wokenBg => 2 * U + 1
  | .delayed => 3 * U
  | .io => 1

def inFlightPc : WPc → Bool
  | .idle => false
  | .returned _ => false
  | _ => true

/-- the 1 ms delay a writer may still take -/
def bonus (U : Nat) (w : Writer) : Nat := if w.usedDelay then 0 else U

/-- rank of a writer: distance to its return, plus the delay it may still take -/
def wrank (U : Nat) (w : Writer) : Nat :=
  (if inFlightPc w.pc then (if w.done then 1 else wbase U w.pc) else 0) + bonus U w

def immrank (M : Nat) (b : Bool) : Nat := if b then M else 0
def errrank (M : Nat) (b : Bool) : Nat := if b then 0 else M

def rrank (r : Reader) : Nat :=
  match r.pc with
  | .reading _ => 3
  | .releasing _ => 2
  | _ => 0

def crank : CPc → Nat
  | .asleepBg => 1
  | .wokenBg => 2
  | _ => 0

def bgrank (M : Nat) : BgPc → Nat
  | .parked => 0
  | .posted => 1
  | .working => M + 1

def WS (U : Nat) (st : St) : Nat := (st.writers.map (wrank U)).sum
def RS (st : St) : Nat := (st.readers.map rrank).sum

def rankWith (M U : Nat) (st : St) : Nat :=
  WS U st + RS st + crank st.closer + bgrank M st.bg + immrank M st.imm + errrank M st.bgError

/-- the rank: `M` exceeds the number of sleepers a broadcast can wake, `U` exceeds what starting a group can add -/
def rank (st : St) : Nat := rankWith (st.writers.length + 2) (st.writers.length + 4) st

/-! ### sums -/

theorem sum_map_le {α : Type} (l : List α) (f f' : α → Nat) (h : ∀ x ∈ l, f' x ≤ f x) :
    (l.map f').sum ≤ (l.map f).sum := by
  induction l with
  | nil => simp
  | cons a l ih =>
    simp only [List.map_cons, List.sum_cons]
    have := h a (by simp)
    have := ih (fun x hx => h x (by simp [hx]))
    omega

theorem sum_map_lt {α : Type} (l : List α) (f f' : α → Nat) (h : ∀ x ∈ l, f' x ≤ f x) {a : α} (ha : a ∈ l) {d : Nat}
    (hd : f' a + d ≤ f a) : (l.map f').sum + d ≤ (l.map f).sum := by
  induction l with
  | nil => cases ha
  | cons b l ih =>
    simp only [List.map_cons, List.sum_cons]
    rcases List.mem_cons.1 ha with rfl | ha
    · have := sum_map_le l f f' (fun x hx => h x (by simp [hx]))
      omega
    · have := h b (by simp)
      have := ih (fun x hx => h x (by simp [hx])) ha
      omega

theorem sum_map_le_add {α : Type} (l : List α) (f f' : α → Nat) (h : ∀ x ∈ l, f' x ≤ f x + 1) :
    (l.map f').sum ≤ (l.map f).sum + l.length := by
  induction l with
  | nil => simp
  | cons a l ih =>
    simp only [List.map_cons, List.sum_cons, List.length_cons]
    have := h a (by simp)
    have := ih (fun x hx => h x (by simp [hx]))
    omega

theorem WS_mapW (U : Nat) (G : St) (g : Writer → Writer) :
    WS U (mapW G g) = (G.writers.map (fun x => wrank U (g x))).sum := by
  simp [WS, List.map_map, Function.comp_def]

/-! ### the rank of updated records -/

theorem wrank_wake_le (U : Nat) (x : Writer) : wrank U (wake x) ≤ wrank U x := by
  unfold wake; split
  · rename_i h
    cases hd : x.done <;> simp [wrank, bonus, h, inFlightPc, wbase, hd]
  · exact Nat.le_refl _

theorem wrank_wakeHead_le (U : Nat) (q : List Tid) (x : Writer) : wrank U (wakeHead q x) ≤ wrank U x := by
  unfold wakeHead; split
  · exact wrank_wake_le U x
  · exact Nat.le_refl _

theorem wrank_bwake_le (U : Nat) (x : Writer) : wrank U (bwake x) ≤ wrank U x + 1 := by
  unfold bwake; split
  · rename_i h
    cases hd : x.done <;> simp [wrank, bonus, h, inFlightPc, wbase, hd] <;> omega
  · omega

theorem wrank_markF_le {U : Nat} (hU : 1 ≤ U) (ok : Bool) (x : Writer) : wrank U (markF ok x) ≤ wrank U x := by
  cases hpc : x.pc <;> cases hd : x.done <;>
    simp [wrank, bonus, markF, hpc, inFlightPc, wbase, hd] <;> try omega

theorem wrank_returned (U : Nat) (w : Writer) (ok : Bool) :
    wrank U { w with pc := .returned ok } = bonus U w := by
  simp [wrank, inFlightPc, bonus]

/-- the rank of a head writer that has been woken -/
theorem wrank_woken {U : Nat} (hU : 1 ≤ U) {w : Writer} (hpc : w.pc = .wokenW ∨ w.pc = .wokenBg ∨ w.pc = .delayed)
    (hd : w.done = false) : 2 * U + 1 + bonus U w ≤ wrank U w := by
  rcases hpc with h | h | h <;> simp [wrank, h, inFlightPc, hd, wbase] <;> omega

theorem wrank_setPc (U : Nat) {w : Writer} (hd : w.done = false) (p : WPc) (hp : inFlightPc p = true) :
    wrank U { w with pc := p } = wbase U p + bonus U w := by
  simp [wrank, hp, hd, bonus]

theorem rankWith_mapW (M U : Nat) (G : St) (g : Writer → Writer) :
    rankWith M U (mapW G g) = (G.writers.map (fun x => wrank U (g x))).sum + RS G + crank G.closer + bgrank M G.bg +
      immrank M G.imm + errrank M G.bgError := by
  simp [rankWith, WS_mapW, RS]

/-- one writer gets a new record of smaller rank, the others are only signalled -/
theorem WS_act {U : Nat} {st G : St} {w w' : Writer} {g' : Writer → Writer}
    (hN : (st.writers.map (·.tid)).Nodup) (hw : w ∈ st.writers) (hG : G.writers = st.writers)
    (hg' : ∀ x, wrank U (g' x) ≤ wrank U x) {d : Nat} (hd : wrank U w' + d ≤ wrank U w) :
    (G.writers.map (fun x => wrank U ((g' ∘ putW w.tid w') x))).sum + d ≤ WS U st := by
  rw [hG]
  unfold WS
  refine sum_map_lt st.writers (wrank U) _ ?_ hw ?_
  · intro x hx
    simp only [Function.comp, putW]
    split
    · rename_i h
      rw [writer_unique hN hx hw h]
      have := hg' w'; omega
    · exact hg' x
  · simp only [Function.comp, putW, if_true]
    have := hg' w'; omega

theorem rank_broadcast (M U : Nat) (G : St) :
    rankWith M U (broadcastBg G) ≤ rankWith M U G + G.writers.length + 1 := by
  rw [broadcastBg_eq]
  have h1 : ((G.writers.map bwake).map (wrank U)).sum ≤ (G.writers.map (wrank U)).sum + G.writers.length := by
    rw [List.map_map]; exact sum_map_le_add _ _ _ (fun x _ => wrank_bwake_le U x)
  have h2 : crank (if G.closer = .asleepBg then .wokenBg else G.closer) ≤ crank G.closer + 1 := by
    split
    · rename_i h; rw [h]; simp [crank]
    · omega
  simp only [rankWith, RS, WS, mapW_readers, mapW_writers, mapW_bg, mapW_imm, mapW_bgError] at h1 h2 ⊢
  omega

theorem rank_maybeSchedule (M U : Nat) {G : St} (hs : G.bgScheduled = false → G.bg = .parked) :
    rankWith M U (maybeSchedule G) ≤ rankWith M U G + 1 := by
  rw [maybeSchedule_eq]
  split
  · rename_i hc
    have := hs hc.1
    simp only [rankWith, WS, RS, this, bgrank]; omega
  · omega

theorem fail_rank {M U : Nat} {st : St} {w : Writer} (hN : (st.writers.map (·.tid)).Nodup) (hw : w ∈ st.writers)
    {d : Nat} (hd : bonus U w + d ≤ wrank U w) :
    (failAct st w).writers.length = st.writers.length ∧ rankWith M U (failAct st w) + d ≤ rankWith M U st := by
  rw [failAct_eq hN]
  refine ⟨by simp [failG], ?_⟩
  rw [rankWith_mapW]
  have := WS_act (U := U) (G := failG st w.tid) (w' := { w with pc := .returned false })
    (g' := wakeHead (st.queue.drop 1)) hN hw rfl (wrank_wakeHead_le U _) (d := d)
    (by rw [wrank_returned]; exact hd)
  simp only [rankWith, failG, RS] at this ⊢
  omega

theorem headOutcome_rank {M U : Nat} {st st' : St} {w : Writer} {c : RoomChoice} (H : Inv st)
    (hM : st.writers.length + 2 ≤ M) (hU : M + 2 ≤ U) (hw : w ∈ st.writers)
    (hpc : w.pc = .wokenW ∨ w.pc = .wokenBg ∨ w.pc = .delayed) (hd : w.done = false)
    (ho : HeadOutcome st w c st') :
    st'.writers.length = st.writers.length ∧ rankWith M U st' + 1 ≤ rankWith M U st := by
  have hN := H.q.wnodup
  have hwk := wrank_woken (U := U) (by omega) hpc hd
  cases ho with
  | fail _ => exact fail_rank hN hw (d := 1) (by omega)
  | switchFail hE hi =>
    have hnb : w.pc ≠ .asleepBg := by rcases hpc with h | h | h <;> simp [h]
    have hN1 : ((switchFailSt st).writers.map (·.tid)).Nodup := by
      rw [switchFailSt_writers]; exact nodup_tids_map bwake_tid hN
    obtain ⟨h1, h2⟩ := fail_rank (M := M) (U := U) hN1 (mem_switchFailSt hw hnb) (d := 2 * U + 1) (by omega)
    have h3 : rankWith M U (switchFailSt st) ≤ rankWith M U st + st.writers.length + 1 := by
      have := rank_broadcast M U { st with imm := true, bgError := true }
      have h4 : rankWith M U { st with imm := true, bgError := true } = rankWith M U st := by
        simp only [rankWith, WS, RS, hE, hi, immrank, errrank]; simp
      rw [h4] at this
      exact this
    refine ⟨by rw [h1]; simp, ?_⟩
    omega
  | delay _ hud =>
    rw [setW_eq]
    refine ⟨by simp, ?_⟩
    rw [rankWith_mapW]
    have hb : bonus U w = U := by simp [bonus, hud]
    have hnew : wrank U { w with pc := .delayed, usedDelay := true } = 3 * U := by
      simp [wrank, inFlightPc, hd, wbase, bonus]
    have := WS_act (U := U) (G := st) (w' := { w with pc := .delayed, usedDelay := true })
      (g' := id) hN hw rfl (fun _ => Nat.le_refl _) (d := 1) (by rw [hnew]; omega)
    simp only [rankWith, RS, Function.id_comp] at this ⊢
    omega
  | wait _ _ _ =>
    rw [setW_eq]
    refine ⟨by simp, ?_⟩
    rw [rankWith_mapW]
    have := WS_act (U := U) (G := st) (w' := { w with pc := .asleepBg })
      (g' := id) hN hw rfl (fun _ => Nat.le_refl _) (d := 1)
      (by rw [wrank_setPc U hd _ rfl]; simp only [wbase]; omega)
    simp only [rankWith, RS, Function.id_comp] at this ⊢
    omega
  | begin sw g hE himm _ _ _ =>
    rw [beginSt_eq]
    refine ⟨by simp, ?_⟩
    rw [rankWith_mapW]
    have := WS_act (U := U) (G := beginG st sw g) (w' := { w with pc := .io })
      (g' := id) hN hw (by simp) (fun _ => Nat.le_refl _) (d := M + 2)
      (by rw [wrank_setPc U hd _ rfl]; simp only [wbase]; omega)
    have hG : RS (beginG st sw g) + crank (beginG st sw g).closer + bgrank M (beginG st sw g).bg +
        immrank M (beginG st sw g).imm + errrank M (beginG st sw g).bgError ≤
        RS st + crank st.closer + bgrank M st.bg + immrank M st.imm + errrank M st.bgError + M + 1 := by
      cases sw with
      | false => simp [beginG, RS]; omega
      | true =>
        have hms := rank_maybeSchedule M U (G := { st with imm := true })
          (fun hb => by
            cases hbg : st.bg with
            | parked => rfl
            | posted => exact absurd (H.b.sched.2 (by simp [hbg])) (by simpa using hb)
            | working => exact absurd (H.b.sched.2 (by simp [hbg])) (by simpa using hb))
        have hi := himm rfl
        simp only [rankWith, WS, RS, maybeSchedule_writers, maybeSchedule_readers, maybeSchedule_closer,
          maybeSchedule_imm, maybeSchedule_bgError] at hms
        simp only [beginG, RS, if_true, maybeSchedule_readers, maybeSchedule_closer, maybeSchedule_imm,
          maybeSchedule_bgError, hi]
        simp only [immrank] at hms ⊢
        simp at hms ⊢
        omega
    simp only [rankWith, Function.id_comp] at this ⊢
    omega

theorem RS_act {st G : St} {r r' : Reader} (hN : (st.readers.map (·.tid)).Nodup) (hr : r ∈ st.readers)
    (hG : G.readers = st.readers) {d : Nat} (hd : rrank r' + d ≤ rrank r) :
    RS (mapR G (putR r.tid r')) + d ≤ RS st := by
  unfold RS
  rw [mapR_readers, hG, List.map_map]
  refine sum_map_lt st.readers rrank _ ?_ hr ?_
  · intro x hx
    simp only [Function.comp, putR]
    split
    · rename_i h
      rw [reader_unique hN hx hr h]; omega
    · exact Nat.le_refl _
  · simp only [Function.comp, putR, if_true]; exact hd

theorem commit_rank {M U : Nat} {st : St} {w : Writer} (H : Inv st) (hU : 1 ≤ U) (hw : w ∈ st.writers)
    (hpc : w.pc = .io) (sf : Bool) :
    (commitAct st w sf).writers.length = st.writers.length ∧
      rankWith M U (commitAct st w sf) + 1 ≤ rankWith M U st := by
  have hN := H.q.wnodup
  have hs : st.shuttingDown = false := H.b.not_shutting hw (by simp [hpc]) (by simp [hpc])
  have hcl := H.b.closer_idle hs
  have hhead : st.queue.head? = some w.tid := by
    have := H.q.wq' hw; simp only [WQ, hpc] at this; exact this.2.1
  rw [commitAct_eq hN]
  have hGw : (commitG st w.tid sf).writers = st.writers := by unfold commitG; cases sf <;> rfl
  refine ⟨by simp [hGw], ?_⟩
  rw [rankWith_mapW, hGw]
  have hWS : (st.writers.map (fun x => wrank U (commitW st w sf x))).sum + 1 ≤ WS U st := by
    unfold WS
    refine sum_map_lt st.writers (wrank U) _ ?_ hw ?_
    · intro x hx
      simp only [commitW]
      refine Nat.le_trans (wrank_wakeHead_le U _ _) ?_
      generalize hy : (if x.tid ∈ st.inflight.drop 1 then markF (!sf) (if sf = true then bwake x else x)
        else (if sf = true then bwake x else x)) = y
      have hyt : y.tid = x.tid := by rw [← hy]; exact commitW_inner_tid _ _ _
      by_cases hxt : x.tid = w.tid
      · simp only [putW, hyt, hxt, if_true]
        rw [wrank_returned, writer_unique hN hx hw hxt]
        simp only [wrank]; omega
      · simp only [putW, hyt, hxt, if_false]
        have hb : (if sf = true then bwake x else x) = x := by
          cases sf with
          | false => rfl
          | true =>
            simp only [if_true]; apply bwake_of_ne; intro hpcx
            have := H.q.wq' hx
            simp only [WQ, hpcx, hhead, Option.some.injEq] at this
            exact hxt this.2.1.symm
        rw [← hy, hb]
        split
        · exact wrank_markF_le hU _ _
        · exact Nat.le_refl _
    · simp only [commitW]
      refine Nat.lt_of_le_of_lt (wrank_wakeHead_le U _ _) ?_
      generalize hy : (if w.tid ∈ st.inflight.drop 1 then markF (!sf) (if sf = true then bwake w else w)
        else (if sf = true then bwake w else w)) = y
      have hyt : y.tid = w.tid := by rw [← hy]; exact commitW_inner_tid _ _ _
      simp only [putW, hyt, if_true]
      rw [wrank_returned]
      simp [wrank, hpc, inFlightPc, wbase]
  have hG : RS (commitG st w.tid sf) + crank (commitG st w.tid sf).closer + bgrank M (commitG st w.tid sf).bg +
      immrank M (commitG st w.tid sf).imm + errrank M (commitG st w.tid sf).bgError ≤
      RS st + crank st.closer + bgrank M st.bg + immrank M st.imm + errrank M st.bgError := by
    cases sf with
    | false => simp [commitG, RS]
    | true =>
      simp only [commitG, RS, hcl, errrank, if_true]
      simp
  simp only [rankWith]
  omega

/-- the rank along one step that continues an operation: it drops, except for the two kinds of worker steps that may
    repeat without bound, which raise it by at most `M` -/
theorem rankWith_step {M U : Nat} {st st' : St} {l : Label} (H : Inv st)
    (hM : st.writers.length + 2 ≤ M) (hU : M + 2 ≤ U) (hs : step st l = some st') (hni : isInvocation l = false) :
    st'.writers.length = st.writers.length ∧
    (isSpin l = true → rankWith M U st' ≤ rankWith M U st + M) ∧
    (isSpin l = false → rankWith M U st' + 1 ≤ rankWith M U st) := by
  have hN := H.q.wnodup
  cases l with
  | wEnter t c => simp [isInvocation] at hni
  | rCapture t => simp [isInvocation] at hni
  | close => simp [isInvocation] at hni
  | wWake t c =>
    obtain ⟨w, hg, hpc, h⟩ := step_wWake hs
    obtain ⟨hw, rfl⟩ := getW_some hg
    rcases h with ⟨hd, _, rfl⟩ | ⟨hd, hh, ho⟩ | ⟨hd, hh, _, rfl⟩
    · rw [setW_eq]
      refine ⟨by simp, by simp [isSpin], fun _ => ?_⟩
      rw [rankWith_mapW]
      have := WS_act (U := U) (G := { st with log := st.log ++ [(w.tid, true, st.lastSeq)] })
        (w' := { w with pc := .returned w.status }) (g' := id) hN hw rfl (fun _ => Nat.le_refl _) (d := 1)
        (by rw [wrank_returned]
            rcases hpc with h | h | h <;> simp [wrank, h, inFlightPc, hd] <;> omega)
      simp only [rankWith, RS, Function.id_comp] at this ⊢
      omega
    · obtain ⟨a, b⟩ := headOutcome_rank H hM hU hw hpc hd ho
      exact ⟨a, by simp [isSpin], fun _ => b⟩
    · exact absurd (H.q.woken_head hw hpc hd).1 hh
  | wCommit t sf =>
    obtain ⟨w, hg, hpc, _, rfl⟩ := step_wCommit hs
    obtain ⟨a, b⟩ := commit_rank (M := M) (U := U) H (by omega) (getW_some hg).1 hpc sf
    exact ⟨a, by simp [isSpin], fun _ => b⟩
  | rRead t =>
    obtain ⟨r, s, hg, hpc, rfl⟩ := step_rRead hs
    obtain ⟨hr, rfl⟩ := getR_some hg
    rw [setR_eq]
    refine ⟨rfl, by simp [isSpin], fun _ => ?_⟩
    have := RS_act (G := st) (r' := { r with pc := .releasing s }) H.l.rnodup hr rfl (d := 1)
      (by simp [rrank, hpc])
    simp only [rankWith, WS, mapR_writers, mapR_closer, mapR_bg, mapR_imm, mapR_bgError] at this ⊢
    omega
  | rRelease t seek =>
    obtain ⟨r, s, hg, hpc, rfl⟩ := step_rRelease hs
    obtain ⟨hr, rfl⟩ := getR_some hg
    rw [setR_eq]
    have hsch : st.bgScheduled = false → st.bg = .parked := by
      intro hb
      cases hbg : st.bg with
      | parked => rfl
      | posted => exact absurd (H.b.sched.2 (by simp [hbg])) (by simpa using hb)
      | working => exact absurd (H.b.sched.2 (by simp [hbg])) (by simpa using hb)
    cases seek with
    | false =>
      simp only [Bool.false_eq_true, if_false]
      refine ⟨rfl, by simp [isSpin], fun _ => ?_⟩
      have := RS_act (G := { st with log := st.log ++ [(r.tid, true, st.lastSeq)] })
        (r' := { r with pc := .returned s }) H.l.rnodup hr rfl (d := 2) (by simp [rrank, hpc])
      simp only [rankWith, WS, mapR_writers, mapR_closer, mapR_bg, mapR_imm, mapR_bgError] at this ⊢
      omega
    | true =>
      refine ⟨by simp, by simp [isSpin], fun _ => ?_⟩
      have hms := rank_maybeSchedule M U (G := { st with needsCompaction := true }) hsch
      have := RS_act (st := st)
        (G := { maybeSchedule { st with needsCompaction := true } with
                  log := (maybeSchedule { st with needsCompaction := true }).log ++
                    [(r.tid, true, (maybeSchedule { st with needsCompaction := true }).lastSeq)] })
        (r' := { r with pc := .returned s }) H.l.rnodup hr (by simp) (d := 2) (by simp [rrank, hpc])
      simp only [rankWith, WS, RS, maybeSchedule_writers, maybeSchedule_readers, maybeSchedule_closer,
        maybeSchedule_imm, maybeSchedule_bgError] at hms
      simp only [if_true, rankWith, WS, mapR_writers, mapR_closer, mapR_bg, mapR_imm, mapR_bgError,
        maybeSchedule_writers, maybeSchedule_closer, maybeSchedule_imm, maybeSchedule_bgError] at this ⊢
      unfold RS at this ⊢
      omega
  | bgStart =>
    obtain ⟨hb, rfl⟩ := step_bgStart hs
    refine ⟨rfl, fun _ => ?_, by simp [isSpin]⟩
    simp only [rankWith, WS, RS, hb, bgrank]; omega
  | bgMid fd bc er =>
    obtain ⟨hb, _, hE, hfd, rfl⟩ := step_bgMid hs
    -- the state before the optional broadcast
    generalize hst1 : ({ st with imm := if fd then false else st.imm,
                                 bgError := if er then true else st.bgError } : St) = st1
    have hw1 : st1.writers = st.writers := by rw [← hst1]
    have hbc : ((if (bc || er) = true then broadcastBg else id) st1).writers.length = st.writers.length ∧
        rankWith M U ((if (bc || er) = true then broadcastBg else id) st1) ≤
          rankWith M U st1 + st.writers.length + 1 := by
      split
      · have := rank_broadcast M U st1
        rw [hw1] at this
        refine ⟨?_, this⟩
        rw [broadcastBg_eq]; simp [hw1]
      · simp only [id, hw1, true_and]; omega
    have hr1 : rankWith M U st1 + (if fd = true then M else 0) + (if er = true then M else 0) = rankWith M U st := by
      rw [← hst1]
      cases er with
      | true =>
        have hE' := hE rfl
        simp only [rankWith, WS, RS, hE']
        cases fd with
        | true =>
          have := hfd rfl
          simp [immrank, errrank, this] <;> omega
        | false => simp [immrank, errrank] <;> omega
      | false =>
        simp only [rankWith, WS, RS]
        cases fd with
        | true =>
          have := hfd rfl
          simp [immrank, this] <;> omega
        | false => simp
    refine ⟨hbc.1, fun hsp => ?_, fun hsp => ?_⟩
    · have : fd = false ∧ er = false := by cases fd <;> cases er <;> simp [isSpin] at hsp ⊢
      obtain ⟨h1, h2⟩ := this
      simp only [h1, h2, Bool.false_eq_true, if_false] at hr1
      omega
    · have : fd = true ∨ er = true := by cases fd <;> cases er <;> simp [isSpin] at hsp ⊢
      rcases this with h1 | h1
      · simp only [h1, if_true] at hr1; omega
      · simp only [h1, if_true] at hr1; omega
  | bgFinish sn =>
    obtain ⟨hb, rfl⟩ := step_bgFinish hs
    refine ⟨by rw [broadcastBg_eq]; simp, by simp [isSpin], fun _ => ?_⟩
    have h1 := rank_broadcast M U (maybeSchedule { st with bgScheduled := false, bg := .parked, needsCompaction := sn })
    have h2 := rank_maybeSchedule M U (G := { st with bgScheduled := false, bg := .parked, needsCompaction := sn })
      (fun _ => rfl)
    have h3 : rankWith M U { st with bgScheduled := false, bg := .parked, needsCompaction := sn } + (M + 1) =
        rankWith M U st := by
      simp only [rankWith, WS, RS, hb, bgrank]; omega
    simp only [maybeSchedule_writers] at h1
    omega
  | closeWake =>
    obtain ⟨hc, rfl⟩ := step_closeWake hs
    refine ⟨rfl, by simp [isSpin], fun _ => ?_⟩
    have h1 : crank (if st.bgScheduled = true then CPc.asleepBg else CPc.returned) ≤ 1 := by
      split <;> simp [crank]
    have h2 : crank CPc.wokenBg = 2 := rfl
    simp only [rankWith, WS, RS, hc]
    omega

end Lcdb.Conc
