/-
  The linearizability invariant of the concurrency model (C08, C04): published sequence, commit history, commit
  groups, FIFO order, and the real-time log of invocations and responses.
-/
import LcdbModel.Lemmas.ConcB

namespace Lcdb.Conc

abbrev Entry := Tid × Bool × Nat

/-- the log entries of thread `t`, in order -/
def entriesOf (log : List Entry) (t : Tid) : List Entry := log.filter (fun e => e.1 == t)

/-- has this writer's batch been committed successfully (as far as the protocol state tells)? -/
def wCommitted (w : Writer) : Bool :=
  match w.pc with
  | .returned ok => ok
  | _ => w.done && w.status

/-- the batch of thread `t` if it has been committed -/
def commitBatch (st : St) (t : Tid) : Option Nat :=
  match getW st t with
  | some w => if wCommitted w then some w.batch else none
  | none => none

/-- the threads that invoked an operation, in invocation order -/
def invocations (log : List Entry) : List Tid := (log.filter (fun e => !e.2.1)).map (·.1)

/-- the writers in the order of their `wEnter` (the order in which they were pushed on the queue) -/
def writerInvs (st : St) : List Tid := (invocations st.log).filter (fun t => decide (t ∈ st.writers.map (·.tid)))

/-- a writer that has been removed from the queue -/
def gone (w : Writer) : Prop := w.done = true ∨ ∃ ok, w.pc = .returned ok

/-- `s` is the published sequence after some number of whole commit groups -/
def isBoundary (g : List (List Nat)) (s : Nat) : Prop := ∃ k, k ≤ g.length ∧ s = ((g.take k).flatten).length

def retOk : WPc → Option Bool
  | .returned ok => some ok
  | _ => none

/-- commit status vs history -/
def WC (st : St) (w : Writer) : Prop := st.committed.count w.batch = if wCommitted w then 1 else 0

/-- the log entries of a writer, by program counter -/
def WLog (st : St) (w : Writer) : Prop :=
  if w.pc = .idle then entriesOf st.log w.tid = []
  else match retOk w.pc with
    | none => ∃ s0, entriesOf st.log w.tid = [(w.tid, false, s0)]
    | some ok => ∃ s0 s1, entriesOf st.log w.tid = [(w.tid, false, s0), (w.tid, true, s1)] ∧
        (ok = true → w.batch ∈ st.committed.take s1)

/-- the log entries of a reader, by program counter -/
def RL (st : St) (r : Reader) : Prop :=
  match r.pc with
  | .idle => entriesOf st.log r.tid = []
  | .reading s => entriesOf st.log r.tid = [(r.tid, false, s)]
  | .releasing s => entriesOf st.log r.tid = [(r.tid, false, s)]
  | .returned s => ∃ s1, entriesOf st.log r.tid = [(r.tid, false, s), (r.tid, true, s1)]

structure InvLX (ex : Option Tid) (st : St) : Prop where
  tids : (st.writers.map (·.tid) ++ st.readers.map (·.tid)).Nodup
  batches : (st.writers.map (·.batch)).Nodup
  lastSeq_eq : st.lastSeq = st.committed.length
  flat : st.committed = st.groups.flatten
  from_writer : ∀ b ∈ st.committed, ∃ w ∈ st.writers, w.batch = b
  fifo : ∃ removed, writerInvs st = removed ++ st.queue ∧ st.committed = removed.filterMap (commitBatch st) ∧
    ∀ t ∈ removed, ∀ w ∈ st.writers, w.tid = t → gone w
  log_mono : (st.log.map (·.2.2)).Pairwise (· ≤ ·)
  log_le : ∀ e ∈ st.log, e.2.2 ≤ st.lastSeq
  log_bd : ∀ e ∈ st.log, isBoundary st.groups e.2.2
  wc : ∀ w ∈ st.writers, WC st w
  wlog : ∀ w ∈ st.writers, some w.tid ≠ ex → WLog st w
  rl : ∀ r ∈ st.readers, RL st r

abbrev InvL (st : St) : Prop := InvLX none st

theorem InvL.wlog' {st : St} (H : InvL st) {w : Writer} (hw : w ∈ st.writers) : WLog st w := H.wlog w hw (by simp)

/-! ### log bookkeeping -/

theorem entriesOf_append (log new : List Entry) (t : Tid) :
    entriesOf (log ++ new) t = entriesOf log t ++ entriesOf new t := by
  simp [entriesOf]

theorem entriesOf_single (e : Entry) (t : Tid) : entriesOf [e] t = if e.1 = t then [e] else [] := by
  simp only [entriesOf, List.filter_cons, List.filter_nil, beq_iff_eq]

theorem entriesOf_other {new : List Entry} {t : Tid} (h : ∀ e ∈ new, e.1 ≠ t) : entriesOf new t = [] := by
  simp only [entriesOf, List.filter_eq_nil_iff, beq_iff_eq]; exact h

theorem invocations_append (log new : List Entry) : invocations (log ++ new) = invocations log ++ invocations new := by
  simp [invocations]

theorem mem_entriesOf {log : List Entry} {t : Tid} {e : Entry} : e ∈ entriesOf log t ↔ e ∈ log ∧ e.1 = t := by
  simp [entriesOf]

/-- the three facts about the sequence numbers in the log survive an append of an entry stamped with the (new)
    published sequence -/
theorem log_fields_append {st st' : St} {ex : Option Tid} (H : InvLX ex st) {new : List Entry} {extra : List (List Nat)}
    (hlog : st'.log = st.log ++ new) (hnew : ∀ e ∈ new, e.2.2 = st'.lastSeq)
    (hge : st.lastSeq ≤ st'.lastSeq) (hgr : st'.groups = st.groups ++ extra)
    (hls : st'.lastSeq = st'.committed.length) (hfl : st'.committed = st'.groups.flatten) :
    (st'.log.map (·.2.2)).Pairwise (· ≤ ·) ∧ (∀ e ∈ st'.log, e.2.2 ≤ st'.lastSeq) ∧
      (∀ e ∈ st'.log, isBoundary st'.groups e.2.2) := by
  refine ⟨?_, ?_, ?_⟩
  · rw [hlog, List.map_append, List.pairwise_append]
    refine ⟨H.log_mono, ?_, ?_⟩
    · rw [List.pairwise_map]
      apply List.Pairwise.imp_of_mem (R := fun _ _ => True)
      · intro a b ha hb _; rw [hnew a ha, hnew b hb]; exact Nat.le_refl _
      · exact List.pairwise_of_forall (fun _ _ => trivial)
    · intro a ha b hb
      simp only [List.mem_map] at ha hb
      obtain ⟨e, he, rfl⟩ := ha
      obtain ⟨e', he', rfl⟩ := hb
      rw [hnew e' he']; exact Nat.le_trans (H.log_le e he) hge
  · intro e he; rw [hlog, List.mem_append] at he
    rcases he with he | he
    · exact Nat.le_trans (H.log_le e he) hge
    · rw [hnew e he]; exact Nat.le_refl _
  · intro e he; rw [hlog, List.mem_append] at he
    rcases he with he | he
    · obtain ⟨k, hk, hs⟩ := H.log_bd e he
      refine ⟨k, by rw [hgr, List.length_append]; omega, ?_⟩
      rw [hgr, List.take_append_of_le_length hk]; exact hs
    · refine ⟨st'.groups.length, Nat.le_refl _, ?_⟩
      rw [hnew e he, List.take_length, ← hfl, hls]

/-! ### look-up after a map -/

theorem find?_map_tid {l : List Writer} {g : Writer → Writer} (hg : ∀ x, (g x).tid = x.tid) (t : Tid) :
    (l.map g).find? (·.tid == t) = (l.find? (·.tid == t)).map g := by
  induction l with
  | nil => rfl
  | cons a l ih =>
    simp only [List.map_cons, List.find?_cons, hg]
    split <;> simp [ih]

theorem getW_map {st st' : St} {g : Writer → Writer} (hg : ∀ x, (g x).tid = x.tid)
    (hw : st'.writers = st.writers.map g) (t : Tid) : getW st' t = (getW st t).map g := by
  unfold getW; rw [hw]; exact find?_map_tid hg t

theorem map_tid_eq {st st' : St} {g : Writer → Writer} (hg : ∀ x, (g x).tid = x.tid)
    (hw : st'.writers = st.writers.map g) : st'.writers.map (·.tid) = st.writers.map (·.tid) := by
  rw [hw, List.map_map]; apply List.map_congr_left; intro x _; exact hg x

theorem map_batch_eq {st st' : St} {g : Writer → Writer} (hg : ∀ x ∈ st.writers, (g x).batch = x.batch)
    (hw : st'.writers = st.writers.map g) : st'.writers.map (·.batch) = st.writers.map (·.batch) := by
  rw [hw, List.map_map]; apply List.map_congr_left; intro x hx; exact hg x hx

theorem commitBatch_map {st st' : St} {g : Writer → Writer} (hgt : ∀ x, (g x).tid = x.tid)
    (hgb : ∀ x ∈ st.writers, (g x).batch = x.batch) (hw : st'.writers = st.writers.map g) (t : Tid)
    (hc : ∀ x ∈ st.writers, x.tid = t → wCommitted (g x) = wCommitted x) :
    commitBatch st' t = commitBatch st t := by
  unfold commitBatch
  rw [getW_map hgt hw]
  cases h : getW st t with
  | none => rfl
  | some x =>
    obtain ⟨hx, hxt⟩ := getW_some h
    simp [hc x hx hxt, hgb x hx]

theorem filterMap_commitBatch_congr {st st' : St} {g : Writer → Writer} (hgt : ∀ x, (g x).tid = x.tid)
    (hgb : ∀ x ∈ st.writers, (g x).batch = x.batch) (hw : st'.writers = st.writers.map g) (l : List Tid)
    (hc : ∀ t ∈ l, ∀ x ∈ st.writers, x.tid = t → wCommitted (g x) = wCommitted x) :
    l.filterMap (commitBatch st') = l.filterMap (commitBatch st) := by
  induction l with
  | nil => rfl
  | cons a l ih =>
    simp only [List.filterMap_cons]
    rw [commitBatch_map hgt hgb hw a (hc a (by simp)), ih (fun t ht => hc t (by simp [ht]))]

theorem writerInvs_append {st st' : St} {new : List Entry}
    (hw : st'.writers.map (·.tid) = st.writers.map (·.tid)) (hlog : st'.log = st.log ++ new) :
    writerInvs st' = writerInvs st ++ (invocations new).filter (fun t => decide (t ∈ st.writers.map (·.tid))) := by
  unfold writerInvs; rw [hlog, hw, invocations_append, List.filter_append]

/-! ### per-thread facts under a step -/

theorem WC_of {st st' : St} {x x' : Writer} (h : WC st x) (hb : x'.batch = x.batch)
    (hc : wCommitted x' = wCommitted x) (hcm : st'.committed = st.committed) : WC st' x' := by
  unfold WC at h ⊢; rw [hb, hc, hcm]; exact h

theorem WLog_of {st st' : St} {x x' : Writer} {new : List Entry} (h : WLog st x)
    (ht : x'.tid = x.tid) (hb : x'.batch = x.batch) (hi : x'.pc = .idle ↔ x.pc = .idle)
    (hr : retOk x'.pc = retOk x.pc) (hlog : st'.log = st.log ++ new) (hnew : ∀ e ∈ new, e.1 ≠ x.tid)
    (hcm : ∃ extra, st'.committed = st.committed ++ extra) (hle : ∀ e ∈ st.log, e.2.2 ≤ st.committed.length) :
    WLog st' x' := by
  unfold WLog at h ⊢
  have he : entriesOf st'.log x'.tid = entriesOf st.log x.tid := by
    rw [hlog, ht, entriesOf_append, entriesOf_other hnew, List.append_nil]
  rw [he, hr, ht, hb]
  by_cases hid : x.pc = .idle
  · rw [if_pos hid] at h; rw [if_pos (hi.2 hid)]; exact h
  · rw [if_neg hid] at h; rw [if_neg (fun h' => hid (hi.1 h'))]
    cases hro : retOk x.pc with
    | none => rw [hro] at h; exact h
    | some ok =>
      rw [hro] at h
      obtain ⟨s0, s1, h1, h2⟩ := h
      refine ⟨s0, s1, h1, fun hok => ?_⟩
      obtain ⟨extra, hex⟩ := hcm
      have hmem : ((x.tid, true, s1) : Entry) ∈ st.log := by
        have : ((x.tid, true, s1) : Entry) ∈ entriesOf st.log x.tid := by rw [h1]; simp
        exact (mem_entriesOf.1 this).1
      have := hle _ hmem
      rw [hex, List.take_append_of_le_length this]
      exact h2 hok

theorem RL_of {st st' : St} {r r' : Reader} {new : List Entry} (h : RL st r) (ht : r'.tid = r.tid) (hp : r'.pc = r.pc)
    (hlog : st'.log = st.log ++ new) (hnew : ∀ e ∈ new, e.1 ≠ r.tid) : RL st' r' := by
  unfold RL at h ⊢
  have he : entriesOf st'.log r'.tid = entriesOf st.log r.tid := by
    rw [hlog, ht, entriesOf_append, entriesOf_other hnew, List.append_nil]
  rw [he, hp, ht]; exact h

/-! ### the shape of a step that does not commit -/

theorem InvLX.of_map {ex ex' : Option Tid} {st st' : St} {g : Writer → Writer} {new : List Entry} (H : InvLX ex st)
    (hgt : ∀ x, (g x).tid = x.tid) (hgb : ∀ x ∈ st.writers, (g x).batch = x.batch)
    (hw : st'.writers = st.writers.map g) (hr : st'.readers.map (·.tid) = st.readers.map (·.tid))
    (hls : st'.lastSeq = st.lastSeq) (hcm : st'.committed = st.committed) (hgr : st'.groups = st.groups)
    (hlog : st'.log = st.log ++ new) (hnew : ∀ e ∈ new, e.2.2 = st.lastSeq)
    (hfifo : ∃ removed, writerInvs st' = removed ++ st'.queue ∧ st.committed = removed.filterMap (commitBatch st') ∧
      ∀ t ∈ removed, ∀ w ∈ st.writers, w.tid = t → gone (g w))
    (hwc : ∀ x ∈ st.writers, wCommitted (g x) = wCommitted x)
    (hwl : ∀ x ∈ st.writers, some x.tid ≠ ex' → WLog st' (g x))
    (hrl : ∀ r ∈ st'.readers, RL st' r) : InvLX ex' st' := by
  obtain ⟨h1, h2, h3⟩ := log_fields_append (st' := st') H hlog (by rw [hls]; exact hnew) (by rw [hls]; exact Nat.le_refl _)
    (extra := []) (by rw [hgr]; simp) (by rw [hls, hcm]; exact H.lastSeq_eq) (by rw [hcm, hgr]; exact H.flat)
  refine ⟨?_, ?_, by rw [hls, hcm]; exact H.lastSeq_eq, by rw [hcm, hgr]; exact H.flat, ?_, ?_, h1, h2, h3, ?_, ?_, hrl⟩
  · rw [map_tid_eq hgt hw, hr]; exact H.tids
  · rw [map_batch_eq hgb hw]; exact H.batches
  · intro b hb; rw [hcm] at hb
    obtain ⟨w, hw', rfl⟩ := H.from_writer b hb
    exact ⟨g w, by rw [hw]; exact List.mem_map_of_mem hw', hgb w hw'⟩
  · obtain ⟨removed, e1, e2, e3⟩ := hfifo
    refine ⟨removed, e1, by rw [hcm]; exact e2, ?_⟩
    intro t ht w' hw' hwt
    rw [hw, List.mem_map] at hw'
    obtain ⟨w, hw'', rfl⟩ := hw'
    exact e3 t ht w hw'' (by rw [← hgt w]; exact hwt)
  · intro w' hw'
    rw [hw, List.mem_map] at hw'
    obtain ⟨w, hw'', rfl⟩ := hw'
    exact WC_of (H.wc w hw'') (hgb w hw'') (hwc w hw'') hcm
  · intro w' hw' hne
    rw [hw, List.mem_map] at hw'
    obtain ⟨w, hw'', rfl⟩ := hw'
    exact hwl w hw'' (by rw [← hgt w]; exact hne)

/-- the FIFO bookkeeping for a step that may push some writers and pop some that did not commit -/
theorem fifo_pop {ex : Option Tid} {st st' : St} {g : Writer → Writer} (H : InvLX ex st)
    (hgt : ∀ x, (g x).tid = x.tid) (hgb : ∀ x ∈ st.writers, (g x).batch = x.batch) (hw : st'.writers = st.writers.map g)
    (hwc : ∀ x ∈ st.writers, wCommitted (g x) = wCommitted x)
    (hgone : ∀ x ∈ st.writers, gone x → gone (g x))
    {popped pushed : List Tid}
    (hinv : writerInvs st' = writerInvs st ++ pushed)
    (hq : st.queue ++ pushed = popped ++ st'.queue)
    (hpop : ∀ t ∈ popped, ∀ x ∈ st.writers, x.tid = t → wCommitted x = false ∧ gone (g x)) :
    ∃ removed, writerInvs st' = removed ++ st'.queue ∧ st.committed = removed.filterMap (commitBatch st') ∧
      ∀ t ∈ removed, ∀ w ∈ st.writers, w.tid = t → gone (g w) := by
  obtain ⟨removed, e1, e2, e3⟩ := H.fifo
  refine ⟨removed ++ popped, ?_, ?_, ?_⟩
  · rw [hinv, e1, List.append_assoc, hq, List.append_assoc]
  · rw [List.filterMap_append, filterMap_commitBatch_congr hgt hgb hw removed (fun t _ x hx _ => hwc x hx), ← e2]
    have : popped.filterMap (commitBatch st') = [] := by
      rw [List.filterMap_eq_nil_iff]
      intro t ht
      unfold commitBatch
      rw [getW_map hgt hw]
      cases h : getW st t with
      | none => rfl
      | some x =>
        obtain ⟨hx, hxt⟩ := getW_some h
        simp [hwc x hx, (hpop t ht x hx hxt).1]
    rw [this, List.append_nil]
  · intro t ht w hw' hwt
    rw [List.mem_append] at ht
    rcases ht with ht | ht
    · exact hgone w hw' (e3 t ht w hw' hwt)
    · exact (hpop t ht w hw' hwt).2

/-! ### updates that do not matter for linearizability -/

/-- a record update that keeps everything the linearizability invariant looks at -/
def Benign (g : Writer → Writer) : Prop :=
  ∀ x, (g x).tid = x.tid ∧ (g x).batch = x.batch ∧ (g x).done = x.done ∧ (g x).status = x.status ∧
    ((g x).pc = .idle ↔ x.pc = .idle) ∧ retOk (g x).pc = retOk x.pc

theorem wCommitted_eq (w : Writer) :
    wCommitted w = match retOk w.pc with | some ok => ok | none => w.done && w.status := by
  unfold wCommitted retOk; cases w.pc <;> rfl

theorem gone_iff (w : Writer) : gone w ↔ w.done = true ∨ (retOk w.pc).isSome = true := by
  unfold gone retOk; cases w.pc <;> simp

theorem Benign.wCommitted {g : Writer → Writer} (hg : Benign g) (x : Writer) : wCommitted (g x) = wCommitted x := by
  obtain ⟨_, _, h3, h4, _, h6⟩ := hg x
  rw [wCommitted_eq, wCommitted_eq, h3, h4, h6]

theorem Benign.gone {g : Writer → Writer} (hg : Benign g) (x : Writer) (h : gone x) : gone (g x) := by
  obtain ⟨_, _, h3, _, _, h6⟩ := hg x
  rw [gone_iff] at h ⊢; rw [h3, h6]; exact h

theorem benign_id : Benign id := fun _ => ⟨rfl, rfl, rfl, rfl, Iff.rfl, rfl⟩

theorem benign_wake : Benign wake := by
  intro x; refine ⟨by simp, by simp, by simp, by simp, ?_, ?_⟩
  · rw [wake_pc]; split <;> simp [*]
  · rw [wake_pc]; split <;> simp [*, retOk]

theorem benign_bwake : Benign bwake := by
  intro x; refine ⟨by simp, by simp, by simp, by simp, ?_, ?_⟩
  · rw [bwake_pc]; split <;> simp [*]
  · rw [bwake_pc]; split <;> simp [*, retOk]

theorem benign_wakeHead (q : List Tid) : Benign (wakeHead q) := by
  intro x; unfold wakeHead; split
  · exact benign_wake x
  · exact benign_id x

theorem Benign.comp {g g' : Writer → Writer} (hg : Benign g) (hg' : Benign g') : Benign (g ∘ g') := by
  intro x
  obtain ⟨a1, a2, a3, a4, a5, a6⟩ := hg (g' x)
  obtain ⟨b1, b2, b3, b4, b5, b6⟩ := hg' x
  exact ⟨a1.trans b1, a2.trans b2, a3.trans b3, a4.trans b4, a5.trans b5, a6.trans b6⟩

theorem WLog_benign {ex : Option Tid} {st st' : St} {g : Writer → Writer} {new : List Entry} (H : InvLX ex st)
    (hg : Benign g) {x : Writer} (hx : x ∈ st.writers) (hex : some x.tid ≠ ex)
    (hlog : st'.log = st.log ++ new) (hnew : ∀ e ∈ new, e.1 ≠ x.tid)
    (hcm : ∃ extra, st'.committed = st.committed ++ extra) : WLog st' (g x) := by
  obtain ⟨h1, h2, _, _, h5, h6⟩ := hg x
  exact WLog_of (H.wlog x hx hex) h1 h2 h5 h6 hlog hnew hcm (by rw [← H.lastSeq_eq]; exact H.log_le)

/-- a reader's tid is not a writer's tid -/
theorem InvLX.tid_ne {ex : Option Tid} {st : St} (H : InvLX ex st) {w : Writer} {r : Reader}
    (hw : w ∈ st.writers) (hr : r ∈ st.readers) : w.tid ≠ r.tid := by
  have := (List.nodup_append.1 H.tids).2.2
  exact this w.tid (List.mem_map_of_mem hw) r.tid (List.mem_map_of_mem hr)

theorem InvLX.wnodup {ex : Option Tid} {st : St} (H : InvLX ex st) : (st.writers.map (·.tid)).Nodup :=
  (List.nodup_append.1 H.tids).1

theorem InvLX.rnodup {ex : Option Tid} {st : St} (H : InvLX ex st) : (st.readers.map (·.tid)).Nodup :=
  (List.nodup_append.1 H.tids).2.1

/-- steps that change neither the history nor the log nor the queue, and update the writers benignly -/
theorem InvLX.of_benign {ex : Option Tid} {st st' : St} {g : Writer → Writer} (H : InvLX ex st) (hg : Benign g)
    (hw : st'.writers = st.writers.map g) (hr : st'.readers = st.readers)
    (hls : st'.lastSeq = st.lastSeq) (hcm : st'.committed = st.committed) (hgr : st'.groups = st.groups)
    (hlog : st'.log = st.log) (hq : st'.queue = st.queue) : InvLX ex st' := by
  have hgt : ∀ x, (g x).tid = x.tid := fun x => (hg x).1
  have hgb : ∀ x ∈ st.writers, (g x).batch = x.batch := fun x _ => (hg x).2.1
  refine H.of_map (new := []) hgt hgb hw (by rw [hr]) hls hcm hgr (by rw [hlog]; simp) (by simp) ?_
    (fun x _ => hg.wCommitted x) ?_ ?_
  · refine fifo_pop H hgt hgb hw (fun x _ => hg.wCommitted x) (fun x _ => hg.gone x) (popped := []) (pushed := [])
      ?_ ?_ (by simp)
    · rw [writerInvs_append (new := []) (map_tid_eq hgt hw) (by rw [hlog]; simp)]; simp [invocations]
    · simp [hq]
  · intro x hx hex
    exact WLog_benign H hg hx hex (new := []) (by rw [hlog]; simp) (by simp) ⟨[], by rw [hcm]; simp⟩
  · intro r hr'; rw [hr] at hr'
    exact RL_of (new := []) (H.rl r hr') rfl rfl (by rw [hlog]; simp) (by simp)

/-! ### a step of one writer -/

/-- The acting writer `w` gets the record `w'`; everybody else is updated benignly (signals); the log may get entries of
    `w`; the queue may push / pop `w`. The caller supplies the acting writer's own log clause. -/
theorem InvLX.act {ex : Option Tid} {st st' : St} {w w' : Writer} {g' : Writer → Writer} {new : List Entry}
    {popped pushed : List Tid}
    (H : InvLX ex st) (hw : w ∈ st.writers) (hex : ∀ x ∈ st.writers, some x.tid ≠ ex ∨ x.tid = w.tid)
    (hg' : Benign g') (hW : st'.writers = st.writers.map (g' ∘ putW w.tid w')) (hr : st'.readers = st.readers)
    (hls : st'.lastSeq = st.lastSeq) (hcm : st'.committed = st.committed) (hgr : st'.groups = st.groups)
    (hlog : st'.log = st.log ++ new) (hnew : ∀ e ∈ new, e.2.2 = st.lastSeq ∧ e.1 = w.tid)
    (ht : w'.tid = w.tid) (hb : w'.batch = w.batch) (hwc : wCommitted w' = wCommitted w)
    (hgone : gone w → gone w')
    (hpush : (invocations new).filter (fun t => decide (t ∈ st.writers.map (·.tid))) = pushed)
    (hq : st.queue ++ pushed = popped ++ st'.queue)
    (hpop : ∀ t ∈ popped, t = w.tid ∧ wCommitted w = false ∧ gone w')
    (hwl : WLog st' (g' w')) : InvL st' := by
  have hN := H.wnodup
  have hput : ∀ x ∈ st.writers, x.tid = w.tid → putW w.tid w' x = w' := by
    intro x _ h; simp [putW, h]
  have hput' : ∀ x : Writer, x.tid ≠ w.tid → putW w.tid w' x = x := by
    intro x h; simp [putW, h]
  have hgt : ∀ x, ((g' ∘ putW w.tid w') x).tid = x.tid := by
    intro x; simp only [Function.comp]; rw [(hg' _).1]; exact putW_tid ht x
  have hgb : ∀ x ∈ st.writers, ((g' ∘ putW w.tid w') x).batch = x.batch := by
    intro x hx; simp only [Function.comp]; rw [(hg' _).2.1]
    by_cases h : x.tid = w.tid
    · rw [hput x hx h, hb, writer_unique hN hx hw h]
    · rw [hput' x h]
  have hwc' : ∀ x ∈ st.writers, wCommitted ((g' ∘ putW w.tid w') x) = wCommitted x := by
    intro x hx; simp only [Function.comp]; rw [hg'.wCommitted]
    by_cases h : x.tid = w.tid
    · rw [hput x hx h, hwc, writer_unique hN hx hw h]
    · rw [hput' x h]
  have hgone' : ∀ x ∈ st.writers, gone x → gone ((g' ∘ putW w.tid w') x) := by
    intro x hx hgx; simp only [Function.comp]; apply hg'.gone
    by_cases h : x.tid = w.tid
    · rw [hput x hx h]; apply hgone; rw [← writer_unique hN hx hw h]; exact hgx
    · rw [hput' x h]; exact hgx
  refine H.of_map hgt hgb hW (by rw [hr]) hls hcm hgr hlog (fun e he => (hnew e he).1) ?_ hwc' ?_ ?_
  · refine fifo_pop H hgt hgb hW hwc' hgone' (popped := popped) (pushed := pushed) ?_ hq ?_
    · rw [writerInvs_append (map_tid_eq hgt hW) hlog, hpush]
    · intro t ht' x hx hxt
      obtain ⟨e1, e2, e3⟩ := hpop t ht'
      have hxw : x.tid = w.tid := hxt.trans e1
      have := writer_unique hN hx hw hxw; subst this
      refine ⟨e2, ?_⟩
      simp only [Function.comp]; rw [hput x hx hxw]; exact hg'.gone _ e3
  · intro x hx _
    by_cases h : x.tid = w.tid
    · simp only [Function.comp]; rw [hput x hx h]; exact hwl
    · simp only [Function.comp]; rw [hput' x h]
      have hex' : some x.tid ≠ ex := by
        rcases hex x hx with h' | h'
        · exact h'
        · exact absurd h' h
      exact WLog_benign H hg' hx hex' hlog (fun e he => by rw [(hnew e he).2]; exact fun h' => h h'.symm)
        ⟨[], by rw [hcm]; simp⟩
  · intro r hr'; rw [hr] at hr'
    exact RL_of (H.rl r hr') rfl rfl hlog (fun e he => by rw [(hnew e he).2]; exact H.tid_ne hw hr')

theorem retOk_none_of {p : WPc} (h : ∀ ok, p ≠ .returned ok) : retOk p = none := by
  cases p <;> simp [retOk] at h ⊢

theorem wCommitted_of_not_done {w : Writer} (hd : w.done = false) (hnr : retOk w.pc = none) : wCommitted w = false := by
  rw [wCommitted_eq, hnr]; simp [hd]

/-- the acting writer gets a new program counter that is neither idle nor returned (delay, wait, begin, sleep) -/
theorem InvLX.setPc {ex : Option Tid} {st G : St} {w w' : Writer} (H : InvLX ex st) (hw : w ∈ st.writers)
    (hex : ∀ x ∈ st.writers, some x.tid ≠ ex ∨ x.tid = w.tid)
    (hGw : G.writers = st.writers) (hGr : G.readers = st.readers)
    (hls : G.lastSeq = st.lastSeq) (hcm : G.committed = st.committed) (hgr : G.groups = st.groups)
    (hlog : G.log = st.log) (hq : G.queue = st.queue)
    (ht : w'.tid = w.tid) (hb : w'.batch = w.batch) (hd : w'.done = w.done) (hs : w'.status = w.status)
    (hnr : retOk w.pc = none) (hpc : w'.pc ≠ .idle) (hnr' : retOk w'.pc = none)
    (hl : ∃ s0, entriesOf st.log w.tid = [(w.tid, false, s0)]) :
    InvL (mapW G (putW w.tid w')) := by
  refine H.act (g' := id) (new := []) (popped := []) (pushed := []) hw hex benign_id (by simp [hGw]) hGr hls hcm hgr
    (by simp [hlog]) (by simp) ht hb ?_ ?_ (by simp [invocations]) (by simp [hq]) (by simp) ?_
  · rw [wCommitted_eq, wCommitted_eq, hnr, hnr', hd, hs]
  · intro h; rw [gone_iff] at h ⊢; rw [hd, hnr']; rw [hnr] at h; exact h
  · unfold WLog
    simp only [id, hpc, if_false, hnr', mapW_log, hlog, ht]
    exact hl

/-! ### the head writer's critical section -/

theorem InvLX.fail {ex : Option Tid} {st : St} {w : Writer} (H : InvLX ex st) (hw : w ∈ st.writers)
    (hex : ∀ x ∈ st.writers, some x.tid ≠ ex ∨ x.tid = w.tid)
    (hhead : st.queue.head? = some w.tid) (hd : w.done = false) (hnr : retOk w.pc = none)
    (hl : ∃ s0, entriesOf st.log w.tid = [(w.tid, false, s0)]) : InvL (failAct st w) := by
  obtain ⟨q, hq⟩ := head?_eq_cons hhead
  rw [failAct_eq H.wnodup]
  have hwc := wCommitted_of_not_done hd hnr
  refine H.act (w := w) (g' := wakeHead (st.queue.drop 1)) (w' := { w with pc := .returned false })
    (new := [(w.tid, true, st.lastSeq)]) (popped := [w.tid]) (pushed := []) hw hex (benign_wakeHead _) rfl rfl rfl rfl rfl
    rfl (by simp) rfl rfl ?_ ?_ (by simp [invocations]) (by simp [failG, hq]) ?_ ?_
  · rw [hwc]; simp [wCommitted]
  · intro _; exact Or.inr ⟨false, rfl⟩
  · intro t ht; simp at ht; exact ⟨ht, hwc, Or.inr ⟨false, rfl⟩⟩
  · obtain ⟨s0, hs0⟩ := hl
    have hb := benign_wakeHead (st.queue.drop 1) { w with pc := .returned false }
    unfold WLog
    have hni : (wakeHead (st.queue.drop 1) { w with pc := .returned false }).pc ≠ .idle := by
      intro h; have := hb.2.2.2.2.1.1 h; simp at this
    rw [if_neg hni, hb.2.2.2.2.2, hb.1]
    simp only [retOk, mapW_log, failG, entriesOf_append, hs0, entriesOf_single, if_true]
    exact ⟨s0, st.lastSeq, rfl, by simp⟩

theorem InvLX.headOutcome {ex : Option Tid} {st st' : St} {w : Writer} {c : RoomChoice} (H : InvLX ex st)
    (hw : w ∈ st.writers) (hex : ∀ x ∈ st.writers, some x.tid ≠ ex ∨ x.tid = w.tid)
    (hhead : st.queue.head? = some w.tid) (hd : w.done = false) (hnr : retOk w.pc = none)
    (hnb : w.pc ≠ .asleepBg)
    (hl : ∃ s0, entriesOf st.log w.tid = [(w.tid, false, s0)])
    (h : HeadOutcome st w c st') : InvL st' := by
  cases h with
  | fail _ => exact H.fail hw hex hhead hd hnr hl
  | switchFail _ _ =>
    have H1 : InvLX ex (switchFailSt st) := by
      rw [switchFailSt_eq]; exact H.of_benign benign_bwake rfl rfl rfl rfl rfl rfl rfl
    refine H1.fail (mem_switchFailSt hw hnb) ?_ (by simpa using hhead) hd hnr (by simpa using hl)
    intro x hx
    rw [switchFailSt_writers, List.mem_map] at hx
    obtain ⟨y, hy, rfl⟩ := hx
    simpa using hex y hy
  | delay _ _ =>
    rw [setW_eq]
    exact H.setPc (w := w) hw hex rfl rfl rfl rfl rfl rfl rfl rfl rfl rfl rfl hnr (by simp) rfl hl
  | wait _ _ _ =>
    rw [setW_eq]
    exact H.setPc (w := w) hw hex rfl rfl rfl rfl rfl rfl rfl rfl rfl rfl rfl hnr (by simp) rfl hl
  | begin sw g _ _ _ _ _ =>
    rw [beginSt_eq]
    exact H.setPc (w := w) hw hex (by simp) (by simp) (by simp) (by simp) (by simp) (by simp) (by simp) rfl rfl rfl rfl hnr
      (by simp) rfl hl

/-! ### entering the queue -/

theorem InvL.enq {st : St} {w : Writer} (H : InvL st) (hw : w ∈ st.writers) (hpc : w.pc = .idle) :
    InvLX (some w.tid) (enq st w.tid) ∧ entriesOf (enq st w.tid).log w.tid = [(w.tid, false, st.lastSeq)] := by
  have hl := H.wlog' hw
  simp only [WLog, hpc, if_true] at hl
  refine ⟨?_, by simp [Lcdb.Conc.enq, entriesOf_append, hl, entriesOf_single]⟩
  have hgt : ∀ x : Writer, (id x).tid = x.tid := fun _ => rfl
  have hgb : ∀ x ∈ st.writers, (id x).batch = x.batch := fun _ _ => rfl
  have hW : (Lcdb.Conc.enq st w.tid).writers = st.writers.map id := by simp [Lcdb.Conc.enq]
  refine H.of_map (new := [(w.tid, false, st.lastSeq)]) hgt hgb hW rfl rfl rfl rfl rfl (by simp) ?_
    (fun _ _ => rfl) ?_ ?_
  · refine fifo_pop H hgt hgb hW (fun _ _ => rfl) (fun _ _ h => h) (popped := []) (pushed := [w.tid]) ?_
      (by simp [Lcdb.Conc.enq]) (by simp)
    rw [writerInvs_append (map_tid_eq hgt hW) rfl]
    have : w.tid ∈ st.writers.map (·.tid) := List.mem_map_of_mem hw
    simp only [invocations, List.filter_cons, List.filter_nil, Bool.not_false, if_true, List.map_cons, List.map_nil]
    simp at this ⊢
    exact this
  · intro x hx hne
    have hne' : x.tid ≠ w.tid := by simpa using hne
    exact WLog_benign H benign_id hx (by simp) rfl (by simpa using fun h => hne' h.symm) ⟨[], by simp [Lcdb.Conc.enq]⟩
  · intro r hr
    exact RL_of (H.rl r hr) rfl rfl rfl (by simpa using H.tid_ne hw hr)

/-! ### waking up with the result -/

theorem InvL.wake_done {st : St} {w : Writer} (H : InvL st) (hw : w ∈ st.writers) (hd : w.done = true)
    (hpc : w.pc = .wokenW) :
    InvL (setW { st with log := st.log ++ [(w.tid, true, st.lastSeq)] } { w with pc := .returned w.status }) := by
  rw [setW_eq]
  have hwc : wCommitted w = w.status := by simp [wCommitted, hpc, hd]
  refine H.act (w := w) (w' := { w with pc := .returned w.status }) (g' := id) (new := [(w.tid, true, st.lastSeq)])
    (popped := []) (pushed := []) hw (by simp) benign_id
    (by simp) rfl rfl rfl rfl rfl (by simp) rfl rfl ?_ ?_ (by simp [invocations]) (by simp) (by simp) ?_
  · rw [hwc]; simp [wCommitted]
  · intro _; exact Or.inr ⟨_, rfl⟩
  · have hl := H.wlog' hw
    simp only [WLog, hpc, retOk] at hl
    obtain ⟨s0, hs0⟩ := hl
    simp only [WLog, id, retOk, mapW_log, entriesOf_append, hs0, entriesOf_single, if_true]
    refine ⟨s0, st.lastSeq, by simp, ?_⟩
    intro hst
    have hc := H.wc w hw
    rw [WC, hwc, hst] at hc
    simp only [mapW_committed, H.lastSeq_eq, List.take_length]
    exact List.count_pos_iff.1 (by rw [hc]; simp)

/-! ### commit -/

theorem filterMap_congr' {α β : Type} {f g : α → Option β} {l : List α} (h : ∀ a ∈ l, f a = g a) :
    l.filterMap f = l.filterMap g := by
  induction l with
  | nil => rfl
  | cons a l ih =>
    simp only [List.filterMap_cons]
    rw [h a (by simp), ih (fun b hb => h b (by simp [hb]))]

theorem nodup_map_inj {α β : Type} {f : α → β} {l : List α} (h : (l.map f).Nodup) :
    ∀ x ∈ l, ∀ y ∈ l, f x = f y → x = y := by
  induction l with
  | nil => intro x hx; cases hx
  | cons a l ih =>
    simp only [List.map_cons, List.nodup_cons, List.mem_map, not_exists, not_and] at h
    intro x hx y hy hxy
    rcases List.mem_cons.1 hx with hx | hx <;> rcases List.mem_cons.1 hy with hy | hy
    · rw [hx, hy]
    · rw [hx] at hxy; exact absurd hxy.symm (h.1 y hy)
    · rw [hy] at hxy; exact absurd hxy (h.1 x hx)
    · exact ih h.2 x hx y hy hxy

theorem count_batches {st : St} (hN : (st.writers.map (·.tid)).Nodup) (hB : (st.writers.map (·.batch)).Nodup)
    {x : Writer} (hx : x ∈ st.writers) :
    ∀ (l : List Tid), l.Nodup →
      (l.filterMap (fun m => (getW st m).map (·.batch))).count x.batch = if x.tid ∈ l then 1 else 0 := by
  intro l
  induction l with
  | nil => intro _; rfl
  | cons m l ih =>
    intro hl
    obtain ⟨hml, hl'⟩ := List.nodup_cons.1 hl
    simp only [List.filterMap_cons]
    cases hg : getW st m with
    | none =>
      have : x.tid ≠ m := getW_none hg x hx
      simp only [Option.map_none, List.mem_cons, this, false_or]
      exact ih hl'
    | some y =>
      obtain ⟨hy, hym⟩ := getW_some hg
      simp only [Option.map_some, List.count_cons, ih hl', List.mem_cons]
      by_cases hxy : x.tid = m
      · have hyx : y = x := writer_unique hN hy hx (hym.trans hxy.symm)
        rw [hyx]
        simp [hxy, hml]
      · have : y.batch ≠ x.batch := by
          intro hb; exact hxy ((congrArg Writer.tid (nodup_map_inj hB y hy x hx hb)).symm.trans hym)
        simp [hxy, this]

theorem length_batches {st : St} : ∀ (l : List Tid), (∀ m ∈ l, ∃ x ∈ st.writers, x.tid = m) →
    (l.filterMap (fun m => (getW st m).map (·.batch))).length = l.length := by
  intro l
  induction l with
  | nil => intro _; rfl
  | cons m l ih =>
    intro h
    obtain ⟨x, hx, hxm⟩ := h m (by simp)
    obtain ⟨y, hy⟩ := getW_isSome_of_mem hx
    rw [hxm] at hy
    simp only [List.filterMap_cons, hy, Option.map_some, List.length_cons]
    rw [ih (fun m' hm' => h m' (by simp [hm']))]

theorem benign_bw (sf : Bool) : Benign (fun x => if sf = true then bwake x else x) := by
  intro x; dsimp only; split
  · exact benign_bwake x
  · exact benign_id x

theorem markF_class (ok : Bool) (x : Writer) :
    (markF ok x).tid = x.tid ∧ (markF ok x).batch = x.batch ∧ ((markF ok x).pc = .idle ↔ x.pc = .idle) ∧
      retOk (markF ok x).pc = retOk x.pc := by
  refine ⟨rfl, rfl, ?_, ?_⟩ <;> simp only [markF] <;> split <;> simp [*, retOk]

/-- what `commitAct` does to the records, member by member -/
theorem commitW_facts {st : St} {w : Writer} (HQ : InvQ st) (sf : Bool)
    {fs : List Tid} (hi : st.inflight = w.tid :: fs) (hq : ∀ t ∈ fs, t ∈ st.queue) :
    (commitW st w sf w).pc = .returned (!sf) ∧ (commitW st w sf w).batch = w.batch ∧
    ∀ x ∈ st.writers, x.tid ≠ w.tid →
      (commitW st w sf x).batch = x.batch ∧ ((commitW st w sf x).pc = .idle ↔ x.pc = .idle) ∧
      retOk (commitW st w sf x).pc = retOk x.pc ∧
      (x.tid ∈ fs → (commitW st w sf x).done = true ∧ wCommitted (commitW st w sf x) = !sf) ∧
      (x.tid ∉ fs → (commitW st w sf x).done = x.done ∧ wCommitted (commitW st w sf x) = wCommitted x) := by
  have hbw := benign_bw sf
  refine ⟨?_, ?_, ?_⟩
  · unfold commitW
    rw [show ∀ y : Writer, y.tid = w.tid → putW w.tid { w with pc := .returned (!sf) } y = { w with pc := .returned (!sf) }
      from fun y hy => by simp [putW, hy]]
    · have := benign_wakeHead (st.queue.drop st.inflight.length) { w with pc := .returned (!sf) }
      have h6 := this.2.2.2.2.2
      simp only [retOk] at h6
      cases hpc : (wakeHead (st.queue.drop st.inflight.length) { w with pc := .returned (!sf) }).pc <;>
        simp [hpc] at h6
      rw [h6]
    · exact commitW_inner_tid _ _ _
  · unfold commitW
    rw [show ∀ y : Writer, y.tid = w.tid → putW w.tid { w with pc := .returned (!sf) } y = { w with pc := .returned (!sf) }
      from fun y hy => by simp [putW, hy]]
    · exact (benign_wakeHead _ _).2.1
    · exact commitW_inner_tid _ _ _
  · intro x hx hne
    have hput : ∀ y : Writer, y.tid = x.tid → putW w.tid { w with pc := .returned (!sf) } y = y := by
      intro y hy; simp [putW, hy, hne]
    have hwh := benign_wakeHead (st.queue.drop st.inflight.length)
    have hb := hbw x
    dsimp only at hb
    have hdrop : st.inflight.drop 1 = fs := by rw [hi]; rfl
    unfold commitW
    rw [hput _ (commitW_inner_tid _ _ _), hdrop]
    by_cases hxf : x.tid ∈ fs
    · rw [if_pos hxf]
      have hm := markF_class (!sf) (if sf = true then bwake x else x)
      obtain ⟨a1, a2, a3, a4, a5, a6⟩ := hwh (markF (!sf) (if sf = true then bwake x else x))
      have hqd := HQ.queued hx (by simp) (hq _ hxf)
      have hro : retOk x.pc = none := retOk_none_of hqd.2.2
      refine ⟨a2.trans (hm.2.1.trans hb.2.1), a5.trans (hm.2.2.1.trans hb.2.2.2.2.1),
        a6.trans (hm.2.2.2.trans hb.2.2.2.2.2), fun _ => ⟨by rw [a3]; rfl, ?_⟩, fun h => absurd hxf h⟩
      rw [wCommitted_eq, a6, hm.2.2.2, hb.2.2.2.2.2, hro, a3, a4]; simp [markF]
    · rw [if_neg hxf]
      obtain ⟨a1, a2, a3, a4, a5, a6⟩ := hwh (if sf = true then bwake x else x)
      refine ⟨a2.trans hb.2.1, a5.trans hb.2.2.2.2.1, a6.trans hb.2.2.2.2.2, fun h => absurd h hxf, fun _ => ⟨?_, ?_⟩⟩
      · rw [a3, hb.2.2.1]
      · exact (hwh.comp hbw).wCommitted x

theorem InvL.commit {st : St} {w : Writer} (H : InvL st) (HQ : InvQ st) (hw : w ∈ st.writers) (hpc : w.pc = .io)
    (sf : Bool) : InvL (commitAct st w sf) := by
  obtain ⟨hd, fs, rest, hi, hq⟩ := HQ.io_facts hw hpc
  have hN := HQ.wnodup
  have hqn := HQ.qnodup
  rw [hq] at hqn
  simp only [List.nodup_cons, List.mem_append, not_or, List.nodup_append] at hqn
  obtain ⟨⟨hwfs, hwrest⟩, hfsn, hrestn, hdisj⟩ := hqn
  have hgN : st.inflight.Nodup := by rw [hi]; exact List.nodup_cons.2 ⟨hwfs, hfsn⟩
  have hfq : ∀ t ∈ fs, t ∈ st.queue := by intro t ht; rw [hq]; simp [ht]
  have hiq : ∀ t ∈ st.inflight, t ∈ st.queue := by
    intro t ht; rw [hi] at ht; rw [hq]; simp at ht ⊢; rcases ht with h | h
    · exact Or.inl h
    · exact Or.inr (Or.inl h)
  have hmemi : ∀ t, t ∈ st.inflight ↔ t = w.tid ∨ t ∈ fs := by intro t; rw [hi]; simp
  obtain ⟨cw1, cw2, cw3⟩ := commitW_facts (w := w) HQ sf hi hfq
  rw [commitAct_eq hN]
  have hgt : ∀ x, (commitW st w sf x).tid = x.tid := commitW_tid st w sf
  have hgb : ∀ x ∈ st.writers, (commitW st w sf x).batch = x.batch := by
    intro x hx; by_cases h : x.tid = w.tid
    · rw [writer_unique hN hx hw h]; exact cw2
    · exact (cw3 x hx h).1
  have hgmem : ∀ m ∈ st.inflight, ∃ x ∈ st.writers, x.tid = m := fun m hm => HQ.qmem m (hiq m hm)
  have hlen := length_batches (st := st) _ hgmem
  have hgrp_nc : ∀ x ∈ st.writers, x.tid ∈ st.inflight → wCommitted x = false ∧ ¬ gone x := by
    intro x hx hm
    have := HQ.queued hx (by simp) (hiq _ hm)
    refine ⟨wCommitted_of_not_done this.1 (retOk_none_of this.2.2), ?_⟩
    rw [gone_iff, this.1, retOk_none_of this.2.2]; simp
  have hwc_after : ∀ x ∈ st.writers,
      wCommitted (commitW st w sf x) = if x.tid ∈ st.inflight then !sf else wCommitted x := by
    intro x hx
    by_cases h : x.tid = w.tid
    · have hxw := writer_unique hN hx hw h
      rw [hxw, if_pos ((hmemi _).2 (Or.inl rfl)), wCommitted_eq, cw1]; rfl
    · obtain ⟨_, _, _, c4, c5⟩ := cw3 x hx h
      by_cases hf : x.tid ∈ fs
      · rw [if_pos ((hmemi _).2 (Or.inr hf))]; exact (c4 hf).2
      · rw [if_neg (fun h' => ((hmemi _).1 h').elim h hf)]; exact (c5 hf).2
  have hgone_after : ∀ x ∈ st.writers, (x.tid ∈ st.inflight ∨ gone x) → gone (commitW st w sf x) := by
    intro x hx hor
    by_cases h : x.tid = w.tid
    · rw [writer_unique hN hx hw h]; exact Or.inr ⟨_, cw1⟩
    · obtain ⟨_, _, c3, c4, c5⟩ := cw3 x hx h
      by_cases hf : x.tid ∈ fs
      · exact Or.inl (c4 hf).1
      · rcases hor with hm | hg
        · exact absurd ((hmemi _).1 hm) (by simp [h, hf])
        · rw [gone_iff] at hg ⊢; rw [(c5 hf).1, c3]; exact hg
  -- the new globals
  have hGw : (commitG st w.tid sf).writers = st.writers := by unfold commitG; cases sf <;> rfl
  have hGr : (commitG st w.tid sf).readers = st.readers := by unfold commitG; cases sf <;> rfl
  have hGq : (commitG st w.tid sf).queue = rest := by unfold commitG; cases sf <;> simp [hi, hq]
  have hGl : (commitG st w.tid sf).lastSeq = if sf = true then st.lastSeq else st.lastSeq + st.inflight.length := by
    unfold commitG; cases sf <;> rfl
  have hGc : (commitG st w.tid sf).committed = st.committed ++
      (if sf = true then [] else st.inflight.filterMap fun m => (getW st m).map (·.batch)) := by
    unfold commitG; cases sf <;> simp
  have hGg : (commitG st w.tid sf).groups = st.groups ++
      (if sf = true then [] else [st.inflight.filterMap fun m => (getW st m).map (·.batch)]) := by
    unfold commitG; cases sf <;> simp
  have hGlog : (commitG st w.tid sf).log = st.log ++ [(w.tid, true, (commitG st w.tid sf).lastSeq)] := by
    unfold commitG; cases sf <;> rfl
  have hls' : (commitG st w.tid sf).lastSeq = (commitG st w.tid sf).committed.length := by
    rw [hGl, hGc]; cases sf <;> simp [H.lastSeq_eq, hlen]
  have hfl' : (commitG st w.tid sf).committed = (commitG st w.tid sf).groups.flatten := by
    rw [hGc, hGg]; cases sf <;> simp [H.flat]
  obtain ⟨lf1, lf2, lf3⟩ := log_fields_append (st' := mapW (commitG st w.tid sf) (commitW st w sf)) H
    (new := [(w.tid, true, (commitG st w.tid sf).lastSeq)]) hGlog (by simp)
    (by simp only [mapW_lastSeq, hGl]; split <;> omega) hGg hls' hfl'
  have hW : (mapW (commitG st w.tid sf) (commitW st w sf)).writers = st.writers.map (commitW st w sf) := by
    simp [hGw]
  -- the batches appended
  have hcnt : ∀ x ∈ st.writers,
      (if sf = true then [] else st.inflight.filterMap fun m => (getW st m).map (·.batch)).count x.batch =
        if sf = true then 0 else if x.tid ∈ st.inflight then 1 else 0 := by
    intro x hx; cases sf
    · simp only [Bool.false_eq_true, if_false]; exact count_batches hN H.batches hx _ hgN
    · simp
  refine ⟨?_, ?_, hls', hfl', ?_, ?_, lf1, lf2, lf3, ?_, ?_, ?_⟩
  · rw [map_tid_eq hgt hW, mapW_readers, hGr]; exact H.tids
  · rw [map_batch_eq hgb hW]; exact H.batches
  · -- from_writer
    intro b hb
    simp only [mapW_committed, hGc, List.mem_append] at hb
    rcases hb with hb | hb
    · obtain ⟨x, hx, rfl⟩ := H.from_writer b hb
      exact ⟨commitW st w sf x, by simp only [mapW_writers, hGw]; exact List.mem_map_of_mem hx, hgb x hx⟩
    · cases sf
      · simp only [Bool.false_eq_true, if_false, List.mem_filterMap] at hb
        obtain ⟨m, _, hm⟩ := hb
        cases hg : getW st m with
        | none => simp [hg] at hm
        | some x =>
          simp [hg] at hm
          obtain ⟨hx, _⟩ := getW_some hg
          exact ⟨commitW st w false x, by simp only [mapW_writers, hGw]; exact List.mem_map_of_mem hx,
            (hgb x hx).trans hm⟩
      · simp at hb
  · -- fifo
    obtain ⟨removed, e1, e2, e3⟩ := H.fifo
    have hrem_notin : ∀ t ∈ removed, ∀ x ∈ st.writers, x.tid = t → x.tid ∉ st.inflight := by
      intro t ht x hx hxt hm
      exact (hgrp_nc x hx hm).2 (e3 t ht x hx hxt)
    refine ⟨removed ++ st.inflight, ?_, ?_, ?_⟩
    · rw [writerInvs_append (map_tid_eq hgt hW) (by simpa using hGlog)]
      simp only [invocations, List.filter_cons, List.filter_nil, Bool.not_true, Bool.false_eq_true, if_false,
        List.map_nil, List.append_nil, mapW_queue, hGq]
      rw [e1, hq, hi]; simp
    · simp only [mapW_committed, hGc, List.filterMap_append]
      rw [filterMap_commitBatch_congr hgt hgb hW removed
        (fun t ht x hx hxt => by rw [hwc_after x hx, if_neg (hrem_notin t ht x hx hxt)]), ← e2]
      congr 1
      have : ∀ m ∈ st.inflight, commitBatch (mapW (commitG st w.tid sf) (commitW st w sf)) m =
          if sf = true then none else (getW st m).map (·.batch) := by
        intro m hm
        unfold commitBatch
        rw [getW_map hgt hW]
        obtain ⟨x, hx, hxm⟩ := hgmem m hm
        have hgx := getW_of_mem hN hx
        rw [hxm] at hgx
        rw [hgx]
        simp only [Option.map_some, hwc_after x hx, hxm, hm, if_true, hgb x hx]
        cases sf <;> simp
      rw [filterMap_congr' this]
      cases sf <;> simp
    · intro t ht x' hx' hxt
      simp only [mapW_writers, hGw, List.mem_map] at hx'
      obtain ⟨x, hx, rfl⟩ := hx'
      rw [hgt] at hxt
      rw [List.mem_append] at ht
      rcases ht with ht | ht
      · exact hgone_after x hx (Or.inr (e3 t ht x hx hxt))
      · exact hgone_after x hx (Or.inl (by rw [hxt]; exact ht))
  · -- wc
    intro x' hx'
    simp only [mapW_writers, hGw, List.mem_map] at hx'
    obtain ⟨x, hx, rfl⟩ := hx'
    unfold WC
    rw [hgb x hx, mapW_committed, hGc, List.count_append, hcnt x hx, hwc_after x hx]
    have hc := H.wc x hx
    unfold WC at hc
    by_cases hm : x.tid ∈ st.inflight
    · rw [hc, (hgrp_nc x hx hm).1]; cases sf <;> simp [hm]
    · rw [hc]; cases sf <;> simp [hm]
  · -- wlog
    intro x' hx' _
    simp only [mapW_writers, hGw, List.mem_map] at hx'
    obtain ⟨x, hx, rfl⟩ := hx'
    by_cases h : x.tid = w.tid
    · rw [writer_unique hN hx hw h]
      have hl := H.wlog' hw
      simp only [WLog, hpc, retOk] at hl
      obtain ⟨s0, hs0⟩ := hl
      unfold WLog
      rw [if_neg (by rw [cw1]; simp), cw1, hgt, cw2]
      simp only [retOk, mapW_log, hGlog, entriesOf_append, hs0, entriesOf_single, if_true]
      refine ⟨s0, _, rfl, ?_⟩
      intro hok
      have hsf : sf = false := by simpa using hok
      rw [mapW_committed, hls', List.take_length, hGc, List.mem_append]
      right
      apply List.count_pos_iff.1
      rw [hcnt w hw, hsf]; simp [(hmemi _).2 (Or.inl rfl)]
    · obtain ⟨c1, c2, c3, _, _⟩ := cw3 x hx h
      exact WLog_of (H.wlog' hx) (hgt x) c1 c2 c3 (by simpa using hGlog)
        (by simpa using fun h' => h h'.symm) ⟨_, by simpa using hGc⟩ (by rw [← H.lastSeq_eq]; exact H.log_le)
  · -- rl
    intro r hr
    simp only [mapW_readers, hGr] at hr
    exact RL_of (H.rl r hr) rfl rfl (by simpa using hGlog) (by simpa using H.tid_ne hw hr)

/-! ### readers -/

theorem InvL.reader_step {st st' : St} {r r' : Reader} {new : List Entry} (H : InvL st) (hr : r ∈ st.readers)
    (hw : st'.writers = st.writers) (hR : st'.readers = st.readers.map (putR r.tid r')) (ht : r'.tid = r.tid)
    (hls : st'.lastSeq = st.lastSeq) (hcm : st'.committed = st.committed) (hgr : st'.groups = st.groups)
    (hq : st'.queue = st.queue) (hlog : st'.log = st.log ++ new)
    (hnew : ∀ e ∈ new, e.2.2 = st.lastSeq ∧ e.1 = r.tid) (hrl : RL st' r') : InvL st' := by
  have hgt : ∀ x : Writer, (id x).tid = x.tid := fun _ => rfl
  have hgb : ∀ x ∈ st.writers, (id x).batch = x.batch := fun _ _ => rfl
  have hW : st'.writers = st.writers.map id := by simp [hw]
  have hnot : r.tid ∉ st.writers.map (·.tid) := by
    intro h; obtain ⟨x, hx, hxt⟩ := List.mem_map.1 h; exact H.tid_ne hx hr hxt
  refine H.of_map hgt hgb hW ?_ hls hcm hgr hlog (fun e he => (hnew e he).1) ?_ (fun _ _ => rfl) ?_ ?_
  · rw [hR, List.map_map]; apply List.map_congr_left; intro x _
    simp only [Function.comp, putR]; split <;> simp [*]
  · refine fifo_pop H hgt hgb hW (fun _ _ => rfl) (fun _ _ h => h) (popped := []) (pushed := []) ?_ (by simp [hq])
      (by simp)
    have hnil : (invocations new).filter (fun t => decide (t ∈ st.writers.map (·.tid))) = [] := by
      rw [List.filter_eq_nil_iff]
      intro t ht'
      simp only [invocations, List.mem_map, List.mem_filter] at ht'
      obtain ⟨e, ⟨he, _⟩, rfl⟩ := ht'
      rw [(hnew e he).2]; simpa using hnot
    rw [writerInvs_append (map_tid_eq hgt hW) hlog, hnil]
  · intro x hx _
    exact WLog_benign H benign_id hx (by simp) hlog
      (fun e he => by rw [(hnew e he).2]; exact fun h => H.tid_ne hx hr h.symm) ⟨[], by simp [hcm]⟩
  · intro y' hy'
    rw [hR, List.mem_map] at hy'
    obtain ⟨y, hy, rfl⟩ := hy'
    simp only [putR]
    split
    · exact hrl
    · rename_i hne
      exact RL_of (H.rl y hy) rfl rfl hlog (fun e he => by rw [(hnew e he).2]; exact fun h => hne h.symm)

theorem step_InvL {st st' : St} {l : Label} (HQ : InvQ st) (H : InvL st) (h : step st l = some st') : InvL st' := by
  cases l with
  | wEnter t c =>
    obtain ⟨w, hg, hpc, _, h⟩ := step_wEnter h
    obtain ⟨hw, rfl⟩ := getW_some hg
    obtain ⟨HX, hl⟩ := H.enq hw hpc
    have hex : ∀ x ∈ (enq st w.tid).writers, some x.tid ≠ some w.tid ∨ x.tid = w.tid := by
      intro x _; by_cases hx : x.tid = w.tid
      · exact Or.inr hx
      · exact Or.inl (by simpa using hx)
    have hnr : retOk w.pc = none := by simp [hpc, retOk]
    rcases h with ⟨hh, ho⟩ | ⟨hh, _, rfl⟩
    · exact HX.headOutcome hw hex (by simpa [enq] using hh) (HQ.idle_facts hw hpc).1 hnr (by simp [hpc]) ⟨_, hl⟩ ho
    · rw [setW_eq]
      exact HX.setPc (w := w) hw hex rfl rfl rfl rfl rfl rfl rfl rfl rfl rfl rfl hnr (by simp) rfl ⟨_, hl⟩
  | wWake t c =>
    obtain ⟨w, hg, hpc, h⟩ := step_wWake h
    obtain ⟨hw, rfl⟩ := getW_some hg
    have hnr : retOk w.pc = none := by rcases hpc with hpc | hpc | hpc <;> simp [hpc, retOk]
    have hl : ∃ s0, entriesOf st.log w.tid = [(w.tid, false, s0)] := by
      have := H.wlog' hw
      rcases hpc with hpc | hpc | hpc <;> simpa [WLog, hpc, retOk] using this
    rcases h with ⟨hd, _, rfl⟩ | ⟨hd, hh, ho⟩ | ⟨hd, hh, _, rfl⟩
    · have hpcw : w.pc = .wokenW := by
        have := HQ.wq' hw
        rcases hpc with hpc | hpc | hpc
        · exact hpc
        · simp [WQ, hpc, hd] at this
        · simp [WQ, hpc, hd] at this
      exact H.wake_done hw hd hpcw
    · exact InvLX.headOutcome H hw (fun _ _ => Or.inl (by simp)) hh hd hnr
        (by rcases hpc with hpc | hpc | hpc <;> simp [hpc]) hl ho
    · exact absurd (HQ.woken_head hw hpc hd).1 hh
  | wCommit t sf =>
    obtain ⟨w, hg, hpc, _, rfl⟩ := step_wCommit h
    exact H.commit HQ (getW_some hg).1 hpc sf
  | rCapture t =>
    obtain ⟨r, hg, hpc, _, rfl⟩ := step_rCapture h
    obtain ⟨hr, rfl⟩ := getR_some hg
    rw [setR_eq]
    refine H.reader_step (r := r) (new := [(r.tid, false, st.lastSeq)]) hr rfl rfl rfl rfl rfl rfl rfl rfl (by simp) ?_
    have := H.rl r hr
    simp only [RL, hpc] at this
    simp [RL, entriesOf_append, this, entriesOf_single]
  | rRead t =>
    obtain ⟨r, s, hg, hpc, rfl⟩ := step_rRead h
    obtain ⟨hr, rfl⟩ := getR_some hg
    rw [setR_eq]
    refine H.reader_step (r := r) (new := []) hr rfl rfl rfl rfl rfl rfl rfl (by simp) (by simp) ?_
    have := H.rl r hr
    simp only [RL, hpc] at this
    simpa [RL] using this
  | rRelease t seek =>
    obtain ⟨r, s, hg, hpc, rfl⟩ := step_rRelease h
    obtain ⟨hr, rfl⟩ := getR_some hg
    rw [setR_eq]
    have := H.rl r hr
    simp only [RL, hpc] at this
    cases seek
    · refine H.reader_step (r := r) (new := [(r.tid, true, st.lastSeq)]) hr rfl rfl rfl rfl rfl rfl rfl rfl (by simp) ?_
      exact ⟨st.lastSeq, by simp [entriesOf_append, this, entriesOf_single]⟩
    · refine H.reader_step (r := r) (r' := { r with pc := .returned s }) (new := [(r.tid, true, st.lastSeq)]) hr
        (by simp) (by simp) rfl (by simp) (by simp) (by simp) (by simp) (by simp) (by simp) ?_
      simp only [RL]
      exact ⟨st.lastSeq, by simp [entriesOf_append, this, entriesOf_single]⟩
  | bgStart =>
    obtain ⟨_, rfl⟩ := step_bgStart h
    exact H.of_benign benign_id (by simp) rfl rfl rfl rfl rfl rfl
  | bgMid fd bc er =>
    obtain ⟨_, _, _, _, rfl⟩ := step_bgMid h
    by_cases hb : (bc || er) = true
    · simp only [hb, if_true]; rw [broadcastBg_eq]
      exact H.of_benign benign_bwake rfl rfl rfl rfl rfl rfl rfl
    · simp only [hb]
      exact H.of_benign benign_id (by simp) rfl rfl rfl rfl rfl rfl
  | bgFinish sn =>
    obtain ⟨_, rfl⟩ := step_bgFinish h
    rw [broadcastBg_eq]
    exact H.of_benign benign_bwake (by simp) (by simp) (by simp) (by simp) (by simp) (by simp) (by simp)
  | close =>
    obtain ⟨_, _, _, rfl⟩ := step_close h
    exact H.of_benign benign_id (by simp) rfl rfl rfl rfl rfl rfl
  | closeWake =>
    obtain ⟨_, rfl⟩ := step_closeWake h
    exact H.of_benign benign_id (by simp) rfl rfl rfl rfl rfl rfl

end Lcdb.Conc
