/-
  Runs of operations on a shard of the LRU cache: totality on well-formed use, the reference
  "forgetful map" (`Spec`), shutdown (release everything, `lru_shard_clear`).
-/
import LcdbModel.Lemmas.LruCacheInsert
namespace Lcdb.LruCache

theorem Frame.congrRight {a b c : Shard} (h : Frame a b) (h1 : c.capacity = b.capacity) (h2 : c.entries = b.entries) :
    Frame a c := ⟨by rw [h1, h.cap], by rw [h2, h.len], by rw [h2]; exact h.kv⟩

/-! ### one step / runs -/

/-- the precondition of an op (client side): only held handles are released -/
def Op.ok (s : Shard) : Op → Prop
  | .release id => id ∈ s.held
  | _ => True

/-- what one step does, per operation -/
def StepSpec (s : Shard) (op : Op) (s' : Shard) (o : Out) : Prop :=
  match op with
  | .insert k v c => o = .handle (some s.entries.length) ∧ InsertSpec s s' k v c
  | .lookup k => o = .handle (s.table k) ∧ LookupSpec s s' (s.table k)
  | .release id => o = .unit ∧ ReleaseSpec s s' id
  | .erase k => o = .unit ∧ EraseSpec s s' k
  | .prune => o = .unit ∧ LoopSpec s s' ∧ s'.lru = []
  | .total => o = .total s.usage ∧ s' = s

theorem step_inv (s : Shard) (op : Op) (hi : Inv s) (hok : op.ok s) :
    ∃ s' o, step s op = some (s', o) ∧ Inv s' ∧ StepSpec s op s' o := by
  cases op with
  | insert k v c =>
    obtain ⟨s', h, hi', sp⟩ := insert_inv s k v c hi
    exact ⟨s', .handle (some s.entries.length), by simp [step, h], hi', rfl, sp⟩
  | lookup k =>
    obtain ⟨s', h, hi', sp⟩ := lookup_inv s k hi
    exact ⟨s', .handle (s.table k), by simp [step, h], hi', rfl, sp⟩
  | release id =>
    obtain ⟨s', h, hi', sp⟩ := release_inv s id hi hok
    exact ⟨s', .unit, by simp [step, h], hi', rfl, sp⟩
  | erase k =>
    obtain ⟨s', h, hi', sp⟩ := erase_inv s k hi
    exact ⟨s', .unit, by simp [step, h], hi', rfl, sp⟩
  | prune =>
    obtain ⟨s', h, hi', sp⟩ := prune_inv s hi
    exact ⟨s', .unit, by simp [step, h], hi', rfl, sp⟩
  | total => exact ⟨s, .total s.usage, rfl, hi, rfl, rfl⟩

theorem wf_cons (s : Shard) (op : Op) (ops : List Op) (h : wf s (op :: ops) = true) :
    op.ok s ∧ ∀ s' o, step s op = some (s', o) → wf s' ops = true := by
  simp only [wf, Bool.and_eq_true] at h
  refine ⟨?_, ?_⟩
  · cases op <;> simp [Op.ok] <;> simpa using h.1
  · intro s' o hs; have := h.2; rw [hs] at this; exact this

/-- a property of states that every well-formed step preserves holds after every well-formed run -/
theorem run_induct (P : Shard → List Op → Prop)
    (hstep : ∀ (s : Shard) (op : Op) (s' : Shard) (o : Out), Inv s → op.ok s → StepSpec s op s' o → Inv s' →
      ∀ pre, P s pre → P s' (pre ++ [op]))
    (s : Shard) (ops : List Op) (pre : List Op) (hi : Inv s) (hw : wf s ops = true) (hp : P s pre) :
    ∃ s' outs, run s ops = some (s', outs) ∧ Inv s' ∧ P s' (pre ++ ops) ∧ outs.length = ops.length := by
  induction ops generalizing s pre with
  | nil => exact ⟨s, [], rfl, hi, by simpa using hp, rfl⟩
  | cons op ops ih =>
    obtain ⟨hok, hw'⟩ := wf_cons s op ops hw
    obtain ⟨s1, o, hs, hi1, sp⟩ := step_inv s op hi hok
    obtain ⟨s2, outs, hr, hi2, hp2, hl⟩ := ih s1 (pre ++ [op]) hi1 (hw' s1 o hs) (hstep s op s1 o hi hok sp hi1 pre hp)
    refine ⟨s2, o :: outs, by simp [run, hs, hr], hi2, by simpa using hp2, by simp [hl]⟩


/-! ### shutdown: release everything, then `lru_shard_clear` -/

theorem releaseAll_inv (l : List Nat) (s : Shard) (hi : Inv s) (hp : l.Perm s.held) :
    ∃ s', releaseAll l s = some s' ∧ Inv s' ∧ s'.held = [] ∧ Frame s s' ∧
      (∀ id, id ∈ s.deleted → id ∈ s'.deleted) := by
  induction l generalizing s with
  | nil =>
    have : s.held = [] := List.Perm.eq_nil hp.symm
    exact ⟨s, rfl, hi, this, Frame.refl s, fun _ h => h⟩
  | cons id rest ih =>
    have hmem : id ∈ s.held := hp.subset (by simp)
    obtain ⟨s1, h1, hi1, sp⟩ := release_inv s id hi hmem
    have hp1 : rest.Perm s1.held := by
      rw [sp.held]; have := hp.erase id; simpa using this
    obtain ⟨s2, h2, hi2, hh, hf, hd⟩ := ih s1 hi1 hp1
    refine ⟨s2, by simp [releaseAll, h1, h2], hi2, hh, sp.frame.trans hf, ?_⟩
    intro j hj; apply hd
    obtain ⟨e, he⟩ : ∃ e, s.entries[id]? = some e := ⟨s.entries[id]'(hi.heldB id hmem), by simp [hi.heldB id hmem]⟩
    rw [sp.deleted e he]; split
    · exact List.mem_append_left _ hj
    · exact hj

theorem clearGo_spec (l : List Nat) (s : Shard) (hnd : l.Nodup)
    (h1 : ∀ id, id ∈ l → ∃ e : CEntry, s.entries[id]? = some e ∧ e.refs = 1) :
    ∃ s', clearGo l s = some s' ∧ s'.deleted = s.deleted ++ l ∧ Frame s s' := by
  induction l generalizing s with
  | nil => exact ⟨s, rfl, by simp, Frame.refl s⟩
  | cons id rest ih =>
    obtain ⟨e, hx, hr⟩ := h1 id (by simp)
    have hlt := lt_of_getElem? hx
    obtain ⟨hnotin, hnd'⟩ := List.nodup_cons.1 hnd
    let s1 : Shard := { s with entries := s.entries.set id { e with inCache := false, refs := 0 },
                               deleted := s.deleted ++ [id] }
    have hstep : unref { s with entries := s.entries.set id { e with inCache := false } } id = some s1 := by
      simp [unref, hlt, hr, s1]
    have h1' : ∀ j, j ∈ rest → ∃ e : CEntry, s1.entries[j]? = some e ∧ e.refs = 1 := by
      intro j hj
      obtain ⟨e', hx', hr'⟩ := h1 j (List.mem_cons_of_mem _ hj)
      have : id ≠ j := fun h => hnotin (h ▸ hj)
      exact ⟨e', by simp [s1, List.getElem?_set, this, hx'], hr'⟩
    obtain ⟨s2, he, hd, hf⟩ := ih s1 hnd' h1'
    have hfs : Frame s s1 := by
      refine ⟨rfl, by simp [s1], ?_⟩
      intro j e1 hj
      simp only [s1, List.getElem?_set]
      by_cases h : id = j
      · subst h; rw [hx] at hj; cases hj; simp [hlt]
      · simp [h, hj]
    exact ⟨s2, by simp [clearGo, hx, hstep, he], by rw [hd]; simp [s1], hfs.trans hf⟩

theorem shutdown_spec (s : Shard) (hi : Inv s) :
    ∃ s', shutdown s = some s' ∧ s'.held = [] ∧ Frame s s' ∧
      s'.deleted.Perm (List.range s.entries.length) := by
  obtain ⟨s1, h1, hi1, hh, hf, _⟩ := releaseAll_inv s.held s hi (List.Perm.refl _)
  have hrefs : ∀ (id : Nat) (e : CEntry), s1.entries[id]? = some e → e.refs = if e.inCache then 1 else 0 := by
    intro id e he; have := hi1.refs id e he; rw [hh] at this; simpa using this
  have huse : s1.inUse = [] := by
    apply List.eq_nil_iff_forall_not_mem.2
    intro id h
    obtain ⟨e, he, hc, hr⟩ := (hi1.useIff id).1 h
    have := hrefs id e he; simp [hc] at this; omega
  obtain ⟨s2, h2, hd, hf2⟩ := clearGo_spec s1.lru s1 hi1.ndLru (by
    intro id h; obtain ⟨e, he, _, hr⟩ := (hi1.lruIff id).1 h; exact ⟨e, he, hr⟩)
  refine ⟨{ s2 with lru := [] }, by simp [shutdown, h1, clear, huse, h2], ?_, ?_, ?_⟩
  · show s2.held = []
    -- clearGo never touches `held`
    have : ∀ (l : List Nat) (a b : Shard), clearGo l a = some b → b.held = a.held := by
      intro l; induction l with
      | nil => intro a b h; simp [clearGo] at h; rw [h]
      | cons id rest ih =>
        intro a b h
        simp only [clearGo] at h
        split at h
        · cases h
        · rename_i e he
          cases hu : unref { a with entries := a.entries.set id { e with inCache := false } } id with
          | none => rw [hu] at h; cases h
          | some c =>
            rw [hu] at h
            have hc : c.held = a.held := by
              simp only [unref] at hu
              split at hu
              · cases hu
              · split at hu
                · cases hu
                · split at hu
                  · split at hu
                    · cases hu
                    · cases hu; rfl
                  · split at hu
                    · cases hu; rfl
                    · cases hu; rfl
            exact (ih c b h).trans hc
    rw [this _ _ _ h2, hh]
  · exact (hf.trans hf2).congrRight rfl rfl
  · show s2.deleted.Perm _
    rw [hd]
    have hlen : s1.entries.length = s.entries.length := hf.len
    apply (List.perm_ext_iff_of_nodup ?_ List.nodup_range).2
    · intro id
      simp only [List.mem_append, List.mem_range, hi1.delIff id, hi1.lruIff id, ← hlen]
      constructor
      · rintro (⟨e, he, _⟩ | ⟨e, he, _⟩) <;> exact lt_of_getElem? he
      · intro hlt
        have he : s1.entries[id]? = some s1.entries[id] := by simp [hlt]
        have := hrefs id _ he
        cases hc : (s1.entries[id]).inCache
        · left; exact ⟨_, he, by simpa [hc] using this⟩
        · right; exact ⟨_, he, hc, by simpa [hc] using this⟩
    · rw [List.nodup_append]
      refine ⟨hi1.ndDel, hi1.ndLru, ?_⟩
      intro a ha b hb hab; subst hab
      obtain ⟨e, he, hr⟩ := (hi1.delIff a).1 ha
      obtain ⟨e', he', _, hr'⟩ := (hi1.lruIff a).1 hb
      rw [he] at he'; cases he'; omega

end Lcdb.LruCache
