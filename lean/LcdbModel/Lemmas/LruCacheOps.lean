/-
  Every operation of a shard of the LRU cache preserves the invariant (Lemmas/LruCache.lean), never
  faults on well-formed use, and has the frame described by the `…Spec` structures.
-/
import LcdbModel.Lemmas.LruCache
namespace Lcdb.LruCache

theorem getElem?_snoc {α} (l : List α) (a : α) (i : Nat) :
    (l ++ [a])[i]? = if i < l.length then l[i]? else if i = l.length then some a else none := by
  by_cases h : i < l.length
  · simp [h, List.getElem?_append_left h]
  · by_cases h2 : i = l.length
    · subst h2; simp
    · have : l.length + 1 ≤ i := by omega
      simp [h, h2]; omega

theorem Frame.congrLeft {a b c : Shard} (h : Frame b c) (h1 : a.capacity = b.capacity) (h2 : a.entries = b.entries) :
    Frame a c := ⟨by rw [h.cap, h1], by rw [h.len, h2], by rw [h2]; exact h.kv⟩

theorem Frame.ofEq {a b : Shard} (h1 : b.capacity = a.capacity) (h2 : b.entries = a.entries) : Frame a b :=
  ⟨h1, by rw [h2], by rw [h2]; exact fun _ e h => ⟨e, h, rfl, rfl, rfl⟩⟩

/-- taking `x` (the table's entry for `k`) out of the table: the state `finish` expects -/
theorem remove_key (s : Shard) (k : Bytes) (x : Nat) (hi : Inv s) (hk : s.table k = some x) :
    InvX { s with table := tableSet s.table k none } (some x) ∧
    ∀ k', tableSet s.table k none k' ≠ some x := by
  obtain ⟨e, hx, hc, hkey⟩ := hi.tabIn k x hk
  refine ⟨?_, ?_⟩
  · constructor <;> dsimp only
    · exact hi.refs
    · exact hi.lruIff
    · exact hi.useIff
    · exact hi.delIff
    · exact hi.heldB
    · intro id e1 h1 hne hc1
      have := hi.tab id e1 h1 (by simp) hc1
      simp only [tableSet]
      split
      · rename_i h; rw [h, hk] at this; cases this; simp at hne
      · exact this
    · intro k' id h
      simp only [tableSet] at h
      split at h
      · cases h
      · exact hi.tabIn k' id h
    · exact hi.usage
    · exact hi.ndLru
    · exact hi.ndUse
    · exact hi.ndDel
  · intro k' h
    simp only [tableSet] at h
    split at h
    · cases h
    · rename_i hne
      obtain ⟨e', hx', _, hkey'⟩ := hi.tabIn k' x h
      rw [hx] at hx'; cases hx'; exact hne (hkey'.symm.trans hkey)

/-- the table never maps a key the invariant does not know: removing an absent key is harmless -/
theorem remove_absent (s : Shard) (k : Bytes) (hi : Inv s) (hk : s.table k = none) :
    Inv { s with table := tableSet s.table k none } := by
  have : tableSet s.table k none = s.table := by
    funext k'; simp only [tableSet]; split
    · rename_i h; rw [h, hk]
    · rfl
  rw [this]; exact hi

/-! ### erase -/

structure EraseSpec (s s' : Shard) (k : Bytes) : Prop where
  frame : Frame s s'
  table : s'.table = tableSet s.table k none
  held : s'.held = s.held
  lruSub : ∀ id, id ∈ s'.lru → id ∈ s.lru
  lruEq : s'.lru = match s.table k with | none => s.lru | some x => s.lru.filter (· != x)
  usageLe : s'.usage ≤ s.usage
  deleted : s'.deleted = s.deleted ++ (match s.table k with
      | none => [] | some x => if s.held.count x = 0 then [x] else [])

theorem erase_inv (s : Shard) (k : Bytes) (hi : Inv s) :
    ∃ s', erase s k = some s' ∧ Inv s' ∧ EraseSpec s s' k := by
  cases hk : s.table k with
  | none =>
    refine ⟨{ s with table := tableSet s.table k none }, by simp [erase, hk, finish], remove_absent s k hi hk, ?_⟩
    exact ⟨Frame.ofEq rfl rfl, rfl, rfl, fun _ h => h, by simp [hk], Nat.le_refl _, by simp [hk]⟩
  | some x =>
    obtain ⟨e, hx, hc, hkey⟩ := hi.tabIn k x hk
    obtain ⟨h1, h2⟩ := remove_key s k x hi hk
    obtain ⟨he, hinv, sp⟩ := finish_inv { s with table := tableSet s.table k none } x e h1 hx hc h2
    refine ⟨_, by simpa [erase, hk] using he, hinv, ?_⟩
    refine ⟨sp.frame.congrLeft rfl rfl, sp.table, sp.held, ?_, by rw [sp.lru, hk], ?_, by rw [sp.deleted, hk]⟩
    · intro id h; rw [sp.lru] at h; exact (List.mem_filter.1 h).1
    · have := sp.usage e hx; show _ ≤ s.usage; simp only at this; omega


/-! ### eviction of the oldest unpinned entry, the two loops -/

structure EvictSpec (s s' : Shard) (old : Nat) : Prop where
  frame : Frame s s'
  table : ∀ k, s'.table k = s.table k ∨ s'.table k = none
  tableOld : ∀ e : CEntry, s.entries[old]? = some e → s'.table = tableSet s.table e.key none
  held : s'.held = s.held
  inUse : s'.inUse = s.inUse
  lru : s.lru = old :: s'.lru
  deleted : s'.deleted = s.deleted ++ [old]
  usage : ∀ e : CEntry, s.entries[old]? = some e → s'.usage + e.charge = s.usage

theorem filter_ne_self_of_not_mem (l : List Nat) (x : Nat) (h : x ∉ l) : l.filter (· != x) = l := by
  rw [List.filter_eq_self]; intro a ha; simp; intro h'; exact h (h' ▸ ha)

theorem evictOne_inv (s : Shard) (old : Nat) (rest : List Nat) (hi : Inv s) (hl : s.lru = old :: rest) :
    ∃ s', evictOne s old = some s' ∧ Inv s' ∧ EvictSpec s s' old := by
  have hmem : old ∈ s.lru := by rw [hl]; simp
  obtain ⟨e, hx, hc, hr⟩ := (hi.lruIff old).1 hmem
  have hk := hi.tab old e hx (by simp) hc
  have hcount : s.held.count old = 0 := by have := hi.refs old e hx; simp [hc] at this; omega
  obtain ⟨h1, h2⟩ := remove_key s e.key old hi hk
  obtain ⟨he, hinv, sp⟩ := finish_inv { s with table := tableSet s.table e.key none } old e h1 hx hc h2
  refine ⟨_, by simpa [evictOne, hx, hk] using he, hinv, ?_⟩
  have hnd := hi.ndLru
  rw [hl] at hnd
  have hnotin : old ∉ rest := (List.nodup_cons.1 hnd).1
  have hnu : old ∉ s.inUse := by
    intro h; obtain ⟨e', hx', _, hr'⟩ := (hi.useIff old).1 h; rw [hx] at hx'; cases hx'; omega
  refine ⟨sp.frame.congrLeft rfl rfl, ?_, ?_, sp.held, ?_, ?_, ?_, ?_⟩
  · intro k; rw [sp.table]; simp only [tableSet]; split <;> simp
  · intro e' h'; rw [hx] at h'; cases h'; exact sp.table
  · rw [sp.inUse]; exact filter_ne_self_of_not_mem _ _ hnu
  · rw [sp.lru, hl]; simp [List.filter_cons, filter_ne_self_of_not_mem _ _ hnotin]
  · rw [sp.deleted]; simp [hcount]
  · intro e' h'; exact sp.usage e' h'

/-- what a run of eviction steps leaves: a prefix of `lru` is gone, deleted in that order -/
structure LoopSpec (s s' : Shard) : Prop where
  frame : Frame s s'
  table : ∀ k, s'.table k = s.table k ∨ s'.table k = none
  held : s'.held = s.held
  inUse : s'.inUse = s.inUse
  pre : ∃ n, n ≤ s.lru.length ∧ s'.lru = s.lru.drop n ∧ s'.deleted = s.deleted ++ s.lru.take n
  usageLe : s'.usage ≤ s.usage

theorem LoopSpec.refl (s : Shard) : LoopSpec s s :=
  ⟨Frame.refl s, fun _ => Or.inl rfl, rfl, rfl, ⟨0, by simp⟩, Nat.le_refl _⟩

theorem LoopSpec.step {s s1 s2 : Shard} {old : Nat} (h1 : EvictSpec s s1 old) (h2 : LoopSpec s1 s2)
    (hx : ∃ e : CEntry, s.entries[old]? = some e) : LoopSpec s s2 := by
  obtain ⟨n, hn, hl, hd⟩ := h2.pre
  refine ⟨h1.frame.trans h2.frame, ?_, h2.held.trans h1.held, h2.inUse.trans h1.inUse, ⟨n + 1, ?_, ?_, ?_⟩, ?_⟩
  · intro k
    rcases h2.table k with h | h
    · rw [h]; exact h1.table k
    · exact Or.inr h
  · rw [h1.lru]; simp; omega
  · rw [h1.lru]; simpa using hl
  · rw [h1.lru, hd, h1.deleted]; simp
  · obtain ⟨e, he⟩ := hx; have := h1.usage e he; have := h2.usageLe; omega

theorem evictLoop_inv (fuel : Nat) (s : Shard) (hi : Inv s) (hf : s.lru.length ≤ fuel) :
    ∃ s', evictLoop fuel s = some s' ∧ Inv s' ∧ LoopSpec s s' ∧ (s'.usage ≤ s'.capacity ∨ s'.lru = []) := by
  induction fuel generalizing s with
  | zero =>
    have : s.lru = [] := List.eq_nil_of_length_eq_zero (by omega)
    refine ⟨s, ?_, hi, LoopSpec.refl s, Or.inr this⟩
    unfold evictLoop; simp [this]
  | succ n ih =>
    unfold evictLoop
    by_cases hu : s.usage > s.capacity
    · cases hl : s.lru with
      | nil => exact ⟨s, by simp [hu], hi, LoopSpec.refl s, Or.inr hl⟩
      | cons old rest =>
        obtain ⟨s1, he, hi1, sp1⟩ := evictOne_inv s old rest hi hl
        have hlen : s1.lru.length ≤ n := by
          have := sp1.lru; rw [this] at hf; simp at hf; omega
        obtain ⟨s2, he2, hi2, sp2, hcap⟩ := ih s1 hi1 hlen
        have hx : ∃ e : CEntry, s.entries[old]? = some e := by
          obtain ⟨e, hx, _⟩ := (hi.lruIff old).1 (by rw [hl]; simp); exact ⟨e, hx⟩
        have hcap' : s.capacity = s1.capacity := sp1.frame.cap.symm
        refine ⟨s2, by simp [hu, he, he2], hi2, LoopSpec.step sp1 sp2 hx, hcap⟩
    · exact ⟨s, by simp [hu], hi, LoopSpec.refl s, Or.inl (by omega)⟩

theorem pruneLoop_inv (fuel : Nat) (s : Shard) (hi : Inv s) (hf : s.lru.length ≤ fuel) :
    ∃ s', pruneLoop fuel s = some s' ∧ Inv s' ∧ LoopSpec s s' ∧ s'.lru = [] := by
  induction fuel generalizing s with
  | zero =>
    have : s.lru = [] := List.eq_nil_of_length_eq_zero (by omega)
    refine ⟨s, ?_, hi, LoopSpec.refl s, this⟩
    unfold pruneLoop; simp [this]
  | succ n ih =>
    unfold pruneLoop
    cases hl : s.lru with
    | nil => exact ⟨s, by simp, hi, LoopSpec.refl s, hl⟩
    | cons old rest =>
      obtain ⟨s1, he, hi1, sp1⟩ := evictOne_inv s old rest hi hl
      have hlen : s1.lru.length ≤ n := by
        have := sp1.lru; rw [this] at hf; simp at hf; omega
      obtain ⟨s2, he2, hi2, sp2, hcap⟩ := ih s1 hi1 hlen
      have hx : ∃ e : CEntry, s.entries[old]? = some e := by
        obtain ⟨e, hx, _⟩ := (hi.lruIff old).1 (by rw [hl]; simp); exact ⟨e, hx⟩
      exact ⟨s2, by simp [he, he2], hi2, LoopSpec.step sp1 sp2 hx, hcap⟩

theorem prune_inv (s : Shard) (hi : Inv s) :
    ∃ s', prune s = some s' ∧ Inv s' ∧ LoopSpec s s' ∧ s'.lru = [] :=
  pruneLoop_inv s.lru.length s hi (Nat.le_refl _)


/-! ### lookup -/

theorem filter_opt_eq (l : List Nat) (id : Nat) :
    l.filter (fun x => x != id) = l.filter (fun x => some id != some x) := by
  apply List.filter_congr; intro x _
  by_cases h : x = id
  · subst h; simp
  · have : id ≠ x := fun h' => h h'.symm
    have h1 : (x != id) = true := bne_iff_ne.2 h
    have h2 : (some id != some x) = true := bne_iff_ne.2 (by intro h'; cases h'; exact this rfl)
    rw [h1, h2]


structure LookupSpec (s s' : Shard) (r : Option Nat) : Prop where
  frame : Frame s s'
  table : s'.table = s.table
  usage : s'.usage = s.usage
  deleted : s'.deleted = s.deleted
  held : s'.held = s.held ++ r.toList
  lru : s'.lru = s.lru.filter (fun x => r != some x)

theorem lookup_inv (s : Shard) (k : Bytes) (hi : Inv s) :
    ∃ s', lookup s k = some (s', s.table k) ∧ Inv s' ∧ LookupSpec s s' (s.table k) := by
  cases hk : s.table k with
  | none =>
    exact ⟨s, by simp [lookup, hk], hi, Frame.refl s, rfl, rfl, rfl, by simp, (List.filter_eq_self.2 (fun _ _ => rfl)).symm⟩
  | some id =>
    obtain ⟨e, hx, hc, hkey⟩ := hi.tabIn k id hk
    have hlt := lt_of_getElem? hx
    have hrefs := hi.refs id e hx
    simp only [hc, if_true] at hrefs
    have hne : e.refs ≠ 0 := by omega
    let s' : Shard := { s with lru := s.lru.filter (· != id),
                               inUse := if e.refs = 1 then s.inUse.filter (· != id) ++ [id] else s.inUse,
                               entries := s.entries.set id { e with refs := e.refs + 1 },
                               held := s.held ++ [id] }
    have hnl : e.refs ≠ 1 → id ∉ s.lru := by
      intro h h'; obtain ⟨e', hx', _, hr'⟩ := (hi.lruIff id).1 h'; rw [hx] at hx'; cases hx'; exact h hr'
    have heq : lookup s k = some (s', some id) := by
      simp only [lookup, hk, ref, hx, hne, if_false, hc, and_true]
      by_cases h1 : e.refs = 1
      · simp [h1, unlink, s', hc]
      · simp [h1, s', hc, filter_ne_self_of_not_mem _ _ (hnl h1)]
    refine ⟨s', heq, ?_, ?_⟩
    · have hsum := sumCharge_set s.entries id e { e with refs := e.refs + 1 } hx
      constructor <;> dsimp only [s']
      · intro j e1 h1
        simp only [List.getElem?_set] at h1
        simp only [List.count_append, List.count_singleton]
        split at h1
        · rename_i h; subst h; simp [hlt] at h1; subst h1; simp [hc]; omega
        · rename_i h; have := hi.refs j e1 h1; simp [h]; omega
      · intro j
        simp only [List.mem_filter, List.getElem?_set, hi.lruIff j]
        grind
      · intro j
        have := hi.useIff j
        by_cases h1 : e.refs = 1
        · simp only [h1, if_true, List.mem_append, List.mem_filter, List.mem_singleton, List.getElem?_set, hi.useIff j]
          grind
        · simp only [h1, if_false, List.getElem?_set, hi.useIff j]
          grind
      · intro j
        simp only [List.getElem?_set, hi.delIff j]
        grind
      · intro j hj; simp only [List.mem_append, List.mem_singleton, List.length_set] at hj ⊢
        rcases hj with h | h
        · exact hi.heldB j h
        · subst h; exact hlt
      · intro j e1 h1 _ hc1
        simp only [List.getElem?_set] at h1
        split at h1
        · rename_i h; subst h; simp [hlt] at h1; subst h1; simpa [hkey] using hk
        · exact hi.tab j e1 h1 (by simp) hc1
      · intro k' j hk'
        obtain ⟨e1, h1, h2, h3⟩ := hi.tabIn k' j hk'
        simp only [List.getElem?_set]
        by_cases h : id = j
        · subst h; rw [hx] at h1; cases h1; exact ⟨{ e with refs := e.refs + 1 }, by simp [hlt], hc, h3⟩
        · exact ⟨e1, by simp [h, h1], h2, h3⟩
      · have := hi.usage; simp [wt] at hsum; omega
      · exact hi.ndLru.filter _
      · split
        · rw [List.nodup_append]; refine ⟨hi.ndUse.filter _, by simp, ?_⟩
          intro a ha b hb; simp at hb; subst hb; intro h; subst h; simp at ha
        · exact hi.ndUse
      · exact hi.ndDel
    · refine ⟨⟨rfl, by simp [s'], ?_⟩, rfl, rfl, rfl, by simp [s'],
        filter_opt_eq s.lru id⟩
      intro j e1 h1
      simp only [s', List.getElem?_set]
      by_cases h : id = j
      · subst h; rw [hx] at h1; cases h1; simp [hlt]
      · simp [h, h1]


/-! ### release -/

structure ReleaseSpec (s s' : Shard) (id : Nat) : Prop where
  frame : Frame s s'
  table : s'.table = s.table
  usage : s'.usage = s.usage
  held : s'.held = s.held.erase id
  /-- the last client reference to an in-cache entry puts it at the NEWEST end of `lru` -/
  lru : ∀ e : CEntry, s.entries[id]? = some e →
    s'.lru = if e.inCache = true ∧ s.held.count id = 1 then s.lru ++ [id] else s.lru
  /-- the last reference to an entry that left the cache frees it -/
  deleted : ∀ e : CEntry, s.entries[id]? = some e →
    s'.deleted = if e.inCache = false ∧ s.held.count id = 1 then s.deleted ++ [id] else s.deleted

theorem release_inv (s : Shard) (id : Nat) (hi : Inv s) (hh : id ∈ s.held) :
    ∃ s', release s id = some s' ∧ Inv s' ∧ ReleaseSpec s s' id := by
  have hlt := hi.heldB id hh
  obtain ⟨e, hx⟩ : ∃ e, s.entries[id]? = some e := ⟨s.entries[id], by simp [hlt]⟩
  have hrefs := hi.refs id e hx
  have hcnt : 0 < s.held.count id := List.count_pos_iff.2 hh
  have hne : e.refs ≠ 0 := by omega
  have hnl : id ∉ s.lru := by
    intro h; obtain ⟨e', hx', hc', hr'⟩ := (hi.lruIff id).1 h; rw [hx] at hx'; cases hx'; simp [hc'] at hrefs; omega
  have hnd : id ∉ s.deleted := by
    intro h; obtain ⟨e', hx', hr'⟩ := (hi.delIff id).1 h; rw [hx] at hx'; cases hx'; omega
  let s' : Shard := { s with
      entries := s.entries.set id { e with refs := e.refs - 1 },
      lru := if e.inCache = true ∧ e.refs = 2 then s.lru ++ [id] else s.lru,
      inUse := if e.inCache = true ∧ e.refs = 2 then s.inUse.filter (· != id) else s.inUse,
      deleted := if e.refs = 1 then s.deleted ++ [id] else s.deleted,
      held := s.held.erase id }
  have heq : release s id = some s' := by
    simp only [release, hh, if_true, unref, hx, hne, if_false]
    by_cases h1 : e.refs = 1
    · have hc : e.inCache = false := by
        cases h : e.inCache
        · rfl
        · simp [h] at hrefs; omega
      simp [h1, hc, s']
    · have h2 : e.refs - 1 ≠ 0 := by omega
      by_cases h3 : e.inCache = true ∧ e.refs = 2
      · have : e.refs - 1 = 1 := by omega
        simp [h2, h3, this, s', unlink, filter_ne_self_of_not_mem _ _ hnl]
      · have : ¬ (e.inCache = true ∧ e.refs - 1 = 1) := by
          intro h; exact h3 ⟨h.1, by omega⟩
        simp [h2, h1, h3, this, s']
  refine ⟨s', heq, ?_, ?_⟩
  · have hsum := sumCharge_set s.entries id e { e with refs := e.refs - 1 } hx
    constructor <;> dsimp only [s']
    · intro j e1 h1
      simp only [List.getElem?_set] at h1
      simp only [List.count_erase]
      split at h1
      · rename_i h; subst h; simp [hlt] at h1; subst h1; simp; omega
      · rename_i h; have := hi.refs j e1 h1; simp [h]; omega
    · intro j
      have := hi.lruIff j
      by_cases h3 : e.inCache = true ∧ e.refs = 2
      · simp only [h3, and_self, if_true, List.mem_append, List.mem_singleton, List.getElem?_set, hi.lruIff j]
        grind
      · simp only [h3, if_false, List.getElem?_set, hi.lruIff j]
        grind
    · intro j
      have := hi.useIff j
      by_cases h3 : e.inCache = true ∧ e.refs = 2
      · simp only [h3, and_self, if_true, List.mem_filter, List.getElem?_set, hi.useIff j]
        grind
      · simp only [h3, if_false, List.getElem?_set, hi.useIff j]
        grind
    · intro j
      by_cases h1 : e.refs = 1
      · simp only [h1, if_true, List.mem_append, List.mem_singleton, List.getElem?_set, hi.delIff j]
        grind
      · simp only [h1, if_false, List.getElem?_set, hi.delIff j]
        grind
    · intro j hj; simp only [List.length_set]; exact hi.heldB j (List.mem_of_mem_erase hj)
    · intro j e1 h1 _ hc1
      simp only [List.getElem?_set] at h1
      split at h1
      · rename_i h; subst h; simp [hlt] at h1; subst h1; exact hi.tab _ e hx (by simp) hc1
      · exact hi.tab j e1 h1 (by simp) hc1
    · intro k' j hk'
      obtain ⟨e1, h1, h2, h3⟩ := hi.tabIn k' j hk'
      simp only [List.getElem?_set]
      by_cases h : id = j
      · subst h; rw [hx] at h1; cases h1; exact ⟨{ e with refs := e.refs - 1 }, by simp [hlt], h2, h3⟩
      · exact ⟨e1, by simp [h, h1], h2, h3⟩
    · have := hi.usage; simp [wt] at hsum; omega
    · split
      · rw [List.nodup_append]; refine ⟨hi.ndLru, by simp, ?_⟩
        intro a ha b hb; simp at hb; subst hb; intro h; subst h; exact hnl ha
      · exact hi.ndLru
    · split
      · exact hi.ndUse.filter _
      · exact hi.ndUse
    · split
      · rw [List.nodup_append]; refine ⟨hi.ndDel, by simp, ?_⟩
        intro a ha b hb; simp at hb; subst hb; intro h; subst h; exact hnd ha
      · exact hi.ndDel
  · refine ⟨⟨rfl, by simp [s'], ?_⟩, rfl, rfl, rfl, ?_, ?_⟩
    · intro j e1 h1
      simp only [s', List.getElem?_set]
      by_cases h : id = j
      · subst h; rw [hx] at h1; cases h1; simp [hlt]
      · simp [h, h1]
    · intro e1 h1; rw [hx] at h1; cases h1
      show (if e.inCache = true ∧ e.refs = 2 then s.lru ++ [id] else s.lru) = _
      cases hc : e.inCache <;> simp [hc] at hrefs ⊢
      split <;> split <;> first | rfl | (exfalso; omega)
    · intro e1 h1; rw [hx] at h1; cases h1
      show (if e.refs = 1 then s.deleted ++ [id] else s.deleted) = _
      cases hc : e.inCache <;> simp [hc] at hrefs ⊢
      · split <;> split <;> first | rfl | (exfalso; omega)
      · intro h; omega

end Lcdb.LruCache
