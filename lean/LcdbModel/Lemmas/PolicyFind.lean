/-
  `find_file` (binary search) = index of the first file whose largest key is ≥ the target;
  `some_file_overlaps_range` (linear and binary branch) = "some file's user range hits [lo, hi]";
  the contract of `pick_level_for_memtable_output`.
-/
import LcdbModel.Lemmas.PolicyDefs
namespace Lcdb.Policy
open Lcdb.CmpBasic Lcdb.Lsm

/-! ### find_file -/

theorem findFileGo_le (c : Cmp) (files : List FileMeta) (k : Bytes) (p : Nat) (left right : Nat)
    (h : right ≤ files.length) : findFileGo c files k p left right h ≤ files.length := by
  fun_induction findFileGo c files k p left right h with
  | case1 left right h hlt hm hc ih => exact ih
  | case2 left right h hlt hm hc ih => exact ih
  | case3 left right h hlt => exact h

theorem findFile_le_length (c : Cmp) (files : List FileMeta) (k : Bytes) (p : Nat) :
    findFile c files k p ≤ files.length :=
  findFileGo_le c files k p 0 files.length (Nat.le_refl _)

/-- under `LargestSorted`, "largest < target" is downward closed along the list -/
theorem largestSorted_mono {c : Cmp} {files : List FileMeta} (h : LargestSorted c files) {k : Bytes} {p : Nat}
    {i j : Nat} (hij : i ≤ j) (hj : j < files.length)
    (hlt : ikLt c (files[j]).lk (files[j]).lp k p = true) :
    ikLt c (files[i]'(by omega)).lk (files[i]'(by omega)).lp k p = true := by
  rcases Nat.eq_or_lt_of_le hij with rfl | hlt'
  · exact hlt
  · have := (List.pairwise_iff_getElem.mp h) i j (by omega) hj hlt'
    exact ikLt_trans c this hlt

/-- the loop invariant of the binary search, and what it yields at exit -/
theorem findFileGo_spec (c : Cmp) (files : List FileMeta) (k : Bytes) (p : Nat) (left right : Nat)
    (h : right ≤ files.length) (hs : LargestSorted c files) (hlr : left ≤ right)
    (hL : ∀ i (hi : i < files.length), i < left → ikLt c (files[i]).lk (files[i]).lp k p = true)
    (hR : ∀ (hr : right < files.length), ikLt c (files[right]).lk (files[right]).lp k p = false) :
    (∀ i (hi : i < files.length), i < findFileGo c files k p left right h →
        ikLt c (files[i]).lk (files[i]).lp k p = true) ∧
    (∀ (hr : findFileGo c files k p left right h < files.length),
        ikLt c (files[findFileGo c files k p left right h]).lk
          (files[findFileGo c files k p left right h]).lp k p = false) := by
  fun_induction findFileGo c files k p left right h with
  | case1 left right h hlt hm hc ih =>
    apply ih (by omega)
    · intro i hi hil
      exact largestSorted_mono hs (by omega) hm hc
    · exact hR
  | case2 left right h hlt hm hc ih =>
    apply ih (by omega) hL
    intro _
    simpa using hc
  | case3 left right h hlt =>
    have : left = right := by omega
    subst this
    exact ⟨hL, hR⟩

theorem findFile_eq_findIdx (c : Cmp) (files : List FileMeta) (k : Bytes) (p : Nat)
    (h : LargestSorted c files) :
    findFile c files k p = files.findIdx (fun f => !ikLt c f.lk f.lp k p) := by
  have hspec := findFileGo_spec c files k p 0 files.length (Nat.le_refl _) h (Nat.zero_le _)
    (fun i _ hi => absurd hi (Nat.not_lt_zero i)) (fun hr => absurd hr (Nat.lt_irrefl _))
  have hle := findFile_le_length c files k p
  unfold findFile at hle ⊢
  generalize findFileGo c files k p 0 files.length (Nat.le_refl _) = r at hspec hle
  obtain ⟨h1, h2⟩ := hspec
  symm
  rcases Nat.eq_or_lt_of_le hle with rfl | hlt
  · apply List.findIdx_eq_length_of_false
    intro x hx
    obtain ⟨i, hi, rfl⟩ := List.getElem_of_mem hx
    simp [h1 i hi hi]
  · rw [List.findIdx_eq hlt]
    refine ⟨by simp [h2 hlt], ?_⟩
    intro j hj
    simp [h1 j (by omega) hj]

theorem findFile_getElem?_eq_find (c : Cmp) (files : List FileMeta) (k : Bytes) (p : Nat)
    (h : LargestSorted c files) :
    files[findFile c files k p]? = files.find? (fun f => !ikLt c f.lk f.lp k p) := by
  rw [findFile_eq_findIdx c files k p h, List.find?_eq_getElem?_findIdx]

theorem largestSorted_of_levelSorted {c : Cmp} {files : List FileMeta} (hs : LevelSorted c files)
    (hb : BoundsOk c files) : LargestSorted c files := by
  unfold LargestSorted
  unfold LevelSorted at hs
  refine List.Pairwise.imp_of_mem ?_ hs
  intro f g _ hg hfg
  exact ikLt_of_lt_of_not_lt c hfg (hb g hg)

/-! ### some_file_overlaps_range -/

theorem someFileOverlapsRange_linear_iff (c : Cmp) (files : List FileMeta) (lo hi : Option Bytes) :
    someFileOverlapsRange c false files lo hi = true ↔ ∃ f ∈ files, rangeHits c lo hi f = true := by
  simp [someFileOverlapsRange, rangeHits, List.any_eq_true]

/-- against the target `(k, maxPacked)`, a largest key with a legal trailer is smaller iff its user key is -/
theorem ikLt_maxPacked_iff (c : Cmp) (f : FileMeta) (k : Bytes) (hp : f.lp ≤ maxPacked) :
    ikLt c f.lk f.lp k maxPacked = true ↔ c.compare f.lk k = .lt := by
  rw [ikLt_iff]
  constructor
  · rintro (h | ⟨_, h⟩)
    · exact h
    · omega
  · exact .inl

theorem not_ikLt_maxPacked_eq (c : Cmp) (f : FileMeta) (k : Bytes) (hp : f.lp ≤ maxPacked) :
    (!ikLt c f.lk f.lp k maxPacked) = !afterFile c (some k) f := by
  have h1 := ikLt_maxPacked_iff c f k hp
  have h2 := compare_gt_iff c k f.lk
  simp only [afterFile]
  cases h : ikLt c f.lk f.lp k maxPacked
  · cases h' : c.compare k f.lk <;> simp_all
  · have := h2.mpr (h1.mp h); simp [this]

theorem find?_congr_mem {α : Type} {p q : α → Bool} {l : List α} (h : ∀ x ∈ l, p x = q x) :
    l.find? p = l.find? q := by
  induction l with
  | nil => rfl
  | cons a t ih =>
    simp only [List.find?_cons, h a (List.mem_cons_self ..)]
    rw [ih (fun x hx => h x (List.mem_cons_of_mem _ hx))]

/-- the binary branch looks at the first file that is not entirely before `lo` -/
theorem someFileOverlapsRange_binary_eq (c : Cmp) (files : List FileMeta) (lo hi : Option Bytes)
    (hs : LargestSorted c files) (hp : PackedOk files) :
    someFileOverlapsRange c true files lo hi =
      match files.find? (fun f => !afterFile c lo f) with
      | none => false
      | some f => !beforeFile c hi f := by
  cases lo with
  | none =>
    simp only [someFileOverlapsRange, Bool.not_true, Bool.false_eq_true, ↓reduceIte]
    cases files <;> simp [afterFile]
  | some k =>
    simp only [someFileOverlapsRange, Bool.not_true, Bool.false_eq_true, ↓reduceIte]
    rw [findFile_getElem?_eq_find c files k maxPacked hs,
      find?_congr_mem (fun f hf => not_ikLt_maxPacked_eq c f k (hp f hf))]
    cases List.find? (fun f => !afterFile c (some k) f) files <;> rfl

/-- user-key form of "sorted and disjoint": every file is a user range, and ranges go left to right -/
def UserSorted (c : Cmp) (files : List FileMeta) : Prop :=
  files.Pairwise (fun f g => c.compare f.sk g.sk ≠ .gt)

theorem userSorted_of_levelSorted {c : Cmp} {files : List FileMeta} (hs : LevelSorted c files)
    (hb : BoundsOk c files) : UserSorted c files := by
  unfold UserSorted
  unfold LevelSorted at hs
  refine List.Pairwise.imp_of_mem ?_ hs
  intro f g hf _ hfg hgt
  -- f.sk ≤ f.lk ≤ g.sk
  have h1 : c.compare f.sk f.lk ≠ .gt := hb.user f hf
  have h2 : c.compare f.lk g.sk ≠ .gt := user_le_of_ikLt hfg
  have h3 : c.compare g.sk f.sk = .lt := (compare_gt_iff c _ _).mp hgt
  have h4 : c.compare g.sk f.lk = .lt := compare_lt_of_lt_of_ne_gt c h3 h1
  exact h2 ((compare_gt_iff c _ _).mpr h4)

theorem first_not_after_iff (c : Cmp) (files : List FileMeta) (lo hi : Option Bytes)
    (hu : UserSorted c files) :
    (match files.find? (fun f => !afterFile c lo f) with
      | none => false
      | some f => !beforeFile c hi f) = true ↔ ∃ f ∈ files, rangeHits c lo hi f = true := by
  induction files with
  | nil => simp
  | cons f rest ih =>
    have hu' := List.pairwise_cons.mp hu
    rw [List.find?_cons]
    cases haf : afterFile c lo f with
    | true =>
      simp only [Bool.not_true]
      rw [ih hu'.2]
      simp [rangeHits, haf]
    | false =>
      simp only [Bool.not_false]
      cases hbf : beforeFile c hi f with
      | false =>
        simp only [Bool.not_false, true_iff]
        exact ⟨f, List.mem_cons_self .., by simp [rangeHits, haf, hbf]⟩
      | true =>
        simp only [Bool.not_true, Bool.false_eq_true, false_iff]
        rintro ⟨g, hg, hhit⟩
        rcases List.mem_cons.mp hg with rfl | hg
        · simp [rangeHits, hbf] at hhit
        · cases hi with
          | none => simp [beforeFile] at hbf
          | some h =>
            simp only [beforeFile, beq_iff_eq] at hbf
            have hfg := hu'.1 g hg
            have : c.compare h g.sk = .lt := compare_lt_of_lt_of_ne_gt c hbf hfg
            simp [rangeHits, beforeFile, this] at hhit

theorem someFileOverlapsRange_binary_iff (c : Cmp) (files : List FileMeta) (lo hi : Option Bytes)
    (hs : LevelSorted c files) (hb : BoundsOk c files) (hp : PackedOk files) :
    someFileOverlapsRange c true files lo hi = true ↔ ∃ f ∈ files, rangeHits c lo hi f = true := by
  rw [someFileOverlapsRange_binary_eq c files lo hi (largestSorted_of_levelSorted hs hb) hp]
  exact first_not_after_iff c files lo hi (userSorted_of_levelSorted hs hb)

/-! ### pick_level_for_memtable_output -/

/-- off level 0 a pass of get_overlapping_inputs never restarts -/
theorem goiPass_false_ok (c : Cmp) (b e : Option Bytes) (files : List FileMeta) :
    ∃ r, goiPass c false b e files = .ok r := by
  induction files with
  | nil => exact ⟨[], rfl⟩
  | cons f rest ih =>
    obtain ⟨r, hr⟩ := ih
    simp only [goiPass, Bool.false_and, Bool.false_eq_true, ↓reduceIte, hr]
    split
    · exact ⟨r, rfl⟩
    · split
      · exact ⟨r, rfl⟩
      · exact ⟨f :: r, rfl⟩

theorem goi_false_isSome (c : Cmp) (files : List FileMeta) (b e : Option IKey) :
    ∃ r, goi c false files b e = some r := by
  obtain ⟨r, hr⟩ := goiPass_false_ok c (b.map (·.1)) (e.map (·.1)) files
  refine ⟨r, ?_⟩
  simp [goi, getOverlappingInputs, goiFuel, goiLoop, hr]

theorem versionGoi_isSome (c : Cmp) (v : Version) (level : Nat) (b e : Option IKey)
    (h0 : level ≠ 0) (hl : level < numLevels) : ∃ r, versionGoi c v level b e = some r := by
  have : (level == 0) = false := by simpa using h0
  simp only [versionGoi, hl, ↓reduceIte, this]
  exact goi_false_isSome c _ b e

theorem pickLevelGo_le (c : Cmp) (v : Version) (mfs : Nat) (sk lk : Bytes) (n level L : Nat)
    (h : pickLevelGo c v mfs sk lk n level = some L) : L ≤ level + n := by
  induction n generalizing level with
  | zero => simp only [pickLevelGo, Option.some.injEq] at h; omega
  | succ n ih =>
    simp only [pickLevelGo] at h
    split at h
    · simp only [Option.some.injEq] at h; omega
    · split at h
      · split at h
        · cases h
        · split at h
          · simp only [Option.some.injEq] at h; omega
          · have := ih _ h; omega
      · have := ih _ h; omega

theorem pickLevel_le (c : Cmp) (v : Version) (mfs : Nat) (sk lk : Bytes) (L : Nat)
    (h : pickLevel c v mfs sk lk = some L) : L ≤ 2 := by
  simp only [pickLevel] at h
  split at h
  · simp only [Option.some.injEq] at h; omega
  · have := pickLevelGo_le c v mfs sk lk _ _ _ h
    simpa [maxMemCompactLevel] using this

/-- the loop returns a level, and every level it stepped over was found free of overlap -/
theorem pickLevelGo_spec (c : Cmp) (v : Version) (mfs : Nat) (sk lk : Bytes) (n level : Nat) :
    ∃ L, pickLevelGo c v mfs sk lk n level = some L ∧ level ≤ L ∧ L ≤ level + n ∧
      ∀ l, level < l → l ≤ L → overlapInLevel c v l (some sk) (some lk) = false := by
  induction n generalizing level with
  | zero => exact ⟨level, rfl, Nat.le_refl _, Nat.le_refl _, fun l h1 h2 => by omega⟩
  | succ n ih =>
    have step : ∀ (_ : overlapInLevel c v (level + 1) (some sk) (some lk) = false),
        ∃ L, pickLevelGo c v mfs sk lk n (level + 1) = some L ∧ level ≤ L ∧ L ≤ level + (n + 1) ∧
          ∀ l, level < l → l ≤ L → overlapInLevel c v l (some sk) (some lk) = false := by
      intro hov
      obtain ⟨L, hL, h1, h2, h3⟩ := ih (level + 1)
      refine ⟨L, hL, by omega, by omega, ?_⟩
      intro l hl1 hl2
      rcases Nat.eq_or_lt_of_le hl1 with rfl | hl
      · exact hov
      · exact h3 l hl hl2
    have stop : ∃ L, some level = some L ∧ level ≤ L ∧ L ≤ level + (n + 1) ∧
          ∀ l, level < l → l ≤ L → overlapInLevel c v l (some sk) (some lk) = false :=
      ⟨level, rfl, Nat.le_refl _, by omega, fun l h1 h2 => by omega⟩
    simp only [pickLevelGo]
    cases hov : overlapInLevel c v (level + 1) (some sk) (some lk) with
    | true => simpa using stop
    | false =>
      simp only [Bool.false_eq_true, ↓reduceIte]
      split
      · next hlt =>
        obtain ⟨r, hr⟩ := versionGoi_isSome c v (level + 2) (some (sk, maxPacked)) (some (lk, 0))
          (by omega) hlt
        rw [hr]
        simp only
        split
        · exact stop
        · exact step hov
      · exact step hov

theorem rangeHits_eq_userRangesOverlap (c : Cmp) (f g : FileMeta) :
    rangeHits c (some f.sk) (some f.lk) g = userRangesOverlap c f g := by
  simp only [rangeHits, afterFile, beforeFile, userRangesOverlap]
  have h := compare_gt_iff c f.sk g.lk
  have : (c.compare f.sk g.lk == .gt) = (c.compare g.lk f.sk == .lt) := by
    cases h1 : c.compare f.sk g.lk <;> cases h2 : c.compare g.lk f.sk <;> simp_all
  rw [this, Bool.or_comm]

/-- `overlapInLevel … = false` means no file of the level overlaps the user range -/
theorem overlapInLevel_false (c : Cmp) (v : Version) (l : Nat) (lo hi : Option Bytes)
    (hs : 1 ≤ l → LevelSorted c (v.files l)) (hb : BoundsOk c (v.files l)) (hp : PackedOk (v.files l))
    (h : overlapInLevel c v l lo hi = false) : ∀ g ∈ v.files l, rangeHits c lo hi g = false := by
  intro g hg
  cases hh : rangeHits c lo hi g with
  | false => rfl
  | true =>
    have hex : ∃ f ∈ v.files l, rangeHits c lo hi f = true := ⟨g, hg, hh⟩
    unfold overlapInLevel at h
    rcases Nat.eq_zero_or_pos l with rfl | hpos
    · have := (someFileOverlapsRange_linear_iff c (v.files 0) lo hi).mpr hex
      simp only [gt_iff_lt, Nat.lt_irrefl, decide_false] at h
      rw [h] at this; cases this
    · have := (someFileOverlapsRange_binary_iff c (v.files l) lo hi (hs hpos) hb hp).mpr hex
      simp only [gt_iff_lt, hpos, decide_true] at h
      rw [h] at this; cases this

theorem pickLevel_contract (c : Cmp) (v : Version) (mfs : Nat) (sk lk : Bytes)
    (hs : ∀ l, 1 ≤ l → LevelSorted c (v.files l)) (hb : ∀ l, BoundsOk c (v.files l))
    (hp : ∀ l, PackedOk (v.files l)) :
    ∃ L, pickLevel c v mfs sk lk = some L ∧ L ≤ 2 ∧
      ∀ f : FileMeta, f.sk = sk → f.lk = lk → ∀ l, l ≤ L → L ≠ 0 →
        ∀ g ∈ v.files l, userRangesOverlap c f g = false := by
  simp only [pickLevel]
  cases h0 : overlapInLevel c v 0 (some sk) (some lk) with
  | true => exact ⟨0, by simp, by omega, fun f _ _ l _ hne => absurd rfl hne⟩
  | false =>
    obtain ⟨L, hL, _, h2, h3⟩ := pickLevelGo_spec c v mfs sk lk maxMemCompactLevel 0
    refine ⟨L, by simpa using hL, by simpa [maxMemCompactLevel] using h2, ?_⟩
    intro f hfs hfl l hl _ g hg
    have hov : overlapInLevel c v l (some sk) (some lk) = false := by
      rcases Nat.eq_zero_or_pos l with rfl | hpos
      · exact h0
      · exact h3 l hpos hl
    have := overlapInLevel_false c v l (some sk) (some lk) (hs l) (hb l) (hp l) hov g hg
    rw [← hfs, ← hfl, rangeHits_eq_userRangesOverlap] at this
    exact this

end Lcdb.Policy
