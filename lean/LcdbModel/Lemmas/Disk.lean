/-
  Helper lemmas and invariants for the storage-protocol model (Model/Disk.lean):
  directory replay, the world invariant, the monitor invariant `Inv` and its preservation.
-/
import LcdbModel.Model.Disk

namespace Lcdb.Disk

/-! ### directories -/

theorem lookup_nil (f : FName) : lookup [] f = none := rfl

theorem lookup_cons (p : FName × Nat) (d : List (FName × Nat)) (f : FName) :
    lookup (p :: d) f = if p.1 = f then some p.2 else lookup d f := by
  unfold lookup
  by_cases h : p.1 = f <;> simp [h]

theorem lookup_erase (d : List (FName × Nat)) (g f : FName) :
    lookup (erase d g) f = if f = g then none else lookup d f := by
  induction d with
  | nil => simp [erase, lookup]
  | cons p d ih =>
    unfold erase at ih ⊢
    by_cases hp : p.1 = g
    · have : (p.1 != g) = false := by simp [hp]
      rw [List.filter_cons]; simp only [this]; rw [if_neg (by simp)]
      rw [ih, lookup_cons]
      by_cases hf : f = g
      · simp [hf]
      · have : ¬ p.1 = f := by rw [hp]; exact fun h => hf h.symm
        simp [hf, this]
    · have : (p.1 != g) = true := by simp [hp]
      rw [List.filter_cons]; simp only [this, if_true]
      rw [lookup_cons, lookup_cons, ih]
      by_cases hf : f = g
      · simp [hf, hp]
      · simp [hf]

theorem lookup_create (d : List (FName × Nat)) (f g : FName) (id : Nat) :
    lookup (applyDirOp d (.create f id)) g = if g = f then some id else lookup d g := by
  simp only [applyDirOp, lookup_cons, lookup_erase]
  by_cases h : g = f
  · simp [h]
  · have : ¬ f = g := fun h' => h h'.symm
    simp [h, this]

theorem lookup_unlink (d : List (FName × Nat)) (f g : FName) :
    lookup (applyDirOp d (.unlink f)) g = if g = f then none else lookup d g := by
  simp only [applyDirOp, lookup_erase]

theorem lookup_rename_none (d : List (FName × Nat)) (a b g : FName) (h : lookup d a = none) :
    lookup (applyDirOp d (.rename a b)) g = lookup d g := by
  simp only [applyDirOp, h]

theorem lookup_rename_some (d : List (FName × Nat)) (a b g : FName) (id : Nat) (h : lookup d a = some id) :
    lookup (applyDirOp d (.rename a b)) g =
      if g = b then some id else if g = a then none else lookup d g := by
  simp only [applyDirOp, h, lookup_cons, lookup_erase]
  by_cases h1 : g = b
  · simp [h1]
  · have : ¬ b = g := fun h' => h1 h'.symm
    simp [h1, this]

theorem lookup_some_mem {d : List (FName × Nat)} {f : FName} {id : Nat} (h : lookup d f = some id) :
    (f, id) ∈ d := by
  unfold lookup at h
  cases hf : d.find? (fun p => p.1 == f) with
  | none => simp [hf] at h
  | some p =>
    simp [hf] at h
    have h1 := List.find?_some hf
    have h2 := List.mem_of_find?_eq_some hf
    simp at h1
    rw [← h1, ← h]; exact h2

theorem lookup_isSome_of_mem {d : List (FName × Nat)} {f : FName} (h : f ∈ d.map (·.1)) :
    (lookup d f).isSome := by
  induction d with
  | nil => simp at h
  | cons p d ih =>
    rw [lookup_cons]
    by_cases hp : p.1 = f
    · simp [hp]
    · simp only [hp, if_false]
      apply ih
      simp at h
      rcases h with h | h
      · exact absurd h.symm hp
      · simp; exact h

/-- replay of a list of directory operations from the empty directory -/
def replay (ops : List DirOp) : List (FName × Nat) := ops.foldl applyDirOp []

theorem replay_snoc (ops : List DirOp) (op : DirOp) : replay (ops ++ [op]) = applyDirOp (replay ops) op := by
  simp [replay, List.foldl_append]

theorem dirAt_eq (w : World) (j : Nat) : dirAt w j = replay (w.dirOps.take j) := rfl

theorem snoc_induction {α : Type} {P : List α → Prop} (nil : P []) (snoc : ∀ l a, P l → P (l ++ [a])) :
    ∀ l, P l := by
  intro l
  have : ∀ l : List α, P l.reverse := by
    intro l
    induction l with
    | nil => exact nil
    | cons a l ih => rw [List.reverse_cons]; exact snoc _ _ ih
  have h := this l.reverse
  rwa [List.reverse_reverse] at h


/-! ### structure of the directory-operation list of a conforming run -/

/-- what the monitor guarantees about each directory operation -/
def OpOK : DirOp → Prop
  | .rename a b => b = .current ∧ ∃ k, a = .tmp k
  | .create f _ => f ≠ .current
  | .unlink f => f ≠ .current

def OpsOK (ops : List DirOp) : Prop := ∀ op ∈ ops, OpOK op

theorem OpsOK.append {A B : List DirOp} (hA : OpsOK A) (hB : OpsOK B) : OpsOK (A ++ B) := by
  intro op h; rcases List.mem_append.1 h with h | h
  · exact hA op h
  · exact hB op h

theorem OpsOK.left {A B : List DirOp} (h : OpsOK (A ++ B)) : OpsOK A :=
  fun op ho => h op (List.mem_append.2 (Or.inl ho))

theorem OpsOK.right {A B : List DirOp} (h : OpsOK (A ++ B)) : OpsOK B :=
  fun op ho => h op (List.mem_append.2 (Or.inr ho))

theorem OpsOK.take {ops : List DirOp} (h : OpsOK ops) (j : Nat) : OpsOK (ops.take j) :=
  fun op ho => h op (List.mem_of_mem_take ho)

/-- a name other than CURRENT that is present was created under that name, with that body -/
theorem replay_lookup_created : ∀ (ops : List DirOp), OpsOK ops → ∀ (f : FName) (id : Nat), f ≠ .current →
    lookup (replay ops) f = some id → DirOp.create f id ∈ ops := by
  intro ops
  induction ops using snoc_induction with
  | nil => intro _ f id _ h; simp [replay, lookup] at h
  | snoc ops op ih =>
    intro hok f id hf h
    have ih' := ih hok.left
    have hop : OpOK op := hok op (by simp)
    rw [replay_snoc] at h
    cases op with
    | create g id' =>
      rw [lookup_create] at h
      by_cases hg : f = g
      · simp [hg] at h; subst hg; subst h; simp
      · simp [hg] at h; exact List.mem_append.2 (Or.inl (ih' f id hf h))
    | unlink g =>
      rw [lookup_unlink] at h
      by_cases hg : f = g
      · simp [hg] at h
      · simp [hg] at h; exact List.mem_append.2 (Or.inl (ih' f id hf h))
    | rename a b =>
      obtain ⟨hb, k, ha⟩ := hop
      cases hl : lookup (replay ops) a with
      | none => rw [lookup_rename_none _ _ _ _ hl] at h; exact List.mem_append.2 (Or.inl (ih' f id hf h))
      | some x =>
        rw [lookup_rename_some _ _ _ _ _ hl] at h
        have : ¬ f = b := by rw [hb]; exact hf
        simp only [this, if_false] at h
        by_cases hfa : f = a
        · simp [hfa] at h
        · simp only [hfa, if_false] at h; exact List.mem_append.2 (Or.inl (ih' f id hf h))

/-- the body under CURRENT was created as a pointer file `<k>.dbtmp` -/
theorem replay_lookup_current : ∀ (ops : List DirOp), OpsOK ops → ∀ (id : Nat),
    lookup (replay ops) .current = some id → ∃ k, DirOp.create (.tmp k) id ∈ ops := by
  intro ops
  induction ops using snoc_induction with
  | nil => intro _ id h; simp [replay, lookup] at h
  | snoc ops op ih =>
    intro hok id h
    have ih' := ih hok.left
    have hop : OpOK op := hok op (by simp)
    rw [replay_snoc] at h
    have lift : (∃ k, DirOp.create (.tmp k) id ∈ ops) → ∃ k, DirOp.create (.tmp k) id ∈ ops ++ [op] := by
      rintro ⟨k, hk⟩; exact ⟨k, List.mem_append.2 (Or.inl hk)⟩
    cases op with
    | create g id' =>
      have hg : ¬ FName.current = g := fun e => hop e.symm
      rw [lookup_create] at h; simp only [hg, if_false] at h
      exact lift (ih' id h)
    | unlink g =>
      have hg : ¬ FName.current = g := fun e => hop e.symm
      rw [lookup_unlink] at h; simp only [hg, if_false] at h
      exact lift (ih' id h)
    | rename a b =>
      obtain ⟨hb, k, ha⟩ := hop
      cases hl : lookup (replay ops) a with
      | none => rw [lookup_rename_none _ _ _ _ hl] at h; exact lift (ih' id h)
      | some x =>
        rw [lookup_rename_some _ _ _ _ _ hl] at h
        simp only [hb, if_true] at h
        injection h with h; subst h
        subst ha
        exact lift ⟨k, replay_lookup_created ops hok.left (.tmp k) x (by simp) hl⟩

/-- if a name is present after `A ++ B` and never created in `B`, it was already present (same body) after `A` -/
theorem replay_lookup_back (A : List DirOp) : ∀ (B : List DirOp), OpsOK B → ∀ (f : FName) (id : Nat), f ≠ .current →
    (∀ id', DirOp.create f id' ∉ B) → lookup (replay (A ++ B)) f = some id → lookup (replay A) f = some id := by
  intro B
  induction B using snoc_induction with
  | nil => intro _ f id _ _ h; simpa using h
  | snoc B op ih =>
    intro hok f id hf hnc h
    have ih' := ih hok.left f id hf (fun id' hm => hnc id' (List.mem_append.2 (Or.inl hm)))
    have hop : OpOK op := hok op (by simp)
    rw [← List.append_assoc, replay_snoc] at h
    cases op with
    | create g id' =>
      have hg : ¬ f = g := by
        intro e; subst e; exact hnc id' (by simp)
      rw [lookup_create] at h; simp only [hg, if_false] at h
      exact ih' h
    | unlink g =>
      rw [lookup_unlink] at h
      by_cases hg : f = g
      · simp [hg] at h
      · simp only [hg, if_false] at h; exact ih' h
    | rename a b =>
      obtain ⟨hb, k, ha⟩ := hop
      cases hl : lookup (replay (A ++ B)) a with
      | none => rw [lookup_rename_none _ _ _ _ hl] at h; exact ih' h
      | some x =>
        rw [lookup_rename_some _ _ _ _ _ hl] at h
        have : ¬ f = b := by rw [hb]; exact hf
        simp only [this, if_false] at h
        by_cases hfa : f = a
        · simp [hfa] at h
        · simp only [hfa, if_false] at h; exact ih' h

/-- CURRENT never disappears -/
theorem replay_current_persists (A : List DirOp) : ∀ (B : List DirOp), OpsOK B →
    (lookup (replay A) .current).isSome → (lookup (replay (A ++ B)) .current).isSome := by
  intro B
  induction B using snoc_induction with
  | nil => intro _ h; simpa using h
  | snoc B op ih =>
    intro hok h
    have ih' := ih hok.left h
    have hop : OpOK op := hok op (by simp)
    rw [← List.append_assoc, replay_snoc]
    cases op with
    | create g id' =>
      have hg : ¬ FName.current = g := fun e => hop e.symm
      rw [lookup_create]; simp only [hg, if_false]; exact ih'
    | unlink g =>
      have hg : ¬ FName.current = g := fun e => hop e.symm
      rw [lookup_unlink]; simp only [hg, if_false]; exact ih'
    | rename a b =>
      obtain ⟨hb, k, ha⟩ := hop
      cases hl : lookup (replay (A ++ B)) a with
      | none => rw [lookup_rename_none _ _ _ _ hl]; exact ih'
      | some x => rw [lookup_rename_some _ _ _ _ _ hl]; simp [hb]


/-! ### the world invariant (holds for every run, conforming or not) -/

theorem mem_take_mono {α : Type} {l : List α} {a : α} {i i' : Nat} (h : a ∈ l.take i) (hi : i ≤ i') : a ∈ l.take i' := by
  have : l.take i = (l.take i').take i := by rw [List.take_take, Nat.min_eq_left hi]
  rw [this] at h
  exact List.mem_of_mem_take h

theorem modifyBody_length (bodies : List Body) (id : Nat) (g : Body → Body) :
    (modifyBody bodies id g).length = bodies.length := by
  simp [modifyBody]

theorem modifyBody_get (bodies : List Body) (id : Nat) (g : Body → Body) (x : Nat) :
    (modifyBody bodies id g)[x]? = (bodies[x]?).map (fun b => if x = id then g b else b) := by
  simp only [modifyBody, List.getElem?_map, List.getElem?_zipIdx]
  cases bodies[x]? <;> simp

theorem modifyBody_get_ne (bodies : List Body) (id : Nat) (g : Body → Body) (x : Nat) (h : x ≠ id) :
    (modifyBody bodies id g)[x]? = bodies[x]? := by
  rw [modifyBody_get]; cases bodies[x]? <;> simp [h]

theorem modifyBody_get_eq (bodies : List Body) (id : Nat) (g : Body → Body) :
    (modifyBody bodies id g)[id]? = (bodies[id]?).map g := by
  rw [modifyBody_get]; cases bodies[id]? <;> simp

structure WInv (w : World) : Prop where
  dir_eq : w.dir = replay w.dirOps
  synced_le : w.dirSynced ≤ w.dirOps.length
  body_le : ∀ (id : Nat) (b : Body), w.bodies[id]? = some b → b.synced ≤ b.recs.length
  create_lt : ∀ (f : FName) (id : Nat), DirOp.create f id ∈ w.dirOps → id < w.bodies.length
  create_inj : ∀ (f g : FName) (id : Nat), DirOp.create f id ∈ w.dirOps → DirOp.create g id ∈ w.dirOps → f = g
  synced_dir : ∀ (f : FName) (id : Nat) (b : Body), DirOp.create f id ∈ w.dirOps → w.bodies[id]? = some b → 0 < b.synced →
    DirOp.create f id ∈ w.dirOps.take w.dirSynced

theorem WInv.empty : WInv World.empty := by
  constructor <;> simp [World.empty, replay]

theorem step_append_some {w : World} {f : FName} {r : Rec} {id : Nat} (h : lookup w.dir f = some id) :
    w.step (.append f r) = { w with bodies := modifyBody w.bodies id (fun b => { b with recs := b.recs ++ [r] }) } := by
  simp [World.step, h]

theorem step_append_none {w : World} {f : FName} {r : Rec} (h : lookup w.dir f = none) :
    w.step (.append f r) = w := by
  simp [World.step, h]

theorem step_sync_some {w : World} {f : FName} {id : Nat} (h : lookup w.dir f = some id) :
    w.step (.sync f) = { w with bodies := modifyBody w.bodies id (fun b => { b with synced := b.recs.length }),
                                dirSynced := w.dirOps.length } := by
  simp [World.step, h]

theorem step_sync_none {w : World} {f : FName} (h : lookup w.dir f = none) :
    w.step (.sync f) = w := by
  simp [World.step, h]

theorem WInv.step {w : World} (h : WInv w) (e : Ev) : WInv (w.step e) := by
  cases e with
  | create f =>
    show WInv { w with dir := applyDirOp w.dir (.create f w.bodies.length),
                       bodies := w.bodies ++ [{ recs := [], synced := 0 }],
                       dirOps := w.dirOps ++ [.create f w.bodies.length] }
    constructor
    · simp only [replay_snoc, h.dir_eq]
    · simp only [List.length_append, List.length_singleton]; have := h.synced_le; omega
    · intro id b hb
      by_cases hid : id < w.bodies.length
      · simp only [List.getElem?_append_left hid] at hb; exact h.body_le id b hb
      · simp only [List.getElem?_append_right (Nat.le_of_not_lt hid)] at hb
        cases hx : id - w.bodies.length with
        | zero => simp [hx] at hb; subst hb; simp
        | succ n => simp [hx] at hb
    · intro g id hm
      simp only [List.length_append, List.length_singleton]
      rcases List.mem_append.1 hm with hm | hm
      · have := h.create_lt g id hm; omega
      · simp at hm; omega
    · intro g1 g2 id h1 h2
      rcases List.mem_append.1 h1 with h1 | h1 <;> rcases List.mem_append.1 h2 with h2 | h2
      · exact h.create_inj g1 g2 id h1 h2
      · simp at h2; have := h.create_lt g1 id h1; omega
      · simp at h1; have := h.create_lt g2 id h2; omega
      · simp at h1 h2; rw [h1.1, h2.1]
    · intro g id b hm hb hs
      simp only at hb hs ⊢
      rw [List.take_append_of_le_length h.synced_le]
      rcases List.mem_append.1 hm with hm | hm
      · have hlt := h.create_lt g id hm
        rw [List.getElem?_append_left hlt] at hb
        exact h.synced_dir g id b hm hb hs
      · simp at hm
        rw [hm.2] at hb
        simp at hb; subst hb; simp at hs
  | append f r =>
    cases hl : lookup w.dir f with
    | none => rw [step_append_none hl]; exact h
    | some id0 =>
      rw [step_append_some hl]
      constructor
      · exact h.dir_eq
      · exact h.synced_le
      · intro id b hb
        simp only [modifyBody_get] at hb
        cases hb0 : w.bodies[id]? with
        | none => simp [hb0] at hb
        | some b0 =>
          simp [hb0] at hb
          have := h.body_le id b0 hb0
          by_cases hid : id = id0
          · simp [hid] at hb; subst hb; simp; omega
          · simp [hid] at hb; subst hb; exact this
      · intro g id hm; simp only [modifyBody_length]; exact h.create_lt g id hm
      · exact h.create_inj
      · intro g id b hm hb hs
        simp only [modifyBody_get] at hb
        cases hb0 : w.bodies[id]? with
        | none => simp [hb0] at hb
        | some b0 =>
          simp [hb0] at hb
          apply h.synced_dir g id b0 hm hb0
          by_cases hid : id = id0
          · simp [hid] at hb; subst hb; simpa using hs
          · simp [hid] at hb; subst hb; exact hs
  | sync f =>
    cases hl : lookup w.dir f with
    | none => rw [step_sync_none hl]; exact h
    | some id0 =>
      rw [step_sync_some hl]
      constructor
      · exact h.dir_eq
      · simp
      · intro id b hb
        simp only [modifyBody_get] at hb
        cases hb0 : w.bodies[id]? with
        | none => simp [hb0] at hb
        | some b0 =>
          simp [hb0] at hb
          have := h.body_le id b0 hb0
          by_cases hid : id = id0
          · simp [hid] at hb; subst hb; simp
          · simp [hid] at hb; subst hb; exact this
      · intro g id hm; simp only [modifyBody_length]; exact h.create_lt g id hm
      · exact h.create_inj
      · intro g id b hm hb hs
        simp only [List.take_length]; exact hm
  | syncDir =>
    show WInv { w with dirSynced := w.dirOps.length }
    constructor
    · exact h.dir_eq
    · simp
    · exact h.body_le
    · exact h.create_lt
    · exact h.create_inj
    · intro g id b hm hb hs; simp only [List.take_length]; exact hm
  | rename a b =>
    show WInv { w with dir := applyDirOp w.dir (.rename a b), dirOps := w.dirOps ++ [.rename a b] }
    constructor
    · simp only [replay_snoc, h.dir_eq]
    · simp only [List.length_append, List.length_singleton]; have := h.synced_le; omega
    · exact h.body_le
    · intro g id hm
      rcases List.mem_append.1 hm with hm | hm
      · exact h.create_lt g id hm
      · simp at hm
    · intro g1 g2 id h1 h2
      rcases List.mem_append.1 h1 with h1 | h1
      · rcases List.mem_append.1 h2 with h2 | h2
        · exact h.create_inj g1 g2 id h1 h2
        · simp at h2
      · simp at h1
    · intro g id b0 hm hb hs
      simp only at hb ⊢
      rw [List.take_append_of_le_length h.synced_le]
      rcases List.mem_append.1 hm with hm | hm
      · exact h.synced_dir g id b0 hm hb hs
      · simp at hm
  | unlink f =>
    show WInv { w with dir := applyDirOp w.dir (.unlink f), dirOps := w.dirOps ++ [.unlink f] }
    constructor
    · simp only [replay_snoc, h.dir_eq]
    · simp only [List.length_append, List.length_singleton]; have := h.synced_le; omega
    · exact h.body_le
    · intro g id hm
      rcases List.mem_append.1 hm with hm | hm
      · exact h.create_lt g id hm
      · simp at hm
    · intro g1 g2 id h1 h2
      rcases List.mem_append.1 h1 with h1 | h1
      · rcases List.mem_append.1 h2 with h2 | h2
        · exact h.create_inj g1 g2 id h1 h2
        · simp at h2
      · simp at h1
    · intro g id b0 hm hb hs
      simp only at hb ⊢
      rw [List.take_append_of_le_length h.synced_le]
      rcases List.mem_append.1 hm with hm | hm
      · exact h.synced_dir g id b0 hm hb hs
      · simp at hm
  | ack b s => exact h

theorem run_snoc (t : List Ev) (e : Ev) : World.run (t ++ [e]) = (World.run t).step e := by
  simp [World.run, List.foldl_append]

theorem WInv.run (t : List Ev) : WInv (World.run t) := by
  induction t using snoc_induction with
  | nil => exact WInv.empty
  | snoc t e ih => rw [run_snoc]; exact ih.step e


/-! ### monitor basics -/

theorem fail_ok (m : Mon) (s : String) : (fail m s).ok = false := by
  unfold fail; cases h : m.ok <;> simp [h]
theorem fail_w (m : Mon) (s : String) : (fail m s).w = m.w := by
  unfold fail; cases h : m.ok <;> simp
theorem fail_logOf (m : Mon) (s : String) : (fail m s).logOf = m.logOf := by
  unfold fail; cases h : m.ok <;> simp
theorem fail_okDel (m : Mon) (s : String) : (fail m s).okDel = m.okDel := by
  unfold fail; cases h : m.ok <;> simp

theorem step_w (m : Mon) (e : Ev) : (m.step e).w = m.w.step e := by
  simp only [Mon.step, Mon.post, Mon.check]
  split <;> split <;> simp [fail_w]

theorem step_logOf (m : Mon) (e : Ev) : (m.step e).logOf = newLogOf m.logOf e := by
  simp only [Mon.step, Mon.post, Mon.check]
  split <;> split <;> simp [fail_logOf]

theorem step_ok (m : Mon) (e : Ev) :
    (m.step e).ok = (m.ok && preOk m.w m.logOf e && postOk (m.w.step e) e) := by
  simp only [Mon.step, Mon.post, Mon.check, Mon.pre, Mon.postOk]
  by_cases h1 : preOk m.w m.logOf e = true
  · by_cases h2 : postOk (m.w.step e) e = true
    · simp [h1, h2]
    · simp [h1, h2, fail_ok]
  · by_cases h2 : postOk (m.w.step e) e = true
    · simp [h1, h2, fail_ok, fail_w]
    · simp [h1, h2, fail_ok, fail_w]

theorem step_okDel (m : Mon) (e : Ev) : (m.step e).okDel = (m.okDel && delOk m.w e) := by
  simp only [Mon.step, Mon.post, Mon.check, Mon.delOk]
  split <;> split <;> simp [fail_okDel]

theorem monitor_snoc (t : List Ev) (e : Ev) : monitor (t ++ [e]) = (monitor t).step e := by
  simp [monitor, List.foldl_append]

theorem monitor_w (t : List Ev) : (monitor t).w = World.run t := by
  induction t using snoc_induction with
  | nil => rfl
  | snoc t e ih => rw [monitor_snoc, step_w, run_snoc, ih]

theorem conforms_snoc {t : List Ev} {e : Ev} (h : Conforms (t ++ [e])) :
    Conforms t ∧ preOk (World.run t) (monitor t).logOf e = true ∧ postOk ((World.run t).step e) e = true := by
  unfold Conforms at h ⊢
  rw [monitor_snoc, step_ok, monitor_w] at h
  simp only [Bool.and_eq_true] at h
  exact ⟨h.1.1, h.1.2, h.2⟩

theorem conforms_append {t s : List Ev} : Conforms (t ++ s) → Conforms t := by
  induction s using snoc_induction with
  | nil => intro h; simpa using h
  | snoc s e ih => intro h; rw [← List.append_assoc] at h; exact ih (conforms_snoc h).1

/-- the monitor only ever goes from ok to failed -/
theorem conforms_prefix {t : List Ev} (h : Conforms t) (n : Nat) : Conforms (t.take n) := by
  rw [← List.take_append_drop n t] at h
  exact conforms_append h

theorem strict_snoc {t : List Ev} {e : Ev} (h : ConformsStrict (t ++ [e])) :
    ConformsStrict t ∧ delOk (World.run t) e = true := by
  unfold ConformsStrict at h ⊢
  obtain ⟨h1, h2⟩ := h
  rw [monitor_snoc, step_okDel, monitor_w] at h2
  simp only [Bool.and_eq_true] at h2
  exact ⟨⟨(conforms_snoc h1).1, h2.1⟩, h2.2⟩

theorem strict_append {t s : List Ev} : ConformsStrict (t ++ s) → ConformsStrict t := by
  induction s using snoc_induction with
  | nil => intro h; simpa using h
  | snoc s e ih => intro h; rw [← List.append_assoc] at h; exact ih (strict_snoc h).1

theorem strict_prefix {t : List Ev} (h : ConformsStrict t) (n : Nat) : ConformsStrict (t.take n) := by
  rw [← List.take_append_drop n t] at h
  exact strict_append h


/-! ### semantic candidates -/

/-- `j` directory operations is an admissible cut for a crash right now -/
def InRange (w : World) (j : Nat) : Prop := w.dirSynced ≤ j ∧ j ≤ w.dirOps.length

/-- in the directory after `j` operations CURRENT is a complete, fsynced pointer to MANIFEST `k`, which is present with body `mb` -/
def Points (w : World) (j : Nat) (k : Nat) (mb : Body) : Prop :=
  ∃ cid mid, lookup (dirAt w j) .current = some cid ∧ w.bodies[cid]? = some ⟨[.ptr k], 1⟩ ∧
    lookup (dirAt w j) (.manifest k) = some mid ∧ w.bodies[mid]? = some mb

/-- `v` is a version recovery could compute from a crash image with directory cut `j` -/
def Cand (w : World) (j : Nat) (v : AVersion) : Prop :=
  ∃ k mb n, Points w j k mb ∧ mb.synced ≤ n ∧ v = versionOf (mb.recs.take n)

theorem candAt_mem {w : World} (hw : WInv w) {j : Nat} {v : AVersion} (h : Cand w j v) :
    some (dirAt w j, v) ∈ candidatesAt w j := by
  obtain ⟨k, mb, n, ⟨cid, mid, hc, hcb, hm, hmb⟩, hn, hv⟩ := h
  have hle := hw.body_le mid mb hmb
  unfold candidatesAt
  simp only [hc, hcb, Option.bind_some]
  simp only [List.length_singleton, Nat.add_sub_cancel, List.range_one, List.flatMap_cons, List.flatMap_nil,
    List.append_nil, Nat.add_zero, List.take_succ_cons, List.take_zero]
  simp only [hm, hmb, Option.bind_some, List.mem_map, List.mem_range]
  refine ⟨min n mb.recs.length - mb.synced, ?_, ?_⟩
  · omega
  · have e1 : mb.synced + (min n mb.recs.length - mb.synced) = min n mb.recs.length := by omega
    rw [e1, hv]
    have : List.take (min n mb.recs.length) mb.recs = List.take n mb.recs := by
      rw [List.take_eq_take_iff]; omega
    rw [this]

theorem cand_mem {w : World} (hw : WInv w) {j : Nat} (hj : InRange w j) {v : AVersion} (h : Cand w j v) :
    some (dirAt w j, v) ∈ candidates w := by
  unfold candidates
  rw [List.mem_flatMap]
  refine ⟨j - w.dirSynced, ?_, ?_⟩
  · rw [List.mem_range]; have := hj.1; have := hj.2; omega
  · have : w.dirSynced + (j - w.dirSynced) = j := by have := hj.1; omega
    rw [this]; exact candAt_mem hw h

theorem cand_mem_last {w : World} (hw : WInv w) {v : AVersion} (h : Cand w w.dirOps.length v) :
    some (dirAt w w.dirOps.length, v) ∈ lastCandidates w := candAt_mem hw h

theorem cand_none {w : World} {j : Nat} (hj : InRange w j) (h : lookup (dirAt w j) .current = none) :
    none ∈ candidates w := by
  unfold candidates
  rw [List.mem_flatMap]
  refine ⟨j - w.dirSynced, ?_, ?_⟩
  · rw [List.mem_range]; have := hj.1; have := hj.2; omega
  · have : w.dirSynced + (j - w.dirSynced) = j := by have := hj.1; omega
    rw [this]; unfold candidatesAt; simp [h]

theorem established_current {w : World} (h : established w = true) {j : Nat} (hj : InRange w j) :
    (lookup (dirAt w j) .current).isSome := by
  cases hl : lookup (dirAt w j) .current with
  | some x => rfl
  | none =>
    have := cand_none hj hl
    unfold established at h
    rw [List.all_eq_true] at h
    have := h none this
    simp at this


/-! ### how one event changes the world -/

/-- the directory operation an event issues -/
def evOp (w : World) : Ev → Option DirOp
  | .create f => some (.create f w.bodies.length)
  | .rename a b => some (.rename a b)
  | .unlink f => some (.unlink f)
  | _ => none

theorem step_dirOps (w : World) (e : Ev) : (w.step e).dirOps = w.dirOps ++ (evOp w e).toList := by
  cases e with
  | create f => rfl
  | append f r => cases hl : lookup w.dir f <;> simp [World.step, hl, evOp]
  | sync f => cases hl : lookup w.dir f <;> simp [World.step, hl, evOp]
  | syncDir => simp [World.step, evOp]
  | rename a b => rfl
  | unlink f => rfl
  | ack b s => simp [World.step, evOp]

theorem step_dirSynced_le {w : World} (hw : WInv w) (e : Ev) : w.dirSynced ≤ (w.step e).dirSynced := by
  have := hw.synced_le
  cases e with
  | create f => exact Nat.le_refl _
  | append f r => cases hl : lookup w.dir f <;> simp [World.step, hl]
  | sync f => cases hl : lookup w.dir f <;> simp [World.step, hl]; exact this
  | syncDir => simpa [World.step] using this
  | rename a b => exact Nat.le_refl _
  | unlink f => exact Nat.le_refl _
  | ack b s => exact Nat.le_refl _

theorem step_dirSynced_op {w : World} {e : Ev} {op : DirOp} (h : evOp w e = some op) :
    (w.step e).dirSynced = w.dirSynced := by
  cases e <;> simp [evOp] at h <;> rfl

theorem step_bodies_op {w : World} {e : Ev} {op : DirOp} (h : evOp w e = some op) (x : Nat) (hx : x < w.bodies.length) :
    (w.step e).bodies[x]? = w.bodies[x]? := by
  cases e <;> simp [evOp] at h
  · show (w.bodies ++ _)[x]? = _; rw [List.getElem?_append_left hx]
  · rfl
  · rfl

theorem dirAt_step_le (w : World) (e : Ev) {j : Nat} (hj : j ≤ w.dirOps.length) : dirAt (w.step e) j = dirAt w j := by
  simp only [dirAt, step_dirOps, List.take_append_of_le_length hj]

theorem dirAt_step_none {w : World} {e : Ev} (h : evOp w e = none) (j : Nat) : dirAt (w.step e) j = dirAt w j := by
  simp only [dirAt, step_dirOps, h, Option.toList_none, List.append_nil]

theorem dirAt_step_new {w : World} {e : Ev} {op : DirOp} (h : evOp w e = some op) :
    dirAt (w.step e) (w.dirOps.length + 1) = applyDirOp (dirAt w w.dirOps.length) op := by
  simp only [dirAt, step_dirOps, h, Option.toList_some]
  rw [List.take_of_length_le (by simp), List.take_length, List.foldl_append]; rfl

theorem dirAt_len {w : World} (hw : WInv w) : dirAt w w.dirOps.length = w.dir := by
  rw [hw.dir_eq, dirAt, List.take_length]; rfl

theorem inRange_step {w : World} (hw : WInv w) (e : Ev) {j : Nat} (hj : InRange (w.step e) j) :
    (InRange w j) ∨ (j = w.dirOps.length + 1 ∧ ∃ op, evOp w e = some op) := by
  have h1 := step_dirSynced_le hw e
  obtain ⟨ha, hb⟩ := hj
  rw [step_dirOps] at hb
  cases ho : evOp w e with
  | none => left; simp [ho] at hb; exact ⟨by omega, hb⟩
  | some op =>
    simp [ho] at hb
    by_cases hj : j ≤ w.dirOps.length
    · left; exact ⟨by omega, hj⟩
    · right; exact ⟨by omega, op, rfl⟩

theorem inRange_len {w : World} (hw : WInv w) : InRange w w.dirOps.length := ⟨hw.synced_le, Nat.le_refl _⟩

/-- every body id found in a directory was created -/
theorem replay_lookup_some_created : ∀ (ops : List DirOp) (f : FName) (id : Nat),
    lookup (replay ops) f = some id → ∃ c, DirOp.create c id ∈ ops := by
  intro ops
  induction ops using snoc_induction with
  | nil => intro f id h; simp [replay, lookup] at h
  | snoc ops op ih =>
    intro f id h
    have lift : (∃ c, DirOp.create c id ∈ ops) → ∃ c, DirOp.create c id ∈ ops ++ [op] := by
      rintro ⟨c, hc⟩; exact ⟨c, List.mem_append.2 (Or.inl hc)⟩
    rw [replay_snoc] at h
    cases op with
    | create g id' =>
      rw [lookup_create] at h
      by_cases hg : f = g
      · simp [hg] at h; subst h; exact ⟨g, by simp⟩
      · simp [hg] at h; exact lift (ih f id h)
    | unlink g =>
      rw [lookup_unlink] at h
      by_cases hg : f = g
      · simp [hg] at h
      · simp [hg] at h; exact lift (ih f id h)
    | rename a b =>
      cases hl : lookup (replay ops) a with
      | none => rw [lookup_rename_none _ _ _ _ hl] at h; exact lift (ih f id h)
      | some x =>
        rw [lookup_rename_some _ _ _ _ _ hl] at h
        by_cases hfb : f = b
        · simp [hfb] at h; subst h; exact lift (ih a x hl)
        · simp only [hfb, if_false] at h
          by_cases hfa : f = a
          · simp [hfa] at h
          · simp only [hfa, if_false] at h; exact lift (ih f id h)

theorem lookup_lt {w : World} (hw : WInv w) {j : Nat} {f : FName} {id : Nat} (h : lookup (dirAt w j) f = some id) :
    id < w.bodies.length := by
  obtain ⟨c, hc⟩ := replay_lookup_some_created _ f id h
  exact hw.create_lt c id (List.mem_of_mem_take hc)

/-- a body only grows, and its synced count only grows -/
def BodyLe (b b' : Body) : Prop := b.recs <+: b'.recs ∧ b.synced ≤ b'.synced

theorem BodyLe.refl (b : Body) : BodyLe b b := ⟨List.prefix_refl _, Nat.le_refl _⟩

theorem step_bodies_le {w : World} (hw : WInv w) (e : Ev) {x : Nat} {b : Body} (h : w.bodies[x]? = some b) :
    ∃ b', (w.step e).bodies[x]? = some b' ∧ BodyLe b b' := by
  have hx : x < w.bodies.length := by
    rcases List.getElem?_eq_some_iff.1 h with ⟨hx, _⟩; exact hx
  cases e with
  | create f => exact ⟨b, by rw [step_bodies_op (op := .create f w.bodies.length) rfl x hx]; exact h, BodyLe.refl b⟩
  | rename a c => exact ⟨b, h, BodyLe.refl b⟩
  | unlink f => exact ⟨b, h, BodyLe.refl b⟩
  | syncDir => exact ⟨b, h, BodyLe.refl b⟩
  | ack c s => exact ⟨b, h, BodyLe.refl b⟩
  | append f r =>
    cases hl : lookup w.dir f with
    | none => rw [step_append_none hl]; exact ⟨b, h, BodyLe.refl b⟩
    | some id0 =>
      rw [step_append_some hl]
      simp only [modifyBody_get, h, Option.map_some]
      by_cases hx0 : x = id0
      · simp only [hx0, if_true]; exact ⟨_, rfl, ⟨List.prefix_append _ _, Nat.le_refl _⟩⟩
      · simp only [hx0, if_false]; exact ⟨b, rfl, BodyLe.refl b⟩
  | sync f =>
    cases hl : lookup w.dir f with
    | none => rw [step_sync_none hl]; exact ⟨b, h, BodyLe.refl b⟩
    | some id0 =>
      rw [step_sync_some hl]
      simp only [modifyBody_get, h, Option.map_some]
      by_cases hx0 : x = id0
      · simp only [hx0, if_true]; exact ⟨_, rfl, ⟨List.prefix_refl _, hw.body_le x b h⟩⟩
      · simp only [hx0, if_false]; exact ⟨b, rfl, BodyLe.refl b⟩

theorem BodyLe.mem_recs {b b' : Body} (h : BodyLe b b') {r : Rec} (hr : r ∈ b.recs) : r ∈ b'.recs :=
  h.1.subset hr

theorem BodyLe.mem_synced {b b' : Body} (h : BodyLe b b') (hb : b.synced ≤ b.recs.length) {r : Rec}
    (hr : r ∈ b.recs.take b.synced) : r ∈ b'.recs.take b'.synced := by
  obtain ⟨⟨s, hs⟩, h2⟩ := h
  rw [← hs]
  apply mem_take_mono _ h2
  rw [List.take_append_of_le_length hb]; exact hr


/-! ### the monitor invariant -/

def TableGood (w : World) (dir : List (FName × Nat)) (p : Nat × Nat) : Prop :=
  1 ≤ p.2 ∧ ∃ id b, lookup dir (.table p.1) = some id ∧ w.bodies[id]? = some b ∧ b.recs.length = p.2 ∧ b.synced = p.2

def GoodV (w : World) (dir : List (FName × Nat)) (v : AVersion) : Prop :=
  (∃ ln, v.logNum = some ln) ∧ ∀ p ∈ v.tables, TableGood w dir p

def createName : DirOp → Option FName
  | .create f _ => some f
  | _ => none

/-- batch `b` of log `n` is safe w.r.t. candidate `(j, v)`: the version has retired the log, or the log is in that
    directory and the selected part (`sel`: everything for a kill, the fsynced part for a power loss) holds `b` -/
def LogSafe (w : World) (sel : Body → List Rec) (j : Nat) (v : AVersion) (n b : Nat) : Prop :=
  (∃ ln, v.logNum = some ln ∧ n < ln) ∨
  (∃ id body, lookup (dirAt w j) (.log n) = some id ∧ w.bodies[id]? = some body ∧ Rec.batch b ∈ sel body)

def selAll (b : Body) : List Rec := b.recs
def selSynced (b : Body) : List Rec := b.recs.take b.synced

structure Inv (t : List Ev) : Prop where
  ops : OpsOK (World.run t).dirOps
  names : ((World.run t).dirOps.filterMap createName).Nodup
  logOf : ∀ b, logOfLookup (monitor t).logOf b = logOfBatch t b
  a1 : ∀ j, InRange (World.run t) j → ∀ cid, lookup (dirAt (World.run t) j) .current = some cid →
        ∃ k mb, Points (World.run t) j k mb
  a2 : ∀ j, InRange (World.run t) j → ∀ v, Cand (World.run t) j v → GoodV (World.run t) (dirAt (World.run t) j) v
  bS : ∀ b ∈ ackedSync t, ∃ n, logOfBatch t b = some n ∧ ∀ j, InRange (World.run t) j → ∀ v, Cand (World.run t) j v →
        LogSafe (World.run t) selSynced j v n b
  bK : ∀ b ∈ ackedAll t, ∃ n, logOfBatch t b = some n ∧ ∀ v, Cand (World.run t) (World.run t).dirOps.length v →
        LogSafe (World.run t) selAll (World.run t).dirOps.length v n b
  e1 : ackedSync t ≠ [] → ∀ j, InRange (World.run t) j → (lookup (dirAt (World.run t) j) .current).isSome
  e2 : ackedAll t ≠ [] → (lookup (dirAt (World.run t) (World.run t).dirOps.length) .current).isSome

theorem bodyOf_eq {w : World} (hw : WInv w) (f : FName) :
    bodyOf w f = (lookup (dirAt w w.dirOps.length) f).bind fun id => w.bodies[id]? := by
  rw [dirAt_len hw]; rfl

theorem bodyOf_some {w : World} (hw : WInv w) {f : FName} {b : Body} (h : bodyOf w f = some b) :
    ∃ id, lookup (dirAt w w.dirOps.length) f = some id ∧ w.bodies[id]? = some b := by
  rw [bodyOf_eq hw] at h
  cases hl : lookup (dirAt w w.dirOps.length) f with
  | none => simp [hl] at h
  | some id => simp [hl] at h; exact ⟨id, rfl, h⟩

theorem tableOk_good {w : World} (hw : WInv w) {p : Nat × Nat} (h : tableOk w p = true) :
    TableGood w (dirAt w w.dirOps.length) p := by
  unfold tableOk at h
  cases hb : bodyOf w (.table p.1) with
  | none => simp [hb] at h
  | some body =>
    simp [hb] at h
    obtain ⟨id, h1, h2⟩ := bodyOf_some hw hb
    exact ⟨h.1.1, id, body, h1, h2, h.1.2, h.2⟩

theorem created_of_mem {w : World} {f : FName} {id : Nat} (h : DirOp.create f id ∈ w.dirOps) : created w f = true := by
  unfold created
  rw [List.any_eq_true]
  exact ⟨_, h, by simp⟩

theorem createName_mem {ops : List DirOp} {f : FName} {id : Nat} (h : DirOp.create f id ∈ ops) :
    f ∈ ops.filterMap createName := by
  rw [List.mem_filterMap]; exact ⟨_, h, rfl⟩

theorem createName_mem' {ops : List DirOp} {f : FName} (h : f ∈ ops.filterMap createName) :
    ∃ id, DirOp.create f id ∈ ops := by
  rw [List.mem_filterMap] at h
  obtain ⟨op, ho, hn⟩ := h
  cases op <;> simp [createName] at hn
  subst hn; exact ⟨_, ho⟩

theorem not_created {w : World} {f : FName} (h : created w f = false) : f ∉ w.dirOps.filterMap createName := by
  intro hm
  obtain ⟨id, hid⟩ := createName_mem' hm
  rw [created_of_mem hid] at h; cases h

/-- a name present now, whose body was fsynced at some point, is present (same body) in every admissible directory cut -/
theorem lookup_persist {w : World} (hw : WInv w) (hops : OpsOK w.dirOps)
    (hn : (w.dirOps.filterMap createName).Nodup) {j : Nat} (hj : InRange w j) {f : FName} (hf : f ≠ .current)
    {id : Nat} {b : Body} (hl : lookup (dirAt w w.dirOps.length) f = some id) (hb : w.bodies[id]? = some b)
    (hs : 0 < b.synced) : lookup (dirAt w j) f = some id := by
  have hl' : lookup (replay w.dirOps) f = some id := by
    rw [dirAt_eq, List.take_length] at hl; exact hl
  have hc := replay_lookup_created _ hops f id hf hl'
  have hc2 := mem_take_mono (hw.synced_dir f id b hc hb hs) hj.1
  rw [← List.take_append_drop j w.dirOps] at hl' hn
  rw [List.filterMap_append, List.nodup_append] at hn
  have hops' : OpsOK (List.drop j w.dirOps) := fun op ho => hops op (List.mem_of_mem_drop ho)
  apply replay_lookup_back _ _ hops' f id hf _ hl'
  intro id' hm
  exact hn.2.2 f (createName_mem hc2) f (createName_mem hm) rfl

/-- the name under which a body id is found determines the name it was created under -/
theorem creator_ne {w : World} (hops : OpsOK w.dirOps) {j : Nat} {f : FName} {id : Nat} (hf : f ≠ .current)
    (h : lookup (dirAt w j) f = some id) : DirOp.create f id ∈ w.dirOps :=
  List.mem_of_mem_take (replay_lookup_created _ (hops.take j) f id hf h)

theorem creator_cur {w : World} (hops : OpsOK w.dirOps) {j : Nat} {id : Nat}
    (h : lookup (dirAt w j) .current = some id) : ∃ k, DirOp.create (.tmp k) id ∈ w.dirOps := by
  obtain ⟨k, hk⟩ := replay_lookup_current _ (hops.take j) id h
  exact ⟨k, List.mem_of_mem_take hk⟩

theorem logOfBatch_snoc (t : List Ev) (e : Ev) (b : Nat) :
    logOfBatch (t ++ [e]) b = (logOfBatch t b).or (logOfBatch [e] b) := by
  simp [logOfBatch, List.findSome?_append]

theorem logOfBatch_append_some {t s : List Ev} {b n : Nat} (h : logOfBatch t b = some n) :
    logOfBatch (t ++ s) b = some n := by
  simp only [logOfBatch] at h ⊢
  rw [List.findSome?_append, h]; rfl

theorem ackedSync_snoc (t : List Ev) (e : Ev) : ackedSync (t ++ [e]) = ackedSync t ++ ackedSync [e] := by
  simp [ackedSync, List.filterMap_append]
theorem ackedAll_snoc (t : List Ev) (e : Ev) : ackedAll (t ++ [e]) = ackedAll t ++ ackedAll [e] := by
  simp [ackedAll, List.filterMap_append]
theorem unlinkedLogs_snoc (t : List Ev) (e : Ev) : unlinkedLogs (t ++ [e]) = unlinkedLogs t ++ unlinkedLogs [e] := by
  simp [unlinkedLogs, List.filterMap_append]


/-! ### what the preconditions give, per event -/

theorem pre_create {w : World} {lo : List (Nat × Nat)} {f : FName} (h : preOk w lo (.create f) = true) :
    f ≠ .current ∧ created w f = false := by
  simp only [preOk, Bool.and_eq_true, bne_iff_ne, ne_eq, Bool.not_eq_true'] at h
  exact ⟨h.1.1, h.1.2⟩

theorem pre_create_log {w : World} {lo : List (Nat × Nat)} {n : Nat} (h : preOk w lo (.create (.log n)) = true) :
    ∀ n' ∈ createdLogs w.dirOps, n' < n := by
  simp only [preOk, Bool.and_eq_true, List.all_eq_true, decide_eq_true_eq] at h
  exact h.2

theorem pre_append_ne_current {w : World} {lo : List (Nat × Nat)} {f : FName} {r : Rec}
    (h : preOk w lo (.append f r) = true) : f ≠ .current := by
  intro hf; subst hf; simp [preOk] at h

theorem pre_append_tmp {w : World} {lo : List (Nat × Nat)} {k : Nat} {r : Rec}
    (h : preOk w lo (.append (.tmp k) r) = true) {b : Body} (hb : bodyOf w (.tmp k) = some b) : b.synced = 0 := by
  simp only [preOk, hb] at h; simpa using h

theorem pre_append_table {w : World} {lo : List (Nat × Nat)} {k : Nat} {r : Rec}
    (h : preOk w lo (.append (.table k) r) = true) {b : Body} (hb : bodyOf w (.table k) = some b) : b.synced = 0 := by
  simp only [preOk, hb] at h; simpa using h

theorem pre_append_edit {w : World} {lo : List (Nat × Nat)} {k : Nat} {ed : AEdit}
    (h : preOk w lo (.append (.manifest k) (.edit ed)) = true) :
    (∀ p ∈ ed.newTables, tableOk w p = true) ∧
    ∀ mb, bodyOf w (.manifest k) = some mb → logNumMono (versionOf mb.recs).logNum ed.logNum = true := by
  simp only [preOk, Bool.and_eq_true, List.all_eq_true] at h
  refine ⟨h.1, ?_⟩
  intro mb hmb
  have h2 := h.2
  simp only [hmb] at h2; exact h2

theorem pre_append_batch {w : World} {lo : List (Nat × Nat)} {n b : Nat}
    (h : preOk w lo (.append (.log n) (.batch b)) = true) :
    logOfLookup lo b = none ∧ (bodyOf w (.log n)).isSome ∧ ∀ n' ∈ createdLogs w.dirOps, n' ≤ n := by
  simp only [preOk, Bool.and_eq_true, List.all_eq_true, decide_eq_true_eq, Option.isNone_iff_eq_none] at h
  exact ⟨h.1.1, h.1.2, h.2⟩

theorem pre_rename {w : World} {lo : List (Nat × Nat)} {a b : FName} (h : preOk w lo (.rename a b) = true) :
    b = .current ∧ (∃ k, a = .tmp k) ∧ (bodyOf w a).isSome := by
  simp only [preOk, Bool.and_eq_true, beq_iff_eq] at h
  refine ⟨h.1.1, ?_, h.2⟩
  cases a <;> simp at h
  exact ⟨_, rfl⟩

theorem pre_unlink_ne_current {w : World} {lo : List (Nat × Nat)} {f : FName}
    (h : preOk w lo (.unlink f) = true) : f ≠ .current := by
  intro hf; subst hf; simp [preOk] at h

theorem pre_opOK {w : World} {lo : List (Nat × Nat)} {e : Ev} {op : DirOp} (h : preOk w lo e = true)
    (ho : evOp w e = some op) : OpOK op := by
  cases e <;> simp [evOp] at ho <;> subst ho
  · exact (pre_create h).1
  · obtain ⟨h1, h2, _⟩ := pre_rename h; exact ⟨h1, h2⟩
  · exact pre_unlink_ne_current h


/-! ### where the candidates of the next state come from -/

theorem step_bodies_same {w : World} {e : Ev} (h1 : ∀ f r, e ≠ .append f r) (h2 : ∀ f, e ≠ .sync f) {x : Nat}
    (hx : x < w.bodies.length) : (w.step e).bodies[x]? = w.bodies[x]? := by
  cases e with
  | create f => exact step_bodies_op (op := .create f w.bodies.length) rfl x hx
  | append f r => exact absurd rfl (h1 f r)
  | sync f => exact absurd rfl (h2 f)
  | syncDir => rfl
  | rename a b => rfl
  | unlink f => rfl
  | ack b s => rfl

/-- provenance of a `Points` fact of the next state -/
inductive Evo (w : World) (e : Ev) (j' k : Nat) (mb' : Body) : Prop
  | old (j : Nat) (mb : Body) (hj : InRange w j)
      (hlast : j' = (w.step e).dirOps.length → j = w.dirOps.length)
      (hp : Points w j k mb)
      (hdir : dirAt (w.step e) j' = dirAt w j ∨
              (j = w.dirOps.length ∧ j' = w.dirOps.length + 1 ∧
                ∃ op, evOp w e = some op ∧ dirAt (w.step e) j' = applyDirOp (dirAt w j) op))
      (hrecs : mb'.recs = mb.recs) (hs : mb.synced ≤ mb'.synced) : Evo w e j' k mb'
  | ext (mb : Body) (r : Rec) (he : e = .append (.manifest k) r) (hj : InRange w j') (hp : Points w j' k mb)
      (hb : bodyOf w (.manifest k) = some mb) (hmb : mb' = { mb with recs := mb.recs ++ [r] }) : Evo w e j' k mb'
  | new (a : FName) (he : e = .rename a .current) (hj : j' = w.dirOps.length + 1)
      (hc : bodyOf (w.step e) .current = some ⟨[.ptr k], 1⟩)
      (hm : bodyOf (w.step e) (.manifest k) = some mb') : Evo w e j' k mb'

theorem points_back {w : World} {lo : List (Nat × Nat)} {e : Ev} (hw : WInv w) (hops : OpsOK w.dirOps)
    (ha1 : ∀ j, InRange w j → ∀ cid, lookup (dirAt w j) .current = some cid → ∃ k mb, Points w j k mb)
    (pre : preOk w lo e = true) {j' k : Nat} {mb' : Body}
    (hj' : InRange (w.step e) j') (hP : Points (w.step e) j' k mb') : Evo w e j' k mb' := by
  have hw' : WInv (w.step e) := hw.step e
  obtain ⟨cid, mid, hc, hcb, hm, hmb⟩ := hP
  rcases inRange_step hw e hj' with hjr | ⟨hjn, op, hop⟩
  · -- an old directory cut
    have hd : dirAt (w.step e) j' = dirAt w j' := dirAt_step_le w e hjr.2
    rw [hd] at hc hm
    obtain ⟨k0, mb0, cid0, mid0, hc0, hcb0, hm0, hmb0⟩ := ha1 j' hjr cid hc
    have hcc : cid0 = cid := Option.some.inj (hc0.symm.trans hc)
    subst hcc
    have hlast : j' = (w.step e).dirOps.length → j' = w.dirOps.length := by
      intro h; rw [step_dirOps] at h
      have := hjr.2
      cases ho : evOp w e <;> simp [ho] at h <;> omega
    have hcl := lookup_lt hw hc
    have hml0 := lookup_lt hw hm0
    -- the generic "bodies unchanged" finish
    have same : (∀ x, x < w.bodies.length → (w.step e).bodies[x]? = w.bodies[x]?) → Evo w e j' k mb' := by
      intro hs
      rw [hs _ hcl, hcb0] at hcb
      have hk : k0 = k := by simpa using hcb
      subst hk
      have hmm : mid0 = mid := Option.some.inj (hm0.symm.trans hm)
      subst hmm
      rw [hs _ hml0, hmb0] at hmb
      have : mb0 = mb' := Option.some.inj hmb
      subst this
      exact Evo.old j' mb0 hjr hlast ⟨cid0, mid0, hc0, hcb0, hm0, hmb0⟩ (Or.inl hd) rfl (Nat.le_refl _)
    cases e with
    | create f => exact same fun x hx => step_bodies_same (by intros; simp) (by intros; simp) hx
    | syncDir => exact same fun x hx => step_bodies_same (by intros; simp) (by intros; simp) hx
    | rename a b => exact same fun x hx => step_bodies_same (by intros; simp) (by intros; simp) hx
    | unlink f => exact same fun x hx => step_bodies_same (by intros; simp) (by intros; simp) hx
    | ack b s => exact same fun x hx => step_bodies_same (by intros; simp) (by intros; simp) hx
    | sync f =>
      cases hl : lookup w.dir f with
      | none => exact same fun x _ => by rw [step_sync_none hl]
      | some id0 =>
        rw [step_sync_some hl] at hcb hmb
        simp only [modifyBody_get, hcb0, Option.map_some] at hcb
        have hk : k0 = k := by
          by_cases hci : cid0 = id0 <;> simp [hci] at hcb <;> exact hcb
        subst hk
        have hmm : mid0 = mid := Option.some.inj (hm0.symm.trans hm)
        subst hmm
        simp only [modifyBody_get, hmb0, Option.map_some] at hmb
        have hle := hw.body_le _ _ hmb0
        have : mb'.recs = mb0.recs ∧ mb0.synced ≤ mb'.synced := by
          by_cases hmi : mid0 = id0
          · simp [hmi] at hmb; subst hmb; exact ⟨rfl, hle⟩
          · simp [hmi] at hmb; subst hmb; exact ⟨rfl, Nat.le_refl _⟩
        exact Evo.old j' mb0 hjr hlast ⟨cid0, mid0, hc0, hcb0, hm0, hmb0⟩ (Or.inl hd) this.1 this.2
    | append f r =>
      cases hl : lookup w.dir f with
      | none => exact same fun x _ => by rw [step_append_none hl]
      | some id0 =>
        have hfc : f ≠ .current := pre_append_ne_current pre
        have hl' : lookup (dirAt w w.dirOps.length) f = some id0 := by rw [dirAt_len hw]; exact hl
        have hcf := creator_ne hops hfc hl'
        have hne : cid0 ≠ id0 := by
          intro hci
          obtain ⟨k1, hk1⟩ := creator_cur hops hc0
          rw [hci] at hk1
          have hf : f = .tmp k1 := hw.create_inj _ _ _ hcf hk1
          subst hf
          have hb : bodyOf w (.tmp k1) = some ⟨[.ptr k0], 1⟩ := by
            simp only [bodyOf, hl, Option.bind_some]; rw [← hci]; exact hcb0
          have := pre_append_tmp pre hb
          simp at this
        rw [step_append_some hl] at hcb hmb
        rw [modifyBody_get_ne _ _ _ _ hne, hcb0] at hcb
        have hk : k0 = k := by simpa using hcb
        subst hk
        have hmm : mid0 = mid := Option.some.inj (hm0.symm.trans hm)
        subst hmm
        by_cases hmi : mid0 = id0
        · have hcm := creator_ne hops (by simp) hm0
          rw [hmi] at hcm
          have hf : f = .manifest k0 := hw.create_inj _ _ _ hcf hcm
          subst hf
          rw [hmi, modifyBody_get_eq, ← hmi, hmb0] at hmb
          simp only [Option.map_some] at hmb
          have hb : bodyOf w (.manifest k0) = some mb0 := by
            simp only [bodyOf, hl, Option.bind_some]; rw [← hmi]; exact hmb0
          exact Evo.ext mb0 r rfl hjr ⟨cid0, mid0, hc0, hcb0, hm0, hmb0⟩ hb (Option.some.inj hmb).symm
        · rw [modifyBody_get_ne _ _ _ _ hmi, hmb0] at hmb
          have : mb0 = mb' := Option.some.inj hmb
          subst this
          exact Evo.old j' mb0 hjr hlast ⟨cid0, mid0, hc0, hcb0, hm0, hmb0⟩ (Or.inl hd) rfl (Nat.le_refl _)
  · -- the new directory cut
    have hd := dirAt_step_new hop
    have hlen : (w.step e).dirOps.length = w.dirOps.length + 1 := by
      rw [step_dirOps, hop]; simp
    have hc' := hc
    have hm' := hm
    rw [hjn, hd] at hc hm
    have hlr := inRange_len hw
    have fin : ∀ (cidx : Nat), lookup (dirAt w w.dirOps.length) .current = some cidx → cidx = cid →
        (∀ k0 mid0, lookup (dirAt w w.dirOps.length) (.manifest k0) = some mid0 → k0 = k → mid0 = mid) →
        Evo w e j' k mb' := by
      intro cidx hcx hcc hmid
      subst hcc
      obtain ⟨k0, mb0, cid0, mid0, hc0, hcb0, hm0, hmb0⟩ := ha1 _ hlr cidx hcx
      have hcc : cid0 = cidx := Option.some.inj (hc0.symm.trans hcx)
      subst hcc
      rw [step_bodies_op hop _ (lookup_lt hw hc0), hcb0] at hcb
      have hk : k0 = k := by simpa using hcb
      subst hk
      have hmm := hmid k0 mid0 hm0 rfl
      subst hmm
      rw [step_bodies_op hop _ (lookup_lt hw hm0), hmb0] at hmb
      have : mb0 = mb' := Option.some.inj hmb
      subst this
      exact Evo.old _ mb0 hlr (fun _ => rfl) ⟨cid0, mid0, hc0, hcb0, hm0, hmb0⟩
        (Or.inr ⟨rfl, hjn, op, hop, by rw [hjn]; exact hd⟩) rfl (Nat.le_refl _)
    cases e with
    | append f r => simp [evOp] at hop
    | sync f => simp [evOp] at hop
    | syncDir => simp [evOp] at hop
    | ack b s => simp [evOp] at hop
    | create f =>
      simp only [evOp, Option.some.injEq] at hop; subst hop
      obtain ⟨hfc, hfn⟩ := pre_create pre
      rw [lookup_create] at hc hm
      have : ¬ FName.current = f := fun h => hfc h.symm
      simp only [this, if_false] at hc
      apply fin cid hc rfl
      intro k0 mid0 hm0 hk
      subst hk
      have hcm := created_of_mem (creator_ne hops (by simp) hm0)
      have hne : ¬ FName.manifest k0 = f := by
        intro h; rw [h] at hcm; rw [hcm] at hfn; cases hfn
      simp only [hne, if_false] at hm
      exact Option.some.inj (hm0.symm.trans hm)
    | unlink f =>
      simp only [evOp, Option.some.injEq] at hop; subst hop
      rw [lookup_unlink] at hc hm
      by_cases hcf : FName.current = f
      · simp [hcf] at hc
      · simp only [hcf, if_false] at hc
        apply fin cid hc rfl
        intro k0 mid0 hm0 hk
        subst hk
        by_cases hmf : FName.manifest k0 = f
        · simp [hmf] at hm
        · simp only [hmf, if_false] at hm
          exact Option.some.inj (hm0.symm.trans hm)
    | rename a b =>
      obtain ⟨hb, _, _⟩ := pre_rename pre
      subst hb
      refine Evo.new a rfl hjn ?_ ?_
      · rw [bodyOf_eq hw', hlen, ← hjn, hc']; exact hcb
      · rw [bodyOf_eq hw', hlen, ← hjn, hm']; exact hmb


theorem editsOf_snoc_edit (recs : List Rec) (ed : AEdit) : editsOf (recs ++ [.edit ed]) = editsOf recs ++ [ed] := by
  simp [editsOf, List.filterMap_append]

theorem versionOf_snoc_edit (recs : List Rec) (ed : AEdit) :
    versionOf (recs ++ [.edit ed]) = applyEdit (versionOf recs) ed := by
  simp [versionOf, editsOf_snoc_edit, List.foldl_append]

theorem versionOf_snoc_other (recs : List Rec) (r : Rec) (h : ∀ ed, r ≠ .edit ed) :
    versionOf (recs ++ [r]) = versionOf recs := by
  have : editsOf (recs ++ [r]) = editsOf recs := by
    cases r <;> simp [editsOf, List.filterMap_append] at h ⊢
  simp [versionOf, this]

theorem take_snoc_cases {α : Type} (l : List α) (a : α) (n : Nat) :
    (l ++ [a]).take n = l.take n ∨ (l.length < n ∧ (l ++ [a]).take n = l ++ [a]) := by
  by_cases h : n ≤ l.length
  · left; exact List.take_append_of_le_length h
  · right; refine ⟨by omega, ?_⟩
    apply List.take_of_length_le; simp; omega

/-- provenance of a candidate version of the next state -/
inductive CEvo (w : World) (e : Ev) (j' : Nat) (v' : AVersion) : Prop
  | old (j : Nat) (hj : InRange w j)
      (hlast : j' = (w.step e).dirOps.length → j = w.dirOps.length)
      (hc : Cand w j v')
      (hdir : dirAt (w.step e) j' = dirAt w j ∨
              (j = w.dirOps.length ∧ j' = w.dirOps.length + 1 ∧
                ∃ op, evOp w e = some op ∧ dirAt (w.step e) j' = applyDirOp (dirAt w j) op)) : CEvo w e j' v'
  | ext (k : Nat) (mb : Body) (ed : AEdit) (he : e = .append (.manifest k) (.edit ed)) (hj : InRange w j')
      (hb : bodyOf w (.manifest k) = some mb) (hp : Points w j' k mb) (hc : Cand w j' (versionOf mb.recs))
      (hv : v' = applyEdit (versionOf mb.recs) ed) : CEvo w e j' v'
  | new (a : FName) (k : Nat) (mb' : Body) (n : Nat) (he : e = .rename a .current) (hj : j' = w.dirOps.length + 1)
      (hc : bodyOf (w.step e) .current = some ⟨[.ptr k], 1⟩)
      (hm : bodyOf (w.step e) (.manifest k) = some mb') (hn : mb'.synced ≤ n)
      (hv : v' = versionOf (mb'.recs.take n)) : CEvo w e j' v'

theorem cand_back {w : World} {lo : List (Nat × Nat)} {e : Ev} (hw : WInv w) (hops : OpsOK w.dirOps)
    (ha1 : ∀ j, InRange w j → ∀ cid, lookup (dirAt w j) .current = some cid → ∃ k mb, Points w j k mb)
    (pre : preOk w lo e = true) {j' : Nat} {v' : AVersion}
    (hj' : InRange (w.step e) j') (hC : Cand (w.step e) j' v') : CEvo w e j' v' := by
  obtain ⟨k, mb', n, hP, hn, hv⟩ := hC
  cases points_back hw hops ha1 pre hj' hP with
  | old j mb hj hlast hp hdir hrecs hs =>
    exact CEvo.old j hj hlast ⟨k, mb, n, hp, by omega, by rw [hv, hrecs]⟩ hdir
  | new a he hj hc hm => exact CEvo.new a k mb' n he hj hc hm hn hv
  | ext mb r he hj hp hb hmb =>
    subst hmb
    have hd : dirAt (w.step e) j' = dirAt w j' := dirAt_step_le w e hj.2
    have hlast : j' = (w.step e).dirOps.length → j' = w.dirOps.length := by
      intro h; rw [step_dirOps, he] at h; simpa [evOp] using h
    obtain ⟨_, mid, _, _, hm, hmb⟩ := id hp
    have hle := hw.body_le _ _ hmb
    simp only at hv hn
    rcases take_snoc_cases mb.recs r n with h1 | ⟨h1, h2⟩
    · rw [h1] at hv
      exact CEvo.old j' hj hlast ⟨k, mb, n, hp, hn, hv⟩ (Or.inl hd)
    · rw [h2] at hv
      have hfull : Cand w j' (versionOf mb.recs) :=
        ⟨k, mb, mb.recs.length, hp, hle, by rw [List.take_length]⟩
      by_cases hr : ∃ ed, r = .edit ed
      · obtain ⟨ed, hr⟩ := hr
        subst hr
        rw [versionOf_snoc_edit] at hv
        exact CEvo.ext k mb ed he hj hb hp hfull hv
      · have : ∀ ed, r ≠ .edit ed := fun ed h => hr ⟨ed, h⟩
        rw [versionOf_snoc_other _ _ this] at hv
        rw [hv]
        exact CEvo.old j' hj hlast hfull (Or.inl hd)


/-! ### tables named by candidate versions stay usable -/

theorem table_body_step {w : World} {lo : List (Nat × Nat)} {e : Ev} (hw : WInv w) (hops : OpsOK w.dirOps)
    (pre : preOk w lo e = true) {j t id : Nat} {b : Body}
    (hl : lookup (dirAt w j) (.table t) = some id) (hb : w.bodies[id]? = some b)
    (hfull : b.synced = b.recs.length) (hpos : 1 ≤ b.synced) : (w.step e).bodies[id]? = some b := by
  have hx := lookup_lt hw hl
  have same : (∀ x, x < w.bodies.length → (w.step e).bodies[x]? = w.bodies[x]?) → (w.step e).bodies[id]? = some b :=
    fun hs => by rw [hs _ hx]; exact hb
  cases e with
  | create f => exact same fun x hx => step_bodies_same (by intros; simp) (by intros; simp) hx
  | syncDir => exact same fun x hx => step_bodies_same (by intros; simp) (by intros; simp) hx
  | rename a b => exact same fun x hx => step_bodies_same (by intros; simp) (by intros; simp) hx
  | unlink f => exact same fun x hx => step_bodies_same (by intros; simp) (by intros; simp) hx
  | ack b s => exact same fun x hx => step_bodies_same (by intros; simp) (by intros; simp) hx
  | sync f =>
    cases hl0 : lookup w.dir f with
    | none => rw [step_sync_none hl0]; exact hb
    | some id0 =>
      rw [step_sync_some hl0]
      simp only [modifyBody_get, hb, Option.map_some]
      by_cases hi : id = id0
      · simp only [hi, if_true]; rw [← hfull]
      · simp only [hi, if_false]
  | append f r =>
    cases hl0 : lookup w.dir f with
    | none => rw [step_append_none hl0]; exact hb
    | some id0 =>
      rw [step_append_some hl0]
      have hne : id ≠ id0 := by
        intro hi
        have hfc : f ≠ .current := pre_append_ne_current pre
        have hl' : lookup (dirAt w w.dirOps.length) f = some id0 := by rw [dirAt_len hw]; exact hl0
        have hcf := creator_ne hops hfc hl'
        have hct := creator_ne hops (by simp) hl
        rw [hi] at hct
        have hf : f = .table t := hw.create_inj _ _ _ hcf hct
        subst hf
        have hbo : bodyOf w (.table t) = some b := by
          simp only [bodyOf, hl0, Option.bind_some]; rw [← hi]; exact hb
        have := pre_append_table pre hbo
        omega
      rw [modifyBody_get_ne _ _ _ _ hne]; exact hb

theorem tableGood_step {w : World} {lo : List (Nat × Nat)} {e : Ev} (hw : WInv w) (hops : OpsOK w.dirOps)
    (pre : preOk w lo e = true) {j j' : Nat} {p : Nat × Nat}
    (hg : TableGood w (dirAt w j) p)
    (hdir : dirAt (w.step e) j' = dirAt w j ∨
              (j = w.dirOps.length ∧ j' = w.dirOps.length + 1 ∧
                ∃ op, evOp w e = some op ∧ dirAt (w.step e) j' = applyDirOp (dirAt w j) op))
    (hnot : ∀ t, e = .unlink (.table t) → p.1 ≠ t) : TableGood (w.step e) (dirAt (w.step e) j') p := by
  obtain ⟨h1, id, b, hl, hb, hlen, hsyn⟩ := hg
  have hb' := table_body_step hw hops pre hl hb (by omega) (by omega)
  refine ⟨h1, id, b, ?_, hb', hlen, hsyn⟩
  rcases hdir with hd | ⟨hj, _, op, hop, hd⟩
  · rw [hd]; exact hl
  · rw [hd]
    cases e with
    | append f r => simp [evOp] at hop
    | sync f => simp [evOp] at hop
    | syncDir => simp [evOp] at hop
    | ack b s => simp [evOp] at hop
    | create f =>
      simp only [evOp, Option.some.injEq] at hop; subst hop
      obtain ⟨_, hfn⟩ := pre_create pre
      have hcm := created_of_mem (creator_ne hops (by simp) hl)
      have hne : ¬ FName.table p.1 = f := by
        intro h; rw [h] at hcm; rw [hcm] at hfn; cases hfn
      rw [lookup_create]; simp only [hne, if_false]; exact hl
    | unlink f =>
      simp only [evOp, Option.some.injEq] at hop; subst hop
      have hne : ¬ FName.table p.1 = f := by
        intro h; exact hnot p.1 (by rw [h]) rfl
      rw [lookup_unlink]; simp only [hne, if_false]; exact hl
    | rename a c =>
      simp only [evOp, Option.some.injEq] at hop; subst hop
      obtain ⟨hc, ⟨k, ha⟩, _⟩ := pre_rename pre
      subst hc; subst ha
      cases hla : lookup (dirAt w j) (.tmp k) with
      | none => rw [lookup_rename_none _ _ _ _ hla]; exact hl
      | some x => rw [lookup_rename_some _ _ _ _ _ hla]; simp; exact hl

theorem post_rename_ex {w' : World} {a : FName} (h : postOk w' (.rename a .current) = true) :
    ∃ k mb, bodyOf w' .current = some ⟨[.ptr k], 1⟩ ∧ bodyOf w' (.manifest k) = some mb := by
  simp only [postOk] at h
  cases hc : bodyOf w' .current with
  | none => simp [hc] at h
  | some cb =>
    simp only [hc] at h
    obtain ⟨recs, synced⟩ := cb
    simp only at h
    split at h
    · rename_i _ k
      simp only [Bool.and_eq_true, beq_iff_eq] at h
      obtain ⟨hs, h⟩ := h
      subst hs
      cases hm : bodyOf w' (.manifest k) with
      | none => simp [hm] at h
      | some mb => exact ⟨k, mb, rfl, hm⟩
    · cases h

theorem post_rename {w' : World} {a : FName} (h : postOk w' (.rename a .current) = true) {k : Nat} {mb : Body}
    (hc : bodyOf w' .current = some ⟨[.ptr k], 1⟩) (hm : bodyOf w' (.manifest k) = some mb) :
    mb.synced = mb.recs.length ∧ ∃ ln, (versionOf mb.recs).logNum = some ln ∧
      (∀ p ∈ (versionOf mb.recs).tables, tableOk w' p = true) ∧ ∀ c ∈ candidates w', candLogLe ln c = true := by
  simp only [postOk, hc, hm, Bool.and_eq_true, beq_iff_eq] at h
  obtain ⟨_, hs, h⟩ := h
  refine ⟨hs, ?_⟩
  cases hl : (versionOf mb.recs).logNum with
  | none => simp [hl] at h
  | some ln =>
    simp only [hl, Bool.and_eq_true, List.all_eq_true] at h
    exact ⟨ln, rfl, h.1, h.2⟩


theorem hlast_of_le {w : World} {e : Ev} {j' : Nat} (hj : j' ≤ w.dirOps.length) :
    j' = (w.step e).dirOps.length → j' = w.dirOps.length := by
  intro h; rw [step_dirOps] at h
  cases ho : evOp w e <;> simp [ho] at h <;> omega

/-- the body under CURRENT (a complete fsynced pointer) is never modified -/
theorem cur_body_step {w : World} {lo : List (Nat × Nat)} {e : Ev} (hw : WInv w) (hops : OpsOK w.dirOps)
    (pre : preOk w lo e = true) {j k cid : Nat}
    (hl : lookup (dirAt w j) .current = some cid) (hb : w.bodies[cid]? = some ⟨[.ptr k], 1⟩) :
    (w.step e).bodies[cid]? = some ⟨[.ptr k], 1⟩ := by
  have hx := lookup_lt hw hl
  have same : (∀ x, x < w.bodies.length → (w.step e).bodies[x]? = w.bodies[x]?) →
      (w.step e).bodies[cid]? = some ⟨[.ptr k], 1⟩ := fun hs => by rw [hs _ hx]; exact hb
  cases e with
  | create f => exact same fun x hx => step_bodies_same (by intros; simp) (by intros; simp) hx
  | syncDir => exact same fun x hx => step_bodies_same (by intros; simp) (by intros; simp) hx
  | rename a b => exact same fun x hx => step_bodies_same (by intros; simp) (by intros; simp) hx
  | unlink f => exact same fun x hx => step_bodies_same (by intros; simp) (by intros; simp) hx
  | ack b s => exact same fun x hx => step_bodies_same (by intros; simp) (by intros; simp) hx
  | sync f =>
    cases hl0 : lookup w.dir f with
    | none => rw [step_sync_none hl0]; exact hb
    | some id0 =>
      rw [step_sync_some hl0]
      simp only [modifyBody_get, hb, Option.map_some]
      by_cases hi : cid = id0 <;> simp [hi]
  | append f r =>
    cases hl0 : lookup w.dir f with
    | none => rw [step_append_none hl0]; exact hb
    | some id0 =>
      rw [step_append_some hl0]
      have hne : cid ≠ id0 := by
        intro hi
        have hfc : f ≠ .current := pre_append_ne_current pre
        have hl' : lookup (dirAt w w.dirOps.length) f = some id0 := by rw [dirAt_len hw]; exact hl0
        have hcf := creator_ne hops hfc hl'
        obtain ⟨k1, hk1⟩ := creator_cur hops hl
        rw [hi] at hk1
        have hf : f = .tmp k1 := hw.create_inj _ _ _ hcf hk1
        subst hf
        have hbo : bodyOf w (.tmp k1) = some ⟨[.ptr k], 1⟩ := by
          simp only [bodyOf, hl0, Option.bind_some]; rw [← hi]; exact hb
        have := pre_append_tmp pre hbo
        simp at this
      rw [modifyBody_get_ne _ _ _ _ hne]; exact hb

theorem unlink_manifest_ne {w : World} {lo : List (Nat × Nat)} {k0 : Nat} (hw : WInv w)
    (pre : preOk w lo (.unlink (.manifest k0)) = true) {k : Nat} {mb : Body} (hp : Points w w.dirOps.length k mb) :
    k ≠ k0 := by
  intro hk; subst hk
  have hle : mb.synced ≤ mb.recs.length := by
    obtain ⟨_, mid, _, _, _, hmb⟩ := hp; exact hw.body_le _ _ hmb
  have hc : Cand w w.dirOps.length (versionOf (mb.recs.take mb.synced)) := ⟨k, mb, mb.synced, hp, Nat.le_refl _, rfl⟩
  have hm := cand_mem_last hw hc
  simp only [preOk, List.all_eq_true] at pre
  have := pre _ hm
  obtain ⟨cid, _, hcl, hcb, _, _⟩ := hp
  simp [candNotManifest, hcl, hcb] at this

theorem points_forward {w : World} {lo : List (Nat × Nat)} {e : Ev} (hw : WInv w) (hops : OpsOK w.dirOps)
    (ha1 : ∀ j, InRange w j → ∀ cid, lookup (dirAt w j) .current = some cid → ∃ k mb, Points w j k mb)
    (pre : preOk w lo e = true) (post : postOk (w.step e) e = true) {j' cid : Nat}
    (hj' : InRange (w.step e) j') (hc : lookup (dirAt (w.step e) j') .current = some cid) :
    ∃ k mb, Points (w.step e) j' k mb := by
  have hw' : WInv (w.step e) := hw.step e
  rcases inRange_step hw e hj' with hjr | ⟨hjn, op, hop⟩
  · have hd : dirAt (w.step e) j' = dirAt w j' := dirAt_step_le w e hjr.2
    rw [hd] at hc
    obtain ⟨k0, mb0, cid0, mid0, hc0, hcb0, hm0, hmb0⟩ := ha1 j' hjr cid hc
    obtain ⟨mb', hmb', _⟩ := step_bodies_le hw e hmb0
    exact ⟨k0, mb', cid0, mid0, by rw [hd]; exact hc0, cur_body_step hw hops pre hc0 hcb0, by rw [hd]; exact hm0, hmb'⟩
  · have hd := dirAt_step_new hop
    have hlen : (w.step e).dirOps.length = w.dirOps.length + 1 := by
      rw [step_dirOps, hop]; simp
    have hlr := inRange_len hw
    cases e with
    | append f r => simp [evOp] at hop
    | sync f => simp [evOp] at hop
    | syncDir => simp [evOp] at hop
    | ack b s => simp [evOp] at hop
    | create f =>
      simp only [evOp, Option.some.injEq] at hop
      obtain ⟨hfc, hfn⟩ := pre_create pre
      rw [hjn, hd, ← hop, lookup_create] at hc
      have : ¬ FName.current = f := fun h => hfc h.symm
      simp only [this, if_false] at hc
      obtain ⟨k0, mb0, cid0, mid0, hc0, hcb0, hm0, hmb0⟩ := ha1 _ hlr cid hc
      have hcm := created_of_mem (creator_ne hops (by simp) hm0)
      have hne : ¬ FName.manifest k0 = f := by
        intro h; rw [h] at hcm; rw [hcm] at hfn; cases hfn
      refine ⟨k0, mb0, cid0, mid0, ?_, ?_, ?_, ?_⟩
      · rw [hjn, hd, ← hop, lookup_create]; simp only [this, if_false]; exact hc0
      · rw [step_bodies_same (by intros; simp) (by intros; simp) (lookup_lt hw hc0)]; exact hcb0
      · rw [hjn, hd, ← hop, lookup_create]; simp only [hne, if_false]; exact hm0
      · rw [step_bodies_same (by intros; simp) (by intros; simp) (lookup_lt hw hm0)]; exact hmb0
    | unlink f =>
      simp only [evOp, Option.some.injEq] at hop
      rw [hjn, hd, ← hop, lookup_unlink] at hc
      by_cases hcf : FName.current = f
      · simp [hcf] at hc
      · simp only [hcf, if_false] at hc
        obtain ⟨k0, mb0, hp⟩ := ha1 _ hlr cid hc
        have hne : ¬ FName.manifest k0 = f := by
          intro h; subst h
          exact unlink_manifest_ne hw pre hp rfl
        obtain ⟨cid0, mid0, hc0, hcb0, hm0, hmb0⟩ := hp
        refine ⟨k0, mb0, cid0, mid0, ?_, hcb0, ?_, hmb0⟩
        · rw [hjn, hd, ← hop, lookup_unlink]; simp only [hcf, if_false]; exact hc0
        · rw [hjn, hd, ← hop, lookup_unlink]; simp only [hne, if_false]; exact hm0
    | rename a b =>
      obtain ⟨hb, _, _⟩ := pre_rename pre
      subst hb
      obtain ⟨k, mb, h1, h2⟩ := post_rename_ex post
      obtain ⟨cid1, hc1, hcb1⟩ := bodyOf_some hw' h1
      obtain ⟨mid1, hm1, hmb1⟩ := bodyOf_some hw' h2
      rw [hlen, ← hjn] at hc1 hm1
      exact ⟨k, mb, cid1, mid1, hc1, hcb1, hm1, hmb1⟩

theorem cur_persist {w : World} {lo : List (Nat × Nat)} {e : Ev} (hw : WInv w)
    (pre : preOk w lo e = true) {j' : Nat} (hj' : InRange (w.step e) j') :
    ∃ j, InRange w j ∧ (j' = (w.step e).dirOps.length → j = w.dirOps.length) ∧
      ((lookup (dirAt w j) .current).isSome → (lookup (dirAt (w.step e) j') .current).isSome) := by
  rcases inRange_step hw e hj' with hjr | ⟨hjn, op, hop⟩
  · exact ⟨j', hjr, hlast_of_le hjr.2, by rw [dirAt_step_le w e hjr.2]; exact id⟩
  · refine ⟨_, inRange_len hw, fun _ => rfl, ?_⟩
    rw [hjn, dirAt_step_new hop]
    have hok := pre_opOK pre hop
    intro h
    cases op with
    | create g id' =>
      have hg : ¬ FName.current = g := fun e => hok e.symm
      rw [lookup_create]; simp only [hg, if_false]; exact h
    | unlink g =>
      have hg : ¬ FName.current = g := fun e => hok e.symm
      rw [lookup_unlink]; simp only [hg, if_false]; exact h
    | rename a b =>
      obtain ⟨hb, k, ha⟩ := hok
      cases hl : lookup (dirAt w w.dirOps.length) a with
      | none => rw [lookup_rename_none _ _ _ _ hl]; exact h
      | some x => rw [lookup_rename_some _ _ _ _ _ hl]; simp [hb]


theorem goodV_step {w : World} {lo : List (Nat × Nat)} {e : Ev} (hw : WInv w) (hops : OpsOK w.dirOps)
    (hn : (w.dirOps.filterMap createName).Nodup)
    (ha1 : ∀ j, InRange w j → ∀ cid, lookup (dirAt w j) .current = some cid → ∃ k mb, Points w j k mb)
    (ha2 : ∀ j, InRange w j → ∀ v, Cand w j v → GoodV w (dirAt w j) v)
    (pre : preOk w lo e = true) (post : postOk (w.step e) e = true) {j' : Nat} {v' : AVersion}
    (hj' : InRange (w.step e) j') (hC : Cand (w.step e) j' v') : GoodV (w.step e) (dirAt (w.step e) j') v' := by
  have hw' : WInv (w.step e) := hw.step e
  cases cand_back hw hops ha1 pre hj' hC with
  | old j hj hlast hc hdir =>
    obtain ⟨hln, htab⟩ := ha2 j hj v' hc
    refine ⟨hln, fun p hp => tableGood_step hw hops pre (htab p hp) hdir ?_⟩
    intro t he hpt
    subst he
    simp only [preOk, List.all_eq_true] at pre
    have := pre _ (cand_mem hw hj hc)
    simp only [candNoTable, Bool.not_eq_true', List.any_eq_false, beq_iff_eq] at this
    exact this p hp hpt
  | ext k mb ed he hj hb _ hc hv =>
    subst he; subst hv
    have hd : dirAt ((w.step (.append (.manifest k) (.edit ed)))) j' = dirAt w j' := dirAt_step_le w _ hj.2
    obtain ⟨⟨ln, hln⟩, htab⟩ := ha2 j' hj _ hc
    obtain ⟨hnew, _⟩ := pre_append_edit pre
    constructor
    · simp only [applyEdit]
      cases ed.logNum with
      | none => exact ⟨ln, hln⟩
      | some n => exact ⟨n, rfl⟩
    · intro p hp
      simp only [applyEdit, List.mem_append, List.mem_filter] at hp
      have hnot : ∀ t, Ev.append (.manifest k) (.edit ed) = .unlink (.table t) → p.1 ≠ t := by
        intro t h; cases h
      rcases hp with hp | hp
      · exact tableGood_step hw hops pre (htab p hp.1) (Or.inl hd) hnot
      · obtain ⟨h1, id, b, hl, hb, hlen, hsyn⟩ := tableOk_good hw (hnew p hp)
        have hl' := lookup_persist hw hops hn hj (by simp) hl hb (by omega)
        exact tableGood_step hw hops pre ⟨h1, id, b, hl', hb, hlen, hsyn⟩ (Or.inl hd) hnot
  | new a k mb' n he hj hc hm hn' hv =>
    subst he
    obtain ⟨hs, ln, hl, htab, _⟩ := post_rename post hc hm
    have hlen : (w.step (.rename a .current)).dirOps.length = w.dirOps.length + 1 := by
      rw [step_dirOps]; simp [evOp]
    rw [List.take_of_length_le (by omega)] at hv
    subst hv
    rw [hj, ← hlen]
    exact ⟨⟨ln, hl⟩, fun p hp => tableOk_good hw' (htab p hp)⟩

/-- every candidate of the next state descends from a candidate of the current state whose log number is not larger
    and whose directory holds no log that the new one lacks (unless the new version has retired that log) -/
theorem cand_origin {w : World} {lo : List (Nat × Nat)} {e : Ev} (hw : WInv w) (hops : OpsOK w.dirOps)
    (ha1 : ∀ j, InRange w j → ∀ cid, lookup (dirAt w j) .current = some cid → ∃ k mb, Points w j k mb)
    (pre : preOk w lo e = true) (post : postOk (w.step e) e = true) {j' : Nat} {v' : AVersion}
    (hj' : InRange (w.step e) j') (hC : Cand (w.step e) j' v') :
    lookup (dirAt w w.dirOps.length) .current = none ∨
    ∃ j v, InRange w j ∧ (j' = (w.step e).dirOps.length → j = w.dirOps.length) ∧ Cand w j v ∧
      (∀ ln, v.logNum = some ln → ∃ ln', v'.logNum = some ln' ∧ ln ≤ ln') ∧
      (∀ n id, lookup (dirAt w j) (.log n) = some id →
        lookup (dirAt (w.step e) j') (.log n) = some id ∨ ∃ ln', v'.logNum = some ln' ∧ n < ln') := by
  have hw' : WInv (w.step e) := hw.step e
  cases cand_back hw hops ha1 pre hj' hC with
  | old j hj hlast hc hdir =>
    right
    refine ⟨j, v', hj, hlast, hc, fun ln h => ⟨ln, h, Nat.le_refl _⟩, ?_⟩
    intro n id hl
    rcases hdir with hd | ⟨hjl, _, op, hop, hd⟩
    · left; rw [hd]; exact hl
    · rw [hd]
      cases e with
      | append f r => simp [evOp] at hop
      | sync f => simp [evOp] at hop
      | syncDir => simp [evOp] at hop
      | ack b s => simp [evOp] at hop
      | create f =>
        simp only [evOp, Option.some.injEq] at hop; subst hop
        obtain ⟨_, hfn⟩ := pre_create pre
        have hcm := created_of_mem (creator_ne hops (by simp) hl)
        have hne : ¬ FName.log n = f := by
          intro h; rw [h] at hcm; rw [hcm] at hfn; cases hfn
        left; rw [lookup_create]; simp only [hne, if_false]; exact hl
      | unlink f =>
        simp only [evOp, Option.some.injEq] at hop; subst hop
        by_cases hne : FName.log n = f
        · right
          subst hne
          simp only [preOk, List.all_eq_true] at pre
          rw [hjl] at hc
          have := pre _ (cand_mem_last hw hc)
          simp only [candLogBelow] at this
          cases hv : v'.logNum with
          | none => simp [hv] at this
          | some ln => simp [hv] at this; exact ⟨ln, rfl, this⟩
        · left; rw [lookup_unlink]; simp only [hne, if_false]; exact hl
      | rename a c =>
        simp only [evOp, Option.some.injEq] at hop; subst hop
        obtain ⟨hc', ⟨k, ha⟩, _⟩ := pre_rename pre
        subst hc'; subst ha
        left
        cases hla : lookup (dirAt w j) (.tmp k) with
        | none => rw [lookup_rename_none _ _ _ _ hla]; exact hl
        | some x => rw [lookup_rename_some _ _ _ _ _ hla]; simp; exact hl
  | ext k mb ed he hj hb _ hc hv =>
    subst he; subst hv
    right
    have hd : dirAt ((w.step (.append (.manifest k) (.edit ed)))) j' = dirAt w j' := dirAt_step_le w _ hj.2
    refine ⟨j', _, hj, hlast_of_le hj.2, hc, ?_, fun n id hl => Or.inl (by rw [hd]; exact hl)⟩
    intro ln hln
    have hm := (pre_append_edit pre).2 mb hb
    simp only [applyEdit]
    cases hed : ed.logNum with
    | none => exact ⟨ln, hln, Nat.le_refl _⟩
    | some n =>
      simp only [logNumMono, hln, hed, decide_eq_true_eq] at hm
      exact ⟨n, rfl, hm⟩
  | new a k mb' n he hj hc hm hn' hv =>
    subst he
    cases hcur : lookup (dirAt w w.dirOps.length) .current with
    | none => left; rfl
    | some cid0 =>
      right
      obtain ⟨hs, ln', hl', _, hall⟩ := post_rename post hc hm
      rw [List.take_of_length_le (by omega)] at hv
      subst hv
      have hlr := inRange_len hw
      obtain ⟨k0, mb0, hp⟩ := ha1 _ hlr cid0 hcur
      have hc0 : Cand w w.dirOps.length (versionOf (mb0.recs.take mb0.synced)) :=
        ⟨k0, mb0, mb0.synced, hp, Nat.le_refl _, rfl⟩
      refine ⟨_, _, hlr, fun _ => rfl, hc0, ?_, ?_⟩
      · intro ln hln
        -- the old candidate is still a candidate of the new world
        have hd : dirAt (w.step (.rename a .current)) w.dirOps.length = dirAt w w.dirOps.length :=
          dirAt_step_le w _ (Nat.le_refl _)
        have hp' : Points (w.step (.rename a .current)) w.dirOps.length k0 mb0 := by
          obtain ⟨cid, mid, h1, h2, h3, h4⟩ := hp
          exact ⟨cid, mid, by rw [hd]; exact h1, h2, by rw [hd]; exact h3, h4⟩
        have hr' : InRange (w.step (.rename a .current)) w.dirOps.length := by
          constructor
          · exact hw.synced_le
          · rw [step_dirOps]; simp
        have hmem := cand_mem hw' hr' ⟨k0, mb0, mb0.synced, hp', Nat.le_refl _, rfl⟩
        have := hall _ hmem
        simp only [candLogLe, hln, decide_eq_true_eq] at this
        exact ⟨ln', hl', this⟩
      · intro n id hl
        left
        rw [hj, dirAt_step_new (op := .rename a .current) rfl]
        obtain ⟨_, ⟨k1, ha⟩, _⟩ := pre_rename pre
        subst ha
        cases hla : lookup (dirAt w w.dirOps.length) (.tmp k1) with
        | none => rw [lookup_rename_none _ _ _ _ hla]; exact hl
        | some x => rw [lookup_rename_some _ _ _ _ _ hla]; simp; exact hl


/-! ### preservation of the invariant -/

theorem pre_ack {w : World} {lo : List (Nat × Nat)} {b : Nat} {s : Bool} (h : preOk w lo (.ack b s) = true) :
    ∃ n body, logOfLookup lo b = some n ∧ bodyOf w (.log n) = some body ∧ Rec.batch b ∈ body.recs ∧
      (bodyOf w .current).isSome ∧
      (s = true → Rec.batch b ∈ body.recs.take body.synced ∧ established w = true) := by
  simp only [preOk] at h
  cases hl : logOfLookup lo b with
  | none => simp [hl] at h
  | some n =>
    simp only [hl] at h
    cases hb : bodyOf w (.log n) with
    | none => simp [hb] at h
    | some body =>
      simp only [hb, Bool.and_eq_true, List.contains_iff_mem, Bool.or_eq_true, Bool.not_eq_true'] at h
      refine ⟨n, body, rfl, hb, h.1.1, h.1.2, ?_⟩
      intro hs
      rcases h.2 with h2 | h2
      · rw [hs] at h2; cases h2
      · exact h2

theorem logSafe_of_origin {w : World} (hw : WInv w) (e : Ev) {sel : Body → List Rec}
    (hsel : ∀ b b', BodyLe b b' → b.synced ≤ b.recs.length → ∀ r, r ∈ sel b → r ∈ sel b')
    {j j' : Nat} {v v' : AVersion} {n b : Nat}
    (hLe : ∀ ln, v.logNum = some ln → ∃ ln', v'.logNum = some ln' ∧ ln ≤ ln')
    (hKeep : ∀ n id, lookup (dirAt w j) (.log n) = some id →
        lookup (dirAt (w.step e) j') (.log n) = some id ∨ ∃ ln', v'.logNum = some ln' ∧ n < ln')
    (h : LogSafe w sel j v n b) : LogSafe (w.step e) sel j' v' n b := by
  rcases h with ⟨ln, hln, hlt⟩ | ⟨id, body, hl, hb, hm⟩
  · obtain ⟨ln', h1, h2⟩ := hLe ln hln
    exact Or.inl ⟨ln', h1, by omega⟩
  · rcases hKeep n id hl with h | h
    · obtain ⟨b', hb', hle⟩ := step_bodies_le hw e hb
      exact Or.inr ⟨id, b', h, hb', hsel _ _ hle (hw.body_le _ _ hb) _ hm⟩
    · exact Or.inl h

theorem selAll_mono : ∀ b b', BodyLe b b' → b.synced ≤ b.recs.length → ∀ r, r ∈ selAll b → r ∈ selAll b' :=
  fun _ _ h _ _ hr => h.mem_recs hr

theorem selSynced_mono : ∀ b b', BodyLe b b' → b.synced ≤ b.recs.length → ∀ r, r ∈ selSynced b → r ∈ selSynced b' :=
  fun _ _ h hb _ hr => h.mem_synced hb hr

theorem logOfLookup_cons (b0 n : Nat) (lo : List (Nat × Nat)) (b : Nat) :
    logOfLookup ((b0, n) :: lo) b = if b0 = b then some n else logOfLookup lo b := by
  unfold logOfLookup
  by_cases h : b0 = b <;> simp [h]

theorem logOf_step {t : List Ev} {lo : List (Nat × Nat)} {w : World} {e : Ev}
    (h : ∀ b, logOfLookup lo b = logOfBatch t b) (pre : preOk w lo e = true) :
    ∀ b, logOfLookup (newLogOf lo e) b = logOfBatch (t ++ [e]) b := by
  intro b
  rw [logOfBatch_snoc]
  have triv : newLogOf lo e = lo → logOfBatch [e] b = none → logOfLookup (newLogOf lo e) b = (logOfBatch t b).or (logOfBatch [e] b) := by
    intro h1 h2; rw [h1, h2, h b]; simp
  cases e with
  | create f => exact triv rfl rfl
  | sync f => exact triv rfl rfl
  | syncDir => exact triv rfl rfl
  | rename a c => exact triv rfl rfl
  | unlink f => exact triv rfl rfl
  | ack c s => exact triv rfl rfl
  | append f r =>
    cases f with
    | table k => exact triv rfl rfl
    | manifest k => exact triv rfl rfl
    | current => exact triv rfl rfl
    | tmp k => exact triv rfl rfl
    | log n =>
      cases r with
      | edit ed => exact triv rfl rfl
      | ptr k => exact triv rfl rfl
      | chunk => exact triv rfl rfl
      | batch b0 =>
        obtain ⟨hfresh, _, _⟩ := pre_append_batch pre
        simp only [newLogOf, logOfLookup_cons]
        by_cases hb : b0 = b
        · subst hb
          rw [← h b0, hfresh]
          simp [logOfBatch]
        · simp [hb, logOfBatch, h b]

theorem ack_of_mem_ackedSync {e : Ev} {b : Nat} (h : b ∈ ackedSync [e]) : e = .ack b true := by
  cases e <;> simp [ackedSync] at h
  rename_i c s
  cases s <;> simp at h
  rw [h]

theorem ack_of_mem_ackedAll {e : Ev} {b : Nat} (h : b ∈ ackedAll [e]) : ∃ s, e = .ack b s := by
  cases e <;> simp [ackedAll] at h
  rename_i c s
  exact ⟨s, by rw [h]⟩

theorem Inv.nil : Inv [] := by
  constructor
  · intro op h; simp [World.run, World.empty] at h
  · simp [World.run, World.empty]
  · intro b; rfl
  · intro j _ cid h; simp [World.run, World.empty, dirAt, lookup] at h
  · intro j _ v h
    obtain ⟨_, _, _, ⟨_, _, h, _⟩, _⟩ := h
    simp [World.run, World.empty, dirAt, lookup] at h
  · intro b h; simp [ackedSync] at h
  · intro b h; simp [ackedAll] at h
  · intro h; simp [ackedSync] at h
  · intro h; simp [ackedAll] at h

theorem Inv.snoc {t : List Ev} {e : Ev} (hI : Inv t) (hc : Conforms (t ++ [e])) : Inv (t ++ [e]) := by
  obtain ⟨_, pre, post⟩ := conforms_snoc hc
  have hw : WInv (World.run t) := WInv.run t
  have hw' : WInv ((World.run t).step e) := hw.step e
  have hops := hI.ops
  have ha1 := hI.a1
  constructor
  · -- ops
    rw [run_snoc, step_dirOps]
    apply OpsOK.append hops
    intro op ho
    cases hop : evOp (World.run t) e with
    | none => simp [hop] at ho
    | some op' => simp [hop] at ho; subst ho; exact pre_opOK pre hop
  · -- names
    rw [run_snoc, step_dirOps, List.filterMap_append]
    cases e with
    | append f r => simpa [evOp] using hI.names
    | sync f => simpa [evOp] using hI.names
    | syncDir => simpa [evOp] using hI.names
    | ack b s => simpa [evOp] using hI.names
    | rename a b =>
      have : List.filterMap createName [DirOp.rename a b] = [] := rfl
      simpa [evOp, this] using hI.names
    | unlink f =>
      have : List.filterMap createName [DirOp.unlink f] = [] := rfl
      simpa [evOp, this] using hI.names
    | create f =>
      obtain ⟨_, hfn⟩ := pre_create pre
      have := not_created hfn
      rw [List.nodup_append]
      refine ⟨hI.names, by simp [evOp, createName], ?_⟩
      intro a ha b hb
      simp [evOp, createName] at hb
      subst hb
      intro hab; subst hab; exact this ha
  · -- logOf
    rw [monitor_snoc, step_logOf]
    exact logOf_step hI.logOf pre
  · -- a1
    rw [run_snoc]
    intro j hj cid hcur
    exact points_forward hw hops ha1 pre post hj hcur
  · -- a2
    rw [run_snoc]
    intro j hj v hC
    exact goodV_step hw hops hI.names ha1 hI.a2 pre post hj hC
  · -- bS
    rw [run_snoc]
    intro b hb
    rw [ackedSync_snoc, List.mem_append] at hb
    rcases hb with hb | hb
    · obtain ⟨n, hn, hsafe⟩ := hI.bS b hb
      refine ⟨n, logOfBatch_append_some hn, ?_⟩
      intro j' hj' v' hC
      rcases cand_origin hw hops ha1 pre post hj' hC with hnone | ⟨j, v, hj, _, hcv, hLe, hKeep⟩
      · have := hI.e1 (List.ne_nil_of_mem hb) _ (inRange_len hw)
        rw [hnone] at this; cases this
      · exact logSafe_of_origin hw e selSynced_mono hLe hKeep (hsafe j hj v hcv)
    · have he := ack_of_mem_ackedSync hb
      subst he
      obtain ⟨n, body, hlo, hbo, _, _, hs⟩ := pre_ack pre
      obtain ⟨hsy, _⟩ := hs rfl
      rw [hI.logOf] at hlo
      refine ⟨n, logOfBatch_append_some hlo, ?_⟩
      intro j hj v _
      show LogSafe (World.run t) selSynced j v n b
      obtain ⟨id, hl, hbb⟩ := bodyOf_some hw hbo
      have hpos : 0 < body.synced := by
        cases hz : body.synced with
        | zero => rw [hz] at hsy; simp at hsy
        | succ k => omega
      have hl' := lookup_persist hw hops hI.names hj (by simp) hl hbb hpos
      exact Or.inr ⟨id, body, hl', hbb, hsy⟩
  · -- bK
    rw [run_snoc]
    intro b hb
    rw [ackedAll_snoc, List.mem_append] at hb
    rcases hb with hb | hb
    · obtain ⟨n, hn, hsafe⟩ := hI.bK b hb
      refine ⟨n, logOfBatch_append_some hn, ?_⟩
      intro v' hC
      rcases cand_origin hw hops ha1 pre post (inRange_len hw') hC with hnone | ⟨j, v, hj, hlast, hcv, hLe, hKeep⟩
      · have := hI.e2 (List.ne_nil_of_mem hb)
        rw [hnone] at this; cases this
      · have hjl := hlast rfl
        subst hjl
        exact logSafe_of_origin hw e selAll_mono hLe hKeep (hsafe v hcv)
    · obtain ⟨s, he⟩ := ack_of_mem_ackedAll hb
      subst he
      obtain ⟨n, body, hlo, hbo, hmem, _, _⟩ := pre_ack pre
      rw [hI.logOf] at hlo
      refine ⟨n, logOfBatch_append_some hlo, ?_⟩
      intro v _
      show LogSafe (World.run t) selAll (World.run t).dirOps.length v n b
      obtain ⟨id, hl, hbb⟩ := bodyOf_some hw hbo
      exact Or.inr ⟨id, body, hl, hbb, hmem⟩
  · -- e1
    rw [run_snoc]
    intro hne j' hj'
    by_cases hold : ackedSync t = []
    · rw [ackedSync_snoc, hold, List.nil_append] at hne
      obtain ⟨b, hb⟩ := List.exists_mem_of_ne_nil _ hne
      have he := ack_of_mem_ackedSync hb
      subst he
      obtain ⟨_, _, _, _, _, _, hs⟩ := pre_ack pre
      exact established_current (hs rfl).2 hj'
    · obtain ⟨j, hj, _, himp⟩ := cur_persist hw pre hj'
      exact himp (hI.e1 hold j hj)
  · -- e2
    rw [run_snoc]
    intro hne
    by_cases hold : ackedAll t = []
    · rw [ackedAll_snoc, hold, List.nil_append] at hne
      obtain ⟨b, hb⟩ := List.exists_mem_of_ne_nil _ hne
      obtain ⟨s, he⟩ := ack_of_mem_ackedAll hb
      subst he
      obtain ⟨_, _, _, _, _, hcur, _⟩ := pre_ack pre
      show (lookup (dirAt (World.run t) (World.run t).dirOps.length) .current).isSome
      rw [bodyOf_eq hw] at hcur
      cases hl : lookup (dirAt (World.run t) (World.run t).dirOps.length) .current with
      | none => simp [hl] at hcur
      | some x => rfl
    · obtain ⟨j, hj, hlast, himp⟩ := cur_persist hw pre (inRange_len hw')
      have := hlast rfl
      subst this
      exact himp (hI.e2 hold)

theorem Inv.of_conforms : ∀ (t : List Ev), Conforms t → Inv t := by
  intro t
  induction t using snoc_induction with
  | nil => intro _; exact Inv.nil
  | snoc t e ih => intro h; exact (ih (conforms_snoc h).1).snoc h


/-! ### crash images and recovery -/

/-- `img` is a crash image whose directory is the one after exactly `j` directory operations -/
def ImgAt (w : World) (j : Nat) (img : Image) : Prop :=
  img.map (·.1) = (dirAt w j).map (·.1) ∧
  ∀ p ∈ img, ∃ id b, lookup (dirAt w j) p.1 = some id ∧ w.bodies[id]? = some b ∧
    ∃ n, b.synced ≤ n ∧ p.2 = b.recs.take n

theorem isCrashImage_iff (w : World) (img : Image) :
    IsCrashImage w img ↔ ∃ j, InRange w j ∧ ImgAt w j img := by
  unfold IsCrashImage InRange ImgAt dirAt
  constructor
  · rintro ⟨j, h1, h2, h3⟩; exact ⟨j, ⟨h1, h2⟩, h3⟩
  · rintro ⟨j, ⟨h1, h2⟩, h3⟩; exact ⟨j, h1, h2, h3⟩

theorem imgLookup_mem {img : Image} {f : FName} {recs : List Rec} (h : imgLookup img f = some recs) :
    (f, recs) ∈ img := by
  unfold imgLookup at h
  cases hf : img.find? (fun p => p.1 == f) with
  | none => simp [hf] at h
  | some p =>
    simp [hf] at h
    have h1 := List.find?_some hf
    have h2 := List.mem_of_find?_eq_some hf
    simp at h1
    rw [← h1, ← h]; exact h2

theorem imgLookup_isSome {img : Image} {f : FName} (h : f ∈ img.map (·.1)) : (imgLookup img f).isSome := by
  unfold imgLookup
  rw [Option.isSome_map, List.find?_isSome]
  simp only [List.mem_map] at h
  obtain ⟨p, hp, hpf⟩ := h
  exact ⟨p, hp, by simp [hpf]⟩

theorem img_lookup {w : World} {j : Nat} {img : Image} (hi : ImgAt w j img) {f : FName} {id : Nat}
    (hl : lookup (dirAt w j) f = some id) :
    ∃ b n, w.bodies[id]? = some b ∧ b.synced ≤ n ∧ imgLookup img f = some (b.recs.take n) := by
  have hm : f ∈ (dirAt w j).map (·.1) := List.mem_map.2 ⟨(f, id), lookup_some_mem hl, rfl⟩
  rw [← hi.1] at hm
  have hs := imgLookup_isSome hm
  cases hr : imgLookup img f with
  | none => rw [hr] at hs; cases hs
  | some recs =>
    obtain ⟨id', b, h1, h2, n, h3, h4⟩ := hi.2 _ (imgLookup_mem hr)
    simp only at h1 h4
    have : id' = id := Option.some.inj (h1.symm.trans hl)
    subst this
    exact ⟨b, n, h2, h3, by rw [h4]⟩

theorem img_lookup_back {w : World} {j : Nat} {img : Image} (hi : ImgAt w j img) {f : FName} {recs : List Rec}
    (hr : imgLookup img f = some recs) :
    ∃ id b n, lookup (dirAt w j) f = some id ∧ w.bodies[id]? = some b ∧ b.synced ≤ n ∧ recs = b.recs.take n := by
  obtain ⟨id', b, h1, h2, n, h3, h4⟩ := hi.2 _ (imgLookup_mem hr)
  exact ⟨id', b, n, h1, h2, h3, h4⟩

/-- the batches recovery replays, given the image and the recovered log number -/
def replayedOf (img : Image) (ln : Nat) : List Nat :=
  (((logNumbers img).filter (· ≥ ln)).mergeSort (· ≤ ·)).flatMap fun n => batchesOf ((imgLookup img (.log n)).getD [])

theorem recover_of_image {w : World} {j : Nat} {img : Image} (_hw : WInv w)
    (ha1 : ∀ j, InRange w j → ∀ cid, lookup (dirAt w j) .current = some cid → ∃ k mb, Points w j k mb)
    (ha2 : ∀ j, InRange w j → ∀ v, Cand w j v → GoodV w (dirAt w j) v)
    (hj : InRange w j) (hcur : (lookup (dirAt w j) .current).isSome) (hi : ImgAt w j img) :
    ∃ k recs v ln, Cand w j v ∧ v.logNum = some ln ∧
      imgLookup img .current = some [.ptr k] ∧ imgLookup img (.manifest k) = some recs ∧ v = versionOf recs ∧
      (∀ p ∈ v.tables, ∃ body, imgLookup img (.table p.1) = some body ∧ body.length = p.2) ∧
      recover img = some ⟨ln, v.tables, replayedOf img ln⟩ := by
  cases hc : lookup (dirAt w j) .current with
  | none => rw [hc] at hcur; cases hcur
  | some cid =>
    obtain ⟨k, mb, hp⟩ := ha1 j hj cid hc
    obtain ⟨cid', mid, hc', hcb, hm, hmb⟩ := id hp
    obtain ⟨cb, nc, hcb2, hnc, himc⟩ := img_lookup hi hc'
    rw [hcb] at hcb2
    have : cb = ⟨[.ptr k], 1⟩ := (Option.some.inj hcb2).symm
    subst this
    simp only at hnc himc
    have himc' : imgLookup img .current = some [.ptr k] := by
      rw [himc]; congr 1
      apply List.take_of_length_le; simpa using hnc
    obtain ⟨mb2, nm, hmb2, hnm, himm⟩ := img_lookup hi hm
    rw [hmb] at hmb2
    have : mb2 = mb := (Option.some.inj hmb2).symm
    subst this
    have hcand : Cand w j (versionOf (mb2.recs.take nm)) := ⟨k, mb2, nm, hp, hnm, rfl⟩
    obtain ⟨⟨ln, hln⟩, htab⟩ := ha2 j hj _ hcand
    have htabs : ∀ p ∈ (versionOf (mb2.recs.take nm)).tables,
        ∃ body, imgLookup img (.table p.1) = some body ∧ body.length = p.2 := by
      intro p hp
      obtain ⟨_, id, b, hl, hb, hlen, hsyn⟩ := htab p hp
      obtain ⟨b2, n, hb2, hn, him⟩ := img_lookup hi hl
      rw [hb] at hb2
      have : b2 = b := (Option.some.inj hb2).symm
      subst this
      refine ⟨_, him, ?_⟩
      rw [List.take_of_length_le (by omega)]; exact hlen
    refine ⟨k, _, _, ln, hcand, hln, himc', himm, rfl, htabs, ?_⟩
    simp only [recover, himc', himm, hln, replayedOf]
    rw [if_pos]
    rw [List.all_eq_true]
    intro p hp
    obtain ⟨body, h1, h2⟩ := htabs _ hp
    simp only [h1, h2, beq_self_eq_true]


/-! ### directory names are unique; the kill image -/

theorem erase_names_sublist (d : List (FName × Nat)) (f : FName) : ((erase d f).map (·.1)).Sublist (d.map (·.1)) :=
  List.Sublist.map _ List.filter_sublist

theorem not_mem_erase_names (d : List (FName × Nat)) (f : FName) : f ∉ (erase d f).map (·.1) := by
  intro h
  simp only [erase, List.mem_map, List.mem_filter] at h
  obtain ⟨p, ⟨_, hp⟩, hpf⟩ := h
  simp [hpf] at hp

theorem applyDirOp_nodup (d : List (FName × Nat)) (op : DirOp) (h : (d.map (·.1)).Nodup) :
    ((applyDirOp d op).map (·.1)).Nodup := by
  cases op with
  | create f id =>
    simp only [applyDirOp, List.map_cons, List.nodup_cons]
    exact ⟨not_mem_erase_names d f, (erase_names_sublist d f).nodup h⟩
  | unlink f => exact (erase_names_sublist d f).nodup h
  | rename a b =>
    simp only [applyDirOp]
    cases lookup d a with
    | none => exact h
    | some id =>
      simp only [List.map_cons, List.nodup_cons]
      exact ⟨not_mem_erase_names _ b, (erase_names_sublist _ b).nodup ((erase_names_sublist d a).nodup h)⟩

theorem replay_nodup (ops : List DirOp) : ((replay ops).map (·.1)).Nodup := by
  induction ops using snoc_induction with
  | nil => simp [replay]
  | snoc ops op ih => rw [replay_snoc]; exact applyDirOp_nodup _ _ ih

theorem lookup_of_mem {d : List (FName × Nat)} (hn : (d.map (·.1)).Nodup) {f : FName} {id : Nat}
    (h : (f, id) ∈ d) : lookup d f = some id := by
  induction d with
  | nil => simp at h
  | cons p d ih =>
    simp only [List.map_cons, List.nodup_cons] at hn
    rw [lookup_cons]
    rcases List.mem_cons.1 h with h | h
    · subst h; simp
    · have : ¬ p.1 = f := by
        intro hp; apply hn.1; rw [hp]; exact List.mem_map.2 ⟨_, h, rfl⟩
      simp only [this, if_false]; exact ih hn.2 h

theorem image_aux (bodies : List Body) (g : FName → Nat → Body → List Rec) :
    ∀ (d : List (FName × Nat)), (∀ p ∈ d, p.2 < bodies.length) →
    (d.filterMap fun (f, id) => (bodies[id]?).map fun b => (f, g f id b)).map (·.1) = d.map (·.1) ∧
    ∀ q ∈ (d.filterMap fun (f, id) => (bodies[id]?).map fun b => (f, g f id b)),
      ∃ id b, (q.1, id) ∈ d ∧ bodies[id]? = some b ∧ q.2 = g q.1 id b := by
  intro d
  induction d with
  | nil => intro _; simp
  | cons p d ih =>
    intro h
    obtain ⟨f, id⟩ := p
    have hid : id < bodies.length := h (f, id) (by simp)
    obtain ⟨ih1, ih2⟩ := ih (fun p hp => h p (List.mem_cons_of_mem _ hp))
    have hb : bodies[id]? = some bodies[id] := List.getElem?_eq_getElem hid
    rw [List.filterMap_cons]
    simp only [hb, Option.map_some]
    constructor
    · simp only [List.map_cons, ih1]
    · intro q hq
      rcases List.mem_cons.1 hq with hq | hq
      · subst hq; exact ⟨id, bodies[id], by simp, hb, rfl⟩
      · obtain ⟨id', b, h1, h2, h3⟩ := ih2 q hq
        exact ⟨id', b, List.mem_cons_of_mem _ h1, h2, h3⟩

theorem killImage_aux (bodies : List Body) : ∀ (d : List (FName × Nat)), (∀ p ∈ d, p.2 < bodies.length) →
    (d.filterMap fun (f, id) => (bodies[id]?).map fun b => (f, b.recs)).map (·.1) = d.map (·.1) ∧
    ∀ q ∈ (d.filterMap fun (f, id) => (bodies[id]?).map fun b => (f, b.recs)),
      ∃ id b, (q.1, id) ∈ d ∧ bodies[id]? = some b ∧ q.2 = b.recs :=
  image_aux bodies (fun _ _ b => b.recs)

theorem dir_ids_lt {w : World} (hw : WInv w) : ∀ p ∈ w.dir, p.2 < w.bodies.length := by
  intro p hp
  have hn : (w.dir.map (·.1)).Nodup := by rw [hw.dir_eq]; exact replay_nodup _
  have hl : lookup w.dir p.1 = some p.2 := lookup_of_mem hn hp
  rw [← dirAt_len hw] at hl
  exact lookup_lt hw hl

theorem killImage_imgAt {w : World} (hw : WInv w) : ImgAt w w.dirOps.length (killImage w) := by
  obtain ⟨h1, h2⟩ := killImage_aux w.bodies w.dir (dir_ids_lt hw)
  have hn : (w.dir.map (·.1)).Nodup := by rw [hw.dir_eq]; exact replay_nodup _
  unfold ImgAt
  rw [dirAt_len hw]
  refine ⟨h1, ?_⟩
  intro q hq
  obtain ⟨id, b, hm, hb, hr⟩ := h2 q hq
  exact ⟨id, b, lookup_of_mem hn hm, hb, b.recs.length, hw.body_le _ _ hb, by rw [hr, List.take_length]⟩

theorem killImage_isCrashImage {w : World} (hw : WInv w) : IsCrashImage w (killImage w) :=
  (isCrashImage_iff _ _).2 ⟨_, inRange_len hw, killImage_imgAt hw⟩

theorem killImage_lookup {w : World} (hw : WInv w) {f : FName} {id : Nat} {b : Body}
    (hl : lookup w.dir f = some id) (hb : w.bodies[id]? = some b) : imgLookup (killImage w) f = some b.recs := by
  obtain ⟨h1, h2⟩ := killImage_aux w.bodies w.dir (dir_ids_lt hw)
  have hn : (w.dir.map (·.1)).Nodup := by rw [hw.dir_eq]; exact replay_nodup _
  have hm : f ∈ (killImage w).map (·.1) := by
    show f ∈ List.map _ (List.filterMap _ w.dir)
    rw [h1]; exact List.mem_map.2 ⟨_, lookup_some_mem hl, rfl⟩
  have hs := imgLookup_isSome hm
  cases hr : imgLookup (killImage w) f with
  | none => rw [hr] at hs; cases hs
  | some recs =>
    obtain ⟨id', b', hm', hb', hr'⟩ := h2 _ (imgLookup_mem hr)
    simp only at hm' hr'
    have : id' = id := Option.some.inj ((lookup_of_mem hn hm').symm.trans hl)
    subst this
    rw [hb] at hb'
    rw [hr', ← Option.some.inj hb']


/-- a family of concrete crash images: the directory after `j` operations, file `f` cut to
    `max synced (cut f)` records.  `cut := fun _ => 0` is the minimal image for that directory cut. -/
def cutImage (w : World) (j : Nat) (cut : FName → Nat) : Image :=
  (dirAt w j).filterMap fun (f, id) => (w.bodies[id]?).map fun b => (f, b.recs.take (max b.synced (cut f)))

theorem cutImage_isCrashImage {w : World} (hw : WInv w) {j : Nat} (hj : InRange w j) (cut : FName → Nat) :
    IsCrashImage w (cutImage w j cut) := by
  rw [isCrashImage_iff]
  refine ⟨j, hj, ?_⟩
  have hlt : ∀ p ∈ dirAt w j, p.2 < w.bodies.length := by
    intro p hp
    exact lookup_lt hw (lookup_of_mem (replay_nodup _) hp)
  obtain ⟨h1, h2⟩ := image_aux w.bodies (fun f _ b => b.recs.take (max b.synced (cut f))) (dirAt w j) hlt
  refine ⟨h1, ?_⟩
  intro q hq
  obtain ⟨id, b, hm, hb, hr⟩ := h2 q hq
  exact ⟨id, b, lookup_of_mem (replay_nodup _) hm, hb, max b.synced (cut q.1), Nat.le_max_left _ _, hr⟩

/-! ### a `decide`-friendly form of `recover` (insertion sort instead of the well-founded merge sort) -/

def insertSorted (a : Nat) : List Nat → List Nat
  | [] => [a]
  | b :: l => if a ≤ b then a :: b :: l else b :: insertSorted a l

def isort : List Nat → List Nat
  | [] => []
  | a :: l => insertSorted a (isort l)

theorem insertSorted_perm (a : Nat) (l : List Nat) : (insertSorted a l).Perm (a :: l) := by
  induction l with
  | nil => exact List.Perm.refl _
  | cons b l ih =>
    unfold insertSorted
    split
    · exact List.Perm.refl _
    · exact (List.Perm.cons b ih).trans (List.Perm.swap a b l)

theorem insertSorted_sorted (a : Nat) (l : List Nat) (h : l.Pairwise (· ≤ ·)) : (insertSorted a l).Pairwise (· ≤ ·) := by
  induction l with
  | nil => simp [insertSorted]
  | cons b l ih =>
    unfold insertSorted
    rw [List.pairwise_cons] at h
    split
    · rename_i hab
      rw [List.pairwise_cons]
      refine ⟨?_, List.pairwise_cons.2 h⟩
      intro c hc
      rcases List.mem_cons.1 hc with hc | hc
      · omega
      · have := h.1 c hc; omega
    · rename_i hab
      rw [List.pairwise_cons]
      refine ⟨?_, ih h.2⟩
      intro c hc
      rcases List.mem_cons.1 ((insertSorted_perm a l).mem_iff.1 hc) with hc | hc
      · omega
      · exact h.1 c hc

theorem isort_perm (l : List Nat) : (isort l).Perm l := by
  induction l with
  | nil => exact List.Perm.refl _
  | cons a l ih => exact (insertSorted_perm a _).trans (List.Perm.cons a ih)

theorem isort_sorted (l : List Nat) : (isort l).Pairwise (· ≤ ·) := by
  induction l with
  | nil => simp [isort]
  | cons a l ih => exact insertSorted_sorted a _ ih

theorem eq_of_perm_sorted : ∀ (l1 l2 : List Nat), l1.Perm l2 → l1.Pairwise (· ≤ ·) → l2.Pairwise (· ≤ ·) → l1 = l2 := by
  intro l1
  induction l1 with
  | nil => intro l2 hp _ _; exact (List.Perm.nil_eq hp)
  | cons a l1 ih =>
    intro l2 hp h1 h2
    cases l2 with
    | nil => exact absurd hp.symm (by simp)
    | cons b l2 =>
      rw [List.pairwise_cons] at h1 h2
      have hab : a = b := by
        have ha : a ∈ b :: l2 := hp.mem_iff.1 (by simp)
        have hb : b ∈ a :: l1 := hp.mem_iff.2 (by simp)
        rcases List.mem_cons.1 ha with ha | ha
        · exact ha
        · rcases List.mem_cons.1 hb with hb | hb
          · exact hb.symm
          · have := h1.1 b hb; have := h2.1 a ha; omega
      subst hab
      rw [ih l2 (List.Perm.cons_inv hp) h1.2 h2.2]

theorem mergeSort_eq_isort (l : List Nat) : l.mergeSort (· ≤ ·) = isort l := by
  apply eq_of_perm_sorted
  · exact (List.mergeSort_perm _ _).trans (isort_perm l).symm
  · have := List.pairwise_mergeSort (le := fun (a b : Nat) => decide (a ≤ b))
      (by intro a b c; simp; omega) (by intro a b; simp; omega) l
    exact this.imp (by simp)
  · exact isort_sorted l

/-- `recover` with the merge sort replaced by insertion sort (evaluates by `decide`) -/
def recoverI (img : Image) : Option Recovered :=
  match imgLookup img .current with
  | some [.ptr m] =>
    match imgLookup img (.manifest m) with
    | some recs =>
      let v := versionOf recs
      match v.logNum with
      | some ln =>
        if v.tables.all (fun (t, size) => match imgLookup img (.table t) with
            | some body => body.length == size
            | none => false) then
          let logs := isort ((logNumbers img).filter (· ≥ ln))
          some { logNum := ln, tables := v.tables,
                 replayed := logs.flatMap fun n => batchesOf ((imgLookup img (.log n)).getD []) }
        else none
      | none => none
    | none => none
  | _ => none

theorem recover_eq_recoverI (img : Image) : recover img = recoverI img := by
  unfold recover recoverI
  simp only [mergeSort_eq_isort]
  rfl


/-! ### log numbers increase over time: the order invariant -/

/-- all batches appended to logs, in the order of the append events -/
def appended (t : List Ev) : List Nat := t.filterMap fun | .append (.log _) (.batch b) => some b | _ => none

/-- the batches appended to log `l`, in order -/
def appendedTo (t : List Ev) (l : Nat) : List Nat :=
  t.filterMap fun | .append (.log l') (.batch b) => if l' = l then some b else none | _ => none

/-- the batches in body `id` -/
def bodyBatches (w : World) (id : Nat) : List Nat := batchesOf (((w.bodies[id]?).map (·.recs)).getD [])

def newLog : Ev → List Nat
  | .create (.log n) => [n]
  | _ => []

theorem appended_snoc (t : List Ev) (e : Ev) : appended (t ++ [e]) = appended t ++ appended [e] := by
  simp [appended, List.filterMap_append]

theorem appendedTo_snoc (t : List Ev) (e : Ev) (l : Nat) : appendedTo (t ++ [e]) l = appendedTo t l ++ appendedTo [e] l := by
  simp [appendedTo, List.filterMap_append]

theorem createdLogs_step (w : World) (e : Ev) : createdLogs (w.step e).dirOps = createdLogs w.dirOps ++ newLog e := by
  rw [step_dirOps]
  unfold createdLogs
  rw [List.filterMap_append]
  congr 1
  cases e with
  | create f => cases f <;> rfl
  | append f r => rfl
  | sync f => rfl
  | syncDir => rfl
  | rename a b => rfl
  | unlink f => rfl
  | ack b s => rfl

theorem mem_createdLogs {ops : List DirOp} {n id : Nat} (h : DirOp.create (.log n) id ∈ ops) : n ∈ createdLogs ops := by
  unfold createdLogs; rw [List.mem_filterMap]; exact ⟨_, h, rfl⟩

theorem ev_class (e : Ev) : (∃ n b, e = .append (.log n) (.batch b)) ∨ (∃ n, e = .create (.log n)) ∨
    (appended [e] = [] ∧ (∀ l, appendedTo [e] l = []) ∧ newLog e = []) := by
  cases e with
  | create f =>
    cases f with
    | log n => right; left; exact ⟨n, rfl⟩
    | table n => right; right; exact ⟨rfl, fun _ => rfl, rfl⟩
    | manifest n => right; right; exact ⟨rfl, fun _ => rfl, rfl⟩
    | current => right; right; exact ⟨rfl, fun _ => rfl, rfl⟩
    | tmp n => right; right; exact ⟨rfl, fun _ => rfl, rfl⟩
  | sync f => right; right; exact ⟨rfl, fun _ => rfl, rfl⟩
  | syncDir => right; right; exact ⟨rfl, fun _ => rfl, rfl⟩
  | rename a b => right; right; exact ⟨rfl, fun _ => rfl, rfl⟩
  | unlink f => right; right; exact ⟨rfl, fun _ => rfl, rfl⟩
  | ack b s => right; right; exact ⟨rfl, fun _ => rfl, rfl⟩
  | append f r =>
    cases f with
    | table n => right; right; exact ⟨rfl, fun _ => rfl, rfl⟩
    | manifest n => right; right; exact ⟨rfl, fun _ => rfl, rfl⟩
    | current => right; right; exact ⟨rfl, fun _ => rfl, rfl⟩
    | tmp n => right; right; exact ⟨rfl, fun _ => rfl, rfl⟩
    | log n =>
      cases r with
      | batch b => left; exact ⟨n, b, rfl⟩
      | edit ed => right; right; exact ⟨rfl, fun _ => rfl, rfl⟩
      | ptr k => right; right; exact ⟨rfl, fun _ => rfl, rfl⟩
      | chunk => right; right; exact ⟨rfl, fun _ => rfl, rfl⟩

theorem create_unique : ∀ {ops : List DirOp}, (ops.filterMap createName).Nodup → ∀ {f : FName} {id id' : Nat},
    DirOp.create f id ∈ ops → DirOp.create f id' ∈ ops → id = id' := by
  intro ops
  induction ops with
  | nil => intro _ f id id' h; simp at h
  | cons op rest ih =>
    intro hn f id id' h1 h2
    have hn' : (rest.filterMap createName).Nodup := by
      rw [List.filterMap_cons] at hn
      cases hc : createName op with
      | none => simpa [hc] using hn
      | some g => simp only [hc, List.nodup_cons] at hn; exact hn.2
    rcases List.mem_cons.1 h1 with h1 | h1 <;> rcases List.mem_cons.1 h2 with h2 | h2
    · rw [← h1] at h2; injection h2 with _ h; exact h.symm
    · rw [← h1] at hn
      simp only [List.filterMap_cons, createName, List.nodup_cons] at hn
      exact absurd (createName_mem h2) hn.1
    · rw [← h2] at hn
      simp only [List.filterMap_cons, createName, List.nodup_cons] at hn
      exact absurd (createName_mem h1) hn.1
    · exact ih hn' h1 h2

theorem bodyBatches_step_other {w : World} {e : Ev} (h : ∀ f r, e ≠ .append f r) {id : Nat} (hid : id < w.bodies.length) :
    bodyBatches (w.step e) id = bodyBatches w id := by
  unfold bodyBatches
  cases e with
  | append f r => exact absurd rfl (h f r)
  | sync f =>
    cases hl : lookup w.dir f with
    | none => rw [step_sync_none hl]
    | some id0 =>
      rw [step_sync_some hl]
      simp only [modifyBody_get]
      cases w.bodies[id]? with
      | none => rfl
      | some b => by_cases hi : id = id0 <;> simp [hi]
  | create f => rw [step_bodies_same (by intros; simp) (by intros; simp) hid]
  | syncDir => rfl
  | rename a b => rfl
  | unlink f => rfl
  | ack b s => rfl

theorem batchesOf_append (a b : List Rec) : batchesOf (a ++ b) = batchesOf a ++ batchesOf b := by
  simp [batchesOf, List.filterMap_append]

theorem bodyBatches_step_append {w : World} {f : FName} {r : Rec} {id : Nat} (hid : id < w.bodies.length) :
    bodyBatches (w.step (.append f r)) id =
      if lookup w.dir f = some id then bodyBatches w id ++ batchesOf [r] else bodyBatches w id := by
  unfold bodyBatches
  have hb : w.bodies[id]? = some w.bodies[id] := List.getElem?_eq_getElem hid
  cases hl : lookup w.dir f with
  | none => rw [step_append_none hl]; simp
  | some id0 =>
    rw [step_append_some hl]
    simp only [modifyBody_get, hb, Option.map_some, Option.getD_some]
    by_cases hi : id = id0
    · subst hi; simp [batchesOf_append]
    · have : ¬ id0 = id := fun h => hi h.symm
      simp [hi, this]

structure OInv (t : List Ev) : Prop where
  sorted : (createdLogs (World.run t).dirOps).Pairwise (· < ·)
  known : ∀ l, appendedTo t l ≠ [] → l ∈ createdLogs (World.run t).dirOps
  bodies : ∀ l id, DirOp.create (.log l) id ∈ (World.run t).dirOps → bodyBatches (World.run t) id = appendedTo t l
  order : appended t = (createdLogs (World.run t).dirOps).flatMap (appendedTo t)

theorem flatMap_congr' {α β : Type} {f g : α → List β} : ∀ {l : List α}, (∀ a ∈ l, f a = g a) → l.flatMap f = l.flatMap g := by
  intro l
  induction l with
  | nil => intro _; rfl
  | cons a l ih =>
    intro h
    rw [List.flatMap_cons, List.flatMap_cons, h a (by simp), ih (fun b hb => h b (List.mem_cons_of_mem _ hb))]

theorem OInv.nil : OInv [] := by
  constructor
  · simp [World.run, World.empty, createdLogs]
  · intro l h; simp [appendedTo] at h
  · intro l id h; simp [World.run, World.empty] at h
  · simp [appended, World.run, World.empty, createdLogs]

theorem OInv.snoc {t : List Ev} {e : Ev} (hI : Inv t) (hO : OInv t) (hc : Conforms (t ++ [e])) : OInv (t ++ [e]) := by
  obtain ⟨_, pre, _⟩ := conforms_snoc hc
  have hw : WInv (World.run t) := WInv.run t
  have hops := hI.ops
  -- a batch append goes to a created log, which is the last one created
  have batch_facts : ∀ n b, e = .append (.log n) (.batch b) →
      ∃ C1, createdLogs (World.run t).dirOps = C1 ++ [n] ∧ ∀ c ∈ C1, c < n := by
    intro n b he
    subst he
    obtain ⟨_, hsome, hmax⟩ := pre_append_batch pre
    cases hb : bodyOf (World.run t) (.log n) with
    | none => rw [hb] at hsome; cases hsome
    | some body =>
      obtain ⟨id0, hl, _⟩ := bodyOf_some hw hb
      have hmem := mem_createdLogs (creator_ne hops (by simp) hl)
      obtain ⟨C1, C2, hC⟩ := List.append_of_mem hmem
      have hs := hO.sorted
      rw [hC, List.pairwise_append, List.pairwise_cons] at hs
      have hC2 : C2 = [] := by
        rw [List.eq_nil_iff_forall_not_mem]
        intro c hcm
        have h1 := hs.2.1.1 c hcm
        have h2 := hmax c (by rw [hC]; simp [hcm])
        omega
      subst hC2
      exact ⟨C1, hC, fun c hcm => hs.2.2 c hcm n (by simp)⟩
  have newlog_facts : ∀ n, e = .create (.log n) → appendedTo t n = [] ∧ ∀ c ∈ createdLogs (World.run t).dirOps, c < n := by
    intro n he
    subst he
    have hlt := pre_create_log pre
    refine ⟨?_, hlt⟩
    cases ha : appendedTo t n with
    | nil => rfl
    | cons x xs =>
      have := hlt n (hO.known n (by rw [ha]; simp))
      omega
  constructor
  · -- sorted
    rw [run_snoc, createdLogs_step]
    rcases ev_class e with ⟨n, b, he⟩ | ⟨n, he⟩ | ⟨_, _, h3⟩
    · subst he; simpa [newLog] using hO.sorted
    · obtain ⟨_, hlt⟩ := newlog_facts n he
      subst he
      simp only [newLog, List.pairwise_append]
      exact ⟨hO.sorted, by simp, fun a ha b hb => by simp at hb; subst hb; exact hlt a ha⟩
    · rw [h3, List.append_nil]; exact hO.sorted
  · -- known
    rw [run_snoc, createdLogs_step]
    intro l hl
    rw [appendedTo_snoc] at hl
    rcases ev_class e with ⟨n, b, he⟩ | ⟨n, he⟩ | ⟨_, h2, _⟩
    · obtain ⟨C1, hC, _⟩ := batch_facts n b he
      subst he
      by_cases hln : n = l
      · subst hln; rw [hC]; simp
      · have : appendedTo [Ev.append (.log n) (.batch b)] l = [] := by simp [appendedTo, hln]
        rw [this, List.append_nil] at hl
        exact List.mem_append.2 (Or.inl (hO.known l hl))
    · subst he
      have : appendedTo [Ev.create (.log n)] l = [] := rfl
      rw [this, List.append_nil] at hl
      exact List.mem_append.2 (Or.inl (hO.known l hl))
    · rw [h2 l, List.append_nil] at hl
      exact List.mem_append.2 (Or.inl (hO.known l hl))
  · -- bodies
    rw [run_snoc]
    intro l id hmem
    rw [step_dirOps, List.mem_append] at hmem
    rw [appendedTo_snoc]
    rcases hmem with hmem | hmem
    · have hid := hw.create_lt _ _ hmem
      have hold := hO.bodies l id hmem
      by_cases happ : ∃ f r, e = .append f r
      · obtain ⟨f, r, he⟩ := happ
        subst he
        rw [bodyBatches_step_append hid]
        have hfc : f ≠ .current := pre_append_ne_current pre
        by_cases hlk : lookup (World.run t).dir f = some id
        · have hl' : lookup (dirAt (World.run t) (World.run t).dirOps.length) f = some id := by
            rw [dirAt_len hw]; exact hlk
          have hf : f = .log l := hw.create_inj _ _ _ (creator_ne hops hfc hl') hmem
          subst hf
          rw [if_pos hlk, hold]
          congr 1
          cases r <;> simp [batchesOf, appendedTo]
        · rw [if_neg hlk, hold]
          have : appendedTo [Ev.append f r] l = [] := by
            rcases ev_class (.append f r) with ⟨n, b, he⟩ | ⟨n, he⟩ | ⟨_, h2, _⟩
            · injection he with hf hr
              subst hf; subst hr
              by_cases hnl : n = l
              · subst hnl
                exfalso
                obtain ⟨_, hsome, _⟩ := pre_append_batch pre
                cases hb : bodyOf (World.run t) (.log n) with
                | none => rw [hb] at hsome; cases hsome
                | some body =>
                  obtain ⟨id0, hl0, _⟩ := bodyOf_some hw hb
                  have := create_unique hI.names (creator_ne hops (by simp) hl0) hmem
                  subst this
                  rw [dirAt_len hw] at hl0
                  exact hlk hl0
              · simp [appendedTo, hnl]
            · cases he
            · exact h2 l
          rw [this, List.append_nil]
      · have hna : ∀ f r, e ≠ .append f r := fun f r he => happ ⟨f, r, he⟩
        rw [bodyBatches_step_other hna hid, hold]
        have : appendedTo [e] l = [] := by
          rcases ev_class e with ⟨n, b, he⟩ | ⟨n, he⟩ | ⟨_, h2, _⟩
          · exact absurd he (hna _ _)
          · subst he; rfl
          · exact h2 l
        rw [this, List.append_nil]
    · cases hop : evOp (World.run t) e with
      | none => simp [hop] at hmem
      | some op =>
        simp only [hop, Option.toList_some, List.mem_singleton] at hmem
        subst hmem
        cases e <;> simp [evOp] at hop
        rename_i f
        obtain ⟨hf, hid⟩ := hop
        subst hf; subst hid
        obtain ⟨hnil, _⟩ := newlog_facts l rfl
        rw [hnil]
        have : appendedTo [Ev.create (.log l)] l = [] := rfl
        rw [this]
        show bodyBatches { (World.run t) with dir := _, bodies := (World.run t).bodies ++ [{ recs := [], synced := 0 }], dirOps := _ } _ = _
        simp [bodyBatches, batchesOf]
  · -- order
    rw [run_snoc, createdLogs_step, appended_snoc]
    rcases ev_class e with ⟨n, b, he⟩ | ⟨n, he⟩ | ⟨h1, h2, h3⟩
    · obtain ⟨C1, hC, hlt⟩ := batch_facts n b he
      subst he
      have hnew : newLog (Ev.append (.log n) (.batch b)) = [] := rfl
      rw [hnew, List.append_nil, hC, List.flatMap_append, List.flatMap_singleton, hO.order, hC,
        List.flatMap_append, List.flatMap_singleton, appendedTo_snoc]
      have h1 : appended [Ev.append (.log n) (.batch b)] = [b] := rfl
      have h2 : appendedTo [Ev.append (.log n) (.batch b)] n = [b] := by simp [appendedTo]
      rw [h1, h2, List.append_assoc]
      congr 1
      apply flatMap_congr'
      intro c hcm
      rw [appendedTo_snoc]
      have : ¬ n = c := by have := hlt c hcm; omega
      simp [appendedTo, this]
    · obtain ⟨hnil, _⟩ := newlog_facts n he
      subst he
      have h1 : appended [Ev.create (.log n)] = [] := rfl
      rw [h1, List.append_nil, hO.order]
      simp only [newLog, List.flatMap_append, List.flatMap_singleton]
      rw [appendedTo_snoc, hnil]
      have : appendedTo [Ev.create (.log n)] n = [] := rfl
      rw [this, List.append_nil, List.append_nil]
      apply flatMap_congr'
      intro c _
      rw [appendedTo_snoc]
      have : appendedTo [Ev.create (.log n)] c = [] := rfl
      rw [this, List.append_nil]
    · rw [h1, h3, List.append_nil, List.append_nil, hO.order]
      apply flatMap_congr'
      intro c _
      rw [appendedTo_snoc, h2 c, List.append_nil]

theorem OInv.of_conforms : ∀ (t : List Ev), Conforms t → OInv t := by
  intro t
  induction t using snoc_induction with
  | nil => intro _; exact OInv.nil
  | snoc t e ih =>
    intro h
    have h0 := (conforms_snoc h).1
    exact OInv.snoc (Inv.of_conforms _ h0) (ih h0) h


/-! ### what recovery replays: per log a prefix of what was appended, logs in increasing order -/

theorem nodup_filterMap_of_key {α β γ : Type} (f : α → Option β) (k : α → γ)
    (hinj : ∀ a b c, f a = some c → f b = some c → k a = k b) :
    ∀ (l : List α), (l.map k).Nodup → (l.filterMap f).Nodup := by
  intro l
  induction l with
  | nil => intro _; simp
  | cons a l ih =>
    intro h
    simp only [List.map_cons, List.nodup_cons] at h
    rw [List.filterMap_cons]
    cases hf : f a with
    | none => exact ih h.2
    | some c =>
      simp only [List.nodup_cons]
      refine ⟨?_, ih h.2⟩
      intro hc
      rw [List.mem_filterMap] at hc
      obtain ⟨b, hb, hfb⟩ := hc
      apply h.1
      rw [hinj a b c hf hfb]
      exact List.mem_map.2 ⟨b, hb, rfl⟩

theorem logNumbers_key (q : FName × List Rec) (c : Nat)
    (h : (match q with | (.log n, _) => some n | _ => none : Option Nat) = some c) : q.1 = .log c := by
  obtain ⟨f, r⟩ := q
  cases f <;> simp at h
  rw [h]

theorem logNumbers_nodup {img : Image} (h : (img.map (·.1)).Nodup) : (logNumbers img).Nodup := by
  unfold logNumbers
  apply nodup_filterMap_of_key _ (·.1) _ img h
  intro a b c ha hb
  rw [logNumbers_key a c ha, logNumbers_key b c hb]

theorem mem_logNumbers_iff {img : Image} {s : Nat} (h : s ∈ logNumbers img) : FName.log s ∈ img.map (·.1) := by
  unfold logNumbers at h
  rw [List.mem_filterMap] at h
  obtain ⟨q, hq, hf⟩ := h
  exact List.mem_map.2 ⟨q, hq, logNumbers_key q s hf⟩

theorem sortedLogs_strict {img : Image} (h : (img.map (·.1)).Nodup) (ln : Nat) :
    (((logNumbers img).filter (· ≥ ln)).mergeSort (· ≤ ·)).Pairwise (· < ·) := by
  have h1 := List.pairwise_mergeSort (le := fun (a b : Nat) => decide (a ≤ b))
      (by intro a b c; simp; omega) (by intro a b; simp; omega) ((logNumbers img).filter (· ≥ ln))
  have h2 : (((logNumbers img).filter (· ≥ ln)).mergeSort (· ≤ ·)).Nodup :=
    (List.mergeSort_perm _ _).nodup_iff.2 (List.filter_sublist.nodup (logNumbers_nodup h))
  exact (h1.and h2).imp (by intro a b ⟨hab, hne⟩; simp at hab; omega)

theorem replayed_structure {t : List Ev} (hI : Inv t) (hO : OInv t) {j : Nat} {img : Image}
    (hia : ImgAt (World.run t) j img) (ln : Nat) :
    (((logNumbers img).filter (· ≥ ln)).mergeSort (· ≤ ·)).Pairwise (· < ·) ∧
    ∀ s ∈ ((logNumbers img).filter (· ≥ ln)).mergeSort (· ≤ ·),
      ln ≤ s ∧ s ∈ createdLogs (World.run t).dirOps ∧
      batchesOf ((imgLookup img (.log s)).getD []) <+: appendedTo t s := by
  have hnd : (img.map (·.1)).Nodup := by rw [hia.1]; exact replay_nodup _
  refine ⟨sortedLogs_strict hnd ln, ?_⟩
  intro s hs
  rw [(List.mergeSort_perm _ _).mem_iff, List.mem_filter] at hs
  obtain ⟨hs, hge⟩ := hs
  have hsome := imgLookup_isSome (mem_logNumbers_iff hs)
  cases hr : imgLookup img (.log s) with
  | none => rw [hr] at hsome; cases hsome
  | some recs =>
    obtain ⟨id, b, n', hl, hb, _, hrecs⟩ := img_lookup_back hia hr
    have hc := creator_ne hI.ops (by simp) hl
    refine ⟨by simpa using hge, mem_createdLogs hc, ?_⟩
    rw [← hO.bodies s id hc]
    simp only [Option.getD_some, bodyBatches, hb, Option.map_some, hrecs]
    exact List.IsPrefix.filterMap _ (List.take_prefix _ _)

theorem flatMap_sublist {β : Type} {g g' : Nat → List β} : ∀ (L S : List Nat), L.Pairwise (· < ·) → S.Pairwise (· < ·) →
    (∀ s ∈ S, s ∈ L ∧ (g s).Sublist (g' s)) → (S.flatMap g).Sublist (L.flatMap g') := by
  intro L
  induction L with
  | nil =>
    intro S _ _ h
    cases S with
    | nil => exact List.Sublist.refl _
    | cons s S' => exact absurd (h s (by simp)).1 (by simp)
  | cons a L ih =>
    intro S hL hS h
    cases S with
    | nil => exact List.nil_sublist _
    | cons s S' =>
      rw [List.pairwise_cons] at hL hS
      by_cases hsa : s = a
      · subst hsa
        rw [List.flatMap_cons, List.flatMap_cons]
        apply List.Sublist.append (h s (by simp)).2
        apply ih S' hL.2 hS.2
        intro x hx
        have hx' := h x (List.mem_cons_of_mem _ hx)
        refine ⟨?_, hx'.2⟩
        rcases List.mem_cons.1 hx'.1 with hxa | hxa
        · have := hS.1 x hx; omega
        · exact hxa
      · have hsL : s ∈ L := by
          rcases List.mem_cons.1 (h s (by simp)).1 with h1 | h1
          · exact absurd h1 hsa
          · exact h1
        have has : a < s := hL.1 s hsL
        rw [List.flatMap_cons (x := a)]
        apply List.sublist_append_of_sublist_right
        apply ih (s :: S') hL.2 (List.pairwise_cons.2 hS)
        intro x hx
        have hx' := h x hx
        refine ⟨?_, hx'.2⟩
        rcases List.mem_cons.1 hx'.1 with hxa | hxa
        · rcases List.mem_cons.1 hx with hxs | hxs
          · omega
          · have := hS.1 x hxs; omega
        · exact hxa

/-- in every crash image the replayed batches are a sublist of the appended batches (in append order) -/
theorem replayed_sublist {t : List Ev} (hI : Inv t) (hO : OInv t) {j : Nat} {img : Image}
    (hia : ImgAt (World.run t) j img) (ln : Nat) : (replayedOf img ln).Sublist (appended t) := by
  obtain ⟨h1, h2⟩ := replayed_structure hI hO hia ln
  rw [hO.order]
  unfold replayedOf
  apply flatMap_sublist _ _ hO.sorted h1
  intro s hs
  obtain ⟨_, h3, h4⟩ := h2 s hs
  exact ⟨h3, h4.sublist⟩

theorem recover_replayed {img : Image} {r : Recovered} (h : recover img = some r) :
    r.replayed = replayedOf img r.logNum := by
  unfold recover at h
  split at h
  · split at h
    · simp only at h
      split at h
      · split at h
        · have := Option.some.inj h
          subst this
          rfl
        · cases h
      · cases h
    · cases h
  · cases h

end Lcdb.Disk
