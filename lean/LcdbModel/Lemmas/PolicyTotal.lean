/-
  Totality of setup_other_inputs / pick_compaction / compact_range in the model: with every file's
  smallest ≤ largest (the only thing the loops' termination needs) nothing returns `none` except where the
  C code itself has undefined behaviour (level out of range, empty level on wrap-around).
-/
import LcdbModel.Lemmas.PolicySetup
set_option linter.unusedSimpArgs false
namespace Lcdb.Policy
open Lcdb.CmpBasic Lcdb.Lsm

theorem getRange_some_of_ne {c : Cmp} {fs : List FileMeta} (h : fs ≠ []) : ∃ r, getRange c fs = some r := by
  cases fs with
  | nil => exact absurd rfl h
  | cons f fs => exact ⟨_, rfl⟩

theorem addBoundaryInputs_ne {c : Cmp} {lf inputs r : List FileMeta} (hb : BoundsOk c lf)
    (h : addBoundaryInputs c lf inputs = some r) (hne : inputs ≠ []) : r ≠ [] := by
  obtain ⟨added, hr, _⟩ := addBoundaryInputs_closed c lf inputs r hb h
  intro he; rw [he] at hr
  exact hne (List.append_eq_nil_iff.mp hr.symm).1

theorem setupStage1_total {c : Cmp} {lv lv1 seed : List FileMeta} (hb : BoundsOk c lv) (hb1 : BoundsOk c lv1)
    (hne : seed ≠ []) : ∃ s, setupStage1 c lv lv1 seed = some s ∧ s.in0 ≠ [] := by
  obtain ⟨in0, h0⟩ := addBoundaryInputs_total c lv seed hb
  have hne0 := addBoundaryInputs_ne hb h0 hne
  obtain ⟨r, hr⟩ := getRange_some_of_ne (c := c) hne0
  obtain ⟨in1a, h1a⟩ := goi_total c false lv1 (some r.1) (some r.2)
  obtain ⟨in1, h1⟩ := addBoundaryInputs_total c lv1 in1a hb1
  obtain ⟨all, hall⟩ := getRange_some_of_ne (c := c) (fs := in0 ++ in1) (by simp [hne0])
  refine ⟨{ in0 := in0, in1 := in1, largest := r.2, allStart := all.1, allLimit := all.2 }, ?_, hne0⟩
  simp only [setupStage1, Option.bind_eq_bind, h0, Option.bind_some, hr, h1a, h1, getRange2, hall, Option.pure_def]

theorem setupStage2_total {c : Cmp} {mfs : Nat} {level0 : Bool} {lv lv1 : List FileMeta} {s : Stage}
    (hb : BoundsOk c lv) (hb1 : BoundsOk c lv1) : ∃ s', setupStage2 c mfs level0 lv lv1 s = some s' := by
  unfold setupStage2
  split
  · obtain ⟨e0a, he0a⟩ := goi_total c level0 lv (some s.allStart) (some s.allLimit)
    obtain ⟨e0, he0⟩ := addBoundaryInputs_total c lv e0a hb
    simp only [Option.bind_eq_bind, he0a, Option.bind_some, he0]
    split
    · rename_i hc
      have hne : e0 ≠ [] := by intro he; rw [he] at hc; simp at hc
      obtain ⟨nr, hnr⟩ := getRange_some_of_ne (c := c) hne
      obtain ⟨e1a, he1a⟩ := goi_total c false lv1 (some nr.1) (some nr.2)
      obtain ⟨e1, he1⟩ := addBoundaryInputs_total c lv1 e1a hb1
      simp only [hnr, Option.bind_some, he1a, he1]
      split
      · obtain ⟨all, hall⟩ := getRange_some_of_ne (c := c) (fs := e0 ++ e1) (by simp [hne])
        simp only [getRange2, hall, Option.bind_some, Option.pure_def]
        exact ⟨_, rfl⟩
      · exact ⟨_, rfl⟩
    · exact ⟨_, rfl⟩
  · exact ⟨_, rfl⟩

/-- setup_other_inputs does not fault: no fuel exhaustion, no get_range on an empty vector -/
theorem versionSetup_total (c : Cmp) (mfs : Nat) (v : Version) (level : Nat) (seed : List FileMeta)
    (hlev : level + 1 < numLevels) (hb : BoundsOk c (v.files level)) (hb1 : BoundsOk c (v.files (level + 1)))
    (hne : seed ≠ []) : ∃ s, versionSetup c mfs v level seed = some s := by
  unfold versionSetup setupOtherInputs
  rw [if_pos hlev]
  obtain ⟨s1, h1, _⟩ := setupStage1_total (c := c) hb hb1 hne
  obtain ⟨s2, h2⟩ := setupStage2_total (c := c) (mfs := mfs) (level0 := level == 0) (s := s1) hb hb1
  simp only [Option.bind_eq_bind, h1, Option.bind_some, h2]
  split
  · simp only [Option.bind_some, Option.pure_def]
    exact ⟨_, rfl⟩
  · rename_i l2 _
    obtain ⟨gp, hgp⟩ := goi_total c false l2 (some s2.allStart) (some s2.allLimit)
    simp only [hgp, Option.bind_some, Option.pure_def]
    exact ⟨_, rfl⟩

/-! ### the seeds of pick_compaction / compact_range -/

/-- size / seek compaction on a level ≥ 1: the single picked file -/
theorem seedOk_singleton {c : Cmp} {lv : List FileMeta} {f : FileMeta} (hb : BoundsOk c lv) (hf : f ∈ lv) :
    SeedOk c lv false [f] :=
  ⟨by simp, fun g hg => by rw [List.mem_singleton.mp hg]; exact hf, by simp only [Bool.false_eq_true, if_false]; exact interval_singleton hb hf⟩

/-- level 0 (pick_compaction's re-expansion, compact_range): a non-empty get_overlapping_inputs result -/
theorem seedOk_goi0 {c : Cmp} {lv r : List FileMeta} {b e : Option IKey} (h : goi c true lv b e = some r)
    (hne : r ≠ []) : SeedOk c lv true r :=
  ⟨hne, goi_mem c true lv b e r h, by simp only [if_true]; exact (goi_level0_closed c lv b e r h).1⟩

/-- compact_range on a level ≥ 1 before the size cut: the files hitting the range -/
theorem seedOk_goi_deep {c : Cmp} {lv r : List FileMeta} {b e : Option IKey} (hb : BoundsOk c lv)
    (h : goi c false lv b e = some r) (hne : r ≠ []) : SeedOk c lv false r := by
  refine ⟨hne, goi_mem c false lv b e r h, ?_⟩
  rw [goi_deep] at h
  rw [← Option.some.inj h]
  simp only [Bool.false_eq_true, if_false]; exact interval_filter_rangeHits hb _ _

theorem cutInputs_prefix (limit : Nat) (l : List FileMeta) (total : Nat) :
    ∃ q, l = cutInputs limit l total ++ q := by
  induction l generalizing total with
  | nil => exact ⟨[], rfl⟩
  | cons f fs ih =>
    simp only [cutInputs]
    split
    · exact ⟨fs, rfl⟩
    · obtain ⟨q, hq⟩ := ih (total + f.size)
      exact ⟨q, by rw [List.cons_append, ← hq]⟩

theorem cutInputs_ne (limit : Nat) (l : List FileMeta) (total : Nat) (h : l ≠ []) : cutInputs limit l total ≠ [] := by
  cases l with
  | nil => exact absurd rfl h
  | cons f fs => simp only [cutInputs]; split <;> simp

/-- a prefix (in level order) of an interval of a sorted level is an interval -/
theorem interval_prefix {c : Cmp} {lv p q : List FileMeta} (hs : LevelSorted c lv) (hb : BoundsOk c lv)
    (hsub : (p ++ q).Sublist lv) (hint : Interval c lv (p ++ q)) : Interval c lv p := by
  intro g hg f hf f' hf' h1 h2
  have hgF := hint g hg f (List.mem_append_left _ hf) f' (List.mem_append_left _ hf') h1 h2
  rcases List.mem_append.mp hgF with hgp | hgq
  · exact hgp
  · exfalso
    have hpw : (p ++ q).Pairwise (fun a b => ikLt c a.lk a.lp b.sk b.sp = true) := List.Pairwise.sublist hsub hs
    have h3 : ikl c (largest f') (smallest g) = true := (List.pairwise_append.mp hpw).2.2 f' hf' g hgq
    have h4 : ikl c (largest g) (largest f') = true := ikl_of_lt_of_le h2 (bounds_ikl hb (hsub.subset (List.mem_append_left _ hf')))
    have h5 : ikl c (largest g) (smallest g) = true := ikl_trans h4 h3
    rw [bounds_ikl hb hg] at h5; cases h5

/-- compact_range on a level ≥ 1: the files hitting the range, cut by size -/
theorem seedOk_compactRange_deep {c : Cmp} {lv r : List FileMeta} {b e : Option IKey} (hs : LevelSorted c lv)
    (hb : BoundsOk c lv) (h : goi c false lv b e = some r) (hne : r ≠ []) (limit : Nat) :
    SeedOk c lv false (cutInputs limit r 0) := by
  obtain ⟨q, hq⟩ := cutInputs_prefix limit r 0
  have hso := seedOk_goi_deep hb h hne
  refine ⟨cutInputs_ne limit r 0 hne, fun f hf => hso.sub f (by rw [hq]; exact List.mem_append_left _ hf), ?_⟩
  simp only [Bool.false_eq_true, if_false]
  have hint : Interval c lv r := by have := hso.shape; simpa using this
  rw [hq] at hint
  exact interval_prefix hs hb (hq ▸ goi_sublist c false lv b e r h) hint

end Lcdb.Policy
