/-
  Lookups in a well-formed table file: `tableGet` answers like the reference lookup `refSeek`
  over the entry list, as far as `save_value` can tell (`table_get_spec`, `table_get_visible`).
-/
import LcdbModel.Lemmas.TableCursor
import LcdbModel.Props.FilterProps
namespace Lcdb

/-! ### `find?` through `findIdx?` -/

theorem find?_eq_findIdx?_bind {α : Type} (p : α → Bool) :
    ∀ l : List α, l.find? p = (l.findIdx? p).bind (fun i => l[i]?) := by
  intro l
  induction l with
  | nil => rfl
  | cons a l ih =>
    rw [List.find?_cons, List.findIdx?_cons]
    cases hp : p a with
    | true => simp
    | false =>
      simp only [Bool.false_eq_true, if_false, ih]
      cases l.findIdx? p with
      | none => rfl
      | some i => simp

theorem refSeek_eq (c : Cmp) (es : List (Bytes × Bytes)) (ikey : Bytes) :
    refSeek c es ikey
      = ((es.map (·.1)).findIdx? (fun k => ikeyCmp c k ikey != .lt)).bind (fun i => es[i]?) := by
  unfold refSeek
  rw [find?_eq_findIdx?_bind, List.findIdx?_map]
  rfl

theorem lastKeyOf_mem_of_ne {es : List (Bytes × Bytes)} (h : es ≠ []) :
    ∃ e ∈ es, lastKeyOf es = e.1 := by
  have hpos : 0 < es.length := List.length_pos_iff.mpr h
  refine ⟨es[es.length - 1], List.getElem_mem _, ?_⟩
  unfold lastKeyOf
  rw [List.getLast?_eq_getElem?, List.getElem?_eq_getElem (by omega)]
  rfl

theorem ikeyCmp_le_user {c : Cmp} {a b : Bytes} (h : ikeyCmp c a b ≠ .gt) :
    c.compare (ikeyUser a) (ikeyUser b) ≠ .gt := by
  intro hc
  apply h
  unfold ikeyCmp
  rw [hc]

/-! ### the reference lookup seen from the block the index seek selects -/

section
variable {o : TableOpts} {file : Bytes} {es : List (Bytes × Bytes)} {L : Layout}
  {rd : Bytes → Option DataIter}

theorem get_ref_none (hg : L.Good o file es)
    (hctx : TwoCtx (mkBlockCmp o.cmp true) rd L.index L.blocks) (ikey : Bytes)
    (hfi : ((ixsOf L.blocks).map (·.1)).findIdx? (fun k => ikeyCmp o.cmp k ikey != .lt) = none) :
    refSeek o.cmp es ikey = none := by
  rw [refSeek_eq]
  have := hctx.seek_none ikey hfi
  unfold keysOf at this
  rw [← hg.es_eq] at this
  have h2 : (es.map (·.1)).findIdx? (fun k => ikeyCmp o.cmp k ikey != .lt) = none := this
  rw [h2]; rfl

theorem get_ref_some (hg : L.Good o file es)
    (hctx : TwoCtx (mkBlockCmp o.cmp true) rd L.index L.blocks) (ikey : Bytes) {i : Nat}
    {b : BlkInfo} (hb : L.blocks[i]? = some b)
    (hfi : ((ixsOf L.blocks).map (·.1)).findIdx? (fun k => ikeyCmp o.cmp k ikey != .lt) = some i)
    {j : Nat}
    (hj : (b.entries.map (·.1)).findIdx? (fun k => ikeyCmp o.cmp k ikey != .lt) = some j) :
    ∃ hjl : j < b.entries.length, refSeek o.cmp es ikey = some b.entries[j] := by
  have hjl : j < b.entries.length := by
    have := (List.findIdx?_eq_some_iff_getElem.mp hj).1
    simpa using this
  refine ⟨hjl, ?_⟩
  rw [refSeek_eq]
  have h1 := hctx.seek_some ikey hb hfi
  have hj' : (b.entries.map (·.1)).findIdx?
      (fun k => (mkBlockCmp o.cmp true).cmp k ikey != .lt) = some j := hj
  rw [hj'] at h1
  unfold keysOf at h1
  rw [← hg.es_eq] at h1
  have h2 : (es.map (·.1)).findIdx? (fun k => ikeyCmp o.cmp k ikey != .lt)
      = some (partOff (partsOf L.blocks) i + j) := h1.symm
  rw [h2]
  have h3 := (hctx.keys_getD hb hjl).2
  rw [← hg.es_eq] at h3
  exact h3

theorem get_ref_miss (hg : L.Good o file es)
    (hctx : TwoCtx (mkBlockCmp o.cmp true) rd L.index L.blocks) (ikey : Bytes) {i : Nat}
    {b : BlkInfo} (hb : L.blocks[i]? = some b)
    (hfi : ((ixsOf L.blocks).map (·.1)).findIdx? (fun k => ikeyCmp o.cmp k ikey != .lt) = some i)
    (hj : (b.entries.map (·.1)).findIdx? (fun k => ikeyCmp o.cmp k ikey != .lt) = none) :
    ∀ e, refSeek o.cmp es ikey = some e → ikeyUser e.1 ≠ ikeyUser ikey := by
  intro e he huser
  have hlaws := ordLaws_ikeyCmp o.cmp
  have hbm : b ∈ L.blocks := List.mem_of_getElem? hb
  -- the separator is not below the key
  have hsep : ikeyCmp o.cmp b.sep ikey ≠ .lt := by
    obtain ⟨hil, hpi, _⟩ := List.findIdx?_eq_some_iff_getElem.mp hfi
    have hsepi : ((ixsOf L.blocks).map (·.1))[i] = b.sep := by
      have : ((ixsOf L.blocks).map (·.1))[i]? = some b.sep := by simp [ixsOf, hb]
      exact (List.getElem?_eq_some_iff.mp this).2
    rw [hsepi] at hpi
    simpa using hpi
  -- every key of the block is below the key
  have hbelow : ∀ e' ∈ b.entries, ikeyCmp o.cmp e'.1 ikey = .lt := by
    intro e' he'
    have := List.findIdx?_eq_none_iff.mp hj e'.1 (List.mem_map_of_mem he')
    simpa using this
  rw [refSeek_eq] at he
  have h1 := hctx.seek_some ikey hb hfi
  have hj' : (b.entries.map (·.1)).findIdx?
      (fun k => (mkBlockCmp o.cmp true).cmp k ikey != .lt) = none := hj
  rw [hj'] at h1
  unfold keysOf at h1
  rw [← hg.es_eq] at h1
  have h2 : (es.map (·.1)).findIdx? (fun k => ikeyCmp o.cmp k ikey != .lt)
      = fwdPos (partsOf L.blocks) i none := h1.symm
  rw [h2] at he
  simp only [fwdPos, partsOf_length] at he
  by_cases hi1 : i + 1 < L.blocks.length
  · simp only [hi1, if_true, Option.bind_some] at he
    have hb1 : L.blocks[i + 1]? = some L.blocks[i + 1] := List.getElem?_eq_getElem hi1
    have hbm1 := List.mem_of_getElem? hb1
    have hpos : 0 < L.blocks[i + 1].entries.length :=
      List.length_pos_iff.mpr (hg.nonempty hbm1)
    have h3 := (hctx.keys_getD hb1 hpos).2
    rw [← hg.es_eq, Nat.add_zero, he] at h3
    simp only [Option.some.injEq] at h3
    have hfirst : firstKeyOf L.blocks[i + 1].entries = e.1 := by
      rw [h3]
      unfold firstKeyOf
      rw [List.head?_eq_getElem?, List.getElem?_eq_getElem hpos]
      rfl
    obtain ⟨_, _, hle, hlt, hform⟩ := hg.sepOk_at hb
    rw [hb1] at hform
    simp only [Option.map_some, sepForm] at hform
    rcases hform with heq | ⟨_, _, hu⟩
    · obtain ⟨el, hel, hlast⟩ := lastKeyOf_mem_of_ne (hg.nonempty hbm)
      apply hsep
      rw [heq, hlast]
      exact hbelow el hel
    · rw [hfirst] at hu
      have h4 : o.cmp.compare (ikeyUser ikey) (ikeyUser b.sep) ≠ .gt :=
        ikeyCmp_le_user (hlaws.le_of_not_lt hsep)
      have h5 := (ordLaws_cmp o.cmp).lt_of_le_of_lt h4 hu
      rw [huser] at h5
      exact (ordLaws_cmp o.cmp).lt_irrefl _ h5
  · simp [hi1] at he

end

/-! ### the filter test -/

/-- the filter test never faults, and never rejects a key whose user key occurs in the block -/
theorem filterRejects_spec {o : TableOpts} {file : Bytes} {es : List (Bytes × Bytes)} {L : Layout}
    (hL : tableLayout file = some L) (hg : L.Good o file es) (t : Table) (paranoid : Bool)
    (ho : t.opts = o) (hmeta : readMeta o file paranoid L.footer = .ok t.filter)
    {b : BlkInfo} (hb : b ∈ L.blocks) (ikey : Bytes) :
    ∃ r, filterRejects t b.hv ikey = some r ∧
      (r = true → ∀ e ∈ b.entries, ikeyUser e.1 ≠ ikeyUser ikey) := by
  unfold filterRejects
  rw [ho]
  cases hflt : t.filter with
  | none => exact ⟨false, rfl, fun h => by cases h⟩
  | some fc =>
    cases hpol : o.policy with
    | none => exact ⟨false, rfl, fun h => by cases h⟩
    | some p =>
      obtain ⟨_, _, ⟨r, hr⟩, _, _⟩ := blkInfo_some (tableLayout_blocks hL b hb)
      simp only at hr
      simp only [hr]
      have hp : ∃ bits, p = ifpPolicy (bloomPolicy bits) := by
        unfold TableOpts.policy at hpol
        cases hfb : o.filterBits with
        | none => rw [hfb] at hpol; cases hpol
        | some bits =>
          rw [hfb] at hpol
          simp only [Option.map_some, Option.some.injEq] at hpol
          exact ⟨bits, hpol.symm⟩
      obtain ⟨bits, rfl⟩ := hp
      rw [(filter_no_fault bits fc b.handle.offset ikey).2]
      refine ⟨_, rfl, ?_⟩
      intro hrej e he huser
      have hcov : filterCovers o file L paranoid := by
        cases paranoid
        · exact hg.2.2.2.2.2.2.2.2.2
        · exact hg.2.2.2.2.2.2.2.2.1
      unfold filterCovers at hcov
      rw [hpol, hmeta, hflt] at hcov
      have h1 := hcov b hb e he
      have h2 : filterMatch (ifpPolicy (bloomPolicy bits)) fc b.handle.offset ikey
          = filterMatch (ifpPolicy (bloomPolicy bits)) fc b.handle.offset e.1 :=
        filterMatch_congr _ fc _ e.1 ikey
          (fun f => ifpPolicy_trailer_irrelevant _ f e.1 ikey huser.symm)
      rw [h2, h1] at hrej
      cases hrej

/-! ### D. lookups -/

theorem table_get_spec (o : TableOpts) (file : Bytes) (es : List (Bytes × Bytes))
    (hwf : TableWF o file es) (t : Table) (paranoid verify : Bool)
    (ht : tableOpen o file paranoid = .ok t) (ikey : Bytes) (hk : 8 ≤ ikey.length) :
    ∃ g, tableGet t ikey verify = some g ∧ g.status = .ok ∧
      (∀ e, g.found = some e → refSeek o.cmp es ikey = some e) ∧
      (∀ e, refSeek o.cmp es ikey = some e → ikeyUser e.1 = ikeyUser ikey → g.found = some e) := by
  obtain ⟨L, hL, hg, ho, hf, hi, hmeta, hctx, _, _, _⟩ :=
    table_ctx o file es hwf t paranoid verify ht
  have hcmpB : t.cmpB = mkBlockCmp o.cmp true := by unfold Table.cmpB; rw [ho]
  obtain ⟨ix, hix1, hix2⟩ := hctx.ictx.seek_at hctx.ictx.create ikey hk
  obtain ⟨hixst, hixv, hixobs⟩ := BlockAt.obs hctx.ictx hix2
  unfold tableGet
  rw [hcmpB, hi]
  simp only [hix1, hixst, TStatus.ofB]
  cases hfi : ((ixsOf L.blocks).map (·.1)).findIdx?
      (fun k => (mkBlockCmp o.cmp true).cmp k ikey != .lt) with
  | none =>
    rw [hfi] at hixv
    simp only [hixv, Option.isSome_none, Bool.false_eq_true, if_false]
    have href := get_ref_none hg hctx ikey hfi
    refine ⟨_, rfl, rfl, (fun e he => by cases he), fun e he => ?_⟩
    rw [href] at he; cases he
  | some i =>
    rw [hfi] at hixv
    obtain ⟨hil, _, hval⟩ := hixobs i hfi
    have hib : i < L.blocks.length := by rw [← ixsOf_length]; exact hil
    have hb : L.blocks[i]? = some L.blocks[i] := List.getElem?_eq_getElem hib
    have hbm : L.blocks[i] ∈ L.blocks := List.getElem_mem hib
    have hval' : ix.value = L.blocks[i].hv := by rw [hval]; simp [ixsOf]
    simp only [hixv, Option.isSome_some, if_true, hval']
    obtain ⟨r, hr, hrej⟩ := filterRejects_spec hL hg t paranoid ho hmeta hbm ikey
    rw [hr]
    obtain ⟨d', hd1, hd2⟩ :=
      (hctx.bctx _ hbm).seek_at (hctx.bctx _ hbm).create ikey hk
    obtain ⟨hdst, hdv, hdobs⟩ := BlockAt.obs (hctx.bctx _ hbm) hd2
    cases r with
    | true =>
      refine ⟨_, rfl, rfl, (fun e he => by cases he), fun e he huser => ?_⟩
      exfalso
      cases hj : (L.blocks[i].entries.map (·.1)).findIdx?
          (fun k => ikeyCmp o.cmp k ikey != .lt) with
      | none => exact get_ref_miss hg hctx ikey hb hfi hj e he huser
      | some j =>
        obtain ⟨hjl, href⟩ := get_ref_some hg hctx ikey hb hfi hj
        rw [href] at he
        cases he
        exact hrej rfl _ (List.getElem_mem hjl) huser
    | false =>
      simp only [hctx.read _ hbm, DataIter.lift, hd1, Option.map_some, DataIter.valid,
        DataIter.status, DataIter.key, DataIter.value, hdst, TStatus.ofB, if_true]
      refine ⟨_, rfl, rfl, ?_⟩
      cases hj : (L.blocks[i].entries.map (·.1)).findIdx?
          (fun k => ikeyCmp o.cmp k ikey != .lt) with
      | none =>
        have hj' : (L.blocks[i].entries.map (·.1)).findIdx?
            (fun k => (mkBlockCmp o.cmp true).cmp k ikey != .lt) = none := hj
        rw [hj'] at hdv
        simp only [hdv, Option.isSome_none, Bool.false_eq_true, if_false]
        refine ⟨(fun e he => by cases he), fun e he huser => ?_⟩
        exact absurd huser (get_ref_miss hg hctx ikey hb hfi hj e he)
      | some j =>
        have hj' : (L.blocks[i].entries.map (·.1)).findIdx?
            (fun k => (mkBlockCmp o.cmp true).cmp k ikey != .lt) = some j := hj
        rw [hj'] at hdv
        obtain ⟨hjl, hkey, hvalue⟩ := hdobs j hj'
        obtain ⟨_, href⟩ := get_ref_some hg hctx ikey hb hfi hj
        simp only [hdv, Option.isSome_some, if_true, hkey, hvalue]
        rw [href]
        exact ⟨fun e he => he, fun e he _ => he⟩

theorem table_get_visible (o : TableOpts) (file : Bytes) (es : List (Bytes × Bytes))
    (hwf : TableWF o file es) (t : Table) (paranoid verify : Bool)
    (ht : tableOpen o file paranoid = .ok t) (ikey : Bytes) (hk : 8 ≤ ikey.length) :
    ∃ g, tableGet t ikey verify = some g ∧ g.status = .ok ∧
      g.visible ikey = (refSeek o.cmp es ikey).filter (fun e => ikeyUser e.1 == ikeyUser ikey) := by
  obtain ⟨g, h1, h2, h3, h4⟩ := table_get_spec o file es hwf t paranoid verify ht ikey hk
  refine ⟨g, h1, h2, ?_⟩
  unfold GetResult.visible
  cases hf : g.found with
  | some e =>
    rw [h3 e hf]
  | none =>
    cases hr : refSeek o.cmp es ikey with
    | none => rfl
    | some e =>
      by_cases hu : ikeyUser e.1 = ikeyUser ikey
      · have := h4 e hr hu
        rw [hf] at this; cases this
      · simp [Option.filter, hu]

end Lcdb
