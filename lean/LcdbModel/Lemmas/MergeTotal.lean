/-
  The merging iterator never faults, whatever its children hold (unsorted runs, the same key in
  several children, error children): `current`, when set, always designates a valid child, so the
  `ldb_wrapiter_next/prev(mi->current)` and `key()` uses of merger.c are safe, and the
  re-positioning of the other children only calls `next`/`prev` on children it has just found valid.
-/
import LcdbModel.Lemmas.MergeIter
namespace Lcdb.Merge
open Lcdb Lcdb.Lsm Lcdb.CmpBasic

/-- `mi->current`, when not NULL, is a valid child -/
def CurValid (mi : MergeIter) : Prop :=
  ∀ i, mi.current = some i → ∃ ch e, mi.children[i]? = some ch ∧ ch.entry = some e

theorem curValid_smallest (c : Cmp) (chs : List MChild) (d : Dir) :
    CurValid { children := chs, current := findSmallest c chs, dir := d } := by
  intro i h
  obtain ⟨ch, e, h1, h2, _⟩ := findSmallest_some (c := c) h
  exact ⟨ch, e, h1, h2⟩

theorem curValid_largest (c : Cmp) (chs : List MChild) (d : Dir) :
    CurValid { children := chs, current := findLargest c chs, dir := d } := by
  intro i h
  obtain ⟨ch, e, h1, h2, _⟩ := findLargest_some (c := c) h
  exact ⟨ch, e, h1, h2⟩

theorem child_pos_of_entry {ch : MChild} {e : Entry} (h : ch.entry = some e) :
    ∃ i, ch.pos = some i ∧ i < ch.run.length := by
  unfold MChild.entry runEntry at h
  cases hp : ch.pos with
  | none => rw [hp] at h; cases h
  | some i =>
    rw [hp] at h
    simp only [Option.bind_some] at h
    exact ⟨i, rfl, (List.getElem?_eq_some_iff.mp h).1⟩

theorem child_next_some {ch : MChild} {e : Entry} (h : ch.entry = some e) : ∃ ch', ch.next = some ch' := by
  obtain ⟨i, hp, hi⟩ := child_pos_of_entry h
  simp [MChild.next, runNext, hp, hi]

theorem child_prev_some {ch : MChild} {e : Entry} (h : ch.entry = some e) : ∃ ch', ch.prev = some ch' := by
  obtain ⟨i, hp, hi⟩ := child_pos_of_entry h
  simp [MChild.prev, runPrev, hp, hi]

theorem reposFwd_some (c : Cmp) (E : Entry) (ch : MChild) : ∃ ch', MergeIter.reposFwd c E ch = some ch' := by
  unfold MergeIter.reposFwd
  simp only
  cases he : (MChild.seek c E.ukey E.packed ch).entry with
  | none => exact ⟨_, rfl⟩
  | some e =>
    simp only
    split
    · exact child_next_some he
    · exact ⟨_, rfl⟩

theorem reposRev_some (c : Cmp) (E : Entry) (ch : MChild) : ∃ ch', MergeIter.reposRev c E ch = some ch' :=
  ⟨_, reposRev_eq (c := c) E ch⟩

/-- `mapOthers` with a total `f` succeeds and leaves the current child alone -/
theorem mapOthers_total (f : MChild → Option MChild) (hf : ∀ ch, ∃ ch', f ch = some ch') (cur : Nat)
    (chs : List MChild) :
    ∃ chs1, MergeIter.mapOthers f cur (indexed chs) = some chs1 ∧ chs1[cur]? = chs[cur]? := by
  let g : MChild → MChild := fun ch => (f ch).getD ch
  have hg : ∀ ch, f ch = some (g ch) := by
    intro ch
    obtain ⟨ch', h⟩ := hf ch
    simp [g, h]
  refine ⟨othersMap g cur chs, ?_, othersMap_cur g cur chs⟩
  rw [mapOthers_eq f g cur (indexed chs) (fun p _ _ => hg p.2)]
  rfl

theorem next_total (c : Cmp) (mi : MergeIter) (h : CurValid mi) (hv : mi.valid = true) :
    ∃ mi', mi.next c = some mi' ∧ CurValid mi' := by
  unfold MergeIter.valid at hv
  cases hc : mi.current with
  | none => rw [hc] at hv; cases hv
  | some cur =>
    obtain ⟨ch, e, h1, h2⟩ := h cur hc
    have hent : mi.entry = some e := by
      simp [MergeIter.entry, MergeIter.cur, hc, h1, h2]
    unfold MergeIter.next
    simp only [hc, hent]
    have hchs1 : ∃ chs1, (if mi.dir != .forward then
          MergeIter.mapOthers (MergeIter.reposFwd c e) cur (indexed mi.children) else some mi.children) = some chs1 ∧
        chs1[cur]? = mi.children[cur]? := by
      split
      · exact mapOthers_total _ (reposFwd_some c e) cur mi.children
      · exact ⟨_, rfl, rfl⟩
    obtain ⟨chs1, g1, g2⟩ := hchs1
    rw [g1]
    simp only
    obtain ⟨ch', hn⟩ := child_next_some h2
    have hstep : MergeIter.stepChild MChild.next cur chs1 = some (chs1.set cur ch') := by
      simp [MergeIter.stepChild, g2, h1, hn]
    rw [hstep]
    exact ⟨_, rfl, curValid_smallest c _ _⟩

theorem prev_total (c : Cmp) (mi : MergeIter) (h : CurValid mi) (hv : mi.valid = true) :
    ∃ mi', mi.prev c = some mi' ∧ CurValid mi' := by
  unfold MergeIter.valid at hv
  cases hc : mi.current with
  | none => rw [hc] at hv; cases hv
  | some cur =>
    obtain ⟨ch, e, h1, h2⟩ := h cur hc
    have hent : mi.entry = some e := by
      simp [MergeIter.entry, MergeIter.cur, hc, h1, h2]
    unfold MergeIter.prev
    simp only [hc, hent]
    have hchs1 : ∃ chs1, (if mi.dir != .reverse then
          MergeIter.mapOthers (MergeIter.reposRev c e) cur (indexed mi.children) else some mi.children) = some chs1 ∧
        chs1[cur]? = mi.children[cur]? := by
      split
      · exact mapOthers_total _ (reposRev_some c e) cur mi.children
      · exact ⟨_, rfl, rfl⟩
    obtain ⟨chs1, g1, g2⟩ := hchs1
    rw [g1]
    simp only
    obtain ⟨ch', hn⟩ := child_prev_some h2
    have hstep : MergeIter.stepChild MChild.prev cur chs1 = some (chs1.set cur ch') := by
      simp [MergeIter.stepChild, g2, h1, hn]
    rw [hstep]
    exact ⟨_, rfl, curValid_largest c _ _⟩

/-- every operation of the merging iterator is total and keeps `CurValid`, for ANY children -/
theorem apply_total (c : Cmp) (op : InternalOp) (mi : MergeIter) (h : CurValid mi) :
    ∃ mi', (mergeIterI c).apply op mi = some mi' ∧ CurValid mi' := by
  cases op with
  | first => exact ⟨_, rfl, curValid_smallest c _ _⟩
  | last => exact ⟨_, rfl, curValid_largest c _ _⟩
  | seek k pk => exact ⟨_, rfl, curValid_smallest c _ _⟩
  | next =>
    simp only [InternalIter.apply]
    cases hv : (mergeIterI c).valid mi with
    | false => exact ⟨mi, by simp, h⟩
    | true => simp only [if_true]; exact next_total c mi h hv
  | prev =>
    simp only [InternalIter.apply]
    cases hv : (mergeIterI c).valid mi with
    | false => exact ⟨mi, by simp, h⟩
    | true => simp only [if_true]; exact prev_total c mi h hv

theorem run_total (c : Cmp) (ops : List InternalOp) (mi : MergeIter) (h : CurValid mi) :
    ∃ mi', (mergeIterI c).run ops mi = some mi' ∧ CurValid mi' := by
  induction ops generalizing mi with
  | nil => exact ⟨mi, rfl, h⟩
  | cons op ops ih =>
    obtain ⟨mi1, h1, g1⟩ := apply_total c op mi h
    obtain ⟨mi2, h2, g2⟩ := ih mi1 g1
    exact ⟨mi2, by simp [InternalIter.run, h1, h2], g2⟩

end Lcdb.Merge
