/-
  Comparator facts (core Lean only): for every `c : Cmp`, `c.compare` is a lawful total order
  on byte strings whose `.eq` class is equality.  Derived from lemmas about `bytesCmp`.
-/
import LcdbModel.Model.InternalKey
namespace Lcdb.CmpBasic

theorem bytesCmp_cons (a b : UInt8) (as bs : Bytes) :
    bytesCmp (a :: as) (b :: bs) =
      if a.toNat < b.toNat then .lt else if b.toNat < a.toNat then .gt else bytesCmp as bs := by
  simp only [bytesCmp, UInt8.lt_iff_toNat_lt, gt_iff_lt]

theorem bytesCmp_refl (a : Bytes) : bytesCmp a a = .eq := by
  induction a with
  | nil => rfl
  | cons x xs ih => simp [bytesCmp_cons, ih]

theorem bytesCmp_swap (a b : Bytes) : bytesCmp b a = (bytesCmp a b).swap := by
  induction a generalizing b with
  | nil => cases b <;> rfl
  | cons x xs ih =>
    cases b with
    | nil => rfl
    | cons y ys =>
      simp only [bytesCmp_cons, ih ys]
      split <;> split <;> (try split) <;> simp <;> omega

theorem bytesCmp_eq_iff (a b : Bytes) : bytesCmp a b = .eq ↔ a = b := by
  induction a generalizing b with
  | nil => cases b <;> simp [bytesCmp]
  | cons x xs ih =>
    cases b with
    | nil => simp [bytesCmp]
    | cons y ys =>
      simp only [bytesCmp_cons, List.cons.injEq, ← UInt8.toNat_inj]
      split
      · simp; omega
      · split
        · simp; omega
        · rw [ih]; simp; omega

theorem bytesCmp_lt_trans (a b d : Bytes) (h1 : bytesCmp a b = .lt) (h2 : bytesCmp b d = .lt) :
    bytesCmp a d = .lt := by
  induction a generalizing b d with
  | nil => cases b <;> cases d <;> simp_all [bytesCmp]
  | cons x xs ih =>
    cases b with
    | nil => simp [bytesCmp] at h1
    | cons y ys =>
      cases d with
      | nil => simp [bytesCmp] at h2
      | cons z zs =>
        simp only [bytesCmp_cons] at h1 h2 ⊢
        split at h1
        · split at h2
          · rw [if_pos (by omega)]
          · split at h2
            · simp at h2
            · rw [if_pos (by omega)]
        · split at h1
          · simp at h1
          · split at h2
            · rw [if_pos (by omega)]
            · split at h2
              · simp at h2
              · rw [if_neg (by omega), if_neg (by omega)]
                exact ih _ _ h1 h2

theorem bytesCmp_length_of_eq {a b : Bytes} (h : bytesCmp a b = .eq) : a.length = b.length := by
  rw [(bytesCmp_eq_iff a b).mp h]


theorem compare_refl (c : Cmp) (a : Bytes) : c.compare a a = .eq := by
  cases c <;> simp [Cmp.compare, bytesCmp_refl]

theorem compare_eq_iff (c : Cmp) (a b : Bytes) : c.compare a b = .eq ↔ a = b := by
  cases c
  · exact bytesCmp_eq_iff a b
  · simp only [Cmp.compare]; rw [bytesCmp_eq_iff]; exact eq_comm
  · simp only [Cmp.compare]
    constructor
    · intro h
      split at h
      · simp at h
      · split at h
        · simp at h
        · exact (bytesCmp_eq_iff a b).mp h
    · rintro rfl
      simp [bytesCmp_refl]

theorem compare_swap (c : Cmp) (a b : Bytes) : c.compare b a = (c.compare a b).swap := by
  cases c
  · exact bytesCmp_swap a b
  · exact bytesCmp_swap b a
  · simp only [Cmp.compare, bytesCmp_swap a b]
    split <;> split <;> (try split) <;> simp <;> omega

theorem compare_gt_iff (c : Cmp) (a b : Bytes) : c.compare a b = .gt ↔ c.compare b a = .lt := by
  rw [compare_swap c a b]; cases c.compare a b <;> simp

theorem compare_lt_iff (c : Cmp) (a b : Bytes) : c.compare a b = .lt ↔ c.compare b a = .gt := by
  rw [compare_swap c a b]; cases c.compare a b <;> simp

theorem compare_lt_trans (c : Cmp) {a b d : Bytes} (h1 : c.compare a b = .lt)
    (h2 : c.compare b d = .lt) : c.compare a d = .lt := by
  cases c
  · exact bytesCmp_lt_trans a b d h1 h2
  · exact bytesCmp_lt_trans d b a h2 h1
  · simp only [Cmp.compare] at h1 h2 ⊢
    split at h1
    · split at h2
      · rw [if_pos (by omega)]
      · split at h2
        · simp at h2
        · rw [if_pos (by omega)]
    · split at h1
      · simp at h1
      · split at h2
        · rw [if_pos (by omega)]
        · split at h2
          · simp at h2
          · rw [if_neg (by omega), if_neg (by omega)]
            exact bytesCmp_lt_trans a b d h1 h2

theorem compare_lt_of_lt_of_eq (c : Cmp) {a b d : Bytes} (h1 : c.compare a b = .lt)
    (h2 : c.compare b d = .eq) : c.compare a d = .lt := by
  rw [← (compare_eq_iff c b d).mp h2]; exact h1

theorem compare_lt_of_eq_of_lt (c : Cmp) {a b d : Bytes} (h1 : c.compare a b = .eq)
    (h2 : c.compare b d = .lt) : c.compare a d = .lt := by
  rw [(compare_eq_iff c a b).mp h1]; exact h2

theorem compare_eq_trans (c : Cmp) {a b d : Bytes} (h1 : c.compare a b = .eq)
    (h2 : c.compare b d = .eq) : c.compare a d = .eq := by
  rw [(compare_eq_iff c a b).mp h1]; exact h2

theorem compare_eq_symm (c : Cmp) {a b : Bytes} (h : c.compare a b = .eq) : c.compare b a = .eq := by
  rw [compare_swap c a b, h]; rfl

theorem compare_gt_trans (c : Cmp) {a b d : Bytes} (h1 : c.compare a b = .gt)
    (h2 : c.compare b d = .gt) : c.compare a d = .gt := by
  rw [compare_gt_iff] at *; exact compare_lt_trans c h2 h1

theorem compare_lt_irrefl (c : Cmp) (a : Bytes) : c.compare a a ≠ .lt := by
  rw [compare_refl]; simp

theorem compare_lt_asymm (c : Cmp) {a b : Bytes} (h : c.compare a b = .lt) : c.compare b a ≠ .lt := by
  rw [compare_swap c a b, h]; simp

/-- `≤`-transitivity: `a ≤ b`, `b < d` gives `a < d` -/
theorem compare_lt_of_ne_gt_of_lt (c : Cmp) {a b d : Bytes} (h1 : c.compare a b ≠ .gt)
    (h2 : c.compare b d = .lt) : c.compare a d = .lt := by
  cases h : c.compare a b with
  | lt => exact compare_lt_trans c h h2
  | eq => exact compare_lt_of_eq_of_lt c h h2
  | gt => exact absurd h h1

theorem compare_lt_of_lt_of_ne_gt (c : Cmp) {a b d : Bytes} (h1 : c.compare a b = .lt)
    (h2 : c.compare b d ≠ .gt) : c.compare a d = .lt := by
  cases h : c.compare b d with
  | lt => exact compare_lt_trans c h1 h
  | eq => exact compare_lt_of_lt_of_eq c h1 h
  | gt => exact absurd h h2

end Lcdb.CmpBasic
