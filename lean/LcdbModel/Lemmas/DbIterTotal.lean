/-
  Totality of the db_iter.c machine WITHOUT any assumption on the contents of the run: over an
  internal iterator that simulates a cursor over an arbitrary list of entries `r` (any order, any
  value types — `kind > 1` takes the `ldb_pkey_import` failure path: status corrupt, entry skipped)
  no operation sequence faults: `next`/`prev`/`key` of the internal iterator are only used while it
  is valid, and fuel `r.length + 2` suffices for every loop.
-/
import LcdbModel.Lemmas.DbIterImpl
namespace Lcdb.DbIt
open Lcdb

section Total
variable {σ : Type} {I : InternalIter σ} {c : Cmp} {r : Run} {R : σ → Option Nat → Prop}

/-- safety invariant: the internal position is in range, and a valid forward iterator sits on an entry -/
def SInv (R : σ → Option Nat → Prop) (r : Run) (st : DbIter σ) : Prop :=
  ∃ p', R st.it p' ∧ (∀ q, p' = some q → q < r.length) ∧
    (st.valid = true → st.dir = .forward → ∃ q, p' = some q)

/-- result of the forward loop: direction kept, in range, valid ⇒ on an entry -/
def FOut (R : σ → Option Nat → Prop) (r : Run) (st st' : DbIter σ) : Prop :=
  st'.dir = st.dir ∧ ∃ p', R st'.it p' ∧ (∀ q, p' = some q → q < r.length) ∧
    (st'.valid = true → ∃ q, p' = some q)

theorem fnStep_total (hsim : InternalIter.Sim I (runIter c r) R) {s fuel : Nat} {skipping : Bool}
    {st : DbIter σ} {p : Nat} (hR : R st.it (some p)) (hp : p < r.length)
    (ih : ∀ (skipping : Bool) (st2 : DbIter σ) (p2 : Nat), R st2.it (some p2) → p2 < r.length →
      r.length < fuel + p2 → ∃ st', DbIter.findNextUserEntry I c s fuel skipping st2 = some st' ∧ FOut R r st2 st')
    (hf : r.length < fuel + 1 + p) :
    ∃ st', DbIter.fnStep I (DbIter.findNextUserEntry I c s fuel) skipping st = some st' ∧ FOut R r st st' := by
  obtain ⟨a', hn, hR'⟩ := sim_next hsim hR hp
  unfold DbIter.fnStep
  rw [hn]
  by_cases hp1 : p + 1 < r.length
  · rw [if_pos hp1] at hR'
    simp only [sim_valid_some hsim hR' hp1, if_true]
    exact ih skipping { st with it := a' } (p + 1) hR' hp1 (by omega)
  · rw [if_neg hp1] at hR'
    simp only [sim_valid_none hsim hR', Bool.false_eq_true, if_false]
    exact ⟨_, rfl, rfl, none, hR', fun q hq => (by cases hq), fun h => (by cases h)⟩

theorem findNext_total (hsim : InternalIter.Sim I (runIter c r) R) (s : Nat) :
    ∀ (fuel : Nat) (skipping : Bool) (st : DbIter σ) (p : Nat), R st.it (some p) → p < r.length →
      r.length < fuel + p →
      ∃ st', DbIter.findNextUserEntry I c s fuel skipping st = some st' ∧ FOut R r st st' := by
  intro fuel
  induction fuel with
  | zero => intro _ _ p _ hp hf; omega
  | succ fuel ih =>
    intro skipping st p hR hp hf
    obtain ⟨e, he, _⟩ := get_of_lt hp
    have hent : I.entry st.it = some e := by rw [sim_entry hsim hR, runEntry_some, he]
    unfold DbIter.findNextUserEntry
    simp only [hent]
    by_cases hk : e.kind ≤ 1
    · simp only [DbIter.parseKey, hk, if_true, Bool.true_and]
      by_cases hv : e.seq ≤ s
      · simp only [hv, decide_true, if_true]
        by_cases hk0 : e.kind = 0
        · simp only [hk0, beq_self_eq_true, if_true]
          exact fnStep_total (s := s) (skipping := true) (st := { st with savedKey := e.ukey }) hsim hR hp ih (by omega)
        · have hne : (e.kind == 0) = false := by simp [hk0]
          simp only [hne, Bool.false_eq_true, if_false]
          by_cases hh : (skipping && c.compare e.ukey st.savedKey != .gt) = true
          · simp only [hh, if_true]
            exact fnStep_total hsim hR hp ih (by omega)
          · have hh' : (skipping && c.compare e.ukey st.savedKey != .gt) = false := by
              cases h : (skipping && c.compare e.ukey st.savedKey != .gt) with
              | true => exact absurd h hh
              | false => rfl
            simp only [hh', Bool.false_eq_true, if_false]
            exact ⟨_, rfl, rfl, some p, hR, fun q hq => (by cases hq; exact hp), fun _ => ⟨p, rfl⟩⟩
      · simp only [hv, decide_false, Bool.false_eq_true, if_false]
        exact fnStep_total hsim hR hp ih (by omega)
    · simp only [DbIter.parseKey, hk, if_false, Bool.false_and, Bool.false_eq_true]
      obtain ⟨st', g1, g2, g3⟩ := fnStep_total (s := s) (skipping := skipping) (st := { st with status := .corrupt }) hsim hR hp ih (by omega)
      exact ⟨st', g1, g2, g3⟩

/-- result of the backward loops: direction kept, position in range -/
def BOut (R : σ → Option Nat → Prop) (r : Run) (st st' : DbIter σ) : Prop :=
  st'.dir = st.dir ∧ ∃ p', R st'.it p' ∧ ∀ q, p' = some q → q < r.length

theorem fpStep_total (hsim : InternalIter.Sim I (runIter c r) R) {s fuel : Nat} {vt2 : Nat}
    {st st2 : DbIter σ} {p : Nat} (hR : R st2.it (some p)) (hp : p < r.length) (hd : st2.dir = st.dir)
    (ih : ∀ (vt : Nat) (st3 : DbIter σ) (p3 : Nat), R st3.it (some p3) → p3 < r.length → p3 < fuel →
      ∃ st' vt', DbIter.findPrevLoop I c s fuel vt st3 = some (st', vt') ∧ BOut R r st3 st')
    (hf : p < fuel + 1) :
    ∃ st' vt', (match I.prev st2.it with
        | none => none
        | some it' =>
          if I.valid it' then DbIter.findPrevLoop I c s fuel vt2 { st2 with it := it' }
          else some ({ st2 with it := it' }, vt2)) = some (st', vt') ∧ BOut R r st st' := by
  cases p with
  | zero =>
    obtain ⟨a', hn, hR'⟩ := sim_prev_zero hsim hR hp
    rw [hn]
    simp only [sim_valid_none hsim hR', Bool.false_eq_true, if_false]
    exact ⟨_, _, rfl, hd, none, hR', fun q hq => (by cases hq)⟩
  | succ j =>
    obtain ⟨a', hn, hR'⟩ := sim_prev_succ hsim hR hp
    rw [hn]
    simp only [sim_valid_some hsim hR' (show j < r.length by omega), if_true]
    obtain ⟨st', vt', h1, g1, g2⟩ := ih vt2 { st2 with it := a' } j hR' (by omega) (by omega)
    exact ⟨st', vt', h1, g1.trans hd, g2⟩

theorem findPrevLoop_total (hsim : InternalIter.Sim I (runIter c r) R) (s : Nat) :
    ∀ (fuel : Nat) (vt : Nat) (st : DbIter σ) (p : Nat), R st.it (some p) → p < r.length → p < fuel →
      ∃ st' vt', DbIter.findPrevLoop I c s fuel vt st = some (st', vt') ∧ BOut R r st st' := by
  intro fuel
  induction fuel with
  | zero => intro _ _ p _ _ hf; omega
  | succ fuel ih =>
    intro vt st p hR hp hf
    obtain ⟨e, he, _⟩ := get_of_lt hp
    have hent : I.entry st.it = some e := by rw [sim_entry hsim hR, runEntry_some, he]
    unfold DbIter.findPrevLoop
    simp only [hent]
    by_cases hk : e.kind ≤ 1
    · simp only [DbIter.parseKey, hk, if_true, Bool.true_and]
      by_cases hv : e.seq ≤ s
      · simp only [hv, decide_true, if_true, Bool.true_and]
        by_cases hb : (vt != 0 && c.compare e.ukey st.savedKey == .lt) = true
        · simp only [hb, if_true]
          exact ⟨_, _, rfl, rfl, some p, hR, fun q hq => (by cases hq; exact hp)⟩
        · have hb' : (vt != 0 && c.compare e.ukey st.savedKey == .lt) = false := by
            cases h : (vt != 0 && c.compare e.ukey st.savedKey == .lt) with
            | true => exact absurd h hb
            | false => rfl
          simp only [hb', Bool.false_eq_true, if_false]
          by_cases hk0 : e.kind = 0
          · simp only [hk0, beq_self_eq_true, if_true]
            exact fpStep_total (s := s) (st := st) (st2 := { st with savedKey := [], savedValue := "" }) hsim hR hp rfl ih (by omega)
          · have hne : (e.kind == 0) = false := by simp [hk0]
            simp only [hne, Bool.false_eq_true, if_false]
            exact fpStep_total (s := s) (st := st) (st2 := { st with savedKey := e.ukey, savedValue := e.val }) hsim hR hp rfl ih (by omega)
      · simp only [hv, decide_false, Bool.false_eq_true, if_false, Bool.false_and]
        exact fpStep_total (s := s) (st := st) (st2 := st) hsim hR hp rfl ih (by omega)
    · simp only [DbIter.parseKey, hk, if_false, Bool.false_and, Bool.false_eq_true]
      exact fpStep_total (s := s) (st := st) (st2 := { st with status := .corrupt }) hsim hR hp rfl ih (by omega)

theorem findPrev_total (hsim : InternalIter.Sim I (runIter c r) R) (s : Nat) {fuel : Nat}
    (hfuel : r.length < fuel) {st : DbIter σ} {p' : Option Nat} (hR : R st.it p')
    (hp' : ∀ q, p' = some q → q < r.length) (hdir : st.dir = .reverse) :
    ∃ st', DbIter.findPrevUserEntry I c s fuel st = some st' ∧ SInv R r st' := by
  unfold DbIter.findPrevUserEntry
  cases p' with
  | none =>
    simp only [sim_valid_none hsim hR, Bool.false_eq_true, if_false, beq_self_eq_true, if_true]
    exact ⟨_, rfl, none, hR, fun q hq => (by cases hq), fun h => (by cases h)⟩
  | some p =>
    have hp := hp' p rfl
    simp only [sim_valid_some hsim hR hp, if_true]
    obtain ⟨st1, vt', h1, g1, p1, g2, g3⟩ := findPrevLoop_total hsim s fuel 0 st p hR hp (by omega)
    rw [h1]
    simp only
    split
    · exact ⟨_, rfl, p1, g2, g3, fun h => (by cases h)⟩
    · refine ⟨_, rfl, p1, g2, g3, fun _ hd => ?_⟩
      have : st1.dir = .reverse := g1.trans hdir
      simp only at hd
      rw [this] at hd; cases hd

theorem prevScan_total (hsim : InternalIter.Sim I (runIter c r) R) :
    ∀ (fuel : Nat) (st : DbIter σ) (p : Nat), R st.it (some p) → p < r.length → p < fuel →
      ∃ st' b, DbIter.prevScan I c fuel st = some (st', b) ∧ st'.dir = st.dir ∧
        ∃ p', R st'.it p' ∧ (∀ q, p' = some q → q < r.length) ∧ (b = true → st'.valid = false) := by
  intro fuel
  induction fuel with
  | zero => intro _ p _ _ hf; omega
  | succ fuel ih =>
    intro st p hR hp hf
    unfold DbIter.prevScan
    cases p with
    | zero =>
      obtain ⟨a', hn, hR'⟩ := sim_prev_zero hsim hR hp
      rw [hn]
      simp only [sim_valid_none hsim hR', Bool.not_false, if_true]
      exact ⟨_, _, rfl, rfl, none, hR', fun q hq => (by cases hq), fun _ => rfl⟩
    | succ j =>
      obtain ⟨a', hn, hR'⟩ := sim_prev_succ hsim hR hp
      have hj : j < r.length := by omega
      obtain ⟨e, he, _⟩ := get_of_lt hj
      rw [hn]
      have hent : I.entry a' = some e := by rw [sim_entry hsim hR', runEntry_some, he]
      simp only [sim_valid_some hsim hR' hj, Bool.not_true, Bool.false_eq_true, if_false, hent]
      split
      · exact ⟨_, _, rfl, rfl, some j, hR', fun q hq => (by cases hq; exact hj), fun h => (by cases h)⟩
      · obtain ⟨st', b, h1, h2, h3⟩ := ih { st with it := a' } j hR' hj (by omega)
        exact ⟨st', b, h1, h2, h3⟩

theorem sinv_of_fout {st st' : DbIter σ} (h : FOut R r st st') : SInv R r st' := by
  obtain ⟨_, p', h1, h2, h3⟩ := h
  exact ⟨p', h1, h2, fun hv _ => h3 hv⟩

variable (hsim : InternalIter.Sim I (runIter c r) R) (s : Nat) {fuel : Nat} (hfuel : r.length + 2 ≤ fuel)
include hsim hfuel

theorem first_total (st : DbIter σ) (h : SInv R r st) :
    ∃ st', DbIter.first I c s fuel st = some st' ∧ SInv R r st' := by
  obtain ⟨p0, hR0, _, _⟩ := h
  obtain ⟨a', hf, hR'⟩ := sim_first hsim (a := st.it) hR0
  unfold DbIter.first
  simp only [hf]
  by_cases hn : r = []
  · subst hn
    have hR'' : R a' none := hR'
    simp only [sim_valid_none hsim hR'', Bool.false_eq_true, if_false]
    exact ⟨_, rfl, none, hR'', fun q hq => (by cases hq), fun h => (by cases h)⟩
  · have hpos : 0 < r.length := List.length_pos_iff.mpr hn
    have hR'' : R a' (some 0) := by
      have : runFirst r = some 0 := by simp [runFirst, hn]
      rw [this] at hR'; exact hR'
    simp only [sim_valid_some hsim hR'' hpos, if_true]
    obtain ⟨st', h1, h2⟩ := findNext_total hsim s fuel false
      { st with dir := .forward, savedValue := "", it := a' } 0 hR'' hpos (by omega)
    exact ⟨st', h1, sinv_of_fout h2⟩

theorem seek_total (k : Bytes) (st : DbIter σ) (h : SInv R r st) :
    ∃ st', DbIter.seek I c s fuel k st = some st' ∧ SInv R r st' := by
  obtain ⟨p0, hR0, _, _⟩ := h
  obtain ⟨a', hf, hR'⟩ := sim_seek hsim (a := st.it) hR0 k (seekPacked s)
  unfold DbIter.seek
  simp only [hf]
  cases hlo : runSeekIdx c r k (seekPacked s) with
  | none =>
    rw [hlo] at hR'
    simp only [sim_valid_none hsim hR', Bool.false_eq_true, if_false]
    exact ⟨_, rfl, none, hR', fun q hq => (by cases hq), fun h => (by cases h)⟩
  | some lo =>
    rw [hlo] at hR'
    have hlol : lo < r.length := by
      unfold runSeekIdx at hlo
      exact (List.findIdx?_eq_some_iff_getElem.mp hlo).1
    simp only [sim_valid_some hsim hR' hlol, if_true]
    obtain ⟨st', h1, h2⟩ := findNext_total hsim s fuel false
      { st with dir := .forward, savedValue := "", savedKey := ikeyEnc k s valtypeSeek, it := a' } lo hR' hlol (by omega)
    exact ⟨st', h1, sinv_of_fout h2⟩

theorem last_total (st : DbIter σ) (h : SInv R r st) :
    ∃ st', DbIter.last I c s fuel st = some st' ∧ SInv R r st' := by
  obtain ⟨p0, hR0, _, _⟩ := h
  obtain ⟨a', hf, hR'⟩ := sim_last hsim (a := st.it) hR0
  unfold DbIter.last
  simp only [hf]
  exact findPrev_total (st := { st with dir := .reverse, savedValue := "", it := a' }) hsim s (by omega) hR'
    (fun q hq => by
      unfold runLast at hq
      cases hr : r with
      | nil => rw [hr] at hq; cases hq
      | cons x xs => rw [hr] at hq; simp at hq; rw [← hq]; simp) rfl

theorem next_total (st : DbIter σ) (h : SInv R r st) (hv : st.valid = true) :
    ∃ st', DbIter.next I c s fuel st = some st' ∧ SInv R r st' := by
  obtain ⟨p0, hR0, hr0, hv0⟩ := h
  unfold DbIter.next
  have hdd : st.dir = .forward ∨ st.dir = .reverse := by cases st.dir <;> simp
  rcases hdd with hd | hd
  · obtain ⟨q, rfl⟩ := hv0 hv hd
    have hq := hr0 q rfl
    obtain ⟨e, he, _⟩ := get_of_lt hq
    have hent : I.entry st.it = some e := by rw [sim_entry hsim hR0, runEntry_some, he]
    obtain ⟨a', hn, hR'⟩ := sim_next hsim hR0 hq
    have hne : (st.dir == Dir.reverse) = false := by rw [hd]; rfl
    simp only [hne, Bool.false_eq_true, if_false, hent, hn]
    by_cases hp1 : q + 1 < r.length
    · rw [if_pos hp1] at hR'
      simp only [sim_valid_some hsim hR' hp1, Bool.not_true, Bool.false_eq_true, if_false]
      obtain ⟨st', h1, h2⟩ := findNext_total hsim s fuel true { st with savedKey := e.ukey, it := a' } (q + 1) hR' hp1 (by omega)
      exact ⟨st', h1, sinv_of_fout h2⟩
    · rw [if_neg hp1] at hR'
      simp only [sim_valid_none hsim hR', Bool.not_false, if_true]
      exact ⟨_, rfl, none, hR', fun q hq => (by cases hq), fun h => (by cases h)⟩
  · have hne : (st.dir == Dir.reverse) = true := by rw [hd]; rfl
    simp only [hne, if_true]
    -- position after first / next
    have hstep : ∃ a' p1, (if (!I.valid st.it) = true then I.first st.it else I.next st.it) = some a' ∧ R a' p1 ∧
        ∀ q, p1 = some q → q < r.length := by
      cases p0 with
      | none =>
        simp only [sim_valid_none hsim hR0, Bool.not_false, if_true]
        obtain ⟨a', hf, hR'⟩ := sim_first hsim hR0
        refine ⟨a', _, hf, hR', fun q hq => ?_⟩
        unfold runFirst at hq
        cases hr : r with
        | nil => rw [hr] at hq; cases hq
        | cons x xs => rw [hr] at hq; simp at hq; rw [← hq]; simp
      | some p =>
        have hp := hr0 p rfl
        simp only [sim_valid_some hsim hR0 hp, Bool.not_true, Bool.false_eq_true, if_false]
        obtain ⟨a', hn, hR'⟩ := sim_next hsim hR0 hp
        refine ⟨a', _, hn, hR', fun q hq => ?_⟩
        by_cases hp1 : p + 1 < r.length
        · rw [if_pos hp1] at hq; cases hq; exact hp1
        · rw [if_neg hp1] at hq; cases hq
    obtain ⟨a', p1, h1, hR', hr1⟩ := hstep
    simp only [h1]
    cases p1 with
    | none =>
      simp only [sim_valid_none hsim hR', Bool.not_false, if_true]
      exact ⟨_, rfl, none, hR', fun q hq => (by cases hq), fun h => (by cases h)⟩
    | some q =>
      have hq := hr1 q rfl
      simp only [sim_valid_some hsim hR' hq, Bool.not_true, Bool.false_eq_true, if_false]
      obtain ⟨st', g1, g2⟩ := findNext_total hsim s fuel true { st with dir := .forward, it := a' } q hR' hq (by omega)
      exact ⟨st', g1, sinv_of_fout g2⟩

theorem prev_total (st : DbIter σ) (h : SInv R r st) (hv : st.valid = true) :
    ∃ st', DbIter.prev I c s fuel st = some st' ∧ SInv R r st' := by
  obtain ⟨p0, hR0, hr0, hv0⟩ := h
  unfold DbIter.prev
  have hdd : st.dir = .forward ∨ st.dir = .reverse := by cases st.dir <;> simp
  rcases hdd with hd | hd
  · obtain ⟨q, rfl⟩ := hv0 hv hd
    have hq := hr0 q rfl
    obtain ⟨e, he, _⟩ := get_of_lt hq
    have hent : I.entry st.it = some e := by rw [sim_entry hsim hR0, runEntry_some, he]
    have hne : (st.dir == Dir.forward) = true := by rw [hd]; rfl
    simp only [hne, if_true, hent]
    obtain ⟨st1, b, h1, hd1, p1, hR1, hr1, hb⟩ := prevScan_total hsim fuel { st with savedKey := e.ukey } q hR0 hq (by omega)
    rw [h1]
    cases b with
    | true =>
      simp only
      exact ⟨st1, rfl, p1, hR1, hr1, fun h => (by rw [hb rfl] at h; cases h)⟩
    | false =>
      simp only
      exact findPrev_total (st := { st1 with dir := .reverse }) hsim s (by omega) hR1 hr1 rfl
  · have hne : (st.dir == Dir.forward) = false := by rw [hd]; rfl
    simp only [hne, Bool.false_eq_true, if_false]
    exact findPrev_total hsim s (by omega) hR0 hr0 hd

/-- every public operation (incl. the four seek helpers) is total and keeps the safety invariant -/
theorem apply_total (op : IterOp) (st : DbIter σ) (h : SInv R r st) :
    ∃ st', DbIter.apply I c s fuel op st = some st' ∧ SInv R r st' := by
  unfold DbIter.apply
  cases op with
  | first => exact first_total hsim s hfuel st h
  | last => exact last_total hsim s hfuel st h
  | seek k => exact seek_total hsim s hfuel k st h
  | seekGe k => exact seek_total hsim s hfuel k st h
  | next =>
    simp only [DbIter.toBlockOp, IterOps.apply]
    cases hv : (DbIter.ops I c s fuel).valid st with
    | false => exact ⟨st, by simp, h⟩
    | true => simp only [if_true]; exact next_total hsim s hfuel st h hv
  | prev =>
    simp only [DbIter.toBlockOp, IterOps.apply]
    cases hv : (DbIter.ops I c s fuel).valid st with
    | false => exact ⟨st, by simp, h⟩
    | true => simp only [if_true]; exact prev_total hsim s hfuel st h hv
  | seekGt k =>
    obtain ⟨st1, h1, g1⟩ := seek_total hsim s hfuel k st h
    simp only [DbIter.toBlockOp, IterOps.apply, IterOps.seekGT]
    rw [show (DbIter.ops I c s fuel).seek k st = DbIter.seek I c s fuel k st from rfl, h1]
    simp only
    cases hv : (DbIter.ops I c s fuel).valid st1 with
    | false => exact ⟨st1, by simp, g1⟩
    | true =>
      simp only [if_true]
      show ∃ st', (match some (c.compare ((DbIter.ops I c s fuel).key st1) k) with
        | none => none
        | some .eq => (DbIter.ops I c s fuel).next st1
        | some _ => some st1) = some st' ∧ _
      cases c.compare ((DbIter.ops I c s fuel).key st1) k with
      | eq => exact next_total hsim s hfuel st1 g1 hv
      | lt => exact ⟨st1, rfl, g1⟩
      | gt => exact ⟨st1, rfl, g1⟩
  | seekLe k =>
    obtain ⟨st1, h1, g1⟩ := seek_total hsim s hfuel k st h
    simp only [DbIter.toBlockOp, IterOps.apply, IterOps.seekLE]
    rw [show (DbIter.ops I c s fuel).seek k st = DbIter.seek I c s fuel k st from rfl, h1]
    simp only
    cases hv : (DbIter.ops I c s fuel).valid st1 with
    | false => exact last_total hsim s hfuel st1 g1
    | true =>
      simp only [if_true]
      show ∃ st', (match some (c.compare ((DbIter.ops I c s fuel).key st1) k) with
        | none => none
        | some .gt => (DbIter.ops I c s fuel).prev st1
        | some _ => some st1) = some st' ∧ _
      cases c.compare ((DbIter.ops I c s fuel).key st1) k with
      | gt => exact prev_total hsim s hfuel st1 g1 hv
      | lt => exact ⟨st1, rfl, g1⟩
      | eq => exact ⟨st1, rfl, g1⟩
  | seekLt k =>
    obtain ⟨st1, h1, g1⟩ := seek_total hsim s hfuel k st h
    simp only [DbIter.toBlockOp, IterOps.apply, IterOps.seekLT]
    rw [show (DbIter.ops I c s fuel).seek k st = DbIter.seek I c s fuel k st from rfl, h1]
    simp only
    cases hv : (DbIter.ops I c s fuel).valid st1 with
    | false => exact last_total hsim s hfuel st1 g1
    | true => exact prev_total hsim s hfuel st1 g1 hv

theorem run_total (ops : List IterOp) (st : DbIter σ) (h : SInv R r st) :
    ∃ st', DbIter.run I c s fuel ops st = some st' ∧ SInv R r st' := by
  induction ops generalizing st with
  | nil => exact ⟨st, rfl, h⟩
  | cons op ops ih =>
    obtain ⟨st1, h1, g1⟩ := apply_total hsim s hfuel op st h
    obtain ⟨st2, h2, g2⟩ := ih st1 g1
    exact ⟨st2, by simp [DbIter.run, h1, h2], g2⟩

end Total
end Lcdb.DbIt
