/-
  Lemmas for `Props/CompactionCapstone.lean`: cutting a sorted run into files, inserting files that lie
  apart from every file of a sorted level, and the gap the removed level-(N+1) inputs leave.
-/
import LcdbModel.Props.CompactionProps
import LcdbModel.Props.PolicyProps
namespace Lcdb
namespace Compaction

/-- `outs` is the run `o` cut into non-empty files whose bounds are their first / last entries -/
def IsCut (o : Run) (outs : List FileMeta) : Prop :=
  outs.flatMap (·.run) = o ∧
  ∀ f ∈ outs, f.run ≠ [] ∧ (∀ e ∈ f.run.head?, e.ukey = f.sk ∧ e.packed = f.sp) ∧
    (∀ e ∈ f.run.getLast?, e.ukey = f.lk ∧ e.packed = f.lp)

instance (o : Run) (outs : List FileMeta) : Decidable (IsCut o outs) := by unfold IsCut; infer_instance

/-- `f` lies entirely before or entirely after `g` in internal-key order -/
def Apart (c : Cmp) (f g : FileMeta) : Prop :=
  ikLt c g.lk g.lp f.sk f.sp = true ∨ ikLt c f.lk f.lp g.sk g.sp = true

theorem cut_spec {c : Cmp} {o : Run} {outs : List FileMeta} (hs : RunSorted c o) (hc : IsCut o outs) :
    (∀ f ∈ outs, FileOk c f) ∧ outs.Pairwise (fun f g => ikLt c f.lk f.lp g.sk g.sp = true) := by
  obtain ⟨hflat, hfiles⟩ := hc
  rw [← hflat] at hs
  obtain ⟨h1, h2⟩ := List.pairwise_flatMap.mp hs
  refine ⟨fun f hf => ⟨h1 f hf, (hfiles f hf).1, (hfiles f hf).2.1, (hfiles f hf).2.2⟩, ?_⟩
  apply List.Pairwise.imp_of_mem _ h2
  intro f g hf hg hfg
  obtain ⟨l, hl, hlk, hlp⟩ := Lsm.fileOk_largest_mem
    (⟨h1 f hf, (hfiles f hf).1, (hfiles f hf).2.1, (hfiles f hf).2.2⟩ : FileOk c f)
  obtain ⟨m, hm, hmk, hmp⟩ := Lsm.fileOk_smallest_mem
    (⟨h1 g hg, (hfiles g hg).1, (hfiles g hg).2.1, (hfiles g hg).2.2⟩ : FileOk c g)
  have := hfg l hl m hm
  rw [← hlk, ← hlp, ← hmk, ← hmp]
  exact this

/-- inserting a file that lies apart from every file of a sorted level keeps the level sorted -/
theorem insertSorted_apart {c : Cmp} {f : FileMeta} {l : List FileMeta}
    (hs : LevelSorted c l) (hf : ikLt c f.lk f.lp f.sk f.sp = false)
    (hl : ∀ g ∈ l, ikLt c g.lk g.lp g.sk g.sp = false)
    (hap : ∀ g ∈ l, Apart c f g) : LevelSorted c (insertSorted c f l) := by
  induction l with
  | nil => simp [insertSorted, LevelSorted]
  | cons g gs ih =>
    unfold LevelSorted at hs
    rw [List.pairwise_cons] at hs
    unfold insertSorted
    split
    · rename_i hlt
      unfold LevelSorted
      rw [List.pairwise_cons, List.pairwise_cons]
      refine ⟨?_, hs⟩
      intro h hh
      rcases hap h hh with h1 | h1
      · exfalso
        -- h.smallest ≤ h.largest < f.smallest < g.smallest ≤ h.smallest
        have a1 : ikLt c h.sk h.sp f.sk f.sp = true := Lsm.ikLt_of_not_lt_of_lt c (hl h hh) h1
        have a2 : ikLt c h.sk h.sp g.sk g.sp = true := ikLt_trans a1 hlt
        rcases List.mem_cons.mp hh with rfl | hh'
        · rw [Lsm.ikLt_irrefl] at a2; cases a2
        · have a3 : ikLt c g.sk g.sp h.sk h.sp = true :=
            Lsm.ikLt_of_not_lt_of_lt c (hl g (by simp)) (hs.1 h hh')
          exact ikLt_asymm a2 a3
      · exact h1
    · rename_i hnlt
      unfold LevelSorted
      rw [List.pairwise_cons]
      refine ⟨?_, ih hs.2 (fun g' hg' => hl g' (List.mem_cons_of_mem _ hg'))
        (fun g' hg' => hap g' (List.mem_cons_of_mem _ hg'))⟩
      intro h hh
      rcases mem_insertSorted.mp hh with rfl | hh'
      · rcases hap g (by simp) with h1 | h1
        · exact h1
        · exfalso
          exact hnlt (Lsm.ikLt_of_not_lt_of_lt c hf h1)
      · exact hs.1 h hh'

theorem foldl_insertSorted_apart {c : Cmp} (outs acc : List FileMeta) (hs : LevelSorted c acc)
    (hbacc : ∀ g ∈ acc, ikLt c g.lk g.lp g.sk g.sp = false)
    (hbouts : ∀ f ∈ outs, ikLt c f.lk f.lp f.sk f.sp = false)
    (hpo : outs.Pairwise (fun f g => ikLt c f.lk f.lp g.sk g.sp = true))
    (hap : ∀ f ∈ outs, ∀ g ∈ acc, Apart c f g) :
    LevelSorted c (outs.foldl (fun acc f => insertSorted c f acc) acc) := by
  induction outs generalizing acc with
  | nil => exact hs
  | cons f fs ih =>
    simp only [List.foldl_cons]
    have hpo' := List.pairwise_cons.mp hpo
    apply ih
    · exact insertSorted_apart hs (hbouts f (by simp)) hbacc (hap f (by simp))
    · intro g hg
      rcases mem_insertSorted.mp hg with rfl | hg
      · exact hbouts g (by simp)
      · exact hbacc g hg
    · exact fun f' hf' => hbouts f' (List.mem_cons_of_mem _ hf')
    · exact hpo'.2
    · intro f' hf' g hg
      rcases mem_insertSorted.mp hg with rfl | hg
      · exact .inl (hpo'.1 f' hf')
      · exact hap f' (List.mem_cons_of_mem _ hf') g hg

/-- the outputs fit: strictly ordered well-formed files, each apart from every remaining file of the level,
    merge into a sorted level -/
theorem addFiles_levelSorted {c : Cmp} (lvl : Nat) (rem outs : List FileMeta) (hs : LevelSorted c rem)
    (hrem : ∀ g ∈ rem, FileOk c g) (houts : ∀ f ∈ outs, FileOk c f)
    (hpo : outs.Pairwise (fun f g => ikLt c f.lk f.lp g.sk g.sp = true))
    (hap : ∀ f ∈ outs, ∀ g ∈ rem, Apart c f g) : LevelSorted c (addFiles c lvl rem outs) :=
  foldl_insertSorted_apart outs rem hs (fun g hg => Policy.fileOk_boundsOk (hrem g hg))
    (fun f hf => Policy.fileOk_boundsOk (houts f hf)) hpo hap

open Lcdb.Policy in
/-- the gap: a level-(N+1) file that setup_other_inputs did not take lies before every input entry or after
    every input entry (it misses the user-key range of `in0`; `in1` is an interval of the level that contains
    every file hitting that range) -/
theorem rest_before_or_after {c : Cmp} {level0 : Bool} {lv lv1 seed : List FileMeta} {s : Stage}
    (hs1 : LevelSorted c lv1) (hok : ∀ f ∈ lv, FileOk c f) (hok1 : ∀ f ∈ lv1, FileOk c f)
    (hsub0 : ∀ f ∈ s.in0, f ∈ lv)
    (h : StageOk c level0 lv lv1 seed s) (g : FileMeta) (hg : g ∈ lv1) (hg1 : g ∉ s.in1) :
    (∀ f, (f ∈ s.in0 ∨ f ∈ s.in1) → ∀ e ∈ f.run, ikLt c g.lk g.lp e.ukey e.packed = true) ∨
    (∀ f, (f ∈ s.in0 ∨ f ∈ s.in1) → ∀ e ∈ f.run, ikLt c e.ukey e.packed g.sk g.sp = true) := by
  have hb1 := boundsOk_of_fileOk hok1
  obtain ⟨_, ⟨r, in1a, hr, _, h1a, h1⟩, _⟩ := h
  rw [goi_deep] at h1a
  have h1a' : in1a = lv1.filter (rangeHits c (some r.1.1) (some r.2.1)) := by
    simpa using (Option.some.inj h1a).symm
  have hsub1a : ∀ f ∈ in1a, f ∈ lv1 := fun f hf => by rw [h1a'] at hf; exact (List.mem_filter.mp hf).1
  have hint1a : Interval c lv1 in1a := by rw [h1a']; exact interval_filter_rangeHits hb1 _ _
  obtain ⟨hi1, _, hsub1, hsup1⟩ := addBoundaryInputs_interval hs1 hb1 hsub1a hint1a h1
  have hmiss : rangeHits c (some r.1.1) (some r.2.1) g = false := by
    cases hh : rangeHits c (some r.1.1) (some r.2.1) g with
    | false => rfl
    | true =>
      exfalso
      exact hg1 (hsup1 g (by rw [h1a']; exact List.mem_filter.mpr ⟨hg, hh⟩))
  obtain ⟨hmin, hmax⟩ := getRange_spec hr
  have hne : ∀ f ∈ s.in1, g ≠ f := fun f hf e => hg1 (e ▸ hf)
  have hex : ∀ f ∈ s.in1, ∃ f1, f1 ∈ in1a := by
    intro f hf
    cases hin : in1a with
    | nil =>
      rw [hin] at h1
      simp [addBoundaryInputs, findLargestKey] at h1
      first | rw [h1] at hf | rw [← h1] at hf
      cases hf
    | cons a as => exact ⟨a, by simp⟩
  have hggb : ule c g.sk g.lk := (BoundsOk.user hb1) g hg
  rcases not_rangeHits hmiss with hlo | hhi
  · left
    intro f hf e he
    rcases hf with hf | hf
    · have hu1 : ule c r.1.1 f.sk := ule_of_ikle (hmin.2 f hf)
      have hu2 : c.compare f.sk e.ukey ≠ .gt :=
        user_le_of_not_ikLt (Lsm.fileOk_smallest_le (hok f (hsub0 f hf)) he)
      exact ikLt_of_ult _ _
        (CmpBasic.compare_lt_of_lt_of_ne_gt c (CmpBasic.compare_lt_of_lt_of_ne_gt c hlo hu1) hu2)
    · rcases sorted_cases hs1 hg (hsub1 f hf) (hne f hf) with hgf | hfg
      · have hgf' : ikLt c g.lk g.lp f.sk f.sp = true := hgf
        exact Lsm.ikLt_of_lt_of_not_lt c hgf' (Lsm.fileOk_smallest_le (hok1 f (hsub1 f hf)) he)
      · exfalso
        obtain ⟨f1, hf1⟩ := hex f hf
        have hf1lv := hsub1a f1 hf1
        have hhit : rangeHits c (some r.1.1) (some r.2.1) f1 = true := by
          rw [h1a'] at hf1; exact (List.mem_filter.mp hf1).2
        have hlo1 : ule c r.1.1 f1.lk := ((rangeHits_iff c _ _ f1).mp hhit).1 _ rfl
        rcases sorted_cases hs1 hg hf1lv (hne f1 (hsup1 f1 hf1)) with hgf1 | hf1g
        · exact hg1 (hi1 g hg f hf f1 (hsup1 f1 hf1) hfg hgf1)
        · have a1 : ule c f1.lk g.lk := ule_trans (ule_of_ikl hf1g) hggb
          exact not_lt_of_ule a1 (CmpBasic.compare_lt_of_lt_of_ne_gt c hlo hlo1)
  · right
    intro f hf e he
    rcases hf with hf | hf
    · have hu1 : ule c f.lk r.2.1 := ule_of_ikle (hmax.2 f hf)
      have hu2 : c.compare e.ukey f.lk ≠ .gt :=
        user_le_of_not_ikLt (Lsm.fileOk_le_largest (hok f (hsub0 f hf)) he)
      exact ikLt_of_ult _ _ (CmpBasic.compare_lt_of_ne_gt_of_lt c (ule_trans hu2 hu1) hhi)
    · rcases sorted_cases hs1 hg (hsub1 f hf) (hne f hf) with hgf | hfg
      · exfalso
        obtain ⟨f1, hf1⟩ := hex f hf
        have hf1lv := hsub1a f1 hf1
        have hhit : rangeHits c (some r.1.1) (some r.2.1) f1 = true := by
          rw [h1a'] at hf1; exact (List.mem_filter.mp hf1).2
        have hhi1 : ule c f1.sk r.2.1 := ((rangeHits_iff c _ _ f1).mp hhit).2 _ rfl
        rcases sorted_cases hs1 hg hf1lv (hne f1 (hsup1 f1 hf1)) with hgf1 | hf1g
        · have a1 : ule c g.sk f1.sk := ule_trans hggb (ule_of_ikl hgf1)
          exact not_lt_of_ule a1 (CmpBasic.compare_lt_of_ne_gt_of_lt c hhi1 hhi)
        · exact hg1 (hi1 g hg f1 (hsup1 f1 hf1) f hf hf1g hgf)
      · have hfg' : ikLt c f.lk f.lp g.sk g.sp = true := hfg
        exact Lsm.ikLt_of_not_lt_of_lt c (Lsm.fileOk_le_largest (hok1 f (hsub1 f hf)) he) hfg'

end Compaction
end Lcdb
