/-
  Helper lemmas for Model/Skiplist.lean, part 2: the search loops.
  `searchGo` is the common shape of `find_ge` / `find_lt` / `find_last`; `searchGo_spec` is the one
  induction (fuel bound included), the three loops are instances.
-/
import LcdbModel.Lemmas.Skiplist
namespace Lcdb.Skiplist
variable {α : Type}

def afterOpt (after : Nat → Option Bool) : Option Nat → Option Bool
  | none => some false
  | some n => after n

/-- the common shape of the three search loops: `after n` = "keep searching past node n" -/
def searchGo (sl : SkipList α) (after : Nat → Option Bool) :
    Nat → Nat → Nat → List (Option Nat) → Option (Option Nat × List (Option Nat))
  | 0, _, _, _ => none
  | fuel + 1, x, level, prev =>
    match getNext sl x level with
    | none => none
    | some next =>
      match afterOpt after next with
      | none => none
      | some true =>
        match next with
        | some n => searchGo sl after fuel n level prev
        | none => none
      | some false =>
        if level = 0 then some (next, prev.set level (some x))
        else searchGo sl after fuel x (level - 1) (prev.set level (some x))

/-- `x` is the last node of `0 :: A` whose height exceeds `i` -/
def PrevOk (sl : SkipList α) (A : List Nat) (i x : Nat) : Prop :=
  ∃ A1 A2, 0 :: A = A1 ++ x :: A2 ∧ i < heightOf sl x ∧ ∀ a ∈ A2, heightOf sl a ≤ i

theorem searchGo_spec {cmp : α → α → Ordering} {sl : SkipList α} {L : List Nat} (h : Inv cmp sl L)
    (after : Nat → Option Bool) (A B : List Nat) (hL : L = A ++ B)
    (hA : ∀ a ∈ A, after a = some true) (hB : ∀ b ∈ B, after b = some false) :
    ∀ (fuel x level : Nat) (prev : List (Option Nat)) (A1 A2 : List Nat), 0 :: A = A1 ++ x :: A2 →
      level < heightOf sl x → level < prev.length → A2.length + level < fuel →
      ∃ prev', searchGo sl after fuel x level prev = some (B.head?, prev') ∧ prev'.length = prev.length ∧
        (∀ i, i ≤ level → ∃ p, prev'[i]? = some (some p) ∧ PrevOk sl A i p) ∧
        (∀ i, level < i → prev'[i]? = prev[i]?) := by
  intro fuel
  induction fuel with
  | zero => intro x level prev A1 A2 _ _ _ hf; omega
  | succ fuel ih =>
    intro x level prev A1 A2 hsplit hlvl hprev hfuel
    have hsplitL : 0 :: L = A1 ++ x :: (A2 ++ B) := by
      rw [hL, ← List.cons_append, hsplit]; simp
    have hnext := h.next A1 x (A2 ++ B) hsplitL level hlvl
    have hA2L : ∀ a ∈ A2, a ∈ L := by
      intro a ha
      have : a ∈ 0 :: A := by rw [hsplit]; simp [ha]
      rcases List.mem_cons.mp this with rfl | h'
      · exfalso
        -- 0 occurs once in 0 :: A
        cases A1 with
        | nil => simp at hsplit; exact h.zero_not_mem (by rw [hL, hsplit.2]; simp [ha])
        | cons z t =>
          simp at hsplit
          exact h.zero_not_mem (by rw [hL, hsplit.2]; simp [ha])
      · rw [hL]; simp [h']
    -- the descend step, shared by both ways of reaching it
    have descend : ∀ nx : Option Nat, (level = 0 → nx = B.head?) → (∀ a ∈ A2, heightOf sl a ≤ level) →
        ∃ prev', (if level = 0 then some (nx, prev.set level (some x))
                  else searchGo sl after fuel x (level - 1) (prev.set level (some x))) = some (B.head?, prev') ∧
          prev'.length = prev.length ∧
          (∀ i, i ≤ level → ∃ p, prev'[i]? = some (some p) ∧ PrevOk sl A i p) ∧
          (∀ i, level < i → prev'[i]? = prev[i]?) := by
      intro nx hnx hA2
      by_cases hl0 : level = 0
      · subst hl0
        refine ⟨prev.set 0 (some x), by simp [hnx rfl], by simp, ?_, ?_⟩
        · intro i hi
          have : i = 0 := by omega
          subst this
          exact ⟨x, by simp [List.getElem?_set, hprev], A1, A2, hsplit, hlvl, hA2⟩
        · intro i hi
          rw [List.getElem?_set_ne (by omega)]
      · rw [if_neg hl0]
        obtain ⟨prev', hrun, hlen, hlow, hhigh⟩ := ih x (level - 1) (prev.set level (some x)) A1 A2 hsplit
          (by omega) (by simp; omega) (by omega)
        refine ⟨prev', hrun, by simpa using hlen, ?_, ?_⟩
        · intro i hi
          by_cases hil : i = level
          · subst hil
            refine ⟨x, ?_, A1, A2, hsplit, hlvl, hA2⟩
            rw [hhigh i (by omega)]
            simp [List.getElem?_set, hprev]
          · exact hlow i (by omega)
        · intro i hi
          rw [hhigh i (by omega), List.getElem?_set_ne (by omega)]
    simp only [searchGo, hnext]
    cases hf : (A2 ++ B).find? (fun y => decide (level < heightOf sl y)) with
    | none =>
      simp only [afterOpt]
      have hall : ∀ a ∈ A2 ++ B, ¬ level < heightOf sl a := by
        intro a ha
        have := List.find?_eq_none.mp hf a ha
        simpa using this
      refine descend none ?_ (fun a ha => Nat.le_of_not_lt (hall a (by simp [ha])))
      intro hl0
      subst hl0
      cases B with
      | nil => rfl
      | cons b t =>
        exfalso
        have hb : b ∈ L := by rw [hL]; simp
        have := (h.heights b hb).1
        exact hall b (by simp) (by omega)
    | some y =>
      obtain ⟨s1, s2, hs, hqy, hs1⟩ := find?_eq_some_split hf
      simp only [afterOpt]
      rcases List.append_eq_append_iff.mp hs with ⟨a', ha', hb'⟩ | ⟨c', hc', hd'⟩
      · -- s1 = A2 ++ a', B = a' ++ y :: s2 : y lies in B
        have hyB : y ∈ B := by rw [hb']; simp
        rw [hB y hyB]
        have hA2 : ∀ a ∈ A2, heightOf sl a ≤ level := by
          intro a ha
          have := hs1 a (by rw [ha']; simp [ha])
          simp at this
          exact this
        refine descend (some y) ?_ hA2
        intro hl0
        subst hl0
        -- every node has height ≥ 1: a' = []
        cases a' with
        | nil => simp at hb'; rw [hb']; rfl
        | cons z t =>
          exfalso
          have hz : z ∈ L := by rw [hL, hb']; simp
          have h1 := (h.heights z hz).1
          have := hs1 z (by rw [ha']; simp)
          simp at this
          omega
      · cases c' with
        | nil =>
          -- y is the head of B
          simp at hc' hd'
          have hyB : y ∈ B := by rw [← hd']; simp
          rw [hB y hyB]
          have hA2 : ∀ a ∈ A2, heightOf sl a ≤ level := by
            intro a ha
            have := hs1 a (by rw [← hc']; exact ha)
            simp at this
            exact this
          refine descend (some y) ?_ hA2
          intro _
          rw [← hd']; rfl
        | cons z t =>
          simp at hd'
          obtain ⟨rfl, hd'⟩ := hd'
          -- A2 = s1 ++ y :: t : y lies in A, advance
          have hyA : y ∈ A := by
            have : y ∈ 0 :: A := by rw [hsplit, hc']; simp
            rcases List.mem_cons.mp this with rfl | h'
            · exfalso
              have : (0 : Nat) ∈ L := hA2L 0 (by rw [hc']; simp)
              exact h.zero_not_mem this
            · exact h'
          rw [hA y hyA]
          have hq : level < heightOf sl y := by simpa using hqy
          have := ih y level prev (A1 ++ x :: s1) t (by rw [hsplit, hc']; simp) hq hprev
            (by rw [hc'] at hfuel; simp at hfuel; omega)
          exact this

/-- the three loops are instances of `searchGo` -/
theorem keyIsAfterNode_eq (cmp : α → α → Ordering) (sl : SkipList α) (key : α) (nx : Option Nat) :
    keyIsAfterNode cmp sl key nx = afterOpt (fun n => (keyOf sl n).map fun k => cmp k key == .lt) nx := by
  cases nx <;> rfl

theorem findGEGo_eq (cmp : α → α → Ordering) (sl : SkipList α) (key : α) (fuel x level : Nat) (prev : List (Option Nat)) :
    findGEGo cmp sl key fuel x level prev =
      searchGo sl (fun n => (keyOf sl n).map fun k => cmp k key == .lt) fuel x level prev := by
  induction fuel generalizing x level prev with
  | zero => rfl
  | succ fuel ih =>
    simp only [findGEGo, searchGo, keyIsAfterNode_eq]
    cases getNext sl x level with
    | none => rfl
    | some nx =>
      simp only
      cases afterOpt (fun n => (keyOf sl n).map fun k => cmp k key == .lt) nx with
      | none => rfl
      | some b =>
        cases b with
        | true => cases nx with
          | none => rfl
          | some n => simp only [ih]
        | false => simp only [ih]

theorem findLTGo_eq (cmp : α → α → Ordering) (sl : SkipList α) (key : α) (fuel x level : Nat) (prev : List (Option Nat))
    (hp : level < prev.length) :
    findLTGo cmp sl key fuel x level =
      (searchGo sl (fun n => (keyOf sl n).map fun k => cmp k key == .lt) fuel x level prev).bind
        (fun r => (r.2[0]?).bind id) := by
  induction fuel generalizing x level prev with
  | zero => rfl
  | succ fuel ih =>
    simp only [findLTGo, searchGo, keyIsAfterNode_eq]
    cases getNext sl x level with
    | none => rfl
    | some nx =>
      simp only
      cases afterOpt (fun n => (keyOf sl n).map fun k => cmp k key == .lt) nx with
      | none => rfl
      | some b =>
        cases b with
        | true => cases nx with
          | none => rfl
          | some n => simp only [ih n level prev hp]
        | false =>
          by_cases hl : level = 0
          · subst hl
            simp [List.getElem?_set, hp]
          · simp only [if_neg hl]
            exact ih x (level - 1) _ (by simp; omega)

theorem findLastGo_eq (sl : SkipList α) (fuel x level : Nat) (prev : List (Option Nat)) (hp : level < prev.length) :
    findLastGo sl fuel x level =
      (searchGo sl (fun _ => some true) fuel x level prev).bind (fun r => (r.2[0]?).bind id) := by
  induction fuel generalizing x level prev with
  | zero => rfl
  | succ fuel ih =>
    simp only [findLastGo, searchGo]
    cases getNext sl x level with
    | none => rfl
    | some nx =>
      cases nx with
      | some n => simp only [afterOpt, ih n level prev hp]
      | none =>
        simp only [afterOpt]
        by_cases hl : level = 0
        · subst hl
          simp [List.getElem?_set, hp]
        · simp only [if_neg hl]
          exact ih x (level - 1) _ (by simp; omega)

end Lcdb.Skiplist
