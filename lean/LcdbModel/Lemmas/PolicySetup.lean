/-
  ldb_versions_setup_other_inputs (version_set.c:1939): the shape of the pair (inputs[0], inputs[1]) it
  returns, whichever branch is taken, and the contracts (a), (a') of `Lsm.stepOk (.compact ..)` that follow.
-/
import LcdbModel.Lemmas.PolicyInterval
import LcdbModel.Lemmas.PolicyGoi
import LcdbModel.Lemmas.PolicyFind
set_option linter.unusedSimpArgs false
namespace Lcdb.Policy
open Lcdb.CmpBasic Lcdb.Lsm

/-- what every exit of setup_other_inputs guarantees about its working state:
    `in0` = add_boundary_inputs of the seed or of a get_overlapping_inputs(level, ..) result;
    `in1` = add_boundary_inputs of get_overlapping_inputs(level+1, range of in0);
    `largest` = the largest key of `in0`; `[allStart, allLimit]` = the range of `in0 ∪ in1` -/
structure StageOk (c : Cmp) (level0 : Bool) (lv lv1 seed : List FileMeta) (s : Stage) : Prop where
  base : ∃ base, addBoundaryInputs c lv base = some s.in0 ∧
    (base = seed ∨ ∃ a b, goi c level0 lv (some a) (some b) = some base)
  rng : ∃ r in1a, getRange c s.in0 = some r ∧ r.2 = s.largest ∧
    goi c false lv1 (some r.1) (some r.2) = some in1a ∧ addBoundaryInputs c lv1 in1a = some s.in1
  all : getRange2 c s.in0 s.in1 = some (s.allStart, s.allLimit)

theorem setupStage1_ok {c : Cmp} {level0 : Bool} {lv lv1 seed : List FileMeta} {s : Stage}
    (h : setupStage1 c lv lv1 seed = some s) : StageOk c level0 lv lv1 seed s := by
  simp only [setupStage1, Option.bind_eq_bind, Option.bind_eq_some_iff, Option.pure_def, Option.some.injEq] at h
  obtain ⟨in0, h0, r, hr, in1a, h1a, in1, h1, all, hall, rfl⟩ := h
  exact ⟨⟨seed, h0, .inl rfl⟩, ⟨r, in1a, hr, rfl, h1a, h1⟩, hall⟩

theorem setupStage2_ok {c : Cmp} {mfs : Nat} {level0 : Bool} {lv lv1 seed : List FileMeta} {s s' : Stage}
    (hs : StageOk c level0 lv lv1 seed s) (h : setupStage2 c mfs level0 lv lv1 s = some s') :
    StageOk c level0 lv lv1 seed s' := by
  unfold setupStage2 at h
  split at h
  · simp only [Option.bind_eq_bind, Option.bind_eq_some_iff] at h
    obtain ⟨e0a, he0a, e0, he0, h⟩ := h
    split at h
    · simp only [Option.bind_eq_bind, Option.bind_eq_some_iff] at h
      obtain ⟨nr, hnr, e1a, he1a, e1, he1, h⟩ := h
      split at h
      · simp only [Option.bind_eq_bind, Option.bind_eq_some_iff, Option.pure_def, Option.some.injEq] at h
        obtain ⟨all, hall, rfl⟩ := h
        exact ⟨⟨e0a, he0, .inr ⟨_, _, he0a⟩⟩, ⟨nr, e1a, hnr, rfl, he1a, he1⟩, hall⟩
      · simp only [Option.pure_def, Option.some.injEq] at h
        subst h; exact hs
    · simp only [Option.pure_def, Option.some.injEq] at h
      subst h; exact hs
  · simp only [Option.pure_def, Option.some.injEq] at h
    subst h; exact hs

/-- the result of setup_other_inputs, whichever branch was taken -/
theorem setupOtherInputs_shape {c : Cmp} {mfs : Nat} {level0 : Bool} {lv lv1 : List FileMeta}
    {lv2 : Option (List FileMeta)} {seed : List FileMeta} {s : Setup}
    (h : setupOtherInputs c mfs level0 lv lv1 lv2 seed = some s) :
    ∃ st : Stage, StageOk c level0 lv lv1 seed st ∧ s.in0 = st.in0 ∧ s.in1 = st.in1 ∧
      s.compactPointer = st.largest ∧
      (match lv2 with
       | none => s.grandparents = []
       | some l2 => s.grandparents = l2.filter (rangeHits c (some st.allStart.1) (some st.allLimit.1))) := by
  simp only [setupOtherInputs, Option.bind_eq_bind, Option.bind_eq_some_iff, Option.pure_def] at h
  obtain ⟨s1, h1, s2, h2, h⟩ := h
  refine ⟨s2, setupStage2_ok (setupStage1_ok h1) h2, ?_⟩
  cases lv2 with
  | none =>
    simp only [Option.bind_some, Option.some.injEq] at h
    subst h; exact ⟨rfl, rfl, rfl, rfl⟩
  | some l2 =>
    simp only [goi_deep, Option.bind_some, Option.some.injEq, Option.map_some] at h
    subst h; exact ⟨rfl, rfl, rfl, rfl⟩

/-! ### the contracts -/

/-- how `pick_compaction` / `compact_range` seed `inputs[0]`: non-empty, files of the level, and
    level 0: closed under user-key overlap; level ≥ 1: an interval of the level -/
structure SeedOk (c : Cmp) (lv : List FileMeta) (level0 : Bool) (seed : List FileMeta) : Prop where
  nonempty : seed ≠ []
  sub : ∀ f ∈ seed, f ∈ lv
  shape : if level0 then Closed0 c lv seed else Interval c lv seed

theorem boundsOk_of_fileOk {c : Cmp} {lv : List FileMeta} (hok : ∀ f ∈ lv, FileOk c f) : BoundsOk c lv :=
  fun f hf => fileOk_boundsOk (hok f hf)

theorem not_rangeHits {c : Cmp} {lo hi : Bytes} {g : FileMeta} (h : rangeHits c (some lo) (some hi) g = false) :
    c.compare g.lk lo = .lt ∨ c.compare hi g.sk = .lt := by
  unfold rangeHits afterFile beforeFile at h
  simp only [Bool.not_eq_false', Bool.or_eq_true, beq_iff_eq] at h
  rcases h with h | h
  · exact .inl ((compare_gt_iff c lo g.lk).mp h)
  · exact .inr h

/-- the selection contracts for any pair of the shape `StageOk` -/
theorem contract_of_stageOk {c : Cmp} {level0 : Bool} {lv lv1 seed : List FileMeta} {s : Stage}
    (hs : level0 = false → LevelSorted c lv) (hs1 : LevelSorted c lv1)
    (hok : ∀ f ∈ lv, FileOk c f) (hok1 : ∀ f ∈ lv1, FileOk c f)
    (hk : ∀ f ∈ lv, ∀ e ∈ f.run, e.kind ≤ 1) (hk1 : ∀ f ∈ lv1, ∀ e ∈ f.run, e.kind ≤ 1)
    (hd : level0 = false → LevelSeqDistinct c lv) (hd1 : LevelSeqDistinct c lv1)
    (hseed : SeedOk c lv level0 seed) (h : StageOk c level0 lv lv1 seed s) :
    (∀ f ∈ s.in0, f ∈ lv) ∧ (∀ f ∈ s.in1, f ∈ lv1) ∧ s.in0 ≠ [] ∧
    (∀ g ∈ lv, g ∉ s.in0 → ∀ f ∈ s.in0, NewerThan c g.run f.run) ∧
    (∀ g ∈ lv1, g ∉ s.in1 → (∀ f ∈ s.in0, NewerThan c g.run f.run) ∧ (∀ f ∈ s.in1, NewerThan c g.run f.run)) := by
  have hb := boundsOk_of_fileOk hok
  have hb1 := boundsOk_of_fileOk hok1
  obtain ⟨⟨base, hbase, hwhich⟩, ⟨r, in1a, hr, _, h1a, h1⟩, _⟩ := h
  -- inputs[0]
  have h0 : (∀ f ∈ s.in0, f ∈ lv) ∧ (∀ f ∈ base, f ∈ s.in0) ∧
      (∀ g ∈ lv, g ∉ s.in0 → ∀ f ∈ s.in0, NewerThan c g.run f.run) := by
    cases hl0 : level0 with
    | true =>
      subst hl0
      have hbsub : ∀ f ∈ base, f ∈ lv := by
        rcases hwhich with rfl | ⟨a, b, hg⟩
        · exact hseed.sub
        · exact goi_mem c true lv _ _ base hg
      have hbcl : Closed0 c lv base := by
        rcases hwhich with rfl | ⟨a, b, hg⟩
        · have := hseed.shape; simpa using this
        · exact (goi_level0_closed c lv _ _ base hg).1
      have : s.in0 = base := by
        rw [addBoundaryInputs_closed0 hb hbsub hbcl] at hbase
        exact (Option.some.inj hbase).symm
      rw [this]
      exact ⟨hbsub, fun f hf => hf, newer_of_closed0 hok hbsub hbcl⟩
    | false =>
      subst hl0
      have hbsub : ∀ f ∈ base, f ∈ lv := by
        rcases hwhich with rfl | ⟨a, b, hg⟩
        · exact hseed.sub
        · exact goi_mem c false lv _ _ base hg
      have hbint : Interval c lv base := by
        rcases hwhich with rfl | ⟨a, b, hg⟩
        · have := hseed.shape; simpa using this
        · rw [goi_deep] at hg
          rw [← Option.some.inj hg]
          exact interval_filter_rangeHits hb _ _
      obtain ⟨hi, hc, hsub, hsup⟩ := addBoundaryInputs_interval (hs rfl) hb hbsub hbint hbase
      exact ⟨hsub, hsup, newer_of_interval (hs rfl) hok hk (hd rfl) hsub hi hc⟩
  obtain ⟨hsub0, hsup0, hA⟩ := h0
  -- inputs[1]
  rw [goi_deep] at h1a
  have h1a' : in1a = lv1.filter (rangeHits c (some r.1.1) (some r.2.1)) := by
    simpa using (Option.some.inj h1a).symm
  have hsub1a : ∀ f ∈ in1a, f ∈ lv1 := fun f hf => by rw [h1a'] at hf; exact (List.mem_filter.mp hf).1
  have hint1a : Interval c lv1 in1a := by rw [h1a']; exact interval_filter_rangeHits hb1 _ _
  obtain ⟨hi1, hc1, hsub1, hsup1⟩ := addBoundaryInputs_interval hs1 hb1 hsub1a hint1a h1
  refine ⟨hsub0, hsub1, ?_, hA, ?_⟩
  · intro he
    rw [he] at hr; cases hr
  · intro g hg hg1
    refine ⟨?_, newer_of_interval hs1 hok1 hk1 hd1 hsub1 hi1 hc1 g hg hg1⟩
    intro f hf
    have hmiss : rangeHits c (some r.1.1) (some r.2.1) g = false := by
      cases hh : rangeHits c (some r.1.1) (some r.2.1) g with
      | false => rfl
      | true =>
        exfalso
        exact hg1 (hsup1 g (by rw [h1a']; exact List.mem_filter.mpr ⟨hg, hh⟩))
    obtain ⟨hmin, hmax⟩ := getRange_spec hr
    have hu1 : ule c r.1.1 f.sk := ule_of_ikle (hmin.2 f hf)
    have hu2 : ule c f.lk r.2.1 := ule_of_ikle (hmax.2 f hf)
    apply newerThan_of_apart (hok f (hsub0 f hf)) (hok1 g hg)
    rcases not_rangeHits hmiss with h | h
    · exact .inr (compare_lt_of_lt_of_ne_gt c h hu1)
    · exact .inl (compare_lt_of_ne_gt_of_lt c hu2 h)

end Lcdb.Policy
