/-
  Helper lemmas for LcdbModel.Model.Files (core Lean only): garbage collection of database files
  (`ldb_remove_obsolete_files`) and the file-number allocator of the version set.
-/
import LcdbModel.Model.Files
import LcdbModel.Lemmas.FileName
namespace Lcdb.Files
open Lcdb

/-! ### keep / toDelete / removeObsolete -/

theorem mem_toDelete {s : GcState} {dir : List String} {name : String} :
    name ∈ toDelete s dir ↔ s.bgError = false ∧ name ∈ dir ∧ keep s name = false := by
  unfold toDelete
  cases h : s.bgError <;> simp

theorem keep_false_of_mem_toDelete {s : GcState} {dir : List String} {name : String}
    (h : name ∈ toDelete s dir) : keep s name = false := (mem_toDelete.1 h).2.2

theorem toDelete_sublist (s : GcState) (dir : List String) : (toDelete s dir).Sublist dir := by
  unfold toDelete
  split
  · exact List.nil_sublist _
  · exact List.filter_sublist

theorem keep_of_parse_none {s : GcState} {name : String} (h : parseFileName name = none) :
    keep s name = true := by
  simp [keep, h]

theorem keep_table {s : GcState} {name : String} {n : Nat}
    (h : parseFileName name = some (.table, n)) : keep s name = (liveSet s).contains n := by
  simp [keep, h]

theorem keep_temp {s : GcState} {name : String} {n : Nat}
    (h : parseFileName name = some (.temp, n)) : keep s name = (liveSet s).contains n := by
  simp [keep, h]

theorem keep_log {s : GcState} {name : String} {n : Nat}
    (h : parseFileName name = some (.log, n)) :
    keep s name = (decide (n ≥ s.logNumber) || n == s.prevLogNumber) := by
  simp [keep, h]

theorem keep_desc {s : GcState} {name : String} {n : Nat}
    (h : parseFileName name = some (.desc, n)) :
    keep s name = decide (n ≥ s.manifestNumber) := by
  simp [keep, h]

theorem keep_current {s : GcState} {name : String} {n : Nat}
    (h : parseFileName name = some (.current, n)) : keep s name = true := by
  simp [keep, h]

theorem keep_lock {s : GcState} {name : String} {n : Nat}
    (h : parseFileName name = some (.lock, n)) : keep s name = true := by
  simp [keep, h]

theorem keep_info {s : GcState} {name : String} {n : Nat}
    (h : parseFileName name = some (.info, n)) : keep s name = true := by
  simp [keep, h]

/-- `keep` is "foreign or owned-and-live". -/
theorem keep_eq_true_iff {s : GcState} {name : String} :
    keep s name = true ↔ parseFileName name = none ∨ ownedAndLive s name = true := by
  unfold keep ownedAndLive
  cases h : parseFileName name with
  | none => simp
  | some r =>
    obtain ⟨ty, n⟩ := r
    cases ty <;> simp

theorem mem_pending_liveSet {s : GcState} {n : Nat} (h : n ∈ s.pending) : n ∈ liveSet s := by
  unfold liveSet
  exact List.mem_append_left _ h

theorem mem_version_liveSet {s : GcState} {v : List Nat} {n : Nat}
    (hv : v ∈ s.liveVersions) (h : n ∈ v) : n ∈ liveSet s := by
  unfold liveSet
  exact List.mem_append_right _ (List.mem_flatten.2 ⟨v, hv, h⟩)

theorem mem_liveSet_iff {s : GcState} {n : Nat} :
    n ∈ liveSet s ↔ n ∈ s.pending ∨ ∃ v ∈ s.liveVersions, n ∈ v := by
  unfold liveSet
  simp [List.mem_flatten]

theorem removeObsolete_bgError {s : GcState} {dir : List String} (h : s.bgError = true) :
    removeObsolete s dir = dir := by
  simp [removeObsolete, toDelete, h]

theorem removeObsolete_eq_filter {s : GcState} {dir : List String} (h : s.bgError = false) :
    removeObsolete s dir = dir.filter (keep s) := by
  unfold removeObsolete
  apply List.filter_congr
  intro name hmem
  cases hk : keep s name with
  | true =>
    have : name ∉ toDelete s dir := fun hm => by
      have := keep_false_of_mem_toDelete hm
      rw [hk] at this; cases this
    simpa using this
  | false =>
    have : name ∈ toDelete s dir := mem_toDelete.2 ⟨h, hmem, hk⟩
    simpa using this

/-! ### file-number allocation machine -/

/-- The three operations of the version set on `next_file_number`. -/
inductive AllocOp where
  | new
  | reuse (n : Nat)
  | mark (n : Nat)
  deriving Repr, DecidableEq

def AllocOp.isReuse : AllocOp → Bool
  | .reuse _ => true
  | _ => false

/-- one operation: new state and the numbers handed out (one for `new`, none otherwise) -/
def stepAlloc (s : GcState) : AllocOp → GcState × List Nat
  | .new => ((newFileNumber s).2, [(newFileNumber s).1])
  | .reuse n => (reuseFileNumber s n, [])
  | .mark n => (markFileNumber s n, [])

/-- run a sequence of operations; the second component lists the numbers handed out by `new`, in order -/
def runAlloc : GcState → List AllocOp → GcState × List Nat
  | s, [] => (s, [])
  | s, op :: ops =>
    ((runAlloc (stepAlloc s op).1 ops).1, (stepAlloc s op).2 ++ (runAlloc (stepAlloc s op).1 ops).2)

@[simp] theorem runAlloc_nil (s : GcState) : runAlloc s [] = (s, []) := rfl

theorem runAlloc_cons (s : GcState) (op : AllocOp) (ops : List AllocOp) :
    runAlloc s (op :: ops) =
      ((runAlloc (stepAlloc s op).1 ops).1,
       (stepAlloc s op).2 ++ (runAlloc (stepAlloc s op).1 ops).2) := rfl

theorem runAlloc_append (s : GcState) (a b : List AllocOp) :
    runAlloc s (a ++ b) =
      ((runAlloc (runAlloc s a).1 b).1, (runAlloc s a).2 ++ (runAlloc (runAlloc s a).1 b).2) := by
  induction a generalizing s with
  | nil => simp
  | cons op a ih => simp [runAlloc_cons, ih]

@[simp] theorem newFileNumber_fst (s : GcState) : (newFileNumber s).1 = s.nextFile := rfl
@[simp] theorem newFileNumber_nextFile (s : GcState) :
    (newFileNumber s).2.nextFile = s.nextFile + 1 := rfl

theorem markFileNumber_nextFile (s : GcState) (n : Nat) :
    (markFileNumber s n).nextFile = max s.nextFile (n + 1) := by
  unfold markFileNumber
  split
  · simp only; omega
  · omega

theorem reuseFileNumber_nextFile (s : GcState) (n : Nat) :
    (reuseFileNumber s n).nextFile = if s.nextFile = n + 1 then n else s.nextFile := by
  unfold reuseFileNumber
  by_cases h : s.nextFile = n + 1 <;> simp [h]

theorem reuseFileNumber_of_ne {s : GcState} {n : Nat} (h : s.nextFile ≠ n + 1) :
    reuseFileNumber s n = s := by
  simp [reuseFileNumber, h]

theorem reuseFileNumber_of_eq {s : GcState} {n : Nat} (h : s.nextFile = n + 1) :
    reuseFileNumber s n = { s with nextFile := n } := by
  simp [reuseFileNumber, h]

/-- `new` directly followed by `reuse` of the number it returned restores the state exactly. -/
theorem reuse_new_cancel (s : GcState) : reuseFileNumber (newFileNumber s).2 s.nextFile = s := by
  simp [reuseFileNumber, newFileNumber]

theorem stepAlloc_nextFile_mono {s : GcState} {op : AllocOp} (h : op.isReuse = false) :
    s.nextFile ≤ (stepAlloc s op).1.nextFile := by
  cases op with
  | new => simp [stepAlloc]
  | reuse n => simp [AllocOp.isReuse] at h
  | mark n => simp only [stepAlloc, markFileNumber_nextFile]; omega

/-- every step lowers `nextFile` by at most one, and only an effective `reuse` lowers it at all -/
theorem stepAlloc_nextFile_drop {s : GcState} {op : AllocOp}
    (h : (stepAlloc s op).1.nextFile < s.nextFile) :
    ∃ n, op = .reuse n ∧ s.nextFile = n + 1 ∧ (stepAlloc s op).1.nextFile = n := by
  cases op with
  | new => simp only [stepAlloc, newFileNumber_nextFile] at h; omega
  | mark n => simp only [stepAlloc, markFileNumber_nextFile] at h; omega
  | reuse n =>
    refine ⟨n, rfl, ?_⟩
    simp only [stepAlloc, reuseFileNumber_nextFile] at h ⊢
    by_cases hn : s.nextFile = n + 1
    · simp [hn]
    · simp [hn] at h

/-- In a run without `reuse`, `nextFile` never decreases, the numbers handed out are strictly
    increasing and lie in `[initial nextFile, final nextFile)`. -/
theorem runAlloc_noReuse (s : GcState) (ops : List AllocOp)
    (h : ∀ op ∈ ops, op.isReuse = false) :
    s.nextFile ≤ (runAlloc s ops).1.nextFile ∧
    (runAlloc s ops).2.Pairwise (· < ·) ∧
    ∀ x ∈ (runAlloc s ops).2, s.nextFile ≤ x ∧ x < (runAlloc s ops).1.nextFile := by
  induction ops generalizing s with
  | nil => simp
  | cons op ops ih =>
    have hop : op.isReuse = false := h op (List.mem_cons_self)
    obtain ⟨ih1, ih2, ih3⟩ := ih (stepAlloc s op).1 (fun o ho => h o (List.mem_cons_of_mem _ ho))
    have hmono := stepAlloc_nextFile_mono (s := s) hop
    rw [runAlloc_cons]
    refine ⟨Nat.le_trans hmono ih1, ?_, ?_⟩
    · cases op with
      | reuse n => simp [AllocOp.isReuse] at hop
      | mark n => simpa [stepAlloc] using ih2
      | new =>
        simp only [stepAlloc, newFileNumber_fst, List.singleton_append, List.pairwise_cons]
        refine ⟨fun x hx => ?_, ih2⟩
        have := (ih3 x hx).1
        simp only [stepAlloc, newFileNumber_nextFile] at this
        omega
    · intro x hx
      simp only [List.mem_append] at hx
      rcases hx with hx | hx
      · cases op with
        | reuse n => simp [AllocOp.isReuse] at hop
        | mark n => simp [stepAlloc] at hx
        | new =>
          simp only [stepAlloc, newFileNumber_fst, List.mem_singleton] at hx
          simp only [stepAlloc, newFileNumber_nextFile] at ih1
          subst hx
          simp only [stepAlloc]
          omega
      · have := ih3 x hx
        exact ⟨Nat.le_trans hmono this.1, this.2⟩

/-- If `nextFile` is above `x` before a run and at most `x` after it, the run contains a
    `reuse x` executed in a state whose `nextFile` is `x + 1` (i.e. `x` is the number handed out last
    and still outstanding). -/
theorem runAlloc_drop_needs_reuse (s : GcState) (ops : List AllocOp) (x : Nat)
    (h1 : x < s.nextFile) (h2 : (runAlloc s ops).1.nextFile ≤ x) :
    ∃ a b, ops = a ++ AllocOp.reuse x :: b ∧ (runAlloc s a).1.nextFile = x + 1 := by
  induction ops generalizing s with
  | nil => simp at h2; omega
  | cons op ops ih =>
    rw [runAlloc_cons] at h2
    by_cases hx : x < (stepAlloc s op).1.nextFile
    · obtain ⟨a, b, hab, hs⟩ := ih _ hx h2
      exact ⟨op :: a, b, by simp [hab], by simpa [runAlloc_cons] using hs⟩
    · obtain ⟨n, hop, hn1, hn2⟩ := stepAlloc_nextFile_drop (s := s) (op := op) (by omega)
      have : n = x := by omega
      subst this
      exact ⟨[], ops, by simp [hop], by simpa using hn1⟩

/-! ### the call discipline of db_impl.c

`ldb_versions_reuse_file_number` has a single call site (db_impl.c:1843, `ldb_make_room_for_write`):
it is called with the number returned by the directly preceding `ldb_versions_new_file_number`, when
creating the file of that number failed, so the number was never installed. -/

/-- `reuse n` occurs only directly after the `new` that returned `n`. -/
def Disciplined : GcState → List AllocOp → Prop
  | _, [] => True
  | s, .new :: .reuse n :: rest => n = s.nextFile ∧ Disciplined s rest
  | s, .new :: rest => Disciplined (newFileNumber s).2 rest
  | s, .mark n :: rest => Disciplined (markFileNumber s n) rest
  | _, .reuse _ :: _ => False

/-- drop the cancelled `new; reuse` pairs -/
def dropCancelled : List AllocOp → List AllocOp
  | [] => []
  | .new :: .reuse _ :: rest => dropCancelled rest
  | op :: rest => op :: dropCancelled rest

theorem dropCancelled_noReuse_of_disciplined (s : GcState) (ops : List AllocOp)
    (h : Disciplined s ops) : ∀ op ∈ dropCancelled ops, op.isReuse = false := by
  fun_induction Disciplined s ops with
  | case1 => simp [dropCancelled]
  | case2 s n rest ih => simpa [dropCancelled] using ih h.2
  | case3 s rest hne ih =>
    have : dropCancelled (.new :: rest) = .new :: dropCancelled rest := by
      cases rest with
      | nil => rfl
      | cons o r =>
        cases o with
        | reuse n => exact absurd rfl (hne n r)
        | new => rfl
        | mark n => rfl
    rw [this]
    intro op hop
    rcases List.mem_cons.1 hop with rfl | hop
    · rfl
    · exact ih h op hop
  | case4 s n rest ih =>
    intro op hop
    simp only [dropCancelled, List.mem_cons] at hop
    rcases hop with rfl | hop
    · rfl
    · exact ih h op hop
  | case5 => exact absurd h id

theorem runAlloc_dropCancelled_state (s : GcState) (ops : List AllocOp)
    (h : Disciplined s ops) : (runAlloc s (dropCancelled ops)).1 = (runAlloc s ops).1 := by
  fun_induction Disciplined s ops with
  | case1 => rfl
  | case2 s n rest ih =>
    obtain ⟨hn, hd⟩ := h
    subst hn
    simp only [dropCancelled, runAlloc_cons, stepAlloc, reuse_new_cancel]
    exact ih hd
  | case3 s rest hne ih =>
    have : dropCancelled (.new :: rest) = .new :: dropCancelled rest := by
      cases rest with
      | nil => rfl
      | cons o r =>
        cases o with
        | reuse n => exact absurd rfl (hne n r)
        | new => rfl
        | mark n => rfl
    rw [this]
    simp only [runAlloc_cons, stepAlloc]
    exact ih h
  | case4 s n rest ih =>
    simp only [dropCancelled, runAlloc_cons, stepAlloc]
    exact ih h
  | case5 => exact absurd h id

end Lcdb.Files
