/-
  Lemmas about the LSM model (`LcdbModel.Model.Lsm`), core Lean only: the internal-key order,
  `newestOf`, lookups in sorted runs, in sorted levels, in level 0, and along a recency-ordered
  list of runs.  Used by `LcdbModel.Props.C01`.
-/
import LcdbModel.Model.Lsm
import LcdbModel.Lemmas.CmpBasic
namespace Lcdb.Lsm
open Lcdb.CmpBasic

/-! ### the internal-key order -/

theorem ikLt_iff (c : Cmp) (ak : Bytes) (ap : Nat) (bk : Bytes) (bp : Nat) :
    ikLt c ak ap bk bp = true ↔ c.compare ak bk = .lt ∨ (ak = bk ∧ ap > bp) := by
  unfold ikLt
  cases h : c.compare ak bk with
  | lt => simp
  | eq => have := (compare_eq_iff c ak bk).mp h; simp [this]
  | gt =>
    simp only [Bool.false_eq_true, reduceCtorEq, false_or, false_iff, not_and]
    intro hk; rw [hk, compare_refl] at h; cases h

theorem ikLt_irrefl (c : Cmp) (k : Bytes) (p : Nat) : ikLt c k p k p = false := by
  simp [ikLt, compare_refl]

theorem ikLt_trans (c : Cmp) {ak : Bytes} {ap : Nat} {bk : Bytes} {bp : Nat} {dk : Bytes} {dp : Nat}
    (h1 : ikLt c ak ap bk bp = true) (h2 : ikLt c bk bp dk dp = true) : ikLt c ak ap dk dp = true := by
  rw [ikLt_iff] at *
  rcases h1 with h1 | ⟨rfl, h1⟩
  · rcases h2 with h2 | ⟨rfl, h2⟩
    · exact .inl (compare_lt_trans c h1 h2)
    · exact .inl h1
  · rcases h2 with h2 | ⟨rfl, h2⟩
    · exact .inl h2
    · exact .inr ⟨rfl, by omega⟩

theorem ikLt_trichotomy (c : Cmp) (ak : Bytes) (ap : Nat) (bk : Bytes) (bp : Nat) :
    ikLt c ak ap bk bp = true ∨ (ak = bk ∧ ap = bp) ∨ ikLt c bk bp ak ap = true := by
  simp only [ikLt_iff]
  cases h : c.compare ak bk with
  | lt => exact .inl (.inl rfl)
  | gt => exact .inr (.inr (.inl ((compare_gt_iff c ak bk).mp h)))
  | eq =>
    have := (compare_eq_iff c ak bk).mp h
    subst this
    rcases Nat.lt_trichotomy ap bp with h | h | h
    · exact .inr (.inr (.inr ⟨rfl, h⟩))
    · exact .inr (.inl ⟨rfl, h⟩)
    · exact .inl (.inr ⟨rfl, h⟩)

theorem ikLt_asymm (c : Cmp) {ak : Bytes} {ap : Nat} {bk : Bytes} {bp : Nat}
    (h : ikLt c ak ap bk bp = true) : ikLt c bk bp ak ap = false := by
  cases h' : ikLt c bk bp ak ap with
  | false => rfl
  | true => have := ikLt_trans c h h'; rw [ikLt_irrefl] at this; cases this

/-- `a ≤ b` and `b < d` give `a < d` -/
theorem ikLt_of_not_lt_of_lt (c : Cmp) {ak : Bytes} {ap : Nat} {bk : Bytes} {bp : Nat} {dk : Bytes} {dp : Nat}
    (h1 : ikLt c bk bp ak ap = false) (h2 : ikLt c bk bp dk dp = true) : ikLt c ak ap dk dp = true := by
  rcases ikLt_trichotomy c ak ap bk bp with h | ⟨rfl, rfl⟩ | h
  · exact ikLt_trans c h h2
  · exact h2
  · rw [h] at h1; cases h1

/-- `a < b` and `b ≤ d` give `a < d` -/
theorem ikLt_of_lt_of_not_lt (c : Cmp) {ak : Bytes} {ap : Nat} {bk : Bytes} {bp : Nat} {dk : Bytes} {dp : Nat}
    (h1 : ikLt c ak ap bk bp = true) (h2 : ikLt c dk dp bk bp = false) : ikLt c ak ap dk dp = true := by
  rcases ikLt_trichotomy c bk bp dk dp with h | ⟨rfl, rfl⟩ | h
  · exact ikLt_trans c h1 h
  · exact h1
  · rw [h] at h2; cases h2

theorem entryLt_irrefl (c : Cmp) (a : Entry) : entryLt c a a = false := ikLt_irrefl c _ _

theorem entryLt_trans (c : Cmp) {a b d : Entry} (h1 : entryLt c a b = true) (h2 : entryLt c b d = true) :
    entryLt c a d = true := ikLt_trans c h1 h2

theorem entryLt_trichotomy (c : Cmp) (a b : Entry) :
    entryLt c a b = true ∨ (a.ukey = b.ukey ∧ a.packed = b.packed) ∨ entryLt c b a = true :=
  ikLt_trichotomy c _ _ _ _

theorem entryLt_asymm (c : Cmp) {a b : Entry} (h : entryLt c a b = true) : entryLt c b a = false :=
  ikLt_asymm c h

/-- for entries with legal kinds, equal (user key, packed) means equal (user key, seq, kind) -/
theorem packed_inj {a b : Entry} (ha : a.kind < 256) (hb : b.kind < 256) (h : a.packed = b.packed) :
    a.seq = b.seq ∧ a.kind = b.kind := by
  simp only [Entry.packed] at h; omega

/-! ### `newestOf` -/

theorem newestOf_mem {l : List Entry} {m : Entry} (h : newestOf l = some m) : m ∈ l := by
  induction l generalizing m with
  | nil => simp [newestOf] at h
  | cons e es ih =>
    simp only [newestOf] at h
    cases h' : newestOf es with
    | none => rw [h'] at h; simp at h; simp [h]
    | some m' =>
      rw [h'] at h; simp only at h
      split at h
      · simp at h; simp [h]
      · simp at h; subst h; exact List.mem_cons_of_mem _ (ih h')

theorem newestOf_eq_none {l : List Entry} : newestOf l = none ↔ l = [] := by
  cases l with
  | nil => simp [newestOf]
  | cons e es =>
    simp only [newestOf, reduceCtorEq, iff_false]
    cases newestOf es with
    | none => simp
    | some m => simp only; split <;> simp

theorem newestOf_cons_of_ge (e : Entry) (es : List Entry) (h : ∀ x ∈ es, x.seq ≤ e.seq) :
    newestOf (e :: es) = some e := by
  simp only [newestOf]
  cases h' : newestOf es with
  | none => rfl
  | some m => simp only; rw [if_pos (h m (newestOf_mem h'))]

/-- the left-biased maximum by sequence number -/
def pick : Option Entry → Option Entry → Option Entry
  | none, y => y
  | some x, none => some x
  | some x, some y => if x.seq ≥ y.seq then some x else some y

theorem newestOf_append (a b : List Entry) : newestOf (a ++ b) = pick (newestOf a) (newestOf b) := by
  induction a with
  | nil => simp [newestOf, pick]
  | cons e a ih =>
    simp only [List.cons_append, newestOf, ih]
    cases newestOf a <;> cases newestOf b <;> simp only [pick]
    · split <;> rfl
    · rename_i m y
      by_cases h1 : m.seq ≥ y.seq <;> by_cases h2 : e.seq ≥ m.seq <;>
        simp only [h1, h2, if_true, if_false] <;>
        (try split) <;> first | rfl | (exfalso; omega)

/-! ### lookups in one sorted run -/

theorem seekPacked_lt_iff (e : Entry) (s : Nat) (hk : e.kind ≤ 1) :
    e.packed > seekPacked s ↔ e.seq > s := by
  simp only [Entry.packed, seekPacked, valtypeSeek]; omega

theorem runGet_cons (c : Cmp) (e : Entry) (r : Run) (k : Bytes) (s : Nat) :
    runGet c (e :: r) k s =
      if ikLt c e.ukey e.packed k (seekPacked s) = true then runGet c r k s
      else if c.compare e.ukey k = .eq then some e else none := by
  simp only [runGet, runSeek, List.find?_cons]
  cases h : ikLt c e.ukey e.packed k (seekPacked s) <;> simp

theorem visibleEntries_cons (c : Cmp) (e : Entry) (r : List Entry) (k : Bytes) (s : Nat) :
    visibleEntries c (e :: r) k s =
      if c.compare e.ukey k = .eq ∧ e.seq ≤ s then e :: visibleEntries c r k s
      else visibleEntries c r k s := by
  simp only [visibleEntries, List.filter_cons, Bool.and_eq_true, beq_iff_eq, decide_eq_true_eq]

theorem mem_visibleEntries {c : Cmp} {es : List Entry} {k : Bytes} {s : Nat} {x : Entry} :
    x ∈ visibleEntries c es k s ↔ x ∈ es ∧ x.ukey = k ∧ x.seq ≤ s := by
  simp only [visibleEntries, List.mem_filter, Bool.and_eq_true, beq_iff_eq, decide_eq_true_eq,
    compare_eq_iff]

theorem visibleEntries_append (c : Cmp) (a b : List Entry) (k : Bytes) (s : Nat) :
    visibleEntries c (a ++ b) k s = visibleEntries c a k s ++ visibleEntries c b k s := by
  simp [visibleEntries]

theorem runGet_eq_newest (c : Cmp) (r : Run) (k : Bytes) (s : Nat) (hs : RunSorted c r)
    (hk : ∀ e ∈ r, e.kind ≤ 1) : runGet c r k s = newestVisible c r k s := by
  induction r with
  | nil => rfl
  | cons e r ih =>
    have hs' := List.pairwise_cons.mp hs
    have ih := ih hs'.2 (fun x hx => hk x (List.mem_cons_of_mem _ hx))
    have hke := hk e List.mem_cons_self
    rw [runGet_cons]
    simp only [newestVisible] at ih ⊢
    rw [visibleEntries_cons]
    by_cases h1 : ikLt c e.ukey e.packed k (seekPacked s) = true
    · rw [if_pos h1]
      have : ¬ (c.compare e.ukey k = .eq ∧ e.seq ≤ s) := by
        rw [ikLt_iff] at h1
        rintro ⟨h2, h3⟩
        rcases h1 with h | ⟨_, h'⟩
        · rw [h] at h2; cases h2
        · have := (seekPacked_lt_iff e s hke).mp h'; omega
      rw [if_neg this]; exact ih
    · rw [if_neg h1]
      rw [ikLt_iff] at h1
      by_cases h2 : c.compare e.ukey k = .eq
      · rw [if_pos h2]
        have hek := (compare_eq_iff c _ _).mp h2
        have hseq : e.seq ≤ s := by
          have : ¬ e.packed > seekPacked s := fun h => h1 (.inr ⟨hek, h⟩)
          rw [seekPacked_lt_iff e s hke] at this; omega
        rw [if_pos ⟨h2, hseq⟩]
        symm; apply newestOf_cons_of_ge
        intro x hx
        obtain ⟨hxr, hxk, _⟩ := mem_visibleEntries.mp hx
        have hlt := hs'.1 x hxr
        have hkx := hk x (List.mem_cons_of_mem _ hxr)
        simp only [entryLt, ikLt_iff] at hlt
        rcases hlt with h | ⟨_, h⟩
        · rw [hek, hxk, compare_refl] at h; cases h
        · simp only [Entry.packed] at h; omega
      · rw [if_neg h2, if_neg (fun h => h2 h.1)]
        have hgt : c.compare k e.ukey = .lt := by
          rw [compare_lt_iff]
          cases h : c.compare e.ukey k with
          | lt => exact absurd (.inl h) h1
          | eq => exact absurd h h2
          | gt => rfl
        have : visibleEntries c r k s = [] := by
          rw [List.eq_nil_iff_forall_not_mem]
          intro x hx
          obtain ⟨hxr, hxk, _⟩ := mem_visibleEntries.mp hx
          have hlt := hs'.1 x hxr
          simp only [entryLt, ikLt_iff] at hlt
          subst hxk
          rcases hlt with h | ⟨h, _⟩
          · exact compare_lt_asymm c hgt h
          · rw [h, compare_refl] at hgt; cases hgt
        rw [this]; rfl

/-! ### files and sorted levels -/

theorem pairwise_getLast {α} {R : α → α → Prop} {r : List α} {l : α} (hp : r.Pairwise R)
    (hl : r.getLast? = some l) : ∀ e ∈ r, e = l ∨ R e l := by
  induction r with
  | nil => simp at hl
  | cons x xs ih =>
    have hp' := List.pairwise_cons.mp hp
    cases xs with
    | nil => simp at hl; subst hl; simp
    | cons y ys =>
      rw [List.getLast?_cons_cons] at hl
      intro e he
      rcases List.mem_cons.mp he with rfl | he
      · exact .inr (hp'.1 l (List.mem_of_getLast? hl))
      · exact ih hp'.2 hl e he

theorem pairwise_head {α} {R : α → α → Prop} {r : List α} {h : α} (hp : r.Pairwise R)
    (hh : r.head? = some h) : ∀ e ∈ r, e = h ∨ R h e := by
  cases r with
  | nil => simp at hh
  | cons x xs =>
    simp at hh; subst hh
    intro e he
    rcases List.mem_cons.mp he with rfl | he
    · exact .inl rfl
    · exact .inr ((List.pairwise_cons.mp hp).1 e he)

/-- every entry of a well-formed file is at or before its `largest` key -/
theorem fileOk_le_largest {c : Cmp} {f : FileMeta} (hf : FileOk c f) {e : Entry} (he : e ∈ f.run) :
    ikLt c f.lk f.lp e.ukey e.packed = false := by
  obtain ⟨hs, hne, _, hlast⟩ := hf
  cases hl : f.run.getLast? with
  | none => exact absurd (List.getLast?_eq_none_iff.mp hl) hne
  | some l =>
    obtain ⟨h1, h2⟩ := hlast l (by simp [hl])
    rw [← h1, ← h2]
    rcases pairwise_getLast hs hl e he with rfl | h
    · exact ikLt_irrefl c _ _
    · exact ikLt_asymm c h

/-- every entry of a well-formed file is at or after its `smallest` key -/
theorem fileOk_smallest_le {c : Cmp} {f : FileMeta} (hf : FileOk c f) {e : Entry} (he : e ∈ f.run) :
    ikLt c e.ukey e.packed f.sk f.sp = false := by
  obtain ⟨hs, hne, hfirst, _⟩ := hf
  cases hl : f.run.head? with
  | none => exact absurd (List.head?_eq_none_iff.mp hl) hne
  | some l =>
    obtain ⟨h1, h2⟩ := hfirst l (by simp [hl])
    rw [← h1, ← h2]
    rcases pairwise_head hs hl e he with rfl | h
    · exact ikLt_irrefl c _ _
    · exact ikLt_asymm c h

theorem fileOk_largest_mem {c : Cmp} {f : FileMeta} (hf : FileOk c f) :
    ∃ l ∈ f.run, l.ukey = f.lk ∧ l.packed = f.lp := by
  obtain ⟨_, hne, _, hlast⟩ := hf
  cases hl : f.run.getLast? with
  | none => exact absurd (List.getLast?_eq_none_iff.mp hl) hne
  | some l => exact ⟨l, List.mem_of_getLast? hl, hlast l (by simp [hl])⟩

theorem fileOk_smallest_mem {c : Cmp} {f : FileMeta} (hf : FileOk c f) :
    ∃ l ∈ f.run, l.ukey = f.sk ∧ l.packed = f.sp := by
  obtain ⟨_, hne, hfirst, _⟩ := hf
  cases hl : f.run.head? with
  | none => exact absurd (List.head?_eq_none_iff.mp hl) hne
  | some l => exact ⟨l, List.mem_of_head? hl, hfirst l (by simp [hl])⟩

theorem runSeek_append (c : Cmp) (a b : Run) (k : Bytes) (p : Nat) :
    runSeek c (a ++ b) k p = (runSeek c a k p).or (runSeek c b k p) := by
  simp [runSeek, List.find?_append]

theorem runGet_append_of_seek_none {c : Cmp} {a : Run} {k : Bytes} {s : Nat} (b : Run)
    (h : runSeek c a k (seekPacked s) = none) : runGet c (a ++ b) k s = runGet c b k s := by
  simp [runGet, runSeek_append, h]

theorem runGet_append_of_seek_some {c : Cmp} {a : Run} {k : Bytes} {s : Nat} {e : Entry} (b : Run)
    (h : runSeek c a k (seekPacked s) = some e) : runGet c (a ++ b) k s = runGet c a k s := by
  simp [runGet, runSeek_append, h]

theorem levelFile_cons (c : Cmp) (f : FileMeta) (fs : List FileMeta) (k : Bytes) (p : Nat) :
    levelFile c (f :: fs) k p =
      if ikLt c f.lk f.lp k p = true then levelFile c fs k p
      else if c.compare k f.sk = .lt then none else some f := by
  simp only [levelFile, List.find?_cons]
  cases h : ikLt c f.lk f.lp k p <;> simp

/-- a file whose largest key is before the target has nothing at or after the target -/
theorem runSeek_none_of_largest_lt {c : Cmp} {f : FileMeta} (hf : FileOk c f) {k : Bytes} {p : Nat}
    (h : ikLt c f.lk f.lp k p = true) : runSeek c f.run k p = none := by
  simp only [runSeek, List.find?_eq_none, Bool.not_eq_true', Bool.not_eq_false]
  intro e he
  exact ikLt_of_not_lt_of_lt c (fileOk_le_largest hf he) h

/-- a file whose largest key is not before the target has an entry at or after the target -/
theorem runSeek_some_of_largest_ge {c : Cmp} {f : FileMeta} (hf : FileOk c f) {k : Bytes} {p : Nat}
    (h : ¬ ikLt c f.lk f.lp k p = true) :
    ∃ e, runSeek c f.run k p = some e ∧ e ∈ f.run ∧ ikLt c e.ukey e.packed k p = false := by
  cases hs : runSeek c f.run k p with
  | none =>
    exfalso
    simp only [runSeek, List.find?_eq_none, Bool.not_eq_true', Bool.not_eq_false] at hs
    obtain ⟨l, hl, h1, h2⟩ := fileOk_largest_mem hf
    have := hs l hl
    rw [h1, h2] at this
    exact h this
  | some e =>
    refine ⟨e, rfl, List.mem_of_find?_eq_some hs, ?_⟩
    have := List.find?_some hs
    simpa using this

/-- Theorem 3: one `find_file` probe plus the smallest-user-key guard equals a lookup in the
    concatenation of the level (this needs only `FileOk`; `LevelSorted` is what makes the
    concatenation itself a sorted run, see `levelRun_sorted`). -/
theorem levelGet_eq_lookup_concat (c : Cmp) (files : List FileMeta) (k : Bytes) (s : Nat)
    (_hsorted : LevelSorted c files) (hok : ∀ f ∈ files, FileOk c f) :
    ((levelFile c files k (seekPacked s)).bind fun f => runGet c f.run k s)
      = runGet c (files.flatMap (·.run)) k s := by
  clear _hsorted
  induction files with
  | nil => rfl
  | cons f fs ih =>
    have hf := hok f List.mem_cons_self
    have ih := ih (fun g hg => hok g (List.mem_cons_of_mem _ hg))
    rw [levelFile_cons, List.flatMap_cons]
    by_cases h1 : ikLt c f.lk f.lp k (seekPacked s) = true
    · rw [if_pos h1, runGet_append_of_seek_none _ (runSeek_none_of_largest_lt hf h1)]
      exact ih
    · rw [if_neg h1]
      obtain ⟨e, he1, he2, he3⟩ := runSeek_some_of_largest_ge hf h1
      rw [runGet_append_of_seek_some _ he1]
      by_cases h2 : c.compare k f.sk = .lt
      · rw [if_pos h2]
        simp only [Option.bind_none, runGet, he1]
        have : ¬ c.compare e.ukey k = .eq := by
          intro h
          have hek := (compare_eq_iff c _ _).mp h
          have h3 := fileOk_smallest_le hf he2
          have : ikLt c e.ukey e.packed f.sk f.sp = true := by
            rw [ikLt_iff, hek]; exact .inl h2
          rw [this] at h3; cases h3
        simp [this]
      · rw [if_neg h2]; rfl

/-- the concatenation of a sorted, disjoint level of well-formed files is a sorted run -/
theorem levelRun_sorted (c : Cmp) (files : List FileMeta) (hsorted : LevelSorted c files)
    (hok : ∀ f ∈ files, FileOk c f) : RunSorted c (files.flatMap (·.run)) := by
  induction files with
  | nil => simp [RunSorted]
  | cons f fs ih =>
    have hp := List.pairwise_cons.mp hsorted
    have hf := hok f List.mem_cons_self
    have hok' : ∀ g ∈ fs, FileOk c g := fun g hg => hok g (List.mem_cons_of_mem _ hg)
    rw [List.flatMap_cons]
    refine List.pairwise_append.mpr ⟨hf.1, ih hp.2 hok', ?_⟩
    intro x hx y hy
    obtain ⟨g, hg, hyg⟩ := List.mem_flatMap.mp hy
    have h1 := ikLt_of_not_lt_of_lt c (fileOk_le_largest hf hx) (hp.1 g hg)
    exact ikLt_of_lt_of_not_lt c h1 (fileOk_smallest_le (hok' g hg) hyg)

/-! ### first hit along a recency-ordered list of runs -/

theorem newestVisible_append (c : Cmp) (a b : List Entry) (k : Bytes) (s : Nat) :
    newestVisible c (a ++ b) k s = pick (newestVisible c a k s) (newestVisible c b k s) := by
  simp only [newestVisible, visibleEntries_append, newestOf_append]

theorem newestVisible_mem {c : Cmp} {es : List Entry} {k : Bytes} {s : Nat} {m : Entry}
    (h : newestVisible c es k s = some m) : m ∈ es ∧ m.ukey = k ∧ m.seq ≤ s :=
  mem_visibleEntries.mp (newestOf_mem h)

theorem runGet_some {c : Cmp} {r : Run} {k : Bytes} {s : Nat} {e : Entry}
    (h : runGet c r k s = some e) : e ∈ r ∧ e.ukey = k := by
  simp only [runGet, runSeek] at h
  split at h
  · rename_i e' he'
    split at h
    · rename_i heq
      simp at h; subst h
      exact ⟨List.mem_of_find?_eq_some he', (compare_eq_iff c _ _).mp (by simpa using heq)⟩
    · cases h
  · cases h

/-- Theorem 5: the first hit along a recency-ordered list of sorted runs is the newest visible
    entry of their concatenation. -/
theorem firstHit_eq_newest (c : Cmp) (rs : List Run) (k : Bytes) (s : Nat)
    (hrec : rs.Pairwise (NewerThan c)) (hs : ∀ r ∈ rs, RunSorted c r)
    (hk : ∀ r ∈ rs, ∀ e ∈ r, e.kind ≤ 1) :
    rs.findSome? (fun r => runGet c r k s) = newestVisible c rs.flatten k s := by
  induction rs with
  | nil => rfl
  | cons r rs ih =>
    have hp := List.pairwise_cons.mp hrec
    have ih := ih hp.2 (fun x hx => hs x (List.mem_cons_of_mem _ hx))
      (fun x hx => hk x (List.mem_cons_of_mem _ hx))
    rw [List.findSome?_cons, List.flatten_cons, newestVisible_append, ih,
      runGet_eq_newest c r k s (hs r List.mem_cons_self) (hk r List.mem_cons_self)]
    cases h1 : newestVisible c r k s with
    | none => rfl
    | some x =>
      cases h2 : newestVisible c rs.flatten k s with
      | none => rfl
      | some y =>
        obtain ⟨hx, hxk, _⟩ := newestVisible_mem h1
        obtain ⟨hy, hyk, _⟩ := newestVisible_mem h2
        obtain ⟨r', hr', hyr'⟩ := List.mem_flatten.mp hy
        have := hp.1 r' hr' x hx y hyr' (by rw [hxk, hyk]; exact compare_refl c k)
        simp only [pick]
        rw [if_pos (by omega)]

/-! ### level 0 -/

theorem split_unique {α} (q : α → Prop) {l₁ l₂ m₁ m₂ : List α} (h : l₁ ++ l₂ = m₁ ++ m₂)
    (hl₁ : ∀ b ∈ l₁, q b) (hl₂ : ∀ b ∈ l₂, ¬ q b) (hm₁ : ∀ b ∈ m₁, q b) (hm₂ : ∀ b ∈ m₂, ¬ q b) :
    l₁ = m₁ ∧ l₂ = m₂ := by
  induction l₁ generalizing m₁ with
  | nil =>
    cases m₁ with
    | nil => exact ⟨rfl, by simpa using h⟩
    | cons x xs =>
      simp only [List.nil_append] at h
      exact absurd (hm₁ x List.mem_cons_self) (hl₂ x (by rw [h]; exact List.mem_cons_self))
  | cons a l₁ ih =>
    cases m₁ with
    | nil =>
      simp only [List.nil_append] at h
      exact absurd (hl₁ a List.mem_cons_self) (hm₂ a (by rw [← h]; exact List.mem_cons_self))
    | cons x xs =>
      simp only [List.cons_append, List.cons.injEq] at h
      obtain ⟨rfl, h⟩ := h
      obtain ⟨h1, h2⟩ := ih h (fun b hb => hl₁ b (List.mem_cons_of_mem _ hb))
        (fun b hb => hm₁ b (List.mem_cons_of_mem _ hb))
      exact ⟨by rw [h1], h2⟩

/-- `mergeSort` is stable, hence commutes with `filter` -/
theorem filter_mergeSort {α} (le : α → α → Bool) (trans : ∀ (a b c : α), le a b → le b c → le a c)
    (total : ∀ (a b : α), le a b || le b a) (p : α → Bool) (l : List α) :
    (l.mergeSort le).filter p = (l.filter p).mergeSort le := by
  induction l with
  | nil => simp
  | cons a l ih =>
    obtain ⟨l₁, l₂, h₁, h₂, h₃⟩ := List.mergeSort_cons trans total a l
    have hsorted : (l₁ ++ a :: l₂).Pairwise (fun x y => le x y) := by
      rw [← h₁]; exact List.pairwise_mergeSort trans total _
    have hl₂ : ∀ b ∈ l₂, le a b = true := fun b hb =>
      (List.pairwise_cons.mp (List.pairwise_append.mp hsorted).2.1).1 b hb
    rw [h₁, List.filter_append, List.filter_cons]
    by_cases hp : p a = true
    · rw [if_pos hp, List.filter_cons, if_pos hp]
      obtain ⟨m₁, m₂, g₁, g₂, g₃⟩ := List.mergeSort_cons trans total a (l.filter p)
      have gsorted : (m₁ ++ a :: m₂).Pairwise (fun x y => le x y) := by
        rw [← g₁]; exact List.pairwise_mergeSort trans total _
      have hm₂ : ∀ b ∈ m₂, le a b = true := fun b hb =>
        (List.pairwise_cons.mp (List.pairwise_append.mp gsorted).2.1).1 b hb
      rw [g₁]
      have heq : l₁.filter p ++ l₂.filter p = m₁ ++ m₂ := by
        rw [← List.filter_append, ← h₂, ih, g₂]
      obtain ⟨e1, e2⟩ := split_unique (fun b => le a b = false) heq
        (fun b hb => by simpa using h₃ b (List.mem_filter.mp hb).1)
        (fun b hb => by simp [hl₂ b (List.mem_filter.mp hb).1])
        (fun b hb => by simpa using g₃ b hb)
        (fun b hb => by simp [hm₂ b hb])
      rw [e1, e2]
    · rw [if_neg hp, List.filter_cons, if_neg hp, ← List.filter_append, ← h₂, ih]

theorem findSome?_filter_of_none {α β} (g : α → Option β) (p : α → Bool) (l : List α)
    (h : ∀ x ∈ l, p x = false → g x = none) : (l.filter p).findSome? g = l.findSome? g := by
  induction l with
  | nil => rfl
  | cons a l ih =>
    have ih := ih (fun x hx => h x (List.mem_cons_of_mem _ hx))
    rw [List.filter_cons]
    cases hp : p a with
    | true => simp only [if_true, List.findSome?_cons, ih]
    | false =>
      simp only [Bool.false_eq_true, if_false, List.findSome?_cons, ih, h a List.mem_cons_self hp]

/-- a file whose user-key range does not contain `k` has no entry for `k` -/
theorem runGet_none_of_not_contains {c : Cmp} {f : FileMeta} (hf : FileOk c f) {k : Bytes} (s : Nat)
    (h : fileContainsUser c f k = false) : runGet c f.run k s = none := by
  cases hg : runGet c f.run k s with
  | none => rfl
  | some e =>
    exfalso
    obtain ⟨he, hek⟩ := runGet_some hg
    have h1 := fileOk_smallest_le hf he
    have h2 := fileOk_le_largest hf he
    subst hek
    have h1' : c.compare e.ukey f.sk ≠ .lt := by
      intro h'; rw [(ikLt_iff c _ _ _ _).mpr (.inl h')] at h1; cases h1
    have h2' : c.compare e.ukey f.lk ≠ .gt := by
      intro h'; rw [compare_gt_iff] at h'
      rw [(ikLt_iff c _ _ _ _).mpr (.inl h')] at h2; cases h2
    simp [fileContainsUser, h1', h2'] at h

theorem numGe_trans (a b d : FileMeta) : decide (a.num ≥ b.num) = true → decide (b.num ≥ d.num) = true →
    decide (a.num ≥ d.num) = true := by
  simp only [decide_eq_true_eq]; omega

theorem numGe_total (a b : FileMeta) : (decide (a.num ≥ b.num) || decide (b.num ≥ a.num)) = true := by
  simp only [Bool.or_eq_true, decide_eq_true_eq]; omega

/-- Theorem 4: searching the level-0 candidates (range filter, newest first) with "first hit wins"
    equals searching all level-0 files newest first. -/
theorem l0_search_eq (c : Cmp) (files : List FileMeta) (k : Bytes) (s : Nat)
    (hok : ∀ f ∈ files, FileOk c f) :
    (l0Candidates c files k).findSome? (fun f => runGet c f.run k s)
      = (files.mergeSort (fun a b => decide (a.num ≥ b.num))).findSome? (fun f => runGet c f.run k s) := by
  unfold l0Candidates
  rw [← filter_mergeSort _ numGe_trans numGe_total]
  apply findSome?_filter_of_none
  intro f hf hp
  exact runGet_none_of_not_contains (hok f (List.mem_mergeSort.mp hf)) s hp

/-! ### permutation invariance of `newestVisible` over runs with disjoint sequence numbers -/

/-- no entry of `a` shares user key and sequence number with an entry of `b` -/
def SeqDisj (c : Cmp) (a b : Run) : Prop :=
  ∀ x ∈ a, ∀ y ∈ b, c.compare x.ukey y.ukey = .eq → x.seq ≠ y.seq

theorem SeqDisj.symm {c : Cmp} {a b : Run} (h : SeqDisj c a b) : SeqDisj c b a :=
  fun x hx y hy hxy => Ne.symm (h y hy x hx (compare_eq_symm c hxy))

theorem NewerThan.seqDisj {c : Cmp} {a b : Run} (h : NewerThan c a b) : SeqDisj c a b :=
  fun x hx y hy hxy => by have := h x hx y hy hxy; omega

theorem pick_left_comm (nx ny z : Option Entry)
    (h : ∀ a, nx = some a → ∀ b, ny = some b → a.seq ≠ b.seq) :
    pick ny (pick nx z) = pick nx (pick ny z) := by
  cases nx with
  | none => cases ny <;> cases z <;> rfl
  | some a =>
    cases ny with
    | none => cases z <;> rfl
    | some b =>
      have hab := h a rfl b rfl
      cases z with
      | none =>
        simp only [pick]
        by_cases h1 : b.seq ≥ a.seq
        · rw [if_pos h1, if_neg (by omega)]
        · rw [if_neg h1, if_pos (by omega)]
      | some z =>
        simp only [pick]
        by_cases h1 : a.seq ≥ z.seq <;> by_cases h2 : b.seq ≥ z.seq <;>
          simp only [h1, h2, if_true, if_false] <;>
          (try split) <;> (try split) <;> first | rfl | (exfalso; omega)

theorem newestVisible_flatMap_eq_foldr (c : Cmp) (fs : List FileMeta) (k : Bytes) (s : Nat) :
    newestVisible c (fs.flatMap (·.run)) k s
      = fs.foldr (fun f acc => pick (newestVisible c f.run k s) acc) none := by
  induction fs with
  | nil => rfl
  | cons f fs ih => rw [List.flatMap_cons, newestVisible_append, ih, List.foldr_cons]

theorem pairwise_symm_mem {α} {R : α → α → Prop} {l : List α} (hp : l.Pairwise R)
    (hsymm : ∀ {x y}, R x y → R y x) {x y : α} (hx : x ∈ l) (hy : y ∈ l) (hne : x ≠ y) : R x y := by
  induction l with
  | nil => cases hx
  | cons a l ih =>
    have hp' := List.pairwise_cons.mp hp
    rcases List.mem_cons.mp hx with hxa | hxl
    · rcases List.mem_cons.mp hy with hya | hyl
      · exact absurd (hxa.trans hya.symm) hne
      · rw [hxa]; exact hp'.1 y hyl
    · rcases List.mem_cons.mp hy with hya | hyl
      · rw [hya]; exact hsymm (hp'.1 x hxl)
      · exact ih hp'.2 hxl hyl

/-- reordering files whose runs never share (user key, sequence) does not change the newest
    visible entry of the concatenation — even when a single run holds a value and a deletion with
    the same sequence number, because the order inside each run is kept -/
theorem newestVisible_flatMap_perm (c : Cmp) {fs fs' : List FileMeta} (k : Bytes) (s : Nat)
    (hp : fs.Perm fs') (hd : fs.Pairwise (fun f g => SeqDisj c f.run g.run)) :
    newestVisible c (fs.flatMap (·.run)) k s = newestVisible c (fs'.flatMap (·.run)) k s := by
  rw [newestVisible_flatMap_eq_foldr, newestVisible_flatMap_eq_foldr]
  apply List.Perm.foldr_eq' hp
  intro x hx y hy z
  by_cases hxy : x = y
  · subst hxy; rfl
  · have hD := pairwise_symm_mem hd SeqDisj.symm hx hy hxy
    apply pick_left_comm
    intro a ha b hb
    obtain ⟨ha1, ha2, _⟩ := newestVisible_mem ha
    obtain ⟨hb1, hb2, _⟩ := newestVisible_mem hb
    exact hD a ha1 b hb1 (by rw [ha2, hb2]; exact compare_refl c k)

/-! ### the shape of a state with seven levels -/

theorem levels_eq_cons {st : DbState} (h : st.levels.length = 7) :
    st.levels = st.level 0 :: st.levels.drop 1 := by
  unfold DbState.level
  match hl : st.levels, h with
  | a :: l, _ => simp

theorem drop_one_levels {st : DbState} (h : st.levels.length = 7) :
    st.levels.drop 1 = (List.range 6).map (fun i => st.level (i + 1)) := by
  unfold DbState.level
  match hl : st.levels, h with
  | [a, b, c, d, e, f, g], _ => rfl

theorem mem_allFiles_of_mem_level {st : DbState} {l : Nat} {f : FileMeta} (h : f ∈ st.level l) :
    f ∈ allFiles st := by
  unfold DbState.level at h
  rw [List.getD_eq_getElem?_getD] at h
  unfold allFiles
  cases hl : st.levels[l]? with
  | none => rw [hl] at h; simp at h
  | some fs =>
    rw [hl] at h
    exact List.mem_flatten.mpr ⟨fs, List.mem_of_getElem? hl, h⟩

theorem flatten_map_flatMap {α β} (g : α → List β) (L : List (List α)) :
    (L.map (fun fs => fs.flatMap g)).flatten = L.flatten.flatMap g := by
  induction L with
  | nil => rfl
  | cons a L ih => simp [ih]

theorem findSome?_filterMap {α β γ} (f : α → Option β) (g : β → Option γ) (l : List α) :
    (l.filterMap f).findSome? g = l.findSome? (fun a => (f a).bind g) := by
  induction l with
  | nil => rfl
  | cons a l ih =>
    rw [List.filterMap_cons]
    cases h : f a with
    | none => simp [h, ih]
    | some b => simp [List.findSome?_cons, h, ih]

theorem findSome?_congr' {α β} {f g : α → Option β} {l : List α} (h : ∀ x ∈ l, f x = g x) :
    l.findSome? f = l.findSome? g := by
  induction l with
  | nil => rfl
  | cons a l ih =>
    rw [List.findSome?_cons, List.findSome?_cons, h a List.mem_cons_self,
      ih (fun x hx => h x (List.mem_cons_of_mem _ hx))]

/-! ### `searchOrder` versus `sourceRuns` -/

/-- the implementation's search (candidate level-0 files, one file per deeper level) finds what a
    first-hit search over *all* sources in recency order finds -/
theorem getEntry_eq_findSome_sourceRuns (c : Cmp) (st : DbState) (k : Bytes) (s : Nat)
    (hn : st.levels.length = 7) (hok : ∀ f ∈ allFiles st, FileOk c f)
    (hls : ∀ l, 1 ≤ l → LevelSorted c (st.level l)) :
    getEntry c st k s = (sourceRuns st).findSome? (fun r => runGet c r k s) := by
  unfold getEntry searchOrder sourceRuns
  simp only [List.findSome?_append]
  congr 1
  · congr 1
    rw [List.findSome?_map, List.findSome?_map]
    exact l0_search_eq c (st.level 0) k s (fun f hf => hok f (mem_allFiles_of_mem_level hf))
  · rw [drop_one_levels hn, List.findSome?_map, List.findSome?_map, findSome?_filterMap]
    show (List.range 6).findSome? _ = _
    simp only [Function.comp_def]
    apply findSome?_congr'
    intro i _
    rw [Option.bind_map]
    exact levelGet_eq_lookup_concat c (st.level (i + 1)) k s (hls (i + 1) (by omega))
      (fun f hf => hok f (mem_allFiles_of_mem_level hf))

/-! ### `sourceRuns` versus `allEntries` -/

theorem mem_sourceRuns {st : DbState} (hn : st.levels.length = 7) {r : Run} (h : r ∈ sourceRuns st) :
    r = st.mem ∨ st.imm = some r ∨ (∃ f ∈ st.level 0, r = f.run) ∨
      (∃ l, 1 ≤ l ∧ r = (st.level l).flatMap (·.run)) := by
  simp only [sourceRuns, drop_one_levels hn, List.mem_append, List.mem_cons, List.not_mem_nil,
    or_false, Option.mem_toList, List.mem_map, List.mem_mergeSort, List.mem_range] at h
  rcases h with ((h | h) | ⟨f, hf, rfl⟩) | ⟨fs, ⟨i, _, rfl⟩, rfl⟩
  · exact .inl h
  · exact .inr (.inl h)
  · exact .inr (.inr (.inl ⟨f, hf, rfl⟩))
  · exact .inr (.inr (.inr ⟨i + 1, by omega, rfl⟩))

theorem sourceRuns_flatten (st : DbState) :
    (sourceRuns st).flatten = st.mem ++ st.imm.getD []
      ++ ((st.level 0).mergeSort (fun a b => decide (a.num ≥ b.num))).flatMap (·.run)
      ++ (st.levels.drop 1).flatten.flatMap (·.run) := by
  unfold sourceRuns
  simp only [List.flatten_append, flatten_map_flatMap]
  congr 1
  congr 1
  cases st.imm <;> simp

theorem allEntries_eq {st : DbState} (hn : st.levels.length = 7) :
    allEntries st = st.mem ++ st.imm.getD [] ++ (st.level 0).flatMap (·.run)
      ++ (st.levels.drop 1).flatten.flatMap (·.run) := by
  have h : st.levels.flatten = st.level 0 ++ (st.levels.drop 1).flatten := by
    conv => lhs; rw [levels_eq_cons hn]
    rw [List.flatten_cons]
  unfold allEntries allFiles
  rw [h, List.flatMap_append, List.append_assoc, List.append_assoc, List.append_assoc]

theorem mem_sourceRuns_flatten_iff {st : DbState} (hn : st.levels.length = 7) {e : Entry} :
    e ∈ (sourceRuns st).flatten ↔ e ∈ allEntries st := by
  rw [sourceRuns_flatten, allEntries_eq hn]
  simp only [List.mem_append, List.mem_flatMap, List.mem_mergeSort]

theorem sourceRuns_sorted {c : Cmp} {st : DbState} (h : Inv c st) :
    ∀ r ∈ sourceRuns st, RunSorted c r := by
  intro r hr
  rcases mem_sourceRuns h.nlevels hr with rfl | hi | ⟨f, hf, rfl⟩ | ⟨l, hl, rfl⟩
  · exact h.memSorted
  · exact h.immSorted r (by simp [hi])
  · exact (h.filesOk f (mem_allFiles_of_mem_level hf)).1
  · exact levelRun_sorted c _ (h.levelsSorted l hl)
      (fun f hf => h.filesOk f (mem_allFiles_of_mem_level hf))

theorem sourceRuns_kinds {c : Cmp} {st : DbState} (h : Inv c st) :
    ∀ r ∈ sourceRuns st, ∀ e ∈ r, e.kind ≤ 1 := fun r hr e he =>
  h.kinds e ((mem_sourceRuns_flatten_iff h.nlevels).mp (List.mem_flatten.mpr ⟨r, hr, he⟩))

theorem l0_seqDisj {c : Cmp} {st : DbState} (h : Inv c st) :
    ((st.level 0).mergeSort (fun a b => decide (a.num ≥ b.num))).Pairwise
      (fun f g => SeqDisj c f.run g.run) := by
  have h1 := h.recency
  unfold sourceRuns at h1
  have h2 := (List.pairwise_append.mp (List.pairwise_append.mp h1).1).2.1
  exact (List.pairwise_map.mp h2).imp NewerThan.seqDisj

/-- the entry-level refinement: under the invariant the implementation's search returns exactly
    the newest visible entry among all entries of the state -/
theorem getEntry_eq_newestVisible (c : Cmp) (st : DbState) (h : Inv c st) (k : Bytes) (s : Nat) :
    getEntry c st k s = newestVisible c (allEntries st) k s := by
  rw [getEntry_eq_findSome_sourceRuns c st k s h.nlevels h.filesOk h.levelsSorted,
    firstHit_eq_newest c (sourceRuns st) k s h.recency (sourceRuns_sorted h) (sourceRuns_kinds h),
    sourceRuns_flatten, allEntries_eq h.nlevels]
  simp only [newestVisible_append]
  rw [newestVisible_flatMap_perm c k s (List.mergeSort_perm _ _) (l0_seqDisj h)]

theorem level_eq_nil_of_ge {st : DbState} {l : Nat} (h : st.levels.length ≤ l) : st.level l = [] := by
  unfold DbState.level
  rw [List.getD_eq_getElem?_getD, List.getElem?_eq_none h]; rfl

theorem levelsSorted_of_range {c : Cmp} {st : DbState} (hn : st.levels.length = 7)
    (h : ∀ l ∈ List.range 7, 1 ≤ l → LevelSorted c (st.level l)) :
    ∀ l, 1 ≤ l → LevelSorted c (st.level l) := by
  intro l hl
  by_cases hl7 : l < 7
  · exact h l (List.mem_range.mpr hl7) hl
  · rw [level_eq_nil_of_ge (by omega)]; exact List.Pairwise.nil

theorem ite_some_none {p : Prop} [Decidable p] {a : String} {b : Option String}
    (h : (if p then some a else b) = none) : ¬ p ∧ b = none := by
  by_cases hp : p
  · rw [if_pos hp] at h; cases h
  · rw [if_neg hp] at h; exact ⟨hp, h⟩

theorem invCheck_sound (c : Cmp) (st : DbState) (h : invCheck c st = none) : Inv c st := by
  unfold invCheck at h
  obtain ⟨h1, h⟩ := ite_some_none h
  obtain ⟨h2, h⟩ := ite_some_none h
  obtain ⟨h3, h⟩ := ite_some_none h
  obtain ⟨h4, h⟩ := ite_some_none h
  obtain ⟨h5, h⟩ := ite_some_none h
  obtain ⟨h6, h⟩ := ite_some_none h
  obtain ⟨h7, h⟩ := ite_some_none h
  obtain ⟨h8, h⟩ := ite_some_none h
  obtain ⟨h9, h⟩ := ite_some_none h
  obtain ⟨h10, h⟩ := ite_some_none h
  obtain ⟨h11, _⟩ := ite_some_none h
  have h1 := Decidable.not_not.mp h1
  exact {
    nlevels := h1
    memSorted := Decidable.not_not.mp h2
    immSorted := Decidable.not_not.mp h3
    filesOk := Decidable.not_not.mp h4
    levelsSorted := levelsSorted_of_range h1 (Decidable.not_not.mp h5)
    recency := Decidable.not_not.mp h6
    seqBound := Decidable.not_not.mp h7
    kinds := Decidable.not_not.mp h8
    numsDistinct := Decidable.not_not.mp h9
    numsBound := Decidable.not_not.mp h10
    snapsBound := Decidable.not_not.mp h11 }

end Lcdb.Lsm
