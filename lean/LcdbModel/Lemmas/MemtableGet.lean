/-
  Helper lemmas for Model/Memtable.lean, part 3: `ldb_memtable_get`, one step of the memtable iterator
  against the cursor over the run, `ldb_memtable_add` with the height drawn from the generator.
-/
import LcdbModel.Lemmas.MemtableIter
import LcdbModel.Lemmas.SkiplistSpec
namespace Lcdb.Memtable
open Lcdb Lcdb.Skiplist

/-- `Lsm.runGet` on memtable entries -/
def mrunGet (c : Cmp) (es : List MEntry) (k : Bytes) (s : Nat) : Option MEntry :=
  match es.find? (fun e => !ikLt c e.ukey e.packed k (seekPacked s)) with
  | some e => if c.compare e.ukey k == .eq then some e else none
  | none => none

theorem mrunGet_toEntry (c : Cmp) (tok : Bytes → String) (es : List MEntry) (k : Bytes) (s : Nat) :
    (mrunGet c es k s).map (MEntry.toEntry tok) = runGet c (es.map (MEntry.toEntry tok)) k s := by
  unfold mrunGet runGet runSeek
  rw [List.find?_map]
  have : ((fun e : Entry => !ikLt c e.ukey e.packed k (seekPacked s)) ∘ MEntry.toEntry tok)
      = (fun e : MEntry => !ikLt c e.ukey e.packed k (seekPacked s)) := rfl
  rw [this]
  cases es.find? (fun e : MEntry => !ikLt c e.ukey e.packed k (seekPacked s)) with
  | none => rfl
  | some e =>
    simp only [Option.map_some]
    show Option.map _ (if c.compare e.ukey k == .eq then some e else none) = if c.compare e.ukey k == .eq then _ else _
    split <;> rfl

/-- what `ldb_memtable_get` answers when the seek lands on entry `e` (or past the end) -/
def getResultOf : Option MEntry → GetResult
  | none => .notFound
  | some e => if e.kind = 1 then .found e.val else if e.kind = 0 then .deleted else .notFound

theorem getAt_enc (c : Cmp) (k : Bytes) {e : MEntry} (he : e.wf) :
    getAt c k e.enc = some (if c.compare e.ukey k == .eq then getResultOf (some e) else .notFound) := by
  unfold getAt MEntry.enc
  rw [sliceRead_encodeEntry _ _ _ _ he.1]
  simp only
  have hl : ¬ (ikeyEnc e.ukey e.seq e.kind).length < 8 := by
    unfold ikeyEnc; rw [List.length_append, fixedEnc_length]; omega
  have hu : ikeyUser (ikeyEnc e.ukey e.seq e.kind) = e.ukey := ikeyUser_enc _ _
  have hn : ikeyNum (ikeyEnc e.ukey e.seq e.kind) = packSeqType e.seq e.kind := ikeyNum_enc _ _ (MEntry.packed_lt he)
  rw [if_neg hl, hu, hn]
  have hv := sliceRead_sliceEnc e.val [] he.2.1
  unfold sliceEnc at hv
  simp only [List.append_nil] at hv
  have hk : packSeqType e.seq e.kind % 256 = e.kind := by
    have := he.2.2.2; unfold packSeqType; omega
  rw [hk, hv]
  by_cases hc : (c.compare e.ukey k == .eq) = true
  · simp only [hc, if_true, getResultOf]
    by_cases h1 : e.kind = 1
    · simp [h1]
    · by_cases h0 : e.kind = 0
      · simp [h0]
      · simp [h1, h0]
  · simp [hc]

theorem get_spec {mt : Memtable} {es : List MEntry} (h : Holds mt es) (k : Bytes) (s : Nat)
    (hk : k.length + 8 < 2 ^ 32) (hs : s < 2 ^ 56) :
    get mt k s = some (getResultOf (mrunGet mt.c es k s)) := by
  obtain ⟨L, ha⟩ := h.aligned
  unfold get
  simp only [hk, hs, decide_true, Bool.and_self, Bool.not_true]
  rw [lookupKey_eq]
  obtain ⟨j, hseek, _, hfind⟩ := seek_spec (fun _ => "") ha k (seekPacked s) hk (by unfold seekPacked valtypeSeek; omega)
  have e1 : ikeyEnc k s valtypeSeek = k ++ fixedEnc 8 (seekPacked s) := rfl
  rw [e1, hseek]
  unfold mrunGet
  rw [hfind]
  by_cases hj : j < L.length
  · have hj' : j < es.length := by rw [← ha.len]; exact hj
    simp only [List.getElem?_eq_getElem hj, List.getElem?_eq_getElem hj', Bool.false_eq_true, if_false]
    rw [ha.key j hj hj']
    simp only
    rw [getAt_enc mt.c k (ha.wf _ (List.getElem_mem hj'))]
    by_cases hc : (mt.c.compare es[j].ukey k == .eq) = true
    · simp [hc]
    · simp [hc, getResultOf]
  · have hj' : ¬ j < es.length := by rw [← ha.len]; exact hj
    simp [List.getElem?_eq_none (Nat.le_of_not_lt hj), List.getElem?_eq_none (Nat.le_of_not_lt hj'), getResultOf]

/-! ### the iterator, one operation -/

/-- seek targets within which nothing is truncated (`ldb_slice_export` writes the size as a varint32) -/
def SeekOk : InternalOp → Prop
  | .seek k pk => k.length + 8 < 2 ^ 32 ∧ pk < 2 ^ 64
  | _ => True

theorem memiter_observe (tok : Bytes → String) {mt : Memtable} {es : List MEntry} {L : List Nat} (ha : Aligned mt es L)
    {it : Iter} {p : Option Nat} (hr : IterRel L it p) :
    (memIter tok mt).valid it = (runIter mt.c (es.map (MEntry.toEntry tok))).valid p ∧
    (memIter tok mt).entry it = (runIter mt.c (es.map (MEntry.toEntry tok))).entry p := by
  obtain ⟨rfl, hb⟩ := hr
  cases p with
  | none => simp [memIter, runIter, iterValid, runEntry, iterEntry, iterKV, iterKey]
  | some i =>
    have hi := hb i rfl
    have hi' : i < es.length := by rw [← ha.len]; exact hi
    simp only [memIter, runIter, Option.bind_some, List.getElem?_eq_getElem hi, iterValid, runEntry,
      iterEntry_at tok ha i hi hi', List.getElem?_map, List.getElem?_eq_getElem hi', Option.map_some, Option.isSome_some]
    exact ⟨trivial, trivial⟩

theorem memiter_step (tok : Bytes → String) {mt : Memtable} {es : List MEntry} {L : List Nat} (ha : Aligned mt es L)
    (op : InternalOp) (hop : SeekOk op) {it : Iter} {p : Option Nat} (hr : IterRel L it p) :
    ∃ it' p', (memIter tok mt).apply op it = some it' ∧
      (runIter mt.c (es.map (MEntry.toEntry tok))).apply op p = some p' ∧ IterRel L it' p' := by
  have hobs := memiter_observe tok ha hr
  have hlen := ha.len
  have hc := memKeyCmp_ok mt.c
  cases op with
  | first =>
    refine ⟨L.head?, runFirst (es.map (MEntry.toEntry tok)), ?_, rfl, ?_⟩
    · simp [InternalIter.apply, memIter, iterFirst_spec ha.inv]
    · cases L with
      | nil =>
        have : es = [] := List.eq_nil_of_length_eq_zero (by simpa using hlen.symm)
        subst this; exact IterRel.none
      | cons a t =>
        have : es ≠ [] := by intro e; subst e; simp at hlen
        simp [runFirst, this, IterRel]
  | last =>
    refine ⟨L.getLast?, runLast (es.map (MEntry.toEntry tok)), ?_, rfl, ?_⟩
    · simp [InternalIter.apply, memIter, iterLast_spec ha.inv]
    · by_cases hL : L = []
      · subst hL
        have : es = [] := List.eq_nil_of_length_eq_zero (by simpa using hlen.symm)
        subst this; exact IterRel.none
      · have hes : es ≠ [] := by intro e; subst e; simp at hlen; exact hL hlen
        have hpos : 0 < L.length := List.length_pos_iff.mpr hL
        simp only [runLast, List.isEmpty_map, List.isEmpty_iff, hes, Bool.false_eq_true, if_false, List.length_map, IterRel]
        refine ⟨?_, fun i hi => by cases hi; omega⟩
        rw [List.getLast?_eq_getElem?, hlen]; rfl
  | seek k pk =>
    obtain ⟨hk, hpk⟩ := hop
    obtain ⟨j, hseek, hidx, _⟩ := seek_spec tok ha k pk hk hpk
    refine ⟨L[j]?, (if j < L.length then some j else none), ?_, ?_, iterRel_of_getElem? j⟩
    · have hl : (k ++ fixedEnc 8 pk).length < 2 ^ 32 := by rw [List.length_append, fixedEnc_length]; omega
      simp only [InternalIter.apply, memIter, iterSeekKey, decide_eq_true hl, Bool.not_true, Bool.false_eq_true, if_false]
      exact hseek
    · simp [InternalIter.apply, runIter, hidx]
  | next =>
    simp only [InternalIter.apply, hobs.1]
    obtain ⟨rfl, hb⟩ := hr
    cases p with
    | none => exact ⟨none, none, by simp [runIter, runEntry], by simp [runIter, runEntry], IterRel.none⟩
    | some i =>
      have hi := hb i rfl
      have hi' : i < (es.map (MEntry.toEntry tok)).length := by simp; omega
      have hv : (runEntry (es.map (MEntry.toEntry tok)) (some i)).isSome = true := by
        have : i < es.length := by omega
        simp [runEntry, this]
      refine ⟨L[i + 1]?, (if i + 1 < L.length then some (i + 1) else none), ?_, ?_, iterRel_of_getElem? (i + 1)⟩
      · simp only [runIter, hv, if_true, memIter, Option.bind_some, List.getElem?_eq_getElem hi]
        exact iterNext_spec ha.inv i hi
      · simp only [runIter, hv, if_true, runNext]
        rw [if_pos hi']
        simp only [List.length_map, hlen]
  | prev =>
    simp only [InternalIter.apply, hobs.1]
    obtain ⟨rfl, hb⟩ := hr
    cases p with
    | none => exact ⟨none, none, by simp [runIter, runEntry], by simp [runIter, runEntry], IterRel.none⟩
    | some i =>
      have hi := hb i rfl
      have hi' : i < (es.map (MEntry.toEntry tok)).length := by simp; omega
      have hv : (runEntry (es.map (MEntry.toEntry tok)) (some i)).isSome = true := by
        have : i < es.length := by omega
        simp [runEntry, this]
      have hp := iterPrev_spec hc ha.inv i hi
      cases i with
      | zero =>
        refine ⟨none, none, ?_, ?_, IterRel.none⟩
        · simp only [runIter, hv, if_true, memIter, Option.bind_some, List.getElem?_eq_getElem hi]
          simpa using hp
        · simp only [runIter, hv, if_true, runPrev]
          rw [if_pos hi']
      | succ j =>
        have hj : j < L.length := by omega
        refine ⟨L[j]?, some j, ?_, ?_, ?_⟩
        · simp only [runIter, hv, if_true, memIter, Option.bind_some, List.getElem?_eq_getElem hi]
          simpa using hp
        · simp only [runIter, hv, if_true, runPrev]
          rw [if_pos hi']
        · exact ⟨by simp, fun i hi => by cases hi; exact hj⟩

/-! ### add with the height from the generator -/

theorem randomHeight_ok (s : Nat) (hs : 1 ≤ s ∧ s < randM) :
    1 ≤ (randomHeight s).2 ∧ (randomHeight s).2 ≤ kMaxHeight ∧ 1 ≤ (randomHeight s).1 ∧ (randomHeight s).1 < randM := by
  have := randHeightGo_range (kMaxHeight - 1) 1 s hs
  unfold randomHeight
  simp only [kMaxHeight] at *
  omega

theorem add_holds {mt : Memtable} {es : List MEntry} (h : Holds mt es) (hr : 1 ≤ mt.table.rnd ∧ mt.table.rnd < randM)
    (e : MEntry) (he : e.wf) (hnew : ∀ x ∈ es, ¬ (x.ukey = e.ukey ∧ x.packed = e.packed)) :
    ∃ mt', add mt e.ukey e.seq e.kind e.val = some mt' ∧ mt'.c = mt.c ∧ Holds mt' (mrunInsert mt.c e es) ∧
      1 ≤ mt'.table.rnd ∧ mt'.table.rnd < randM := by
  have hh := randomHeight_ok mt.table.rnd hr
  let mt0 : Memtable := { mt with table := { mt.table with rnd := (randomHeight mt.table.rnd).1 } }
  have h0 : Holds mt0 es := by
    obtain ⟨hwf, L, hinv, hk⟩ := h
    refine ⟨hwf, L, ?_, hk⟩
    exact ⟨hinv.headKey, hinv.headHeight, hinv.mem_iff, hinv.len, hinv.sorted, hinv.hasKey, hinv.heights, hinv.mhRange,
      hinv.mhExact, hinv.next⟩
  obtain ⟨mt', hrun, hc, hholds, hrnd⟩ := addH_holds h0 e he (randomHeight mt.table.rnd).2 ⟨hh.1, hh.2.1⟩ hnew
  refine ⟨mt', ?_, hc, hholds, ?_⟩
  · unfold add
    rw [argsOk_of_wf he]
    unfold addH at hrun
    rw [argsOk_of_wf he] at hrun
    simpa [insertRand] using hrun
  · rw [hrnd]; exact ⟨hh.2.2.1, hh.2.2.2⟩

/-! ### sequences of adds -/

/-- no internal key (user key, sequence, type) twice -/
def DistinctIKeys (es : List MEntry) : Prop :=
  es.Pairwise (fun a b => ¬ (a.ukey = b.ukey ∧ a.packed = b.packed))

/-- `ldb_memtable_add` repeatedly, node heights given -/
def addManyH : Memtable → List (MEntry × Nat) → Option Memtable
  | mt, [] => some mt
  | mt, (e, h) :: rest =>
    match addH mt e.ukey e.seq e.kind e.val h with
    | none => none
    | some mt' => addManyH mt' rest

/-- `ldb_memtable_add` repeatedly, node heights from the generator -/
def addMany : Memtable → List MEntry → Option Memtable
  | mt, [] => some mt
  | mt, e :: rest =>
    match add mt e.ukey e.seq e.kind e.val with
    | none => none
    | some mt' => addMany mt' rest

theorem foldl_mrunInsert_toEntry (c : Cmp) (tok : Bytes → String) (l acc : List MEntry) :
    (l.foldl (fun r e => mrunInsert c e r) acc).map (MEntry.toEntry tok) =
      (l.map (MEntry.toEntry tok)).foldl (fun r e => runInsert c e r) (acc.map (MEntry.toEntry tok)) := by
  induction l generalizing acc with
  | nil => rfl
  | cons e t ih => simp only [List.foldl_cons, List.map_cons]; rw [ih, mrunInsert_toEntry]

theorem addManyH_holds (ehs : List (MEntry × Nat)) :
    ∀ (mt : Memtable) (es : List MEntry), Holds mt es →
      (∀ eh ∈ ehs, eh.1.wf ∧ 1 ≤ eh.2 ∧ eh.2 ≤ kMaxHeight) →
      (∀ eh ∈ ehs, ∀ x ∈ es, ¬ (x.ukey = eh.1.ukey ∧ x.packed = eh.1.packed)) →
      DistinctIKeys (ehs.map (·.1)) →
      ∃ mt', addManyH mt ehs = some mt' ∧ mt'.c = mt.c ∧
        Holds mt' ((ehs.map (·.1)).foldl (fun r e => mrunInsert mt.c e r) es) := by
  induction ehs with
  | nil => intro mt es h _ _ _; exact ⟨mt, rfl, rfl, h⟩
  | cons eh rest ih =>
    intro mt es h hwf hnew hd
    obtain ⟨e, ht⟩ := eh
    have h1 := hwf (e, ht) (by simp)
    obtain ⟨mt1, hrun, hc1, hh1, _⟩ := addH_holds h e h1.1 ht h1.2 (hnew (e, ht) (by simp))
    simp only [List.map_cons, DistinctIKeys, List.pairwise_cons] at hd
    obtain ⟨mt', hrun', hc', hh'⟩ := ih mt1 (mrunInsert mt.c e es) hh1 (fun x hx => hwf x (by simp [hx]))
      (by
        intro eh' hm x hx
        rcases mem_mrunInsert.mp hx with rfl | hx
        · exact hd.1 eh'.1 (List.mem_map.mpr ⟨eh', hm, rfl⟩)
        · exact hnew eh' (by simp [hm]) x hx)
      hd.2
    refine ⟨mt', by simp [addManyH, hrun, hrun'], by rw [hc', hc1], ?_⟩
    rw [hc1] at hh'
    exact hh'

theorem addMany_holds (ws : List MEntry) :
    ∀ (mt : Memtable) (es : List MEntry), Holds mt es → (1 ≤ mt.table.rnd ∧ mt.table.rnd < randM) →
      (∀ e ∈ ws, e.wf) →
      (∀ e ∈ ws, ∀ x ∈ es, ¬ (x.ukey = e.ukey ∧ x.packed = e.packed)) →
      DistinctIKeys ws →
      ∃ mt', addMany mt ws = some mt' ∧ mt'.c = mt.c ∧
        Holds mt' (ws.foldl (fun r e => mrunInsert mt.c e r) es) := by
  induction ws with
  | nil => intro mt es h _ _ _ _; exact ⟨mt, rfl, rfl, h⟩
  | cons e rest ih =>
    intro mt es h hr hwf hnew hd
    obtain ⟨mt1, hrun, hc1, hh1, hr1⟩ := add_holds h hr e (hwf e (by simp)) (hnew e (by simp))
    simp only [DistinctIKeys, List.pairwise_cons] at hd
    obtain ⟨mt', hrun', hc', hh'⟩ := ih mt1 (mrunInsert mt.c e es) hh1 hr1 (fun x hx => hwf x (by simp [hx]))
      (by
        intro e' hm x hx
        rcases mem_mrunInsert.mp hx with rfl | hx
        · exact hd.1 e' hm
        · exact hnew e' (by simp [hm]) x hx)
      hd.2
    refine ⟨mt', by simp [addMany, hrun, hrun'], by rw [hc', hc1], ?_⟩
    rw [hc1] at hh'
    exact hh'

theorem length_mrunInsert (c : Cmp) (e : MEntry) (es : List MEntry) : (mrunInsert c e es).length = es.length + 1 := by
  induction es with
  | nil => rfl
  | cons x xs ih => unfold mrunInsert; split <;> simp [ih]

theorem length_foldl_mrunInsert (c : Cmp) (l acc : List MEntry) :
    (l.foldl (fun r e => mrunInsert c e r) acc).length = acc.length + l.length := by
  induction l generalizing acc with
  | nil => rfl
  | cons e t ih => simp only [List.foldl_cons, ih, length_mrunInsert, List.length_cons]; omega

end Lcdb.Memtable
