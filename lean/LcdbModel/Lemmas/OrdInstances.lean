/-
  The comparators of the model satisfy `OrdLaws`: the bytewise comparator, the three user
  comparators of `Cmp`, and the internal-key comparator built on top of any of them.
-/
import LcdbModel.Lemmas.CursorDefs
import LcdbModel.Model.InternalKey
namespace Lcdb

/-! ### bytes -/

private theorem u8_eq_of_not_lt {a b : UInt8} (h1 : ¬ a < b) (h2 : ¬ b < a) : a = b :=
  UInt8.le_antisymm (UInt8.not_lt.mp h2) (UInt8.not_lt.mp h1)

theorem bytesCmp_refl (a : Bytes) : bytesCmp a a = .eq := by
  induction a with
  | nil => rfl
  | cons x xs ih => simp [bytesCmp, UInt8.lt_irrefl, ih]

/-- flipping the arguments swaps the result -/
theorem bytesCmp_swap (a b : Bytes) : bytesCmp b a = (bytesCmp a b).swap := by
  induction a generalizing b with
  | nil => cases b <;> rfl
  | cons x xs ih =>
    cases b with
    | nil => rfl
    | cons y ys =>
      simp only [bytesCmp, GT.gt]
      by_cases h1 : x < y
      · have h2 : ¬ y < x := UInt8.lt_asymm h1
        simp [h1, h2]
      · by_cases h2 : y < x
        · simp [h1, h2]
        · simp [h1, h2, ih ys]

theorem bytesCmp_eq_iff (a b : Bytes) : bytesCmp a b = .eq ↔ a = b := by
  constructor
  · intro h
    induction a generalizing b with
    | nil => cases b with
      | nil => rfl
      | cons y ys => simp [bytesCmp] at h
    | cons x xs ih =>
      cases b with
      | nil => simp [bytesCmp] at h
      | cons y ys =>
        simp only [bytesCmp, GT.gt] at h
        by_cases h1 : x < y
        · simp [h1] at h
        · by_cases h2 : y < x
          · simp [h1, h2] at h
          · simp only [h1, h2, if_false] at h
            rw [u8_eq_of_not_lt h1 h2, ih ys h]
  · rintro rfl; exact bytesCmp_refl a

theorem bytesCmp_lt_iff_gt (a b : Bytes) : bytesCmp a b = .lt ↔ bytesCmp b a = .gt := by
  rw [bytesCmp_swap a b]; cases bytesCmp a b <;> simp [Ordering.swap]

theorem bytesCmp_gt_iff_lt (a b : Bytes) : bytesCmp a b = .gt ↔ bytesCmp b a = .lt := by
  rw [bytesCmp_swap a b]; cases bytesCmp a b <;> simp [Ordering.swap]

theorem bytesCmp_lt_trans (a b c : Bytes) (h1 : bytesCmp a b = .lt) (h2 : bytesCmp b c = .lt) :
    bytesCmp a c = .lt := by
  induction a generalizing b c with
  | nil =>
    cases c with
    | nil => cases b <;> simp [bytesCmp] at h1 h2
    | cons z zs => rfl
  | cons x xs ih =>
    cases b with
    | nil => simp [bytesCmp] at h1
    | cons y ys =>
      cases c with
      | nil => simp [bytesCmp] at h2
      | cons z zs =>
        simp only [bytesCmp, GT.gt] at h1 h2 ⊢
        by_cases hxy : x < y
        · by_cases hyz : y < z
          · simp [UInt8.lt_trans hxy hyz]
          · by_cases hzy : z < y
            · simp [hyz, hzy] at h2
            · have : y = z := u8_eq_of_not_lt hyz hzy
              subst this; simp [hxy]
        · by_cases hyx : y < x
          · simp [hxy, hyx] at h1
          · have : x = y := u8_eq_of_not_lt hxy hyx
            subst this
            simp only [hxy, if_false] at h1
            by_cases hxz : x < z
            · simp [hxz]
            · by_cases hzx : z < x
              · simp [hxz, hzx] at h2
              · simp only [hxz, hzx, if_false] at h2 ⊢
                exact ih ys zs h1 h2

theorem ordLaws_bytesCmp : OrdLaws bytesCmp where
  refl := bytesCmp_refl
  gt_iff := bytesCmp_gt_iff_lt
  lt_trans := bytesCmp_lt_trans
  eq_left := by
    intro a b c h
    rw [(bytesCmp_eq_iff a b).mp h]

/-! ### generic constructions -/

/-- flipping the arguments swaps the result (local copy; `Lemmas/Cursor.lean` has `OrdLaws.swap`) -/
private theorem ordSwap {cmp : Bytes → Bytes → Ordering} (h : OrdLaws cmp) (a b : Bytes) :
    cmp b a = (cmp a b).swap := by
  cases hab : cmp a b with
  | lt => exact (h.gt_iff b a).mpr hab
  | gt => exact (h.gt_iff a b).mp hab
  | eq =>
    cases hba : cmp b a with
    | eq => rfl
    | lt => rw [(h.gt_iff a b).mpr hba] at hab; cases hab
    | gt => rw [(h.gt_iff b a).mp hba] at hab; cases hab

private theorem ordEqRight {cmp : Bytes → Bytes → Ordering} (h : OrdLaws cmp) {a b : Bytes}
    (c : Bytes) (hab : cmp a b = .eq) : cmp c a = cmp c b := by
  rw [ordSwap h a c, ordSwap h b c, h.eq_left a b c hab]

/-- the flipped comparator -/
theorem OrdLaws.flip {cmp : Bytes → Bytes → Ordering} (h : OrdLaws cmp) :
    OrdLaws (fun a b => cmp b a) where
  refl := h.refl
  gt_iff := fun a b => h.gt_iff b a
  lt_trans := fun a b c h1 h2 => h.lt_trans c b a h2 h1
  eq_left := fun _ _ c hab => (ordEqRight h c hab).symm

/-- a `Nat`-valued measure first (ascending), then `cmp` -/
def natThen (f : Bytes → Nat) (cmp : Bytes → Bytes → Ordering) (a b : Bytes) : Ordering :=
  if f a < f b then .lt else if f a > f b then .gt else cmp a b

theorem OrdLaws.natThen {cmp : Bytes → Bytes → Ordering} (h : OrdLaws cmp) (f : Bytes → Nat) :
    OrdLaws (natThen f cmp) where
  refl := fun a => by simp [Lcdb.natThen, h.refl]
  gt_iff := fun a b => by
    simp only [Lcdb.natThen, GT.gt]
    rcases Nat.lt_trichotomy (f a) (f b) with hlt | heq | hgt
    · simp [hlt, Nat.lt_asymm hlt]
    · simp [heq, h.gt_iff a b]
    · simp [hgt, Nat.lt_asymm hgt]
  lt_trans := fun a b c => by
    simp only [Lcdb.natThen, GT.gt]
    intro h1 h2
    rcases Nat.lt_trichotomy (f a) (f b) with hab | hab | hab
    · rcases Nat.lt_trichotomy (f b) (f c) with hbc | hbc | hbc
      · simp [Nat.lt_trans hab hbc]
      · simp [← hbc, hab]
      · simp [hbc, Nat.lt_asymm hbc] at h2
    · rcases Nat.lt_trichotomy (f b) (f c) with hbc | hbc | hbc
      · simp [hab, hbc]
      · simp only [hab, hbc, Nat.lt_irrefl, if_false] at h1 h2 ⊢
        exact h.lt_trans a b c h1 h2
      · simp [hbc, Nat.lt_asymm hbc] at h2
    · simp [hab, Nat.lt_asymm hab] at h1
  eq_left := fun a b c => by
    simp only [Lcdb.natThen, GT.gt]
    intro h1
    rcases Nat.lt_trichotomy (f a) (f b) with hab | hab | hab
    · simp [hab] at h1
    · simp only [hab, Nat.lt_irrefl, if_false] at h1
      rw [hab, h.eq_left a b c h1]
    · simp [hab, Nat.lt_asymm hab] at h1

/-- `cmp` on a projection first, then a `Nat`-valued measure *descending* -/
def thenNatDesc (cmp : Bytes → Bytes → Ordering) (f : Bytes → Bytes) (g : Bytes → Nat)
    (x y : Bytes) : Ordering :=
  match cmp (f x) (f y) with
  | .eq => if g x > g y then .lt else if g x < g y then .gt else .eq
  | o => o

theorem thenNatDesc_of_lt {cmp : Bytes → Bytes → Ordering} {f : Bytes → Bytes} {g : Bytes → Nat}
    {x y : Bytes} (h : cmp (f x) (f y) = .lt) : thenNatDesc cmp f g x y = .lt := by
  simp [thenNatDesc, h]

theorem thenNatDesc_of_gt {cmp : Bytes → Bytes → Ordering} {f : Bytes → Bytes} {g : Bytes → Nat}
    {x y : Bytes} (h : cmp (f x) (f y) = .gt) : thenNatDesc cmp f g x y = .gt := by
  simp [thenNatDesc, h]

theorem thenNatDesc_of_eq {cmp : Bytes → Bytes → Ordering} {f : Bytes → Bytes} {g : Bytes → Nat}
    {x y : Bytes} (h : cmp (f x) (f y) = .eq) :
    thenNatDesc cmp f g x y = if g y < g x then .lt else if g x < g y then .gt else .eq := by
  simp [thenNatDesc, h]

/-- `.eq` under the combination: the projections compare `.eq` and the measures agree -/
theorem thenNatDesc_eq_iff {cmp : Bytes → Bytes → Ordering} {f : Bytes → Bytes} {g : Bytes → Nat}
    {x y : Bytes} : thenNatDesc cmp f g x y = .eq ↔ cmp (f x) (f y) = .eq ∧ g x = g y := by
  cases hc : cmp (f x) (f y) with
  | lt => simp [thenNatDesc_of_lt hc]
  | gt => simp [thenNatDesc_of_gt hc]
  | eq =>
    rw [thenNatDesc_of_eq hc]
    rcases Nat.lt_trichotomy (g x) (g y) with hlt | heq | hgt
    · simp [hlt, Nat.lt_asymm hlt, Nat.ne_of_lt hlt]
    · simp [heq]
    · simp [hgt, Nat.ne_of_gt hgt]

theorem thenNatDesc_lt_iff {cmp : Bytes → Bytes → Ordering} {f : Bytes → Bytes} {g : Bytes → Nat}
    {x y : Bytes} : thenNatDesc cmp f g x y = .lt ↔
      cmp (f x) (f y) = .lt ∨ (cmp (f x) (f y) = .eq ∧ g y < g x) := by
  cases hc : cmp (f x) (f y) with
  | lt => simp [thenNatDesc_of_lt hc]
  | gt => simp [thenNatDesc_of_gt hc]
  | eq =>
    rw [thenNatDesc_of_eq hc]
    by_cases h1 : g y < g x
    · simp [h1]
    · by_cases h2 : g x < g y <;> simp [h1, h2]

theorem thenNatDesc_gt_iff {cmp : Bytes → Bytes → Ordering} {f : Bytes → Bytes} {g : Bytes → Nat}
    {x y : Bytes} : thenNatDesc cmp f g x y = .gt ↔
      cmp (f x) (f y) = .gt ∨ (cmp (f x) (f y) = .eq ∧ g x < g y) := by
  cases hc : cmp (f x) (f y) with
  | lt => simp [thenNatDesc_of_lt hc]
  | gt => simp [thenNatDesc_of_gt hc]
  | eq =>
    rw [thenNatDesc_of_eq hc]
    by_cases h1 : g y < g x
    · simp [h1, Nat.lt_asymm h1]
    · by_cases h2 : g x < g y <;> simp [h1, h2]

/-- lexicographic combination of an `OrdLaws` comparator on `f x` with the reversed `Nat` order
    on `g x` -/
theorem OrdLaws.thenNatDesc {cmp : Bytes → Bytes → Ordering} (h : OrdLaws cmp) (f : Bytes → Bytes)
    (g : Bytes → Nat) : OrdLaws (thenNatDesc cmp f g) where
  refl := fun a => by rw [thenNatDesc_eq_iff]; exact ⟨h.refl _, rfl⟩
  gt_iff := fun a b => by
    rw [thenNatDesc_gt_iff, thenNatDesc_lt_iff, h.gt_iff (f a) (f b)]
    have hsw := ordSwap h (f a) (f b)
    constructor
    · rintro (h1 | ⟨h1, h2⟩)
      · exact Or.inl h1
      · rw [h1] at hsw; exact Or.inr ⟨hsw, h2⟩
    · rintro (h1 | ⟨h1, h2⟩)
      · exact Or.inl h1
      · rw [h1] at hsw
        refine Or.inr ⟨?_, h2⟩
        cases hab : cmp (f a) (f b) <;> rw [hab] at hsw <;> first | rfl | cases hsw
  lt_trans := fun a b c => by
    rw [thenNatDesc_lt_iff, thenNatDesc_lt_iff, thenNatDesc_lt_iff]
    rintro (h1 | ⟨h1, g1⟩) (h2 | ⟨h2, g2⟩)
    · exact Or.inl (h.lt_trans _ _ _ h1 h2)
    · exact Or.inl (by rw [← ordEqRight h (f a) h2]; exact h1)
    · exact Or.inl (by rw [h.eq_left _ _ (f c) h1]; exact h2)
    · exact Or.inr ⟨by rw [h.eq_left _ _ (f c) h1]; exact h2, Nat.lt_trans g2 g1⟩
  eq_left := fun a b c hab => by
    obtain ⟨h1, h2⟩ := thenNatDesc_eq_iff.mp hab
    simp only [Lcdb.thenNatDesc, h.eq_left _ _ (f c) h1, h2]

/-! ### the user comparators -/

theorem ordLaws_cmp (c : Cmp) : OrdLaws c.compare := by
  cases c with
  | bytewise => exact ordLaws_bytesCmp
  | reverse => exact ordLaws_bytesCmp.flip
  | lenFirst => exact ordLaws_bytesCmp.natThen List.length

/-- `.eq` under any of the user comparators is equality of the byte strings -/
theorem cmp_compare_eq_iff (c : Cmp) (a b : Bytes) : c.compare a b = .eq ↔ a = b := by
  cases c with
  | bytewise => exact bytesCmp_eq_iff a b
  | reverse => exact (bytesCmp_eq_iff b a).trans eq_comm
  | lenFirst =>
    constructor
    · intro h
      simp only [Cmp.compare, GT.gt] at h
      by_cases h1 : a.length < b.length
      · simp [h1] at h
      · by_cases h2 : b.length < a.length
        · simp [h1, h2] at h
        · simp only [h1, h2, if_false] at h
          exact (bytesCmp_eq_iff a b).mp h
    · rintro rfl; exact (ordLaws_cmp .lenFirst).refl a

/-! ### the internal-key comparator -/

theorem ikeyCmp_eq_thenNatDesc (c : Cmp) :
    ikeyCmp c = thenNatDesc c.compare ikeyUser ikeyNum := rfl

/-- `ikeyCmp` is total on all byte strings (`ikeyUser` uses truncated subtraction), so the laws
    hold without any length side condition -/
theorem ordLaws_ikeyCmp (c : Cmp) : OrdLaws (ikeyCmp c) := by
  rw [ikeyCmp_eq_thenNatDesc]; exact (ordLaws_cmp c).thenNatDesc ikeyUser ikeyNum

/-- `.eq` for internal keys: same user key and same packed (sequence, type) number -/
theorem ikeyCmp_eq_iff (c : Cmp) (x y : Bytes) :
    ikeyCmp c x y = .eq ↔ ikeyUser x = ikeyUser y ∧ ikeyNum x = ikeyNum y := by
  rw [ikeyCmp_eq_thenNatDesc, thenNatDesc_eq_iff, cmp_compare_eq_iff]

theorem ikeyCmp_lt_iff (c : Cmp) (x y : Bytes) :
    ikeyCmp c x y = .lt ↔ c.compare (ikeyUser x) (ikeyUser y) = .lt ∨
      (ikeyUser x = ikeyUser y ∧ ikeyNum y < ikeyNum x) := by
  rw [ikeyCmp_eq_thenNatDesc, thenNatDesc_lt_iff, cmp_compare_eq_iff]

/-! ### non-vacuity -/

example : bytesCmp [1, 2] [1, 3] = .lt := by decide
example : Cmp.compare .reverse [1, 2] [1, 3] = .gt := by decide
example : Cmp.compare .lenFirst [9] [1, 3] = .lt := by decide

end Lcdb
