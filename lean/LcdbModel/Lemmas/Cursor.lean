/-
  Lemmas about the reference cursor (`cursorOps`) and simulation between iterators:
  (a) order facts derived from `OrdLaws`,
  (b) the generic seek helpers of iterator.c, run on the reference cursor over a strictly sorted
      key list, land where the sorted list dictates (`seek_helpers_spec`),
  (c) a simulation (`IterOps.Sim`) transfers to `IterOps.apply` / `IterOps.run`.
-/
import LcdbModel.Lemmas.CursorDefs
namespace Lcdb

-- keep `List.getD` in the goals (hypotheses are stated with it)
attribute [-simp] List.getD_eq_getElem?_getD

/-! ### (a) derived order facts -/

namespace OrdLaws
variable {cmp : Bytes → Bytes → Ordering}

theorem lt_iff_gt (h : OrdLaws cmp) (a b : Bytes) : cmp a b = .lt ↔ cmp b a = .gt :=
  (h.gt_iff b a).symm

theorem eq_symm (h : OrdLaws cmp) {a b : Bytes} (hab : cmp a b = .eq) : cmp b a = .eq := by
  cases hba : cmp b a with
  | eq => rfl
  | lt => rw [(h.gt_iff a b).mpr hba] at hab; cases hab
  | gt => rw [(h.gt_iff b a).mp hba] at hab; cases hab

theorem eq_iff_eq (h : OrdLaws cmp) (a b : Bytes) : cmp a b = .eq ↔ cmp b a = .eq :=
  ⟨h.eq_symm, h.eq_symm⟩

/-- flipping the arguments swaps the result -/
theorem swap (h : OrdLaws cmp) (a b : Bytes) : cmp b a = (cmp a b).swap := by
  cases hab : cmp a b with
  | eq => exact h.eq_symm hab
  | lt => exact (h.lt_iff_gt a b).mp hab
  | gt => exact (h.gt_iff a b).mp hab

theorem eq_right (h : OrdLaws cmp) {a b : Bytes} (c : Bytes) (hab : cmp a b = .eq) :
    cmp c a = cmp c b := by
  rw [h.swap a c, h.swap b c, h.eq_left a b c hab]

theorem eq_trans (h : OrdLaws cmp) {a b c : Bytes} (hab : cmp a b = .eq) (hbc : cmp b c = .eq) :
    cmp a c = .eq := by
  rw [h.eq_left a b c hab]; exact hbc

theorem lt_of_lt_of_eq (h : OrdLaws cmp) {a b c : Bytes} (hab : cmp a b = .lt)
    (hbc : cmp b c = .eq) : cmp a c = .lt := by
  rw [← h.eq_right a hbc]; exact hab

theorem lt_of_eq_of_lt (h : OrdLaws cmp) {a b c : Bytes} (hab : cmp a b = .eq)
    (hbc : cmp b c = .lt) : cmp a c = .lt := by
  rw [h.eq_left a b c hab]; exact hbc

theorem gt_trans (h : OrdLaws cmp) {a b c : Bytes} (hab : cmp a b = .gt) (hbc : cmp b c = .gt) :
    cmp a c = .gt :=
  (h.gt_iff a c).mpr (h.lt_trans c b a ((h.gt_iff b c).mp hbc) ((h.gt_iff a b).mp hab))

theorem gt_of_gt_of_eq (h : OrdLaws cmp) {a b c : Bytes} (hab : cmp a b = .gt)
    (hbc : cmp b c = .eq) : cmp a c = .gt := by
  rw [← h.eq_right a hbc]; exact hab

theorem gt_of_eq_of_gt (h : OrdLaws cmp) {a b c : Bytes} (hab : cmp a b = .eq)
    (hbc : cmp b c = .gt) : cmp a c = .gt := by
  rw [h.eq_left a b c hab]; exact hbc

theorem not_lt_of_gt (h : OrdLaws cmp) {a b : Bytes} (hab : cmp a b = .gt) : cmp b a ≠ .gt := by
  rw [(h.gt_iff a b).mp hab]; decide

theorem lt_irrefl (h : OrdLaws cmp) (a : Bytes) : cmp a a ≠ .lt := by
  rw [h.refl a]; decide

theorem lt_asymm (h : OrdLaws cmp) {a b : Bytes} (hab : cmp a b = .lt) : cmp b a ≠ .lt := by
  rw [(h.lt_iff_gt a b).mp hab]; decide

/-- if `a < b` and `a` is not below `t`, then `b` is above `t` -/
theorem gt_of_lt_of_not_lt (h : OrdLaws cmp) {a b t : Bytes} (hab : cmp a b = .lt)
    (hat : cmp a t ≠ .lt) : cmp b t = .gt := by
  cases hbt : cmp b t with
  | gt => rfl
  | lt => exact absurd (h.lt_trans a b t hab hbt) hat
  | eq => exact absurd (h.lt_of_lt_of_eq hab hbt) hat

end OrdLaws

/-! ### index-based view of the definitions -/

theorem getD_eq_getElem {l : List Bytes} {i : Nat} (hi : i < l.length) : l.getD i [] = l[i] := by
  simp [List.getD_eq_getElem?_getD, hi]

theorem getD_mem {l : List Bytes} {i : Nat} (hi : i < l.length) : l.getD i [] ∈ l := by
  rw [getD_eq_getElem hi]; exact List.getElem_mem hi

/-- strict sortedness, by indices -/
theorem SortedKeys.getD_lt {cmp : Bytes → Bytes → Ordering} {keys : List Bytes}
    (hs : SortedKeys cmp keys) {i j : Nat} (hij : i < j) (hj : j < keys.length) :
    cmp (keys.getD i []) (keys.getD j []) = .lt := by
  have hi : i < keys.length := Nat.lt_trans hij hj
  rw [getD_eq_getElem hi, getD_eq_getElem hj]
  exact List.pairwise_iff_getElem.mp hs i j hi hj hij

theorem findIdx?_eq_some_iff_getD {p : Bytes → Bool} {l : List Bytes} {i : Nat} :
    l.findIdx? p = some i ↔
      i < l.length ∧ p (l.getD i []) = true ∧ ∀ j, j < i → p (l.getD j []) = false := by
  rw [List.findIdx?_eq_some_iff_getElem]
  constructor
  · rintro ⟨hi, hp, hlt⟩
    refine ⟨hi, by rw [getD_eq_getElem hi]; exact hp, fun j hj => ?_⟩
    rw [getD_eq_getElem (Nat.lt_trans hj hi)]
    simpa using hlt j hj
  · rintro ⟨hi, hp, hlt⟩
    refine ⟨hi, by rw [← getD_eq_getElem hi]; exact hp, fun j hj => ?_⟩
    rw [← getD_eq_getElem (Nat.lt_trans hj hi)]
    simp [hlt j hj]

theorem findIdx?_eq_none_iff_getD {p : Bytes → Bool} {l : List Bytes} :
    l.findIdx? p = none ↔ ∀ j, j < l.length → p (l.getD j []) = false := by
  rw [List.findIdx?_eq_none_iff]
  constructor
  · intro h j hj
    exact h _ (getD_mem hj)
  · intro h x hx
    obtain ⟨j, hj, rfl⟩ := List.getElem_of_mem hx
    rw [← getD_eq_getElem hj]; exact h j hj

/-! ### characterisation of `lastIdx` -/

theorem lastIdx_eq_none {p : Bytes → Bool} {keys : List Bytes} (h : lastIdx p keys = none) :
    ∀ k ∈ keys, p k = false := by
  induction keys with
  | nil => intro k hk; cases hk
  | cons a as ih =>
    unfold lastIdx at h
    cases hl : lastIdx p as with
    | some i => simp [hl] at h
    | none =>
      simp only [hl] at h
      intro k hk
      rcases List.mem_cons.mp hk with rfl | hk
      · cases hp : p k with
        | false => rfl
        | true => simp [hp] at h
      · exact ih hl k hk

theorem lastIdx_eq_some {p : Bytes → Bool} {keys : List Bytes} {i : Nat}
    (h : lastIdx p keys = some i) :
    i < keys.length ∧ p (keys.getD i []) = true ∧
      ∀ j, i < j → j < keys.length → p (keys.getD j []) = false := by
  induction keys generalizing i with
  | nil => simp [lastIdx] at h
  | cons a as ih =>
    unfold lastIdx at h
    cases hl : lastIdx p as with
    | some i' =>
      simp only [hl, Option.some.injEq] at h
      subst h
      obtain ⟨h1, h2, h3⟩ := ih hl
      refine ⟨by simpa using h1, by rw [List.getD_cons_succ]; exact h2, fun j hj hjl => ?_⟩
      cases j with
      | zero => omega
      | succ j =>
        rw [List.getD_cons_succ]
        exact h3 j (by omega) (by simpa using hjl)
    | none =>
      simp only [hl] at h
      cases hp : p a with
      | false => simp [hp] at h
      | true =>
        simp only [hp, if_true, Option.some.injEq] at h
        subst h
        refine ⟨by simp, by rw [List.getD_cons_zero]; exact hp, fun j hj hjl => ?_⟩
        cases j with
        | zero => omega
        | succ j =>
          rw [List.getD_cons_succ]
          exact lastIdx_eq_none hl _ (getD_mem (by simpa using hjl))

theorem lastIdx_eq_none_iff {p : Bytes → Bool} {keys : List Bytes} :
    lastIdx p keys = none ↔ ∀ j, j < keys.length → p (keys.getD j []) = false := by
  constructor
  · intro h j hj; exact lastIdx_eq_none h _ (getD_mem hj)
  · intro h
    cases hl : lastIdx p keys with
    | none => rfl
    | some i =>
      obtain ⟨h1, h2, _⟩ := lastIdx_eq_some hl
      rw [h i h1] at h2; cases h2

theorem lastIdx_eq_some_iff {p : Bytes → Bool} {keys : List Bytes} {i : Nat} :
    lastIdx p keys = some i ↔
      i < keys.length ∧ p (keys.getD i []) = true ∧
        ∀ j, i < j → j < keys.length → p (keys.getD j []) = false := by
  constructor
  · exact lastIdx_eq_some
  · rintro ⟨h1, h2, h3⟩
    cases hl : lastIdx p keys with
    | none => rw [lastIdx_eq_none_iff.mp hl i h1] at h2; cases h2
    | some i' =>
      obtain ⟨h1', h2', h3'⟩ := lastIdx_eq_some hl
      rcases Nat.lt_trichotomy i i' with hlt | heq | hgt
      · rw [h3 i' hlt h1'] at h2'; cases h2'
      · rw [heq]
      · rw [h3' i hgt h1] at h2; cases h2

/-- `findIdx?` finds the *first* index: everything before it fails the predicate (with `getD`) -/
theorem findIdx?_eq_some_getD {p : Bytes → Bool} {keys : List Bytes} {i : Nat}
    (h : keys.findIdx? p = some i) :
    i < keys.length ∧ p (keys.getD i []) = true ∧ ∀ j, j < i → p (keys.getD j []) = false :=
  findIdx?_eq_some_iff_getD.mp h

theorem findIdx?_eq_none_mem {p : Bytes → Bool} {keys : List Bytes}
    (h : keys.findIdx? p = none) : ∀ k ∈ keys, p k = false :=
  List.findIdx?_eq_none_iff.mp h

/-! ### monotone split of a sorted list around a target -/

/-- along a strictly sorted list, once a key is not below `t` every later key is above `t` -/
theorem SortedKeys.gt_after {cmp : Bytes → Bytes → Ordering} (h : OrdLaws cmp) {keys : List Bytes}
    (hs : SortedKeys cmp keys) {t : Bytes} {i j : Nat} (hij : i < j) (hj : j < keys.length)
    (hi : cmp (keys.getD i []) t ≠ .lt) : cmp (keys.getD j []) t = .gt :=
  h.gt_of_lt_of_not_lt (hs.getD_lt hij hj) hi

/-- `fun k => cmp k t != .lt` is monotone along a sorted list -/
theorem SortedKeys.mono_ge {cmp : Bytes → Bytes → Ordering} (h : OrdLaws cmp) {keys : List Bytes}
    (hs : SortedKeys cmp keys) (t : Bytes) {i j : Nat} (hij : i ≤ j) (hj : j < keys.length)
    (hi : (cmp (keys.getD i []) t != .lt) = true) : (cmp (keys.getD j []) t != .lt) = true := by
  rcases Nat.lt_or_eq_of_le hij with hlt | rfl
  · rw [hs.gt_after h hlt hj (by simpa using hi)]; decide
  · exact hi

/-- `fun k => cmp k t == .gt` is monotone along a sorted list -/
theorem SortedKeys.mono_gt {cmp : Bytes → Bytes → Ordering} (h : OrdLaws cmp) {keys : List Bytes}
    (hs : SortedKeys cmp keys) (t : Bytes) {i j : Nat} (hij : i ≤ j) (hj : j < keys.length)
    (hi : (cmp (keys.getD i []) t == .gt) = true) : (cmp (keys.getD j []) t == .gt) = true := by
  rcases Nat.lt_or_eq_of_le hij with hlt | rfl
  · rw [hs.gt_after h hlt hj (by intro hc; rw [hc] at hi; cases hi)]; decide
  · exact hi

/-! ### (b) the seek helpers on the reference cursor -/

theorem seekGE_cursor (cmp : Bytes → Bytes → Ordering) (keys : List Bytes) (t : Bytes)
    (p : Option Nat) :
    (cursorOps cmp keys).seekGE t p = some (keys.findIdx? (fun k => cmp k t != .lt)) := rfl

/-- what `seek` yields: either all keys are below `t`, or the first index whose key is not -/
private theorem seek_cases (cmp : Bytes → Bytes → Ordering) (keys : List Bytes) (t : Bytes) :
    (keys.findIdx? (fun k => cmp k t != .lt) = none ∧
        ∀ j, j < keys.length → cmp (keys.getD j []) t = .lt) ∨
    (∃ i, keys.findIdx? (fun k => cmp k t != .lt) = some i ∧ i < keys.length ∧
        cmp (keys.getD i []) t ≠ .lt ∧ ∀ j, j < i → cmp (keys.getD j []) t = .lt) := by
  cases hf : keys.findIdx? (fun k => cmp k t != .lt) with
  | none =>
    refine Or.inl ⟨rfl, fun j hj => ?_⟩
    simpa using findIdx?_eq_none_iff_getD.mp hf j hj
  | some i =>
    obtain ⟨h1, h2, h3⟩ := findIdx?_eq_some_iff_getD.mp hf
    refine Or.inr ⟨i, rfl, h1, by simpa using h2, fun j hj => ?_⟩
    simpa using h3 j hj

theorem seekGT_cursor (cmp : Bytes → Bytes → Ordering) (h : OrdLaws cmp) (keys : List Bytes)
    (hs : SortedKeys cmp keys) (t : Bytes) (p : Option Nat) :
    (cursorOps cmp keys).seekGT t p = some (keys.findIdx? (fun k => cmp k t == .gt)) := by
  rcases seek_cases cmp keys t with ⟨hf, hall⟩ | ⟨i, hf, hi, hge, hlt⟩
  · have : keys.findIdx? (fun k => cmp k t == .gt) = none := by
      rw [findIdx?_eq_none_iff_getD]; intro j hj; simp [hall j hj]
    simp [IterOps.seekGT, cursorOps, hf, this]
  · cases hc : cmp (keys.getD i []) t with
    | lt => exact absurd hc hge
    | gt =>
      have : keys.findIdx? (fun k => cmp k t == .gt) = some i := by
        rw [findIdx?_eq_some_iff_getD]
        exact ⟨hi, by simp [hc], fun j hj => by simp [hlt j hj]⟩
      simp [IterOps.seekGT, cursorOps, hf, this, hc]
    | eq =>
      have hbefore : ∀ j, j < i + 1 → (cmp (keys.getD j []) t == .gt) = false := by
        intro j hj
        rcases Nat.lt_or_eq_of_le (Nat.le_of_lt_succ hj) with hj | rfl
        · simp [hlt j hj]
        · simp [hc]
      by_cases hn : i + 1 < keys.length
      · have : keys.findIdx? (fun k => cmp k t == .gt) = some (i + 1) := by
          rw [findIdx?_eq_some_iff_getD]
          refine ⟨hn, ?_, hbefore⟩
          rw [hs.gt_after h (Nat.lt_succ_self i) hn hge]; decide
        simp [IterOps.seekGT, cursorOps, hf, this, hc, hn]
      · have : keys.findIdx? (fun k => cmp k t == .gt) = none := by
          rw [findIdx?_eq_none_iff_getD]
          intro j hj; exact hbefore j (by omega)
        simp [IterOps.seekGT, cursorOps, hf, this, hc, hn]

/-- `last` on the cursor is the last index satisfying any predicate that holds of all keys -/
private theorem lastIdx_all {q : Bytes → Bool} {keys : List Bytes}
    (hall : ∀ j, j < keys.length → q (keys.getD j []) = true) :
    lastIdx q keys = if keys.isEmpty then none else some (keys.length - 1) := by
  cases keys with
  | nil => simp [lastIdx]
  | cons a as =>
    simp only [List.isEmpty_cons, Bool.false_eq_true, if_false]
    rw [lastIdx_eq_some_iff]
    refine ⟨by simp, hall _ (by simp), fun j h1 h2 => ?_⟩
    simp at h1 h2; omega

theorem seekLE_cursor (cmp : Bytes → Bytes → Ordering) (h : OrdLaws cmp) (keys : List Bytes)
    (hs : SortedKeys cmp keys) (t : Bytes) (p : Option Nat) :
    (cursorOps cmp keys).seekLE t p = some (lastIdx (fun k => cmp k t != .gt) keys) := by
  rcases seek_cases cmp keys t with ⟨hf, hall⟩ | ⟨i, hf, hi, hge, hlt⟩
  · have := lastIdx_all (q := fun k => cmp k t != .gt) (keys := keys)
      (fun j hj => by simp [hall j hj])
    simp [IterOps.seekLE, cursorOps, hf, this]
  · have hafter : ∀ j, i < j → j < keys.length → (cmp (keys.getD j []) t != .gt) = false := by
      intro j hij hj; simp [hs.gt_after h hij hj hge]
    cases hc : cmp (keys.getD i []) t with
    | lt => exact absurd hc hge
    | eq =>
      have : lastIdx (fun k => cmp k t != .gt) keys = some i := by
        rw [lastIdx_eq_some_iff]
        exact ⟨hi, by simp [hc], hafter⟩
      simp [IterOps.seekLE, cursorOps, hf, this, hc]
    | gt =>
      cases i with
      | zero =>
        have : lastIdx (fun k => cmp k t != .gt) keys = none := by
          rw [lastIdx_eq_none_iff]
          intro j hj
          cases j with
          | zero => simp [hc]
          | succ j => exact hafter _ (Nat.succ_pos j) hj
        simp [IterOps.seekLE, cursorOps, hf, this, hc]
      | succ i =>
        have : lastIdx (fun k => cmp k t != .gt) keys = some i := by
          rw [lastIdx_eq_some_iff]
          refine ⟨by omega, by simp [hlt i (Nat.lt_succ_self i)], fun j hij hj => ?_⟩
          rcases Nat.lt_or_eq_of_le (Nat.succ_le_of_lt hij) with hlt' | rfl
          · exact hafter j hlt' hj
          · simp [hc]
        simp [IterOps.seekLE, cursorOps, hf, this, hc]

theorem seekLT_cursor (cmp : Bytes → Bytes → Ordering) (h : OrdLaws cmp) (keys : List Bytes)
    (hs : SortedKeys cmp keys) (t : Bytes) (p : Option Nat) :
    (cursorOps cmp keys).seekLT t p = some (lastIdx (fun k => cmp k t == .lt) keys) := by
  rcases seek_cases cmp keys t with ⟨hf, hall⟩ | ⟨i, hf, hi, hge, hlt⟩
  · have := lastIdx_all (q := fun k => cmp k t == .lt) (keys := keys)
      (fun j hj => by simp [hall j hj])
    simp [IterOps.seekLT, cursorOps, hf, this]
  · have hafter : ∀ j, i ≤ j → j < keys.length → (cmp (keys.getD j []) t == .lt) = false := by
      intro j hij hj
      rcases Nat.lt_or_eq_of_le hij with hlt' | rfl
      · simp [hs.gt_after h hlt' hj hge]
      · simpa using hge
    cases i with
    | zero =>
      have : lastIdx (fun k => cmp k t == .lt) keys = none := by
        rw [lastIdx_eq_none_iff]
        intro j hj; exact hafter j (Nat.zero_le j) hj
      simp [IterOps.seekLT, cursorOps, hf, this]
    | succ i =>
      have : lastIdx (fun k => cmp k t == .lt) keys = some i := by
        rw [lastIdx_eq_some_iff]
        exact ⟨by omega, by simp [hlt i (Nat.lt_succ_self i)],
          fun j hij hj => hafter j (Nat.succ_le_of_lt hij) hj⟩
      simp [IterOps.seekLT, cursorOps, hf, this]

/-- all four helpers in one statement -/
theorem seek_helpers_spec (cmp : Bytes → Bytes → Ordering) (h : OrdLaws cmp) (keys : List Bytes)
    (hs : SortedKeys cmp keys) (t : Bytes) (p : Option Nat) :
    (cursorOps cmp keys).seekGE t p = some (keys.findIdx? (fun k => cmp k t != .lt)) ∧
    (cursorOps cmp keys).seekGT t p = some (keys.findIdx? (fun k => cmp k t == .gt)) ∧
    (cursorOps cmp keys).seekLE t p = some (lastIdx (fun k => cmp k t != .gt) keys) ∧
    (cursorOps cmp keys).seekLT t p = some (lastIdx (fun k => cmp k t == .lt) keys) :=
  ⟨seekGE_cursor cmp keys t p, seekGT_cursor cmp h keys hs t p, seekLE_cursor cmp h keys hs t p,
    seekLT_cursor cmp h keys hs t p⟩

/-! ### characterisation lemmas in the form used by clients -/

/-- `seekGT`'s landing point: the first key above `t` (everything before is `≤ t`) -/
theorem seekGT_cursor_spec (cmp : Bytes → Bytes → Ordering) (h : OrdLaws cmp) (keys : List Bytes)
    (hs : SortedKeys cmp keys) (t : Bytes) (p : Option Nat) :
    ∃ r, (cursorOps cmp keys).seekGT t p = some r ∧
      match r with
      | some i => i < keys.length ∧ cmp (keys.getD i []) t = .gt ∧
          ∀ j, j < i → cmp (keys.getD j []) t ≠ .gt
      | none => ∀ k ∈ keys, cmp k t ≠ .gt := by
  refine ⟨_, seekGT_cursor cmp h keys hs t p, ?_⟩
  cases hf : keys.findIdx? (fun k => cmp k t == .gt) with
  | none =>
    intro k hk
    have := List.findIdx?_eq_none_iff.mp hf k hk
    simpa using this
  | some i =>
    obtain ⟨h1, h2, h3⟩ := findIdx?_eq_some_iff_getD.mp hf
    exact ⟨h1, by simpa using h2, fun j hj => by simpa using h3 j hj⟩

/-- `seekLE`'s landing point: the last key not above `t` (everything after is `> t`) -/
theorem seekLE_cursor_spec (cmp : Bytes → Bytes → Ordering) (h : OrdLaws cmp) (keys : List Bytes)
    (hs : SortedKeys cmp keys) (t : Bytes) (p : Option Nat) :
    ∃ r, (cursorOps cmp keys).seekLE t p = some r ∧
      match r with
      | some i => i < keys.length ∧ cmp (keys.getD i []) t ≠ .gt ∧
          ∀ j, i < j → j < keys.length → cmp (keys.getD j []) t = .gt
      | none => ∀ k ∈ keys, cmp k t = .gt := by
  refine ⟨_, seekLE_cursor cmp h keys hs t p, ?_⟩
  cases hf : lastIdx (fun k => cmp k t != .gt) keys with
  | none =>
    intro k hk
    have := lastIdx_eq_none hf k hk
    simpa using this
  | some i =>
    obtain ⟨h1, h2, h3⟩ := lastIdx_eq_some hf
    exact ⟨h1, by simpa using h2, fun j hj hjl => by simpa using h3 j hj hjl⟩

/-- `seekLT`'s landing point: the last key below `t` (everything after is `≥ t`) -/
theorem seekLT_cursor_spec (cmp : Bytes → Bytes → Ordering) (h : OrdLaws cmp) (keys : List Bytes)
    (hs : SortedKeys cmp keys) (t : Bytes) (p : Option Nat) :
    ∃ r, (cursorOps cmp keys).seekLT t p = some r ∧
      match r with
      | some i => i < keys.length ∧ cmp (keys.getD i []) t = .lt ∧
          ∀ j, i < j → j < keys.length → cmp (keys.getD j []) t ≠ .lt
      | none => ∀ k ∈ keys, cmp k t ≠ .lt := by
  refine ⟨_, seekLT_cursor cmp h keys hs t p, ?_⟩
  cases hf : lastIdx (fun k => cmp k t == .lt) keys with
  | none =>
    intro k hk
    have := lastIdx_eq_none hf k hk
    simpa using this
  | some i =>
    obtain ⟨h1, h2, h3⟩ := lastIdx_eq_some hf
    exact ⟨h1, by simpa using h2, fun j hj hjl => by simpa using h3 j hj hjl⟩

/-- `seekGE`'s landing point: the first key not below `t` (no order laws or sortedness needed) -/
theorem seekGE_cursor_spec (cmp : Bytes → Bytes → Ordering) (keys : List Bytes) (t : Bytes)
    (p : Option Nat) :
    ∃ r, (cursorOps cmp keys).seekGE t p = some r ∧
      match r with
      | some i => i < keys.length ∧ cmp (keys.getD i []) t ≠ .lt ∧
          ∀ j, j < i → cmp (keys.getD j []) t = .lt
      | none => ∀ k ∈ keys, cmp k t = .lt := by
  refine ⟨_, seekGE_cursor cmp keys t p, ?_⟩
  cases hf : keys.findIdx? (fun k => cmp k t != .lt) with
  | none =>
    intro k hk
    have := List.findIdx?_eq_none_iff.mp hf k hk
    simpa using this
  | some i =>
    obtain ⟨h1, h2, h3⟩ := findIdx?_eq_some_iff_getD.mp hf
    exact ⟨h1, by simpa using h2, fun j hj => by simpa using h3 j hj⟩

/-! ### non-vacuity: concrete keys under the bytewise comparator -/

example : lastIdx (fun k => bytesCmp k [4] != .gt) [[1], [3], [5]] = some 1 := by decide
example : lastIdx (fun k => bytesCmp k [0] != .gt) [[1], [3], [5]] = none := by decide
example : (cursorOps bytesCmp [[1], [3], [5]]).seekGE [3] none = some (some 1) := by decide
example : (cursorOps bytesCmp [[1], [3], [5]]).seekGT [3] none = some (some 2) := by decide
example : (cursorOps bytesCmp [[1], [3], [5]]).seekGT [5] (some 0) = some none := by decide
example : (cursorOps bytesCmp [[1], [3], [5]]).seekLE [4] none = some (some 1) := by decide
example : (cursorOps bytesCmp [[1], [3], [5]]).seekLE [0] none = some none := by decide
example : (cursorOps bytesCmp [[1], [3], [5]]).seekLT [3] none = some (some 0) := by decide
example : (cursorOps bytesCmp [[1], [3], [5]]).seekLT [9] none = some (some 2) := by decide
example : SortedKeys bytesCmp [[1], [3], [5]] := by
  simp [SortedKeys]; decide

/-! ### (c) a simulation transfers to the composite operations -/

theorem IterOps.Sim.apply {σ τ : Type} {o₁ : IterOps σ} {o₂ : IterOps τ} {R : σ → τ → Prop}
    {T : Bytes → Prop} (hsim : IterOps.Sim o₁ o₂ R T) (op : BlockOp)
    (hop : ∀ x, op.target? = some x → T x) (s : σ) (t : τ) (h : R s t) :
    ∃ s' t', o₁.apply op s = some s' ∧ o₂.apply op t = some t' ∧ R s' t' := by
  cases op with
  | first => exact hsim.first s t h
  | last => exact hsim.last s t h
  | next =>
    have hv := hsim.valid s t h
    simp only [IterOps.apply]
    cases hvs : o₁.valid s with
    | false =>
      rw [hvs] at hv
      rw [← hv]
      exact ⟨s, t, by simp, by simp, h⟩
    | true =>
      rw [hvs] at hv
      rw [← hv]
      simpa using hsim.next s t h hvs
  | prev =>
    have hv := hsim.valid s t h
    simp only [IterOps.apply]
    cases hvs : o₁.valid s with
    | false =>
      rw [hvs] at hv
      rw [← hv]
      exact ⟨s, t, by simp, by simp, h⟩
    | true =>
      rw [hvs] at hv
      rw [← hv]
      simpa using hsim.prev s t h hvs
  | seek x => exact hsim.seek s t x h (hop x rfl)
  | seekGE x => exact hsim.seek s t x h (hop x rfl)
  | seekGT x =>
    have hT : T x := hop x rfl
    obtain ⟨s1, t1, e1, e2, h1⟩ := hsim.seek s t x h hT
    have hv := hsim.valid s1 t1 h1
    simp only [IterOps.apply, IterOps.seekGT, e1, e2]
    cases hvs : o₁.valid s1 with
    | false =>
      rw [hvs] at hv
      rw [← hv]
      exact ⟨s1, t1, by simp, by simp, h1⟩
    | true =>
      rw [hvs] at hv
      rw [← hv]
      obtain ⟨hc, hsome⟩ := hsim.compare s1 t1 x h1 hvs hT
      cases hcr : o₂.compare (o₂.key t1) x with
      | none => rw [hcr] at hsome; cases hsome
      | some ord =>
        rw [hcr] at hc
        simp only [hc, if_true]
        cases ord with
        | eq => exact hsim.next s1 t1 h1 hvs
        | lt => exact ⟨s1, t1, rfl, rfl, h1⟩
        | gt => exact ⟨s1, t1, rfl, rfl, h1⟩
  | seekLE x =>
    have hT : T x := hop x rfl
    obtain ⟨s1, t1, e1, e2, h1⟩ := hsim.seek s t x h hT
    have hv := hsim.valid s1 t1 h1
    simp only [IterOps.apply, IterOps.seekLE, e1, e2]
    cases hvs : o₁.valid s1 with
    | false =>
      rw [hvs] at hv
      rw [← hv]
      simpa using hsim.last s1 t1 h1
    | true =>
      rw [hvs] at hv
      rw [← hv]
      obtain ⟨hc, hsome⟩ := hsim.compare s1 t1 x h1 hvs hT
      cases hcr : o₂.compare (o₂.key t1) x with
      | none => rw [hcr] at hsome; cases hsome
      | some ord =>
        rw [hcr] at hc
        simp only [hc, if_true]
        cases ord with
        | gt => exact hsim.prev s1 t1 h1 hvs
        | lt => exact ⟨s1, t1, rfl, rfl, h1⟩
        | eq => exact ⟨s1, t1, rfl, rfl, h1⟩
  | seekLT x =>
    have hT : T x := hop x rfl
    obtain ⟨s1, t1, e1, e2, h1⟩ := hsim.seek s t x h hT
    have hv := hsim.valid s1 t1 h1
    simp only [IterOps.apply, IterOps.seekLT, e1, e2]
    cases hvs : o₁.valid s1 with
    | false =>
      rw [hvs] at hv
      rw [← hv]
      simpa using hsim.last s1 t1 h1
    | true =>
      rw [hvs] at hv
      rw [← hv]
      simpa using hsim.prev s1 t1 h1 hvs

theorem IterOps.Sim.run {σ τ : Type} {o₁ : IterOps σ} {o₂ : IterOps τ} {R : σ → τ → Prop}
    {T : Bytes → Prop} (hsim : IterOps.Sim o₁ o₂ R T) (ops : List BlockOp)
    (hops : ∀ op ∈ ops, ∀ x, op.target? = some x → T x) (s : σ) (t : τ) (h : R s t) :
    ∃ s' t', o₁.run ops s = some s' ∧ o₂.run ops t = some t' ∧ R s' t' := by
  induction ops generalizing s t with
  | nil => exact ⟨s, t, rfl, rfl, h⟩
  | cons op ops ih =>
    obtain ⟨s1, t1, e1, e2, h1⟩ := hsim.apply op (hops op (List.mem_cons_self ..)) s t h
    obtain ⟨s2, t2, e3, e4, h2⟩ :=
      ih (fun op' hop' => hops op' (List.mem_cons_of_mem _ hop')) s1 t1 h1
    exact ⟨s2, t2, by simp [IterOps.run, e1, e3], by simp [IterOps.run, e2, e4], h2⟩

/-- a run on the simulating side never faults, and the two sides agree on validity and key
    afterwards -/
theorem IterOps.Sim.run_observe {σ τ : Type} {o₁ : IterOps σ} {o₂ : IterOps τ} {R : σ → τ → Prop}
    {T : Bytes → Prop} (hsim : IterOps.Sim o₁ o₂ R T) (ops : List BlockOp)
    (hops : ∀ op ∈ ops, ∀ x, op.target? = some x → T x) (s : σ) (t : τ) (h : R s t) :
    ∃ s' t', o₁.run ops s = some s' ∧ o₂.run ops t = some t' ∧
      o₁.valid s' = o₂.valid t' ∧ (o₁.valid s' = true → o₁.key s' = o₂.key t') := by
  obtain ⟨s', t', e1, e2, h'⟩ := hsim.run ops hops s t h
  exact ⟨s', t', e1, e2, hsim.valid s' t' h', hsim.key s' t' h'⟩

end Lcdb
