/-
  Order-theoretic core of the compaction-input contracts: a set of files of a sorted level that is an
  *interval* of the level and closed under boundary files leaves only files behind that are newer, key by
  key (contract (a) of `Lsm.stepOk (.compact ..)` for levels ≥ 1 and the level+1 half of (a'));
  a set of level-0 files closed under user-key overlap shares no user key with the rest of level 0.
-/
import LcdbModel.Lemmas.PolicyBoundary
namespace Lcdb.Policy
open Lcdb.CmpBasic Lcdb.Lsm

/-! ### user-key order -/

/-- `a ≤ b` in user-key order -/
def ule (c : Cmp) (a b : Bytes) : Prop := c.compare a b ≠ .gt

theorem ule_refl (c : Cmp) (a : Bytes) : ule c a a := by unfold ule; rw [compare_refl]; decide

theorem ule_of_lt {c : Cmp} {a b : Bytes} (h : c.compare a b = .lt) : ule c a b := by unfold ule; rw [h]; decide

theorem ule_trans {c : Cmp} {a b d : Bytes} (h1 : ule c a b) (h2 : ule c b d) : ule c a d := by
  intro hgt
  have hda : c.compare d a = .lt := (compare_gt_iff c a d).mp hgt
  have hdb : c.compare d b = .lt := compare_lt_of_lt_of_ne_gt c hda h1
  exact h2 ((compare_lt_iff c d b).mp hdb)

theorem ule_antisymm {c : Cmp} {a b : Bytes} (h1 : ule c a b) (h2 : ule c b a) : a = b := by
  cases h : c.compare a b with
  | lt => exact absurd ((compare_lt_iff c a b).mp h) h2
  | eq => exact (compare_eq_iff c a b).mp h
  | gt => exact absurd h h1

theorem not_lt_of_ule {c : Cmp} {a b : Bytes} (h : ule c a b) : c.compare b a ≠ .lt := by
  intro hlt; exact h ((compare_lt_iff c b a).mp hlt)

theorem ule_of_not_lt {c : Cmp} {a b : Bytes} (h : c.compare b a ≠ .lt) : ule c a b := by
  intro hgt; exact h ((compare_gt_iff c a b).mp hgt)

theorem ule_of_ikl {c : Cmp} {a b : IKey} (h : ikl c a b = true) : ule c a.1 b.1 := user_le_of_ikLt h
theorem ule_of_ikle {c : Cmp} {a b : IKey} (h : ikl c b a = false) : ule c a.1 b.1 := user_le_of_not_ikLt h

theorem rangeHits_iff (c : Cmp) (lo hi : Option Bytes) (f : FileMeta) :
    rangeHits c lo hi f = true ↔ (∀ k, lo = some k → ule c k f.lk) ∧ (∀ k, hi = some k → ule c f.sk k) := by
  unfold rangeHits afterFile beforeFile ule
  cases lo <;> cases hi <;> simp [compare_lt_iff]

theorem userRangesOverlap_false_iff (c : Cmp) (f g : FileMeta) :
    userRangesOverlap c f g = false ↔ c.compare f.lk g.sk = .lt ∨ c.compare g.lk f.sk = .lt := by
  unfold userRangesOverlap
  cases h1 : c.compare f.lk g.sk <;> cases h2 : c.compare g.lk f.sk <;> simp

/-! ### entries of well-formed files -/

theorem entry_ge_smallest {c : Cmp} {f : FileMeta} (hf : FileOk c f) {e : Entry} (he : e ∈ f.run) :
    ikl c (e.ukey, e.packed) (smallest f) = false := fileOk_smallest_le hf he

theorem entry_le_largest {c : Cmp} {f : FileMeta} (hf : FileOk c f) {e : Entry} (he : e ∈ f.run) :
    ikl c (largest f) (e.ukey, e.packed) = false := fileOk_le_largest hf he

/-- files whose user-key ranges are apart share no user key -/
theorem newerThan_of_apart {c : Cmp} {f g : FileMeta} (hf : FileOk c f) (hg : FileOk c g)
    (h : c.compare f.lk g.sk = .lt ∨ c.compare g.lk f.sk = .lt) : NewerThan c g.run f.run := by
  intro x hx y hy hxy
  exfalso
  have hxy' : x.ukey = y.ukey := (compare_eq_iff c _ _).mp hxy
  have h1 : ule c g.sk x.ukey := ule_of_ikle (entry_ge_smallest hg hx)
  have h2 : ule c x.ukey g.lk := ule_of_ikle (entry_le_largest hg hx)
  have h3 : ule c f.sk y.ukey := ule_of_ikle (entry_ge_smallest hf hy)
  have h4 : ule c y.ukey f.lk := ule_of_ikle (entry_le_largest hf hy)
  rcases h with h | h
  · -- g.sk ≤ x = y ≤ f.lk < g.sk
    have : ule c g.sk f.lk := ule_trans h1 (hxy' ▸ h4)
    exact not_lt_of_ule this h
  · have : ule c f.sk g.lk := ule_trans h3 (hxy' ▸ h2)
    exact not_lt_of_ule this h

/-! ### intervals of a sorted level -/

/-- no (user key, sequence) occurs twice among the entries of the level -/
def LevelSeqDistinct (c : Cmp) (files : List FileMeta) : Prop :=
  ∀ f ∈ files, ∀ g ∈ files, ∀ x ∈ f.run, ∀ y ∈ g.run, c.compare x.ukey y.ukey = .eq → x.seq = y.seq → x = y

/-- `S` contains every file of the level that lies between two of its members -/
def Interval (c : Cmp) (lv S : List FileMeta) : Prop :=
  ∀ g ∈ lv, ∀ f ∈ S, ∀ f' ∈ S, ikl c (largest f) (smallest g) = true → ikl c (largest g) (smallest f') = true → g ∈ S

/-- no file of the level starts after the greatest largest key of `S` on the same user key -/
def BoundaryClosed (c : Cmp) (lv S : List FileMeta) : Prop :=
  ∀ l, findLargestKey c S = some l → ∀ g ∈ lv, isCand c l g = false

/-- no level-0 file outside `S` overlaps (in user keys) a file inside `S` -/
def Closed0 (c : Cmp) (lv S : List FileMeta) : Prop :=
  ∀ g ∈ lv, g ∉ S → ∀ f ∈ S, userRangesOverlap c f g = false

theorem bounds_ikl {c : Cmp} {lv : List FileMeta} (hb : BoundsOk c lv) {f : FileMeta} (hf : f ∈ lv) :
    ikl c (largest f) (smallest f) = false := hb f hf

theorem sorted_cases {c : Cmp} {lv : List FileMeta} (hs : LevelSorted c lv) {f g : FileMeta}
    (hf : f ∈ lv) (hg : g ∈ lv) (hne : f ≠ g) :
    ikl c (largest f) (smallest g) = true ∨ ikl c (largest g) (smallest f) = true := by
  unfold LevelSorted at hs
  induction lv with
  | nil => cases hf
  | cons a l ih =>
    have hp := List.pairwise_cons.mp hs
    rcases List.mem_cons.mp hf with hfa | hfl
    · rcases List.mem_cons.mp hg with hga | hgl
      · exact absurd (hfa.trans hga.symm) hne
      · subst hfa; exact .inl (hp.1 g hgl)
    · rcases List.mem_cons.mp hg with hga | hgl
      · subst hga; exact .inr (hp.1 f hfl)
      · exact ih hp.2 hfl hgl

theorem newer_of_packed {x y : Entry} (hx : x.kind ≤ 1) (hy : y.kind ≤ 1) (h : x.packed > y.packed) : x.seq ≥ y.seq := by
  simp only [Entry.packed] at h; omega

/-- contract core for a sorted level: what is outside an interval that is closed under boundary files is
    newer, key by key, than what is inside -/
theorem newer_of_interval {c : Cmp} {lv S : List FileMeta} (hs : LevelSorted c lv) (hok : ∀ f ∈ lv, FileOk c f)
    (hk : ∀ f ∈ lv, ∀ e ∈ f.run, e.kind ≤ 1) (hd : LevelSeqDistinct c lv) (hsub : ∀ f ∈ S, f ∈ lv)
    (hint : Interval c lv S) (hcl : BoundaryClosed c lv S) :
    ∀ g ∈ lv, g ∉ S → ∀ f ∈ S, NewerThan c g.run f.run := by
  intro g hg hgS f hfS x hx y hy hxy
  have hf := hsub f hfS
  have hne : g ≠ f := fun h => hgS (h ▸ hfS)
  have hxy' : x.ukey = y.ukey := (compare_eq_iff c _ _).mp hxy
  rcases sorted_cases hs hg hf hne with hgf | hfg
  · -- g before f: x ≤ g.largest < f.smallest ≤ y
    have h1 : ikl c (x.ukey, x.packed) (smallest f) = true := ikl_of_le_of_lt (entry_le_largest (hok g hg) hx) hgf
    have h2 : ikl c (x.ukey, x.packed) (y.ukey, y.packed) = true := ikl_of_lt_of_le h1 (entry_ge_smallest (hok f hf) hy)
    rw [ikl_iff] at h2
    rcases h2 with h2 | ⟨_, h2⟩
    · simp only at h2; rw [hxy', compare_refl] at h2; cases h2
    · simp only at h2
      have hge := newer_of_packed (hk g hg x hx) (hk f hf y hy) h2
      rcases Nat.lt_or_ge y.seq x.seq with h | h
      · exact h
      · have := hd g hg f hf x hx y hy hxy (by omega)
        subst this; omega
  · -- f before g and they share a user key: excluded by interval + boundary closure
    exfalso
    have hb1 : ule c y.ukey f.lk := ule_of_ikle (entry_le_largest (hok f hf) hy)
    have hb2 : ule c f.lk g.sk := ule_of_ikl hfg
    have hb3 : ule c g.sk x.ukey := ule_of_ikle (entry_ge_smallest (hok g hg) hx)
    have e1 : f.lk = g.sk := ule_antisymm hb2 (ule_trans hb3 (hxy' ▸ hb1))
    obtain ⟨l, hl⟩ : ∃ l, findLargestKey c S = some l := by
      cases hq : findLargestKey c S with
      | none => rw [findLargestKey_eq_none] at hq; rw [hq] at hfS; cases hfS
      | some l => exact ⟨l, rfl⟩
    obtain ⟨⟨f', hf'S, hf'l⟩, hmax⟩ := findLargestKey_isMax hl
    by_cases hlg : ikl c l (smallest g) = true
    · -- g starts after the greatest key of S, on its user key
      have hu1 : ule c f.lk l.1 := ule_of_ikle (hmax f hfS)
      have hu2 : ule c l.1 g.sk := ule_of_ikl hlg
      have : g.sk = l.1 := ule_antisymm (e1 ▸ hu1) hu2
      have hc : isCand c l g = true := by
        simp only [isCand, Bool.and_eq_true, beq_iff_eq]
        exact ⟨hlg, by rw [this, compare_refl]⟩
      rw [hcl l hl g hg] at hc; cases hc
    · have hlg' : ikl c l (smallest g) = false := by simpa using hlg
      have hne' : g ≠ f' := fun h => hgS (h ▸ hf'S)
      rcases sorted_cases hs hg (hsub f' hf'S) hne' with h | h
      · exact hgS (hint g hg f hfS f' hf'S hfg h)
      · rw [hf'l, hlg'] at h; cases h

/-- the boundary file found for the greatest key of an interval keeps it an interval -/
theorem interval_snoc {c : Cmp} {lv S : List FileMeta} (hs : LevelSorted c lv) (hb : BoundsOk c lv)
    (hsub : ∀ f ∈ S, f ∈ lv) (hint : Interval c lv S) {l : IKey} (hmax : IsMaxLargest c S l) {b : FileMeta}
    (hfb : findSmallestBoundaryFile c lv l = some b) : Interval c lv (S ++ [b]) := by
  obtain ⟨hbm, hbc, hbmin⟩ := findSmallestBoundaryFile_some hfb
  have hbc' := hbc
  simp only [isCand, Bool.and_eq_true, beq_iff_eq] at hbc'
  obtain ⟨hlb, hbk⟩ := hbc'
  have hbk' : b.sk = l.1 := (compare_eq_iff c _ _).mp hbk
  obtain ⟨⟨f'', hf''S, hf''l⟩, hmaxu⟩ := hmax
  intro g hg f hf f' hf' h1 h2
  have hgb : ikl c (largest g) (smallest g) = false := bounds_ikl hb hg
  rcases List.mem_append.mp hf with hfS | hfb'
  · rcases List.mem_append.mp hf' with hf'S | hf'b
    · exact List.mem_append_left _ (hint g hg f hfS f' hf'S h1 h2)
    · have : f' = b := by simpa using hf'b
      subst this
      by_cases hlg : ikl c l (smallest g) = true
      · exfalso
        -- g is a candidate smaller than b
        have hu1 : ule c l.1 g.sk := ule_of_ikl hlg
        have hu2 : ule c g.sk g.lk := (BoundsOk.user hb) g hg
        have hu3 : ule c g.lk f'.sk := ule_of_ikl h2
        have : g.sk = l.1 := (ule_antisymm hu1 (ule_trans hu2 (hbk' ▸ hu3))).symm
        have hc : isCand c l g = true := by
          simp only [isCand, Bool.and_eq_true, beq_iff_eq]
          exact ⟨hlg, by rw [this, compare_refl]⟩
        have hmin := hbmin g hg hc
        have : ikl c (smallest g) (smallest f') = true := ikl_of_le_of_lt hgb h2
        rw [hmin] at this; cases this
      · have hlg' : ikl c l (smallest g) = false := by simpa using hlg
        by_cases hgf : g = f''
        · exact List.mem_append_left _ (hgf ▸ hf''S)
        · rcases sorted_cases hs hg (hsub f'' hf''S) hgf with h | h
          · exact List.mem_append_left _ (hint g hg f hfS f'' hf''S h1 h)
          · rw [hf''l, hlg'] at h; cases h
  · have : f = b := by simpa using hfb'
    subst this
    exfalso
    -- largest f < smallest g ≤ largest g < smallest f' ≤ largest f' ; f' ∈ S ∪ {f}
    have hchain : ikl c (largest f) (smallest f') = true := ikl_trans (ikl_of_lt_of_le h1 hgb) h2
    rcases List.mem_append.mp hf' with hf'S | hf'b
    · have h3 : ikl c (largest f) (largest f') = true := ikl_of_lt_of_le hchain (bounds_ikl hb (hsub f' hf'S))
      have h4 : ikl c (largest f) l = true := ikl_of_lt_of_le h3 (hmaxu f' hf'S)
      have h5 : ikl c (largest f) (smallest f) = true := ikl_trans h4 hlb
      rw [bounds_ikl hb hbm] at h5; cases h5
    · have : f' = f := by simpa using hf'b
      subst this
      rw [bounds_ikl hb hbm] at hchain; cases hchain

theorem isMax_snoc {c : Cmp} {lv S : List FileMeta} (hb : BoundsOk c lv) {l : IKey} (hmax : IsMaxLargest c S l)
    {b : FileMeta} (hbm : b ∈ lv) (hbc : isCand c l b = true) : IsMaxLargest c (S ++ [b]) (largest b) := by
  have hlt := cand_largest_gt hb hbm hbc
  refine ⟨⟨b, by simp, rfl⟩, ?_⟩
  intro f hf
  rcases List.mem_append.mp hf with hf | hf
  · exact ikle_trans (hmax.2 f hf) (ikl_asymm hlt)
  · have : f = b := by simpa using hf
    subst this; exact ikl_irrefl c _

theorem addBoundaryLoop_interval {c : Cmp} {lv : List FileMeta} (hs : LevelSorted c lv) (hb : BoundsOk c lv)
    (fuel : Nat) (l : IKey) (acc r : List FileMeta) (hsub : ∀ f ∈ acc, f ∈ lv) (hint : Interval c lv acc)
    (hmax : IsMaxLargest c acc l) (h : addBoundaryLoop c lv fuel l acc = some r) :
    Interval c lv r ∧ ∀ f ∈ r, f ∈ lv := by
  induction fuel generalizing l acc with
  | zero => cases h
  | succ n ih =>
    simp only [addBoundaryLoop] at h
    cases hk : findSmallestBoundaryFile c lv l with
    | none =>
      rw [hk] at h
      simp only [Option.some.injEq] at h
      subst h; exact ⟨hint, hsub⟩
    | some b =>
      rw [hk] at h
      simp only at h
      obtain ⟨hbm, hbc, _⟩ := findSmallestBoundaryFile_some hk
      refine ih _ _ ?_ (interval_snoc hs hb hsub hint hmax hk) (isMax_snoc hb hmax hbm hbc) h
      intro f hf
      rcases List.mem_append.mp hf with hf | hf
      · exact hsub f hf
      · have : f = b := by simpa using hf
        subst this; exact hbm

/-- add_boundary_inputs on a sorted level turns an interval into an interval closed under boundary files -/
theorem addBoundaryInputs_interval {c : Cmp} {lv S r : List FileMeta} (hs : LevelSorted c lv) (hb : BoundsOk c lv)
    (hsub : ∀ f ∈ S, f ∈ lv) (hint : Interval c lv S) (h : addBoundaryInputs c lv S = some r) :
    Interval c lv r ∧ BoundaryClosed c lv r ∧ (∀ f ∈ r, f ∈ lv) ∧ (∀ f ∈ S, f ∈ r) := by
  obtain ⟨added, hr, _, _, hcl⟩ := addBoundaryInputs_closed c lv S r hb h
  have hsup : ∀ f ∈ S, f ∈ r := fun f hf => hr ▸ List.mem_append_left _ hf
  unfold addBoundaryInputs at h
  cases hk : findLargestKey c S with
  | none =>
    rw [hk] at h
    simp only [Option.some.injEq] at h
    subst h
    exact ⟨hint, hcl, hsub, hsup⟩
  | some l =>
    rw [hk] at h
    simp only at h
    obtain ⟨h1, h2⟩ := addBoundaryLoop_interval hs hb _ l S r hsub hint (findLargestKey_isMax hk) h
    exact ⟨h1, hcl, h2, hsup⟩

/-- the files of a sorted level hitting a user-key range form an interval -/
theorem interval_filter_rangeHits {c : Cmp} {lv : List FileMeta} (hb : BoundsOk c lv) (lo hi : Option Bytes) :
    Interval c lv (lv.filter (rangeHits c lo hi)) := by
  intro g hg f hf f' hf' h1 h2
  rw [List.mem_filter] at hf hf' ⊢
  refine ⟨hg, ?_⟩
  rw [rangeHits_iff] at hf hf' ⊢
  have hgu : ule c g.sk g.lk := (BoundsOk.user hb) g hg
  refine ⟨fun k hk => ?_, fun k hk => ?_⟩
  · exact ule_trans (hf.2.1 k hk) (ule_trans (ule_of_ikl h1) hgu)
  · exact ule_trans hgu (ule_trans (ule_of_ikl h2) (hf'.2.2 k hk))

/-- a single file is an interval -/
theorem interval_singleton {c : Cmp} {lv : List FileMeta} (hb : BoundsOk c lv) {f : FileMeta} (hf : f ∈ lv) :
    Interval c lv [f] := by
  intro g hg a ha a' ha' h1 h2
  have e1 : a = f := by simpa using ha
  have e2 : a' = f := by simpa using ha'
  rw [e1] at h1; rw [e2] at h2
  exfalso
  have h3 : ikl c (largest f) (smallest f) = true := ikl_trans (ikl_of_lt_of_le h1 (bounds_ikl hb hg)) h2
  rw [bounds_ikl hb hf] at h3; cases h3

/-! ### level 0 -/

/-- on a set of level-0 files closed under user-key overlap add_boundary_inputs adds nothing -/
theorem addBoundaryInputs_closed0 {c : Cmp} {lv S : List FileMeta} (hb : BoundsOk c lv) (hsub : ∀ f ∈ S, f ∈ lv)
    (hcl : Closed0 c lv S) : addBoundaryInputs c lv S = some S := by
  unfold addBoundaryInputs
  cases hk : findLargestKey c S with
  | none => rfl
  | some l =>
    simp only [addBoundaryLoop]
    have hnone : findSmallestBoundaryFile c lv l = none := by
      rw [findSmallestBoundaryFile_none]
      intro g hg
      cases hc : isCand c l g with
      | false => rfl
      | true =>
        exfalso
        obtain ⟨⟨f', hf'S, hf'l⟩, hmax⟩ := findLargestKey_isMax hk
        have hc' := hc
        simp only [isCand, Bool.and_eq_true, beq_iff_eq] at hc'
        obtain ⟨hlg, hgk⟩ := hc'
        have hgk' : g.sk = l.1 := (compare_eq_iff c _ _).mp hgk
        have hgS : g ∈ S := by
          apply Classical.byContradiction
          intro hgS
          have := hcl g hg hgS f' hf'S
          rw [userRangesOverlap_false_iff] at this
          have hl1 : f'.lk = l.1 := by rw [← hf'l]; rfl
          rcases this with h | h
          · rw [hl1, hgk', compare_refl] at h; cases h
          · have h1 : ule c f'.sk f'.lk := (BoundsOk.user hb) f' (hsub f' hf'S)
            have h2 : ule c g.sk g.lk := (BoundsOk.user hb) g hg
            have : ule c f'.sk g.lk := ule_trans h1 (hl1 ▸ hgk' ▸ h2)
            exact not_lt_of_ule this h
        have h1 := cand_largest_gt hb hg hc
        rw [hmax g hgS] at h1; cases h1
    rw [hnone]

/-- contract (a) on level 0: a closed set shares no user key with the rest of level 0 -/
theorem newer_of_closed0 {c : Cmp} {lv S : List FileMeta} (hok : ∀ f ∈ lv, FileOk c f) (hsub : ∀ f ∈ S, f ∈ lv)
    (hcl : Closed0 c lv S) : ∀ g ∈ lv, g ∉ S → ∀ f ∈ S, NewerThan c g.run f.run := by
  intro g hg hgS f hfS
  exact newerThan_of_apart (hok f (hsub f hfS)) (hok g hg) ((userRangesOverlap_false_iff c f g).mp (hcl g hg hgS f hfS))

end Lcdb.Policy
