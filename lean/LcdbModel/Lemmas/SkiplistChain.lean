/-
  Helper lemmas for Model/Skiplist.lean, part 6: the chains of all levels, the keys in iteration order,
  the empty list, and sequences of inserts.
-/
import LcdbModel.Lemmas.SkiplistInsert3
namespace Lcdb.Skiplist
variable {α : Type}

/-- ordered insertion (the shape of `Lsm.runInsert`) -/
def ordInsert (cmp : α → α → Ordering) (k : α) : List α → List α
  | [] => [k]
  | x :: xs => if cmp k x == .lt then k :: x :: xs else x :: ordInsert cmp k xs

theorem ordInsert_split (cmp : α → α → Ordering) (k : α) (As Bs : List α) (hA : ∀ a ∈ As, cmp k a ≠ .lt)
    (hB : ∀ b, Bs.head? = some b → cmp k b = .lt) : ordInsert cmp k (As ++ Bs) = As ++ k :: Bs := by
  induction As with
  | nil =>
    cases Bs with
    | nil => rfl
    | cons b t => simp [ordInsert, hB b rfl]
  | cons a t ih =>
    have := hA a (by simp)
    simp only [List.cons_append, ordInsert, this, beq_iff_eq, if_false]
    rw [ih (fun x hx => hA x (by simp [hx]))]

theorem mem_ordInsert {cmp : α → α → Ordering} {k x : α} {l : List α} : x ∈ ordInsert cmp k l ↔ x = k ∨ x ∈ l := by
  induction l with
  | nil => simp [ordInsert]
  | cons a t ih =>
    unfold ordInsert
    split
    · simp
    · simp [ih]; grind

/-! ### chains -/

theorem chainFrom_spec {cmp : α → α → Ordering} {sl : SkipList α} {L : List Nat} (h : Inv cmp sl L) (lvl : Nat) :
    ∀ (fuel x : Nat) (pre suf : List Nat), 0 :: L = pre ++ x :: suf → lvl < heightOf sl x → suf.length ≤ fuel →
      chainFrom sl lvl fuel x = suf.filter (fun y => decide (lvl < heightOf sl y)) := by
  intro fuel
  induction fuel with
  | zero =>
    intro x pre suf _ _ hf
    have : suf = [] := List.eq_nil_of_length_eq_zero (by omega)
    subst this; rfl
  | succ fuel ih =>
    intro x pre suf hs hl hf
    simp only [chainFrom, h.next pre x suf hs lvl hl]
    cases hfind : suf.find? (fun y => decide (lvl < heightOf sl y)) with
    | none =>
      symm
      rw [List.filter_eq_nil_iff]
      intro a ha
      exact List.find?_eq_none.mp hfind a ha
    | some y =>
      obtain ⟨s1, s2, hsuf, hy, hs1⟩ := find?_eq_some_split hfind
      simp only
      rw [ih y (pre ++ x :: s1) s2 (by rw [hs, hsuf]; simp) (by simpa using hy) (by rw [hsuf] at hf; simp at hf; omega)]
      rw [hsuf, List.filter_append, List.filter_cons, hy]
      have : s1.filter (fun y => decide (lvl < heightOf sl y)) = [] := by
        rw [List.filter_eq_nil_iff]; intro a ha; simp [hs1 a ha]
      simp [this]

/-- every level's chain is the ordered list restricted to the nodes higher than the level -/
theorem chain_eq {cmp : α → α → Ordering} {sl : SkipList α} {L : List Nat} (h : Inv cmp sl L) (lvl : Nat) (hl : lvl < kMaxHeight) :
    chain sl lvl = L.filter (fun y => decide (lvl < heightOf sl y)) := by
  unfold chain
  exact chainFrom_spec h lvl sl.nodes.length 0 [] L rfl (by rw [h.headHeight]; exact hl) (by have := h.len; omega)

theorem chain0_eq {cmp : α → α → Ordering} {sl : SkipList α} {L : List Nat} (h : Inv cmp sl L) : chain sl 0 = L := by
  rw [chain_eq h 0 (by decide), List.filter_eq_self]
  intro a ha
  have := (h.heights a ha).1
  simp; omega

/-! ### the empty list -/

theorem init_inv (cmp : α → α → Ordering) : Inv cmp (SkipList.init : SkipList α) [] := by
  refine ⟨rfl, ?_, ?_, rfl, by simp, by simp, by simp, ⟨by simp [SkipList.init], by simp [SkipList.init, kMaxHeight]⟩, .inl rfl, ?_⟩
  · simp [heightOf, SkipList.init, kMaxHeight]
  · intro x; simp [SkipList.init]; omega
  · intro pre x suf hs lvl hl
    cases pre with
    | nil =>
      simp at hs
      obtain ⟨rfl, rfl⟩ := hs
      simp [heightOf, SkipList.init] at hl
      simp [getNext, SkipList.init, hl]
    | cons a t => simp at hs

/-! ### one insert, in terms of keys -/

/-- `sl` is a well-formed skiplist whose keys, in iteration order, are `ks` -/
def Good (cmp : α → α → Ordering) (sl : SkipList α) (ks : List α) : Prop :=
  ∃ L, Inv cmp sl L ∧ L.filterMap (keyOf sl) = ks

theorem Good.keys {cmp : α → α → Ordering} {sl : SkipList α} {ks : List α} (h : Good cmp sl ks) : keys sl = ks := by
  obtain ⟨L, hi, hk⟩ := h
  unfold Skiplist.keys
  rw [chain0_eq hi, hk]

theorem init_good (cmp : α → α → Ordering) : Good cmp (SkipList.init : SkipList α) [] := ⟨[], init_inv cmp, rfl⟩

theorem filterMap_keyOf_congr {sl s' : SkipList α} {l : List Nat} (h : ∀ y ∈ l, keyOf s' y = keyOf sl y) :
    l.filterMap (keyOf s') = l.filterMap (keyOf sl) := by
  induction l with
  | nil => rfl
  | cons a t ih =>
    simp only [List.filterMap_cons, h a (by simp)]
    rw [ih (fun y hy => h y (by simp [hy]))]

theorem mem_filterMap_keyOf {sl : SkipList α} {l : List Nat} {k : α} (h : k ∈ l.filterMap (keyOf sl)) :
    ∃ y ∈ l, keyOf sl y = some k := by
  simpa [List.mem_filterMap] using h

theorem insert_good {cmp : α → α → Ordering} {sl : SkipList α} {ks : List α} (hc : CmpOk cmp) (h : Good cmp sl ks) (k : α)
    (height : Nat) (hh : 1 ≤ height ∧ height ≤ kMaxHeight) (hnew : ∀ x ∈ ks, cmp k x ≠ .eq) :
    ∃ s', insert cmp sl k height = some s' ∧ Good cmp s' (ordInsert cmp k ks) ∧ s'.rnd = sl.rnd ∧
      s'.nodes.length = sl.nodes.length + 1 ∧ heightOf s' sl.nodes.length = height := by
  obtain ⟨L, hi, hk⟩ := h
  obtain ⟨A, B, hL, hA, hB⟩ := sorted_split hc hi k
  have hmemk : ∀ y ∈ L, ∀ ky, keyOf sl y = some ky → ky ∈ ks := by
    intro y hy ky hky
    rw [← hk, List.mem_filterMap]
    exact ⟨y, hy, hky⟩
  obtain ⟨s', hrun, hinv, hrnd, hlen, hkey, hht⟩ := insert_ok hc hi k height hh A B hL hA hB (by
    intro b kb hb hkb
    exact hnew kb (hmemk b (by rw [hL]; simp [List.mem_of_mem_head? hb]) kb hkb))
  refine ⟨s', hrun, ⟨A ++ sl.nodes.length :: B, hinv, ?_⟩, hrnd, hlen, by rw [hht]; simp⟩
  have hLn : ∀ y ∈ L, y ≠ sl.nodes.length := fun y hy => by have := (hi.mem_iff y).mp hy; omega
  have hAk : A.filterMap (keyOf s') = A.filterMap (keyOf sl) :=
    filterMap_keyOf_congr (fun y hy => by rw [hkey, if_neg (hLn y (by rw [hL]; simp [hy]))])
  have hBk : B.filterMap (keyOf s') = B.filterMap (keyOf sl) :=
    filterMap_keyOf_congr (fun y hy => by rw [hkey, if_neg (hLn y (by rw [hL]; simp [hy]))])
  rw [List.filterMap_append, List.filterMap_cons, hkey, if_pos rfl, hAk, hBk, ← hk, hL, List.filterMap_append]
  symm
  apply ordInsert_split
  · intro a ha
    obtain ⟨y, hy, hky⟩ := mem_filterMap_keyOf ha
    obtain ⟨ka, h1, h2⟩ := afterKey_true (hA y hy)
    rw [hky] at h1; cases h1
    rw [hc.swap a k, h2]; simp [Ordering.swap]
  · intro b hb
    -- the head of B's keys is the key of B's head
    cases B with
    | nil => simp at hb
    | cons b0 t =>
      obtain ⟨k0, hk0, hnlt⟩ := afterKey_false (hB b0 (by simp))
      simp only [List.filterMap_cons, hk0, List.head?_cons] at hb
      have hb' : k0 = b := by simpa using hb
      subst hb'
      have hne := hnew k0 (hmemk b0 (by rw [hL]; simp) k0 hk0)
      have := hc.swap k0 k
      cases h1 : cmp k0 k with
      | lt => exact absurd h1 hnlt
      | eq => rw [h1] at this; simp [Ordering.swap] at this; exact absurd this hne
      | gt => rw [h1] at this; simpa [Ordering.swap] using this

/-- a sequence of inserts with the heights given -/
def insertMany (cmp : α → α → Ordering) : SkipList α → List (α × Nat) → Option (SkipList α)
  | sl, [] => some sl
  | sl, (k, h) :: rest =>
    match insert cmp sl k h with
    | none => none
    | some s' => insertMany cmp s' rest

theorem insertMany_good {cmp : α → α → Ordering} (hc : CmpOk cmp) (khs : List (α × Nat)) :
    ∀ (sl : SkipList α) (ks : List α), Good cmp sl ks →
      (∀ kh ∈ khs, 1 ≤ kh.2 ∧ kh.2 ≤ kMaxHeight) →
      (∀ kh ∈ khs, ∀ x ∈ ks, cmp kh.1 x ≠ .eq) →
      (khs.map (·.1)).Pairwise (fun a b => cmp a b ≠ .eq) →
      ∃ s', insertMany cmp sl khs = some s' ∧ Good cmp s' ((khs.map (·.1)).foldl (fun r k => ordInsert cmp k r) ks) ∧
        s'.nodes.length = sl.nodes.length + khs.length := by
  induction khs with
  | nil => intro sl ks h _ _ _; exact ⟨sl, rfl, h, rfl⟩
  | cons kh rest ih =>
    intro sl ks h hh hnew hd
    obtain ⟨k, ht⟩ := kh
    obtain ⟨s1, hrun, hg, _, hlen, _⟩ := insert_good hc h k ht (hh (k, ht) (by simp)) (hnew (k, ht) (by simp))
    simp only [List.map_cons, List.pairwise_cons] at hd
    obtain ⟨s', hrun', hg', hlen'⟩ := ih s1 (ordInsert cmp k ks) hg (fun x hx => hh x (by simp [hx]))
      (by
        intro kh' hkh' x hx
        rcases mem_ordInsert.mp hx with rfl | hx
        · have := hd.1 kh'.1 (List.mem_map.mpr ⟨kh', hkh', rfl⟩)
          intro e
          apply this
          rw [hc.swap, e]; rfl
        · exact hnew kh' (by simp [hkh']) x hx)
      hd.2
    refine ⟨s', by simp [insertMany, hrun, hrun'], hg', ?_⟩
    rw [hlen', hlen]; simp; omega

end Lcdb.Skiplist
