/-
  The block iterator over a well-formed block (`WfBlock`) is a cursor over the entry list.
  Part 1: facts about chains and restart arrays of well-formed blocks.
-/
import LcdbModel.Lemmas.BlockWf
import LcdbModel.Lemmas.CursorDefs
import LcdbModel.Lemmas.Cursor
namespace Lcdb

/-! ### chains -/

theorem Chain.bounds {data : Bytes} {limit : Nat} :
    ∀ {L : List Ent} {pk : Bytes} {off : Nat}, Chain data limit pk off L →
      off ≤ limit ∧ ∀ e ∈ L, off ≤ e.off ∧ e.off + 3 ≤ e.next ∧ e.next ≤ limit ∧ e.off < limit := by
  intro L
  induction L with
  | nil => intro pk off h; simp only [Chain] at h; subst h; simp
  | cons e L ih =>
    intro pk off h
    simp only [Chain] at h
    obtain ⟨h1, h2, ⟨ns, kp, _, _, _, _, hv, hkp⟩, hrest⟩ := h
    obtain ⟨hle, hall⟩ := ih hrest
    refine ⟨by omega, ?_⟩
    intro x hx
    simp only [List.mem_cons] at hx
    rcases hx with rfl | hx
    · simp only [Ent.next]; omega
    · obtain ⟨a, b, c', d⟩ := hall x hx
      simp only [Ent.next] at *
      exact ⟨by omega, b, c', d⟩

/-- the chain seen from entry `i` -/
theorem Chain.at {data : Bytes} {limit : Nat} :
    ∀ (i : Nat) {L : List Ent} {pk : Bytes} {off : Nat} {e : Ent}, Chain data limit pk off L →
      L[i]? = some e →
      ∃ pk', Chain data limit pk' e.off (e :: L.drop (i + 1)) ∧ (i = 0 → pk' = pk ∧ e.off = off) ∧
        (∀ i', i = i' + 1 → ∃ e', L[i']? = some e' ∧ pk' = e'.key ∧ e.off = e'.next) := by
  intro i
  induction i with
  | zero =>
    intro L pk off e h hi
    cases L with
    | nil => simp at hi
    | cons x L =>
      simp only [List.getElem?_cons_zero, Option.some.injEq] at hi
      subst hi
      refine ⟨pk, ?_, ?_, ?_⟩
      · have h' := h
        simp only [Chain] at h
        rw [h.1]
        simpa using h'
      · intro _; simp only [Chain] at h; exact ⟨rfl, h.1⟩
      · intro i' hi'; omega
  | succ i ih =>
    intro L pk off e h hi
    cases L with
    | nil => simp at hi
    | cons x L =>
      simp only [List.getElem?_cons_succ] at hi
      simp only [Chain] at h
      obtain ⟨_, _, _, hrest⟩ := h
      obtain ⟨pk', hc, h0, hs⟩ := ih hrest hi
      refine ⟨pk', by simpa using hc, by omega, ?_⟩
      intro i' hi'
      have : i' = i := by omega
      subst this
      cases i' with
      | zero =>
        obtain ⟨hp, ho⟩ := h0 rfl
        exact ⟨x, by simp, hp, by simp only [Ent.next]; exact ho⟩
      | succ i'' =>
        obtain ⟨e', he', hp, ho⟩ := hs i'' rfl
        exact ⟨e', by simpa using he', hp, ho⟩

/-- unfolding of a chain at its head -/
theorem Chain.head {data : Bytes} {limit : Nat} {pk : Bytes} {off : Nat} {e : Ent} {S : List Ent}
    (h : Chain data limit pk off (e :: S)) :
    e.off = off ∧ off < limit ∧
    (∃ ns kp, decodeEntry data off limit = .ok e.sh ns e.vlen kp ∧ e.sh ≤ pk.length ∧
       e.key = pk.take e.sh ++ sliceAt data kp ns ∧ (sliceAt data kp ns).length = ns ∧
       e.voff = kp + ns ∧ off + 3 ≤ kp) ∧
    Chain data limit e.key e.next S := by
  simpa only [Chain, Ent.next] using h

/-- offsets strictly increase along a chain -/
theorem Chain.off_lt {data : Bytes} {limit : Nat} {L : List Ent} {pk : Bytes} {off : Nat}
    (h : Chain data limit pk off L) {i j : Nat} {a b : Ent} (ha : L[i]? = some a) (hb : L[j]? = some b)
    (hij : i < j) : a.next ≤ b.off := by
  obtain ⟨pk', hc, _, _⟩ := Chain.at i h ha
  have hrest := (Chain.head hc).2.2.2
  have hb' : (L.drop (i + 1))[j - (i + 1)]? = some b := by
    rw [List.getElem?_drop]
    have : i + 1 + (j - (i + 1)) = j := by omega
    rw [this]; exact hb
  have hmem : b ∈ L.drop (i + 1) := List.mem_iff_getElem?.mpr ⟨_, hb'⟩
  exact ((Chain.bounds hrest).2 b hmem).1

theorem Chain.idx_le_of_off_le {data : Bytes} {limit : Nat} {L : List Ent} {pk : Bytes} {off : Nat}
    (h : Chain data limit pk off L) {i j : Nat} {a b : Ent} (ha : L[i]? = some a) (hb : L[j]? = some b)
    (hoff : a.off ≤ b.off) : i ≤ j := by
  by_cases hji : j < i
  · have h1 := Chain.off_lt h hb ha hji
    have hbm : b ∈ L := List.mem_iff_getElem?.mpr ⟨_, hb⟩
    have h2 := ((Chain.bounds h).2 b hbm).2.1
    omega
  · omega

theorem Chain.idx_eq_of_off_eq {data : Bytes} {limit : Nat} {L : List Ent} {pk : Bytes} {off : Nat}
    (h : Chain data limit pk off L) {i j : Nat} {a b : Ent} (ha : L[i]? = some a) (hb : L[j]? = some b)
    (hoff : a.off = b.off) : i = j := by
  have h1 := Chain.idx_le_of_off_le h ha hb (by omega)
  have h2 := Chain.idx_le_of_off_le h hb ha (by omega)
  omega

end Lcdb

namespace Lcdb

/-! ### Part 2: single steps of the iterator over a well-formed block -/

/-- the iterator works on this block -/
def OnBlock (data : Bytes) (restarts num : Nat) (bi : BlockIter) : Prop :=
  bi.data = data ∧ bi.restarts = restarts ∧ bi.numRestarts = num

/-- the iterator stands on entry `e` (restart index in the admissible range) -/
def OnEntry (data : Bytes) (restarts num : Nat) (bi : BlockIter) (e : Ent) : Prop :=
  bi.current = e.off ∧ bi.key = e.key ∧ bi.value = some (e.voff, e.vlen) ∧
  bi.restartIndex < num ∧ restartAt data restarts bi.restartIndex ≤ e.off ∧
  (bi.restartIndex + 1 < num → e.off ≤ restartAt data restarts (bi.restartIndex + 1))

section
variable {data : Bytes} {restarts num : Nat} {L : List Ent}

theorem WfBlock.restart_le (hw : WfBlock data restarts num L) {j : Nat} (hj : j < num) :
    restartAt data restarts j ≤ restarts := by
  cases j with
  | zero => rw [hw.r0]; omega
  | succ j =>
    obtain ⟨e, he, ho, _⟩ := hw.rent (j + 1) (by omega) hj
    have := ((Chain.bounds hw.chain).2 e he).2.2.2
    omega

theorem WfBlock.getRestartPoint (hw : WfBlock data restarts num L) {bi : BlockIter}
    (hb : OnBlock data restarts num bi) {j : Nat} (hj : j < num) :
    bi.getRestartPoint j = some (restartAt data restarts j) := by
  obtain ⟨hd, hr, hn⟩ := hb
  have hsz := hw.size
  have hle := hw.restart_le hj
  unfold BlockIter.getRestartPoint readFixed32At
  rw [hd, hr, hn]
  have h1 : ¬ data.length < restarts + j * 4 + 4 := by omega
  simp only [hj, if_true, h1, if_false]
  have h2 : ¬ fixedDec (List.take 4 (List.drop (restarts + j * 4) data)) > restarts := by
    unfold restartAt at hle; omega
  simp only [h2, if_false]; rfl

/-- every restart entry is the offset of an entry with `shared = 0` -/
theorem WfBlock.restart_ent (hw : WfBlock data restarts num L) (hne : L ≠ []) {j : Nat} (hj : j < num) :
    ∃ (m : Nat) (e : Ent), L[m]? = some e ∧ e.off = restartAt data restarts j ∧ e.sh = 0 := by
  cases j with
  | zero =>
    cases L with
    | nil => exact absurd rfl hne
    | cons e L' =>
      have hh := Chain.head hw.chain
      obtain ⟨h1, _, ⟨ns, kp, _, hsh, _⟩, _⟩ := hh
      refine ⟨0, e, by simp, ?_, ?_⟩
      · rw [hw.r0]; exact h1
      · exact Nat.le_zero.mp hsh
  | succ j =>
    obtain ⟨e, he, ho, hs⟩ := hw.rent (j + 1) (by omega) hj
    obtain ⟨m, hm⟩ := List.mem_iff_getElem?.mp he
    exact ⟨m, e, hm, ho, hs⟩

/-- an empty well-formed block has one restart point, at offset 0 = restarts -/
theorem WfBlock.nil_inv (hw : WfBlock data restarts num []) : num = 1 ∧ restarts = 0 := by
  have h0 : (0 : Nat) = restarts := by simpa [Chain] using hw.chain
  refine ⟨?_, h0.symm⟩
  by_cases h : 1 < num
  · obtain ⟨e, he, _⟩ := hw.rent 1 (by omega) h
    simp at he
  · have := hw.num_pos; omega

/-- the loop that advances restart_index -/
theorem WfBlock.bump (hw : WfBlock data restarts num L) {bi : BlockIter}
    (hb : OnBlock data restarts num bi) :
    ∀ (fuel ri : Nat), 1 ≤ fuel → num ≤ fuel + ri →
      ∃ ri', bi.bumpRestart fuel ri = some ri' ∧ ri ≤ ri' ∧ (ri < num → ri' < num) ∧
        (ri' = ri ∨ restartAt data restarts ri' < bi.current) ∧
        (ri' + 1 < num → bi.current ≤ restartAt data restarts (ri' + 1)) := by
  intro fuel
  induction fuel with
  | zero => intro ri h; omega
  | succ fuel ih =>
    intro ri _ hf
    unfold BlockIter.bumpRestart
    rw [hb.2.2]
    by_cases h1 : ri + 1 < num
    · simp only [h1, if_true, hw.getRestartPoint hb h1]
      by_cases h2 : restartAt data restarts (ri + 1) < bi.current
      · simp only [h2, if_true]
        obtain ⟨ri', he, hle, hlt, hor, hup⟩ := ih (ri + 1) (by omega) (by omega)
        refine ⟨ri', he, by omega, fun _ => hlt h1, ?_, hup⟩
        rcases hor with h | h
        · right; rw [h]; exact h2
        · right; exact h
      · simp only [h2, if_false]
        exact ⟨ri, rfl, Nat.le_refl _, id, Or.inl rfl, fun _ => by omega⟩
    · simp only [h1, if_false]
      exact ⟨ri, rfl, Nat.le_refl _, id, Or.inl rfl, fun h => absurd h h1⟩

/-- parse_next_key at the end of the data area -/
theorem WfBlock.parse_nil (c : BlockCmp) {bi : BlockIter}
    (hb : OnBlock data restarts num bi) {o n : Nat} {pk : Bytes} (hv : bi.value = some (o, n))
    (hc : Chain data restarts pk (o + n) []) :
    bi.parseNextKey c = some (false, bi.markInvalid) := by
  simp only [Chain] at hc
  unfold BlockIter.parseNextKey
  simp only [BlockIter.nextEntryOffset, hv, Option.map, hb.2.1]
  have : o + n ≥ restarts := by omega
  simp only [this, if_true]

/-- parse_next_key in front of entry `e` -/
theorem WfBlock.parse_cons (hw : WfBlock data restarts num L) (c : BlockCmp) {bi : BlockIter}
    (hb : OnBlock data restarts num bi) {o n : Nat} {pk : Bytes} {e : Ent} {S : List Ent}
    (hv : bi.value = some (o, n)) (hc : Chain data restarts pk (o + n) (e :: S))
    (hkey : bi.key.take e.sh = pk.take e.sh ∧ e.sh ≤ bi.key.length)
    (hint : c.internal = true → 8 ≤ e.key.length)
    (hri : bi.restartIndex < num) (hlow : restartAt data restarts bi.restartIndex ≤ e.off) :
    ∃ bi', bi.parseNextKey c = some (true, bi') ∧ OnBlock data restarts num bi' ∧
      OnEntry data restarts num bi' e ∧ bi'.status = bi.status ∧ bi.restartIndex ≤ bi'.restartIndex := by
  obtain ⟨ho, hlt, ⟨ns, kp, hdec, hsh, hk, hsl, hvo, hkp⟩, _⟩ := Chain.head hc
  obtain ⟨hd, hr, hn⟩ := hb
  subst hd hr hn
  have hklen : e.key.length = e.sh + ns := by
    rw [hk, List.length_append, List.length_take, hsl]; omega
  unfold BlockIter.parseNextKey
  simp only [BlockIter.nextEntryOffset, hv, Option.map]
  have h1 : ¬ o + n ≥ bi.restarts := by omega
  simp only [h1, if_false, hdec]
  have h2 : ¬ bi.key.length < e.sh := by omega
  simp only [h2, if_false]
  have h3 : (c.internal && decide (e.sh + ns < 8)) = false := by
    cases hci : c.internal with
    | false => simp
    | true => have := hint hci; simp; omega
  simp only [h3, Bool.false_eq_true, if_false]
  -- the restart-index loop
  obtain ⟨ri', hbump, hle, hltn, hor, hup⟩ :=
    hw.bump (bi := { bi with current := o + n
                             key := bi.key.take e.sh ++ (bi.data.drop kp).take ns
                             value := some (kp + ns, e.vlen) }) ⟨rfl, rfl, rfl⟩
      (bi.numRestarts + 1) bi.restartIndex (by omega) (by omega)
  rw [hbump]
  refine ⟨_, rfl, ⟨rfl, rfl, rfl⟩, ?_, rfl, hle⟩
  refine ⟨by show o + n = e.off; omega, ?_, ?_, hltn hri, ?_, ?_⟩
  · show bi.key.take e.sh ++ (bi.data.drop kp).take ns = e.key
    rw [hk, hkey.1]; rfl
  · show some (kp + ns, e.vlen) = some (e.voff, e.vlen)
    rw [hvo]
  · show restartAt bi.data bi.restarts ri' ≤ e.off
    rcases hor with h | h
    · rw [h]; exact hlow
    · have h' : restartAt bi.data bi.restarts ri' < o + n := h
      omega
  · intro h
    have h0 : ri' + 1 < bi.numRestarts := h
    have h' : o + n ≤ restartAt bi.data bi.restarts (ri' + 1) := hup h0
    show e.off ≤ restartAt bi.data bi.restarts (ri' + 1)
    omega

end
end Lcdb

namespace Lcdb

/-! ### Part 3: walking forward -/

/-- iterator state vs. cursor position over the entry list -/
def PosRel (data : Bytes) (restarts num : Nat) (L : List Ent) (bi : BlockIter) : Option Nat → Prop
  | none => OnBlock data restarts num bi ∧ bi.current = restarts
  | some i => OnBlock data restarts num bi ∧ ∃ e, L[i]? = some e ∧ OnEntry data restarts num bi e

/-- the iterator is about to parse entry `m` (the end of the data area if `m = L.length`);
    `off` is the offset it will parse at -/
def Before (data : Bytes) (restarts num : Nat) (L : List Ent) (bi : BlockIter) (m off : Nat) : Prop :=
  OnBlock data restarts num bi ∧ m ≤ L.length ∧
  ∃ o n pk, bi.value = some (o, n) ∧ o + n = off ∧ Chain data restarts pk off (L.drop m) ∧
    (∀ e, L[m]? = some e → bi.key.take e.sh = pk.take e.sh ∧ e.sh ≤ bi.key.length) ∧
    bi.restartIndex < num ∧ restartAt data restarts bi.restartIndex ≤ off

section
variable {data : Bytes} {restarts num : Nat} {L : List Ent}

theorem OnEntry.before (hw : WfBlock data restarts num L) {bi : BlockIter} {i : Nat} {e : Ent}
    (hb : OnBlock data restarts num bi) (hi : L[i]? = some e) (he : OnEntry data restarts num bi e) :
    Before data restarts num L bi (i + 1) e.next := by
  obtain ⟨hcur, hkey, hval, hri, hlow, _⟩ := he
  obtain ⟨pk', hc, _, _⟩ := Chain.at i hw.chain hi
  obtain ⟨_, _, ⟨ns, kp, _, _, _, _, hvo, hkp⟩, hrest⟩ := Chain.head hc
  have hlen : i < L.length := by
    have := List.getElem?_eq_some_iff.mp hi; exact this.1
  refine ⟨hb, by omega, e.voff, e.vlen, e.key, hval, rfl, hrest, ?_, hri, ?_⟩
  · intro e' he'
    rw [hkey]
    refine ⟨rfl, ?_⟩
    have hd : L.drop (i + 1) = e' :: L.drop (i + 1 + 1) := by
      have hl : i + 1 < L.length := (List.getElem?_eq_some_iff.mp he').1
      rw [List.drop_eq_getElem_cons hl]
      congr 1
      exact (List.getElem?_eq_some_iff.mp he').2
    rw [hd] at hrest
    exact (Chain.head hrest).2.2.1.choose_spec.choose_spec.2.1
  · simp only [Ent.next]; omega

/-- one parse step from a boundary state: the end of the data area -/
theorem Before.step_end (c : BlockCmp) {bi : BlockIter} {m off : Nat}
    (hbef : Before data restarts num L bi m off) (hm : L.length ≤ m) :
    bi.parseNextKey c = some (false, bi.markInvalid) := by
  obtain ⟨hb, _, o, n, pk, hv, hon, hc, _⟩ := hbef
  have : L.drop m = [] := List.drop_eq_nil_of_le hm
  rw [this, ← hon] at hc
  exact WfBlock.parse_nil c hb hv hc

/-- one parse step from a boundary state: entry `m` -/
theorem Before.step (hw : WfBlock data restarts num L) (c : BlockCmp)
    (hint : c.internal = true → ∀ e ∈ L, 8 ≤ e.key.length)
    {bi : BlockIter} {m off : Nat} {e : Ent}
    (hbef : Before data restarts num L bi m off) (hm : L[m]? = some e) :
    e.off = off ∧
    ∃ bi', bi.parseNextKey c = some (true, bi') ∧ OnBlock data restarts num bi' ∧
      OnEntry data restarts num bi' e ∧ bi'.status = bi.status := by
  obtain ⟨hb, _, o, n, pk, hv, hon, hc, hkey, hri, hlow⟩ := hbef
  have hl : m < L.length := (List.getElem?_eq_some_iff.mp hm).1
  have hd : L.drop m = e :: L.drop (m + 1) := by
    rw [List.drop_eq_getElem_cons hl]
    congr 1
    exact (List.getElem?_eq_some_iff.mp hm).2
  rw [hd, ← hon] at hc
  have hoff := (Chain.head hc).1
  refine ⟨by omega, ?_⟩
  have hmem : e ∈ L := List.mem_iff_getElem?.mpr ⟨m, hm⟩
  obtain ⟨bi', hp, hb', he', hs, _⟩ :=
    hw.parse_cons c hb hv hc (hkey e hm) (fun h => hint h e hmem) hri (by omega)
  exact ⟨bi', hp, hb', he', hs⟩

end
end Lcdb

namespace Lcdb

/-! ### Part 4: the forward loops -/

section
variable {data : Bytes} {restarts num : Nat} {L : List Ent}

theorem OnEntry.nextEntryOffset {bi : BlockIter} {e : Ent} (he : OnEntry data restarts num bi e) :
    bi.nextEntryOffset = some e.next := by
  simp only [BlockIter.nextEntryOffset, he.2.2.1, Option.map, Ent.next]

/-- `skipUntil bound` from the boundary before entry `m` stops on the first entry `k ≥ m` whose
    end is not below `bound` -/
theorem WfBlock.skipUntil (hw : WfBlock data restarts num L) (c : BlockCmp)
    (hint : c.internal = true → ∀ e ∈ L, 8 ≤ e.key.length) (bound : Nat) :
    ∀ (d : Nat) (bi : BlockIter) (m off k fuel : Nat) (ek : Ent),
      k = m + d → Before data restarts num L bi m off → restarts - off < fuel →
      (∀ x e, m ≤ x → x < k → L[x]? = some e → e.next < bound) →
      L[k]? = some ek → ¬ ek.next < bound →
      ∃ bi', BlockIter.skipUntil c bound fuel bi = some bi' ∧
        PosRel data restarts num L bi' (some k) ∧ bi'.status = bi.status := by
  intro d
  induction d with
  | zero =>
    intro bi m off k fuel ek hk hbef hfuel _ hek hbound
    have : k = m := by omega
    subst this
    cases fuel with
    | zero => omega
    | succ fuel =>
      obtain ⟨_, bi', hp, hb', he', hs⟩ := Before.step hw c hint hbef hek
      unfold BlockIter.skipUntil
      simp only [hp, he'.nextEntryOffset, hbound, if_false]
      exact ⟨bi', rfl, ⟨hb', ek, hek, he'⟩, hs⟩
  | succ d ih =>
    intro bi m off k fuel ek hk hbef hfuel hall hek hbound
    have hklen : k < L.length := (List.getElem?_eq_some_iff.mp hek).1
    have hmlen : m < L.length := by omega
    have hm : L[m]? = some L[m] := List.getElem?_eq_some_iff.mpr ⟨hmlen, rfl⟩
    cases fuel with
    | zero => omega
    | succ fuel =>
      obtain ⟨hoff, bi', hp, hb', he', hs⟩ := Before.step hw c hint hbef hm
      have hlt : L[m].next < bound := hall m L[m] (Nat.le_refl _) (by omega) hm
      unfold BlockIter.skipUntil
      simp only [hp, he'.nextEntryOffset, hlt, if_true]
      have hbef' := OnEntry.before hw hb' hm he'
      have hmem : L[m] ∈ L := List.mem_iff_getElem?.mpr ⟨m, hm⟩
      have hbnd := (Chain.bounds hw.chain).2 _ hmem
      obtain ⟨bi'', hsk, hpos, hs'⟩ := ih bi' (m + 1) L[m].next k fuel ek (by omega) hbef'
        (by omega) (fun x e hx1 hx2 hx => hall x e (by omega) hx2 hx) hek hbound
      exact ⟨bi'', hsk, hpos, by rw [hs', hs]⟩

/-- the final loop of seek from the boundary before entry `m`: stops on the first entry `k ≥ m`
    whose key is not below the target, or runs off the end -/
theorem WfBlock.seekLinear (hw : WfBlock data restarts num L) (c : BlockCmp)
    (hint : c.internal = true → ∀ e ∈ L, 8 ≤ e.key.length) (t : Bytes)
    (ht : c.internal = true → 8 ≤ t.length) :
    ∀ (d : Nat) (bi : BlockIter) (m off k fuel : Nat),
      k = m + d → Before data restarts num L bi m off → restarts - off < fuel →
      (∀ x e, m ≤ x → x < k → L[x]? = some e → c.cmp e.key t = .lt) →
      (k = L.length ∨ ∃ ek, L[k]? = some ek ∧ c.cmp ek.key t ≠ .lt) →
      ∃ bi', BlockIter.seekLinear c t fuel bi = some bi' ∧
        PosRel data restarts num L bi' (if k = L.length then none else some k) ∧
        bi'.status = bi.status := by
  have hcmp : ∀ e ∈ L, c.compare e.key t = some (c.cmp e.key t) := by
    intro e he
    unfold BlockCmp.compare
    cases hci : c.internal with
    | false => simp
    | true =>
      have h1 := hint hci e he
      have h2 := ht hci
      have : ¬ (e.key.length < 8 ∨ t.length < 8) := by omega
      simp [this]
  intro d
  induction d with
  | zero =>
    intro bi m off k fuel hk hbef hfuel _ hend
    have : k = m := by omega
    subst this
    cases fuel with
    | zero => omega
    | succ fuel =>
      rcases hend with hlen | ⟨ek, hek, hge⟩
      · have hp := Before.step_end c hbef (by omega)
        unfold BlockIter.seekLinear
        simp only [hp, hlen, if_true]
        refine ⟨_, rfl, ⟨?_, ?_⟩, rfl⟩
        · exact hbef.1
        · show bi.restarts = restarts
          exact hbef.1.2.1
      · obtain ⟨_, bi', hp, hb', he', hs⟩ := Before.step hw c hint hbef hek
        have hmem : ek ∈ L := List.mem_iff_getElem?.mpr ⟨_, hek⟩
        have hne : k ≠ L.length := by
          have := (List.getElem?_eq_some_iff.mp hek).1; omega
        unfold BlockIter.seekLinear
        simp only [hp, he'.2.1, hcmp ek hmem, hne, if_false]
        refine ⟨bi', ?_, ⟨hb', ek, hek, he'⟩, hs⟩
        cases hc : c.cmp ek.key t with
        | lt => exact absurd hc hge
        | eq => rfl
        | gt => rfl
  | succ d ih =>
    intro bi m off k fuel hk hbef hfuel hall hend
    have hklen : k ≤ L.length := by
      rcases hend with h | ⟨ek, hek, _⟩
      · omega
      · have := (List.getElem?_eq_some_iff.mp hek).1; omega
    have hmlen : m < L.length := by omega
    have hm : L[m]? = some L[m] := List.getElem?_eq_some_iff.mpr ⟨hmlen, rfl⟩
    cases fuel with
    | zero => omega
    | succ fuel =>
      obtain ⟨hoff, bi', hp, hb', he', hs⟩ := Before.step hw c hint hbef hm
      have hlt : c.cmp L[m].key t = .lt := hall m L[m] (Nat.le_refl _) (by omega) hm
      have hmem : L[m] ∈ L := List.mem_iff_getElem?.mpr ⟨m, hm⟩
      unfold BlockIter.seekLinear
      simp only [hp, he'.2.1, hcmp _ hmem, hlt]
      have hbef' := OnEntry.before hw hb' hm he'
      have hbnd := (Chain.bounds hw.chain).2 _ hmem
      obtain ⟨bi'', hsk, hpos, hs'⟩ := ih bi' (m + 1) L[m].next k fuel (by omega) hbef'
        (by omega) (fun x e hx1 hx2 hx => hall x e (by omega) hx2 hx) hend
      exact ⟨bi'', hsk, hpos, by rw [hs', hs]⟩

end
end Lcdb

namespace Lcdb

/-! ### Part 5: first, next, last, prev -/

theorem Chain.last_next {data : Bytes} {limit : Nat} {L : List Ent} {pk : Bytes} {off : Nat}
    (h : Chain data limit pk off L) {e : Ent} (he : L[L.length - 1]? = some e) : e.next = limit := by
  obtain ⟨pk', hc, _, _⟩ := Chain.at (L.length - 1) h he
  have hl : L.length - 1 < L.length := (List.getElem?_eq_some_iff.mp he).1
  have : L.drop (L.length - 1 + 1) = [] := List.drop_eq_nil_of_le (by omega)
  rw [this] at hc
  have := (Chain.head hc).2.2.2
  simpa [Chain] using this

section
variable {data : Bytes} {restarts num : Nat} {L : List Ent}

/-- seek_to_restart_point(0) -/
theorem WfBlock.seekToRestart0 (hw : WfBlock data restarts num L) {bi : BlockIter}
    (hb : OnBlock data restarts num bi) :
    ∃ bi', bi.seekToRestartPoint 0 = some bi' ∧ Before data restarts num L bi' 0 0 ∧
      bi'.status = bi.status := by
  unfold BlockIter.seekToRestartPoint
  rw [hw.getRestartPoint hb hw.num_pos, hw.r0]
  refine ⟨_, rfl, ⟨hb, Nat.zero_le _, 0, 0, [], rfl, rfl, by simpa using hw.chain, ?_, hw.num_pos, ?_⟩, rfl⟩
  · intro e he
    cases L with
    | nil => simp at he
    | cons x L' =>
      simp only [List.getElem?_cons_zero, Option.some.injEq] at he
      subst he
      have := (Chain.head hw.chain).2.2.1
      obtain ⟨ns, kp, _, hsh, _⟩ := this
      have h0 : x.sh = 0 := Nat.le_zero.mp hsh
      simp [h0]
  · show restartAt data restarts 0 ≤ 0
    rw [hw.r0]; exact Nat.le_refl _

/-- seek_to_restart_point(j) on a non-empty block: the boundary before the entry the restart
    point refers to -/
theorem WfBlock.seekToRestart (hw : WfBlock data restarts num L) (hne : L ≠ []) {bi : BlockIter}
    (hb : OnBlock data restarts num bi) {j : Nat} (hj : j < num) :
    ∃ bi' m e, bi.seekToRestartPoint j = some bi' ∧ L[m]? = some e ∧
      e.off = restartAt data restarts j ∧
      Before data restarts num L bi' m (restartAt data restarts j) ∧ bi'.status = bi.status := by
  obtain ⟨m, e, hm, hoff, hsh⟩ := hw.restart_ent hne hj
  unfold BlockIter.seekToRestartPoint
  rw [hw.getRestartPoint hb hj]
  have hl : m < L.length := (List.getElem?_eq_some_iff.mp hm).1
  obtain ⟨pk', hc, _, _⟩ := Chain.at m hw.chain hm
  have hd : L.drop m = e :: L.drop (m + 1) := by
    rw [List.drop_eq_getElem_cons hl]
    congr 1
    exact (List.getElem?_eq_some_iff.mp hm).2
  refine ⟨_, m, e, rfl, hm, hoff, ⟨hb, by omega, restartAt data restarts j, 0, pk', rfl, rfl, ?_, ?_, hj, ?_⟩, rfl⟩
  · rw [hd, ← hoff]; exact hc
  · intro e' he'
    rw [hm] at he'
    simp only [Option.some.injEq] at he'
    subst he'
    simp [hsh]
  · exact Nat.le_refl _

/-- ldb_blockiter_first -/
theorem WfBlock.first (hw : WfBlock data restarts num L) (c : BlockCmp)
    (hint : c.internal = true → ∀ e ∈ L, 8 ≤ e.key.length) {bi : BlockIter}
    (hb : OnBlock data restarts num bi) :
    ∃ bi', bi.first c = some bi' ∧
      PosRel data restarts num L bi' (if L.length = 0 then none else some 0) ∧
      bi'.status = bi.status := by
  obtain ⟨bi1, h1, hbef, hs1⟩ := hw.seekToRestart0 hb
  unfold BlockIter.first
  rw [h1]
  by_cases hl : L.length = 0
  · have hp := Before.step_end c hbef (by omega)
    simp only [hp, Option.map, hl, if_true]
    refine ⟨_, rfl, ⟨hbef.1, ?_⟩, hs1⟩
    exact hbef.1.2.1
  · have hm : L[0]? = some L[0] := List.getElem?_eq_some_iff.mpr ⟨by omega, rfl⟩
    obtain ⟨_, bi', hp, hb', he', hs⟩ := Before.step hw c hint hbef hm
    simp only [hp, Option.map, hl, if_false]
    exact ⟨bi', rfl, ⟨hb', _, hm, he'⟩, by rw [hs, hs1]⟩

/-- ldb_blockiter_next -/
theorem WfBlock.next (hw : WfBlock data restarts num L) (c : BlockCmp)
    (hint : c.internal = true → ∀ e ∈ L, 8 ≤ e.key.length) {bi : BlockIter} {i : Nat}
    (hpos : PosRel data restarts num L bi (some i)) :
    ∃ bi', bi.next c = some bi' ∧
      PosRel data restarts num L bi' (if i + 1 < L.length then some (i + 1) else none) ∧
      bi'.status = bi.status := by
  obtain ⟨hb, e, hi, he⟩ := hpos
  have hbef := OnEntry.before hw hb hi he
  unfold BlockIter.next
  by_cases hl : i + 1 < L.length
  · have hm : L[i + 1]? = some L[i + 1] := List.getElem?_eq_some_iff.mpr ⟨hl, rfl⟩
    obtain ⟨_, bi', hp, hb', he', hs⟩ := Before.step hw c hint hbef hm
    simp only [hp, Option.map, hl, if_true]
    exact ⟨bi', rfl, ⟨hb', _, hm, he'⟩, hs⟩
  · have hp := Before.step_end c hbef (by omega)
    simp only [hp, Option.map, hl, if_false]
    exact ⟨_, rfl, ⟨hb, hb.2.1⟩, rfl⟩

/-- ldb_blockiter_last -/
theorem WfBlock.last (hw : WfBlock data restarts num L) (c : BlockCmp)
    (hint : c.internal = true → ∀ e ∈ L, 8 ≤ e.key.length) {bi : BlockIter}
    (hb : OnBlock data restarts num bi) :
    ∃ bi', bi.last c = some bi' ∧
      PosRel data restarts num L bi' (if L.length = 0 then none else some (L.length - 1)) ∧
      bi'.status = bi.status := by
  unfold BlockIter.last
  rw [hb.2.2, hb.2.1]
  by_cases hl : L.length = 0
  · have hnil : L = [] := List.length_eq_zero_iff.mp hl
    subst hnil
    obtain ⟨hn1, hr0⟩ := hw.nil_inv
    subst hn1
    obtain ⟨bi1, h1, hbef, hs1⟩ := hw.seekToRestart0 hb
    simp only [Nat.sub_self, h1]
    have hp := Before.step_end c hbef (by simp)
    unfold BlockIter.skipUntil
    simp only [hp, List.length_nil, if_true]
    exact ⟨_, rfl, ⟨hbef.1, hbef.1.2.1⟩, hs1⟩
  · have hne : L ≠ [] := fun h => hl (by rw [h]; rfl)
    obtain ⟨bi1, m, e, h1, hm, hoff, hbef, hs1⟩ := hw.seekToRestart hne hb (j := num - 1) (by have := hw.num_pos; omega)
    simp only [h1, hl, if_false]
    have hk : L[L.length - 1]? = some L[L.length - 1] :=
      List.getElem?_eq_some_iff.mpr ⟨by omega, rfl⟩
    have hlast := Chain.last_next hw.chain hk
    have hmlen : m < L.length := (List.getElem?_eq_some_iff.mp hm).1
    obtain ⟨bi', hsk, hpos, hs⟩ := hw.skipUntil c hint restarts (L.length - 1 - m) bi1 m _ (L.length - 1)
      (restarts + 1) _ (by omega) hbef (by omega)
      (fun x ex _ hx2 hx => by
        have h1 := Chain.off_lt hw.chain hx hk hx2
        have hmem : L[L.length - 1] ∈ L := List.mem_iff_getElem?.mpr ⟨_, hk⟩
        have := ((Chain.bounds hw.chain).2 _ hmem).2.2.2
        omega)
      hk (by omega)
    exact ⟨bi', hsk, hpos, by rw [hs, hs1]⟩

/-- the backward scan over the restart array in ldb_blockiter_prev -/
theorem WfBlock.prevScan (hw : WfBlock data restarts num L) {bi : BlockIter}
    (hb : OnBlock data restarts num bi) {ri original : Nat} (hri : ri < num)
    (hlow : restartAt data restarts ri ≤ original) :
    (bi.prevScan original (ri + 1) ri = some none ∧ original = 0) ∨
    (∃ j, bi.prevScan original (ri + 1) ri = some (some j) ∧ j < num ∧
      restartAt data restarts j < original) := by
  unfold BlockIter.prevScan
  rw [hw.getRestartPoint hb hri]
  by_cases h1 : restartAt data restarts ri ≥ original
  · simp only [h1, if_true]
    by_cases h0 : ri = 0
    · left
      subst h0
      simp only [if_true, true_and]
      have := hw.r0; omega
    · right
      simp only [h0, if_false]
      have hri' : ri - 1 < num := by omega
      have hm := hw.rmono (ri - 1) (by omega)
      have he : ri - 1 + 1 = ri := by omega
      rw [he] at hm
      cases ri with
      | zero => omega
      | succ r =>
        simp only [Nat.add_sub_cancel] at *
        unfold BlockIter.prevScan
        rw [hw.getRestartPoint hb hri']
        have h2 : ¬ restartAt data restarts r ≥ original := by omega
        simp only [h2, if_false]
        exact ⟨r, rfl, hri', by omega⟩
  · right
    simp only [h1, if_false]
    exact ⟨ri, rfl, hri, by omega⟩

/-- ldb_blockiter_prev -/
theorem WfBlock.prev (hw : WfBlock data restarts num L) (c : BlockCmp)
    (hint : c.internal = true → ∀ e ∈ L, 8 ≤ e.key.length) {bi : BlockIter} {i : Nat}
    (hpos : PosRel data restarts num L bi (some i)) :
    ∃ bi', bi.prev c = some bi' ∧
      PosRel data restarts num L bi' (if i = 0 then none else some (i - 1)) ∧
      bi'.status = bi.status := by
  obtain ⟨hb, e, hi, he⟩ := hpos
  obtain ⟨hcur, hkey, hval, hri, hlow, hup⟩ := he
  have hne : L ≠ [] := by
    intro h; subst h; simp at hi
  have hpos0 : 0 < L.length := List.length_pos_iff.mpr hne
  have h0 : L[0]? = some L[0] := List.getElem?_eq_some_iff.mpr ⟨hpos0, rfl⟩
  have h0off : L[0].off = 0 := ((Chain.at 0 hw.chain h0).choose_spec.2.1 rfl).2
  unfold BlockIter.prev
  simp only [hcur]
  rcases hw.prevScan hb hri hlow with ⟨hs, hz⟩ | ⟨j, hs, hj, hjlt⟩
  · -- no restart point before the entry: it is the first one
    rw [hs]
    have : i = 0 := Chain.idx_eq_of_off_eq hw.chain hi h0 (by omega)
    simp only [this, if_true]
    exact ⟨_, rfl, ⟨hb, hb.2.1⟩, rfl⟩
  · rw [hs]
    obtain ⟨bi1, m, em, h1, hm, hoff, hbef, hs1⟩ := hw.seekToRestart hne hb hj
    simp only [h1]
    have hmi : m < i := by
      by_cases h : i ≤ m
      · have := Chain.idx_le_of_off_le hw.chain hm hi
        rcases Nat.lt_or_ge i m with h' | h'
        · have := Chain.off_lt hw.chain hi hm h'
          have hmem : e ∈ L := List.mem_iff_getElem?.mpr ⟨_, hi⟩
          have := ((Chain.bounds hw.chain).2 e hmem).2.1
          omega
        · have : i = m := by omega
          subst this
          rw [hi] at hm
          simp only [Option.some.injEq] at hm
          subst hm
          omega
      · omega
    have hi0 : ¬ i = 0 := by omega
    simp only [hi0, if_false]
    obtain ⟨pk', _, _, hprev⟩ := Chain.at i hw.chain hi
    obtain ⟨e', he', _, hnext⟩ := hprev (i - 1) (by omega)
    have hmem' : e' ∈ L := List.mem_iff_getElem?.mpr ⟨_, he'⟩
    obtain ⟨bi', hsk, hpos, hs⟩ := hw.skipUntil c hint e.off (i - 1 - m) bi1 m _ (i - 1)
      (bi.restarts + 1) e' (by omega) hbef (by rw [hb.2.1]; omega)
      (fun x ex _ hx2 hx => by
        have h1 := Chain.off_lt hw.chain hx he' hx2
        have := ((Chain.bounds hw.chain).2 e' hmem').2.1
        omega)
      he' (by omega)
    exact ⟨bi', hsk, hpos, by rw [hs, hs1]⟩

end
end Lcdb

namespace Lcdb

/-! ### Part 6: seek -/

section
variable {data : Bytes} {restarts num : Nat} {L : List Ent}

/-- keys strictly increase along the entry list -/
def SortedEnts (cmp : Bytes → Bytes → Ordering) (L : List Ent) : Prop :=
  L.Pairwise (fun a b => cmp a.key b.key = .lt)

theorem SortedEnts.lt {cmp : Bytes → Bytes → Ordering} (hs : SortedEnts cmp L) {i j : Nat} {a b : Ent}
    (ha : L[i]? = some a) (hb : L[j]? = some b) (hij : i < j) : cmp a.key b.key = .lt := by
  obtain ⟨hi, rfl⟩ := List.getElem?_eq_some_iff.mp ha
  obtain ⟨hj, rfl⟩ := List.getElem?_eq_some_iff.mp hb
  exact List.pairwise_iff_getElem.mp hs i j hi hj hij

/-- if entry `i` is below the target, so is every earlier entry -/
theorem SortedEnts.small_before {cmp : Bytes → Bytes → Ordering} (hl : OrdLaws cmp)
    (hs : SortedEnts cmp L) {t : Bytes} {i x : Nat} {a b : Ent}
    (ha : L[i]? = some a) (hsmall : cmp a.key t = .lt) (hb : L[x]? = some b) (hxi : x ≤ i) :
    cmp b.key t = .lt := by
  by_cases h : x = i
  · subst h; rw [ha] at hb; simp only [Option.some.injEq] at hb; subst hb; exact hsmall
  · exact hl.lt_trans _ _ _ (hs.lt hb ha (by omega)) hsmall

/-- where the cursor's `seek` goes, from a description of the split point `k` -/
theorem findIdx_split (cmp : Bytes → Bytes → Ordering) (t : Bytes) (k : Nat)
    (hbelow : ∀ x e, x < k → L[x]? = some e → cmp e.key t = .lt)
    (hk : k = L.length ∨ ∃ ek, L[k]? = some ek ∧ cmp ek.key t ≠ .lt) :
    (L.map (·.key)).findIdx? (fun k => cmp k t != .lt) = if k = L.length then none else some k := by
  rcases hk with hlen | ⟨ek, hek, hge⟩
  · simp only [hlen, if_true]
    rw [List.findIdx?_eq_none_iff]
    intro key hkey
    obtain ⟨e, he, rfl⟩ := List.mem_map.mp hkey
    obtain ⟨x, hx⟩ := List.mem_iff_getElem?.mp he
    have hxl : x < L.length := (List.getElem?_eq_some_iff.mp hx).1
    have := hbelow x e (by omega) hx
    simp [this]
  · have hkl : k < L.length := (List.getElem?_eq_some_iff.mp hek).1
    have hne : k ≠ L.length := by omega
    simp only [hne, if_false]
    rw [List.findIdx?_eq_some_iff_getElem]
    refine ⟨by simpa using hkl, ?_, ?_⟩
    · have : L[k] = ek := (List.getElem?_eq_some_iff.mp hek).2
      simp only [List.getElem_map, this]
      cases hc : cmp ek.key t with
      | lt => exact absurd hc hge
      | eq => rfl
      | gt => rfl
    · intro j hj
      have hjl : j < L.length := by omega
      have := hbelow j L[j] hj (List.getElem?_eq_some_iff.mpr ⟨hjl, rfl⟩)
      simp [this]

/-- the split point exists -/
theorem split_exists (cmp : Bytes → Bytes → Ordering) (t : Bytes) (L : List Ent) :
    ∃ k, (∀ x e, x < k → L[x]? = some e → cmp e.key t = .lt) ∧
      (k = L.length ∨ ∃ ek, L[k]? = some ek ∧ cmp ek.key t ≠ .lt) := by
  cases h : (L.map (·.key)).findIdx? (fun k => cmp k t != .lt) with
  | none =>
    refine ⟨L.length, ?_, Or.inl rfl⟩
    intro x e _ hx
    rw [List.findIdx?_eq_none_iff] at h
    have hmem : e.key ∈ L.map (·.key) := List.mem_map.mpr ⟨e, List.mem_iff_getElem?.mpr ⟨x, hx⟩, rfl⟩
    have := h _ hmem
    cases hc : cmp e.key t with
    | lt => rfl
    | eq => simp [hc] at this
    | gt => simp [hc] at this
  | some k =>
    rw [List.findIdx?_eq_some_iff_getElem] at h
    obtain ⟨hk, hp, hbefore⟩ := h
    have hkl : k < L.length := by simpa using hk
    refine ⟨k, ?_, Or.inr ⟨L[k], List.getElem?_eq_some_iff.mpr ⟨hkl, rfl⟩, ?_⟩⟩
    · intro x e hx hxe
      have := hbefore x hx
      obtain ⟨hxl, rfl⟩ := List.getElem?_eq_some_iff.mp hxe
      simp only [List.getElem_map] at this
      cases hc : cmp L[x].key t with
      | lt => rfl
      | eq => simp [hc] at this
      | gt => simp [hc] at this
    · simp only [List.getElem_map] at hp
      intro hc
      simp [hc] at hp

/-- the restart point `l` refers to an entry below the target (or `l = 0`) -/
def SmallAt (data : Bytes) (restarts : Nat) (L : List Ent) (cmp : Bytes → Bytes → Ordering)
    (t : Bytes) (l : Nat) : Prop :=
  l = 0 ∨ ∃ (m : Nat) (e : Ent), L[m]? = some e ∧ e.off = restartAt data restarts l ∧ cmp e.key t = .lt

/-- do_compare on an entry key and the target does not fault -/
theorem compare_ok (c : BlockCmp) (hint : c.internal = true → ∀ e ∈ L, 8 ≤ e.key.length) {t : Bytes}
    (ht : c.internal = true → 8 ≤ t.length) {e : Ent} (he : e ∈ L) :
    c.compare e.key t = some (c.cmp e.key t) := by
  unfold BlockCmp.compare
  cases hci : c.internal with
  | false => simp
  | true =>
    have h1 := hint hci e he
    have h2 := ht hci
    have : ¬ (e.key.length < 8 ∨ t.length < 8) := by omega
    simp [this]

/-- the binary search over the restart array keeps "the entry at `left` is below the target" -/
theorem WfBlock.seekBin (hw : WfBlock data restarts num L) (c : BlockCmp)
    (hint : c.internal = true → ∀ e ∈ L, 8 ≤ e.key.length) (t : Bytes)
    (ht : c.internal = true → 8 ≤ t.length) (hne : L ≠ []) {bi : BlockIter}
    (hb : OnBlock data restarts num bi) :
    ∀ (fuel left right : Nat), right - left + 1 ≤ fuel → left < num → right < num →
      SmallAt data restarts L c.cmp t left →
      ∃ l, bi.seekBin c t fuel left right = some (some l) ∧ l < num ∧
        SmallAt data restarts L c.cmp t l := by
  intro fuel
  induction fuel with
  | zero => intro left right h; omega
  | succ fuel ih =>
    intro left right hf hl hr hsmall
    unfold BlockIter.seekBin
    by_cases hlr : left < right
    · simp only [hlr, if_true]
      have hmid1 : left < (left + right + 1) / 2 := by omega
      have hmid2 : (left + right + 1) / 2 ≤ right := by omega
      generalize (left + right + 1) / 2 = mid at hmid1 hmid2
      have hmidn : mid < num := by omega
      rw [hw.getRestartPoint hb hmidn]
      obtain ⟨m, e, hm, hoff, hsh⟩ := hw.restart_ent hne hmidn
      obtain ⟨pk', hc, _, _⟩ := Chain.at m hw.chain hm
      obtain ⟨_, _, ⟨ns, kp, hdec, _, hk, hsl, _, _⟩, _⟩ := Chain.head hc
      have hmem : e ∈ L := List.mem_iff_getElem?.mpr ⟨m, hm⟩
      rw [hsh] at hdec hk
      simp only [List.take_zero, List.nil_append] at hk
      rw [hb.1, hb.2.1, ← hoff]
      simp only [hdec, ne_eq, not_true_eq_false, if_false]
      have hklen : e.key.length = ns := by rw [hk]; exact hsl
      have h3 : (c.internal && decide (ns < 8)) = false := by
        cases hci : c.internal with
        | false => simp
        | true => have := hint hci e hmem; simp; omega
      simp only [h3, Bool.false_eq_true, if_false]
      have hkey : List.take ns (List.drop kp data) = e.key := by rw [hk]; rfl
      rw [hkey, compare_ok c hint ht hmem]
      cases hcmp : c.cmp e.key t with
      | lt =>
        exact ih mid right (by omega) hmidn hr (Or.inr ⟨m, e, hm, hoff, hcmp⟩)
      | eq =>
        exact ih left (mid - 1) (by omega) hl (by omega) hsmall
      | gt =>
        exact ih left (mid - 1) (by omega) hl (by omega) hsmall
    · simp only [hlr, if_false]
      exact ⟨left, rfl, hl, hsmall⟩

/-- seek_to_restart_point(l) followed by the linear search, when the entry at restart point `l`
    is below the target (or `l = 0`) -/
theorem WfBlock.seekFromRestart (hw : WfBlock data restarts num L) (c : BlockCmp)
    (hl : OrdLaws c.cmp) (hs : SortedEnts c.cmp L)
    (hint : c.internal = true → ∀ e ∈ L, 8 ≤ e.key.length) (t : Bytes)
    (ht : c.internal = true → 8 ≤ t.length) (hne : L ≠ []) {bi : BlockIter}
    (hb : OnBlock data restarts num bi) {l : Nat} (hln : l < num)
    (hsmall : SmallAt data restarts L c.cmp t l) :
    ∃ bi1 bi', bi.seekToRestartPoint l = some bi1 ∧
      BlockIter.seekLinear c t (restarts + 1) bi1 = some bi' ∧
      PosRel data restarts num L bi' ((L.map (·.key)).findIdx? (fun k => c.cmp k t != .lt)) ∧
      bi'.status = bi.status := by
  obtain ⟨bi1, m, e, h1, hm, hoff, hbef, hs1⟩ := hw.seekToRestart hne hb hln
  obtain ⟨k, hbelow, hk⟩ := split_exists c.cmp t L
  have hpos0 : 0 < L.length := List.length_pos_iff.mpr hne
  have h0 : L[0]? = some L[0] := List.getElem?_eq_some_iff.mpr ⟨hpos0, rfl⟩
  have h0off : L[0].off = 0 := ((Chain.at 0 hw.chain h0).choose_spec.2.1 rfl).2
  -- everything before m is below the target
  have hbefore_m : ∀ x ex, x < m → L[x]? = some ex → c.cmp ex.key t = .lt := by
    intro x ex hx hxe
    rcases hsmall with h0' | ⟨m', e', hm', hoff', hsm⟩
    · subst h0'
      have : m = 0 := Chain.idx_eq_of_off_eq hw.chain hm h0 (by rw [hoff, hw.r0, h0off])
      omega
    · have : m' = m := Chain.idx_eq_of_off_eq hw.chain hm' hm (by rw [hoff', hoff])
      subst this
      exact hs.small_before hl hm' hsm hxe (by omega)
  have hmk : m ≤ k := by
    rcases hk with hlen | ⟨ek, hek, hge⟩
    · have := (List.getElem?_eq_some_iff.mp hm).1; omega
    · by_cases h : k < m
      · exact absurd (hbefore_m k ek h hek) hge
      · omega
  obtain ⟨bi', hsl, hpos, hst⟩ := hw.seekLinear c hint t ht (k - m) bi1 m _ k (restarts + 1)
    (by omega) hbef (by omega) (fun x ex _ hx2 hx => hbelow x ex hx2 hx) hk
  rw [findIdx_split c.cmp t k hbelow hk]
  exact ⟨bi1, bi', h1, hsl, hpos, by rw [hst, hs1]⟩

end
end Lcdb

namespace Lcdb

section
variable {data : Bytes} {restarts num : Nat} {L : List Ent}

/-- the linear search continued from the current entry (the `skip_seek` path), when the current
    entry is below the target -/
theorem WfBlock.seekContinue (hw : WfBlock data restarts num L) (c : BlockCmp)
    (hl : OrdLaws c.cmp) (hs : SortedEnts c.cmp L)
    (hint : c.internal = true → ∀ e ∈ L, 8 ≤ e.key.length) (t : Bytes)
    (ht : c.internal = true → 8 ≤ t.length) {bi : BlockIter} {i : Nat} {e : Ent}
    (hb : OnBlock data restarts num bi) (hi : L[i]? = some e) (he : OnEntry data restarts num bi e)
    (hsmall : c.cmp e.key t = .lt) :
    ∃ bi', BlockIter.seekLinear c t (restarts + 1) bi = some bi' ∧
      PosRel data restarts num L bi' ((L.map (·.key)).findIdx? (fun k => c.cmp k t != .lt)) ∧
      bi'.status = bi.status := by
  have hbef := OnEntry.before hw hb hi he
  obtain ⟨k, hbelow, hk⟩ := split_exists c.cmp t L
  have hik : i + 1 ≤ k := by
    rcases hk with hlen | ⟨ek, hek, hge⟩
    · have := (List.getElem?_eq_some_iff.mp hi).1; omega
    · by_cases h : k ≤ i
      · exact absurd (hs.small_before hl hi hsmall hek h) hge
      · omega
  obtain ⟨bi', hsl, hpos, hst⟩ := hw.seekLinear c hint t ht (k - (i + 1)) bi (i + 1) _ k (restarts + 1)
    (by omega) hbef (by omega) (fun x ex _ hx2 hx => hbelow x ex hx2 hx) hk
  rw [findIdx_split c.cmp t k hbelow hk]
  exact ⟨bi', hsl, hpos, hst⟩

/-- ldb_blockiter_seek lands on the first entry whose key is not below the target -/
theorem WfBlock.seek (hw : WfBlock data restarts num L) (c : BlockCmp)
    (hl : OrdLaws c.cmp) (hs : SortedEnts c.cmp L)
    (hint : c.internal = true → ∀ e ∈ L, 8 ≤ e.key.length) (t : Bytes)
    (ht : c.internal = true → 8 ≤ t.length) {bi : BlockIter} {p : Option Nat}
    (hpos : PosRel data restarts num L bi p) :
    ∃ bi', bi.seek c t = some bi' ∧
      PosRel data restarts num L bi' ((L.map (·.key)).findIdx? (fun k => c.cmp k t != .lt)) ∧
      bi'.status = bi.status := by
  have h0 : (c.internal && decide (t.length < 8)) = false := by
    cases hci : c.internal with
    | false => simp
    | true => have := ht hci; simp; omega
  have hnum := hw.num_pos
  unfold BlockIter.seek
  simp only [h0, Bool.false_eq_true, if_false]
  cases p with
  | none =>
    obtain ⟨hb, hcur⟩ := hpos
    have hv : bi.valid = false := by
      simp only [BlockIter.valid, hcur, hb.2.1, Nat.lt_irrefl, decide_false]
    simp only [hv, Bool.false_eq_true, if_false, hb.2.2]
    by_cases hne : L = []
    · subst hne
      obtain ⟨hn1, hr0⟩ := hw.nil_inv
      subst hn1
      have hbin : bi.seekBin c t (1 - 1 - 0 + 1) 0 (1 - 1) = some (some 0) := by
        unfold BlockIter.seekBin; simp
      simp only [hbin]
      have hskip : ((0 : Nat) == bi.restartIndex && (Ordering.eq == Ordering.lt)) = false := by
        have : (Ordering.eq == Ordering.lt) = false := by decide
        rw [this]; simp
      simp only [hskip, Bool.false_eq_true, if_false]
      obtain ⟨bi1, h1, hbef, hs1⟩ := hw.seekToRestart0 hb
      simp only [h1, hb.2.1]
      obtain ⟨bi', hsl, hpos', hst⟩ := hw.seekLinear c hint t ht 0 bi1 0 0 0 (restarts + 1) rfl hbef
        (by omega) (fun x ex _ hx2 _ => by omega) (Or.inl rfl)
      refine ⟨bi', hsl, ?_, by rw [hst, hs1]⟩
      simpa using hpos'
    · obtain ⟨l, hbin, hln, hsm⟩ := hw.seekBin c hint t ht hne hb (num - 1 - 0 + 1) 0 (num - 1)
        (by omega) hnum (by omega) (Or.inl rfl)
      simp only [hbin]
      have hskip : (l == bi.restartIndex && (Ordering.eq == Ordering.lt)) = false := by
        have : (Ordering.eq == Ordering.lt) = false := by decide
        rw [this]; simp
      simp only [hskip, Bool.false_eq_true, if_false]
      obtain ⟨bi1, bi', h1, hsl, hpos', hst⟩ := hw.seekFromRestart c hl hs hint t ht hne hb hln hsm
      simp only [h1, hb.2.1]
      exact ⟨bi', hsl, hpos', hst⟩
  | some i =>
    obtain ⟨hb, e, hi, he⟩ := hpos
    obtain ⟨hcur, hkey, hval, hri, hlow, hup⟩ := he
    have hmem : e ∈ L := List.mem_iff_getElem?.mpr ⟨i, hi⟩
    have hne : L ≠ [] := fun h => by rw [h] at hmem; simp at hmem
    have hlt := ((Chain.bounds hw.chain).2 e hmem).2.2.2
    have hv : bi.valid = true := by
      simp only [BlockIter.valid, hcur, hb.2.1, hlt, decide_true]
    simp only [hv, if_true, hkey, compare_ok c hint ht hmem, hb.2.2]
    cases hcmp : c.cmp e.key t with
    | eq =>
      simp only []
      refine ⟨bi, rfl, ?_, rfl⟩
      have hbelow : ∀ x ex, x < i → L[x]? = some ex → c.cmp ex.key t = .lt :=
        fun x ex hx hxe => hl.lt_of_lt_of_eq (hs.lt hxe hi hx) hcmp
      have hk : i = L.length ∨ ∃ ek, L[i]? = some ek ∧ c.cmp ek.key t ≠ .lt :=
        Or.inr ⟨e, hi, by rw [hcmp]; decide⟩
      rw [findIdx_split c.cmp t i hbelow hk]
      have : i ≠ L.length := by have := (List.getElem?_eq_some_iff.mp hi).1; omega
      simp only [this, if_false]
      exact ⟨hb, e, hi, hcur, hkey, hval, hri, hlow, hup⟩
    | gt =>
      simp only []
      obtain ⟨l, hbin, hln, hsm⟩ := hw.seekBin c hint t ht hne hb (bi.restartIndex - 0 + 1) 0
        bi.restartIndex (by omega) hnum hri (Or.inl rfl)
      simp only [hbin]
      have hskip : (l == bi.restartIndex && (Ordering.gt == Ordering.lt)) = false := by
        have : (Ordering.gt == Ordering.lt) = false := by decide
        rw [this]; simp
      simp only [hskip, Bool.false_eq_true, if_false]
      obtain ⟨bi1, bi', h1, hsl, hpos', hst⟩ := hw.seekFromRestart c hl hs hint t ht hne hb hln hsm
      simp only [h1, hb.2.1]
      exact ⟨bi', hsl, hpos', hst⟩
    | lt =>
      simp only []
      -- the restart point of the current entry refers to an entry below the target
      have hsm0 : SmallAt data restarts L c.cmp t bi.restartIndex := by
        obtain ⟨m0, e0, hm0, hoff0, _⟩ := hw.restart_ent hne hri
        have hle : m0 ≤ i := Chain.idx_le_of_off_le hw.chain hm0 hi (by omega)
        exact Or.inr ⟨m0, e0, hm0, hoff0, hs.small_before hl hi hcmp hm0 hle⟩
      obtain ⟨l, hbin, hln, hsm⟩ := hw.seekBin c hint t ht hne hb (num - 1 - bi.restartIndex + 1)
        bi.restartIndex (num - 1) (by omega) hri (by omega) hsm0
      simp only [hbin]
      by_cases hlr : l = bi.restartIndex
      · have hskip : (l == bi.restartIndex && (Ordering.lt == Ordering.lt)) = true := by
          rw [hlr]; simp
        simp only [hskip, if_true, hb.2.1]
        exact hw.seekContinue c hl hs hint t ht hb hi ⟨hcur, hkey, hval, hri, hlow, hup⟩ hcmp
      · have hskip : (l == bi.restartIndex && (Ordering.lt == Ordering.lt)) = false := by
          have : (l == bi.restartIndex) = false := by simpa using hlr
          rw [this]; simp
        simp only [hskip, Bool.false_eq_true, if_false]
        obtain ⟨bi1, bi', h1, hsl, hpos', hst⟩ := hw.seekFromRestart c hl hs hint t ht hne hb hln hsm
        simp only [h1, hb.2.1]
        exact ⟨bi', hsl, hpos', hst⟩

end
end Lcdb

namespace Lcdb

/-! ### Part 7: the block iterator simulates the reference cursor -/

section
variable {data : Bytes} {restarts num : Nat} {L : List Ent}

/-- relation between what ldb_blockiter_create returned (after some operations) and the cursor
    position; it also records that no corruption has been flagged -/
def TRel (data : Bytes) (restarts num : Nat) (L : List Ent) (ti : TIter) (p : Option Nat) : Prop :=
  ∃ bi, ti = .block bi ∧ PosRel data restarts num L bi p ∧ bi.status = .ok

/-- ldb_block_init + ldb_blockiter_create on a well-formed block -/
theorem WfBlock.create (hw : WfBlock data restarts num L) :
    TRel data restarts num L (blockIterCreate data) none := by
  have hsz := hw.size
  have hn := hw.num_pos
  have hinit : blockInit data = some restarts := by
    unfold blockInit
    have h1 : ¬ data.length < 4 := by omega
    have h2 : ¬ num > (data.length - 4) / 4 := by omega
    simp only [h1, if_false, hw.count, h2]
    congr 1; omega
  unfold blockIterCreate
  rw [hinit]
  have h3 : ¬ blockNumRestarts data = 0 := by rw [hw.count]; omega
  simp only [h3, if_false]
  exact ⟨_, rfl, ⟨⟨rfl, rfl, hw.count⟩, rfl⟩, rfl⟩

theorem keys_getD {i : Nat} {e : Ent} (hi : L[i]? = some e) : (L.map (·.key)).getD i [] = e.key := by
  rw [List.getD_eq_getElem?_getD, List.getElem?_map, hi]; rfl

/-- the block iterator over a well-formed block with strictly sorted keys simulates the cursor
    over the key list, for seek targets the comparator can handle -/
theorem WfBlock.sim (hw : WfBlock data restarts num L) (c : BlockCmp)
    (hl : OrdLaws c.cmp) (hs : SortedEnts c.cmp L)
    (hint : c.internal = true → ∀ e ∈ L, 8 ≤ e.key.length) :
    IterOps.Sim (blockIterOps c) (cursorOps c.cmp (L.map (·.key))) (TRel data restarts num L)
      (fun x => c.internal = true → 8 ≤ x.length) := by
  have hvalid : ∀ s t, TRel data restarts num L s t → (blockIterOps c).valid s = t.isSome := by
    intro s t ⟨bi, hs', hpos, _⟩
    subst hs'
    cases t with
    | none =>
      obtain ⟨hb, hcur⟩ := hpos
      simp only [blockIterOps, TIter.valid, BlockIter.valid, hcur, hb.2.1, Nat.lt_irrefl,
        decide_false, Option.isSome_none]
    | some i =>
      obtain ⟨hb, e, hi, he⟩ := hpos
      have hmem : e ∈ L := List.mem_iff_getElem?.mpr ⟨i, hi⟩
      have hlt := ((Chain.bounds hw.chain).2 e hmem).2.2.2
      simp only [blockIterOps, TIter.valid, BlockIter.valid, he.1, hb.2.1, hlt, decide_true,
        Option.isSome_some]
  refine ⟨hvalid, ?_, ?_, ?_, ?_, ?_, ?_, ?_⟩
  · -- key
    intro s t hr hv
    have hv' := hvalid s t hr
    obtain ⟨bi, hs', hpos, _⟩ := hr
    subst hs'
    cases t with
    | none => rw [hv] at hv'; simp at hv'
    | some i =>
      obtain ⟨hb, e, hi, he⟩ := hpos
      show bi.key = (L.map (·.key)).getD i []
      rw [keys_getD hi]; exact he.2.1
  · -- compare
    intro s t x hr hv hx
    have hv' := hvalid s t hr
    obtain ⟨bi, hs', hpos, _⟩ := hr
    subst hs'
    cases t with
    | none => rw [hv] at hv'; simp at hv'
    | some i =>
      obtain ⟨hb, e, hi, he⟩ := hpos
      have hmem : e ∈ L := List.mem_iff_getElem?.mpr ⟨i, hi⟩
      show c.compare bi.key x = some (c.cmp ((L.map (·.key)).getD i []) x) ∧ _
      rw [keys_getD hi, he.2.1, compare_ok c hint hx hmem]
      exact ⟨rfl, rfl⟩
  · -- first
    intro s t ⟨bi, hs', hpos, hst⟩
    subst hs'
    have hb : OnBlock data restarts num bi := by cases t <;> exact hpos.1
    obtain ⟨bi', h1, hpos', hst'⟩ := hw.first c hint hb
    refine ⟨.block bi', _, ?_, rfl, bi', rfl, ?_, by rw [hst', hst]⟩
    · show (bi.first c).map TIter.block = _
      rw [h1]; rfl
    · by_cases hl0 : L.length = 0
      · have : (L.map (·.key)).isEmpty = true := by
          simp [List.length_eq_zero_iff.mp hl0]
        simpa [this, hl0] using hpos'
      · have : (L.map (·.key)).isEmpty = false := by
          cases L with
          | nil => simp at hl0
          | cons a l => simp
        simpa [this, hl0] using hpos'
  · -- last
    intro s t ⟨bi, hs', hpos, hst⟩
    subst hs'
    have hb : OnBlock data restarts num bi := by cases t <;> exact hpos.1
    obtain ⟨bi', h1, hpos', hst'⟩ := hw.last c hint hb
    refine ⟨.block bi', _, ?_, rfl, bi', rfl, ?_, by rw [hst', hst]⟩
    · show (bi.last c).map TIter.block = _
      rw [h1]; rfl
    · by_cases hl0 : L.length = 0
      · have : (L.map (·.key)).isEmpty = true := by
          simp [List.length_eq_zero_iff.mp hl0]
        simpa [this, hl0] using hpos'
      · have : (L.map (·.key)).isEmpty = false := by
          cases L with
          | nil => simp at hl0
          | cons a l => simp
        simpa [this, hl0] using hpos'
  · -- next
    intro s t hr hv
    have hv' := hvalid s t hr
    obtain ⟨bi, hs', hpos, hst⟩ := hr
    subst hs'
    cases t with
    | none => rw [hv] at hv'; simp at hv'
    | some i =>
      obtain ⟨bi', h1, hpos', hst'⟩ := hw.next c hint hpos
      refine ⟨.block bi', _, ?_, rfl, bi', rfl, ?_, by rw [hst', hst]⟩
      · show (bi.next c).map TIter.block = _
        rw [h1]; rfl
      · simpa using hpos'
  · -- prev
    intro s t hr hv
    have hv' := hvalid s t hr
    obtain ⟨bi, hs', hpos, hst⟩ := hr
    subst hs'
    cases t with
    | none => rw [hv] at hv'; simp at hv'
    | some i =>
      obtain ⟨bi', h1, hpos', hst'⟩ := hw.prev c hint hpos
      refine ⟨.block bi', _, ?_, rfl, bi', rfl, ?_, by rw [hst', hst]⟩
      · show (bi.prev c).map TIter.block = _
        rw [h1]; rfl
      · cases i with
        | zero => simpa using hpos'
        | succ i => simpa using hpos'
  · -- seek
    intro s t x ⟨bi, hs', hpos, hst⟩ hx
    subst hs'
    obtain ⟨bi', h1, hpos', hst'⟩ := hw.seek c hl hs hint x hx hpos
    refine ⟨.block bi', _, ?_, rfl, bi', rfl, hpos', by rw [hst', hst]⟩
    show (bi.seek c x).map TIter.block = _
    rw [h1]; rfl

end
end Lcdb

namespace Lcdb

/-! ### Part 8: sequential parse -/

theorem Chain.length_le {data : Bytes} {limit : Nat} :
    ∀ {L : List Ent} {pk : Bytes} {off : Nat}, Chain data limit pk off L → off + 3 * L.length ≤ limit := by
  intro L
  induction L with
  | nil => intro pk off h; simp only [Chain] at h; simp [h]
  | cons e L ih =>
    intro pk off h
    obtain ⟨_, _, ⟨ns, kp, _, _, _, _, hvo, hkp⟩, hrest⟩ := Chain.head h
    have := ih hrest
    simp only [Ent.next, List.length_cons] at *
    omega

section
variable {data : Bytes} {restarts num : Nat} {L : List Ent}

theorem OnEntry.valueBytes {bi : BlockIter} {e : Ent} (hb : OnBlock data restarts num bi)
    (he : OnEntry data restarts num bi e) : bi.valueBytes = e.value data := by
  simp only [BlockIter.valueBytes, he.2.2.1, hb.1, Ent.value, sliceAt]

/-- `next` until invalid collects the remaining entries -/
theorem WfBlock.collect (hw : WfBlock data restarts num L) (c : BlockCmp)
    (hint : c.internal = true → ∀ e ∈ L, 8 ≤ e.key.length) :
    ∀ (d : Nat) (bi : BlockIter) (i fuel : Nat) (acc : List (Bytes × Bytes)),
      i + d = L.length → d + 1 ≤ fuel →
      PosRel data restarts num L bi (if i < L.length then some i else none) → bi.status = .ok →
      collectGo c fuel bi acc = some (acc ++ entriesOf data (L.drop i)) := by
  intro d
  induction d with
  | zero =>
    intro bi i fuel acc hi hf hpos hst
    have hil : ¬ i < L.length := by omega
    simp only [hil, if_false] at hpos
    obtain ⟨hb, hcur⟩ := hpos
    cases fuel with
    | zero => omega
    | succ fuel =>
      unfold collectGo
      have hv : bi.valid = false := by
        simp only [BlockIter.valid, hcur, hb.2.1, Nat.lt_irrefl, decide_false]
      have hd : L.drop i = [] := List.drop_eq_nil_of_le (by omega)
      simp [hv, hst, hd, entriesOf]
  | succ d ih =>
    intro bi i fuel acc hi hf hpos hst
    have hil : i < L.length := by omega
    simp only [hil, if_true] at hpos
    have hpos' := hpos
    obtain ⟨hb, e, hie, he⟩ := hpos
    have hmem : e ∈ L := List.mem_iff_getElem?.mpr ⟨i, hie⟩
    have hlt := ((Chain.bounds hw.chain).2 e hmem).2.2.2
    cases fuel with
    | zero => omega
    | succ fuel =>
      obtain ⟨bi', hn, hposn, hstn⟩ := hw.next c hint hpos'
      unfold collectGo
      have hv : bi.valid = true := by
        simp only [BlockIter.valid, he.1, hb.2.1, hlt, decide_true]
      simp only [hv, if_true, hn]
      rw [ih bi' (i + 1) fuel _ (by omega) (by omega) hposn (by rw [hstn, hst])]
      have hd : L.drop i = e :: L.drop (i + 1) := by
        rw [List.drop_eq_getElem_cons hil]
        congr 1
        exact (List.getElem?_eq_some_iff.mp hie).2
      rw [hd, he.2.1, OnEntry.valueBytes hb he]
      simp [entriesOf]

/-- decoding every entry of a well-formed block in order returns its entry list -/
theorem WfBlock.parse (hw : WfBlock data restarts num L) : blockParse data = some (entriesOf data L) := by
  obtain ⟨bi, hc, hpos, hst⟩ := hw.create
  have hnone : ∀ e ∈ L, bytewiseBlockCmp.internal = true → 8 ≤ e.key.length := by
    intro e _ h; simp [bytewiseBlockCmp] at h
  have hint : bytewiseBlockCmp.internal = true → ∀ e ∈ L, 8 ≤ e.key.length :=
    fun h e he => hnone e he h
  obtain ⟨bi1, h1, hpos1, hst1⟩ := hw.first bytewiseBlockCmp hint hpos.1
  unfold blockParse
  rw [hc]
  simp only [h1]
  have hlen := Chain.length_le hw.chain
  have hsz := hw.size
  have hpos1' : PosRel data restarts num L bi1 (if 0 < L.length then some 0 else none) := by
    by_cases h : L.length = 0
    · have h' : ¬ 0 < L.length := by omega
      simpa [h, h'] using hpos1
    · have h' : 0 < L.length := by omega
      simpa [h, h'] using hpos1
  have := hw.collect bytewiseBlockCmp hint L.length bi1 0 (data.length + 1) [] (by omega) (by omega)
    hpos1' (by rw [hst1, hst])
  simpa using this

end
end Lcdb
