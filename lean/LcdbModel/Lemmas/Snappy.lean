/-
  Helper lemmas for LcdbModel.Model.Snappy (core Lean only).

  Part A: the decoder run on rendered elements (`emitLiteral`, `copy1Elem`, `copy2Elem`, `emitCopy`).
  Part B: token level (`expand`, `ToksOk`) and `decodeBlocks (renderToks ts ++ rest)`.
  Part C: the encoder loop `encGo` emits valid tokens whose expansion is the block.
-/
import LcdbModel.Model.Snappy
import LcdbModel.Lemmas.Coding
namespace Lcdb.Snappy

/-! ## Part A: decoder -/

theorem decodeBlocks_nil (out : Array UInt8) (zn : Nat) :
    decodeBlocks out zn [] = if zn ≠ 0 then none else some out.toList := by
  rw [decodeBlocks]

theorem decodeBlocks_cons (out : Array UInt8) (zn : Nat) (t : UInt8) (xs : Bytes) :
    decodeBlocks out zn (t :: xs) =
      match decodeElem out zn t xs with
      | none => none
      | some r => decodeBlocks r.1 r.2.1 r.2.2 := by
  rw [decodeBlocks]
  split <;> simp_all

theorem decodeBlocks_of_elem {out : Array UInt8} {zn : Nat} {t : UInt8} {xs : Bytes}
    {out' : Array UInt8} {zn' : Nat} {rest : Bytes}
    (h : decodeElem out zn t xs = some (out', zn', rest)) :
    decodeBlocks out zn (t :: xs) = decodeBlocks out' zn' rest := by
  rw [decodeBlocks_cons, h]

/-! ### forward copy -/

/-- list-level forward copy: `n` times append the byte `off` positions before the end -/
def copyFwdL (l : Bytes) (off : Nat) : Nat → Bytes
  | 0 => l
  | n + 1 => copyFwdL (l ++ [l.getD (l.length - off) 0]) off n

theorem copyFwd_toList (out : Array UInt8) (off n : Nat) :
    (copyFwd out off n).toList = copyFwdL out.toList off n := by
  induction n generalizing out with
  | zero => rfl
  | succ n ih =>
    simp only [copyFwd, copyFwdL]
    rw [ih]
    congr 1
    simp [Array.getD_eq_getD_getElem?, List.getD_eq_getElem?_getD]

theorem copyFwd_size (out : Array UInt8) (off n : Nat) : (copyFwd out off n).size = out.size + n := by
  induction n generalizing out with
  | zero => rfl
  | succ n ih => simp only [copyFwd]; rw [ih]; simp; omega

theorem copyFwd_add (out : Array UInt8) (off a b : Nat) :
    copyFwd out off (a + b) = copyFwd (copyFwd out off a) off b := by
  induction a generalizing out with
  | zero => simp [copyFwd]
  | succ a ih =>
    have : a + 1 + b = (a + b) + 1 := by omega
    rw [this]; simp only [copyFwd]; rw [ih]

theorem copyFwdL_length (l : Bytes) (off n : Nat) : (copyFwdL l off n).length = l.length + n := by
  induction n generalizing l with
  | zero => rfl
  | succ n ih => simp only [copyFwdL]; rw [ih]; simp; omega

theorem copyFwdL_add (l : Bytes) (off a b : Nat) :
    copyFwdL l off (a + b) = copyFwdL (copyFwdL l off a) off b := by
  induction a generalizing l with
  | zero => simp [copyFwdL]
  | succ a ih =>
    have : a + 1 + b = (a + b) + 1 := by omega
    rw [this]; simp only [copyFwdL]; rw [ih]

theorem copyFwdL_succ (l : Bytes) (off n : Nat) :
    copyFwdL l off (n + 1) =
      copyFwdL l off n ++ [(copyFwdL l off n).getD ((copyFwdL l off n).length - off) 0] := by
  rw [copyFwdL_add l off n 1]; rfl

/-! ### single elements -/

theorem copyStep_ok {out : Array UInt8} {zn off len : Nat} (rest : Bytes)
    (h0 : 0 < off) (h1 : off ≤ out.size) (h2 : off < 0x80000000) (h3 : len ≤ zn) :
    copyStep out zn off len rest = some (copyFwd out off len, zn - len, rest) := by
  unfold copyStep
  have a : ¬ (off = 0 ∨ off ≥ 0x80000000) := by omega
  have b : ¬ (out.size < off ∨ len > zn) := by omega
  simp only [a, b, if_false]

theorem toNat_ofNat_lt {n : Nat} (h : n < 256) : (UInt8.ofNat n).toNat = n := by
  rw [UInt8.toNat_ofNat']; omega

/-- a `TAG_COPY2` element decodes to the forward copy -/
theorem decodeBlocks_copy2 (out : Array UInt8) (zn off len : Nat) (rest : Bytes)
    (hl1 : 1 ≤ len) (hl2 : len ≤ 64) (h0 : 0 < off) (h1 : off ≤ out.size) (h2 : off < 65536)
    (h3 : len ≤ zn) :
    decodeBlocks out zn (copy2Elem off len ++ rest) = decodeBlocks (copyFwd out off len) (zn - len) rest := by
  unfold copy2Elem
  simp only [List.cons_append, List.nil_append]
  apply decodeBlocks_of_elem
  have ht : (UInt8.ofNat ((len - 1) * 4 + 2)).toNat = (len - 1) * 4 + 2 := toNat_ofNat_lt (by omega)
  have hm : ((len - 1) * 4 + 2) % 4 = 2 := by omega
  have hd : ((len - 1) * 4 + 2) / 4 = len - 1 := by omega
  have ho : fixedDec [UInt8.ofNat off, UInt8.ofNat (off / 256)] = off := by
    simp only [fixedDec, UInt8.toNat_ofNat']; omega
  unfold decodeElem
  rw [ht, hm]
  simp only
  rw [ho, hd, copyStep_ok rest h0 h1 (by omega) (by omega)]
  have : 1 + (len - 1) = len := by omega
  rw [this]

/-- a `TAG_COPY1` element decodes to the forward copy -/
theorem decodeBlocks_copy1 (out : Array UInt8) (zn off len : Nat) (rest : Bytes)
    (hl1 : 4 ≤ len) (hl2 : len ≤ 11) (h0 : 0 < off) (h1 : off ≤ out.size) (h2 : off < 2048)
    (h3 : len ≤ zn) :
    decodeBlocks out zn (copy1Elem off len ++ rest) = decodeBlocks (copyFwd out off len) (zn - len) rest := by
  unfold copy1Elem
  simp only [List.cons_append, List.nil_append]
  apply decodeBlocks_of_elem
  have ht : (UInt8.ofNat (off / 256 * 32 + (len - 4) * 4 + 1)).toNat = off / 256 * 32 + (len - 4) * 4 + 1 :=
    toNat_ofNat_lt (by omega)
  have hm : (off / 256 * 32 + (len - 4) * 4 + 1) % 4 = 1 := by omega
  have hl : 4 + (off / 256 * 32 + (len - 4) * 4 + 1) / 4 % 8 = len := by omega
  have ho : (off / 256 * 32 + (len - 4) * 4 + 1) / 32 * 256 + (UInt8.ofNat off).toNat = off := by
    rw [UInt8.toNat_ofNat']; omega
  unfold decodeElem
  rw [ht, hm]
  simp only
  rw [ho, hl, copyStep_ok rest h0 h1 (by omega) (by omega)]

/-- `emit_copy(off, len)` decodes to the forward copy of `len` bytes -/
theorem decodeBlocks_emitCopy (off : Nat) (h0 : 0 < off) (h2 : off < 65536) :
    ∀ (len : Nat) (out : Array UInt8) (zn : Nat) (rest : Bytes),
      4 ≤ len → off ≤ out.size → len ≤ zn →
      decodeBlocks out zn (emitCopy off len ++ rest) = decodeBlocks (copyFwd out off len) (zn - len) rest := by
  intro len
  induction len using Nat.strongRecOn with
  | _ len ih =>
    intro out zn rest hl h1 h3
    rw [emitCopy]
    by_cases hc : len ≥ 68
    · simp only [hc, dif_pos]
      rw [List.append_assoc, decodeBlocks_copy2 out zn off 64 _ (by omega) (by omega) h0 h1 h2 (by omega)]
      rw [ih (len - 64) (by omega) _ _ _ (by omega) (by rw [copyFwd_size]; omega) (by omega)]
      rw [← copyFwd_add]
      have e1 : 64 + (len - 64) = len := by omega
      have e2 : zn - 64 - (len - 64) = zn - len := by omega
      rw [e1, e2]
    · simp only [hc, dif_neg, not_false_eq_true]
      by_cases hd : len > 64
      · simp only [hd, if_true]
        rw [List.append_assoc, decodeBlocks_copy2 out zn off 60 _ (by omega) (by omega) h0 h1 h2 (by omega)]
        have e1 : 60 + (len - 60) = len := by omega
        have e2 : zn - 60 - (len - 60) = zn - len := by omega
        have hs : off ≤ (copyFwd out off 60).size := by rw [copyFwd_size]; omega
        by_cases he : len - 60 ≥ 12 ∨ off ≥ 2048
        · simp only [he, if_true]
          rw [decodeBlocks_copy2 _ _ off (len - 60) _ (by omega) (by omega) h0 hs h2 (by omega)]
          rw [← copyFwd_add, e1, e2]
        · simp only [he, if_false]
          rw [decodeBlocks_copy1 _ _ off (len - 60) _ (by omega) (by omega) h0 hs (by omega) (by omega)]
          rw [← copyFwd_add, e1, e2]
      · simp only [hd, if_false]
        by_cases he : len ≥ 12 ∨ off ≥ 2048
        · simp only [he, if_true]
          exact decodeBlocks_copy2 out zn off len rest (by omega) (by omega) h0 h1 h2 h3
        · simp only [he, if_false]
          exact decodeBlocks_copy1 out zn off len rest hl (by omega) h0 h1 (by omega) h3

theorem decodeElem_literal (out : Array UInt8) (zn : Nat) (t : UInt8) (xs : Bytes) (x : Nat) (xs1 : Bytes)
    (hm : t.toNat % 4 = 0) (hl : litLen (t.toNat / 4) xs = some (x, xs1)) :
    decodeElem out zn t xs = literalStep out zn x xs1 := by
  unfold decodeElem
  rw [hm]
  simp only
  rw [hl]

/-- `emit_literal(lit)` decodes to appending `lit` (1 ≤ |lit| ≤ 65536: the two-byte length form suffices) -/
theorem decodeBlocks_emitLiteral (out : Array UInt8) (zn : Nat) (lit rest : Bytes)
    (hl1 : 1 ≤ lit.length) (hl2 : lit.length ≤ 65536) (h3 : lit.length ≤ zn) :
    decodeBlocks out zn (emitLiteral lit ++ rest) = decodeBlocks (out ++ lit) (zn - lit.length) rest := by
  unfold emitLiteral
  have hn : (lit.length + 2 ^ 64 - 1) % 2 ^ 64 = lit.length - 1 := by omega
  simp only [hn]
  have htake : List.take (lit.length - 1 + 1) (lit ++ rest) = lit := by
    apply List.take_left'; omega
  have hdrop : List.drop (lit.length - 1 + 1) (lit ++ rest) = rest := by
    apply List.drop_left'; omega
  have hstep : literalStep out zn (lit.length - 1) (lit ++ rest) = some (out ++ lit, zn - lit.length, rest) := by
    unfold literalStep
    have a : ¬ (lit.length - 1 ≥ 0x7fffffff) := by omega
    have b : ¬ (lit.length - 1 + 1 > zn ∨ lit.length - 1 + 1 > (lit ++ rest).length) := by
      rw [List.length_append]; omega
    simp only [a, b, if_false, htake, hdrop]
    have : lit.length - 1 + 1 = lit.length := by omega
    rw [this]
  by_cases c1 : lit.length - 1 < 60
  · simp only [c1, if_true, List.cons_append]
    apply decodeBlocks_of_elem
    have ht : (UInt8.ofNat ((lit.length - 1) * 4)).toNat = (lit.length - 1) * 4 := toNat_ofNat_lt (by omega)
    rw [decodeElem_literal out zn _ _ (lit.length - 1) (lit ++ rest) (by rw [ht]; omega)]
    · exact hstep
    · rw [ht, show (lit.length - 1) * 4 / 4 = lit.length - 1 by omega]
      simp only [litLen, c1, if_true]
  · simp only [c1, if_false]
    by_cases c2 : lit.length - 1 < 256
    · simp only [c2, if_true, List.cons_append]
      apply decodeBlocks_of_elem
      have ht : (UInt8.ofNat (60 * 4)).toNat = 240 := by decide
      rw [decodeElem_literal out zn _ _ (lit.length - 1) (lit ++ rest) (by rw [ht])]
      · exact hstep
      · rw [ht, show (240 : Nat) / 4 = 60 from rfl]
        simp only [litLen, show ¬ 60 < 60 by decide, if_false, fixedRead, show 60 - 59 = 1 by decide]
        have : ¬ (UInt8.ofNat (lit.length - 1) :: (lit ++ rest)).length < 1 := by simp
        simp only [this, if_false, List.take_succ_cons, List.take_zero, List.drop_succ_cons, List.drop_zero,
          fixedDec, UInt8.toNat_ofNat']
        have e : (lit.length - 1) % 2 ^ 8 + 256 * 0 = lit.length - 1 := by omega
        rw [e]
    · simp only [c2, if_false, List.cons_append]
      apply decodeBlocks_of_elem
      have ht : (UInt8.ofNat (61 * 4)).toNat = 244 := by decide
      rw [decodeElem_literal out zn _ _ (lit.length - 1) (lit ++ rest) (by rw [ht])]
      · exact hstep
      · rw [ht, show (244 : Nat) / 4 = 61 from rfl]
        simp only [litLen, show ¬ 61 < 60 by decide, if_false, fixedRead, show 61 - 59 = 2 by decide]
        have : ¬ (UInt8.ofNat (lit.length - 1) :: UInt8.ofNat ((lit.length - 1) / 256) :: (lit ++ rest)).length < 2 := by
          simp
        simp only [this, if_false, List.take_succ_cons, List.take_zero, List.drop_succ_cons, List.drop_zero,
          fixedDec, UInt8.toNat_ofNat']
        have e : (lit.length - 1) % 2 ^ 8 + 256 * ((lit.length - 1) / 256 % 2 ^ 8 + 256 * 0) = lit.length - 1 := by omega
        rw [e]

/-! ## Part B: token level -/

/-- number of output bytes a token produces -/
def Tok.len : Tok → Nat
  | .lit bs => bs.length
  | .copy _ len => len

def toksLen : List Tok → Nat
  | [] => 0
  | t :: ts => t.len + toksLen ts

/-- meaning of a token on the output produced so far (list level) -/
def expandTok (l : Bytes) : Tok → Bytes
  | .lit bs => l ++ bs
  | .copy off len => copyFwdL l off len

def expand (l : Bytes) : List Tok → Bytes
  | [] => l
  | t :: ts => expand (expandTok l t) ts

/-- the same on the decoder's output array -/
def expandTokA (out : Array UInt8) : Tok → Array UInt8
  | .lit bs => out ++ bs
  | .copy off len => copyFwd out off len

def expandA (out : Array UInt8) : List Tok → Array UInt8
  | [] => out
  | t :: ts => expandA (expandTokA out t) ts

/-- a token the encoder may emit when `produced` bytes are already out:
    literals of 1..65536 bytes; copies of at least 4 bytes from a 16-bit offset inside the output -/
def TokOk (produced : Nat) : Tok → Prop
  | .lit bs => 1 ≤ bs.length ∧ bs.length ≤ 65536
  | .copy off len => 0 < off ∧ off ≤ produced ∧ off < 65536 ∧ 4 ≤ len

def ToksOk (produced : Nat) : List Tok → Prop
  | [] => True
  | t :: ts => TokOk produced t ∧ ToksOk (produced + t.len) ts

theorem expandTokA_toList (out : Array UInt8) (t : Tok) :
    (expandTokA out t).toList = expandTok out.toList t := by
  cases t with
  | lit bs => simp [expandTokA, expandTok]
  | copy off len => simp [expandTokA, expandTok, copyFwd_toList]

theorem expandA_toList (out : Array UInt8) (ts : List Tok) :
    (expandA out ts).toList = expand out.toList ts := by
  induction ts generalizing out with
  | nil => rfl
  | cons t ts ih => simp only [expandA, expand]; rw [ih, expandTokA_toList]

theorem expandTokA_size (out : Array UInt8) (t : Tok) : (expandTokA out t).size = out.size + t.len := by
  cases t with
  | lit bs =>
    simp only [expandTokA, Tok.len]
    rw [← Array.length_toList, Array.toList_appendList, List.length_append, Array.length_toList]
  | copy off len => simp [expandTokA, Tok.len, copyFwd_size]

theorem expandTok_length (l : Bytes) (t : Tok) : (expandTok l t).length = l.length + t.len := by
  cases t with
  | lit bs => simp [expandTok, Tok.len]
  | copy off len => simp [expandTok, Tok.len, copyFwdL_length]

theorem expand_length (l : Bytes) (ts : List Tok) : (expand l ts).length = l.length + toksLen ts := by
  induction ts generalizing l with
  | nil => simp [expand, toksLen]
  | cons t ts ih => simp only [expand, toksLen]; rw [ih, expandTok_length]; omega

theorem expand_append (l : Bytes) (ts us : List Tok) : expand l (ts ++ us) = expand (expand l ts) us := by
  induction ts generalizing l with
  | nil => rfl
  | cons t ts ih => simp only [List.cons_append, expand]; rw [ih]

theorem toksLen_append (ts us : List Tok) : toksLen (ts ++ us) = toksLen ts + toksLen us := by
  induction ts with
  | nil => simp [toksLen]
  | cons t ts ih => simp only [List.cons_append, toksLen]; rw [ih]; omega

theorem ToksOk_append (p : Nat) (ts us : List Tok) :
    ToksOk p (ts ++ us) ↔ ToksOk p ts ∧ ToksOk (p + toksLen ts) us := by
  induction ts generalizing p with
  | nil => simp [ToksOk, toksLen]
  | cons t ts ih =>
    simp only [List.cons_append, ToksOk, toksLen]
    rw [ih, and_assoc, Nat.add_assoc]

theorem renderToks_cons (t : Tok) (ts : List Tok) : renderToks (t :: ts) = renderTok t ++ renderToks ts := by
  simp [renderToks]

theorem renderToks_append (ts us : List Tok) : renderToks (ts ++ us) = renderToks ts ++ renderToks us := by
  simp [renderToks]

/-- one rendered valid token takes the decoder from `out` to `expandTokA out t` -/
theorem decodeBlocks_renderTok (t : Tok) (out : Array UInt8) (zn : Nat) (rest : Bytes)
    (hok : TokOk out.size t) (hz : t.len ≤ zn) :
    decodeBlocks out zn (renderTok t ++ rest) = decodeBlocks (expandTokA out t) (zn - t.len) rest := by
  cases t with
  | lit bs =>
    obtain ⟨h1, h2⟩ := hok
    exact decodeBlocks_emitLiteral out zn bs rest h1 h2 hz
  | copy off len =>
    obtain ⟨h0, h1, h2, h4⟩ := hok
    exact decodeBlocks_emitCopy off h0 h2 len out zn rest h4 h1 hz

/-- **token-level decoder theorem**: the decoder run over the rendering of a valid token list performs
    exactly the expansion of the tokens -/
theorem decodeBlocks_renderToks (ts : List Tok) :
    ∀ (out : Array UInt8) (zn : Nat) (rest : Bytes), ToksOk out.size ts → toksLen ts ≤ zn →
      decodeBlocks out zn (renderToks ts ++ rest) = decodeBlocks (expandA out ts) (zn - toksLen ts) rest := by
  induction ts with
  | nil => intro out zn rest _ _; simp [renderToks, expandA, toksLen]
  | cons t ts ih =>
    intro out zn rest hok hz
    obtain ⟨h1, h2⟩ := hok
    simp only [toksLen] at hz
    rw [renderToks_cons, List.append_assoc, decodeBlocks_renderTok t out zn _ h1 (by omega)]
    rw [ih _ _ _ (by rw [expandTokA_size]; exact h2) (by omega)]
    simp only [expandA, toksLen]
    have : zn - t.len - toksLen ts = zn - (t.len + toksLen ts) := by omega
    rw [this]

/-! ## Part C: encoder -/

theorem getD_toArray (blk : Bytes) (i : Nat) : blk.toArray.getD i 0 = blk.getD i 0 := by
  simp [Array.getD_eq_getD_getElem?, List.getD_eq_getElem?_getD]

theorem byteAt_lt (a : Array UInt8) (i : Nat) : byteAt a i < 256 := by
  unfold byteAt; have := UInt8.toNat_lt (a.getD i 0); omega

theorem load32_lt (a : Array UInt8) (i : Nat) : load32 a i < 2 ^ 32 := by
  unfold load32
  have := byteAt_lt a i; have := byteAt_lt a (i + 1); have := byteAt_lt a (i + 2); have := byteAt_lt a (i + 3)
  omega

/-- equal 32-bit loads mean four equal bytes -/
theorem load32_eq_bytes (a : Array UInt8) (i j : Nat) (h : load32 a i = load32 a j) :
    ∀ k, k < 4 → a.getD (i + k) 0 = a.getD (j + k) 0 := by
  unfold load32 at h
  have := byteAt_lt a i; have := byteAt_lt a (i + 1); have := byteAt_lt a (i + 2); have := byteAt_lt a (i + 3)
  have := byteAt_lt a j; have := byteAt_lt a (j + 1); have := byteAt_lt a (j + 2); have := byteAt_lt a (j + 3)
  have e0 : byteAt a i = byteAt a j := by omega
  have e1 : byteAt a (i + 1) = byteAt a (j + 1) := by omega
  have e2 : byteAt a (i + 2) = byteAt a (j + 2) := by omega
  have e3 : byteAt a (i + 3) = byteAt a (j + 3) := by omega
  intro k hk
  have hk' : k = 0 ∨ k = 1 ∨ k = 2 ∨ k = 3 := by omega
  rcases hk' with rfl | rfl | rfl | rfl
  · exact UInt8.toNat_inj.mp e0
  · exact UInt8.toNat_inj.mp e1
  · exact UInt8.toNat_inj.mp e2
  · exact UInt8.toNat_inj.mp e3

/-- `load64(q) >> 8` is the 32-bit load one byte further plus three more bytes above bit 32 -/
theorem load64_shift (a : Array UInt8) (q : Nat) :
    load64 a q / 256 = load32 a (q + 1)
      + 2 ^ 32 * (byteAt a (q + 5) + 256 * byteAt a (q + 6) + 65536 * byteAt a (q + 7)) := by
  unfold load64 load32
  have := byteAt_lt a q
  simp only [show q + 1 + 1 = q + 2 from rfl, show q + 1 + 2 = q + 3 from rfl, show q + 1 + 3 = q + 4 from rfl,
    show q + 4 + 1 = q + 5 from rfl, show q + 4 + 2 = q + 6 from rfl, show q + 4 + 3 = q + 7 from rfl]
  omega

/-- the re-match test of the second inner loop, when it succeeds, has compared four bytes -/
theorem rematch_bytes (a : Array UInt8) (pos cand : Nat) (hp : 1 ≤ pos)
    (h : load64 a (pos - 1) / 256 = load32 a cand) :
    ∀ k, k < 4 → a.getD (cand + k) 0 = a.getD (pos + k) 0 := by
  have hs := load64_shift a (pos - 1)
  have e : pos - 1 + 1 = pos := by omega
  rw [e] at hs
  have h1 := load32_lt a cand
  have h2 := load32_lt a pos
  have : load32 a cand = load32 a pos := by omega
  exact load32_eq_bytes a cand pos this

theorem extendMatch_spec (a : Array UInt8) (xn : Nat) :
    ∀ (f chk pos : Nat),
      pos ≤ extendMatch a xn f chk pos ∧
      (pos ≤ xn → extendMatch a xn f chk pos ≤ xn) ∧
      ∀ j, j < extendMatch a xn f chk pos - pos → a.getD (chk + j) 0 = a.getD (pos + j) 0 := by
  intro f
  induction f with
  | zero => intro chk pos; simp [extendMatch]
  | succ f ih =>
    intro chk pos
    simp only [extendMatch]
    by_cases hc : pos < xn ∧ a.getD chk 0 = a.getD pos 0
    · simp only [hc, and_self, if_true]
      obtain ⟨i1, i2, i3⟩ := ih (chk + 1) (pos + 1)
      refine ⟨by omega, fun _ => i2 (by omega), ?_⟩
      intro j hj
      cases j with
      | zero => exact hc.2
      | succ j =>
        have := i3 j (by omega)
        rw [show chk + (j + 1) = chk + 1 + j by omega, show pos + (j + 1) = pos + 1 + j by omega]
        exact this
    · simp only [hc, if_false]
      refine ⟨Nat.le_refl _, fun h => h, ?_⟩
      intro j hj; omega

/-- a copy whose source really matches the block reproduces the block -/
theorem copyFwdL_match (pre blk : Bytes) (base cand : Nat) (hc : cand < base) :
    ∀ len, base + len ≤ blk.length →
      (∀ j, j < len → blk.getD (cand + j) 0 = blk.getD (base + j) 0) →
      copyFwdL (pre ++ blk.take base) (base - cand) len = pre ++ blk.take (base + len) := by
  intro len
  induction len with
  | zero => intro _ _; rfl
  | succ n ih =>
    intro hb hm
    rw [copyFwdL_succ, ih (by omega) (fun j hj => hm j (by omega))]
    have hlen : (pre ++ blk.take (base + n)).length = pre.length + (base + n) := by
      rw [List.length_append, List.length_take]; omega
    rw [hlen]
    have hidx : pre.length + (base + n) - (base - cand) = pre.length + (cand + n) := by omega
    rw [hidx]
    have hget : (pre ++ blk.take (base + n)).getD (pre.length + (cand + n)) 0 = blk.getD (base + n) 0 := by
      rw [← hm n (by omega)]
      simp only [List.getD_eq_getElem?_getD]
      rw [List.getElem?_append_right (by omega)]
      rw [show pre.length + (cand + n) - pre.length = cand + n by omega]
      rw [List.getElem?_take]
      simp only [show cand + n < base + n by omega, if_true]
    rw [hget, List.append_assoc]
    congr 1
    rw [show base + (n + 1) = (base + n) + 1 by omega, List.take_add_one]
    congr 1
    have hlt : base + n < blk.length := by omega
    simp [List.getD_eq_getElem?_getD, List.getElem?_eq_getElem hlt]

/-- `ts` is a valid continuation when `e` bytes of `blk` (after `pre`) are already out -/
def Gen (pre blk : Bytes) (e : Nat) (ts : List Tok) : Prop :=
  ToksOk (pre.length + e) ts ∧ expand (pre ++ blk.take e) ts = pre ++ blk

theorem Gen_finish (pre blk : Bytes) (e : Nat) (hx : blk.length ≤ 65536) :
    Gen pre blk e (finish blk.toArray blk.length e) := by
  unfold finish Gen
  by_cases h : e < blk.length
  · simp only [h, if_true]
    have hex : (blk.toArray.extract e blk.length).toList = blk.drop e := by
      simp only [Array.toList_extract, List.extract_eq_take_drop]
      exact List.take_of_length_le (by simp)
    rw [hex]
    refine ⟨⟨⟨?_, ?_⟩, trivial⟩, ?_⟩
    · rw [List.length_drop]; omega
    · rw [List.length_drop]; omega
    · simp only [expand, expandTok]
      rw [List.append_assoc, List.take_append_drop]
  · simp only [h, if_false]
    refine ⟨trivial, ?_⟩
    simp only [expand]
    rw [List.take_of_length_le (by omega)]

theorem Gen_lit (pre blk : Bytes) (e pos : Nat) (ts : List Tok) (h1 : e < pos) (h2 : pos ≤ blk.length)
    (hx : blk.length ≤ 65536) (h : Gen pre blk pos ts) :
    Gen pre blk e (Tok.lit (blk.toArray.extract e pos).toList :: ts) := by
  have hex : (blk.toArray.extract e pos).toList = (blk.drop e).take (pos - e) := by
    simp [List.extract_eq_take_drop]
  rw [hex]
  have hl : ((blk.drop e).take (pos - e)).length = pos - e := by
    rw [List.length_take, List.length_drop]; omega
  obtain ⟨g1, g2⟩ := h
  refine ⟨⟨⟨by omega, by omega⟩, ?_⟩, ?_⟩
  · simp only [Tok.len, hl]
    rw [show pre.length + e + (pos - e) = pre.length + pos by omega]; exact g1
  · simp only [expand, expandTok]
    have : blk.take e ++ (blk.drop e).take (pos - e) = blk.take pos := by
      rw [List.take_drop, show e + (pos - e) = pos by omega]
      conv => rhs; rw [← List.take_append_drop e (blk.take pos)]
      rw [List.take_take, show min e pos = e by omega]
    rw [List.append_assoc, this]; exact g2

theorem Gen_copy (pre blk : Bytes) (base cand len : Nat) (ts : List Tok) (hc : cand < base)
    (hb : base + len ≤ blk.length) (hl : 4 ≤ len) (hx : blk.length ≤ 65536)
    (hm : ∀ j, j < len → blk.getD (cand + j) 0 = blk.getD (base + j) 0)
    (h : Gen pre blk (base + len) ts) :
    Gen pre blk base (Tok.copy (base - cand) len :: ts) := by
  obtain ⟨g1, g2⟩ := h
  refine ⟨⟨⟨by omega, by omega, by omega, hl⟩, ?_⟩, ?_⟩
  · simp only [Tok.len]; rw [Nat.add_assoc]; exact g1
  · simp only [expand, expandTok]
    rw [copyFwdL_match pre blk base cand hc len hb hm]; exact g2

/-- every table entry is below `b` (out-of-range probes read 0) -/
def TblLt (tbl : Array Nat) (b : Nat) : Prop := ∀ i, tbl.getD i 0 < b

theorem TblLt_mono {tbl : Array Nat} {b c : Nat} (h : TblLt tbl b) (hbc : b ≤ c) : TblLt tbl c :=
  fun i => Nat.lt_of_lt_of_le (h i) hbc

theorem TblLt_set {tbl : Array Nat} {b : Nat} (h : TblLt tbl b) (k v : Nat) (hv : v < b) :
    TblLt (tbl.setIfInBounds k v) b := by
  intro i
  have hi := h i
  simp only [Array.getD_eq_getD_getElem?, Array.getElem?_setIfInBounds] at hi ⊢
  by_cases hk : k = i
  · simp only [hk, if_true]
    by_cases hs : i < tbl.size
    · simp [hs, hv]
    · simp only [hs, if_false, Option.getD_none]; omega
  · simp only [hk, if_false]; exact hi

theorem TblLt_replicate (n b : Nat) (hb : 0 < b) : TblLt (Array.replicate n 0) b := by
  intro i
  simp only [Array.getD_eq_getD_getElem?, Array.getElem?_replicate]
  by_cases h : i < n <;> simp [h, hb]

/-- loop invariants at the two loop heads of `encode_block` -/
def StOk (blk : Bytes) : EncSt → Prop
  | .scan tbl _ skip npos emit => emit < npos ∧ TblLt tbl npos ∧ 32 ≤ skip
  | .copy tbl base cand =>
    cand < base ∧ base + 4 ≤ blk.length ∧ TblLt tbl (base + 1) ∧
      ∀ j, j < 4 → blk.getD (cand + j) 0 = blk.getD (base + j) 0

/-- how far the input has been emitted at a loop head -/
def stEmit : EncSt → Nat
  | .scan _ _ _ _ emit => emit
  | .copy _ base _ => base

/-- **encoder loop invariant**: from any state satisfying the loop invariants, with any amount of fuel,
    `encGo` emits valid tokens that complete the block -/
theorem encGo_gen (pre blk : Bytes) (shift : Nat) (hx : blk.length ≤ 65536) :
    ∀ (fuel : Nat) (st : EncSt), StOk blk st →
      Gen pre blk (stEmit st) (encGo blk.toArray blk.length (blk.length - inputMargin) shift fuel st) := by
  intro fuel
  induction fuel with
  | zero =>
    intro st _
    cases st with
    | scan tbl next skip npos emit => exact Gen_finish pre blk emit hx
    | copy tbl base cand => exact Gen_finish pre blk base hx
  | succ f ih =>
    intro st hst
    cases st with
    | scan tbl next skip npos emit =>
      obtain ⟨h1, h2, h3⟩ := hst
      simp only [encGo, stEmit]
      by_cases hlim : npos + skip / 32 > blk.length - inputMargin
      · simp only [hlim, if_true]; exact Gen_finish pre blk emit hx
      · simp only [hlim, if_false]
        have hin : inputMargin = 15 := rfl
        have hs : 1 ≤ skip / 32 := by omega
        have hcand : tbl.getD next 0 < npos := h2 next
        have htbl' : TblLt (tbl.setIfInBounds next (npos % 65536)) (npos + 1) :=
          TblLt_set (TblLt_mono h2 (by omega)) _ _ (by omega)
        by_cases hm : load32 blk.toArray npos = load32 blk.toArray (tbl.getD next 0)
        · simp only [hm, if_true]
          apply Gen_lit pre blk emit npos _ h1 (by omega) hx
          have := ih (.copy (tbl.setIfInBounds next (npos % 65536)) npos (tbl.getD next 0))
            ⟨hcand, by omega, htbl', by
              intro j hj
              have := load32_eq_bytes blk.toArray npos (tbl.getD next 0) hm j hj
              rw [getD_toArray, getD_toArray] at this
              exact this.symm⟩
          exact this
        · simp only [hm, if_false]
          exact ih (.scan _ _ _ _ emit) ⟨by omega, TblLt_mono htbl' (by omega), by omega⟩
    | copy tbl base cand =>
      obtain ⟨h1, h2, h3, h4⟩ := hst
      simp only [encGo, stEmit]
      have hin : inputMargin = 15 := rfl
      obtain ⟨e1, e2, e3⟩ := extendMatch_spec blk.toArray blk.length (blk.length - (base + 4)) (cand + 4) (base + 4)
      have e2' := e2 (by omega)
      generalize extendMatch blk.toArray blk.length (blk.length - (base + 4)) (cand + 4) (base + 4) = pos
        at e1 e2' e3 ⊢
      have hoff : (base - cand) % 2 ^ 32 = base - cand := by omega
      have hlen : (pos - base) % 2 ^ 32 = pos - base := by omega
      rw [hoff, hlen]
      have hmatch : ∀ j, j < pos - base → blk.getD (cand + j) 0 = blk.getD (base + j) 0 := by
        intro j hj
        by_cases hj4 : j < 4
        · exact h4 j hj4
        · have := e3 (j - 4) (by omega)
          rw [getD_toArray, getD_toArray] at this
          rw [show cand + 4 + (j - 4) = cand + j by omega, show base + 4 + (j - 4) = base + j by omega] at this
          exact this
      have hpos : base + (pos - base) = pos := by omega
      by_cases hlim : pos ≥ blk.length - inputMargin
      · simp only [hlim, if_true]
        apply Gen_copy pre blk base cand (pos - base) _ h1 (by omega) (by omega) hx hmatch
        rw [hpos]; exact Gen_finish pre blk pos hx
      · simp only [hlim, if_false]
        have ht1 : TblLt (tbl.setIfInBounds (hash32 (load64 blk.toArray (pos - 1)) shift) ((pos - 1) % 65536)) pos :=
          TblLt_set (TblLt_mono h3 (by omega)) _ _ (by omega)
        have ht2 := TblLt_set (TblLt_mono ht1 (Nat.le_succ pos))
          (hash32 (load64 blk.toArray (pos - 1) / 256) shift) (pos % 65536) (by omega)
        by_cases hm : load64 blk.toArray (pos - 1) / 256 ≠
            load32 blk.toArray ((tbl.setIfInBounds (hash32 (load64 blk.toArray (pos - 1)) shift) ((pos - 1) % 65536)).getD
              (hash32 (load64 blk.toArray (pos - 1) / 256) shift) 0)
        · rw [if_pos hm]
          apply Gen_copy pre blk base cand (pos - base) _ h1 (by omega) (by omega) hx hmatch
          rw [hpos]
          exact ih (.scan _ _ initSkip (pos + 1) pos) ⟨by omega, ht2, Nat.le_refl _⟩
        · rw [if_neg hm]
          apply Gen_copy pre blk base cand (pos - base) _ h1 (by omega) (by omega) hx hmatch
          rw [hpos]
          have hm' := Classical.not_not.mp hm
          refine ih (.copy _ pos _) ⟨ht1 _, by omega, ht2, ?_⟩
          intro j hj
          have := rematch_bytes blk.toArray pos _ (by omega) hm' j hj
          rw [getD_toArray, getD_toArray] at this
          exact this

/-- `encode_block` emits valid tokens whose expansion appends the block -/
theorem encodeBlockToks_gen (pre blk : Bytes) (hx : blk.length ≤ 65536) :
    Gen pre blk 0 (encodeBlockToks blk) := by
  unfold encodeBlockToks
  show Gen pre blk 0 (encGo blk.toArray blk.length (blk.length - inputMargin) _ blk.length _)
  exact encGo_gen pre blk _ hx _ (.scan _ _ initSkip 1 0)
    ⟨by omega, TblLt_replicate _ 1 (by omega), Nat.le_refl _⟩

/-! ## Part D: the fuel of `encGo` never runs out -/

/-- enough fuel for the remaining loop-head visits: every visit advances the position by at least one
    and the loops are left once the position passes `limit` -/
def FuelOk (limit f : Nat) : EncSt → Prop
  | .scan _ _ skip npos _ => limit < f + npos ∧ 32 ≤ skip
  | .copy _ base _ => limit < f + base + 1 ∧ base < limit

/-- one more unit of fuel changes nothing -/
theorem encGo_fuel_succ (a : Array UInt8) (xn limit shift : Nat) :
    ∀ (f : Nat) (st : EncSt), FuelOk limit f st →
      encGo a xn limit shift (f + 1) st = encGo a xn limit shift f st := by
  intro f
  induction f with
  | zero =>
    intro st h
    cases st with
    | scan tbl next skip npos emit =>
      obtain ⟨h1, h2⟩ := h
      have : npos + skip / 32 > limit := by omega
      simp only [encGo, this, if_true]
    | copy tbl base cand =>
      obtain ⟨h1, h2⟩ := h
      omega
  | succ f ih =>
    intro st h
    cases st with
    | scan tbl next skip npos emit =>
      obtain ⟨h1, h2⟩ := h
      rw [encGo, encGo]
      by_cases hlim : npos + skip / 32 > limit
      · simp only [hlim, if_true]
      · simp only [hlim, if_false]
        by_cases hm : load32 a npos = load32 a (tbl.getD next 0)
        · simp only [hm, if_true]
          rw [ih (.copy _ npos _) ⟨by omega, by omega⟩]
        · simp only [hm, if_false]
          rw [ih (.scan _ _ (skip + skip / 32) (npos + skip / 32) _) ⟨by omega, by omega⟩]
    | copy tbl base cand =>
      obtain ⟨h1, h2⟩ := h
      rw [encGo, encGo]
      obtain ⟨e1, _, _⟩ := extendMatch_spec a xn (xn - (base + 4)) (cand + 4) (base + 4)
      generalize extendMatch a xn (xn - (base + 4)) (cand + 4) (base + 4) = pos at e1 ⊢
      by_cases hlim : pos ≥ limit
      · simp only [hlim, if_true]
      · simp only [hlim, if_false]
        by_cases hm : load64 a (pos - 1) / 256 ≠
            load32 a ((tbl.setIfInBounds (hash32 (load64 a (pos - 1)) shift) ((pos - 1) % 65536)).getD
              (hash32 (load64 a (pos - 1) / 256) shift) 0)
        · rw [if_pos hm, if_pos hm, ih (.scan _ _ initSkip (pos + 1) _) ⟨by omega, Nat.le_refl _⟩]
        · rw [if_neg hm, if_neg hm, ih (.copy _ pos _) ⟨by omega, by omega⟩]

theorem encGo_fuel_add (a : Array UInt8) (xn limit shift : Nat) (f : Nat) (st : EncSt)
    (h : FuelOk limit f st) (k : Nat) :
    encGo a xn limit shift (f + k) st = encGo a xn limit shift f st := by
  have mono : ∀ g, FuelOk limit f st → FuelOk limit (f + g) st := by
    intro g hg
    cases st with
    | scan tbl next skip npos emit => exact ⟨by have := hg.1; omega, hg.2⟩
    | copy tbl base cand => exact ⟨by have := hg.1; omega, hg.2⟩
  induction k with
  | zero => rfl
  | succ k ih =>
    rw [show f + (k + 1) = (f + k) + 1 by omega, encGo_fuel_succ a xn limit shift (f + k) st (mono k h), ih]

/-! ## Part E: size of the encoder's output -/

theorem emitLiteral_length (lit : Bytes) (h1 : 1 ≤ lit.length) (h2 : lit.length ≤ 65536) :
    30 * (emitLiteral lit).length ≤ 31 * lit.length + 30 := by
  unfold emitLiteral
  have hn : (lit.length + 2 ^ 64 - 1) % 2 ^ 64 = lit.length - 1 := by omega
  simp only [hn]
  by_cases c1 : lit.length - 1 < 60
  · simp only [c1, if_true, List.length_cons]; omega
  · simp only [c1, if_false]
    by_cases c2 : lit.length - 1 < 256
    · simp only [c2, if_true, List.length_cons]; omega
    · simp only [c2, if_false, List.length_cons]; omega

theorem emitCopy_length (off : Nat) : ∀ len, 4 ≤ len → (emitCopy off len).length + 1 ≤ len := by
  intro len
  induction len using Nat.strongRecOn with
  | _ len ih =>
    intro hl
    rw [emitCopy]
    by_cases hc : len ≥ 68
    · simp only [hc, dif_pos, List.length_append]
      have := ih (len - 64) (by omega) (by omega)
      simp only [copy2Elem, List.length_cons, List.length_nil]; omega
    · simp only [hc, dif_neg, not_false_eq_true]
      by_cases hd : len > 64
      · simp only [hd, if_true, List.length_append]
        by_cases he : len - 60 ≥ 12 ∨ off ≥ 2048
        · simp only [he, if_true, copy2Elem, List.length_cons, List.length_nil]; omega
        · simp only [he, if_false, copy2Elem, copy1Elem, List.length_cons, List.length_nil]; omega
      · simp only [hd, if_false]
        by_cases he : len ≥ 12 ∨ off ≥ 2048
        · simp only [he, if_true, copy2Elem, List.length_cons, List.length_nil]; omega
        · simp only [he, if_false, copy1Elem, List.length_cons, List.length_nil]; omega

/-- the list starts with a copy token -/
def HeadCopy : List Tok → Prop
  | .copy _ _ :: _ => True
  | _ => False

/-- literals and copies alternate: every literal is followed by a copy or ends the list -/
def NoAdjLit : List Tok → Prop
  | [] => True
  | .copy _ _ :: ts => NoAdjLit ts
  | .lit _ :: ts => (ts = [] ∨ HeadCopy ts) ∧ NoAdjLit ts

/-- with alternating valid tokens the rendering is at most 31/30 of the expansion, plus one byte
    (a literal costs at most `L + 1 + L/30` bytes, a copy at most `len - 1`) -/
theorem renderToks_length (ts : List Tok) :
    ∀ p, ToksOk p ts → NoAdjLit ts →
      30 * (renderToks ts).length ≤ 31 * toksLen ts + 30 ∧
      ((ts = [] ∨ HeadCopy ts) → 30 * (renderToks ts).length ≤ 31 * toksLen ts) := by
  induction ts with
  | nil =>
    intro p _ _
    have e1 : (renderToks ([] : List Tok)).length = 0 := rfl
    have e2 : toksLen [] = 0 := rfl
    rw [e1, e2]
    exact ⟨by omega, fun _ => by omega⟩
  | cons t ts ih =>
    intro p hok hna
    obtain ⟨ht, hts⟩ := hok
    rw [renderToks_cons, List.length_append]
    simp only [toksLen]
    cases t with
    | lit bs =>
      obtain ⟨h1, h2⟩ := ht
      obtain ⟨hh, hn⟩ := hna
      have hb := emitLiteral_length bs h1 h2
      obtain ⟨_, i2⟩ := ih _ hts hn
      have i3 := i2 hh
      simp only [renderTok, Tok.len]
      constructor
      · omega
      · intro h
        rcases h with h | h
        · cases h
        · exact h.elim
    | copy off len =>
      obtain ⟨_, _, _, h4⟩ := ht
      have hb := emitCopy_length off len h4
      obtain ⟨i1, _⟩ := ih _ hts hna
      simp only [renderTok, Tok.len]
      constructor
      · omega
      · intro _; omega

theorem NoAdjLit_finish (a : Array UInt8) (xn e : Nat) : NoAdjLit (finish a xn e) := by
  unfold finish
  by_cases h : e < xn <;> simp [h, NoAdjLit]

/-- shape of what `encGo` emits: alternating, and starting with a copy from the `copy` loop head -/
theorem encGo_shape (a : Array UInt8) (xn limit shift : Nat) :
    ∀ (f : Nat) (st : EncSt), FuelOk limit f st →
      NoAdjLit (encGo a xn limit shift f st) ∧
      (match st with
        | .scan _ _ _ _ _ => True
        | .copy _ _ _ => HeadCopy (encGo a xn limit shift f st)) := by
  intro f
  induction f with
  | zero =>
    intro st h
    cases st with
    | scan tbl next skip npos emit => exact ⟨NoAdjLit_finish _ _ _, trivial⟩
    | copy tbl base cand => obtain ⟨h1, h2⟩ := h; omega
  | succ f ih =>
    intro st h
    cases st with
    | scan tbl next skip npos emit =>
      obtain ⟨h1, h2⟩ := h
      refine ⟨?_, trivial⟩
      rw [encGo]
      by_cases hlim : npos + skip / 32 > limit
      · simp only [hlim, if_true]; exact NoAdjLit_finish _ _ _
      · simp only [hlim, if_false]
        by_cases hm : load32 a npos = load32 a (tbl.getD next 0)
        · simp only [hm, if_true]
          obtain ⟨i1, i2⟩ := ih (.copy (tbl.setIfInBounds next (npos % 65536)) npos (tbl.getD next 0))
            ⟨by omega, by omega⟩
          exact ⟨Or.inr i2, i1⟩
        · simp only [hm, if_false]
          exact (ih (.scan _ _ (skip + skip / 32) (npos + skip / 32) _) ⟨by omega, by omega⟩).1
    | copy tbl base cand =>
      obtain ⟨h1, h2⟩ := h
      rw [encGo]
      obtain ⟨e1, _, _⟩ := extendMatch_spec a xn (xn - (base + 4)) (cand + 4) (base + 4)
      generalize extendMatch a xn (xn - (base + 4)) (cand + 4) (base + 4) = pos at e1 ⊢
      by_cases hlim : pos ≥ limit
      · simp only [hlim, if_true]
        exact ⟨NoAdjLit_finish _ _ _, trivial⟩
      · simp only [hlim, if_false]
        by_cases hm : load64 a (pos - 1) / 256 ≠
            load32 a ((tbl.setIfInBounds (hash32 (load64 a (pos - 1)) shift) ((pos - 1) % 65536)).getD
              (hash32 (load64 a (pos - 1) / 256) shift) 0)
        · rw [if_pos hm]
          exact ⟨(ih (.scan _ _ initSkip (pos + 1) _) ⟨by omega, Nat.le_refl _⟩).1, trivial⟩
        · rw [if_neg hm]
          exact ⟨(ih (.copy _ pos _) ⟨by omega, by omega⟩).1, trivial⟩

theorem encodeBlockToks_shape (blk : Bytes) : NoAdjLit (encodeBlockToks blk) := by
  unfold encodeBlockToks
  exact (encGo_shape _ _ _ _ _ (.scan _ _ initSkip 1 0) ⟨by simp only [inputMargin, List.size_toArray]; omega, Nat.le_refl _⟩).1

end Lcdb.Snappy
