/-
  Memory safety of the block iterator model: on arbitrary bytes no sequence of iterator
  operations ever returns `none` (fault: out-of-bounds read, violated assert, or fuel exhaustion).
-/
import LcdbModel.Model.Block
import LcdbModel.Props.CodingProps
namespace Lcdb

/-- static bounds: the restart array and the count lie inside the buffer -/
def BlockIter.Base (it : BlockIter) : Prop :=
  it.restarts + 4 * it.numRestarts + 4 ≤ it.data.length ∧ 0 < it.numRestarts

/-- invariant of every reachable iterator state -/
def BlockIter.Inv (c : BlockCmp) (it : BlockIter) : Prop :=
  it.Base ∧
  (it.valid = true → it.restartIndex < it.numRestarts ∧ it.value.isSome ∧ (c.internal = true → 8 ≤ it.key.length)) ∧
  (∀ o n, it.value = some (o, n) → o + n ≤ it.restarts)

def TIter.Inv (c : BlockCmp) : TIter → Prop
  | .empty _ => True
  | .block it => it.Inv c

/-- the static fields are unchanged and a corrupt status is kept -/
def BlockIter.Same (a b : BlockIter) : Prop :=
  b.data = a.data ∧ b.restarts = a.restarts ∧ b.numRestarts = a.numRestarts ∧
  (a.status = .corrupt → b.status = .corrupt)

theorem BlockIter.Same.refl (a : BlockIter) : a.Same a := ⟨rfl, rfl, rfl, id⟩

theorem BlockIter.Same.trans {a b d : BlockIter} (h1 : a.Same b) (h2 : b.Same d) : a.Same d := by
  obtain ⟨a1, a2, a3, a4⟩ := h1
  obtain ⟨b1, b2, b3, b4⟩ := h2
  exact ⟨b1.trans a1, b2.trans a2, b3.trans a3, fun h => b4 (a4 h)⟩

theorem BlockIter.Same.base {a b : BlockIter} (h : a.Same b) (hb : a.Base) : b.Base := by
  obtain ⟨a1, a2, a3, _⟩ := h
  unfold BlockIter.Base at *
  rw [a1, a2, a3]; exact hb

/-- precondition of parse_next_key: the restart index is in range and the value slice
    (whose end `e` is where the next entry starts) lies inside the data area -/
def BlockIter.Pre (it : BlockIter) (e : Nat) : Prop :=
  it.Base ∧ it.restartIndex < it.numRestarts ∧ it.nextEntryOffset = some e ∧ e ≤ it.restarts

/-! ### 1. get_restart_point -/

theorem BlockIter.getRestartPoint_ok (it : BlockIter) (hb : it.Base) (idx : Nat)
    (h : idx < it.numRestarts) :
    ∃ off, it.getRestartPoint idx = some off ∧ off ≤ it.restarts := by
  have h1 := hb.1
  have h2 : ¬ it.data.length < it.restarts + idx * 4 + 4 := by omega
  simp only [BlockIter.getRestartPoint, readFixed32At, if_pos h, if_neg h2]
  refine ⟨_, rfl, ?_⟩
  split <;> omega

/-! ### 2. decode_entry -/

theorem decodeEntryWin_ok (hdr : Bytes) (xn : Nat) (hl : hdr.length ≤ xn) (s ns vl h : Nat)
    (hd : decodeEntryWin hdr xn = some (s, ns, vl, h)) : 3 ≤ h ∧ h + ns + vl ≤ xn := by
  unfold decodeEntryWin at hd
  split at hd
  · rename_i b0 b1 b2 tl
    simp only [List.length_cons] at hl
    split at hd
    · split at hd
      · cases hd
      · simp only [Option.some.injEq, Prod.mk.injEq] at hd
        omega
    · split at hd
      · cases hd
      · rename_i s' r1 e1
        split at hd
        · cases hd
        · rename_i ns' r2 e2
          split at hd
          · cases hd
          · rename_i vl' r3 e3
            have l1 := varint32Read_rest_lt _ _ _ e1
            have l2 := varint32Read_rest_lt _ _ _ e2
            have l3 := varint32Read_rest_lt _ _ _ e3
            simp only [List.length_cons] at l1
            simp only [List.length_cons] at hd
            split at hd
            · cases hd
            · simp only [Option.some.injEq, Prod.mk.injEq] at hd
              omega
  · cases hd

theorem decodeEntry_not_fault (data : Bytes) (p limit : Nat) (hl : limit ≤ data.length) :
    decodeEntry data p limit ≠ .fault := by
  unfold decodeEntry
  have : ¬ data.length < limit := by omega
  simp only [if_neg this]
  split
  · intro h; cases h
  · split
    · intro h; cases h
    · split <;> (intro h; cases h)

theorem decodeEntry_ok (data : Bytes) (p limit : Nat)
    (s ns vl kp : Nat) (hd : decodeEntry data p limit = .ok s ns vl kp) :
    p + 3 ≤ kp ∧ kp + ns + vl ≤ limit := by
  unfold decodeEntry at hd
  split at hd
  · cases hd
  · split at hd
    · cases hd
    · split at hd
      · cases hd
      · split at hd
        · cases hd
        · rename_i s' ns' vl' h' e
          have hlen : ((data.drop p).take (min (limit - p) 15)).length ≤ limit - p := by
            simp only [List.length_take, List.length_drop]; omega
          have := decodeEntryWin_ok _ _ hlen _ _ _ _ e
          simp only [Dec.ok.injEq] at hd
          omega

/-! ### 3. the restart-index bump at the end of parse_next_key -/

theorem BlockIter.bumpRestart_ok (it : BlockIter) (hb : it.Base) :
    ∀ fuel ri, 1 ≤ fuel → it.numRestarts ≤ fuel + ri →
      ∃ ri', it.bumpRestart fuel ri = some ri' ∧ (ri < it.numRestarts → ri' < it.numRestarts) := by
  intro fuel
  induction fuel with
  | zero => intro ri h; omega
  | succ fuel ih =>
    intro ri _ hn
    unfold BlockIter.bumpRestart
    split
    · rename_i hlt
      obtain ⟨off, ho, _⟩ := it.getRestartPoint_ok hb (ri + 1) hlt
      simp only [ho]
      split
      · obtain ⟨r, hr, hr2⟩ := ih (ri + 1) (by omega) (by omega)
        exact ⟨r, hr, fun _ => hr2 hlt⟩
      · exact ⟨ri, rfl, id⟩
    · exact ⟨ri, rfl, id⟩

/-! ### 4. parse_next_key -/

theorem BlockCmp.compare_ok (c : BlockCmp) (x y : Bytes) (hx : c.internal = true → 8 ≤ x.length)
    (hy : c.internal = true → 8 ≤ y.length) : ∃ o, c.compare x y = some o := by
  cases hc : c.internal
  · simp [BlockCmp.compare, hc]
  · have := hx hc; have := hy hc
    have h1 : ¬ x.length < 8 := by omega
    have h2 : ¬ y.length < 8 := by omega
    simp [BlockCmp.compare, hc, h1, h2]

theorem BlockIter.pre_of_inv {c : BlockCmp} {it : BlockIter} (h : it.Inv c) (hv : it.valid = true) :
    ∃ e, it.Pre e := by
  obtain ⟨hb, h2, h3⟩ := h
  obtain ⟨hri, hs, _⟩ := h2 hv
  cases hval : it.value with
  | none => rw [hval] at hs; cases hs
  | some v =>
    obtain ⟨o, n⟩ := v
    exact ⟨o + n, hb, hri, by simp [BlockIter.nextEntryOffset, hval], h3 o n hval⟩

theorem BlockIter.parseNextKey_ok (c : BlockCmp) (it : BlockIter) (e : Nat) (h : it.Pre e) :
    ∃ b it', it.parseNextKey c = some (b, it') ∧ it.Same it' ∧ it'.Inv c ∧ it'.valid = b ∧
      (b = true → ∃ e', it'.Pre e' ∧ e < e') := by
  obtain ⟨hb, hri, hneo, hle⟩ := h
  have hval : ∀ o n, it.value = some (o, n) → o + n ≤ it.restarts := by
    intro o n hv
    simp only [BlockIter.nextEntryOffset, hv, Option.map_some, Option.some.injEq] at hneo
    omega
  unfold BlockIter.parseNextKey
  simp only [hneo]
  split
  · -- no more entries
    refine ⟨false, it.markInvalid, rfl, ⟨rfl, rfl, rfl, id⟩, ⟨hb, ?_, hval⟩, ?_, ?_⟩
    · intro hv; simp [BlockIter.valid, BlockIter.markInvalid] at hv
    · simp [BlockIter.valid, BlockIter.markInvalid]
    · intro hf; cases hf
  · rename_i hcur
    have hcorr : ∃ b it', some (false, it.corruption) = some (b, it') ∧ it.Same it' ∧ it'.Inv c ∧
        it'.valid = b ∧ (b = true → ∃ e', it'.Pre e' ∧ e < e') := by
      refine ⟨false, it.corruption, rfl, ⟨rfl, rfl, rfl, fun _ => rfl⟩, ⟨hb, ?_, ?_⟩, ?_, ?_⟩
      · intro hv; simp [BlockIter.valid, BlockIter.corruption] at hv
      · intro o n hv; simp [BlockIter.corruption] at hv
      · simp [BlockIter.valid, BlockIter.corruption]
      · intro hf; cases hf
    have hlim : it.restarts ≤ it.data.length := by have := hb.1; omega
    split
    · rename_i hd; exact absurd hd (decodeEntry_not_fault _ _ _ hlim)
    · exact hcorr
    · rename_i shared nonShared valueLen kp hd
      obtain ⟨hkp, hend⟩ := decodeEntry_ok _ _ _ _ _ _ _ hd
      split
      · exact hcorr
      · rename_i hsh
        split
        · exact hcorr
        · rename_i hint
          have hb1 : BlockIter.Base
              { it with
                current := e,
                key := it.key.take shared ++ (it.data.drop kp).take nonShared,
                value := some (kp + nonShared, valueLen) } := hb
          obtain ⟨ri', hbump, hri'⟩ := BlockIter.bumpRestart_ok _ hb1 (it.numRestarts + 1)
            it.restartIndex (by omega) (by dsimp only; omega)
          dsimp only at hbump hri'
          simp only [hbump]
          refine ⟨true, _, rfl, ⟨rfl, rfl, rfl, id⟩, ⟨hb, ?_, ?_⟩, ?_, ?_⟩
          · intro _
            refine ⟨hri' hri, rfl, ?_⟩
            intro hc
            simp only [hc, Bool.true_and, decide_eq_true_eq] at hint
            simp only [List.length_append, List.length_take, List.length_drop]
            omega
          · intro o n hv
            simp only [Option.some.injEq, Prod.mk.injEq] at hv
            dsimp only
            omega
          · simp only [BlockIter.valid, decide_eq_true_eq]; omega
          · intro _
            refine ⟨kp + nonShared + valueLen, ⟨hb, hri' hri, rfl, ?_⟩, ?_⟩
            · show kp + nonShared + valueLen ≤ it.restarts
              omega
            · omega

/-! ### 5. the loops -/

theorem BlockIter.seekToRestartPoint_ok (it : BlockIter) (hb : it.Base) (idx : Nat)
    (h : idx < it.numRestarts) :
    ∃ it1 e, it.seekToRestartPoint idx = some it1 ∧ it.Same it1 ∧ it1.Pre e := by
  obtain ⟨off, ho, hle⟩ := it.getRestartPoint_ok hb idx h
  unfold BlockIter.seekToRestartPoint
  simp only [ho]
  exact ⟨_, off + 0, rfl, ⟨rfl, rfl, rfl, id⟩, hb, h, rfl, hle⟩

theorem BlockIter.skipUntil_ok (c : BlockCmp) (bound : Nat) :
    ∀ fuel (it : BlockIter) e, it.Pre e → it.restarts - e + 1 ≤ fuel →
      ∃ it', BlockIter.skipUntil c bound fuel it = some it' ∧ it.Same it' ∧ it'.Inv c := by
  intro fuel
  induction fuel with
  | zero => intro it e _ h; omega
  | succ fuel ih =>
    intro it e hp hf
    obtain ⟨b, it', hpk, hs, hinv, _, hnext⟩ := BlockIter.parseNextKey_ok c it e hp
    unfold BlockIter.skipUntil
    cases b with
    | false => simp only [hpk]; exact ⟨it', rfl, hs, hinv⟩
    | true =>
      obtain ⟨e', hp', hlt⟩ := hnext rfl
      simp only [hpk, hp'.2.2.1]
      split
      · have h1 := hs.2.1
        have h2 := hp'.2.2.2
        obtain ⟨it'', g1, g2, g3⟩ := ih it' e' hp' (by omega)
        exact ⟨it'', g1, hs.trans g2, g3⟩
      · exact ⟨it', rfl, hs, hinv⟩

theorem BlockIter.seekLinear_ok (c : BlockCmp) (target : Bytes)
    (ht : c.internal = true → 8 ≤ target.length) :
    ∀ fuel (it : BlockIter) e, it.Pre e → it.restarts - e + 1 ≤ fuel →
      ∃ it', BlockIter.seekLinear c target fuel it = some it' ∧ it.Same it' ∧ it'.Inv c := by
  intro fuel
  induction fuel with
  | zero => intro it e _ h; omega
  | succ fuel ih =>
    intro it e hp hf
    obtain ⟨b, it', hpk, hs, hinv, hv, hnext⟩ := BlockIter.parseNextKey_ok c it e hp
    unfold BlockIter.seekLinear
    cases b with
    | false => simp only [hpk]; exact ⟨it', rfl, hs, hinv⟩
    | true =>
      obtain ⟨e', hp', hlt⟩ := hnext rfl
      obtain ⟨o, ho⟩ := c.compare_ok it'.key target (hinv.2.1 hv).2.2 ht
      cases o <;> simp only [hpk, ho]
      · have h1 := hs.2.1
        have h2 := hp'.2.2.2
        obtain ⟨it'', g1, g2, g3⟩ := ih it' e' hp' (by omega)
        exact ⟨it'', g1, hs.trans g2, g3⟩
      · exact ⟨it', rfl, hs, hinv⟩
      · exact ⟨it', rfl, hs, hinv⟩

theorem BlockIter.prevScan_ok (it : BlockIter) (hb : it.Base) (orig : Nat) :
    ∀ fuel ri, ri + 1 ≤ fuel → ri < it.numRestarts →
      it.prevScan orig fuel ri = some none ∨
      ∃ r, it.prevScan orig fuel ri = some (some r) ∧ r < it.numRestarts := by
  intro fuel
  induction fuel with
  | zero => intro ri h; omega
  | succ fuel ih =>
    intro ri hf hri
    obtain ⟨off, ho, _⟩ := it.getRestartPoint_ok hb ri hri
    unfold BlockIter.prevScan
    simp only [ho]
    split
    · split
      · exact Or.inl rfl
      · exact ih (ri - 1) (by omega) (by omega)
    · exact Or.inr ⟨ri, rfl, hri⟩

theorem BlockIter.seekBin_ok (c : BlockCmp) (target : Bytes) (it : BlockIter) (hb : it.Base)
    (ht : c.internal = true → 8 ≤ target.length) :
    ∀ fuel left right, right - left + 1 ≤ fuel → left < it.numRestarts → right < it.numRestarts →
      BlockIter.seekBin c target it fuel left right = some none ∨
      ∃ l, BlockIter.seekBin c target it fuel left right = some (some l) ∧ l < it.numRestarts := by
  intro fuel
  induction fuel with
  | zero => intro l r h; omega
  | succ fuel ih =>
    intro left right hf hl hr
    unfold BlockIter.seekBin
    split
    · rename_i hlr
      have hlim : it.restarts ≤ it.data.length := by have := hb.1; omega
      obtain ⟨ro, hro, _⟩ := it.getRestartPoint_ok hb ((left + right + 1) / 2) (by omega)
      simp only [hro]
      split
      · rename_i hd; exact absurd hd (decodeEntry_not_fault _ _ _ hlim)
      · exact Or.inl rfl
      · rename_i shared nonShared valueLen kp hd
        obtain ⟨_, hend⟩ := decodeEntry_ok _ _ _ _ _ _ _ hd
        split
        · exact Or.inl rfl
        · split
          · exact Or.inl rfl
          · rename_i hint
            have hk : c.internal = true → 8 ≤ ((it.data.drop kp).take nonShared).length := by
              intro hc
              simp only [hc, Bool.true_and, decide_eq_true_eq] at hint
              simp only [List.length_take, List.length_drop]
              omega
            obtain ⟨o, ho⟩ := c.compare_ok _ target hk ht
            cases o <;> simp only [ho]
            · exact ih _ _ (by omega) (by omega) hr
            · exact ih _ _ (by omega) hl (by omega)
            · exact ih _ _ (by omega) hl (by omega)
    · exact Or.inr ⟨left, rfl, hl⟩

/-! ### 6. the iterator operations -/

theorem BlockIter.corruption_ok (c : BlockCmp) (it : BlockIter) (hb : it.Base) :
    it.Same it.corruption ∧ it.corruption.Inv c ∧ it.corruption.valid = false := by
  refine ⟨⟨rfl, rfl, rfl, fun _ => rfl⟩, ⟨hb, ?_, ?_⟩, ?_⟩
  · intro hv; simp [BlockIter.valid, BlockIter.corruption] at hv
  · intro o n hv; simp [BlockIter.corruption] at hv
  · simp [BlockIter.valid, BlockIter.corruption]

theorem BlockIter.markInvalid_ok (c : BlockCmp) (it : BlockIter) (h : it.Inv c) :
    it.Same it.markInvalid ∧ it.markInvalid.Inv c := by
  refine ⟨⟨rfl, rfl, rfl, id⟩, ⟨h.1, ?_, h.2.2⟩⟩
  intro hv; simp [BlockIter.valid, BlockIter.markInvalid] at hv

theorem BlockIter.first_ok (c : BlockCmp) (it : BlockIter) (h : it.Inv c) :
    ∃ it', it.first c = some it' ∧ it.Same it' ∧ it'.Inv c := by
  obtain ⟨it1, e, h1, hs1, hp1⟩ := it.seekToRestartPoint_ok h.1 0 h.1.2
  obtain ⟨b, it', hpk, hs, hinv, _, _⟩ := BlockIter.parseNextKey_ok c it1 e hp1
  unfold BlockIter.first
  simp only [h1, hpk, Option.map_some]
  exact ⟨it', rfl, hs1.trans hs, hinv⟩

theorem BlockIter.next_ok (c : BlockCmp) (it : BlockIter) (h : it.Inv c) (hv : it.valid = true) :
    ∃ it', it.next c = some it' ∧ it.Same it' ∧ it'.Inv c := by
  obtain ⟨e, hp⟩ := BlockIter.pre_of_inv h hv
  obtain ⟨b, it', hpk, hs, hinv, _, _⟩ := BlockIter.parseNextKey_ok c it e hp
  unfold BlockIter.next
  simp only [hpk, Option.map_some]
  exact ⟨it', rfl, hs, hinv⟩

theorem BlockIter.last_ok (c : BlockCmp) (it : BlockIter) (h : it.Inv c) :
    ∃ it', it.last c = some it' ∧ it.Same it' ∧ it'.Inv c := by
  have hb := h.1
  obtain ⟨it1, e, h1, hs1, hp1⟩ := it.seekToRestartPoint_ok hb (it.numRestarts - 1)
    (by have := hb.2; omega)
  have hr := hs1.2.1
  obtain ⟨it', g1, g2, g3⟩ := BlockIter.skipUntil_ok c it.restarts (it.restarts + 1) it1 e hp1
    (by omega)
  unfold BlockIter.last
  simp only [h1]
  exact ⟨it', g1, hs1.trans g2, g3⟩

theorem BlockIter.prev_ok (c : BlockCmp) (it : BlockIter) (h : it.Inv c) (hv : it.valid = true) :
    ∃ it', it.prev c = some it' ∧ it.Same it' ∧ it'.Inv c := by
  have hb := h.1
  have hri := (h.2.1 hv).1
  unfold BlockIter.prev
  rcases it.prevScan_ok hb it.current (it.restartIndex + 1) it.restartIndex (by omega) hri with
    hps | ⟨r, hps, hr⟩
  · simp only [hps]
    exact ⟨_, rfl, (BlockIter.markInvalid_ok c it h).1, (BlockIter.markInvalid_ok c it h).2⟩
  · obtain ⟨it1, e, h1, hs1, hp1⟩ := it.seekToRestartPoint_ok hb r hr
    have hrs := hs1.2.1
    obtain ⟨it', g1, g2, g3⟩ := BlockIter.skipUntil_ok c it.current (it.restarts + 1) it1 e hp1
      (by omega)
    simp only [hps, h1]
    exact ⟨it', g1, hs1.trans g2, g3⟩

theorem BlockIter.seek_ok (c : BlockCmp) (t : Bytes) (it : BlockIter) (hinv : it.Inv c) :
    ∃ it', it.seek c t = some it' ∧ it.Same it' ∧ it'.Inv c ∧
      ((c.internal && decide (t.length < 8)) = true → it'.valid = false) := by
  have hb := hinv.1
  obtain ⟨hc1, hc2, hc3⟩ := BlockIter.corruption_ok c it hb
  unfold BlockIter.seek
  split
  · exact ⟨_, rfl, hc1, hc2, fun _ => hc3⟩
  · rename_i hshort
    have ht : c.internal = true → 8 ≤ t.length := by
      intro hc
      simp only [hc, Bool.true_and, decide_eq_true_eq] at hshort
      omega
    dsimp only
    split
    · -- the hint comparison cannot fault
      rename_i heq
      exfalso
      split at heq
      · rename_i hv
        obtain ⟨o, ho⟩ := c.compare_ok it.key t (hinv.2.1 hv).2.2 ht
        rw [ho] at heq
        cases o <;> cases heq
      · cases heq
    · exact ⟨it, rfl, BlockIter.Same.refl it, hinv, fun hh => absurd hh hshort⟩
    · rename_i left right ckc heq
      have hfacts : left < it.numRestarts ∧ right < it.numRestarts ∧
          (ckc = .lt → it.valid = true) := by
        have hn := hb.2
        split at heq
        · rename_i hv
          have hri := (hinv.2.1 hv).1
          split at heq
          · cases heq
          · simp only [Option.some.injEq, Prod.mk.injEq] at heq
            obtain ⟨rfl, rfl, rfl⟩ := heq
            exact ⟨hri, by omega, fun _ => hv⟩
          · simp only [Option.some.injEq, Prod.mk.injEq] at heq
            obtain ⟨rfl, rfl, rfl⟩ := heq
            exact ⟨hn, hri, fun _ => hv⟩
          · cases heq
        · simp only [Option.some.injEq, Prod.mk.injEq] at heq
          obtain ⟨rfl, rfl, rfl⟩ := heq
          exact ⟨hn, by omega, fun hh => by cases hh⟩
      obtain ⟨hl, hr, hck⟩ := hfacts
      rcases BlockIter.seekBin_ok c t it hb ht (right - left + 1) left right (by omega) hl hr with
        hbin | ⟨l, hbin, hl'⟩
      · simp only [hbin]
        exact ⟨_, rfl, hc1, hc2, fun _ => hc3⟩
      · simp only [hbin]
        have hstart : ∀ it1, (if (l == it.restartIndex && ckc == Ordering.lt) = true then some it
            else it.seekToRestartPoint l) = some it1 → ∃ e, it1.Pre e ∧ it.Same it1 := by
          intro it1 h1
          split at h1
          · rename_i hskip
            simp only [Bool.and_eq_true, beq_iff_eq] at hskip
            cases h1
            obtain ⟨e, hp⟩ := BlockIter.pre_of_inv hinv (hck hskip.2)
            exact ⟨e, hp, BlockIter.Same.refl _⟩
          · obtain ⟨it2, e, g1, g2, g3⟩ := it.seekToRestartPoint_ok hb l hl'
            rw [g1] at h1
            cases h1
            exact ⟨e, g3, g2⟩
        split
        · rename_i h1
          exfalso
          split at h1
          · cases h1
          · obtain ⟨it2, e, g1, _, _⟩ := it.seekToRestartPoint_ok hb l hl'
            rw [g1] at h1
            cases h1
        · rename_i it1 h1
          obtain ⟨e, hp, hs1⟩ := hstart it1 h1
          have hrs := hs1.2.1
          obtain ⟨it', g1, g2, g3⟩ := BlockIter.seekLinear_ok c t ht (it.restarts + 1) it1 e hp
            (by omega)
          exact ⟨it', g1, hs1.trans g2, g3, fun hh => absurd hh hshort⟩

/-! ### 7. the iterator behind the generic interface -/

/-- the new state satisfies the invariant and a corrupt status has been kept -/
def TIter.Good (c : BlockCmp) (t t' : TIter) : Prop :=
  t'.Inv c ∧ (t.status = .corrupt → t'.status = .corrupt)

theorem TIter.Good.refl {c : BlockCmp} {t : TIter} (h : t.Inv c) : TIter.Good c t t := ⟨h, id⟩

theorem TIter.Good.trans {c : BlockCmp} {a b d : TIter} (h1 : TIter.Good c a b)
    (h2 : TIter.Good c b d) : TIter.Good c a d := ⟨h2.1, fun h => h2.2 (h1.2 h)⟩

theorem TIter.lift_ok (c : BlockCmp) (f : BlockIter → Option BlockIter) (t : TIter)
    (hf : ∀ it, t = .block it → ∃ it', f it = some it' ∧ it.Same it' ∧ it'.Inv c) :
    ∃ t', TIter.lift f t = some t' ∧ TIter.Good c t t' ∧
      ∀ it, t = .block it → ∃ it', t' = .block it' ∧ f it = some it' := by
  cases t with
  | empty s =>
    exact ⟨.empty s, rfl, ⟨trivial, id⟩, fun it h => by cases h⟩
  | block it =>
    obtain ⟨it', h1, h2, h3⟩ := hf it rfl
    refine ⟨.block it', ?_, ⟨h3, h2.2.2.2⟩, ?_⟩
    · simp only [TIter.lift, h1, Option.map_some]
    · intro it0 h0
      cases h0
      exact ⟨it', rfl, h1⟩

theorem TIter.first_ok (c : BlockCmp) (t : TIter) (h : t.Inv c) :
    ∃ t', TIter.first c t = some t' ∧ TIter.Good c t t' := by
  obtain ⟨t', h1, h2, _⟩ := TIter.lift_ok c (BlockIter.first c) t
    (fun it hit => by subst hit; exact BlockIter.first_ok c it h)
  exact ⟨t', h1, h2⟩

theorem TIter.last_ok (c : BlockCmp) (t : TIter) (h : t.Inv c) :
    ∃ t', TIter.last c t = some t' ∧ TIter.Good c t t' := by
  obtain ⟨t', h1, h2, _⟩ := TIter.lift_ok c (BlockIter.last c) t
    (fun it hit => by subst hit; exact BlockIter.last_ok c it h)
  exact ⟨t', h1, h2⟩

theorem TIter.next_ok (c : BlockCmp) (t : TIter) (h : t.Inv c) (hv : t.valid = true) :
    ∃ t', TIter.next c t = some t' ∧ TIter.Good c t t' := by
  obtain ⟨t', h1, h2, _⟩ := TIter.lift_ok c (BlockIter.next c) t
    (fun it hit => by subst hit; exact BlockIter.next_ok c it h hv)
  exact ⟨t', h1, h2⟩

theorem TIter.prev_ok (c : BlockCmp) (t : TIter) (h : t.Inv c) (hv : t.valid = true) :
    ∃ t', TIter.prev c t = some t' ∧ TIter.Good c t t' := by
  obtain ⟨t', h1, h2, _⟩ := TIter.lift_ok c (BlockIter.prev c) t
    (fun it hit => by subst hit; exact BlockIter.prev_ok c it h hv)
  exact ⟨t', h1, h2⟩

theorem TIter.seek_ok (c : BlockCmp) (tg : Bytes) (t : TIter) (h : t.Inv c) :
    ∃ t', TIter.seek c tg t = some t' ∧ TIter.Good c t t' ∧
      (t'.valid = true → c.internal = true → 8 ≤ tg.length) := by
  cases t with
  | empty s =>
    exact ⟨.empty s, rfl, ⟨trivial, id⟩, fun hv => by cases hv⟩
  | block it =>
    obtain ⟨it', h1, h2, h3, h4⟩ := BlockIter.seek_ok c tg it h
    refine ⟨.block it', ?_, ⟨h3, h2.2.2.2⟩, ?_⟩
    · simp only [TIter.seek, TIter.lift, h1, Option.map_some]
    · intro hv hc
      cases hlen : decide (tg.length < 8) with
      | false => simp only [decide_eq_false_iff_not] at hlen; omega
      | true =>
        have := h4 (by rw [hc, hlen]; rfl)
        rw [show (TIter.block it').valid = it'.valid from rfl] at hv
        rw [this] at hv
        cases hv

theorem TIter.key_len (c : BlockCmp) (t : TIter) (h : t.Inv c) (hv : t.valid = true) :
    c.internal = true → 8 ≤ t.key.length := by
  cases t with
  | empty s => cases hv
  | block it => exact (h.2.1 hv).2.2

/-- every single operation succeeds, keeps the invariant and keeps a corrupt status -/
theorem blockIter_apply_good (c : BlockCmp) (op : BlockOp) (it : TIter) (h : it.Inv c) :
    ∃ it', (blockIterOps c).apply op it = some it' ∧ TIter.Good c it it' := by
  cases op with
  | first => exact TIter.first_ok c it h
  | last => exact TIter.last_ok c it h
  | next =>
    dsimp only [IterOps.apply, blockIterOps]
    by_cases hv : it.valid = true
    · rw [if_pos hv]; exact TIter.next_ok c it h hv
    · rw [if_neg hv]; exact ⟨it, rfl, TIter.Good.refl h⟩
  | prev =>
    dsimp only [IterOps.apply, blockIterOps]
    by_cases hv : it.valid = true
    · rw [if_pos hv]; exact TIter.prev_ok c it h hv
    · rw [if_neg hv]; exact ⟨it, rfl, TIter.Good.refl h⟩
  | seek t =>
    obtain ⟨t', h1, h2, _⟩ := TIter.seek_ok c t it h
    exact ⟨t', h1, h2⟩
  | seekGE t =>
    obtain ⟨t', h1, h2, _⟩ := TIter.seek_ok c t it h
    exact ⟨t', h1, h2⟩
  | seekGT t =>
    obtain ⟨s1, h1, h2, h3⟩ := TIter.seek_ok c t it h
    dsimp only [IterOps.apply, IterOps.seekGT, blockIterOps]
    simp only [h1]
    by_cases hv : s1.valid = true
    · rw [if_pos hv]
      obtain ⟨o, ho⟩ := c.compare_ok s1.key t (TIter.key_len c s1 h2.1 hv) (h3 hv)
      cases o <;> simp only [ho]
      · exact ⟨s1, rfl, h2⟩
      · obtain ⟨t', g1, g2⟩ := TIter.next_ok c s1 h2.1 hv
        exact ⟨t', g1, h2.trans g2⟩
      · exact ⟨s1, rfl, h2⟩
    · rw [if_neg hv]; exact ⟨s1, rfl, h2⟩
  | seekLE t =>
    obtain ⟨s1, h1, h2, h3⟩ := TIter.seek_ok c t it h
    dsimp only [IterOps.apply, IterOps.seekLE, blockIterOps]
    simp only [h1]
    by_cases hv : s1.valid = true
    · rw [if_pos hv]
      obtain ⟨o, ho⟩ := c.compare_ok s1.key t (TIter.key_len c s1 h2.1 hv) (h3 hv)
      cases o <;> simp only [ho]
      · exact ⟨s1, rfl, h2⟩
      · exact ⟨s1, rfl, h2⟩
      · obtain ⟨t', g1, g2⟩ := TIter.prev_ok c s1 h2.1 hv
        exact ⟨t', g1, h2.trans g2⟩
    · rw [if_neg hv]
      obtain ⟨t', g1, g2⟩ := TIter.last_ok c s1 h2.1
      exact ⟨t', g1, h2.trans g2⟩
  | seekLT t =>
    obtain ⟨s1, h1, h2, _⟩ := TIter.seek_ok c t it h
    dsimp only [IterOps.apply, IterOps.seekLT, blockIterOps]
    simp only [h1]
    by_cases hv : s1.valid = true
    · rw [if_pos hv]
      obtain ⟨t', g1, g2⟩ := TIter.prev_ok c s1 h2.1 hv
      exact ⟨t', g1, h2.trans g2⟩
    · rw [if_neg hv]
      obtain ⟨t', g1, g2⟩ := TIter.last_ok c s1 h2.1
      exact ⟨t', g1, h2.trans g2⟩

/-! ### the theorems -/

theorem blockIterCreate_inv (c : BlockCmp) (data : Bytes) : (blockIterCreate data).Inv c := by
  unfold blockIterCreate
  split
  · trivial
  · rename_i ro hro
    dsimp only
    split
    · trivial
    · rename_i hn
      unfold blockInit at hro
      split at hro
      · cases hro
      · rename_i hlen
        dsimp only at hro
        split at hro
        · cases hro
        · rename_i hle
          simp only [Option.some.injEq] at hro
          refine ⟨⟨?_, ?_⟩, ?_, ?_⟩
          · show ro + 4 * blockNumRestarts data + 4 ≤ data.length
            generalize blockNumRestarts data = n at *
            omega
          · show 0 < blockNumRestarts data
            omega
          · intro hv
            simp [BlockIter.valid] at hv
          · intro o n hv
            cases hv

/-- no single operation faults, and the invariant is kept -/
theorem blockIter_total (c : BlockCmp) (op : BlockOp) (it : TIter) (h : it.Inv c) :
    ∃ it', (blockIterOps c).apply op it = some it' ∧ it'.Inv c := by
  obtain ⟨it', h1, h2⟩ := blockIter_apply_good c op it h
  exact ⟨it', h1, h2.1⟩

/-- a corrupt status is never reset -/
theorem status_sticky (c : BlockCmp) (op : BlockOp) (it it' : TIter) (h : it.Inv c)
    (hs : it.status = .corrupt) (ha : (blockIterOps c).apply op it = some it') :
    it'.status = .corrupt := by
  obtain ⟨it'', h1, h2⟩ := blockIter_apply_good c op it h
  rw [h1] at ha
  cases ha
  exact h2.2 hs

theorem blockIter_run_good (c : BlockCmp) (ops : List BlockOp) :
    ∀ it : TIter, it.Inv c → ∃ it', (blockIterOps c).run ops it = some it' ∧ TIter.Good c it it' := by
  induction ops with
  | nil => intro it h; exact ⟨it, rfl, TIter.Good.refl h⟩
  | cons op ops ih =>
    intro it h
    obtain ⟨it1, h1, h2⟩ := blockIter_apply_good c op it h
    obtain ⟨it2, g1, g2⟩ := ih it1 h2.1
    refine ⟨it2, ?_, h2.trans g2⟩
    simp only [IterOps.run, h1, g1]

/-- on arbitrary bytes no sequence of iterator operations ever faults -/
theorem block_no_fault (c : BlockCmp) (data : Bytes) (ops : List BlockOp) :
    ∃ it, (blockIterOps c).run ops (blockIterCreate data) = some it ∧ it.Inv c := by
  obtain ⟨it, h1, h2⟩ := blockIter_run_good c ops _ (blockIterCreate_inv c data)
  exact ⟨it, h1, h2.1⟩

/-- a corrupt status survives any sequence of operations -/
theorem status_sticky_run (c : BlockCmp) (ops : List BlockOp) (it it' : TIter) (h : it.Inv c)
    (hs : it.status = .corrupt) (ha : (blockIterOps c).run ops it = some it') :
    it'.status = .corrupt := by
  obtain ⟨it'', h1, h2⟩ := blockIter_run_good c ops it h
  rw [h1] at ha
  cases ha
  exact h2.2 hs

end Lcdb
