/-
  Helper lemmas for Model/Skiplist.lean, part 7: `find_lt`, `find_last` and the iterator operations in terms of
  the ordered list of nodes.
-/
import LcdbModel.Lemmas.SkiplistChain
namespace Lcdb.Skiplist
variable {α : Type}

theorem find?_pos_eq_head? {cmp : α → α → Ordering} {sl : SkipList α} {L : List Nat} (h : Inv cmp sl L) (l : List Nat)
    (hl : ∀ y ∈ l, y ∈ L) : l.find? (fun y => decide (0 < heightOf sl y)) = l.head? := by
  cases l with
  | nil => rfl
  | cons a t =>
    have := (h.heights a (hl a (by simp))).1
    have hd : decide (0 < heightOf sl a) = true := decide_eq_true (by omega)
    simp only [List.find?_cons, hd, List.head?_cons]

/-- `prev[0]` is the last node of `0 :: A` -/
theorem PrevOk.level0 {cmp : α → α → Ordering} {sl : SkipList α} {L A : List Nat} (h : Inv cmp sl L) (hA : ∀ y ∈ A, y ∈ L)
    {p : Nat} (hp : PrevOk sl A 0 p) : (0 :: A).getLast? = some p := by
  obtain ⟨A1, A2, hs, _, hA2⟩ := hp
  cases A2 with
  | nil => rw [hs]; simp
  | cons a t =>
    exfalso
    have ha : a ∈ 0 :: A := by rw [hs]; simp
    have h0 := hA2 a (by simp)
    rcases List.mem_cons.mp ha with rfl | ha
    · rw [h.headHeight] at h0; simp [kMaxHeight] at h0
    · have := (h.heights a (hA a ha)).1; omega

theorem findLT_spec0 {cmp : α → α → Ordering} {sl : SkipList α} {L : List Nat} (h : Inv cmp sl L) (k : α)
    (A B : List Nat) (hL : L = A ++ B)
    (hA : ∀ a ∈ A, afterKey cmp sl k a = some true) (hB : ∀ b ∈ B, afterKey cmp sl k b = some false) :
    ∃ p, findLT cmp sl k = some p ∧ (0 :: A).getLast? = some p := by
  obtain ⟨prev, hrun, _, hlow, _⟩ := search_top h (afterKey cmp sl k) A B hL hA hB
  obtain ⟨p, hp1, hp2⟩ := hlow 0 (by have := h.mhRange; omega)
  refine ⟨p, ?_, hp2.level0 h (fun y hy => by rw [hL]; simp [hy])⟩
  unfold findLT
  rw [if_neg (by have := h.mhRange; omega),
    findLTGo_eq cmp sl k _ 0 _ (List.replicate kMaxHeight none) (by have := h.mhRange; simp; omega)]
  unfold afterKey at hrun
  rw [hrun]
  simp [hp1]

theorem findLast_spec0 {cmp : α → α → Ordering} {sl : SkipList α} {L : List Nat} (h : Inv cmp sl L) :
    ∃ p, findLast sl = some p ∧ (0 :: L).getLast? = some p := by
  obtain ⟨prev, hrun, _, hlow, _⟩ := search_top h (fun _ => some true) L [] (by simp) (fun _ _ => rfl) (by simp)
  obtain ⟨p, hp1, hp2⟩ := hlow 0 (by have := h.mhRange; omega)
  refine ⟨p, ?_, hp2.level0 h (fun y hy => hy)⟩
  unfold findLast
  rw [if_neg (by have := h.mhRange; omega),
    findLastGo_eq sl _ 0 _ (List.replicate kMaxHeight none) (by have := h.mhRange; simp; omega), hrun]
  simp [hp1]

/-! ### iterator operations -/

theorem iterFirst_spec {cmp : α → α → Ordering} {sl : SkipList α} {L : List Nat} (h : Inv cmp sl L) :
    iterFirst sl = some L.head? := by
  unfold iterFirst
  rw [h.next [] 0 L rfl 0 (by rw [h.headHeight]; decide), find?_pos_eq_head? h L (fun _ hy => hy)]

theorem iterNext_spec {cmp : α → α → Ordering} {sl : SkipList α} {L : List Nat} (h : Inv cmp sl L) (i : Nat) (hi : i < L.length) :
    iterNext sl (some L[i]) = some L[i + 1]? := by
  have hsplit : 0 :: L = (0 :: L.take i) ++ L[i] :: L.drop (i + 1) := by
    rw [List.cons_append, ← List.drop_eq_getElem_cons hi, List.take_append_drop]
  have hmem : L[i] ∈ L := List.getElem_mem hi
  simp only [iterNext]
  rw [h.next _ _ _ hsplit 0 (by have := (h.heights _ hmem).1; omega),
    find?_pos_eq_head? h _ (fun y hy => List.mem_of_mem_drop hy), List.head?_drop]

theorem iterLast_spec {cmp : α → α → Ordering} {sl : SkipList α} {L : List Nat} (h : Inv cmp sl L) :
    iterLast sl = some L.getLast? := by
  obtain ⟨p, hp1, hp2⟩ := findLast_spec0 h
  unfold iterLast
  rw [hp1]
  simp only [Option.map_some]
  cases L with
  | nil => simp at hp2; simp [← hp2]
  | cons a t =>
    rw [List.getLast?_cons_cons] at hp2
    rw [hp2]
    have : p ∈ a :: t := List.mem_of_getLast? hp2
    have := (h.mem_iff p).mp this
    rw [if_neg (by omega)]

theorem iterSeek_spec {cmp : α → α → Ordering} {sl : SkipList α} {L : List Nat} (h : Inv cmp sl L) (k : α)
    (A B : List Nat) (hL : L = A ++ B)
    (hA : ∀ a ∈ A, afterKey cmp sl k a = some true) (hB : ∀ b ∈ B, afterKey cmp sl k b = some false) :
    iterSeek cmp sl k = some B.head? := by
  obtain ⟨prev, hrun, _⟩ := findGE_spec0 h k A B hL hA hB
  simp [iterSeek, hrun]

theorem iterPrev_spec {cmp : α → α → Ordering} {sl : SkipList α} {L : List Nat} (hc : CmpOk cmp) (h : Inv cmp sl L)
    (i : Nat) (hi : i < L.length) :
    iterPrev cmp sl (some L[i]) = some (if i = 0 then none else L[i - 1]?) := by
  have hmem : L[i] ∈ L := List.getElem_mem hi
  obtain ⟨ki, hki⟩ := h.hasKey _ hmem
  have hsplit : L = L.take i ++ L.drop i := (List.take_append_drop i L).symm
  have hsorted := h.sorted
  rw [hsplit, List.pairwise_append] at hsorted
  have hdrop : L.drop i = L[i] :: L.drop (i + 1) := List.drop_eq_getElem_cons hi
  have hA : ∀ a ∈ L.take i, afterKey cmp sl ki a = some true := by
    intro a ha
    obtain ⟨ka, kb, h1, h2, h3⟩ := hsorted.2.2 a ha L[i] (by rw [hdrop]; exact List.mem_cons_self)
    rw [hki] at h2; cases h2
    simp [afterKey, h1, h3]
  have hB : ∀ b ∈ L.drop i, afterKey cmp sl ki b = some false := by
    intro b hb
    rw [hdrop] at hb
    rcases List.mem_cons.mp hb with rfl | hb
    · simp [afterKey, hki, hc.refl]
    · have hs2 := hsorted.2.1
      rw [hdrop, List.pairwise_cons] at hs2
      obtain ⟨ka, kb, h1, h2, h3⟩ := hs2.1 b hb
      rw [hki] at h1; cases h1
      have : cmp kb ki = .gt := by rw [hc.swap ki kb, h3]; rfl
      simp [afterKey, h2, this]
  obtain ⟨p, hp1, hp2⟩ := findLT_spec0 h ki _ _ hsplit hA hB
  simp only [iterPrev, hki, hp1, Option.map_some]
  by_cases hi0 : i = 0
  · subst hi0
    simp at hp2
    simp [← hp2]
  · rw [if_neg hi0]
    have hne : L.take i ≠ [] := by
      intro e
      have h1 : (L.take i).length = 0 := by rw [e]; rfl
      rw [List.length_take] at h1; omega
    rw [List.getLast?_cons, List.getLast?_eq_some_getLast hne] at hp2
    simp at hp2
    have hpm : p ∈ L := by
      rw [← hp2]; exact List.mem_of_mem_take (List.getLast_mem hne)
    have := (h.mem_iff p).mp hpm
    rw [if_neg (by omega)]
    congr 1
    rw [← hp2, List.getLast_eq_getElem]
    simp only [List.length_take, List.getElem_take]
    have : min i L.length - 1 = i - 1 := by omega
    simp only [this]
    rw [List.getElem?_eq_getElem (by omega)]

end Lcdb.Skiplist
