/-
  Shared definitions for the iterator-stack theorems (C07): simulation between two internal
  iterators behind `InternalIter`, and the sorted union of several runs.
  (Definitions only; lemmas are in Lemmas/MergeIter.lean, Lemmas/DbIterImpl.lean.)
-/
import LcdbModel.Model.MergeIter
import LcdbModel.Model.DbIterImpl
namespace Lcdb

/-- `I₁` (states `σ`) simulates `I₂` (states `τ`) through `R`: related states show the same
    validity / entry / status, every positioning operation succeeds on both sides and leads to
    related states (`next`/`prev` from valid states only: the C code requires validity) -/
structure InternalIter.Sim {σ τ : Type} (I₁ : InternalIter σ) (I₂ : InternalIter τ)
    (R : σ → τ → Prop) : Prop where
  valid : ∀ a b, R a b → I₁.valid a = I₂.valid b
  entry : ∀ a b, R a b → I₁.entry a = I₂.entry b
  status : ∀ a b, R a b → I₁.status a = I₂.status b
  first : ∀ a b, R a b → ∃ a' b', I₁.first a = some a' ∧ I₂.first b = some b' ∧ R a' b'
  last : ∀ a b, R a b → ∃ a' b', I₁.last a = some a' ∧ I₂.last b = some b' ∧ R a' b'
  seek : ∀ k pk a b, R a b → ∃ a' b', I₁.seek k pk a = some a' ∧ I₂.seek k pk b = some b' ∧ R a' b'
  next : ∀ a b, R a b → I₁.valid a = true →
    ∃ a' b', I₁.next a = some a' ∧ I₂.next b = some b' ∧ R a' b'
  prev : ∀ a b, R a b → I₁.valid a = true →
    ∃ a' b', I₁.prev a = some a' ∧ I₂.prev b = some b' ∧ R a' b'

/-- the operations a caller can apply to an internal iterator -/
inductive InternalOp where
  | first | last | next | prev
  | seek (k : Bytes) (pk : Nat)
  deriving Repr, DecidableEq

/-- `next`/`prev` require a valid iterator (assert-only in C): on an invalid one they are not issued -/
def InternalIter.apply {σ : Type} (I : InternalIter σ) : InternalOp → σ → Option σ
  | .first, a => I.first a
  | .last, a => I.last a
  | .next, a => if I.valid a then I.next a else some a
  | .prev, a => if I.valid a then I.prev a else some a
  | .seek k pk, a => I.seek k pk a

def InternalIter.run {σ : Type} (I : InternalIter σ) : List InternalOp → σ → Option σ
  | [], a => some a
  | op :: ops, a =>
    match I.apply op a with
    | none => none
    | some a' => I.run ops a'

/-- the sorted union of several runs (`merge runs`): all entries inserted into one run -/
def mergedRun (c : Cmp) (runs : List Run) : Run := mkRun c runs.flatten

/-- no internal key occurs twice among the entries of all runs -/
def DistinctKeys (c : Cmp) (runs : List Run) : Prop :=
  runs.flatten.Pairwise (fun a b => entryCmp c a b ≠ .eq)

end Lcdb
