/-
  Partial alteration of a table file (C11), part B: two-level iterators over two block readers
  that agree wherever neither reports an error (`RdAgree`) run in lockstep until one of them
  reports an error (`TwoIter.Div`): parametric in the comparator, the readers and the fuel.
-/
import LcdbModel.Lemmas.TableSafety
namespace Lcdb

/-- the two readers return the same iterator, or one of them reports an error -/
def RdAgree (rd' rd : Bytes → Option DataIter) : Prop :=
  ∀ hv, rd' hv = rd hv ∨ (∃ s, s ≠ .ok ∧ rd' hv = some (.failed s)) ∨
    (∃ s, s ≠ .ok ∧ rd hv = some (.failed s))

/-- lockstep until divergence: one of the two iterators reports an error, or they are equal -/
def TwoIter.Div (it' it : TwoIter) : Prop := it'.Flagged ∨ it.Flagged ∨ it' = it

theorem TwoIter.Div.rfl' (it : TwoIter) : TwoIter.Div it it := Or.inr (Or.inr rfl)

/-- one step on both sides: errors are kept, and from equal states the step stays in lockstep -/
theorem TwoIter.Div.step {c : BlockCmp} {a' a b' b : TwoIter} (h : TwoIter.Div a' a)
    (g' : TwoIter.Good c a' b') (g : TwoIter.Good c a b) (heq : a' = a → TwoIter.Div b' b) :
    TwoIter.Div b' b := by
  rcases h with h | h | h
  · exact Or.inl (g'.2.2.2 h)
  · exact Or.inr (Or.inl (g.2.2.2 h))
  · exact heq h

section
variable {c : BlockCmp} {rd' rd : Bytes → Option DataIter}

/-! ### primitives -/

theorem TwoIter.initDataBlock_div (hag : RdAgree rd' rd) (s r' r : TwoIter)
    (h' : TwoIter.initDataBlock rd' s = some r') (h : TwoIter.initDataBlock rd s = some r) :
    TwoIter.Div r' r := by
  unfold TwoIter.initDataBlock at h' h
  by_cases hv : (!s.index.valid) = true
  · rw [if_pos hv] at h' h
    cases h'; cases h
    exact TwoIter.Div.rfl' _
  · rw [if_neg hv] at h' h
    dsimp only at h' h
    by_cases hh : (s.data.isSome && s.index.value == s.handle) = true
    · rw [if_pos hh] at h' h
      cases h'; cases h
      exact TwoIter.Div.rfl' _
    · rw [if_neg hh] at h' h
      rcases hag s.index.value with e | ⟨st, hst, e⟩ | ⟨st, hst, e⟩
      · rw [e] at h'
        rw [h'] at h
        cases h
        exact TwoIter.Div.rfl' _
      · rw [e] at h'
        cases h'
        exact Or.inl (TwoIter.setDataIter_failed_flagged _ st hst)
      · rw [e] at h
        cases h
        exact Or.inr (Or.inl (TwoIter.setDataIter_failed_flagged _ st hst))

theorem TwoIter.onData_div (f : TIter → Option TIter) (a' a r' r : TwoIter)
    (ha' : a'.Inv c) (ha : a.Inv c) (hf' : a'.DataFn c f) (hf : a.DataFn c f)
    (hd : TwoIter.Div a' a) (h' : a'.onData f = some r') (h : a.onData f = some r) :
    TwoIter.Div r' r :=
  hd.step (TwoIter.onData_good a' r' f hf' ha' h').1 (TwoIter.onData_good a r f hf ha h).1
    (fun e => by
      subst e
      rw [h'] at h
      cases h
      exact TwoIter.Div.rfl' _)

/-- the common part of seek / first / last / the skip loops from ONE state: move the index
    iterator, open the data block with either reader, move the data iterator -/
theorem TwoIter.prefix_div (hrd' : RdInv c rd') (hrd : RdInv c rd) (hrt' : RdTotal rd')
    (hrt : RdTotal rd) (hag : RdAgree rd' rd) (a : TwoIter) (ix : TIter)
    (f : TIter → Option TIter) (ha : a.Inv c) (hstep : TIter.Step c a.index ix)
    (hf : ∀ it1 : TwoIter, it1.DataFn c f) :
    ∃ it1' it2' it1 it2,
      TwoIter.initDataBlock rd' { a with index := ix } = some it1' ∧ it1'.onData f = some it2' ∧
      TwoIter.initDataBlock rd { a with index := ix } = some it1 ∧ it1.onData f = some it2 ∧
      it2'.Inv c ∧ it2.Inv c ∧ TwoIter.Div it2' it2 := by
  have g0 := TwoIter.setIndex_good a ix ha hstep
  obtain ⟨it1', it2', e1', e2', g', _, _⟩ := TwoIter.prefix_ok hrd' hrt' a ix f ha hstep hf
  obtain ⟨it1, it2, e1, e2, g, _, _⟩ := TwoIter.prefix_ok hrd hrt a ix f ha hstep hf
  have d1 := TwoIter.initDataBlock_div hag _ it1' it1 e1' e1
  have i1' := TwoIter.initDataBlock_inv hrd' _ it1' g0.1 e1'
  have i1 := TwoIter.initDataBlock_inv hrd _ it1 g0.1 e1
  have d2 := TwoIter.onData_div f it1' it1 it2' it2 i1' i1 (hf it1') (hf it1) d1 e2' e2
  exact ⟨it1', it2', it1, it2, e1', e2', e1, e2, g'.1, g.1, d2⟩

/-! ### the skip loops -/

theorem TwoIter.skipForward_div (hrd' : RdInv c rd') (hrd : RdInv c rd) (hrt' : RdTotal rd')
    (hrt : RdTotal rd) (hag : RdAgree rd' rd) :
    ∀ fuel (a' a r' r : TwoIter), a'.Inv c → a.Inv c → TwoIter.Div a' a →
      TwoIter.skipForward c rd' fuel a' = some r' → TwoIter.skipForward c rd fuel a = some r →
      TwoIter.Div r' r := by
  intro fuel
  induction fuel with
  | zero => intro a' a r' r _ _ _ h' _; cases h'
  | succ fuel ih =>
    intro a' a r' r ha' ha hd h' h
    refine hd.step (TwoIter.skipForward_good hrd' _ a' r' ha' h')
      (TwoIter.skipForward_good hrd _ a r ha h) (fun e => ?_)
    subst e
    rw [TwoIter.skipForward] at h' h
    by_cases h1 : (a'.data.isNone || !a'.dataValid) = true
    · rw [if_pos h1] at h' h
      by_cases h2 : (!a'.index.valid) = true
      · rw [if_pos h2] at h' h
        cases h'; cases h
        exact TwoIter.Div.rfl' _
      · rw [if_neg h2] at h' h
        have hv : a'.index.valid = true := by
          cases hh : a'.index.valid with
          | true => rfl
          | false => rw [hh] at h2; exact absurd rfl h2
        obtain ⟨ix, hn, hstep, _⟩ := TIter.next_step c a'.index ha.1 hv
        obtain ⟨it1', it2', it1, it2, e1', e2', e1, e2, i2', i2, d2⟩ :=
          TwoIter.prefix_div hrd' hrd hrt' hrt hag a' ix (TIter.first c) ha hstep
            (fun it1 => TwoIter.dataFn_first c it1)
        rw [hn] at h' h
        dsimp only at h' h
        rw [e1'] at h'
        rw [e1] at h
        dsimp only at h' h
        rw [e2'] at h'
        rw [e2] at h
        exact ih it2' it2 r' r i2' i2 d2 h' h
    · rw [if_neg h1] at h' h
      cases h'; cases h
      exact TwoIter.Div.rfl' _

theorem TwoIter.skipBackward_div (hrd' : RdInv c rd') (hrd : RdInv c rd) (hrt' : RdTotal rd')
    (hrt : RdTotal rd) (hag : RdAgree rd' rd) :
    ∀ fuel (a' a r' r : TwoIter), a'.Inv c → a.Inv c → TwoIter.Div a' a →
      TwoIter.skipBackward c rd' fuel a' = some r' → TwoIter.skipBackward c rd fuel a = some r →
      TwoIter.Div r' r := by
  intro fuel
  induction fuel with
  | zero => intro a' a r' r _ _ _ h' _; cases h'
  | succ fuel ih =>
    intro a' a r' r ha' ha hd h' h
    refine hd.step (TwoIter.skipBackward_good hrd' _ a' r' ha' h')
      (TwoIter.skipBackward_good hrd _ a r ha h) (fun e => ?_)
    subst e
    rw [TwoIter.skipBackward] at h' h
    by_cases h1 : (a'.data.isNone || !a'.dataValid) = true
    · rw [if_pos h1] at h' h
      by_cases h2 : (!a'.index.valid) = true
      · rw [if_pos h2] at h' h
        cases h'; cases h
        exact TwoIter.Div.rfl' _
      · rw [if_neg h2] at h' h
        have hv : a'.index.valid = true := by
          cases hh : a'.index.valid with
          | true => rfl
          | false => rw [hh] at h2; exact absurd rfl h2
        obtain ⟨ix, hn, hstep, _⟩ := TIter.prev_step c a'.index ha.1 hv
        obtain ⟨it1', it2', it1, it2, e1', e2', e1, e2, i2', i2, d2⟩ :=
          TwoIter.prefix_div hrd' hrd hrt' hrt hag a' ix (TIter.last c) ha hstep
            (fun it1 => TwoIter.dataFn_last c it1)
        rw [hn] at h' h
        dsimp only at h' h
        rw [e1'] at h'
        rw [e1] at h
        dsimp only at h' h
        rw [e2'] at h'
        rw [e2] at h
        exact ih it2' it2 r' r i2' i2 d2 h' h
    · rw [if_neg h1] at h' h
      cases h'; cases h
      exact TwoIter.Div.rfl' _

/-! ### the operations -/

theorem TwoIter.first_div (hrd' : RdInv c rd') (hrd : RdInv c rd) (hrt' : RdTotal rd')
    (hrt : RdTotal rd) (hag : RdAgree rd' rd) (fuel : Nat) (a' a r' r : TwoIter)
    (ha' : a'.Inv c) (ha : a.Inv c) (hd : TwoIter.Div a' a)
    (h' : TwoIter.first c rd' fuel a' = some r') (h : TwoIter.first c rd fuel a = some r) :
    TwoIter.Div r' r := by
  refine hd.step ((TwoIter.first_nf hrd' hrt' fuel a' ha').good hrd' h')
    ((TwoIter.first_nf hrd hrt fuel a ha).good hrd h) (fun e => ?_)
  subst e
  obtain ⟨ix, hn, hstep⟩ := TIter.first_step c a'.index ha.1
  obtain ⟨it1', it2', it1, it2, e1', e2', e1, e2, i2', i2, d2⟩ :=
    TwoIter.prefix_div hrd' hrd hrt' hrt hag a' ix (TIter.first c) ha hstep
      (fun it1 => TwoIter.dataFn_first c it1)
  unfold TwoIter.first at h' h
  rw [hn] at h' h
  dsimp only at h' h
  rw [e1'] at h'
  rw [e1] at h
  dsimp only at h' h
  rw [e2'] at h'
  rw [e2] at h
  exact TwoIter.skipForward_div hrd' hrd hrt' hrt hag fuel it2' it2 r' r i2' i2 d2 h' h

theorem TwoIter.last_div (hrd' : RdInv c rd') (hrd : RdInv c rd) (hrt' : RdTotal rd')
    (hrt : RdTotal rd) (hag : RdAgree rd' rd) (fuel : Nat) (a' a r' r : TwoIter)
    (ha' : a'.Inv c) (ha : a.Inv c) (hd : TwoIter.Div a' a)
    (h' : TwoIter.last c rd' fuel a' = some r') (h : TwoIter.last c rd fuel a = some r) :
    TwoIter.Div r' r := by
  refine hd.step ((TwoIter.last_nf hrd' hrt' fuel a' ha').good hrd' h')
    ((TwoIter.last_nf hrd hrt fuel a ha).good hrd h) (fun e => ?_)
  subst e
  obtain ⟨ix, hn, hstep⟩ := TIter.last_step c a'.index ha.1
  obtain ⟨it1', it2', it1, it2, e1', e2', e1, e2, i2', i2, d2⟩ :=
    TwoIter.prefix_div hrd' hrd hrt' hrt hag a' ix (TIter.last c) ha hstep
      (fun it1 => TwoIter.dataFn_last c it1)
  unfold TwoIter.last at h' h
  rw [hn] at h' h
  dsimp only at h' h
  rw [e1'] at h'
  rw [e1] at h
  dsimp only at h' h
  rw [e2'] at h'
  rw [e2] at h
  exact TwoIter.skipBackward_div hrd' hrd hrt' hrt hag fuel it2' it2 r' r i2' i2 d2 h' h

theorem TwoIter.seek_div (hrd' : RdInv c rd') (hrd : RdInv c rd) (hrt' : RdTotal rd')
    (hrt : RdTotal rd) (hag : RdAgree rd' rd) (fuel : Nat) (tg : Bytes) (a' a r' r : TwoIter)
    (ha' : a'.Inv c) (ha : a.Inv c) (hd : TwoIter.Div a' a)
    (h' : TwoIter.seek c rd' fuel tg a' = some r') (h : TwoIter.seek c rd fuel tg a = some r) :
    TwoIter.Div r' r := by
  refine hd.step ((TwoIter.seek_nf hrd' hrt' fuel tg a' ha').1.good hrd' h')
    ((TwoIter.seek_nf hrd hrt fuel tg a ha).1.good hrd h) (fun e => ?_)
  subst e
  obtain ⟨ix, hn, hstep, _⟩ := TIter.seek_step c tg a'.index ha.1
  obtain ⟨it1', it2', it1, it2, e1', e2', e1, e2, i2', i2, d2⟩ :=
    TwoIter.prefix_div hrd' hrd hrt' hrt hag a' ix (TIter.seek c tg) ha hstep
      (fun it1 => TwoIter.dataFn_seek c it1 tg)
  unfold TwoIter.seek at h' h
  rw [hn] at h' h
  dsimp only at h' h
  rw [e1'] at h'
  rw [e1] at h
  dsimp only at h' h
  rw [e2'] at h'
  rw [e2] at h
  exact TwoIter.skipForward_div hrd' hrd hrt' hrt hag fuel it2' it2 r' r i2' i2 d2 h' h

theorem TwoIter.next_div (hrd' : RdInv c rd') (hrd : RdInv c rd) (hrt' : RdTotal rd')
    (hrt : RdTotal rd) (hag : RdAgree rd' rd) (fuel : Nat) (a' a r' r : TwoIter)
    (ha' : a'.Inv c) (ha : a.Inv c) (hv' : a'.valid = true) (hv : a.valid = true)
    (hd : TwoIter.Div a' a)
    (h' : TwoIter.next c rd' fuel a' = some r') (h : TwoIter.next c rd fuel a = some r) :
    TwoIter.Div r' r := by
  refine hd.step ((TwoIter.next_nf fuel a' ha' hv').good hrd' h')
    ((TwoIter.next_nf fuel a ha hv).good hrd h) (fun e => ?_)
  subst e
  obtain ⟨it1, e1⟩ := TwoIter.onData_total a' _ (TwoIter.dataFn_next c a' hv) ha
  have i1 := TwoIter.onData_inv a' it1 _ (TwoIter.dataFn_next c a' hv) ha e1
  unfold TwoIter.next at h' h
  rw [e1] at h' h
  exact TwoIter.skipForward_div hrd' hrd hrt' hrt hag fuel it1 it1 r' r i1 i1
    (TwoIter.Div.rfl' _) h' h

theorem TwoIter.prev_div (hrd' : RdInv c rd') (hrd : RdInv c rd) (hrt' : RdTotal rd')
    (hrt : RdTotal rd) (hag : RdAgree rd' rd) (fuel : Nat) (a' a r' r : TwoIter)
    (ha' : a'.Inv c) (ha : a.Inv c) (hv' : a'.valid = true) (hv : a.valid = true)
    (hd : TwoIter.Div a' a)
    (h' : TwoIter.prev c rd' fuel a' = some r') (h : TwoIter.prev c rd fuel a = some r) :
    TwoIter.Div r' r := by
  refine hd.step ((TwoIter.prev_nf fuel a' ha' hv').good hrd' h')
    ((TwoIter.prev_nf fuel a ha hv).good hrd h) (fun e => ?_)
  subst e
  obtain ⟨it1, e1⟩ := TwoIter.onData_total a' _ (TwoIter.dataFn_prev c a' hv) ha
  have i1 := TwoIter.onData_inv a' it1 _ (TwoIter.dataFn_prev c a' hv) ha e1
  unfold TwoIter.prev at h' h
  rw [e1] at h' h
  exact TwoIter.skipBackward_div hrd' hrd hrt' hrt hag fuel it1 it1 r' r i1 i1
    (TwoIter.Div.rfl' _) h' h

/-! ### `IterOps.apply` -/

/-- what `seekGT / seekLE / seekLT` do after their `seek`: errors are kept -/
theorem twoIter_seekTail_good (hrd : RdInv c rd) (hrt : RdTotal rd) (fuel : Nat) (op : BlockOp)
    (t : Bytes) (hop : op = .seekGT t ∨ op = .seekLE t ∨ op = .seekLT t) (a s1 r : TwoIter)
    (hs1 : s1.Inv c) (hs : TwoIter.seek c rd fuel t a = some s1)
    (h : (twoIterOps c rd fuel).apply op a = some r) : TwoIter.Good c s1 r := by
  rcases hop with rfl | rfl | rfl
  · dsimp only [IterOps.apply, IterOps.seekGT, twoIterOps] at h
    rw [hs] at h
    dsimp only at h
    split at h
    · rename_i hv
      split at h
      · cases h
      · exact (TwoIter.next_nf fuel s1 hs1 hv).good hrd h
      · cases h; exact TwoIter.Good.refl hs1
    · cases h; exact TwoIter.Good.refl hs1
  · dsimp only [IterOps.apply, IterOps.seekLE, twoIterOps] at h
    rw [hs] at h
    dsimp only at h
    split at h
    · rename_i hv
      split at h
      · cases h
      · exact (TwoIter.prev_nf fuel s1 hs1 hv).good hrd h
      · cases h; exact TwoIter.Good.refl hs1
    · exact (TwoIter.last_nf hrd hrt fuel s1 hs1).good hrd h
  · dsimp only [IterOps.apply, IterOps.seekLT, twoIterOps] at h
    rw [hs] at h
    dsimp only at h
    split at h
    · rename_i hv
      exact (TwoIter.prev_nf fuel s1 hs1 hv).good hrd h
    · exact (TwoIter.last_nf hrd hrt fuel s1 hs1).good hrd h

/-- what `seekGT / seekLE / seekLT` do after their `seek`, from ONE state -/
theorem twoIter_seekTail_div (hrd' : RdInv c rd') (hrd : RdInv c rd) (hrt' : RdTotal rd')
    (hrt : RdTotal rd) (hag : RdAgree rd' rd) (fuel : Nat) (op : BlockOp)
    (t : Bytes) (hop : op = .seekGT t ∨ op = .seekLE t ∨ op = .seekLT t) (a s1 r' r : TwoIter)
    (hs1 : s1.Inv c) (hs' : TwoIter.seek c rd' fuel t a = some s1)
    (hs : TwoIter.seek c rd fuel t a = some s1)
    (h' : (twoIterOps c rd' fuel).apply op a = some r')
    (h : (twoIterOps c rd fuel).apply op a = some r) : TwoIter.Div r' r := by
  rcases hop with rfl | rfl | rfl
  · dsimp only [IterOps.apply, IterOps.seekGT, twoIterOps] at h' h
    rw [hs'] at h'
    rw [hs] at h
    dsimp only at h' h
    by_cases hv : TwoIter.valid s1 = true
    · rw [if_pos hv] at h' h
      cases hc : c.compare (TwoIter.key s1) t with
      | none => rw [hc] at h'; cases h'
      | some o =>
        rw [hc] at h' h
        cases o with
        | lt => cases h'; cases h; exact TwoIter.Div.rfl' _
        | gt => cases h'; cases h; exact TwoIter.Div.rfl' _
        | eq =>
          exact TwoIter.next_div hrd' hrd hrt' hrt hag fuel s1 s1 r' r hs1 hs1 hv hv
            (TwoIter.Div.rfl' _) h' h
    · rw [if_neg hv] at h' h
      cases h'; cases h; exact TwoIter.Div.rfl' _
  · dsimp only [IterOps.apply, IterOps.seekLE, twoIterOps] at h' h
    rw [hs'] at h'
    rw [hs] at h
    dsimp only at h' h
    by_cases hv : TwoIter.valid s1 = true
    · rw [if_pos hv] at h' h
      cases hc : c.compare (TwoIter.key s1) t with
      | none => rw [hc] at h'; cases h'
      | some o =>
        rw [hc] at h' h
        cases o with
        | lt => cases h'; cases h; exact TwoIter.Div.rfl' _
        | eq => cases h'; cases h; exact TwoIter.Div.rfl' _
        | gt =>
          exact TwoIter.prev_div hrd' hrd hrt' hrt hag fuel s1 s1 r' r hs1 hs1 hv hv
            (TwoIter.Div.rfl' _) h' h
    · rw [if_neg hv] at h' h
      exact TwoIter.last_div hrd' hrd hrt' hrt hag fuel s1 s1 r' r hs1 hs1
        (TwoIter.Div.rfl' _) h' h
  · dsimp only [IterOps.apply, IterOps.seekLT, twoIterOps] at h' h
    rw [hs'] at h'
    rw [hs] at h
    dsimp only at h' h
    by_cases hv : TwoIter.valid s1 = true
    · rw [if_pos hv] at h' h
      exact TwoIter.prev_div hrd' hrd hrt' hrt hag fuel s1 s1 r' r hs1 hs1 hv hv
        (TwoIter.Div.rfl' _) h' h
    · rw [if_neg hv] at h' h
      exact TwoIter.last_div hrd' hrd hrt' hrt hag fuel s1 s1 r' r hs1 hs1
        (TwoIter.Div.rfl' _) h' h

/-- the `seek` inside `seekGT / seekLE / seekLT` -/
theorem twoIter_seekTail_seek (fuel : Nat) (op : BlockOp) (t : Bytes)
    (hop : op = .seekGT t ∨ op = .seekLE t ∨ op = .seekLT t) (a r : TwoIter)
    (h : (twoIterOps c rd fuel).apply op a = some r) :
    ∃ s1, TwoIter.seek c rd fuel t a = some s1 := by
  cases hs : TwoIter.seek c rd fuel t a with
  | some s1 => exact ⟨s1, rfl⟩
  | none =>
    exfalso
    rcases hop with rfl | rfl | rfl
    · dsimp only [IterOps.apply, IterOps.seekGT, twoIterOps] at h
      rw [hs] at h
      cases h
    · dsimp only [IterOps.apply, IterOps.seekLE, twoIterOps] at h
      rw [hs] at h
      cases h
    · dsimp only [IterOps.apply, IterOps.seekLT, twoIterOps] at h
      rw [hs] at h
      cases h

theorem twoIter_seekCompound_div (hrd' : RdInv c rd') (hrd : RdInv c rd) (hrt' : RdTotal rd')
    (hrt : RdTotal rd) (hag : RdAgree rd' rd) (fuel : Nat) (op : BlockOp)
    (t : Bytes) (hop : op = .seekGT t ∨ op = .seekLE t ∨ op = .seekLT t) (a r' r : TwoIter)
    (ha : a.Inv c)
    (h' : (twoIterOps c rd' fuel).apply op a = some r')
    (h : (twoIterOps c rd fuel).apply op a = some r) : TwoIter.Div r' r := by
  obtain ⟨s1', hs'⟩ := twoIter_seekTail_seek fuel op t hop a r' h'
  obtain ⟨s1, hs⟩ := twoIter_seekTail_seek fuel op t hop a r h
  have g1' := (TwoIter.seek_nf hrd' hrt' fuel t a ha).1.good hrd' hs'
  have g1 := (TwoIter.seek_nf hrd hrt fuel t a ha).1.good hrd hs
  have d1 := TwoIter.seek_div hrd' hrd hrt' hrt hag fuel t a a s1' s1 ha ha
    (TwoIter.Div.rfl' _) hs' hs
  refine d1.step (twoIter_seekTail_good hrd' hrt' fuel op t hop a s1' r' g1'.1 hs' h')
    (twoIter_seekTail_good hrd hrt fuel op t hop a s1 r g1.1 hs h) (fun e => ?_)
  subst e
  exact twoIter_seekTail_div hrd' hrd hrt' hrt hag fuel op t hop a s1' r' r g1.1 hs' hs h' h

/-- **lockstep for every operation** -/
theorem twoIter_apply_div (hrd' : RdInv c rd') (hrd : RdInv c rd) (hrt' : RdTotal rd')
    (hrt : RdTotal rd) (hag : RdAgree rd' rd) (fuel : Nat) (op : BlockOp) (a' a r' r : TwoIter)
    (ha' : a'.Inv c) (ha : a.Inv c) (hd : TwoIter.Div a' a)
    (h' : (twoIterOps c rd' fuel).apply op a' = some r')
    (h : (twoIterOps c rd fuel).apply op a = some r) : TwoIter.Div r' r := by
  refine hd.step (twoIter_apply_good hrd' hrt' fuel op a' r' ha' h')
    (twoIter_apply_good hrd hrt fuel op a r ha h) (fun e => ?_)
  subst e
  cases op with
  | first =>
    exact TwoIter.first_div hrd' hrd hrt' hrt hag fuel a' a' r' r ha ha (TwoIter.Div.rfl' _) h' h
  | last =>
    exact TwoIter.last_div hrd' hrd hrt' hrt hag fuel a' a' r' r ha ha (TwoIter.Div.rfl' _) h' h
  | next =>
    dsimp only [IterOps.apply, twoIterOps] at h' h
    by_cases hv : TwoIter.valid a' = true
    · rw [if_pos hv] at h' h
      exact TwoIter.next_div hrd' hrd hrt' hrt hag fuel a' a' r' r ha ha hv hv
        (TwoIter.Div.rfl' _) h' h
    · rw [if_neg hv] at h' h
      cases h'; cases h; exact TwoIter.Div.rfl' _
  | prev =>
    dsimp only [IterOps.apply, twoIterOps] at h' h
    by_cases hv : TwoIter.valid a' = true
    · rw [if_pos hv] at h' h
      exact TwoIter.prev_div hrd' hrd hrt' hrt hag fuel a' a' r' r ha ha hv hv
        (TwoIter.Div.rfl' _) h' h
    · rw [if_neg hv] at h' h
      cases h'; cases h; exact TwoIter.Div.rfl' _
  | seek t =>
    exact TwoIter.seek_div hrd' hrd hrt' hrt hag fuel t a' a' r' r ha ha (TwoIter.Div.rfl' _) h' h
  | seekGE t =>
    exact TwoIter.seek_div hrd' hrd hrt' hrt hag fuel t a' a' r' r ha ha (TwoIter.Div.rfl' _) h' h
  | seekGT t =>
    exact twoIter_seekCompound_div hrd' hrd hrt' hrt hag fuel _ t (Or.inl rfl) a' r' r ha h' h
  | seekLE t =>
    exact twoIter_seekCompound_div hrd' hrd hrt' hrt hag fuel _ t (Or.inr (Or.inl rfl)) a' r' r
      ha h' h
  | seekLT t =>
    exact twoIter_seekCompound_div hrd' hrd hrt' hrt hag fuel _ t (Or.inr (Or.inr rfl)) a' r' r
      ha h' h

/-- **lockstep for whole runs**: the same operations through two agreeing readers end in equal
    states unless one side reports an error -/
theorem twoIter_run_div (hrd' : RdInv c rd') (hrd : RdInv c rd) (hrt' : RdTotal rd')
    (hrt : RdTotal rd) (hag : RdAgree rd' rd) (fuel : Nat) (ops : List BlockOp) :
    ∀ (a' a r' r : TwoIter), a'.Inv c → a.Inv c → TwoIter.Div a' a →
      (twoIterOps c rd' fuel).run ops a' = some r' → (twoIterOps c rd fuel).run ops a = some r →
      TwoIter.Div r' r := by
  induction ops with
  | nil =>
    intro a' a r' r _ _ hd h' h
    cases h'; cases h; exact hd
  | cons op ops ih =>
    intro a' a r' r ha' ha hd h' h
    unfold IterOps.run at h' h
    cases e' : (twoIterOps c rd' fuel).apply op a' with
    | none => rw [e'] at h'; cases h'
    | some s' =>
      cases e : (twoIterOps c rd fuel).apply op a with
      | none => rw [e] at h; cases h
      | some s =>
        rw [e'] at h'
        rw [e] at h
        dsimp only at h' h
        exact ih s' s r' r (twoIter_apply_inv hrd' hrt' fuel op a' s' ha' e')
          (twoIter_apply_inv hrd hrt fuel op a s ha e)
          (twoIter_apply_div hrd' hrd hrt' hrt hag fuel op a' a s' s ha' ha hd e' e) h' h

end
end Lcdb
