/-
  Table safety, part D: the operations of the two-level iterator behind the generic iterator
  interface (`twoIterOps c rd fuel`): invariant, stickiness, totality — parametric in `c`, `rd`,
  `fuel`.
-/
import LcdbModel.Lemmas.TableSafetyC
namespace Lcdb

/-- the skip loops have enough fuel: the index iterator is monotone and its data area is at most
    `fuel - 2` bytes -/
def TwoIter.Enough (fuel : Nat) (it : TwoIter) : Prop :=
  it.index.Mono ∧ it.index.restarts + 2 ≤ fuel

theorem TwoIter.Good.enough {c : BlockCmp} {fuel : Nat} {it it' : TwoIter} (h : TwoIter.Good c it it')
    (he : it.Enough fuel) : it'.Enough fuel :=
  ⟨h.2.2.1 he.1, by rw [h.2.1]; exact he.2⟩

/-- an operation of the two-level iterator is a prefix that cannot fault followed by one of the
    skip loops -/
def TwoIter.NF (c : BlockCmp) (rd : Bytes → Option DataIter) (fuel : Nat) (it : TwoIter)
    (r : Option TwoIter) : Prop :=
  ∃ it2, TwoIter.Good c it it2 ∧
    (r = TwoIter.skipForward c rd fuel it2 ∨ r = TwoIter.skipBackward c rd fuel it2)

theorem TwoIter.NF.good {c : BlockCmp} {rd : Bytes → Option DataIter} (hrd : RdInv c rd) {fuel : Nat}
    {it it' : TwoIter} {r : Option TwoIter} (h : TwoIter.NF c rd fuel it r) (he : r = some it') :
    TwoIter.Good c it it' := by
  obtain ⟨it2, g, hr⟩ := h
  rcases hr with hr | hr
  · rw [hr] at he; exact g.trans (TwoIter.skipForward_good hrd fuel it2 it' g.1 he)
  · rw [hr] at he; exact g.trans (TwoIter.skipBackward_good hrd fuel it2 it' g.1 he)

theorem TwoIter.NF.total {c : BlockCmp} {rd : Bytes → Option DataIter} (hrd : RdInv c rd)
    (hrt : RdTotal rd) {fuel : Nat} {it : TwoIter} {r : Option TwoIter}
    (h : TwoIter.NF c rd fuel it r) (he : it.Enough fuel) : ∃ it', r = some it' := by
  obtain ⟨it2, g, hr⟩ := h
  have he2 := g.enough he
  rcases hr with hr | hr
  · rw [hr]
    exact TwoIter.skipForward_total hrd hrt fuel it2 g.1 he2.1
      (by have := it2.index.remF_le; have := he2.2; omega)
  · rw [hr]
    exact TwoIter.skipBackward_total hrd hrt fuel it2 g.1
      (by have := it2.index.remB_le; have := he2.2; omega)

/-- the common prefix of seek / first / last: move the index iterator, open the data block, move
    the data iterator -/
theorem TwoIter.prefix_ok {c : BlockCmp} {rd : Bytes → Option DataIter} (hrd : RdInv c rd)
    (hrt : RdTotal rd) (it : TwoIter) (ix : TIter) (f : TIter → Option TIter) (h : it.Inv c)
    (hstep : TIter.Step c it.index ix) (hf : ∀ it1 : TwoIter, it1.DataFn c f) :
    ∃ it1 it2, TwoIter.initDataBlock rd { it with index := ix } = some it1 ∧
      it1.onData f = some it2 ∧ TwoIter.Good c it it2 ∧ it2.index = ix ∧
      (ix.valid = false → it2.data = none) := by
  have g0 := TwoIter.setIndex_good it ix h hstep
  obtain ⟨it1, h1⟩ := TwoIter.initDataBlock_total hrt { it with index := ix }
  obtain ⟨g1, hi1, hd1⟩ := TwoIter.initDataBlock_good hrd _ it1 g0.1 h1
  obtain ⟨it2, h2⟩ := TwoIter.onData_total it1 f (hf it1) g1.1
  obtain ⟨g2, hi2, hd2⟩ := TwoIter.onData_good it1 it2 f (hf it1) g1.1 h2
  exact ⟨it1, it2, h1, h2, g0.trans (g1.trans g2), by rw [hi2, hi1], fun hv => hd2 (hd1 hv)⟩

theorem TwoIter.first_nf {c : BlockCmp} {rd : Bytes → Option DataIter} (hrd : RdInv c rd)
    (hrt : RdTotal rd) (fuel : Nat) (it : TwoIter) (h : it.Inv c) :
    TwoIter.NF c rd fuel it (TwoIter.first c rd fuel it) := by
  obtain ⟨ix, hn, hstep⟩ := TIter.first_step c it.index h.1
  obtain ⟨it1, it2, h1, h2, g, _, _⟩ := TwoIter.prefix_ok hrd hrt it ix (TIter.first c) h hstep
    (fun it1 => TwoIter.dataFn_first c it1)
  refine ⟨it2, g, Or.inl ?_⟩
  unfold TwoIter.first
  rw [hn]; dsimp only
  rw [h1]; dsimp only
  rw [h2]

theorem TwoIter.last_nf {c : BlockCmp} {rd : Bytes → Option DataIter} (hrd : RdInv c rd)
    (hrt : RdTotal rd) (fuel : Nat) (it : TwoIter) (h : it.Inv c) :
    TwoIter.NF c rd fuel it (TwoIter.last c rd fuel it) := by
  obtain ⟨ix, hn, hstep⟩ := TIter.last_step c it.index h.1
  obtain ⟨it1, it2, h1, h2, g, _, _⟩ := TwoIter.prefix_ok hrd hrt it ix (TIter.last c) h hstep
    (fun it1 => TwoIter.dataFn_last c it1)
  refine ⟨it2, g, Or.inr ?_⟩
  unfold TwoIter.last
  rw [hn]; dsimp only
  rw [h1]; dsimp only
  rw [h2]

/-- seek: normal form, and a valid result means the target was a well-formed key for `c` -/
theorem TwoIter.seek_nf {c : BlockCmp} {rd : Bytes → Option DataIter} (hrd : RdInv c rd)
    (hrt : RdTotal rd) (fuel : Nat) (tg : Bytes) (it : TwoIter) (h : it.Inv c) :
    TwoIter.NF c rd fuel it (TwoIter.seek c rd fuel tg it) ∧
      ∀ it', TwoIter.seek c rd fuel tg it = some it' → it'.valid = true → c.internal = true →
        8 ≤ tg.length := by
  obtain ⟨ix, hn, hstep, htg⟩ := TIter.seek_step c tg it.index h.1
  obtain ⟨it1, it2, h1, h2, g, hix, hdead⟩ := TwoIter.prefix_ok hrd hrt it ix (TIter.seek c tg) h hstep
    (fun it1 => TwoIter.dataFn_seek c it1 tg)
  have heq : TwoIter.seek c rd fuel tg it = TwoIter.skipForward c rd fuel it2 := by
    unfold TwoIter.seek
    rw [hn]; dsimp only
    rw [h1]; dsimp only
    rw [h2]
  refine ⟨⟨it2, g, Or.inl heq⟩, ?_⟩
  intro it' he hv hc
  cases hxv : ix.valid with
  | true => exact htg hxv hc
  | false =>
    rw [heq] at he
    have := TwoIter.skipForward_dead c rd fuel it2 it' (by rw [hix]; exact hxv) (hdead hxv) he
    rw [this] at hv
    cases hv

theorem TwoIter.next_nf {c : BlockCmp} {rd : Bytes → Option DataIter}
    (fuel : Nat) (it : TwoIter) (h : it.Inv c) (hv : it.valid = true) :
    TwoIter.NF c rd fuel it (TwoIter.next c rd fuel it) := by
  obtain ⟨it1, h1⟩ := TwoIter.onData_total it _ (TwoIter.dataFn_next c it hv) h
  obtain ⟨g1, _, _⟩ := TwoIter.onData_good it it1 _ (TwoIter.dataFn_next c it hv) h h1
  refine ⟨it1, g1, Or.inl ?_⟩
  unfold TwoIter.next
  rw [h1]

theorem TwoIter.prev_nf {c : BlockCmp} {rd : Bytes → Option DataIter}
    (fuel : Nat) (it : TwoIter) (h : it.Inv c) (hv : it.valid = true) :
    TwoIter.NF c rd fuel it (TwoIter.prev c rd fuel it) := by
  obtain ⟨it1, h1⟩ := TwoIter.onData_total it _ (TwoIter.dataFn_prev c it hv) h
  obtain ⟨g1, _, _⟩ := TwoIter.onData_good it it1 _ (TwoIter.dataFn_prev c it hv) h h1
  refine ⟨it1, g1, Or.inr ?_⟩
  unfold TwoIter.prev
  rw [h1]

/-- a valid two-level iterator stands on a key that is well formed for `c` -/
theorem TwoIter.key_len {c : BlockCmp} (it : TwoIter) (h : it.Inv c) (hv : it.valid = true) :
    c.internal = true → 8 ≤ it.key.length := by
  cases hd : it.data with
  | none => simp [TwoIter.valid, TwoIter.dataValid, hd] at hv
  | some d =>
    cases d with
    | failed s => simp [TwoIter.valid, TwoIter.dataValid, hd, DataIter.valid] at hv
    | opened ti =>
      have hk : it.key = ti.key := by simp [TwoIter.key, hd, DataIter.key]
      rw [hk]
      exact TIter.key_len c ti (h.2 _ hd) (it.valid_opened ti hd hv)

/-! ### `IterOps.apply` -/

/-- every operation that does not fault keeps the invariant, the fuel bound and a reported error
    (for ANY fuel) -/
theorem twoIter_apply_good {c : BlockCmp} {rd : Bytes → Option DataIter} (hrd : RdInv c rd)
    (hrt : RdTotal rd) (fuel : Nat) (op : BlockOp) (it it' : TwoIter) (h : it.Inv c)
    (he : (twoIterOps c rd fuel).apply op it = some it') : TwoIter.Good c it it' := by
  cases op with
  | first => exact (TwoIter.first_nf hrd hrt fuel it h).good hrd he
  | last => exact (TwoIter.last_nf hrd hrt fuel it h).good hrd he
  | next =>
    dsimp only [IterOps.apply, twoIterOps] at he
    split at he
    · rename_i hv; exact (TwoIter.next_nf fuel it h hv).good hrd he
    · cases he; exact TwoIter.Good.refl h
  | prev =>
    dsimp only [IterOps.apply, twoIterOps] at he
    split at he
    · rename_i hv; exact (TwoIter.prev_nf fuel it h hv).good hrd he
    · cases he; exact TwoIter.Good.refl h
  | seek t => exact (TwoIter.seek_nf hrd hrt fuel t it h).1.good hrd he
  | seekGE t => exact (TwoIter.seek_nf hrd hrt fuel t it h).1.good hrd he
  | seekGT t =>
    dsimp only [IterOps.apply, IterOps.seekGT, twoIterOps] at he
    split at he
    · cases he
    · rename_i s1 hs
      have g1 := (TwoIter.seek_nf hrd hrt fuel t it h).1.good hrd hs
      split at he
      · rename_i hv
        split at he
        · cases he
        · exact g1.trans ((TwoIter.next_nf fuel s1 g1.1 hv).good hrd he)
        · cases he; exact g1
      · cases he; exact g1
  | seekLE t =>
    dsimp only [IterOps.apply, IterOps.seekLE, twoIterOps] at he
    split at he
    · cases he
    · rename_i s1 hs
      have g1 := (TwoIter.seek_nf hrd hrt fuel t it h).1.good hrd hs
      split at he
      · rename_i hv
        split at he
        · cases he
        · exact g1.trans ((TwoIter.prev_nf fuel s1 g1.1 hv).good hrd he)
        · cases he; exact g1
      · exact g1.trans ((TwoIter.last_nf hrd hrt fuel s1 g1.1).good hrd he)
  | seekLT t =>
    dsimp only [IterOps.apply, IterOps.seekLT, twoIterOps] at he
    split at he
    · cases he
    · rename_i s1 hs
      have g1 := (TwoIter.seek_nf hrd hrt fuel t it h).1.good hrd hs
      split at he
      · rename_i hv
        exact g1.trans ((TwoIter.prev_nf fuel s1 g1.1 hv).good hrd he)
      · exact g1.trans ((TwoIter.last_nf hrd hrt fuel s1 g1.1).good hrd he)

/-- **Inv is preserved by `apply`** (any fuel for which the operation does not fault) -/
theorem twoIter_apply_inv {c : BlockCmp} {rd : Bytes → Option DataIter} (hrd : RdInv c rd)
    (hrt : RdTotal rd) (fuel : Nat) (op : BlockOp) (it it' : TwoIter) (h : it.Inv c)
    (he : (twoIterOps c rd fuel).apply op it = some it') : it'.Inv c :=
  (twoIter_apply_good hrd hrt fuel op it it' h he).1

/-- **stickiness**: an operation never clears a reported error -/
theorem twoIter_status_sticky {c : BlockCmp} {rd : Bytes → Option DataIter} (hrd : RdInv c rd)
    (hrt : RdTotal rd) (fuel : Nat) (op : BlockOp) (it it' : TwoIter) (h : it.Inv c)
    (he : (twoIterOps c rd fuel).apply op it = some it') (hs : it.getStatus ≠ .ok) :
    it'.getStatus ≠ .ok :=
  (twoIter_apply_good hrd hrt fuel op it it' h he).2.2.2 hs

/-- **no fault given enough fuel** -/
theorem twoIter_apply_total {c : BlockCmp} {rd : Bytes → Option DataIter} (hrd : RdInv c rd)
    (hrt : RdTotal rd) (fuel : Nat) (op : BlockOp) (it : TwoIter) (h : it.Inv c)
    (hf : it.Enough fuel) :
    ∃ it', (twoIterOps c rd fuel).apply op it = some it' ∧ TwoIter.Good c it it' ∧
      it'.Enough fuel := by
  suffices hs : ∃ it', (twoIterOps c rd fuel).apply op it = some it' by
    obtain ⟨it', he⟩ := hs
    have g := twoIter_apply_good hrd hrt fuel op it it' h he
    exact ⟨it', he, g, g.enough hf⟩
  have hseek : ∀ t, ∃ s1, TwoIter.seek c rd fuel t it = some s1 ∧ TwoIter.Good c it s1 ∧
      s1.Enough fuel ∧ (s1.valid = true → c.internal = true → 8 ≤ t.length) := by
    intro t
    obtain ⟨nf, htg⟩ := TwoIter.seek_nf hrd hrt fuel t it h
    obtain ⟨s1, hs1⟩ := nf.total hrd hrt hf
    have g := nf.good hrd hs1
    exact ⟨s1, hs1, g, g.enough hf, htg s1 hs1⟩
  cases op with
  | first => exact (TwoIter.first_nf hrd hrt fuel it h).total hrd hrt hf
  | last => exact (TwoIter.last_nf hrd hrt fuel it h).total hrd hrt hf
  | next =>
    dsimp only [IterOps.apply, twoIterOps]
    split
    · rename_i hv; exact (TwoIter.next_nf fuel it h hv).total hrd hrt hf
    · exact ⟨it, rfl⟩
  | prev =>
    dsimp only [IterOps.apply, twoIterOps]
    split
    · rename_i hv; exact (TwoIter.prev_nf fuel it h hv).total hrd hrt hf
    · exact ⟨it, rfl⟩
  | seek t => exact (TwoIter.seek_nf hrd hrt fuel t it h).1.total hrd hrt hf
  | seekGE t => exact (TwoIter.seek_nf hrd hrt fuel t it h).1.total hrd hrt hf
  | seekGT t =>
    obtain ⟨s1, hs1, g1, e1, htg⟩ := hseek t
    dsimp only [IterOps.apply, IterOps.seekGT, twoIterOps]
    rw [hs1]; dsimp only
    split
    · rename_i hv
      obtain ⟨o, ho⟩ := c.compare_ok s1.key t (s1.key_len g1.1 hv) (htg hv)
      rw [ho]
      cases o
      · exact ⟨s1, rfl⟩
      · exact (TwoIter.next_nf fuel s1 g1.1 hv).total hrd hrt e1
      · exact ⟨s1, rfl⟩
    · exact ⟨s1, rfl⟩
  | seekLE t =>
    obtain ⟨s1, hs1, g1, e1, htg⟩ := hseek t
    dsimp only [IterOps.apply, IterOps.seekLE, twoIterOps]
    rw [hs1]; dsimp only
    split
    · rename_i hv
      obtain ⟨o, ho⟩ := c.compare_ok s1.key t (s1.key_len g1.1 hv) (htg hv)
      rw [ho]
      cases o
      · exact ⟨s1, rfl⟩
      · exact ⟨s1, rfl⟩
      · exact (TwoIter.prev_nf fuel s1 g1.1 hv).total hrd hrt e1
    · exact (TwoIter.last_nf hrd hrt fuel s1 g1.1).total hrd hrt e1
  | seekLT t =>
    obtain ⟨s1, hs1, g1, e1, _⟩ := hseek t
    dsimp only [IterOps.apply, IterOps.seekLT, twoIterOps]
    rw [hs1]; dsimp only
    split
    · rename_i hv
      exact (TwoIter.prev_nf fuel s1 g1.1 hv).total hrd hrt e1
    · exact (TwoIter.last_nf hrd hrt fuel s1 g1.1).total hrd hrt e1

/-! ### sequences of operations -/

theorem twoIter_run_good {c : BlockCmp} {rd : Bytes → Option DataIter} (hrd : RdInv c rd)
    (hrt : RdTotal rd) (fuel : Nat) (ops : List BlockOp) :
    ∀ (it it' : TwoIter), it.Inv c → (twoIterOps c rd fuel).run ops it = some it' →
      TwoIter.Good c it it' := by
  induction ops with
  | nil => intro it it' h he; cases he; exact TwoIter.Good.refl h
  | cons op ops ih =>
    intro it it' h he
    unfold IterOps.run at he
    split at he
    · cases he
    · rename_i s1 h1
      have g1 := twoIter_apply_good hrd hrt fuel op it s1 h h1
      exact g1.trans (ih s1 it' g1.1 he)

/-- stickiness for whole runs -/
theorem twoIter_status_sticky_run {c : BlockCmp} {rd : Bytes → Option DataIter} (hrd : RdInv c rd)
    (hrt : RdTotal rd) (fuel : Nat) (ops : List BlockOp) (it it' : TwoIter) (h : it.Inv c)
    (he : (twoIterOps c rd fuel).run ops it = some it') (hs : it.getStatus ≠ .ok) :
    it'.getStatus ≠ .ok :=
  (twoIter_run_good hrd hrt fuel ops it it' h he).2.2.2 hs

theorem twoIter_run_total {c : BlockCmp} {rd : Bytes → Option DataIter} (hrd : RdInv c rd)
    (hrt : RdTotal rd) (fuel : Nat) (ops : List BlockOp) :
    ∀ (it : TwoIter), it.Inv c → it.Enough fuel →
      ∃ it', (twoIterOps c rd fuel).run ops it = some it' ∧ TwoIter.Good c it it' ∧
        it'.Enough fuel := by
  induction ops with
  | nil => intro it h hf; exact ⟨it, rfl, TwoIter.Good.refl h, hf⟩
  | cons op ops ih =>
    intro it h hf
    obtain ⟨s1, h1, g1, e1⟩ := twoIter_apply_total hrd hrt fuel op it h hf
    obtain ⟨it', h2, g2, e2⟩ := ih s1 g1.1 e1
    refine ⟨it', ?_, g1.trans g2, e2⟩
    unfold IterOps.run
    rw [h1]
    exact h2

end Lcdb
