/-
  Helper lemmas for Model/Skiplist.lean, part 1: the representation invariant `Inv` and the three
  search loops (`find_ge`, `find_lt`, `find_last`) against it.

  `Inv cmp sl L`: `L` is the list of node indices in key order (the head, index 0, excluded).  Its core is
  `next`: for every way of splitting `0 :: L = pre ++ x :: suf` and every level below the height of `x`,
  `x->next[lvl]` is the first node of `suf` whose height exceeds `lvl` (NULL if there is none).
-/
import LcdbModel.Model.Skiplist
namespace Lcdb.Skiplist
variable {α : Type}

/-- what the proofs need of the comparator: antisymmetric in the sense of `swap`, `<` transitive -/
structure CmpOk (cmp : α → α → Ordering) : Prop where
  swap : ∀ a b, cmp b a = (cmp a b).swap
  trans : ∀ a b c, cmp a b = .lt → cmp b c = .lt → cmp a c = .lt

theorem CmpOk.refl {cmp : α → α → Ordering} (h : CmpOk cmp) (a : α) : cmp a a = .eq := by
  have := h.swap a a
  cases hc : cmp a a <;> rw [hc] at this <;> simp [Ordering.swap] at this

/-- node `a` carries a key smaller than the key of node `b` -/
def NodeLt (cmp : α → α → Ordering) (sl : SkipList α) (a b : Nat) : Prop :=
  ∃ ka kb, keyOf sl a = some ka ∧ keyOf sl b = some kb ∧ cmp ka kb = .lt

structure Inv (cmp : α → α → Ordering) (sl : SkipList α) (L : List Nat) : Prop where
  headKey : keyOf sl 0 = none
  headHeight : heightOf sl 0 = kMaxHeight
  mem_iff : ∀ x, x ∈ L ↔ 1 ≤ x ∧ x < sl.nodes.length
  len : L.length + 1 = sl.nodes.length
  sorted : L.Pairwise (NodeLt cmp sl)
  hasKey : ∀ x ∈ L, ∃ k, keyOf sl x = some k
  heights : ∀ x ∈ L, 1 ≤ heightOf sl x ∧ heightOf sl x ≤ sl.maxHeight
  mhRange : 1 ≤ sl.maxHeight ∧ sl.maxHeight ≤ kMaxHeight
  mhExact : sl.maxHeight = 1 ∨ ∃ x ∈ L, heightOf sl x = sl.maxHeight
  next : ∀ pre x suf, 0 :: L = pre ++ x :: suf → ∀ lvl, lvl < heightOf sl x →
    getNext sl x lvl = some (suf.find? (fun y => decide (lvl < heightOf sl y)))

/-! ### list helpers -/

theorem split_unique {l a b c d : List Nat} {x : Nat} (hn : l.Nodup) (h1 : l = a ++ x :: b) (h2 : l = c ++ x :: d) :
    a = c ∧ b = d := by
  subst h1
  rcases List.append_eq_append_iff.mp h2 with ⟨a', ha, hb⟩ | ⟨c', hc, hd⟩
  · cases a' with
    | nil => simp at ha hb; exact ⟨ha.symm, hb⟩
    | cons y t =>
      simp at hb
      obtain ⟨rfl, hd⟩ := hb
      exfalso
      rw [hd] at hn
      simp [List.nodup_append] at hn
  · cases c' with
    | nil => simp at hc hd; exact ⟨hc, hd.symm⟩
    | cons y t =>
      simp at hd
      obtain ⟨rfl, hd⟩ := hd
      exfalso
      rw [hc] at hn
      simp [List.nodup_append] at hn

/-- two splits of one list at different elements: the second element lies in the prefix or the suffix of the first -/
theorem split_cases {a b c d : List Nat} {x y : Nat} (h : a ++ x :: b = c ++ y :: d) (hxy : x ≠ y) :
    (∃ t, b = t ++ y :: d ∧ c = a ++ x :: t) ∨ (∃ t, d = t ++ x :: b ∧ a = c ++ y :: t) := by
  rcases List.append_eq_append_iff.mp h with ⟨a', ha, hb⟩ | ⟨c', hc, hd⟩
  · cases a' with
    | nil => simp at hb; exact absurd hb.1 hxy
    | cons z t =>
      simp at hb
      obtain ⟨rfl, hb⟩ := hb
      exact .inl ⟨t, hb, ha⟩
  · cases c' with
    | nil => simp at hd; exact absurd hd.1.symm hxy
    | cons z t =>
      simp at hd
      obtain ⟨rfl, hd⟩ := hd
      exact .inr ⟨t, hd, hc⟩

theorem find?_append_of_all_false {p : Nat → Bool} {a b : List Nat} (h : ∀ x ∈ a, p x = false) :
    (a ++ b).find? p = b.find? p := by
  induction a with
  | nil => rfl
  | cons x t ih =>
    have hx := h x (by simp)
    simp only [List.cons_append, List.find?_cons, hx]
    exact ih (fun y hy => h y (by simp [hy]))

theorem find?_eq_some_split {p : Nat → Bool} {l : List Nat} {y : Nat} (h : l.find? p = some y) :
    ∃ s1 s2, l = s1 ++ y :: s2 ∧ p y = true ∧ ∀ a ∈ s1, p a = false := by
  induction l with
  | nil => simp at h
  | cons x t ih =>
    simp only [List.find?_cons] at h
    cases hx : p x with
    | true =>
      rw [hx] at h
      cases h
      exact ⟨[], t, rfl, hx, by simp⟩
    | false =>
      rw [hx] at h
      obtain ⟨s1, s2, rfl, hy, hs⟩ := ih h
      refine ⟨x :: s1, s2, rfl, hy, ?_⟩
      intro a ha
      rcases List.mem_cons.mp ha with rfl | ha
      · exact hx
      · exact hs a ha

/-! ### basic facts under the invariant -/

section inv
variable {cmp : α → α → Ordering} {sl : SkipList α} {L : List Nat}

theorem NodeLt.irrefl (hc : CmpOk cmp) (a : Nat) : ¬ NodeLt cmp sl a a := by
  rintro ⟨ka, kb, h1, h2, h3⟩
  rw [h1] at h2
  cases h2
  rw [hc.refl] at h3
  cases h3

theorem NodeLt.trans (hc : CmpOk cmp) {a b c : Nat} (h1 : NodeLt cmp sl a b) (h2 : NodeLt cmp sl b c) :
    NodeLt cmp sl a c := by
  obtain ⟨ka, kb, ha, hb, hab⟩ := h1
  obtain ⟨kb', kc, hb', hc', hbc⟩ := h2
  rw [hb] at hb'
  cases hb'
  exact ⟨ka, kc, ha, hc', hc.trans _ _ _ hab hbc⟩

theorem Inv.zero_not_mem (h : Inv cmp sl L) : 0 ∉ L := by
  intro h0
  have := (h.mem_iff 0).mp h0
  omega

theorem Inv.nodup (hc : CmpOk cmp) (h : Inv cmp sl L) : (0 :: L).Nodup := by
  refine List.nodup_cons.mpr ⟨h.zero_not_mem, ?_⟩
  exact h.sorted.imp (fun {a b} hab => by
    intro e
    subst e
    exact NodeLt.irrefl hc a hab)

end inv
end Lcdb.Skiplist
