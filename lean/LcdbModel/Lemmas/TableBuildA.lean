/-
  What the table builder writes (structure of `tableBuild o es`):

      data block 0 ‖ … ‖ data block n-1 ‖ [filter block] ‖ metaindex block ‖ index block ‖ footer

  * `cutGo`      the partition of the entries into data blocks decided by the size-estimate rule
  * `dataBytes`, `layGo`   bytes and handles of the data blocks
  * `ixGo`       the index entries (separators / successor, encoded handles)
  * `tailBytes`  filter block, metaindex block, index block, footer
  * `tableBuild_eq`   `tableBuild o es = dataBytes … ++ tailBytes …`
-/
import LcdbModel.Lemmas.TableDefs
import LcdbModel.Lemmas.BlockExtras
import LcdbModel.Props.CodingProps
namespace Lcdb

/-- bound that keeps every raw (uncompressed) data block, the raw index block and the raw
    metaindex block below 2^31 -/
def tableRawBound (es : List (Bytes × Bytes)) : Nat :=
  (es.map fun e => e.1.length + e.2.length + 64).sum + 128

/-! ### the pure description -/

/-- the partition into data blocks: `cur` = entries already in the open block -/
def cutGo (o : TableOpts) : List (Bytes × Bytes) → List (Bytes × Bytes) → List (List (Bytes × Bytes))
  | cur, [] => if cur.isEmpty then [] else [cur]
  | cur, e :: es =>
    if blockGenSizeEstimate (blockGenAddAll o.restartInterval blockGenInit (cur ++ [e])) ≥ o.blockSize then
      (cur ++ [e]) :: cutGo o [] es
    else cutGo o (cur ++ [e]) es

/-- one data block written at `off` -/
def dataW (o : TableOpts) (off : Nat) (b : List (Bytes × Bytes)) : Bytes × BlockHandle :=
  writeBlock o off (blockBuild o.restartInterval b)

/-- the bytes of consecutive data blocks, the first at offset `off` -/
def dataBytes (o : TableOpts) : Nat → List (List (Bytes × Bytes)) → Bytes
  | _, [] => []
  | off, b :: rest => (dataW o off b).1 ++ dataBytes o (off + (dataW o off b).1.length) rest

/-- the data blocks with their handles -/
def layGo (o : TableOpts) : Nat → List (List (Bytes × Bytes)) → List (List (Bytes × Bytes) × BlockHandle)
  | _, [] => []
  | off, b :: rest => (b, (dataW o off b).2) :: layGo o (off + (dataW o off b).1.length) rest

/-- the `(start_block offset, keys)` calls seen by the filter builder -/
def fblGo (o : TableOpts) : Nat → List (List (Bytes × Bytes)) → List (Nat × List Bytes)
  | _, [] => []
  | off, b :: rest => (off, b.map (·.1)) :: fblGo o (off + (dataW o off b).1.length) rest

/-- `start_block` when there is a policy -/
def startBlockO (o : TableOpts) (f : FilterGen) (off : Nat) : FilterGen :=
  match o.policy with
  | some p => f.startBlock p off
  | none => f

def addBlockO (o : TableOpts) (f : FilterGen) (blk : Nat × List Bytes) : FilterGen :=
  blk.2.foldl FilterGen.addKey (startBlockO o f blk.1)

/-- index entries: `prev` = (last key, handle) of a finished block whose index entry is pending -/
def ixGo (c : Cmp) : Option (Bytes × BlockHandle) → List (List (Bytes × Bytes) × BlockHandle) →
    List (Bytes × Bytes)
  | none, [] => []
  | some (lk, h), [] => [(ikeySuccessor c lk, handleEncode h)]
  | none, (b, h) :: rest => ixGo c (some (lastKeyOf b, h)) rest
  | some (lk, h0), (b, h) :: rest =>
    (ikeySeparator c lk (firstKeyOf b), handleEncode h0) :: ixGo c (some (lastKeyOf b, h)) rest

/-- contents of the filter block -/
def filtC (o : TableOpts) (fin : Option FilterGen) : Option Bytes :=
  match o.policy, fin with
  | some p, some f => some (f.finish p)
  | _, _ => none

/-- the metaindex entries -/
def metaEntries (off : Nat) : Option Bytes → List (Bytes × Bytes)
  | some c => [(filterKeyName, handleEncode { offset := off, size := c.length })]
  | none => []

/-- the stored filter block -/
def filterBytes : Option Bytes → Bytes
  | some c => rawBlockBytes c 0
  | none => []

/-- offset after the filter block -/
def afterFilter (off : Nat) : Option Bytes → Nat
  | some c => off + c.length + blockTrailerSize
  | none => off

/-- the metaindex block as written -/
def metaW (o : TableOpts) (off : Nat) (fc : Option Bytes) : Bytes × BlockHandle :=
  writeBlock o (afterFilter off fc) (blockBuild o.restartInterval (metaEntries off fc))

/-- the index block as written -/
def indexW (o : TableOpts) (off : Nat) (fc : Option Bytes) (ixraw : Bytes) : Bytes × BlockHandle :=
  writeBlock o (afterFilter off fc + (metaW o off fc).1.length) ixraw

def tailFooter (o : TableOpts) (off : Nat) (fc : Option Bytes) (ixraw : Bytes) : Footer :=
  { metaindex := (metaW o off fc).2, index := (indexW o off fc ixraw).2 }

/-- everything after the data blocks: filter block with contents `fc` (if any), metaindex block,
    index block with raw contents `ixraw`, footer; `off` = offset where it starts -/
def tailBytes (o : TableOpts) (off : Nat) (fc : Option Bytes) (ixraw : Bytes) : Bytes :=
  filterBytes fc ++ ((metaW o off fc).1 ++ ((indexW o off fc ixraw).1 ++
    footerEncode (tailFooter o off fc ixraw)))

/-! ### one step of the builder -/

theorem blockGenAdd_buffer_ne (iv : Nat) (g : BlockGen) (k v : Bytes) :
    (blockGenAdd iv g k v).buffer.isEmpty = false := by
  have h := varintEnc_length_pos ((if decide (g.counter < iv) = true then sharedLen g.lastKey k else 0) % 2 ^ 32)
  cases hb : (blockGenAdd iv g k v).buffer with
  | nil =>
    have hl : (blockGenAdd iv g k v).buffer.length = 0 := by rw [hb]; rfl
    simp only [blockGenAdd, List.length_append] at hl
    omega
  | cons a as => rfl

theorem flush_filter_eq (o : TableOpts) (f : Option FilterGen) (off : Nat) :
    (match o.policy, f with
      | some p, some f => some (f.startBlock p off)
      | _, _ => f) = f.map (startBlockO o · off) := by
  unfold startBlockO
  cases o.policy <;> cases f <;> rfl

theorem flush_of_empty (o : TableOpts) (st : TableGen) (h : st.dataBlock.buffer.isEmpty = true) :
    st.flush o = ([], st) := by
  unfold TableGen.flush; rw [if_pos h]

theorem flush_of_ne (o : TableOpts) (st : TableGen) (h : st.dataBlock.buffer.isEmpty = false) :
    st.flush o =
      ((writeBlock o st.offset (blockGenFinish st.dataBlock)).1,
       { offset := st.offset + (writeBlock o st.offset (blockGenFinish st.dataBlock)).1.length
         dataBlock := blockGenInit
         indexBlock := st.indexBlock
         lastKey := st.lastKey
         filter := st.filter.map
          (startBlockO o · (st.offset + (writeBlock o st.offset (blockGenFinish st.dataBlock)).1.length))
         pending := some (writeBlock o st.offset (blockGenFinish st.dataBlock)).2 }) := by
  unfold TableGen.flush
  rw [if_neg (by rw [h]; decide)]
  obtain ⟨off, db, ib, lk, f, pd⟩ := st
  unfold startBlockO
  cases o.policy <;> cases f <;> rfl

/-- the index block after the pending entry (if any) has been added with key `k` -/
def ixAfter (st : TableGen) (k : Bytes) : BlockGen :=
  match st.pending with
  | some h => blockGenAdd 1 st.indexBlock k (handleEncode h)
  | none => st.indexBlock

theorem add_noflush (o : TableOpts) (st : TableGen) (k v : Bytes)
    (h : ¬ blockGenSizeEstimate (blockGenAdd o.restartInterval st.dataBlock k v) ≥ o.blockSize) :
    st.add o k v = ([],
      { offset := st.offset
        dataBlock := blockGenAdd o.restartInterval st.dataBlock k v
        indexBlock := ixAfter st (ikeySeparator o.cmp st.lastKey k)
        lastKey := k
        filter := st.filter.map (·.addKey k)
        pending := none }) := by
  unfold TableGen.add
  simp only [if_neg h]
  rfl

theorem add_flush (o : TableOpts) (st : TableGen) (k v : Bytes)
    (h : blockGenSizeEstimate (blockGenAdd o.restartInterval st.dataBlock k v) ≥ o.blockSize) :
    st.add o k v =
      ((writeBlock o st.offset (blockGenFinish (blockGenAdd o.restartInterval st.dataBlock k v))).1,
      { offset := st.offset +
          (writeBlock o st.offset (blockGenFinish (blockGenAdd o.restartInterval st.dataBlock k v))).1.length
        dataBlock := blockGenInit
        indexBlock := ixAfter st (ikeySeparator o.cmp st.lastKey k)
        lastKey := k
        filter := (st.filter.map (·.addKey k)).map (startBlockO o · (st.offset +
          (writeBlock o st.offset (blockGenFinish (blockGenAdd o.restartInterval st.dataBlock k v))).1.length))
        pending := some
          (writeBlock o st.offset (blockGenFinish (blockGenAdd o.restartInterval st.dataBlock k v))).2 }) := by
  unfold TableGen.add
  simp only [if_pos h]
  rw [flush_of_ne _ _ (blockGenAdd_buffer_ne _ _ _ _)]
  rfl

/-- `finish` on a state whose data block is empty -/
theorem finish_of_empty (o : TableOpts) (st : TableGen) (h : st.dataBlock.buffer.isEmpty = true) :
    st.finish o = tailBytes o st.offset (filtC o st.filter)
      (blockGenFinish (ixAfter st (ikeySuccessor o.cmp st.lastKey))) := by
  unfold TableGen.finish
  rw [flush_of_empty o st h]
  obtain ⟨off, db, ib, lk, f, pd⟩ := st
  unfold tailBytes tailFooter indexW metaW filtC ixAfter
  cases o.policy <;> cases f <;> simp only [filterBytes, afterFilter, metaEntries, List.nil_append] <;> rfl

theorem finish_eq (o : TableOpts) (st : TableGen) :
    st.finish o = (st.flush o).1 ++ tailBytes o (st.flush o).2.offset (filtC o (st.flush o).2.filter)
      (blockGenFinish (ixAfter (st.flush o).2 (ikeySuccessor o.cmp (st.flush o).2.lastKey))) := by
  unfold TableGen.finish
  generalize st.flush o = fl
  obtain ⟨b, off, db, ib, lk, f, pd⟩ := fl
  unfold tailBytes tailFooter indexW metaW filtC ixAfter
  cases o.policy <;> cases f <;> simp only [filterBytes, afterFilter, metaEntries, List.nil_append] <;> rfl

/-! ### the builder's loop -/

theorem blockGenAddAll_snoc (iv : Nat) (g : BlockGen) (cur : List (Bytes × Bytes)) (e : Bytes × Bytes) :
    blockGenAddAll iv g (cur ++ [e]) = blockGenAdd iv (blockGenAddAll iv g cur) e.1 e.2 := by
  unfold blockGenAddAll
  rw [List.foldl_append]; rfl

theorem blockGenAddAll_cons (iv : Nat) (g : BlockGen) (e : Bytes × Bytes) (es : List (Bytes × Bytes)) :
    blockGenAddAll iv g (e :: es) = blockGenAddAll iv (blockGenAdd iv g e.1 e.2) es := rfl

theorem blockGenAddAll_buffer_ne (iv : Nat) (cur : List (Bytes × Bytes)) (h : cur ≠ []) :
    (blockGenAddAll iv blockGenInit cur).buffer.isEmpty = false := by
  rcases List.eq_nil_or_concat cur with h' | ⟨l, e, rfl⟩
  · exact absurd h' h
  · rw [List.concat_eq_append, blockGenAddAll_snoc]; exact blockGenAdd_buffer_ne _ _ _ _

/-- the file as a function of the cut: state = (offset, index block so far, pending index entry,
    filter builder before the `start_block` of the open block) -/
def goSpec (o : TableOpts) (off : Nat) (ixg : BlockGen) (prev : Option (Bytes × BlockHandle))
    (fo : Option FilterGen) (bss : List (List (Bytes × Bytes))) : Bytes :=
  dataBytes o off bss ++ tailBytes o (off + (dataBytes o off bss).length)
    (filtC o (fo.map fun g =>
      startBlockO o ((fblGo o off bss).foldl (addBlockO o) g) (off + (dataBytes o off bss).length)))
    (blockGenFinish (blockGenAddAll 1 ixg (ixGo o.cmp prev (layGo o off bss))))

/-- the index block after the pending entry has been written in front of block `b` -/
def ixNext (c : Cmp) (ixg : BlockGen) (b : List (Bytes × Bytes)) : Option (Bytes × BlockHandle) → BlockGen
  | none => ixg
  | some (lk, h0) => blockGenAdd 1 ixg (ikeySeparator c lk (firstKeyOf b)) (handleEncode h0)

theorem goSpec_cons (o : TableOpts) (off : Nat) (ixg : BlockGen) (prev : Option (Bytes × BlockHandle))
    (fo : Option FilterGen) (b : List (Bytes × Bytes)) (rest : List (List (Bytes × Bytes))) :
    goSpec o off ixg prev fo (b :: rest) =
      (dataW o off b).1 ++ goSpec o (off + (dataW o off b).1.length) (ixNext o.cmp ixg b prev)
        (some (lastKeyOf b, (dataW o off b).2)) (fo.map (addBlockO o · (off, b.map (·.1)))) rest := by
  unfold goSpec
  have hix : blockGenAddAll 1 ixg (ixGo o.cmp prev (layGo o off (b :: rest)))
      = blockGenAddAll 1 (ixNext o.cmp ixg b prev) (ixGo o.cmp (some (lastKeyOf b, (dataW o off b).2))
          (layGo o (off + (dataW o off b).1.length) rest)) := by
    cases prev with
    | none => simp only [layGo, ixGo, ixNext]
    | some p => obtain ⟨lk, h0⟩ := p; simp only [layGo, ixGo, ixNext, blockGenAddAll_cons]
  rw [hix]
  simp only [dataBytes, fblGo, List.foldl_cons, List.length_append, List.append_assoc, Nat.add_assoc,
    Option.map_map, Function.comp_def]

theorem goSpec_nil (o : TableOpts) (off : Nat) (ixg : BlockGen) (prev : Option (Bytes × BlockHandle))
    (fo : Option FilterGen) :
    goSpec o off ixg prev fo [] = tailBytes o off (filtC o (fo.map (startBlockO o · off)))
      (blockGenFinish (blockGenAddAll 1 ixg (ixGo o.cmp prev []))) := by
  simp only [goSpec, dataBytes, fblGo, layGo, List.foldl_nil, List.length_nil, Nat.add_zero, List.nil_append]

theorem cutGo_head (o : TableOpts) (es : List (Bytes × Bytes)) :
    ∀ cur : List (Bytes × Bytes), cur ≠ [] →
      ∃ t rest, cutGo o cur es = (cur ++ t) :: rest := by
  induction es with
  | nil =>
    intro cur hc
    refine ⟨[], [], ?_⟩
    cases cur with
    | nil => exact absurd rfl hc
    | cons a as => simp [cutGo]
  | cons e es ih =>
    intro cur hc
    unfold cutGo
    split
    · exact ⟨[e], _, rfl⟩
    · obtain ⟨t, rest, h⟩ := ih (cur ++ [e]) (by simp)
      exact ⟨e :: t, rest, by rw [h]; simp⟩

theorem firstKeyOf_append (a b : List (Bytes × Bytes)) (h : a ≠ []) : firstKeyOf (a ++ b) = firstKeyOf a := by
  cases a with
  | nil => exact absurd rfl h
  | cons x xs => rfl

theorem lastKeyOf_snoc (a : List (Bytes × Bytes)) (e : Bytes × Bytes) : lastKeyOf (a ++ [e]) = e.1 := by
  simp [lastKeyOf]

theorem tableGo_eq (o : TableOpts) (es : List (Bytes × Bytes)) :
    ∀ (st : TableGen) (cur : List (Bytes × Bytes)) (fo : Option FilterGen),
      st.dataBlock = blockGenAddAll o.restartInterval blockGenInit cur →
      (cur ≠ [] → st.pending = none ∧ st.lastKey = lastKeyOf cur) →
      st.filter = fo.map (addBlockO o · (st.offset, cur.map (·.1))) →
      tableGo o st es =
        goSpec o st.offset st.indexBlock (st.pending.map fun h => (st.lastKey, h)) fo (cutGo o cur es) := by
  induction es with
  | nil =>
    intro st cur fo hd hp hf
    show st.finish o = _
    rw [finish_eq]
    by_cases hc : cur = []
    · subst hc
      have he : st.dataBlock.buffer.isEmpty = true := by rw [hd]; rfl
      rw [flush_of_empty o st he]
      simp only [cutGo, List.isEmpty_nil, if_true, goSpec_nil, List.nil_append, hf]
      congr 2
      · unfold ixAfter
        cases st.pending <;> rfl
    · have he : st.dataBlock.buffer.isEmpty = false := by rw [hd]; exact blockGenAddAll_buffer_ne _ _ hc
      obtain ⟨hp1, hp2⟩ := hp hc
      rw [flush_of_ne o st he]
      have hcut : cutGo o cur [] = [cur] := by
        cases cur with
        | nil => exact absurd rfl hc
        | cons a as => simp [cutGo]
      rw [hcut, goSpec_cons, goSpec_nil]
      simp only [hp1, Option.map_none, ixNext, ixGo, hf, Option.map_map, ixAfter, hd, dataW, blockBuild, hp2]
      rfl
  | cons e es ih =>
    intro st cur fo hd hp hf
    have hd' : blockGenAdd o.restartInterval st.dataBlock e.1 e.2
        = blockGenAddAll o.restartInterval blockGenInit (cur ++ [e]) := by
      rw [blockGenAddAll_snoc, hd]
    have hixA : ∀ b : List (Bytes × Bytes), firstKeyOf b = e.1 →
        ixAfter st (ikeySeparator o.cmp st.lastKey e.1)
          = ixNext o.cmp st.indexBlock b (st.pending.map fun h => (st.lastKey, h)) := by
      intro b hb
      unfold ixAfter
      cases st.pending with
      | none => rfl
      | some h => simp only [Option.map_some, ixNext, hb]
    show (st.add o e.1 e.2).1 ++ tableGo o (st.add o e.1 e.2).2 es = _
    by_cases hfl : blockGenSizeEstimate (blockGenAdd o.restartInterval st.dataBlock e.1 e.2) ≥ o.blockSize
    · rw [add_flush o st e.1 e.2 hfl]
      have hcut : cutGo o cur (e :: es) = (cur ++ [e]) :: cutGo o [] es := by
        rw [cutGo, ← hd', if_pos hfl]
      rw [hcut, goSpec_cons]
      simp only []
      rw [ih _ [] (fo.map (addBlockO o · (st.offset, (cur ++ [e]).map (·.1)))) rfl
        (fun h => absurd rfl h) ?_]
      · simp only [Option.map_some, dataW, blockBuild, ← hd']
        by_cases hc : cur = []
        · subst hc
          rw [hixA [e] rfl]
          simp only [List.nil_append]
          rfl
        · obtain ⟨hp1, _⟩ := hp hc
          simp only [hp1, Option.map_none, ixNext, ixAfter, lastKeyOf_snoc]
      · simp only [hf, Option.map_map, Function.comp_def, addBlockO, List.map_append, List.foldl_append,
          List.map_cons, List.map_nil, List.foldl_cons, List.foldl_nil]
    · rw [add_noflush o st e.1 e.2 hfl]
      have hcut : cutGo o cur (e :: es) = cutGo o (cur ++ [e]) es := by
        rw [cutGo, ← hd', if_neg hfl]
      rw [hcut]
      simp only [List.nil_append]
      rw [ih _ (cur ++ [e]) fo hd' (fun _ => ⟨rfl, (lastKeyOf_snoc cur e).symm⟩) ?_]
      · simp only [Option.map_none]
        obtain ⟨t, rest, hcg⟩ := cutGo_head o es (cur ++ [e]) (by simp)
        rw [hcg, goSpec_cons, goSpec_cons]
        by_cases hc : cur = []
        · subst hc
          rw [hixA ([] ++ [e] ++ t) rfl]
          rfl
        · obtain ⟨hp1, _⟩ := hp hc
          simp only [hp1, Option.map_none, ixNext, ixAfter]
      · simp only [hf, Option.map_map, Function.comp_def, addBlockO, List.map_append, List.foldl_append,
          List.map_cons, List.map_nil, List.foldl_cons, List.foldl_nil]

/-! ### the whole file -/

/-- the data-block partition chosen by the builder -/
def tableCut (o : TableOpts) (es : List (Bytes × Bytes)) : List (List (Bytes × Bytes)) := cutGo o [] es

/-- contents of the filter block of the table with data blocks `bss` -/
def tableFilterC (o : TableOpts) (bss : List (List (Bytes × Bytes))) : Option Bytes :=
  o.policy.map fun p => filterBuild p (fblGo o 0 bss ++ [((dataBytes o 0 bss).length, [])])

/-- the index entries of the table with data blocks `bss` -/
def tableIndex (o : TableOpts) (bss : List (List (Bytes × Bytes))) : List (Bytes × Bytes) :=
  ixGo o.cmp none (layGo o 0 bss)

/-- the file with data blocks `bss` -/
def tableAssemble (o : TableOpts) (bss : List (List (Bytes × Bytes))) : Bytes :=
  dataBytes o 0 bss ++ tailBytes o (dataBytes o 0 bss).length (tableFilterC o bss)
    (blockBuild 1 (tableIndex o bss))

theorem foldl_addBlockO (o : TableOpts) (p : Policy) (hp : o.policy = some p) (bl : List (Nat × List Bytes))
    (g : FilterGen) : bl.foldl (addBlockO o) g = bl.foldl (FilterGen.addBlock p) g := by
  induction bl generalizing g with
  | nil => rfl
  | cons b bl ih =>
    simp only [List.foldl_cons]
    rw [ih]
    simp only [addBlockO, startBlockO, hp, FilterGen.addBlock]

theorem tableBuild_eq (o : TableOpts) (es : List (Bytes × Bytes)) :
    tableBuild o es = tableAssemble o (tableCut o es) := by
  unfold tableBuild
  rw [tableGo_eq o es (tableGenInit o) [] (o.policy.map fun _ => ({} : FilterGen)) rfl (fun h => absurd rfl h)]
  · unfold goSpec tableAssemble tableCut tableIndex tableFilterC blockBuild
    simp only [tableGenInit, Option.map_none, Nat.zero_add]
    congr 2
    cases hp : o.policy with
    | none => simp only [filtC, hp, Option.map_none]
    | some p =>
      simp only [filtC, hp, Option.map_some, filterBuild, List.foldl_append, List.foldl_cons, List.foldl_nil,
        FilterGen.addBlock, startBlockO, foldl_addBlockO o p hp]
  · simp only [tableGenInit, Option.map_map, Function.comp_def, addBlockO, List.map_nil, List.foldl_nil,
      startBlockO]
    cases o.policy <;> rfl

theorem cutGo_flatten (o : TableOpts) (es : List (Bytes × Bytes)) :
    ∀ cur, (cutGo o cur es).flatten = cur ++ es := by
  induction es with
  | nil => intro cur; cases cur <;> simp [cutGo]
  | cons e es ih =>
    intro cur
    unfold cutGo
    split
    · simp only [List.flatten_cons, ih, List.nil_append, List.append_assoc, List.singleton_append]
    · rw [ih]; simp

theorem cutGo_ne_nil (o : TableOpts) (es : List (Bytes × Bytes)) :
    ∀ cur, ∀ b ∈ cutGo o cur es, b ≠ [] := by
  induction es with
  | nil =>
    intro cur b hb
    cases cur with
    | nil => simp [cutGo] at hb
    | cons a as => simp [cutGo] at hb; subst hb; simp
  | cons e es ih =>
    intro cur b hb
    unfold cutGo at hb
    split at hb
    · rcases List.mem_cons.mp hb with rfl | hb
      · simp
      · exact ih [] b hb
    · exact ih _ b hb

theorem tableCut_flatten (o : TableOpts) (es : List (Bytes × Bytes)) : (tableCut o es).flatten = es := by
  rw [tableCut, cutGo_flatten]; rfl

theorem tableCut_ne_nil (o : TableOpts) (es : List (Bytes × Bytes)) : ∀ b ∈ tableCut o es, b ≠ [] :=
  cutGo_ne_nil o es []

end Lcdb
